// astmut enumerates single-point mutations of a Go source file and writes one of them.
//
//	astmut list <file.go>            prints "<index>\t<line>:<col>\t<kind>\t<detail>" for every mutation point
//	astmut apply <file.go> <index>   prints the mutated source to stdout
//
// Mutation operators: relational/arithmetic/logical/bitwise operator swaps, small integer literal +-1,
// negated if-conditions, deleted assignment / expression / inc-dec statements, `return ..., err` -> nil error.
package main

import (
	"bytes"
	"fmt"
	"go/ast"
	"go/format"
	"go/parser"
	"go/token"
	"os"
	"strconv"
)

type mut struct {
	pos    token.Pos
	kind   string
	detail string
	apply  func()
}

var swaps = map[token.Token][]token.Token{
	token.LSS: {token.LEQ}, token.LEQ: {token.LSS}, token.GTR: {token.GEQ}, token.GEQ: {token.GTR},
	token.EQL: {token.NEQ}, token.NEQ: {token.EQL},
	token.ADD: {token.SUB}, token.SUB: {token.ADD}, token.MUL: {token.QUO},
	token.LAND: {token.LOR}, token.LOR: {token.LAND},
	token.SHL: {token.SHR}, token.SHR: {token.SHL}, token.AND: {token.OR}, token.OR: {token.AND}, token.AND_NOT: {token.AND},
}

func collect(f *ast.File) []mut {
	var ms []mut
	var inConst bool
	ast.Inspect(f, func(n ast.Node) bool {
		switch x := n.(type) {
		case *ast.GenDecl:
			inConst = x.Tok == token.CONST || x.Tok == token.IMPORT
			if x.Tok == token.IMPORT {
				return false
			}
		case *ast.BinaryExpr:
			for _, to := range swaps[x.Op] {
				from, to := x.Op, to
				if from == token.ADD {
					// skip string concatenation
					if bl, ok := x.X.(*ast.BasicLit); ok && bl.Kind == token.STRING {
						continue
					}
					if bl, ok := x.Y.(*ast.BasicLit); ok && bl.Kind == token.STRING {
						continue
					}
				}
				ms = append(ms, mut{x.OpPos, "op", from.String() + " -> " + to.String(), func() { x.Op = to }})
			}
		case *ast.BasicLit:
			if x.Kind == token.INT && !inConst {
				if v, err := strconv.ParseInt(x.Value, 0, 64); err == nil && v >= 0 && v <= 1<<24 {
					ms = append(ms, mut{x.Pos(), "int", x.Value + " -> +1", func() { x.Value = strconv.FormatInt(v+1, 10) }})
					if v > 0 {
						ms = append(ms, mut{x.Pos(), "int", x.Value + " -> -1", func() { x.Value = strconv.FormatInt(v-1, 10) }})
					}
				}
			}
		case *ast.IfStmt:
			ms = append(ms, mut{x.Cond.Pos(), "negate-if", "", func() { x.Cond = &ast.UnaryExpr{Op: token.NOT, X: &ast.ParenExpr{X: x.Cond}} }})
		case *ast.BlockStmt:
			for i, st := range x.List {
				i := i
				switch s := st.(type) {
				case *ast.AssignStmt:
					if s.Tok != token.DEFINE {
						ms = append(ms, mut{s.Pos(), "del-assign", "", func() { x.List[i] = &ast.EmptyStmt{Semicolon: s.Pos()} }})
					}
				case *ast.IncDecStmt:
					ms = append(ms, mut{s.Pos(), "del-incdec", "", func() { x.List[i] = &ast.EmptyStmt{Semicolon: s.Pos()} }})
				case *ast.ExprStmt:
					if _, ok := s.X.(*ast.CallExpr); ok {
						ms = append(ms, mut{s.Pos(), "del-call", "", func() { x.List[i] = &ast.EmptyStmt{Semicolon: s.Pos()} }})
					}
				case *ast.ReturnStmt:
					if n := len(s.Results); n > 0 {
						if id, ok := s.Results[n-1].(*ast.Ident); ok && id.Name == "err" {
							ms = append(ms, mut{s.Pos(), "return-nil-err", "", func() { s.Results[n-1] = ast.NewIdent("nil") }})
						}
					}
				}
			}
		}
		return true
	})
	return ms
}

func main() {
	if len(os.Args) < 3 {
		fmt.Fprintln(os.Stderr, "usage: astmut list|apply file [index]")
		os.Exit(2)
	}
	fset := token.NewFileSet()
	f, err := parser.ParseFile(fset, os.Args[2], nil, parser.ParseComments)
	if err != nil {
		fmt.Fprintln(os.Stderr, err)
		os.Exit(2)
	}
	ms := collect(f)
	switch os.Args[1] {
	case "list":
		for i, m := range ms {
			p := fset.Position(m.pos)
			fmt.Printf("%d\t%d:%d\t%s\t%s\n", i, p.Line, p.Column, m.kind, m.detail)
		}
	case "apply":
		i, _ := strconv.Atoi(os.Args[3])
		if i < 0 || i >= len(ms) {
			os.Exit(2)
		}
		ms[i].apply()
		var buf bytes.Buffer
		if err := format.Node(&buf, fset, f); err != nil {
			fmt.Fprintln(os.Stderr, err)
			os.Exit(2)
		}
		os.Stdout.Write(buf.Bytes())
	}
}
