module verif/tools/astmut

go 1.23
