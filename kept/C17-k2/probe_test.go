package json_test

// Probe for change 2 (package directory: json/).

import (
	"bytes"
	"encoding/json"
	"io"
	"io/ioutil"
	"math/rand"
	"reflect"
	"strings"
	"testing"

	oj "github.com/ossrs/go-oryx-lib/json"
)

type k5c17n2Seg struct {
	data []byte
	rnd  *rand.Rand
	max  int
}

func (v *k5c17n2Seg) Read(p []byte) (int, error) {
	if len(v.data) == 0 {
		return 0, io.EOF
	}
	n := 1 + v.rnd.Intn(v.max)
	if n > len(v.data) {
		n = len(v.data)
	}
	if n > len(p) {
		n = len(p)
	}
	copy(p, v.data[:n])
	v.data = v.data[n:]
	return n, nil
}

const k5c17n2Alphabet = "\"\\/*'\n ab//*/"

func k5c17n2Str(r *rand.Rand) string {
	n := r.Intn(8)
	b := make([]byte, n)
	for i := range b {
		b[i] = k5c17n2Alphabet[r.Intn(len(k5c17n2Alphabet))]
	}
	return string(b)
}

func k5c17n2Value(r *rand.Rand, depth int) interface{} {
	switch k := r.Intn(7); {
	case k == 0:
		return nil
	case k == 1:
		return r.Intn(2) == 0
	case k == 2:
		return float64(r.Intn(2000) - 1000)
	case k == 3 || depth <= 0:
		return k5c17n2Str(r)
	case k == 4 || k == 5:
		a := []interface{}{}
		for i := r.Intn(4); i > 0; i-- {
			a = append(a, k5c17n2Value(r, depth-1))
		}
		return a
	default:
		m := map[string]interface{}{}
		for i := r.Intn(4); i > 0; i-- {
			m[k5c17n2Str(r)] = k5c17n2Value(r, depth-1)
		}
		return m
	}
}

func k5c17n2Comment(r *rand.Rand, last bool) string {
	body := strings.Replace(k5c17n2Str(r)+k5c17n2Str(r), "\n", " ", -1)
	switch r.Intn(4) {
	case 0:
		return ""
	case 1:
		return "/*" + strings.Replace(body, "*/", "* /", -1) + "*/"
	case 2:
		if last {
			return "//" + body
		}
		return "//" + body + "\n"
	default:
		return " //" + body + "\n/**/ "
	}
}

// Decorate the compact text at the token boundaries.
func k5c17n2Decorate(r *rand.Rand, text []byte) []byte {
	var o bytes.Buffer
	o.WriteString(k5c17n2Comment(r, false))
	inStr := false
	for i := 0; i < len(text); i++ {
		c := text[i]
		if inStr {
			o.WriteByte(c)
			if c == '\\' {
				i++
				o.WriteByte(text[i])
			} else if c == '"' {
				inStr = false
				o.WriteString(k5c17n2Comment(r, false))
			}
			continue
		}
		if c == '"' {
			inStr = true
			o.WriteByte(c)
			continue
		}
		o.WriteByte(c)
		if strings.IndexByte("{}[],:", c) >= 0 {
			o.WriteString(k5c17n2Comment(r, false))
		}
	}
	o.WriteString(k5c17n2Comment(r, true))
	return o.Bytes()
}

func TestKeep5C17N2(t *testing.T) {
	r := rand.New(rand.NewSource(51701))
	for i := 0; i < 3000; i++ {
		want := k5c17n2Value(r, 3)
		text, err := json.Marshal(want)
		if err != nil {
			t.Fatal(err)
		}
		var std interface{}
		if err = json.Unmarshal(text, &std); err != nil {
			t.Fatal(err)
		}

		// Without comments: byte for byte.
		o, err := ioutil.ReadAll(oj.NewJsonPlusReader(&k5c17n2Seg{data: text, rnd: r, max: 1 + r.Intn(9)}))
		if err != nil || !bytes.Equal(o, text) {
			t.Fatalf("pass through %q: %q %v", text, o, err)
		}

		doc := k5c17n2Decorate(r, text)
		var got interface{}
		d := json.NewDecoder(oj.NewJsonPlusReader(&k5c17n2Seg{data: doc, rnd: r, max: 1 + r.Intn(9)}))
		if err = d.Decode(&got); err != nil {
			t.Fatalf("doc %q: %v", doc, err)
		}
		if !reflect.DeepEqual(got, std) {
			t.Fatalf("doc %q: got %#v want %#v", doc, got, std)
		}

		var got2 interface{}
		if err = oj.Unmarshal(bytes.NewReader(doc), &got2); err != nil || !reflect.DeepEqual(got2, std) {
			t.Fatalf("unmarshal %q: got %#v want %#v, err %v", doc, got2, std, err)
		}
	}
}

// The changed behaviour: the stream is one document, trailing data is rejected.
func TestKeep5C17N2Strict(t *testing.T) {
	var got interface{}
	if err := oj.Unmarshal(strings.NewReader(`{"a":1} // ok` + "\n/* ok */ "), &got); err != nil {
		t.Fatal(err)
	}
	if err := oj.Unmarshal(strings.NewReader(`{"a":1} {"b":2}`), &got); err == nil {
		t.Fatal("trailing value accepted")
	}
	if err := oj.Unmarshal(strings.NewReader(`{"a":1} /* unterminated`), &got); err == nil {
		t.Fatal("unterminated comment after the value accepted")
	}
	if err := oj.Unmarshal(strings.NewReader(``), &got); err == nil || err == io.EOF {
		t.Fatalf("empty document: %v", err)
	}
}
