package flv_test

import (
	"testing"

	"github.com/ossrs/go-oryx-lib/aac"
	"github.com/ossrs/go-oryx-lib/avc"
	"github.com/ossrs/go-oryx-lib/flv"
)

// Belongs to directory flv/ (external test package flv_test).
func TestKeep6C07N3(t *testing.T) {
	defer func() {
		if r := recover(); r != nil {
			t.Fatalf("panic %v", r)
		}
	}()

	for i := 0; i < 256; i++ {
		u := uint8(i)
		_ = aac.ObjectType(u).String()
		_ = aac.ObjectType(u).ToProfile().String()
		_ = aac.Profile(u).String()
		_ = aac.Profile(u).ToObjectType().String()
		_ = aac.SampleRateIndex(u).String()
		_ = aac.Channels(u).String()
		if hz := aac.SampleRateIndex(u).ToHz(); hz < 0 || hz > 96000 {
			t.Fatalf("aac hz %v", hz)
		}

		_ = flv.TagType(u).String()
		_ = flv.AudioFrameTrait(u).String()
		_ = flv.AudioChannels(u).String()
		_ = flv.AudioSampleBits(u).String()
		_ = flv.AudioSamplingRate(u).String()
		_ = flv.AudioCodec(u).String()
		_ = flv.VideoFrameType(u).String()
		_ = flv.VideoCodec(u).String()
		_ = flv.VideoFrameTrait(u).String()
		if hz := flv.AudioSamplingRate(u).ToHz(); hz < 0 || hz > 48000 {
			t.Fatalf("flv hz %v", hz)
		}
		if hz := flv.AudioSamplingRate(u).OpusToHz(); hz < 0 || hz > 48000 {
			t.Fatalf("opus hz %v", hz)
		}
		var sr flv.AudioSamplingRate
		sr.From(aac.SampleRateIndex(u))
		sr.OpusFrom(aac.SampleRateIndex(u))
		var ch flv.AudioChannels
		ch.From(aac.Channels(u))

		_ = avc.NALUType(u).String()
		_ = avc.AVCLevel(u).String()
		_ = (&avc.NALUHeader{NALUType: avc.NALUType(u), NALRefIDC: avc.NALRefIDC(u)}).String()
	}
	for i := 0; i < 65536; i++ {
		if s := avc.AVCProfile(uint16(i)).String(); s == "" {
			t.Fatalf("empty for %v", i)
		}
	}

	// The named values are unchanged.
	if flv.AudioSamplingRate44kHz.ToHz() != 44100 || flv.AudioSamplingRate5kHz.ToHz() != 5512 {
		t.Fatal("flv hz")
	}
	if flv.VideoCodecAVC.String() != "AVC" || aac.ObjectTypeLC.String() != "LC" || avc.NALUTypeIDR.String() != "IDR" {
		t.Fatal("names")
	}
}
