package amf0

import (
	"bytes"
	"math"
	"testing"
)

// Belongs to package directory amf0/ (change 1).
func TestKeep5C05N1(t *testing.T) {
	inner := NewEcmaArray()
	inner.Set("z", NewNumber(math.Copysign(0, -1)))
	inner.Set("", NewBoolean(true))
	inner.Set("a", NewNull())
	root := NewObject()
	root.Set("arr", inner)
	root.Set("sa", NewStrictArray())
	root.Set("n", NewNumber(math.Float64frombits(0x7ff8000000000123)))

	b, err := root.MarshalBinary()
	if err != nil {
		t.Fatal(err)
	}
	if len(b) != root.Size() {
		t.Fatalf("size %v != len %v", root.Size(), len(b))
	}
	// Trailing bytes must not matter.
	in := append(append([]byte{}, b...), 1, 2, 3)
	d := NewObject()
	if err = d.UnmarshalBinary(in); err != nil {
		t.Fatal(err)
	}
	if d.Size() != len(b) {
		t.Fatalf("decoded size %v != %v", d.Size(), len(b))
	}
	b2, err := d.MarshalBinary()
	if err != nil || !bytes.Equal(b, b2) {
		t.Fatalf("re-marshal differs %v", err)
	}
	da := d.Get("arr").(*EcmaArray)
	keys := []string{}
	for _, p := range da.properties {
		keys = append(keys, string(p.key))
	}
	if len(keys) != 3 || keys[0] != "z" || keys[1] != "" || keys[2] != "a" {
		t.Fatalf("keys %q", keys)
	}
	if f := float64(*da.Get("z").(*Number)); !math.Signbit(f) || f != 0 {
		t.Fatalf("-0 lost")
	}
	// Outside behaviour: the count hint now announces the number of elements.
	ab, _ := inner.MarshalBinary()
	if !bytes.Equal(ab[:5], []byte{8, 0, 0, 0, 3}) {
		t.Fatalf("header %v", ab[:5])
	}
	// A decoded array with a lying hint still reports the consumed size.
	raw := []byte{8, 0, 0, 0, 9, 0, 1, 'k', 5, 0, 1, 'k', 6, 0, 0, 9, 0xff}
	e := NewEcmaArray()
	if err = e.UnmarshalBinary(raw); err != nil || e.Size() != len(raw)-1 {
		t.Fatalf("err %v size %v", err, e.Size())
	}
}
