package rtmp

import (
	"bytes"
	"reflect"
	"testing"

	"github.com/ossrs/go-oryx-lib/amf0"
	oe "github.com/ossrs/go-oryx-lib/errors"
)

// Belongs to package directory rtmp/ (in-package test).
func TestKeep5C03N3(t *testing.T) {
	wire := &bytes.Buffer{}
	a, b := NewProtocol(wire), NewProtocol(wire)

	send := func(from *Protocol, p Packet) []byte {
		payload, err := p.MarshalBinary()
		if err != nil || len(payload) != p.Size() {
			t.Fatalf("marshal %T err=%v", p, err)
		}
		if err = from.WritePacket(p, 0); err != nil {
			t.Fatalf("write %+v", err)
		}
		return payload
	}
	recv := func(to *Protocol, payload []byte, want interface{}) Packet {
		m, err := to.ReadMessage()
		if err != nil || !bytes.Equal(m.Payload, payload) {
			t.Fatalf("read %+v", err)
		}
		pkt, err := to.DecodeMessage(m)
		if err != nil || reflect.TypeOf(pkt) != reflect.TypeOf(want) {
			t.Fatalf("decode %T want %T: %+v", pkt, want, err)
		}
		if again, _ := pkt.MarshalBinary(); !bytes.Equal(again, payload) {
			t.Fatalf("re-marshal of %T differs", pkt)
		}
		return pkt
	}

	// Requests with arbitrary transaction ids, responses in another order.
	conn := NewConnectAppPacket()
	conn.CommandObject.Set("app", amf0.NewString("live"))
	recv(b, send(a, conn), conn)
	for _, tid := range []amf0.Number{2, 3.5, 1e12} {
		cs := NewCreateStreamPacket()
		cs.TransactionID = tid
		recv(b, send(a, cs), &CallPacket{})
	}
	for _, tid := range []amf0.Number{1e12, 2} {
		res := NewCreateStreamResPacket(tid)
		res.StreamID = tid + 1
		got := recv(a, send(b, res), res).(*CreateStreamResPacket)
		if got.TransactionID != tid || got.StreamID != tid+1 {
			t.Fatalf("res %v", got)
		}
	}
	cres := NewConnectAppResPacket(1)
	cres.Args = amf0.NewObject()
	recv(a, send(b, cres), cres)

	// Exactly once: tid 2 was consumed; tid 99 was never requested.
	for _, tid := range []amf0.Number{2, 99, 1} {
		send(b, NewCreateStreamResPacket(tid))
		m, err := a.ReadMessage()
		if err != nil {
			t.Fatalf("read %+v", err)
		}
		if _, err = a.DecodeMessage(m); err == nil {
			t.Fatalf("tid=%v must be an error", tid)
		} else if oe.Cause(err) != ErrNoRequest { // new: the root cause is a sentinel
			t.Fatalf("cause %v", oe.Cause(err))
		}
	}

	// Typed wait skips control and command traffic, the pending tid 3.5 is still matched.
	res := NewCreateStreamResPacket(3.5)
	for _, p := range []Packet{NewUserControl(), NewCloseStreamPacket(), NewSetPeerBandwidth(), res} {
		send(b, p)
	}
	var got *CreateStreamResPacket
	if _, err := a.ExpectPacket(&got); err != nil || got.TransactionID != 3.5 {
		t.Fatalf("expect %+v", err)
	}

	// Outside the statement: an _error response for an outstanding request is delivered as a call.
	cs := NewCreateStreamPacket()
	cs.TransactionID = 8
	recv(b, send(a, cs), &CallPacket{})
	rej := NewCallPacket()
	rej.CommandName, rej.TransactionID = "_error", 8
	rej.CommandObject, rej.Args = amf0.NewNull(), amf0.NewObject()
	recv(a, send(b, rej), rej)
	// And it consumed the request, a late _result is an error.
	send(b, NewCreateStreamResPacket(8))
	if m, err := a.ReadMessage(); err != nil {
		t.Fatalf("read %+v", err)
	} else if _, err = a.DecodeMessage(m); oe.Cause(err) != ErrNoRequest {
		t.Fatalf("late result: %v", err)
	}

	// Outside the statement: a non-pointer argument is an error, not a panic.
	if _, err := a.ExpectPacket(UserControl{}); err == nil {
		t.Fatal("expect error")
	}
}
