package flv_test

import (
	"bytes"
	"reflect"
	"testing"

	"github.com/ossrs/go-oryx-lib/flv"
)

func TestKeep6C10N3(t *testing.T) {
	ap, _ := flv.NewAudioPackager()
	vp, _ := flv.NewVideoPackager()
	raws := [][]byte{{}, {1}, {1, 2, 3, 4, 5, 6, 7}}
	for b0 := 0; b0 < 256; b0++ {
		for _, raw := range raws {
			// audio, frame -> tag -> frame
			f := &flv.AudioFrame{
				SoundFormat: flv.AudioCodec(b0 >> 4), SoundRate: flv.AudioSamplingRate(b0 >> 2 & 3),
				SoundSize: flv.AudioSampleBits(b0 >> 1 & 1), SoundType: flv.AudioChannels(b0 & 1), Raw: raw,
			}
			if f.SoundFormat == flv.AudioCodecAAC {
				f.Trait = flv.AudioFrameTraitRaw
			} else if f.SoundFormat == flv.AudioCodecOpus {
				f.Trait = flv.AudioFrameTraitOpusRaw | flv.AudioFrameTraitOpusSamplingRate | flv.AudioFrameTraitOpusAudioLevel
				f.SoundRate, f.AudioLevel = flv.AudioSamplingRateFB48kHz, 0xbeef
			}
			tag, err := ap.Encode(f)
			if err != nil {
				t.Fatal(err)
			}
			if len(tag) >= 2 {
				g, err := ap.Decode(tag)
				if err != nil {
					t.Fatal(err)
				}
				if len(raw) == 0 {
					g.Raw, f.Raw = nil, nil
				}
				if !reflect.DeepEqual(f, g) {
					t.Fatalf("audio %#x: %+v != %+v", b0, f, g)
				}
				if flv.AudioCodec(tag[0]>>4) != f.SoundFormat {
					t.Fatalf("codec in first byte")
				}
				g.Raw = raw
				if tag2, _ := ap.Encode(g); !bytes.Equal(tag, tag2) {
					t.Fatalf("audio reencode %x != %x", tag2, tag)
				}
			}

			// video
			v := &flv.VideoFrame{CodecID: flv.VideoCodec(b0 & 15), FrameType: flv.VideoFrameType(b0 >> 4), Raw: raw}
			if v.CodecID == flv.VideoCodecAVC || v.CodecID == flv.VideoCodecHEVC {
				v.Trait, v.CTS = flv.VideoFrameTraitNALU, 0xabcdef
			}
			vt, err := vp.Encode(v)
			if err != nil {
				t.Fatal(err)
			}
			if len(vt) >= 5 {
				w, err := vp.Decode(vt)
				if err != nil {
					t.Fatal(err)
				}
				if len(raw) == 0 {
					w.Raw, v.Raw = nil, nil
				}
				if !reflect.DeepEqual(v, w) {
					t.Fatalf("video %#x: %+v != %+v", b0, v, w)
				}
				if vt[0] != byte(b0) {
					t.Fatalf("first byte")
				}
				w.Raw = raw
				if vt2, _ := vp.Encode(w); !bytes.Equal(vt, vt2) {
					t.Fatalf("video reencode")
				}
			}
		}
	}
}

func TestKeep6C10N3Rates(t *testing.T) {
	for c, hz := range map[flv.AudioSamplingRate]int{0: 5512, 1: 11025, 2: 22050, 3: 44100} {
		if c.ToHz() != hz {
			t.Fatalf("ToHz(%d)=%d", c, c.ToHz())
		}
	}
	for c, hz := range map[flv.AudioSamplingRate]int{8: 8000, 12: 12000, 16: 16000, 24: 24000, 48: 48000} {
		if c.OpusToHz() != hz {
			t.Fatalf("OpusToHz(%d)=%d", c, c.OpusToHz())
		}
	}
}

func TestKeep6C10N3Strings(t *testing.T) {
	for got, want := range map[string]string{
		flv.AudioCodecReserved.String():      "Reserved",
		flv.AudioCodecUndefined12.String():   "Undefined",
		flv.VideoCodecOn2VP6.String():        "On2VP6",
		flv.AudioFrameTrait(0x12).String():   "RAW|0x10",
		flv.AudioFrameTrait(0x0e).String():   "RAW|SR|AL",
		(&flv.VideoFrame{CodecID: 7, FrameType: 1, Trait: 1, CTS: 40, Raw: []byte{1, 2}}).String(): "Video(AVC, Keyframe, NALU, cts=40, 2 bytes)",
	} {
		if got != want {
			t.Fatalf("%q != %q", got, want)
		}
	}
}
