package amf0

import (
	"bytes"
	"encoding/binary"
	"fmt"
	"math"
	"testing"
)

// Independent mini model + reference codec written from the AMF0 spec
// (number, boolean, string, object, null, undefined, ecma array).
type refK6C06N2 struct {
	kind byte // marker
	num  float64
	b    bool
	s    string
	keys []string
	vals []*refK6C06N2
}

func refEncK6C06N2(w *bytes.Buffer, v *refK6C06N2) {
	w.WriteByte(v.kind)
	switch v.kind {
	case 0:
		binary.Write(w, binary.BigEndian, math.Float64bits(v.num))
	case 1:
		if v.b {
			w.WriteByte(1)
		} else {
			w.WriteByte(0)
		}
	case 2:
		binary.Write(w, binary.BigEndian, uint16(len(v.s)))
		w.WriteString(v.s)
	case 3, 8:
		if v.kind == 8 {
			binary.Write(w, binary.BigEndian, uint32(len(v.keys)))
		}
		for i, k := range v.keys {
			binary.Write(w, binary.BigEndian, uint16(len(k)))
			w.WriteString(k)
			refEncK6C06N2(w, v.vals[i])
		}
		w.Write([]byte{0, 0, 9})
	}
}

func refDecK6C06N2(p []byte) (*refK6C06N2, []byte, error) {
	if len(p) < 1 {
		return nil, nil, fmt.Errorf("empty")
	}
	v := &refK6C06N2{kind: p[0]}
	p = p[1:]
	switch v.kind {
	case 0:
		if len(p) < 8 {
			return nil, nil, fmt.Errorf("short number")
		}
		v.num = math.Float64frombits(binary.BigEndian.Uint64(p))
		return v, p[8:], nil
	case 1:
		if len(p) < 1 {
			return nil, nil, fmt.Errorf("short bool")
		}
		v.b = p[0] != 0
		return v, p[1:], nil
	case 2:
		if len(p) < 2 || len(p) < 2+int(binary.BigEndian.Uint16(p)) {
			return nil, nil, fmt.Errorf("short string")
		}
		n := int(binary.BigEndian.Uint16(p))
		v.s = string(p[2 : 2+n])
		return v, p[2+n:], nil
	case 5, 6:
		return v, p, nil
	case 3, 8:
		if v.kind == 8 {
			if len(p) < 4 {
				return nil, nil, fmt.Errorf("short count")
			}
			p = p[4:]
		}
		for {
			if len(p) < 3 {
				return nil, nil, fmt.Errorf("short object")
			}
			n := int(binary.BigEndian.Uint16(p))
			if n == 0 && p[2] == 9 {
				return v, p[3:], nil
			}
			if len(p) < 2+n {
				return nil, nil, fmt.Errorf("short key")
			}
			k := string(p[2 : 2+n])
			c, rest, err := refDecK6C06N2(p[2+n:])
			if err != nil {
				return nil, nil, err
			}
			v.keys, v.vals, p = append(v.keys, k), append(v.vals, c), rest
		}
	}
	return nil, nil, fmt.Errorf("unsupported marker %v", v.kind)
}

// Build the library value for a model value.
func libBuildK6C06N2(v *refK6C06N2) Amf0 {
	switch v.kind {
	case 0:
		return NewNumber(v.num)
	case 1:
		return NewBoolean(v.b)
	case 2:
		return NewString(v.s)
	case 5:
		return NewNull()
	case 6:
		return NewUndefined()
	case 3:
		o := NewObject()
		for i, k := range v.keys {
			o.Set(k, libBuildK6C06N2(v.vals[i]))
		}
		return o
	case 8:
		o := NewEcmaArray()
		for i, k := range v.keys {
			o.Set(k, libBuildK6C06N2(v.vals[i]))
		}
		return o
	}
	panic("kind")
}

// Compare a library value to the model, using the public API only.
func libSameK6C06N2(a Amf0, v *refK6C06N2) error {
	switch v.kind {
	case 0:
		if n, ok := a.(*Number); !ok || math.Float64bits(float64(*n)) != math.Float64bits(v.num) {
			return fmt.Errorf("number %v != %v", a, v.num)
		}
	case 1:
		if n, ok := a.(*Boolean); !ok || bool(*n) != v.b {
			return fmt.Errorf("bool %v != %v", a, v.b)
		}
	case 2:
		if n, ok := a.(*String); !ok || string(*n) != v.s {
			return fmt.Errorf("string %v != %v", a, v.s)
		}
	case 5, 6:
		if a == nil || a.amf0Marker() != marker(v.kind) {
			return fmt.Errorf("marker %v != %v", a, v.kind)
		}
	case 3, 8:
		var get func(string) Amf0
		if o, ok := a.(*Object); ok && v.kind == 3 {
			get = o.Get
		} else if o, ok := a.(*EcmaArray); ok && v.kind == 8 {
			get = o.Get
		} else {
			return fmt.Errorf("container %T != %v", a, v.kind)
		}
		for i, k := range v.keys {
			if err := libSameK6C06N2(get(k), v.vals[i]); err != nil {
				return fmt.Errorf("%v: %v", k, err)
			}
		}
	}
	return nil
}

func refSameK6C06N2(a, b *refK6C06N2) bool {
	if a.kind != b.kind || math.Float64bits(a.num) != math.Float64bits(b.num) || a.b != b.b || a.s != b.s || len(a.keys) != len(b.keys) {
		return false
	}
	for i := range a.keys {
		if a.keys[i] != b.keys[i] || !refSameK6C06N2(a.vals[i], b.vals[i]) {
			return false
		}
	}
	return true
}

func samplesK6C06N2() []*refK6C06N2 {
	num := func(f float64) *refK6C06N2 { return &refK6C06N2{kind: 0, num: f} }
	str := func(s string) *refK6C06N2 { return &refK6C06N2{kind: 2, s: s} }
	meta := &refK6C06N2{kind: 8, keys: []string{"duration", "width", "stereo", "encoder", "nothing", "undef"},
		vals: []*refK6C06N2{num(12.5), num(1920), {kind: 1, b: true}, str("Lavf58.29.100"), {kind: 5}, {kind: 6}}}
	nested := &refK6C06N2{kind: 3, keys: []string{"app", "", "meta", "empty", "obj"},
		vals: []*refK6C06N2{str("live"), num(math.Inf(-1)), meta, {kind: 8}, {kind: 3, keys: []string{"x"}, vals: []*refK6C06N2{str("")}}}}
	return []*refK6C06N2{num(0), num(math.NaN()), num(-1.5e300), {kind: 1}, {kind: 1, b: true}, str(""), str("h\x00\xffi"),
		{kind: 5}, {kind: 6}, {kind: 3}, {kind: 8}, meta, nested}
}

// The property on a few examples, both directions, plus all 256 markers.
func checkPropertyK6C06N2(t *testing.T) {
	for i, v := range samplesK6C06N2() {
		// library encodes, reference decodes.
		lb, err := libBuildK6C06N2(v).MarshalBinary()
		if err != nil {
			t.Fatalf("#%v marshal %v", i, err)
		}
		if got, rest, err := refDecK6C06N2(lb); err != nil || len(rest) != 0 || !refSameK6C06N2(got, v) {
			t.Fatalf("#%v reference decoder disagrees on % x: %v", i, lb, err)
		}
		// reference encodes, library decodes.
		var w bytes.Buffer
		refEncK6C06N2(&w, v)
		a, err := Discovery(w.Bytes())
		if err != nil {
			t.Fatalf("#%v discovery %v", i, err)
		}
		if err = a.UnmarshalBinary(w.Bytes()); err != nil {
			t.Fatalf("#%v unmarshal %v", i, err)
		}
		if err = libSameK6C06N2(a, v); err != nil {
			t.Fatalf("#%v library decoded another value: %v", i, err)
		}
		if a.Size() != w.Len() {
			t.Fatalf("#%v size %v != %v", i, a.Size(), w.Len())
		}
	}
	supported := map[int]bool{0: true, 1: true, 2: true, 3: true, 5: true, 6: true, 8: true, 9: true, 10: true}
	for m := 0; m < 256; m++ {
		top := []byte{byte(m), 0, 0, 0, 0, 0, 0, 0, 0, 0, 9, 0, 0, 9}
		nested := append([]byte{3, 0, 1, 'k'}, append(top, 0, 0, 9)...)
		_, err := Discovery(top)
		o := NewObject()
		nerr := o.UnmarshalBinary(nested)
		if !supported[m] && (err == nil || nerr == nil) {
			t.Fatalf("marker %v is not reported as error: %v, %v", m, err, nerr)
		}
		if supported[m] && err != nil {
			t.Fatalf("marker %v rejected: %v", m, err)
		}
	}
}

func TestKeep6C06N2(t *testing.T) {
	checkPropertyK6C06N2(t)

	// Outside the property: a receiver which is used again is replaced, not appended to.
	one := []byte{3, 0, 1, 'a', 5, 0, 0, 9}
	two := []byte{3, 0, 1, 'b', 1, 1, 0, 1, 'c', 6, 0, 0, 9}
	o := NewObject()
	for _, b := range [][]byte{one, two, one} {
		if err := o.UnmarshalBinary(b); err != nil {
			t.Fatal(err)
		}
		if o.Size() != len(b) {
			t.Fatalf("size %v != %v", o.Size(), len(b))
		}
		if m, err := o.MarshalBinary(); err != nil || !bytes.Equal(m, b) {
			t.Fatalf("% x != % x, %v", m, b, err)
		}
	}
	if o.Get("b") != nil || o.Get("a") == nil {
		t.Fatal("stale property")
	}

	// An object built by Set() then used as receiver.
	e := NewEcmaArray()
	e.Set("old", NewNumber(1))
	if err := e.UnmarshalBinary([]byte{8, 0, 0, 0, 1, 0, 1, 'n', 2, 0, 1, 'x', 0, 0, 9}); err != nil {
		t.Fatal(err)
	}
	if e.Get("old") != nil || e.Size() != 15 {
		t.Fatalf("stale property, size %v", e.Size())
	}

	// Strict array (in the layout of this library): the second input is not ignored any more.
	a := NewStrictArray()
	if err := a.UnmarshalBinary([]byte{10, 0, 0, 0, 1, 0, 1, 'e', 5}); err != nil {
		t.Fatal(err)
	}
	if err := a.UnmarshalBinary([]byte{10, 0, 0, 0, 1, 0, 1, 'f', 6}); err != nil {
		t.Fatal(err)
	}
	if a.Get("e") != nil || a.Get("f") == nil || a.Size() != 9 {
		t.Fatalf("stale element, size %v", a.Size())
	}
	if err := a.UnmarshalBinary([]byte{10, 0, 0, 0, 0}); err != nil || a.Size() != 5 {
		t.Fatalf("stale element, size %v %v", a.Size(), err)
	}
}
