package aac

import (
	"bytes"
	"math/rand"
	"testing"
)

// Independent ISO 13818-7 ADTS writer, single raw data block.
func k6c11n3write(profile, sfi, ch, id int, crc bool, raw []byte) []byte {
	hl := 7
	if crc {
		hl = 9
	}
	fl := hl + len(raw)
	pa := 1
	if crc {
		pa = 0
	}
	b := make([]byte, hl, fl)
	b[0] = 0xff
	b[1] = byte(0xf0 | id<<3 | pa)
	b[2] = byte(profile<<6 | sfi<<2 | ch>>2)
	b[3] = byte((ch&3)<<6 | fl>>11)
	b[4] = byte(fl >> 3)
	b[5] = byte((fl&7)<<5 | 0x1f)
	b[6] = 0xfc
	if crc {
		b[7], b[8] = 0x12, 0x34
	}
	return append(b, raw...)
}

func k6c11n3check(t *testing.T) {
	rnd := rand.New(rand.NewSource(11))
	objs := []ObjectType{ObjectTypeMain, ObjectTypeLC, ObjectTypeSSR, ObjectTypeHE, ObjectTypeHEv2}
	okObj := map[ObjectType]bool{}
	for _, o := range objs {
		okObj[o] = true
	}

	// All 65536 two-byte configs.
	for i := 0; i < 65536; i++ {
		b := []byte{byte(i >> 8), byte(i)}
		o, s, c := ObjectType(i>>11), SampleRateIndex(i>>7&15), Channels(i>>3&15)
		want := okObj[o] && s >= 1 && s <= 12 && c >= 1 && c <= 7
		var asc AudioSpecificConfig
		err := asc.UnmarshalBinary(b)
		if (err == nil) != want {
			t.Fatalf("asc %#04x accepted=%v want %v", i, err == nil, want)
		}
		a, err2 := NewADTS()
		if err2 != nil {
			t.Fatal(err2)
		}
		if err := a.SetASC(b); (err == nil) != want {
			t.Fatalf("SetASC %#04x accepted=%v want %v", i, err == nil, want)
		}
		if !want {
			continue
		}
		if asc.Object != o || asc.SampleRate != s || asc.Channels != c {
			t.Fatalf("asc %#04x fields %v", i, asc)
		}
		m, err := asc.MarshalBinary()
		if err != nil || len(m) != 2 || m[0] != b[0] || m[1] != b[1]&0xf8 {
			t.Fatalf("asc %#04x marshal %x %v", i, m, err)
		}
	}
	for _, o := range []ObjectType{0, 4, 6, 28, 30, 31} {
		if _, err := (&AudioSpecificConfig{Object: o, SampleRate: 4, Channels: 2}).MarshalBinary(); err == nil {
			t.Fatalf("marshal accepted object %d", o)
		}
	}
	for _, s := range []SampleRateIndex{0, 13, 14, 15, 16, 200} {
		if _, err := (&AudioSpecificConfig{Object: 2, SampleRate: s, Channels: 2}).MarshalBinary(); err == nil {
			t.Fatalf("marshal accepted rate %d", s)
		}
	}
	for _, c := range []Channels{0, 8, 15, 16} {
		if _, err := (&AudioSpecificConfig{Object: 2, SampleRate: 4, Channels: c}).MarshalBinary(); err == nil {
			t.Fatalf("marshal accepted channels %d", c)
		}
	}
	hz := []int{96000, 88200, 64000, 48000, 44100, 32000, 24000, 22050, 16000, 12000, 11025, 8000, 7350, 0, 0, 0}
	for i, h := range hz {
		if SampleRateIndex(i).ToHz() != h {
			t.Fatalf("ToHz(%d)=%d", i, SampleRateIndex(i).ToHz())
		}
	}

	lens := []int{1, 2, 3, 1017, 1018, 2041, 8183, 8184}
	for _, o := range objs {
		for s := 1; s <= 12; s++ {
			for c := 1; c <= 7; c++ {
				asc := &AudioSpecificConfig{Object: o, SampleRate: SampleRateIndex(s), Channels: Channels(c)}
				ab, err := asc.MarshalBinary()
				if err != nil {
					t.Fatal(err)
				}
				enc, _ := NewADTS()
				if err := enc.SetASC(ab); err != nil {
					t.Fatal(err)
				}
				var frames [][]byte
				var raws [][]byte
				for _, n := range append([]int{1 + rnd.Intn(8184)}, lens[rnd.Intn(len(lens))]) {
					raw := make([]byte, n)
					rnd.Read(raw)
					if rnd.Intn(3) == 0 { // sync-like payloads
						for k := range raw {
							raw[k] = 0xff
						}
					}
					f, err := enc.Encode(raw)
					if err != nil {
						t.Fatal(err)
					}
					if len(f) != n+7 {
						t.Fatalf("encoded %d for %d", len(f), n)
					}
					frames = append(frames, f)
					raws = append(raws, raw)
					dec, _ := NewADTS()
					r, l, err := dec.Decode(append([]byte(nil), f...))
					if err != nil || !bytes.Equal(r, raw) || len(l) != 0 {
						t.Fatalf("roundtrip o=%v s=%d c=%d n=%d err=%v left=%d", o, s, c, n, err, len(l))
					}
					d := dec.ASC()
					if d.Object.ToProfile() != o.ToProfile() || d.Object != o.ToProfile().ToObjectType() ||
						d.SampleRate != SampleRateIndex(s) || d.Channels != Channels(c) {
						t.Fatalf("reported %v for o=%v s=%d c=%d", *d, o, s, c)
					}
				}
				// independent writer frames, all id x protection
				for id := 0; id < 2; id++ {
					for _, crc := range []bool{false, true} {
						raw := make([]byte, lens[rnd.Intn(len(lens))])
						if crc && len(raw) > 8182 {
							raw = raw[:8182]
						}
						rnd.Read(raw)
						f := k6c11n3write(int(o.ToProfile()), s, c, id, crc, raw)
						frames = append(frames, f)
						raws = append(raws, raw)
						dec, _ := NewADTS()
						r, l, err := dec.Decode(f)
						if err != nil || !bytes.Equal(r, raw) || len(l) != 0 {
							t.Fatalf("iso o=%v s=%d c=%d id=%d crc=%v n=%d err=%v", o, s, c, id, crc, len(raw), err)
						}
						d := dec.ASC()
						if d.Object.ToProfile() != o.ToProfile() || d.SampleRate != SampleRateIndex(s) || d.Channels != Channels(c) {
							t.Fatalf("iso reported %v", *d)
						}
					}
				}
				// concatenation
				stream := bytes.Join(frames, nil)
				dec, _ := NewADTS()
				left := stream
				off := 0
				for k := range frames {
					var r []byte
					var err error
					r, left, err = dec.Decode(left)
					if err != nil || !bytes.Equal(r, raws[k]) {
						t.Fatalf("concat frame %d err=%v", k, err)
					}
					off += len(frames[k])
					if !bytes.Equal(left, stream[off:]) {
						t.Fatalf("concat remainder after frame %d", k)
					}
					if len(left) > 0 && (left[0] != 0xff || left[1]&0xf0 != 0xf0) {
						t.Fatalf("remainder not at sync")
					}
				}
				if len(left) != 0 {
					t.Fatalf("left over %d", len(left))
				}
			}
		}
	}
}

func TestKeep6C11N3(t *testing.T) {
	k6c11n3check(t)
	// The changed, unstated behaviour.
	a, _ := NewADTS()
	frame := []byte{0xff, 0xf1, 0x50, 0x80, 0x01, 0x00, 0xfc, 0x5a}
	// garbage before the header is skipped (was: invalid signature).
	raw, left, err := a.Decode(append([]byte{0x00, 0x47, 0xff}, frame...))
	if err != nil || len(left) != 0 || len(raw) != 1 || raw[0] != 0x5a {
		t.Fatal(raw, left, err)
	}
	// layer != 0 is not AAC (was: decoded).
	mp3 := append([]byte(nil), frame...)
	mp3[1] = 0xfb
	if _, _, err := a.Decode(mp3); err == nil {
		t.Fatal("layer III header accepted")
	}
}
