package websocket

import (
	"bytes"
	"io"
	"net"
	"testing"
	"time"
)

type k5c14n3Conn struct {
	r io.Reader
	w bytes.Buffer
}

func (c *k5c14n3Conn) Read(p []byte) (int, error)         { return c.r.Read(p) }
func (c *k5c14n3Conn) Write(p []byte) (int, error)        { return c.w.Write(p) }
func (c *k5c14n3Conn) Close() error                       { return nil }
func (c *k5c14n3Conn) LocalAddr() net.Addr                { return nil }
func (c *k5c14n3Conn) RemoteAddr() net.Addr               { return nil }
func (c *k5c14n3Conn) SetDeadline(t time.Time) error      { return nil }
func (c *k5c14n3Conn) SetReadDeadline(t time.Time) error  { return nil }
func (c *k5c14n3Conn) SetWriteDeadline(t time.Time) error { return nil }

// closeCode returns the status of the first frame written, if it is a Close.
func k5c14n3CloseCode(b []byte, masked bool) int {
	if len(b) < 2 || b[0] != 0x88 {
		return -1
	}
	off := 2
	n := int(b[1] & 0x7f)
	if masked {
		key := b[2:6]
		off = 6
		p := append([]byte(nil), b[off:off+n]...)
		for i := range p {
			p[i] ^= key[i%4]
		}
		if n < 2 {
			return -1
		}
		return int(p[0])<<8 | int(p[1])
	}
	if n < 2 {
		return -1
	}
	return int(b[off])<<8 | int(b[off+1])
}

// k5c14n3Frames parses the concatenation of everything written.
func k5c14n3Frames(t *testing.T, b []byte) (ops []byte, payloads [][]byte) {
	for len(b) > 0 {
		if len(b) < 2 {
			t.Fatalf("truncated frame % x", b)
		}
		op, n, masked := b[0], int(b[1]&0x7f), b[1]&0x80 != 0
		b = b[2:]
		var key []byte
		if masked {
			key, b = b[:4], b[4:]
		}
		p := append([]byte(nil), b[:n]...)
		b = b[n:]
		for i := range p {
			if masked {
				p[i] ^= key[i%4]
			}
		}
		ops = append(ops, op)
		payloads = append(payloads, p)
	}
	return
}

func TestKeep5C14N3(t *testing.T) {
	for _, server := range []bool{false, true} {
		frame := func(b0 byte, payload []byte) []byte {
			var f []byte
			f = append(f, b0)
			l := byte(0)
			if server {
				l = 0x80
			}
			switch {
			case len(payload) < 126:
				f = append(f, l|byte(len(payload)))
			case len(payload) < 65536:
				f = append(f, l|126, byte(len(payload)>>8), byte(len(payload)))
			default:
				n := len(payload)
				f = append(f, l|127, 0, 0, 0, 0, byte(n>>24), byte(n>>16), byte(n>>8), byte(n))
			}
			if server {
				f = append(f, 0, 0, 0, 0)
			}
			return append(f, payload...)
		}
		big := bytes.Repeat([]byte{0xab}, 70000)
		ping := bytes.Repeat([]byte{'p'}, 125)
		var stream []byte
		stream = append(stream, frame(0x89, ping)...)         // ping 125
		stream = append(stream, frame(0x82, big)...)          // single big frame
		stream = append(stream, frame(0x01, []byte("he"))...) // fragmented text
		stream = append(stream, frame(0x89, nil)...)          // empty ping in between
		stream = append(stream, frame(0x80, []byte("llo"))...)
		stream = append(stream, frame(0x82, nil)...) // empty message
		stream = append(stream, frame(0x83, nil)...) // reserved opcode -> 1002

		fc := &k5c14n3Conn{r: bytes.NewReader(stream)}
		c := newConn(fc, server, 0, 0)
		mt, p, err := c.ReadMessage()
		if err != nil || mt != BinaryMessage || !bytes.Equal(p, big) {
			t.Fatalf("big: %v %d %v", mt, len(p), err)
		}
		mt, p, err = c.ReadMessage()
		if err != nil || mt != TextMessage || string(p) != "hello" {
			t.Fatalf("frag: %v %q %v", mt, p, err)
		}
		mt, p, err = c.ReadMessage()
		if err != nil || mt != BinaryMessage || len(p) != 0 {
			t.Fatalf("empty: %v %q %v", mt, p, err)
		}
		_, _, err = c.ReadMessage()
		if err == nil {
			t.Fatal("expected protocol error")
		}
		if _, _, err2 := c.ReadMessage(); err2 != err {
			t.Fatal("not permanent")
		}
		ops, pl := k5c14n3Frames(t, fc.w.Bytes())
		if len(ops) != 3 || ops[0] != 0x8a || ops[1] != 0x8a || ops[2] != 0x88 {
			t.Fatalf("written frames: % x", ops)
		}
		if !bytes.Equal(pl[0], ping) || len(pl[1]) != 0 {
			t.Fatal("pong payload mismatch")
		}
		if len(pl[2]) < 2 || int(pl[2][0])<<8|int(pl[2][1]) != CloseProtocolError {
			t.Fatalf("close payload % x", pl[2])
		}

		// every cut offset ends in an error, delivered messages are a prefix
		small := append(frame(0x82, big[:300]), frame(0x01, []byte("he"))...)
		small = append(small, frame(0x80, []byte("llo"))...)
		for cut := 0; cut < len(small); cut++ {
			fc := &k5c14n3Conn{r: bytes.NewReader(small[:cut])}
			c := newConn(fc, server, 0, 0)
			want := [][]byte{big[:300], []byte("hello")}
			got := 0
			for {
				_, p, err := c.ReadMessage()
				if err != nil {
					break
				}
				if got >= len(want) || !bytes.Equal(p, want[got]) {
					t.Fatalf("cut %d: short or wrong message %q", cut, p)
				}
				got++
			}
		}

		// read limit, every framing of a 6 byte message with L=5
		for split := 0; split <= 6; split++ {
			m := []byte("abcdef")
			in := append(frame(0x02, m[:split]), frame(0x80, m[split:])...)
			fc := &k5c14n3Conn{r: bytes.NewReader(in)}
			c := newConn(fc, server, 0, 0)
			c.SetReadLimit(5)
			if _, _, err := c.ReadMessage(); err != ErrReadLimit {
				t.Fatalf("limit split %d: %v", split, err)
			}
			c = newConn(&k5c14n3Conn{r: bytes.NewReader(in)}, server, 0, 0)
			c.SetReadLimit(6)
			if _, p, err := c.ReadMessage(); err != nil || string(p) != "abcdef" {
				t.Fatalf("limit ok split %d: %q %v", split, p, err)
			}
		}
	}
}
