package errors

import (
	"fmt"
	"io"
	"math/rand"
	"strings"
	"testing"
)

// Belongs to package directory errors/ (package errors).
func TestKeep6C08N1(t *testing.T) {
	roots := []error{io.EOF, io.ErrUnexpectedEOF, fmt.Errorf("injected"), New("fundamental")}
	rnd := rand.New(rand.NewSource(8))
	for _, root := range roots {
		for iter := 0; iter < 500; iter++ {
			err := root
			var msgs []string
			for d, depth := 0, rnd.Intn(8); d < depth; d++ {
				msg := fmt.Sprintf("m%v", rnd.Intn(100))
				switch rnd.Intn(4) {
				case 0:
					err = Wrap(err, msg)
					msgs = append([]string{msg}, msgs...)
				case 1:
					err = Wrapf(err, "%v", msg)
					msgs = append([]string{msg}, msgs...)
				case 2:
					err = WithMessage(err, msg)
					msgs = append([]string{msg}, msgs...)
				case 3:
					err = WithStack(err)
				}
			}
			if Cause(err) != root {
				t.Fatalf("cause %v != %v", Cause(err), root)
			}
			want := strings.Join(append(msgs, root.Error()), ": ")
			if err.Error() != want {
				t.Fatalf("chain %q != %q", err.Error(), want)
			}
			if s := fmt.Sprintf("%v", err); s != want {
				t.Fatalf("%%v %q != %q", s, want)
			}
		}
	}
	if Wrap(nil, "x") != nil || Wrapf(nil, "x") != nil || WithMessage(nil, "x") != nil || WithStack(nil) != nil || Cause(nil) != nil {
		t.Fatal("nil must stay nil")
	}
}
