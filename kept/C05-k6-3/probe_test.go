package amf0

// Probe for keep6 C05 change 3 (Get: last duplicate wins; Set: dedup, nil removes).
// Belongs to package directory amf0/ (internal test package "amf0").

import (
	"bytes"
	"math"
	"strings"
	"testing"
)

func k6c05n3Equal(a, b Amf0) bool {
	if a.amf0Marker() != b.amf0Marker() {
		return false
	}
	props := func(x Amf0) []*property {
		switch v := x.(type) {
		case *Object:
			return v.properties
		case *EcmaArray:
			return v.properties
		case *StrictArray:
			return v.properties
		}
		return nil
	}
	switch x := a.(type) {
	case *Number:
		return math.Float64bits(float64(*x)) == math.Float64bits(float64(*b.(*Number)))
	case *String:
		return *x == *b.(*String)
	case *Boolean:
		return *x == *b.(*Boolean)
	case *Object, *EcmaArray, *StrictArray:
		pa, pb := props(a), props(b)
		if len(pa) != len(pb) {
			return false
		}
		for i := range pa {
			if pa[i].key != pb[i].key || !k6c05n3Equal(pa[i].value, pb[i].value) {
				return false
			}
		}
	}
	return true
}

func k6c05n3Tree() Amf0 {
	inner := NewEcmaArray()
	inner.Set("z", NewNumber(math.Float64frombits(0x7ff8000000000123)))
	inner.Set("a", NewNumber(math.Copysign(0, -1)))
	inner.Set("", NewNumber(math.Inf(-1)))
	sa := NewStrictArray()
	sa.Set("0", NewNull()).Set("1", NewUndefined()).Set("2", NewBoolean(true))
	o := NewObject()
	o.Set("s", NewString(strings.Repeat("x", 65535)))
	o.Set("e", inner)
	o.Set("arr", sa)
	o.Set("empty", NewObject())
	o.Set("b", NewBoolean(false))
	return o
}

func TestKeep6C05N3(t *testing.T) {
	tree := k6c05n3Tree()
	b, err := tree.MarshalBinary()
	if err != nil || len(b) != tree.Size() {
		t.Fatalf("marshal err=%v len=%v size=%v", err, len(b), tree.Size())
	}
	back, err := Discovery(b)
	if err != nil {
		t.Fatal(err)
	}
	if err = back.UnmarshalBinary(b); err != nil {
		t.Fatal(err)
	}
	if !k6c05n3Equal(tree, back) || back.Size() != len(b) {
		t.Fatalf("tree differs or size %v != %v", back.Size(), len(b))
	}
	if b2, err := back.MarshalBinary(); err != nil || !bytes.Equal(b, b2) {
		t.Fatalf("re-marshal differs err=%v", err)
	}

	// Decodable byte strings: repeated keys, empty key, trailing bytes.
	wire := []byte{3,
		0, 1, 'k', 5,
		0, 1, 'k', 1, 1,
		0, 0, 2, 0, 1, 'v',
		0, 1, 'a', 10, 0, 0, 0, 1, 0, 1, 'i', 6,
		0, 0, 9,
		0xde, 0xad}
	consumed := len(wire) - 2
	o := NewObject()
	if err := o.UnmarshalBinary(wire); err != nil {
		t.Fatal(err)
	}
	if o.Size() != consumed {
		t.Fatalf("size %v != consumed %v", o.Size(), consumed)
	}
	if len(o.properties) != 4 || o.properties[0].key != "k" || o.properties[1].key != "k" ||
		o.properties[2].key != "" || o.properties[3].key != "a" {
		t.Fatalf("order lost")
	}
	if b2, err := o.MarshalBinary(); err != nil || !bytes.Equal(b2, wire[:consumed]) {
		t.Fatalf("re-marshal of decoded bytes differs")
	}

	// New, outside the statement: last duplicate wins for Get.
	if v, ok := o.Get("k").(*Boolean); !ok || !bool(*v) {
		t.Fatalf("Get should return the last k")
	}
	// New: Set replaces the first k in place and drops the second one; size stays consistent.
	o.Set("k", NewNumber(3))
	if len(o.properties) != 3 || o.properties[0].key != "k" || o.properties[1].key != "" {
		t.Fatalf("Set dedup failed")
	}
	// New: nil removes.
	o.Set("a", nil).Set("missing", nil)
	if len(o.properties) != 2 || o.Get("a") != nil {
		t.Fatalf("Set nil should remove")
	}
	if b3, err := o.MarshalBinary(); err != nil || len(b3) != o.Size() {
		t.Fatalf("size mismatch after Set")
	}

	// Building with Set: replace keeps position, new keys are appended.
	n := NewEcmaArray()
	n.Set("x", NewNumber(1)).Set("y", NewNumber(2)).Set("z", NewNumber(3)).Set("y", NewNull()).Set("", NewUndefined())
	want := []byte{8, 0, 0, 0, 0,
		0, 1, 'x', 0, 0x3f, 0xf0, 0, 0, 0, 0, 0, 0,
		0, 1, 'y', 5,
		0, 1, 'z', 0, 0x40, 0x08, 0, 0, 0, 0, 0, 0,
		0, 0, 6,
		0, 0, 9}
	if nb, err := n.MarshalBinary(); err != nil || !bytes.Equal(nb, want) || n.Size() != len(want) {
		t.Fatalf("built array wrong %v", nb)
	}
}
