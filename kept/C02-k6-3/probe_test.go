package rtmp_test

// Probe for keep6/C02 change N (belongs to directory rtmp/, package rtmp_test).

import (
	"bytes"
	"io"
	"math/rand"
	"testing"

	"github.com/ossrs/go-oryx-lib/rtmp"
)

type k6c02n3rw struct {
	io.Reader
	io.Writer
}

type k6c02n3msg struct {
	cid     int
	form    int // basic header bytes: 1, 2 or 3
	typ     byte
	sid     uint32
	ts      uint32
	payload []byte
}

type k6c02n3cs struct {
	used   bool
	ts     uint32
	delta  uint32
	length int
	typ    byte
	sid    uint32
}

func k6c02n3basic(fmt byte, cid, form int) []byte {
	switch form {
	case 1:
		return []byte{fmt<<6 | byte(cid)}
	case 2:
		return []byte{fmt << 6, byte(cid - 64)}
	}
	return []byte{fmt<<6 | 1, byte((cid - 64) & 0xff), byte((cid - 64) >> 8)}
}

// Chunk one message with the most compact legal header, given the chunk stream state.
func k6c02n3head(st *k6c02n3cs, m *k6c02n3msg, compact bool) (b []byte, ext []byte) {
	u24 := func(v uint32) []byte { return []byte{byte(v >> 16), byte(v >> 8), byte(v)} }
	f := byte(0)
	if compact && st.used && m.ts >= st.ts && m.ts-st.ts < 0xffffff && m.ts < 0xffffff && st.ts < 0xffffff && m.sid == st.sid {
		d := m.ts - st.ts
		f = 1
		if len(m.payload) == st.length && m.typ == st.typ {
			f = 2
			if d == st.delta {
				f = 3
			}
		}
		st.delta = d
	} else {
		st.delta = m.ts
	}
	b = k6c02n3basic(f, m.cid, m.form)
	if f <= 2 {
		if f == 0 {
			if m.ts >= 0xffffff {
				b = append(b, 0xff, 0xff, 0xff)
				ext = []byte{byte(m.ts >> 24), byte(m.ts >> 16), byte(m.ts >> 8), byte(m.ts)}
			} else {
				b = append(b, u24(m.ts)...)
			}
		} else {
			b = append(b, u24(st.delta)...)
		}
	}
	if f <= 1 {
		b = append(b, u24(uint32(len(m.payload)))...)
		b = append(b, m.typ)
	}
	if f == 0 {
		b = append(b, byte(m.sid), byte(m.sid>>8), byte(m.sid>>16), byte(m.sid>>24))
	}
	b = append(b, ext...)
	st.used, st.ts, st.length, st.typ, st.sid = true, m.ts, len(m.payload), m.typ, m.sid
	return
}

func k6c02n3setChunkSize(n uint32) *k6c02n3msg {
	return &k6c02n3msg{cid: 2, form: 1, typ: 1, payload: []byte{byte(n >> 24), byte(n >> 16), byte(n >> 8), byte(n)}}
}

type k6c02n3pending struct {
	m   *k6c02n3msg
	off int
	ext []byte
}

type k6c02n3sender struct {
	wire      bytes.Buffer
	states    map[int]*k6c02n3cs
	chunkSize int
	done      []*k6c02n3msg
}

// Start a message: write its first chunk. Returns nil when the message is complete.
func (s *k6c02n3sender) start(m *k6c02n3msg, compact bool) *k6c02n3pending {
	if s.states[m.cid] == nil {
		s.states[m.cid] = &k6c02n3cs{}
	}
	h, ext := k6c02n3head(s.states[m.cid], m, compact)
	s.wire.Write(h)
	pd := &k6c02n3pending{m: m, ext: ext}
	if s.payload(pd) {
		return nil
	}
	return pd
}

// Continue a message with a type-3 chunk.
func (s *k6c02n3sender) cont(pd *k6c02n3pending) bool {
	s.wire.Write(k6c02n3basic(3, pd.m.cid, pd.m.form))
	s.wire.Write(pd.ext)
	return s.payload(pd)
}

func (s *k6c02n3sender) payload(pd *k6c02n3pending) bool {
	n := len(pd.m.payload) - pd.off
	if n > s.chunkSize {
		n = s.chunkSize
	}
	s.wire.Write(pd.m.payload[pd.off : pd.off+n])
	pd.off += n
	if pd.off == len(pd.m.payload) {
		s.done = append(s.done, pd.m)
		return true
	}
	return false
}

func k6c02n3trace(rd *rand.Rand) *k6c02n3sender {
	cids := []struct{ cid, form int }{{3, 1}, {63, 1}, {64, 2}, {319, 2}, {318, 3}, {320, 3}, {65599, 3}}
	s := &k6c02n3sender{states: map[int]*k6c02n3cs{}, chunkSize: 128}
	inflight := map[int]*k6c02n3pending{}
	tsOf := map[int]uint32{}
	nmsgs, created := 1+rd.Intn(12), 0
	for created < nmsgs || len(inflight) > 0 {
		if len(inflight) == 0 && rd.Intn(4) == 0 {
			// Set Chunk Size on chunk stream 2, chunked with the old size, applies afterwards.
			size := []int{1, 2, 64, 128, 129, 4096, 0x7fffffff}[rd.Intn(7)]
			if pd := s.start(k6c02n3setChunkSize(uint32(size)), rd.Intn(2) == 0); pd != nil {
				for !s.cont(pd) {
				}
			}
			s.chunkSize = size
			continue
		}
		if created < nmsgs && (len(inflight) == 0 || rd.Intn(2) == 0) {
			c := cids[rd.Intn(len(cids))]
			if _, busy := inflight[c.cid]; busy {
				continue
			}
			created++
			ts := tsOf[c.cid]
			switch rd.Intn(5) {
			case 0:
				ts += 40
			case 1:
				ts += uint32(rd.Intn(1000))
			case 2:
				ts = 0xffffff + uint32(rd.Intn(5))
			case 3:
				ts = 0x7ffffff0 + uint32(rd.Intn(15))
			case 4:
				ts = uint32(rd.Intn(100))
			}
			tsOf[c.cid] = ts
			cs := s.chunkSize
			if cs > 5000 {
				cs = 5000
			}
			sizes := []int{0, 1, 4, cs, cs + 1, 2*cs + 3, 5 * cs}
			p := make([]byte, sizes[rd.Intn(len(sizes))])
			rd.Read(p)
			typ := []byte{8, 9, 18, 20, 22}[rd.Intn(5)]
			m := &k6c02n3msg{cid: c.cid, form: c.form, typ: typ, sid: uint32(rd.Intn(3)), ts: ts, payload: p}
			if pd := s.start(m, rd.Intn(4) != 0); pd != nil {
				inflight[c.cid] = pd
			}
			continue
		}
		for cid, pd := range inflight {
			if s.cont(pd) {
				delete(inflight, cid)
			}
			break
		}
	}
	return s
}

func TestKeep6C02N3(t *testing.T) {
	rd := rand.New(rand.NewSource(602))
	for round := 0; round < 400; round++ {
		s := k6c02n3trace(rd)
		p := rtmp.NewProtocol(&k6c02n3rw{bytes.NewReader(s.wire.Bytes()), io.Discard})
		for i, w := range s.done {
			m, err := p.ReadMessage()
			if err != nil {
				t.Fatalf("round %v msg %v: %+v", round, i, err)
			}
			if byte(m.MessageType) != w.typ || m.Timestamp != uint64(w.ts&0x7fffffff) || !bytes.Equal(m.Payload, w.payload) {
				t.Fatalf("round %v msg %v: got type=%v ts=%v len=%v, want type=%v ts=%v len=%v",
					round, i, m.MessageType, m.Timestamp, len(m.Payload), w.typ, w.ts, len(w.payload))
			}
		}
		if m, err := p.ReadMessage(); err == nil {
			t.Fatalf("round %v: extra message %v", round, m)
		}
	}

	// The rule breakers are still rejected.
	u := func(b ...byte) []byte { return b }
	t0 := func(cid byte, n byte) []byte { return u(cid, 0, 0, 1, 0, 0, n, 8, 1, 0, 0, 0) }
	bad := map[string][]byte{
		"type-0 inside an unfinished message": append(append(t0(3, 200), make([]byte, 128)...), t0(3, 200)...),
		"length changed mid-message":          append(append(t0(3, 200), make([]byte, 128)...), u(0x43, 0, 0, 0, 0, 0, 201, 8)...),
		"fresh chunk stream with type 1":      u(0x43, 0, 0, 0, 0, 0, 1, 8, 0),
		"fresh chunk stream with type 2":      u(0x85, 0, 0, 0, 0),
		"fresh chunk stream with type 3":      u(0xc2, 0),
		"fresh chunk stream 64 with type 3":   u(0xc0, 0, 0),
	}
	for name, wire := range bad {
		p := rtmp.NewProtocol(&k6c02n3rw{bytes.NewReader(append(wire, make([]byte, 300)...)), io.Discard})
		if m, err := p.ReadMessage(); err == nil {
			t.Fatalf("%v: accepted as %v", name, m)
		}
	}

	// The librtmp ping form on chunk stream 2 is still accepted.
	p := rtmp.NewProtocol(&k6c02n3rw{bytes.NewReader(u(0x42, 0, 0, 0, 0, 0, 6, 4, 0, 6, 0, 0, 0x0d, 0x0f)), io.Discard})
	if m, err := p.ReadMessage(); err != nil || m.MessageType != rtmp.MessageTypeUserControl || len(m.Payload) != 6 {
		t.Fatalf("librtmp ping: %v %+v", m, err)
	}
}

// Outside the statement: what the reader does AFTER it rejected a stream.
func TestKeep6C02N3Outside(t *testing.T) {
	u := func(b ...byte) []byte { return b }
	var wire []byte
	// A good message on cid=4, then cid=3 starts with type 3 (violation, no header bytes),
	// then another perfectly good message on cid=4.
	wire = append(wire, u(4, 0, 0, 1, 0, 0, 1, 8, 1, 0, 0, 0, 0x11)...)
	wire = append(wire, u(0xc3)...)
	wire = append(wire, u(4, 0, 0, 2, 0, 0, 1, 8, 1, 0, 0, 0, 0x22)...)
	p := rtmp.NewProtocol(&k6c02n3rw{bytes.NewReader(wire), io.Discard})
	if m, err := p.ReadMessage(); err != nil || !bytes.Equal(m.Payload, u(0x11)) {
		t.Fatalf("first: %v %+v", m, err)
	}
	if m, err := p.ReadMessage(); err == nil {
		t.Fatalf("violation accepted: %v", m)
	}
	// Old: the third message was decoded (the reader happened to be in sync). New: sticky error.
	if m, err := p.ReadMessage(); err == nil {
		t.Fatalf("decoded after violation: %v", m)
	}
}
