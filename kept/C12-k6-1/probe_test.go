package avc_test

import (
	"bytes"
	"testing"

	"github.com/ossrs/go-oryx-lib/avc"
)

func k6c12n1Nalu(hdr byte, n int) []byte {
	b := make([]byte, n)
	b[0] = hdr & 0x7f
	for i := 1; i < n; i++ {
		b[i] = byte(i*7 + 3)
	}
	return b
}

func TestKeep6C12N1(t *testing.T) {
	// NAL units: all canonical header bytes, boundary sizes.
	for h := 0; h < 128; h++ {
		for _, n := range []int{1, 2, 255, 256, 65535} {
			raw := k6c12n1Nalu(byte(h), n)
			nalu := avc.NewNALU()
			if err := nalu.UnmarshalBinary(raw); err != nil {
				t.Fatal(err)
			}
			if int(nalu.NALRefIDC) != h>>5 || int(nalu.NALUType) != h&0x1f || !bytes.Equal(nalu.Data, raw[1:]) {
				t.Fatalf("values h=%v n=%v", h, n)
			}
			if out, err := nalu.MarshalBinary(); err != nil || !bytes.Equal(out, raw) {
				t.Fatalf("remarshal h=%v n=%v", h, n)
			}
		}
	}

	// Record, ISO layout, written by hand.
	sps, pps := k6c12n1Nalu(0x67, 255), k6c12n1Nalu(0x68, 256)
	want := []byte{1, 100, 0, 31, 0xfc | 3, 0xe0 | 1, 0, 255}
	want = append(want, sps...)
	want = append(want, 1, 1, 0)
	want = append(want, pps...)

	r := avc.NewAVCDecoderConfigurationRecord()
	if err := r.UnmarshalBinary(want); err != nil {
		t.Fatal(err)
	}
	if r.AVCProfileIndication != 100 || r.AVCLevelIndication != 31 || r.LengthSizeMinusOne != 3 ||
		len(r.SequenceParameterSetNALUnits) != 1 || len(r.PictureParameterSetNALUnits) != 1 ||
		!bytes.Equal(r.SequenceParameterSetNALUnits[0].Data, sps[1:]) ||
		!bytes.Equal(r.PictureParameterSetNALUnits[0].Data, pps[1:]) {
		t.Fatal("record values")
	}
	if out, err := r.MarshalBinary(); err != nil || !bytes.Equal(out, want) {
		t.Fatal("record remarshal")
	}

	// Samples for every length size.
	for ls := uint8(0); ls < 4; ls++ {
		s := avc.NewAVCSample(ls)
		for _, n := range []int{1, 200, 255} {
			nalu := avc.NewNALU()
			if err := nalu.UnmarshalBinary(k6c12n1Nalu(0x65, n)); err != nil {
				t.Fatal(err)
			}
			s.NALUs = append(s.NALUs, nalu)
		}
		b, err := s.MarshalBinary()
		if err != nil {
			t.Fatal(err)
		}
		s2 := avc.NewAVCSample(ls)
		if err := s2.UnmarshalBinary(b); err != nil || len(s2.NALUs) != 3 {
			t.Fatal("sample unmarshal")
		}
		for i := range s.NALUs {
			if *s.NALUs[i].NALUHeader != *s2.NALUs[i].NALUHeader || !bytes.Equal(s.NALUs[i].Data, s2.NALUs[i].Data) {
				t.Fatal("sample values")
			}
		}
		if b2, err := s2.MarshalBinary(); err != nil || !bytes.Equal(b, b2) {
			t.Fatal("sample remarshal")
		}
	}

	// What is different now: the decoded payload no longer aliases the input.
	raw := k6c12n1Nalu(0x65, 4)
	nalu := avc.NewNALU()
	if err := nalu.UnmarshalBinary(raw); err != nil {
		t.Fatal(err)
	}
	raw[1] ^= 0xff
	if nalu.Data[0] == raw[1] {
		t.Fatal("payload aliases the input")
	}
}
