package aac

import (
	"bytes"
	"testing"
)

// Belongs to package directory aac/ (internal test, package aac).
// Independent ISO 13818-7 writer.
func keep5C11N3Frame(profile, sfi, ch, id, crc int, raw []byte) []byte {
	hs := 7
	if crc != 0 {
		hs = 9
	}
	fl := hs + len(raw)
	pa := 1
	if crc != 0 {
		pa = 0
	}
	b := []byte{
		0xff,
		byte(0xf0 | id<<3 | pa),
		byte(profile<<6 | sfi<<2 | ch>>2),
		byte((ch&3)<<6 | fl>>11),
		byte(fl >> 3),
		byte((fl&7)<<5 | 0x1f),
		0xfc,
	}
	if crc != 0 {
		b = append(b, 0xab, 0xcd)
	}
	return append(b, raw...)
}

func TestKeep5C11N3(t *testing.T) {
	for profile := 0; profile < 3; profile++ {
		for sfi := 1; sfi <= 12; sfi++ {
			for ch := 1; ch <= 7; ch++ {
				for id := 0; id < 2; id++ {
					for crc := 0; crc < 2; crc++ {
						for _, n := range []int{1, 2, 100, 8182} {
							raw := make([]byte, n)
							for i := range raw {
								raw[i] = byte(i*7 + n)
							}
							f := keep5C11N3Frame(profile, sfi, ch, id, crc, raw)
							g := keep5C11N3Frame(profile, sfi, ch, id, 1-crc, raw[:1])
							dec, _ := NewADTS()
							r, left, err := dec.Decode(append(append([]byte{}, f...), g...))
							if err != nil || !bytes.Equal(r, raw) || !bytes.Equal(left, g) {
								t.Fatalf("err=%v", err)
							}
							r, left, err = dec.Decode(left)
							if err != nil || !bytes.Equal(r, raw[:1]) || len(left) != 0 {
								t.Fatalf("err=%v", err)
							}
							a := dec.ASC()
							if int(a.Object.ToProfile()) != profile || int(a.SampleRate) != sfi || int(a.Channels) != ch {
								t.Fatalf("asc %+v", a)
							}
						}
					}
				}
			}
		}
	}

	// All 65536 configs: accept/reject + bit exact round trip of accepted values.
	for x := 0; x < 65536; x++ {
		b := []byte{byte(x >> 8), byte(x)}
		obj, sr, ch := x>>11, (x>>7)&15, (x>>3)&15
		okObj := obj == 1 || obj == 2 || obj == 3 || obj == 5 || obj == 29
		want := okObj && sr >= 1 && sr <= 12 && ch >= 1 && ch <= 7
		var asc AudioSpecificConfig
		err := asc.UnmarshalBinary(b)
		if (err == nil) != want {
			t.Fatalf("%#x err=%v", x, err)
		}
		if !want {
			continue
		}
		if int(asc.Object) != obj || int(asc.SampleRate) != sr || int(asc.Channels) != ch {
			t.Fatalf("%#x %+v", x, asc)
		}
		m, err := asc.MarshalBinary()
		if err != nil || m[0] != b[0] || m[1] != b[1]&0xf8 {
			t.Fatalf("%#x -> %#x", x, m)
		}
	}

	// Changed outside behaviour.
	dec, _ := NewADTS()
	// header-only frame (zero raw bytes) is accepted now.
	if r, left, err := dec.Decode(keep5C11N3Frame(1, 4, 2, 0, 0, nil)); err != nil || len(r) != 0 || len(left) != 0 {
		t.Fatalf("header only err=%v", err)
	}
	if r, left, err := dec.Decode(keep5C11N3Frame(1, 4, 2, 1, 1, nil)); err != nil || len(r) != 0 || len(left) != 0 {
		t.Fatalf("header+crc only err=%v", err)
	}
	// non-zero layer (e.g. mp3 0xfffb) is rejected now.
	f := keep5C11N3Frame(1, 4, 2, 1, 0, []byte{1, 2, 3})
	f[1] |= 0x02
	if _, _, err := dec.Decode(f); err == nil {
		t.Fatal("layer should fail")
	}
	// raw capacity is clipped.
	f = append(keep5C11N3Frame(1, 4, 2, 1, 0, []byte{1, 2, 3}), keep5C11N3Frame(1, 4, 2, 1, 0, []byte{4})...)
	r, left, err := dec.Decode(f)
	if err != nil || cap(r) != 3 || left[0] != 0xff {
		t.Fatalf("cap=%v err=%v", cap(r), err)
	}
	_ = append(r, 0x00)
	if left[0] != 0xff {
		t.Fatal("left overwritten")
	}
}
