package websocket_test

// Probe for keep6 C13 change 2. Belongs to directory websocket/ (external test
// package websocket_test). Uses only the public API.

import (
	"bytes"
	"io"
	"net/http"
	"net/http/httptest"
	"strings"
	"testing"
	"time"

	"github.com/ossrs/go-oryx-lib/websocket"
)

type k6c13n2msg struct {
	t int
	p []byte
}

func k6c13n2payload(n, seed int) []byte {
	p := make([]byte, n)
	x := uint32(seed)*2654435761 + 1
	for i := range p {
		x = x*1664525 + 1013904223
		if seed%2 == 0 {
			p[i] = byte(x >> 24)
		} else {
			p[i] = "abcdefgh"[x>>29]
		}
	}
	return p
}

// k6c13n2send writes the messages with a rotating mix of write APIs.
func k6c13n2send(c *websocket.Conn, msgs []k6c13n2msg) error {
	for i, m := range msgs {
		// Exercise the deadline bookkeeping: none, a fresh one, the same one again.
		switch i % 5 {
		case 0:
			c.SetWriteDeadline(time.Time{})
		case 1, 3:
			c.SetWriteDeadline(time.Now().Add(time.Minute))
		}
		if i%3 == 0 {
			// A control frame with its own deadline in between.
			if err := c.WriteControl(websocket.PingMessage, []byte("k6"), time.Now().Add(10*time.Second)); err != nil {
				return err
			}
		}
		switch i % 4 {
		case 0:
			if err := c.WriteMessage(m.t, m.p); err != nil {
				return err
			}
		case 1:
			w, err := c.NextWriter(m.t)
			if err != nil {
				return err
			}
			p := m.p
			for len(p) > 0 {
				n := 1 + (len(p)+i)%4099
				if n > len(p) {
					n = len(p)
				}
				if _, err := w.Write(p[:n]); err != nil {
					return err
				}
				p = p[n:]
			}
			if err := w.Close(); err != nil {
				return err
			}
		case 2:
			w, err := c.NextWriter(m.t)
			if err != nil {
				return err
			}
			if _, err := io.Copy(w, bytes.NewReader(m.p)); err != nil {
				return err
			}
			if err := w.Close(); err != nil {
				return err
			}
		case 3:
			pm, err := websocket.NewPreparedMessage(m.t, m.p)
			if err != nil {
				return err
			}
			if err := c.WritePreparedMessage(pm); err != nil {
				return err
			}
		}
	}
	return nil
}

func k6c13n2recv(t *testing.T, who string, c *websocket.Conn, want []k6c13n2msg) {
	for i, m := range want {
		mt, p, err := c.ReadMessage()
		if err != nil {
			t.Errorf("%s: message %d: %v", who, i, err)
			return
		}
		if mt != m.t || !bytes.Equal(p, m.p) {
			t.Errorf("%s: message %d: got type %d len %d, want type %d len %d", who, i, mt, len(p), m.t, len(m.p))
			return
		}
	}
}

func TestKeep6C13N2(t *testing.T) {
	sizes := []int{0, 1, 125, 126, 127, 0, 4095, 4096, 4097, 8192, 65535, 65536, 65537, 0, (1 << 20) - 1, 1 << 20, (1 << 20) + 1, 3 << 20, 0}
	var msgs []k6c13n2msg
	for i, n := range sizes {
		msgs = append(msgs, k6c13n2msg{t: 1 + i%2, p: k6c13n2payload(n, i)})
	}
	for _, compress := range []bool{false, true} {
		for _, bufSize := range []int{0, 256, 1024} {
			done := make(chan struct{})
			up := websocket.Upgrader{EnableCompression: compress, ReadBufferSize: bufSize, WriteBufferSize: bufSize}
			srv := httptest.NewServer(http.HandlerFunc(func(w http.ResponseWriter, r *http.Request) {
				defer close(done)
				c, err := up.Upgrade(w, r, nil)
				if err != nil {
					t.Errorf("upgrade: %v", err)
					return
				}
				defer c.Close()
				// Server first receives everything, then echoes it back.
				k6c13n2recv(t, "server", c, msgs)
				if err := k6c13n2send(c, msgs); err != nil {
					t.Errorf("server send: %v", err)
				}
				// Keep reading (this consumes the client's pongs) until the
				// client hangs up, so that nothing unread triggers a TCP reset.
				for {
					if _, _, err := c.ReadMessage(); err != nil {
						break
					}
				}
			}))
			d := websocket.Dialer{EnableCompression: compress, ReadBufferSize: bufSize, WriteBufferSize: bufSize}
			c, _, err := d.Dial("ws"+strings.TrimPrefix(srv.URL, "http"), nil)
			if err != nil {
				t.Fatalf("dial: %v", err)
			}
			errc := make(chan error, 1)
			go func() { errc <- k6c13n2send(c, msgs) }()
			k6c13n2recv(t, "client", c, msgs)
			if err := <-errc; err != nil {
				t.Errorf("client send: %v", err)
			}
			c.Close()
			<-done
			srv.Close()
		}
	}
}
