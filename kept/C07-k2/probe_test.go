package aac

import (
	"math/rand"
	"testing"
)

// Belongs to package directory aac/.
func TestKeep5C07N2(t *testing.T) {
	rnd := rand.New(rand.NewSource(11))
	for i := 0; i < 50000; i++ {
		b := make([]byte, rnd.Intn(40))
		rnd.Read(b)
		if len(b) > 1 && i%2 == 0 {
			b[0], b[1] = 0xff, 0xf0|b[1]
		}
		a, _ := NewADTS()
		a.SetASC(b)
		for p := b; len(p) > 0; {
			raw, left, err := a.Decode(p)
			if err != nil {
				break
			}
			if len(raw)+len(left) > len(p)-7 || len(left) >= len(p) {
				t.Fatalf("no progress %x", p)
			}
			p = left
		}
		var asc AudioSpecificConfig
		asc.UnmarshalBinary(b)
	}
	for i := 0; i < 256; i++ {
		_ = SampleRateIndex(i).String() + Channels(i).String() + Profile(i).String() + ObjectType(i).String()
		_ = SampleRateIndex(i).ToHz()
		_ = Profile(i).ToObjectType().ToProfile()
	}

	// Changed outside behaviour.
	a, _ := NewADTS()
	// 96kHz LC stereo: object=2, sr=0, ch=2 => 00010 0000 0010 000
	if err := a.SetASC([]byte{0x10, 0x10}); err != nil {
		t.Fatal(err)
	}
	frame, err := a.Encode(nil)
	if err != nil || len(frame) != 7 {
		t.Fatal(frame, err)
	}
	if raw, left, err := a.Decode(frame); err != nil || len(raw) != 0 || len(left) != 0 {
		t.Fatal(raw, left, err)
	}
	// A bad frame does not clobber the ASC.
	if _, _, err := a.Decode([]byte{0xff, 0xf1, 0xff, 0x80, 0x01, 0x00, 0xfc, 0x00}); err == nil {
		t.Fatal("should fail")
	}
	if asc := a.ASC(); asc.Object != ObjectTypeLC || asc.SampleRate != SampleRateIndex96kHz || asc.Channels != ChannelStereo {
		t.Fatal(asc)
	}
}
