package websocket_test

// Probe for keep6 C13 change 3. Belongs to directory websocket/ (external test
// package websocket_test). Uses only the public API.

import (
	"bufio"
	"bytes"
	"crypto/sha1"
	"encoding/base64"
	"net"
	"io"
	"net/http"
	"net/http/httptest"
	"strings"
	"testing"

	"github.com/ossrs/go-oryx-lib/websocket"
)

type k6c13n3msg struct {
	t int
	p []byte
}

func k6c13n3payload(n, seed int) []byte {
	p := make([]byte, n)
	x := uint32(seed)*2654435761 + 1
	for i := range p {
		x = x*1664525 + 1013904223
		if seed%2 == 0 {
			p[i] = byte(x >> 24)
		} else {
			p[i] = "abcdefgh"[x>>29]
		}
	}
	return p
}

// k6c13n3send writes the messages with a rotating mix of write APIs.
func k6c13n3send(c *websocket.Conn, msgs []k6c13n3msg) error {
	for i, m := range msgs {
		switch i % 4 {
		case 0:
			if err := c.WriteMessage(m.t, m.p); err != nil {
				return err
			}
		case 1:
			w, err := c.NextWriter(m.t)
			if err != nil {
				return err
			}
			p := m.p
			for len(p) > 0 {
				n := 1 + (len(p)+i)%4099
				if n > len(p) {
					n = len(p)
				}
				if _, err := w.Write(p[:n]); err != nil {
					return err
				}
				p = p[n:]
			}
			if err := w.Close(); err != nil {
				return err
			}
		case 2:
			w, err := c.NextWriter(m.t)
			if err != nil {
				return err
			}
			if _, err := io.Copy(w, bytes.NewReader(m.p)); err != nil {
				return err
			}
			if err := w.Close(); err != nil {
				return err
			}
		case 3:
			pm, err := websocket.NewPreparedMessage(m.t, m.p)
			if err != nil {
				return err
			}
			if err := c.WritePreparedMessage(pm); err != nil {
				return err
			}
		}
	}
	return nil
}

func k6c13n3recv(t *testing.T, who string, c *websocket.Conn, want []k6c13n3msg) {
	for i, m := range want {
		mt, p, err := c.ReadMessage()
		if err != nil {
			t.Errorf("%s: message %d: %v", who, i, err)
			return
		}
		if mt != m.t || !bytes.Equal(p, m.p) {
			t.Errorf("%s: message %d: got type %d len %d, want type %d len %d", who, i, mt, len(p), m.t, len(m.p))
			return
		}
	}
}

func TestKeep6C13N3(t *testing.T) {
	sizes := []int{0, 1, 125, 126, 127, 0, 4095, 4096, 4097, 8192, 65535, 65536, 65537, 0, (1 << 20) - 1, 1 << 20, (1 << 20) + 1, 3 << 20, 0}
	var msgs []k6c13n3msg
	for i, n := range sizes {
		msgs = append(msgs, k6c13n3msg{t: 1 + i%2, p: k6c13n3payload(n, i)})
	}
	for _, compress := range []bool{false, true} {
		for _, bufSize := range []int{0, 256, 1024} {
			done := make(chan struct{})
			up := websocket.Upgrader{EnableCompression: compress, ReadBufferSize: bufSize, WriteBufferSize: bufSize}
			srv := httptest.NewServer(http.HandlerFunc(func(w http.ResponseWriter, r *http.Request) {
				defer close(done)
				c, err := up.Upgrade(w, r, nil)
				if err != nil {
					t.Errorf("upgrade: %v", err)
					return
				}
				defer c.Close()
				// Server first receives everything, then echoes it back.
				k6c13n3recv(t, "server", c, msgs)
				if err := k6c13n3send(c, msgs); err != nil {
					t.Errorf("server send: %v", err)
				}
			}))
			d := websocket.Dialer{EnableCompression: compress, ReadBufferSize: bufSize, WriteBufferSize: bufSize}
			c, _, err := d.Dial("ws"+strings.TrimPrefix(srv.URL, "http"), nil)
			if err != nil {
				t.Fatalf("dial: %v", err)
			}
			errc := make(chan error, 1)
			go func() { errc <- k6c13n3send(c, msgs) }()
			k6c13n3recv(t, "client", c, msgs)
			if err := <-errc; err != nil {
				t.Errorf("client send: %v", err)
			}
			c.Close()
			<-done
			srv.Close()
		}
	}
}

// Raw handshakes against Upgrade: a well formed key is answered with 101 and the
// RFC accept value, malformed keys with 400.
func TestKeep6C13N3Handshake(t *testing.T) {
	up := websocket.Upgrader{}
	srv := httptest.NewServer(http.HandlerFunc(func(w http.ResponseWriter, r *http.Request) {
		c, err := up.Upgrade(w, r, nil)
		if err != nil {
			return
		}
		defer c.Close()
		mt, p, err := c.ReadMessage()
		if err == nil {
			c.WriteMessage(mt, p)
		}
	}))
	defer srv.Close()
	addr := strings.TrimPrefix(srv.URL, "http://")
	for _, tc := range []struct {
		key  string
		code int
	}{
		{"dGhlIHNhbXBsZSBub25jZQ==", 101}, // RFC 6455 sample nonce
		{"AAAAAAAAAAAAAAAAAAAAAA==", 101},
		{"x", 400},
		{"not base64 at all!!", 400},
		{"dGhlIHNhbXBsZQ==", 400}, // valid base64, 10 bytes
	} {
		nc, err := net.Dial("tcp", addr)
		if err != nil {
			t.Fatal(err)
		}
		io.WriteString(nc, "GET / HTTP/1.1\r\nHost: "+addr+"\r\nUpgrade: websocket\r\nConnection: Upgrade\r\nSec-WebSocket-Version: 13\r\nSec-WebSocket-Key: "+tc.key+"\r\n\r\n")
		br := bufio.NewReader(nc)
		resp, err := http.ReadResponse(br, nil)
		if err != nil {
			t.Fatalf("key %q: %v", tc.key, err)
		}
		if resp.StatusCode != tc.code {
			t.Errorf("key %q: status %d, want %d", tc.key, resp.StatusCode, tc.code)
		}
		if resp.StatusCode == 101 {
			h := sha1.Sum([]byte(tc.key + "258EAFA5-E914-47DA-95CA-C5AB0DC85B11"))
			if got, want := resp.Header.Get("Sec-Websocket-Accept"), base64.StdEncoding.EncodeToString(h[:]); got != want {
				t.Errorf("key %q: accept %q, want %q", tc.key, got, want)
			}
			// masked text frame "hi" and its unmasked echo
			nc.Write([]byte{0x81, 0x82, 1, 2, 3, 4, 'h' ^ 1, 'i' ^ 2})
			echo := make([]byte, 4)
			if _, err := io.ReadFull(br, echo); err != nil || !bytes.Equal(echo, []byte{0x81, 0x02, 'h', 'i'}) {
				t.Errorf("key %q: echo % x, %v", tc.key, echo, err)
			}
		}
		nc.Close()
	}
}

// Dial against a scripted server that answers with a Connection token list.
func TestKeep6C13N3DialTokenList(t *testing.T) {
	ln, err := net.Listen("tcp", "127.0.0.1:0")
	if err != nil {
		t.Fatal(err)
	}
	defer ln.Close()
	go func() {
		nc, err := ln.Accept()
		if err != nil {
			return
		}
		defer nc.Close()
		br := bufio.NewReader(nc)
		req, err := http.ReadRequest(br)
		if err != nil {
			return
		}
		h := sha1.Sum([]byte(req.Header.Get("Sec-Websocket-Key") + "258EAFA5-E914-47DA-95CA-C5AB0DC85B11"))
		io.WriteString(nc, "HTTP/1.1 101 Switching Protocols\r\nUpgrade: WebSocket\r\nConnection: keep-alive, Upgrade\r\nSec-WebSocket-Accept: "+base64.StdEncoding.EncodeToString(h[:])+"\r\n\r\n")
		// unmasked binary frame 01 02 03, then read the client's frame
		nc.Write([]byte{0x82, 0x03, 1, 2, 3})
		io.ReadFull(br, make([]byte, 2+4+2))
	}()
	c, _, err := websocket.DefaultDialer.Dial("ws://"+ln.Addr().String()+"/", nil)
	if err != nil {
		t.Fatalf("dial: %v", err)
	}
	defer c.Close()
	mt, p, err := c.ReadMessage()
	if err != nil || mt != websocket.BinaryMessage || !bytes.Equal(p, []byte{1, 2, 3}) {
		t.Errorf("got %d % x %v", mt, p, err)
	}
	if err := c.WriteMessage(websocket.TextMessage, []byte("ok")); err != nil {
		t.Errorf("write: %v", err)
	}
}
