package flv_test

import (
	"bytes"
	"sync"
	"testing"

	"github.com/ossrs/go-oryx-lib/flv"
)

type keep6C09N1Tag struct {
	typ  flv.TagType
	ts   uint32
	body []byte
}

// Independent writer of the FLV v1 layout.
func keep6C09N1Ref(hasVideo, hasAudio bool, tags []keep6C09N1Tag) []byte {
	var flags byte
	if hasVideo {
		flags |= 1
	}
	if hasAudio {
		flags |= 4
	}
	b := []byte{'F', 'L', 'V', 1, flags, 0, 0, 0, 9, 0, 0, 0, 0}
	for _, t := range tags {
		n := uint32(len(t.body))
		b = append(b, byte(t.typ), byte(n>>16), byte(n>>8), byte(n),
			byte(t.ts>>16), byte(t.ts>>8), byte(t.ts), byte(t.ts>>24), 0, 0, 0)
		b = append(b, t.body...)
		n += 11
		b = append(b, byte(n>>24), byte(n>>16), byte(n>>8), byte(n))
	}
	return b
}

type keep6C09N1OneByte struct{ r *bytes.Reader }

func (v keep6C09N1OneByte) Read(p []byte) (int, error) {
	if len(p) > 1 {
		p = p[:1]
	}
	return v.r.Read(p)
}

type keep6C09N1Safe struct {
	sync.Mutex
	bytes.Buffer
}

func (v *keep6C09N1Safe) Write(p []byte) (int, error) {
	v.Lock()
	defer v.Unlock()
	return v.Buffer.Write(p)
}

func TestKeep6C09N1(t *testing.T) {
	mk := func(n int, seed byte) []byte {
		b := make([]byte, n)
		for i := range b {
			b[i] = byte(i)*31 + seed
		}
		return b
	}
	tags := []keep6C09N1Tag{
		{8, 0, nil}, {9, 1, mk(1, 1)}, {18, 0xffffff, mk(255, 2)}, {0, 0x1000000, mk(256, 3)},
		{255, 0xffffffff, mk(65535, 4)}, {9, 0x1000001, mk(65536, 5)}, {8, 0xfffffffe, mk(1<<24-1, 6)},
		{9, 7, []byte{}},
	}
	for flags := 0; flags < 4; flags++ {
		hv, ha := flags&1 != 0, flags&2 != 0
		var w bytes.Buffer
		m, _ := flv.NewMuxer(&w)
		if err := m.WriteHeader(hv, ha); err != nil {
			t.Fatal(err)
		}
		for _, tg := range tags {
			if err := m.WriteTag(tg.typ, tg.ts, tg.body); err != nil {
				t.Fatal(err)
			}
		}
		m.Close()
		ref := keep6C09N1Ref(hv, ha, tags)
		if !bytes.Equal(ref, w.Bytes()) {
			t.Fatalf("layout differs, flags=%v", flags)
		}
		if flags != 3 {
			continue
		}
		d, _ := flv.NewDemuxer(keep6C09N1OneByte{bytes.NewReader(ref)})
		ver, gv, ga, err := d.ReadHeader()
		if err != nil || ver != 1 || gv != hv || ga != ha {
			t.Fatalf("header %v %v %v %v", ver, gv, ga, err)
		}
		for i, tg := range tags {
			typ, size, ts, err := d.ReadTagHeader()
			if err != nil || typ != tg.typ || int(size) != len(tg.body) || ts != tg.ts {
				t.Fatalf("tag %v header %v %v %v %v", i, typ, size, ts, err)
			}
			body, err := d.ReadTag(size)
			if err != nil || !bytes.Equal(body, tg.body) {
				t.Fatalf("tag %v body err=%v", i, err)
			}
		}
	}

	// Concurrent writers: each tag stays contiguous.
	w := &keep6C09N1Safe{}
	m, _ := flv.NewMuxer(w)
	var wg sync.WaitGroup
	for g := 0; g < 8; g++ {
		wg.Add(1)
		go func(g int) {
			defer wg.Done()
			for i := 0; i < 200; i++ {
				m.WriteTag(flv.TagType(g), uint32(i), bytes.Repeat([]byte{byte(g)}, 10+g))
			}
		}(g)
	}
	wg.Wait()
	d, _ := flv.NewDemuxer(&w.Buffer)
	for i := 0; i < 1600; i++ {
		typ, size, _, err := d.ReadTagHeader()
		if err != nil || int(size) != 10+int(typ) {
			t.Fatalf("interleaved tag %v: %v %v %v", i, typ, size, err)
		}
		body, err := d.ReadTag(size)
		if err != nil || !bytes.Equal(body, bytes.Repeat([]byte{byte(typ)}, 10+int(typ))) {
			t.Fatalf("interleaved body %v", i)
		}
	}
}
