package aac

import (
	"bytes"
	"testing"
)

// Belongs to package directory aac/ (internal test, package aac).
func TestKeep5C11N1(t *testing.T) {
	objs := []ObjectType{ObjectTypeMain, ObjectTypeLC, ObjectTypeSSR, ObjectTypeHE, ObjectTypeHEv2}
	for _, obj := range objs {
		for sr := SampleRateIndex(1); sr <= 12; sr++ {
			for ch := Channels(1); ch <= 7; ch++ {
				for _, n := range []int{1, 2, 7, 8, 255, 256, 2047, 2048, 4096, 8183, 8184} {
					asc := &AudioSpecificConfig{Object: obj, SampleRate: sr, Channels: ch}
					b, err := asc.MarshalBinary()
					if err != nil {
						t.Fatal(err)
					}
					enc, _ := NewADTS()
					if err = enc.SetASC(b); err != nil {
						t.Fatal(err)
					}
					raw := make([]byte, n)
					for i := range raw {
						raw[i] = byte(i*31 + n)
					}
					f0, err := enc.Encode(raw)
					if err != nil {
						t.Fatal(err)
					}
					f1, _ := enc.Encode(raw[:1])
					stream := append(append([]byte{}, f0...), f1...)

					dec, _ := NewADTS()
					r, left, err := dec.Decode(stream)
					if err != nil || !bytes.Equal(r, raw) || !bytes.Equal(left, f1) {
						t.Fatalf("first frame obj=%v sr=%v ch=%v n=%v err=%v", obj, sr, ch, n, err)
					}
					if left[0] != 0xff || left[1]&0xf0 != 0xf0 {
						t.Fatal("left not at sync")
					}
					r, left, err = dec.Decode(left)
					if err != nil || !bytes.Equal(r, raw[:1]) || len(left) != 0 {
						t.Fatalf("second frame err=%v", err)
					}
					a := dec.ASC()
					if a.Object != obj.ToProfile().ToObjectType() || a.SampleRate != sr || a.Channels != ch {
						t.Fatalf("asc %+v", a)
					}
					// ISO layout: frame_length and raw_data_blocks, layer, protection_absent.
					fl := int(f0[3]&3)<<11 | int(f0[4])<<3 | int(f0[5])>>5
					if fl != len(f0) || f0[6]&3 != 0 || f0[1] != 0xf1 {
						t.Fatalf("layout fl=%v", fl)
					}
					// Changed outside behaviour: buffer fullness now 0x7ff.
					if bf := int(f0[5]&0x1f)<<6 | int(f0[6])>>2; bf != 0x7ff {
						t.Fatalf("fullness %#x", bf)
					}
				}
			}
		}
	}
	enc, _ := NewADTS()
	enc.SetASC([]byte{0x12, 0x10})
	if _, err := enc.Encode(make([]byte, 8185)); err == nil {
		t.Fatal("oversize should fail")
	}
}
