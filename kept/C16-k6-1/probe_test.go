package jose_test

import (
	"bytes"
	"crypto/ecdsa"
	"crypto/elliptic"
	"crypto/rand"
	"crypto/rsa"
	"strings"
	"testing"

	"github.com/ossrs/go-oryx-lib/https/jose"
)

func flipTestKeep6C16N1(s string) string {
	// flips the lowest bit of the first decoded byte of a base64url field
	const abc = "ABCDEFGHIJKLMNOPQRSTUVWXYZabcdefghijklmnopqrstuvwxyz0123456789-_"
	i := strings.IndexByte(abc, s[0])
	return string(abc[i^4]) + s[1:]
}

func TestKeep6C16N1(t *testing.T) {
	rk, _ := rsa.GenerateKey(rand.Reader, 2048)
	ek, _ := ecdsa.GenerateKey(elliptic.P256(), rand.Reader)
	e5, _ := ecdsa.GenerateKey(elliptic.P521(), rand.Reader)
	hk := bytes.Repeat([]byte{7}, 64)
	type sc struct {
		alg      jose.SignatureAlgorithm
		sk, vk   interface{}
		wrong    interface{}
	}
	rk2, _ := rsa.GenerateKey(rand.Reader, 2048)
	ek2, _ := ecdsa.GenerateKey(elliptic.P256(), rand.Reader)
	scs := []sc{
		{jose.HS256, hk, hk, bytes.Repeat([]byte{8}, 64)},
		{jose.HS512, hk, hk, bytes.Repeat([]byte{8}, 64)},
		{jose.RS256, rk, &rk.PublicKey, &rk2.PublicKey},
		{jose.PS384, rk, &rk.PublicKey, &rk2.PublicKey},
		{jose.ES256, ek, &ek.PublicKey, &ek2.PublicKey},
		{jose.ES512, e5, &e5.PublicKey, &ek2.PublicKey},
	}
	for _, c := range scs {
		for _, n := range []int{0, 1, 16, 33} {
			payload := bytes.Repeat([]byte{0xa5}, n)
			s, err := jose.NewSigner(c.alg, c.sk)
			if err != nil {
				t.Fatal(c.alg, err)
			}
			obj, err := s.Sign(payload)
			if err != nil {
				t.Fatal(c.alg, err)
			}
			compact, err := obj.CompactSerialize()
			if err != nil {
				t.Fatal(err)
			}
			for _, ser := range []string{compact, obj.FullSerialize()} {
				p, err := jose.ParseSigned(ser)
				if err != nil {
					t.Fatal(c.alg, n, err)
				}
				out, err := p.Verify(c.vk)
				if err != nil || !bytes.Equal(out, payload) {
					t.Fatal(c.alg, n, err, out)
				}
				if _, err := p.Verify(c.wrong); err == nil {
					t.Fatal("wrong key verified", c.alg)
				}
			}
			parts := strings.Split(compact, ".")
			for i := range parts {
				if parts[i] == "" {
					continue
				}
				q := append([]string{}, parts...)
				q[i] = flipTestKeep6C16N1(q[i])
				p, err := jose.ParseSigned(strings.Join(q, "."))
				if err == nil {
					_, err = p.Verify(c.vk)
				}
				if err == nil {
					t.Fatal("tampered part verified", c.alg, i)
				}
			}
		}
	}

	type ec struct {
		alg    jose.KeyAlgorithm
		ek, dk interface{}
		wrong  interface{}
	}
	k16, k32 := bytes.Repeat([]byte{1}, 16), bytes.Repeat([]byte{2}, 32)
	ecs := []ec{
		{jose.RSA1_5, &rk.PublicKey, rk, rk2},
		{jose.RSA_OAEP_256, &rk.PublicKey, rk, rk2},
		{jose.A128KW, k16, k16, bytes.Repeat([]byte{3}, 16)},
		{jose.A256GCMKW, k32, k32, bytes.Repeat([]byte{3}, 32)},
		{jose.ECDH_ES, &ek.PublicKey, ek, ek2},
		{jose.ECDH_ES_A192KW, &ek.PublicKey, ek, ek2},
	}
	for _, enc := range []jose.ContentEncryption{jose.A128GCM, jose.A256CBC_HS512} {
		dirKey := k16
		if enc == jose.A256CBC_HS512 {
			dirKey = bytes.Repeat([]byte{4}, 64)
		}
		wrongDir := append([]byte{}, dirKey...)
		wrongDir[0] ^= 1
		all := append(append([]ec{}, ecs...), ec{jose.DIRECT, dirKey, dirKey, wrongDir})
		for _, c := range all {
			for _, zip := range []jose.CompressionAlgorithm{jose.NONE, jose.DEFLATE} {
				for _, n := range []int{0, 15, 16, 17} {
					pt := bytes.Repeat([]byte{0x5a}, n)
					e, err := jose.NewEncrypter(c.alg, enc, c.ek)
					if err != nil {
						t.Fatal(c.alg, enc, err)
					}
					e.SetCompression(zip)
					obj, err := e.Encrypt(pt)
					if err != nil {
						t.Fatal(c.alg, enc, err)
					}
					compact, err := obj.CompactSerialize()
					if err != nil {
						t.Fatal(err)
					}
					aobj, err := e.EncryptWithAuthData(pt, []byte("aad!"))
					if err != nil {
						t.Fatal(err)
					}
					for k, ser := range []string{compact, obj.FullSerialize(), aobj.FullSerialize()} {
						p, err := jose.ParseEncrypted(ser)
						if err != nil {
							t.Fatal(err)
						}
						out, err := p.Decrypt(c.dk)
						if err != nil || !bytes.Equal(out, pt) {
							t.Fatal(c.alg, enc, zip, n, k, err, out)
						}
						if k == 2 && string(p.GetAuthData()) != "aad!" {
							t.Fatal("aad")
						}
						if _, err := p.Decrypt(c.wrong); err == nil {
							t.Fatal("wrong key decrypted", c.alg, enc)
						}
					}
					parts := strings.Split(compact, ".")
					for i := range parts {
						if parts[i] == "" {
							continue
						}
						q := append([]string{}, parts...)
						q[i] = flipTestKeep6C16N1(q[i])
						p, err := jose.ParseEncrypted(strings.Join(q, "."))
						if err == nil {
							_, err = p.Decrypt(c.dk)
						}
						if err == nil {
							t.Fatal("tampered part decrypted", c.alg, enc, i)
						}
					}
				}
			}
		}
	}
}

// Behaviour that changed (outside the property): the object owns its payload.
func TestKeep6C16N1Copies(t *testing.T) {
	key := bytes.Repeat([]byte{9}, 32)
	payload := []byte("hello world")
	s, _ := jose.NewSigner(jose.HS256, key)
	obj, err := s.Sign(payload)
	if err != nil {
		t.Fatal(err)
	}
	payload[0] ^= 1 // old: corrupts obj; new: obj unaffected
	key[0] ^= 1     // old: later Sign calls use the modified key; new: unaffected
	out, err := obj.Verify(bytes.Repeat([]byte{9}, 32))
	if err != nil || string(out) != "hello world" {
		t.Fatal(err, string(out))
	}
	out[0] ^= 1 // old: corrupts obj through the returned view
	if out2, err := obj.Verify(bytes.Repeat([]byte{9}, 32)); err != nil || string(out2) != "hello world" {
		t.Fatal(err, string(out2))
	}
	obj2, _ := s.Sign([]byte("x"))
	if _, err := obj2.Verify(bytes.Repeat([]byte{9}, 32)); err != nil {
		t.Fatal(err)
	}
}
