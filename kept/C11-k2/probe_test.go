package aac

import (
	"bytes"
	"testing"
)

// Belongs to package directory aac/ (internal test, package aac).
// Independent ISO 13818-7 writer.
func keep5C11N2Frame(profile, sfi, ch, id, crc int, raw []byte) []byte {
	hs := 7
	if crc != 0 {
		hs = 9
	}
	fl := hs + len(raw)
	pa := 1
	if crc != 0 {
		pa = 0
	}
	b := []byte{
		0xff,
		byte(0xf0 | id<<3 | pa),
		byte(profile<<6 | sfi<<2 | ch>>2),
		byte((ch&3)<<6 | fl>>11),
		byte(fl >> 3),
		byte((fl&7)<<5 | 0x1f),
		0xfc,
	}
	if crc != 0 {
		b = append(b, 0xab, 0xcd)
	}
	return append(b, raw...)
}

func TestKeep5C11N2(t *testing.T) {
	for profile := 0; profile < 3; profile++ {
		for sfi := 1; sfi <= 12; sfi++ {
			for ch := 1; ch <= 7; ch++ {
				for id := 0; id < 2; id++ {
					for crc := 0; crc < 2; crc++ {
						for _, n := range []int{1, 2, 100, 8182} {
							raw := make([]byte, n)
							for i := range raw {
								raw[i] = byte(i*7 + n)
							}
							f := keep5C11N2Frame(profile, sfi, ch, id, crc, raw)
							g := keep5C11N2Frame(profile, sfi, ch, id, 1-crc, raw[:1])
							dec, _ := NewADTS()
							r, left, err := dec.Decode(append(append([]byte{}, f...), g...))
							if err != nil || !bytes.Equal(r, raw) || !bytes.Equal(left, g) {
								t.Fatalf("err=%v", err)
							}
							r, left, err = dec.Decode(left)
							if err != nil || !bytes.Equal(r, raw[:1]) || len(left) != 0 {
								t.Fatalf("err=%v", err)
							}
							a := dec.ASC()
							if int(a.Object.ToProfile()) != profile || int(a.SampleRate) != sfi || int(a.Channels) != ch {
								t.Fatalf("asc %+v", a)
							}
						}
					}
				}
			}
		}
	}

	// All 65536 configs: accept/reject + bit exact round trip of accepted values.
	for x := 0; x < 65536; x++ {
		b := []byte{byte(x >> 8), byte(x)}
		obj, sr, ch := x>>11, (x>>7)&15, (x>>3)&15
		okObj := obj == 1 || obj == 2 || obj == 3 || obj == 5 || obj == 29
		want := okObj && sr >= 1 && sr <= 12 && ch >= 1 && ch <= 7
		var asc AudioSpecificConfig
		err := asc.UnmarshalBinary(b)
		if (err == nil) != want {
			t.Fatalf("%#x err=%v", x, err)
		}
		if !want {
			continue
		}
		if int(asc.Object) != obj || int(asc.SampleRate) != sr || int(asc.Channels) != ch {
			t.Fatalf("%#x %+v", x, asc)
		}
		m, err := asc.MarshalBinary()
		if err != nil || m[0] != b[0] || m[1] != b[1]&0xf8 {
			t.Fatalf("%#x -> %#x", x, m)
		}
	}

	// Changed outside behaviour: a failed decode / SetASC keeps the previous config.
	dec, _ := NewADTS()
	if err := dec.SetASC([]byte{0x12, 0x10}); err != nil {
		t.Fatal(err)
	}
	if err := dec.SetASC([]byte{0x00, 0x00}); err == nil {
		t.Fatal("should fail")
	}
	if _, _, err := dec.Decode([]byte{0xff, 0xf1, 0x4c, 0x40, 0x20, 0x1f, 0xfc, 0x00}); err == nil {
		t.Fatal("truncated should fail")
	}
	if a := dec.ASC(); a.Object != ObjectTypeLC || a.SampleRate != SampleRateIndex44kHz || a.Channels != ChannelStereo {
		t.Fatalf("asc clobbered %+v", a)
	}
}
