package rtmp_test

import (
	"bytes"
	"reflect"
	"testing"

	"github.com/ossrs/go-oryx-lib/amf0"
	"github.com/ossrs/go-oryx-lib/rtmp"
)

// Belongs to the rtmp/ package directory.
func TestKeep6C03N3(t *testing.T) {
	wire := &bytes.Buffer{}
	cli, srv := rtmp.NewProtocol(wire), rtmp.NewProtocol(wire)

	// In the domain: connect with its fixed transaction id 1, object and optional args.
	conn := rtmp.NewConnectAppPacket()
	conn.CommandObject.Set("app", amf0.NewString("live")).Set("tcUrl", amf0.NewString("rtmp://h/live"))
	conn.Args = amf0.NewObject()
	conn.Args.Set("k", amf0.NewNumber(3))
	b, err := conn.MarshalBinary()
	if err != nil || len(b) != conn.Size() {
		t.Fatalf("marshal %v %v %v", err, len(b), conn.Size())
	}
	c2 := rtmp.NewConnectAppPacket()
	if err = c2.UnmarshalBinary(b); err != nil || !reflect.DeepEqual(conn, c2) || c2.TransactionID != 1 {
		t.Fatalf("unmarshal %v %+v", err, c2)
	}

	if err = cli.WritePacket(conn, 0); err != nil {
		t.Fatal(err)
	}
	var got *rtmp.ConnectAppPacket
	m, err := srv.ExpectPacket(&got)
	if err != nil || !reflect.DeepEqual(conn, got) || !bytes.Equal(m.Payload, b) {
		t.Fatalf("expect %v %+v", err, got)
	}

	// The response is matched by tid 1, exactly once; unmatched is an error.
	wire.Reset()
	res := rtmp.NewConnectAppResPacket(1)
	res.CommandObject.Set("fmsVer", amf0.NewString("FMS/3,5,3,888"))
	for i := 0; i < 2; i++ {
		if err = srv.WritePacket(res, 0); err != nil {
			t.Fatal(err)
		}
	}
	var gres *rtmp.ConnectAppResPacket
	if _, err = cli.ExpectPacket(&gres); err != nil || !reflect.DeepEqual(res, gres) {
		t.Fatalf("expect res %v %+v", err, gres)
	}
	if _, err = cli.ExpectPacket(&gres); err == nil {
		t.Fatal("second response must be an error")
	}

	// A wrong command name is still rejected by the connect decoder.
	call := rtmp.NewCallPacket()
	call.CommandName, call.TransactionID, call.CommandObject = "connectX", 1, amf0.NewObject()
	cb, _ := call.MarshalBinary()
	if err = rtmp.NewConnectAppPacket().UnmarshalBinary(cb); err == nil {
		t.Fatal("connectX must not be a connect")
	}

	// New, outside the domain: connect with another tid is accepted and keeps its tid.
	conn.TransactionID = 7
	b, _ = conn.MarshalBinary()
	c3 := rtmp.NewConnectAppPacket()
	if err = c3.UnmarshalBinary(b); err != nil || c3.TransactionID != 7 {
		t.Fatalf("tid 7: %v %+v", err, c3)
	}
}
