package rtmp_test

import (
	"bytes"
	"reflect"
	"strings"
	"testing"

	"github.com/ossrs/go-oryx-lib/amf0"
	"github.com/ossrs/go-oryx-lib/rtmp"
)

// Belongs to the rtmp/ package directory.
func TestKeep6C03N2(t *testing.T) {
	wire := &bytes.Buffer{}
	cli, srv := rtmp.NewProtocol(wire), rtmp.NewProtocol(wire)

	pub := rtmp.NewPublishPacket()
	pub.TransactionID = 5
	pub.StreamName = amf0.String(strings.Repeat("s", 300)) // 3+ chunks
	pub.StreamType = "record"
	play := rtmp.NewPlayPacket()
	play.TransactionID = 6
	play.StreamName = amf0.String(strings.Repeat("p", 129))
	conn := rtmp.NewConnectAppPacket()
	conn.CommandObject.Set("app", amf0.NewString("live"))
	scs := rtmp.NewSetChunkSize()
	scs.ChunkSize = 77

	if pub.BetterCid() != 5 || play.BetterCid() != 5 || conn.BetterCid() != 3 || scs.BetterCid() != 2 {
		t.Fatal("unexpected chunk stream ids")
	}

	// Marshal/Size/Unmarshal.
	for _, p := range []rtmp.Packet{pub, play} {
		b, err := p.MarshalBinary()
		if err != nil || len(b) != p.Size() {
			t.Fatalf("marshal %v %v %v", err, len(b), p.Size())
		}
		q := reflect.New(reflect.TypeOf(p).Elem()).Interface().(rtmp.Packet)
		if err = q.UnmarshalBinary(b); err != nil || !reflect.DeepEqual(p, q) {
			t.Fatalf("unmarshal %v %+v", err, q)
		}
	}

	// Over the wire, interleaved with packets on the other chunk streams and a chunk size change.
	seq := []rtmp.Packet{conn, pub, scs, play, pub, conn, play}
	for _, p := range seq {
		if err := cli.WritePacket(p, 1); err != nil {
			t.Fatal(err)
		}
	}
	for i, p := range seq {
		m, err := srv.ReadMessage()
		if err != nil {
			t.Fatal(i, err)
		}
		if m.MessageType != p.Type() {
			t.Fatal(i, m.MessageType)
		}
		got, err := srv.DecodeMessage(m)
		if err != nil {
			t.Fatal(i, err)
		}
		want, _ := p.MarshalBinary()
		again, _ := got.MarshalBinary()
		if !bytes.Equal(want, m.Payload) || !bytes.Equal(want, again) {
			t.Fatal(i, "payload differs")
		}
		switch p.(type) {
		case *rtmp.PublishPacket:
			if !reflect.DeepEqual(got, p) {
				t.Fatalf("%v %+v", i, got)
			}
		case *rtmp.PlayPacket: // The library decodes play as a generic call.
			c, ok := got.(*rtmp.CallPacket)
			if !ok || c.CommandName != "play" || c.TransactionID != 6 {
				t.Fatalf("%v %+v", i, got)
			}
		}
	}
}
