package amf0

import (
	"bytes"
	"strings"
	"testing"
)

// Belongs to package directory amf0/ (change 2).
func TestKeep5C05N2(t *testing.T) {
	max := strings.Repeat("x", 65535)
	root := NewEcmaArray()
	root.Set(max, NewString(max))
	root.Set("", NewString(""))
	sa := NewStrictArray()
	sa.Set("0", NewUndefined())
	root.Set("sa", sa)

	b, err := root.MarshalBinary()
	if err != nil {
		t.Fatal(err)
	}
	if len(b) != root.Size() {
		t.Fatalf("size %v != len %v", root.Size(), len(b))
	}
	d := NewEcmaArray()
	if err = d.UnmarshalBinary(append(append([]byte{}, b...), 9, 9)); err != nil {
		t.Fatal(err)
	}
	if d.Size() != len(b) {
		t.Fatalf("decoded size %v != %v", d.Size(), len(b))
	}
	if s := d.Get(max).(*String); string(*s) != max {
		t.Fatalf("string lost")
	}
	if string(d.properties[0].key) != max || string(d.properties[1].key) != "" || string(d.properties[2].key) != "sa" {
		t.Fatalf("key order lost")
	}
	if b2, err := d.MarshalBinary(); err != nil || !bytes.Equal(b, b2) {
		t.Fatalf("re-marshal differs %v", err)
	}

	// Outside the stated domain: 65536 bytes can not be framed by a U16 length.
	long := max + "y"
	if _, err = NewString(long).MarshalBinary(); err == nil {
		t.Fatalf("over-long string should be rejected")
	}
	o := NewObject()
	o.Set(long, NewNull())
	if _, err = o.MarshalBinary(); err == nil {
		t.Fatalf("over-long key should be rejected")
	}
}
