package logger

import (
	"bytes"
	"context"
	"fmt"
	"io/ioutil"
	"os"
	"regexp"
	"strings"
	"sync"
	"testing"
)

type keep5C18N2Buf struct {
	mu sync.Mutex
	b  bytes.Buffer
}

func (v *keep5C18N2Buf) Write(p []byte) (int, error) {
	v.mu.Lock()
	defer v.mu.Unlock()
	return v.b.Write(p)
}

type keep5C18N2Conn int

func (v keep5C18N2Conn) Cid() int { return int(v) }

func TestKeep5C18N2(t *testing.T) {
	// Capture the real stdout, to show no color escapes are written after Switch.
	r, pw, err := os.Pipe()
	if err != nil {
		t.Fatal(err)
	}
	stdout := os.Stdout
	os.Stdout = pw
	defer func() { os.Stdout = stdout }()

	w := &keep5C18N2Buf{}
	Switch(w)

	const G, N = 8, 40
	var wg sync.WaitGroup
	for g := 0; g < G; g++ {
		wg.Add(1)
		go func(g int) {
			defer wg.Done()
			ctx := WithContext(context.Background())
			cid := ctx.Value(cidKey).(int)
			for i := 0; i < N; i++ {
				Ef(ctx, "ctx cid=%v", cid)
				W(ctx, "ctx", fmt.Sprintf("cid=%v", cid))
				E(keep5C18N2Conn(7000+g), "obj", fmt.Sprintf("cid=%v", 7000+g))
				Wf(keep5C18N2Conn(7000+g), "obj cid=%v", 7000+g)
				T(nil, "nil")
				Ef(nil, "nil %v", i)
			}
		}(g)
	}
	wg.Wait()

	pw.Close()
	os.Stdout = stdout
	if out, _ := ioutil.ReadAll(r); len(out) != 0 {
		t.Fatalf("stdout polluted: %q", out)
	}

	pid := fmt.Sprint(os.Getpid())
	re := regexp.MustCompile(`^\[(trace|warn|error)\] \d{4}/\d\d/\d\d \d\d:\d\d:\d\d\.\d{6} \[` + pid + `\](\[(\d+)\])? +(ctx|obj|nil)( cid=(\d+)| \d+)?$`)
	lines := strings.Split(strings.TrimSuffix(w.b.String(), "\n"), "\n")
	if len(lines) != G*N*6 {
		t.Fatalf("got %v lines", len(lines))
	}
	for _, l := range lines {
		m := re.FindStringSubmatch(l)
		if m == nil {
			t.Fatalf("bad line %q", l)
		}
		if (m[4] == "nil") != (m[3] == "") || m[3] != m[6] {
			t.Fatalf("wrong cid in line %q", l)
		}
	}

	// A stale closer of a previous writer is not closed any more.
	f, err := ioutil.TempFile("", "keep5C18N2")
	if err != nil {
		t.Fatal(err)
	}
	defer os.Remove(f.Name())
	Switch(f)
	Switch(w)
	f.Close() // user owns the previous writer.
	if err := Close(); err != nil {
		t.Fatalf("close: %v", err)
	}
}
