package flv_test

import (
	"bytes"
	"io"
	"testing"
	"testing/iotest"

	"github.com/ossrs/go-oryx-lib/flv"
)

type keep6C09N3Tag struct {
	typ  flv.TagType
	ts   uint32
	body []byte
}

// Independent writer of the FLV v1 layout.
func keep6C09N3Ref(hasVideo, hasAudio bool, tags []keep6C09N3Tag) []byte {
	var flags byte
	if hasVideo {
		flags |= 1
	}
	if hasAudio {
		flags |= 4
	}
	b := []byte{'F', 'L', 'V', 1, flags, 0, 0, 0, 9, 0, 0, 0, 0}
	for _, t := range tags {
		n := uint32(len(t.body))
		b = append(b, byte(t.typ), byte(n>>16), byte(n>>8), byte(n),
			byte(t.ts>>16), byte(t.ts>>8), byte(t.ts), byte(t.ts>>24), 0, 0, 0)
		b = append(b, t.body...)
		n += 11
		b = append(b, byte(n>>24), byte(n>>16), byte(n>>8), byte(n))
	}
	return b
}

type keep6C09N3OneByte struct{ r *bytes.Reader }

func (v keep6C09N3OneByte) Read(p []byte) (int, error) {
	if len(p) > 1 {
		p = p[:1]
	}
	return v.r.Read(p)
}

func TestKeep6C09N3(t *testing.T) {
	mk := func(n int, seed byte) []byte {
		b := make([]byte, n)
		for i := range b {
			b[i] = byte(i)*31 + seed
		}
		return b
	}
	tags := []keep6C09N3Tag{
		{8, 0, nil}, {9, 1, mk(1, 1)}, {18, 0xffffff, mk(255, 2)}, {0, 0x1000000, mk(256, 3)},
		{255, 0xffffffff, mk(65535, 4)}, {9, 0x1000001, mk(65536, 5)}, {8, 0xfffffffe, mk(1<<24-1, 6)},
		{9, 7, []byte{}},
	}
	for flags := 0; flags < 4; flags++ {
		hv, ha := flags&1 != 0, flags&2 != 0
		var w bytes.Buffer
		m, _ := flv.NewMuxer(&w)
		if err := m.WriteHeader(hv, ha); err != nil {
			t.Fatal(err)
		}
		for _, tg := range tags {
			if err := m.WriteTag(tg.typ, tg.ts, tg.body); err != nil {
				t.Fatal(err)
			}
		}
		m.Close()
		ref := keep6C09N3Ref(hv, ha, tags)
		if !bytes.Equal(ref, w.Bytes()) {
			t.Fatalf("layout differs, flags=%v", flags)
		}
		if flags != 3 {
			continue
		}
		d, _ := flv.NewDemuxer(keep6C09N3OneByte{bytes.NewReader(ref)})
		ver, gv, ga, err := d.ReadHeader()
		if err != nil || ver != 1 || gv != hv || ga != ha {
			t.Fatalf("header %v %v %v %v", ver, gv, ga, err)
		}
		for i, tg := range tags {
			typ, size, ts, err := d.ReadTagHeader()
			if err != nil || typ != tg.typ || int(size) != len(tg.body) || ts != tg.ts {
				t.Fatalf("tag %v header %v %v %v %v", i, typ, size, ts, err)
			}
			body, err := d.ReadTag(size)
			if err != nil || !bytes.Equal(body, tg.body) {
				t.Fatalf("tag %v body err=%v", i, err)
			}
		}
	}

	// Segmentations: 1 byte, 7 bytes, whole; and the behaviours outside the statement.
	small := []keep6C09N3Tag{{8, 0xffffffff, mk(300, 9)}, {9, 1 << 24, nil}, {18, 3, mk(1, 1)}}
	ref := keep6C09N3Ref(true, false, small)
	d, _ := flv.NewDemuxer(iotest.HalfReader(bytes.NewReader(ref)))
	if _, _, _, err := d.ReadHeader(); err != nil {
		t.Fatal(err)
	}
	for i, tg := range small {
		typ, size, ts, err := d.ReadTagHeader()
		if err != nil || typ != tg.typ || int(size) != len(tg.body) || ts != tg.ts {
			t.Fatalf("tag %v header %v %v %v %v", i, typ, size, ts, err)
		}
		body, err := d.ReadTag(size)
		if err != nil || !bytes.Equal(body, tg.body) || len(body) != int(size) {
			t.Fatalf("tag %v body err=%v", i, err)
		}
	}
	if _, _, _, err := d.ReadTagHeader(); err != io.EOF {
		t.Fatalf("want EOF, got %v", err)
	}

	// Outside the statement: a header announcing 4 bytes of extended header (DataOffset 13).
	ext := append([]byte{'F', 'L', 'V', 1, 5, 0, 0, 0, 13, 0xde, 0xad, 0xbe, 0xef}, ref[9:]...)
	d, _ = flv.NewDemuxer(bytes.NewReader(ext))
	if _, _, _, err := d.ReadHeader(); err != nil {
		t.Fatal(err)
	}
	if typ, size, ts, err := d.ReadTagHeader(); err != nil || typ != 8 || size != 300 || ts != 0xffffffff {
		t.Fatalf("extended header: %v %v %v %v", typ, size, ts, err)
	}
}
