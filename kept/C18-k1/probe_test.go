package logger

import (
	"bytes"
	"context"
	"fmt"
	"os"
	"regexp"
	"strings"
	"sync"
	"testing"
)

type keep5C18LockedBuf struct {
	mu sync.Mutex
	b  bytes.Buffer
}

func (v *keep5C18LockedBuf) Write(p []byte) (int, error) {
	v.mu.Lock()
	defer v.mu.Unlock()
	return v.b.Write(p)
}

type keep5C18Conn int

func (v keep5C18Conn) Cid() int { return int(v) }

func TestKeep5C18N1(t *testing.T) {
	const G, N = 16, 500
	w := &keep5C18LockedBuf{}
	Switch(w)

	ids := make([][]int, G)
	var wg sync.WaitGroup
	for g := 0; g < G; g++ {
		wg.Add(1)
		go func(g int) {
			defer wg.Done()
			for i := 0; i < N; i++ {
				ctx := WithContext(context.Background())
				cid := ctx.Value(cidKey).(int)
				ids[g] = append(ids[g], cid)
				if a := AliasContext(context.Background(), ctx); a.Value(cidKey).(int) != cid {
					t.Errorf("alias cid mismatch")
				}
				if i%50 == 0 {
					Tf(ctx, "g=%v i=%v cid=%v", g, i, cid)
					W(keep5C18Conn(g), "obj", g)
					E(nil, "nil", g)
				}
			}
		}(g)
	}
	wg.Wait()

	seen := map[int]bool{}
	for _, l := range ids {
		for _, id := range l {
			if seen[id] {
				t.Fatalf("duplicate cid %v", id)
			}
			seen[id] = true
		}
	}
	if len(seen) != G*N {
		t.Fatalf("got %v ids", len(seen))
	}

	re := regexp.MustCompile(`^\[(trace|warn|error)\] \d{4}/\d\d/\d\d \d\d:\d\d:\d\d\.\d{6} \[` + fmt.Sprint(os.Getpid()) + `\](\[\d+\])? +\S.*$`)
	lines := strings.Split(strings.TrimSuffix(w.b.String(), "\n"), "\n")
	if len(lines) != G*(N/50)*3 {
		t.Fatalf("got %v lines", len(lines))
	}
	for _, l := range lines {
		if !re.MatchString(l) {
			t.Fatalf("bad line %q", l)
		}
		if m := regexp.MustCompile(`\]\[(\d+)\] g=\d+ i=\d+ cid=(\d+)$`).FindStringSubmatch(l); m != nil && m[1] != m[2] {
			t.Fatalf("wrong cid in line %q", l)
		}
	}
}
