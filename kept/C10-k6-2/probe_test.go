package flv_test

import (
	"bytes"
	"reflect"
	"testing"

	"github.com/ossrs/go-oryx-lib/flv"
)

func TestKeep6C10N2(t *testing.T) {
	ap, _ := flv.NewAudioPackager()
	vp, _ := flv.NewVideoPackager()
	raws := [][]byte{{}, {1}, {1, 2, 3, 4, 5, 6, 7}}
	for b0 := 0; b0 < 256; b0++ {
		for _, raw := range raws {
			// audio, frame -> tag -> frame
			f := &flv.AudioFrame{
				SoundFormat: flv.AudioCodec(b0 >> 4), SoundRate: flv.AudioSamplingRate(b0 >> 2 & 3),
				SoundSize: flv.AudioSampleBits(b0 >> 1 & 1), SoundType: flv.AudioChannels(b0 & 1), Raw: raw,
			}
			if f.SoundFormat == flv.AudioCodecAAC {
				f.Trait = flv.AudioFrameTraitRaw
			} else if f.SoundFormat == flv.AudioCodecOpus {
				f.Trait = flv.AudioFrameTraitOpusRaw | flv.AudioFrameTraitOpusSamplingRate | flv.AudioFrameTraitOpusAudioLevel
				f.SoundRate, f.AudioLevel = flv.AudioSamplingRateFB48kHz, 0xbeef
			}
			tag, err := ap.Encode(f)
			if err != nil {
				t.Fatal(err)
			}
			if true {
				g, err := ap.Decode(tag)
				if err != nil {
					t.Fatal(err)
				}
				if len(raw) == 0 {
					g.Raw, f.Raw = nil, nil
				}
				if !reflect.DeepEqual(f, g) {
					t.Fatalf("audio %#x: %+v != %+v", b0, f, g)
				}
				if flv.AudioCodec(tag[0]>>4) != f.SoundFormat {
					t.Fatalf("codec in first byte")
				}
				g.Raw = raw
				if tag2, _ := ap.Encode(g); !bytes.Equal(tag, tag2) {
					t.Fatalf("audio reencode %x != %x", tag2, tag)
				}
			}

			// video
			v := &flv.VideoFrame{CodecID: flv.VideoCodec(b0 & 15), FrameType: flv.VideoFrameType(b0 >> 4), Raw: raw}
			if v.CodecID == flv.VideoCodecAVC || v.CodecID == flv.VideoCodecHEVC {
				v.Trait, v.CTS = flv.VideoFrameTraitNALU, 0xabcdef
			}
			vt, err := vp.Encode(v)
			if err != nil {
				t.Fatal(err)
			}
			if true {
				w, err := vp.Decode(vt)
				if err != nil {
					t.Fatal(err)
				}
				if len(raw) == 0 {
					w.Raw, v.Raw = nil, nil
				}
				if !reflect.DeepEqual(v, w) {
					t.Fatalf("video %#x: %+v != %+v", b0, v, w)
				}
				if vt[0] != byte(b0) {
					t.Fatalf("first byte")
				}
				w.Raw = raw
				if vt2, _ := vp.Encode(w); !bytes.Equal(vt, vt2) {
					t.Fatalf("video reencode")
				}
			}
		}
	}
}

// Short canonical bodies: whatever is accepted re-encodes to the same bytes; AAC/Opus/AVC/HEVC
// bodies that miss their trait bytes, and empty bodies, are still rejected.
func TestKeep6C10N2Short(t *testing.T) {
	ap, _ := flv.NewAudioPackager()
	vp, _ := flv.NewVideoPackager()
	if _, err := ap.Decode(nil); err == nil {
		t.Fatal("empty audio accepted")
	}
	if _, err := vp.Decode([]byte{}); err == nil {
		t.Fatal("empty video accepted")
	}
	for b0 := 0; b0 < 256; b0++ {
		for n := 1; n <= 6; n++ {
			tag := append([]byte{byte(b0)}, []byte{9, 8, 7, 6, 5}[:n-1]...)
			if f, err := ap.Decode(tag); err == nil {
				if out, _ := ap.Encode(f); !bytes.Equal(out, tag) && f.SoundFormat != flv.AudioCodecOpus {
					t.Fatalf("audio %x -> %x", tag, out)
				}
			} else if c := b0 >> 4; n >= 2 && c != 13 || n == 1 && c != 10 && c != 13 {
				t.Fatalf("audio %x rejected: %v", tag, err)
			}
			if f, err := vp.Decode(tag); err == nil {
				if out, _ := vp.Encode(f); !bytes.Equal(out, tag) {
					t.Fatalf("video %x -> %x", tag, out)
				}
			} else if c := b0 & 15; n >= 5 || c != 7 && c != 12 {
				t.Fatalf("video %x rejected: %v", tag, err)
			}
		}
	}
}
