package http

import (
	"encoding/json"
	"errors"
	"fmt"
	"net/http"
	"net/http/httptest"
	"os"
	"reflect"
	"strings"
	"testing"
)

// Belongs to package directory http/ of go-oryx-lib.
func TestKeep5C19N1(t *testing.T) {
	values := []interface{}{
		nil, "plain", "quo\"te \\ \x01\n\t <b>&amp;</b>   世界", 42, -1.5, true,
		[]interface{}{1, "a", nil},
		map[string]interface{}{"a<b": map[string]interface{}{"u": "http://x/?a=1&b=2"}, "n": nil},
	}
	for i, v := range values {
		for _, cb := range []string{"", "myCb"} {
			target := "/api"
			if cb != "" {
				target += "?callback=" + cb
			}
			w := httptest.NewRecorder()
			Data(nil, v).ServeHTTP(w, httptest.NewRequest("GET", target, nil))
			if w.Code != 200 || w.Header().Get("Server") != Server {
				t.Fatalf("#%v bad status/server %v %v", i, w.Code, w.Header())
			}
			body := w.Body.String()
			if cb == "" {
				if w.Header().Get("Content-Type") != HttpJson {
					t.Fatalf("#%v content type %v", i, w.Header())
				}
			} else {
				if w.Header().Get("Content-Type") != HttpJavaScript {
					t.Fatalf("#%v content type %v", i, w.Header())
				}
				if !strings.HasPrefix(body, cb+"(") || !strings.HasSuffix(body, ")") {
					t.Fatalf("#%v not wrapped: %q", i, body)
				}
				body = body[len(cb)+1 : len(body)-1]
			}
			code, data, err := apiParse("url", []byte(body))
			if err != nil || code != 0 {
				t.Fatalf("#%v client failed code=%v err=%v", i, code, err)
			}
			// Compare with the value after a json round trip.
			var want interface{}
			b, _ := json.Marshal(v)
			json.Unmarshal(b, &want)
			if !reflect.DeepEqual(data, want) {
				t.Fatalf("#%v data %#v want %#v", i, data, want)
			}
			obj := map[string]interface{}{}
			json.Unmarshal([]byte(body), &obj)
			if len(obj) != 3 || obj["server"] != float64(os.Getpid()) {
				t.Fatalf("#%v envelope %v", i, obj)
			}
		}
	}

	// Errors keep their own code, unmarshalable yields an error response.
	w := httptest.NewRecorder()
	Error(nil, SystemError(-7)).ServeHTTP(w, httptest.NewRequest("GET", "/api", nil))
	if code, _, err := apiParse("url", w.Body.Bytes()); code != -7 || err == nil {
		t.Fatalf("system error code=%v err=%v", code, err)
	}
	w = httptest.NewRecorder()
	Data(nil, map[string]interface{}{"f": func() {}}).ServeHTTP(w, httptest.NewRequest("GET", "/api", nil))
	if w.Code != 500 {
		t.Fatalf("unmarshalable should be 500, got %v %q", w.Code, w.Body.String())
	}

	// Over real HTTP by the client half.
	mux := http.NewServeMux()
	mux.Handle("/ok", Data(nil, "<ok>"))
	mux.Handle("/cplx", CplxError(nil, SystemError(100), "<bad>"))
	mux.Handle("/plain", Error(nil, errors.New("plain")))
	s := httptest.NewServer(mux)
	defer s.Close()
	if code, _, err := ApiRequest(s.URL + "/ok"); code != 0 || err != nil {
		t.Fatalf("ok code=%v err=%v", code, err)
	}
	if code, _, err := ApiRequest(s.URL + "/cplx"); code != 100 || err == nil {
		t.Fatalf("cplx code=%v err=%v", code, err)
	}
	if _, _, err := ApiRequest(s.URL + "/plain"); err == nil {
		t.Fatalf("plain should fail")
	}

	// Outside behaviour: no HTML escaping, explicit length.
	w = httptest.NewRecorder()
	Data(nil, "a<b&c").ServeHTTP(w, httptest.NewRequest("GET", "/api", nil))
	if !strings.Contains(w.Body.String(), `"a<b&c"`) || w.Header().Get("Content-Length") != fmt.Sprint(w.Body.Len()) {
		t.Fatalf("unexpected %q %v", w.Body.String(), w.Header())
	}
}
