package websocket

import (
	"bytes"
	"encoding/binary"
	"errors"
	"fmt"
	"math/rand"
	"net"
	"runtime"
	"sync"
	"testing"
	"time"
)

// k5c15n2Conn is a recording transport. Every Write is split in two halves with a
// scheduling point in between, so that any missing mutual exclusion in the
// library shows up as interleaved bytes on the wire.
type k5c15n2Conn struct {
	mu        sync.Mutex
	wire      bytes.Buffer
	sizes     []int
	deadlines int
	closes    int
	closed    bool
}

func (c *k5c15n2Conn) Write(p []byte) (int, error) {
	c.mu.Lock()
	if c.closed {
		c.mu.Unlock()
		return 0, errors.New("k5c15n2: transport closed")
	}
	c.sizes = append(c.sizes, len(p))
	h := len(p) / 2
	c.wire.Write(p[:h])
	c.mu.Unlock()
	runtime.Gosched()
	c.mu.Lock()
	c.wire.Write(p[h:])
	c.mu.Unlock()
	return len(p), nil
}
func (c *k5c15n2Conn) Read(p []byte) (int, error) { select {} }
func (c *k5c15n2Conn) Close() error {
	c.mu.Lock()
	defer c.mu.Unlock()
	c.closes++
	if c.closed {
		return errors.New("k5c15n2: already closed")
	}
	c.closed = true
	return nil
}
func (c *k5c15n2Conn) LocalAddr() net.Addr               { return nil }
func (c *k5c15n2Conn) RemoteAddr() net.Addr              { return nil }
func (c *k5c15n2Conn) SetDeadline(time.Time) error       { return nil }
func (c *k5c15n2Conn) SetReadDeadline(time.Time) error   { return nil }
func (c *k5c15n2Conn) SetWriteDeadline(time.Time) error {
	c.mu.Lock()
	c.deadlines++
	c.mu.Unlock()
	return nil
}
func (c *k5c15n2Conn) snapshot() []byte {
	c.mu.Lock()
	defer c.mu.Unlock()
	return append([]byte(nil), c.wire.Bytes()...)
}

type k5c15n2Frame struct {
	op      int
	fin     bool
	payload []byte
}

// k5c15n2Parse parses the wire strictly: it must be a sequence of whole,
// well-formed frames.
func k5c15n2Parse(wire []byte, masked bool) (rfs []k5c15n2Frame, rerr error) {
	var fs []k5c15n2Frame
	defer func() {
		// The transport itself may cut the last frame when it is closed
		// between the two transport writes of one frame.
		if rerr != nil && k5c15n2AllowCut && len(rerr.Error()) > 9 && rerr.Error()[:9] == "truncated" {
			rfs, rerr = fs, nil
		}
	}()
	for len(wire) > 0 {
		if len(wire) < 2 {
			return nil, errors.New("truncated header")
		}
		b0, b1 := wire[0], wire[1]
		if b0&0x70 != 0 {
			return nil, errors.New("reserved bits set")
		}
		op := int(b0 & 0xf)
		switch op {
		case 0, 1, 2, 8, 9, 10:
		default:
			return nil, fmt.Errorf("bad opcode %d", op)
		}
		if (b1&0x80 != 0) != masked {
			return nil, errors.New("wrong mask bit")
		}
		n := uint64(b1 & 0x7f)
		wire = wire[2:]
		switch n {
		case 126:
			if len(wire) < 2 {
				return nil, errors.New("truncated len16")
			}
			n = uint64(binary.BigEndian.Uint16(wire))
			wire = wire[2:]
		case 127:
			if len(wire) < 8 {
				return nil, errors.New("truncated len64")
			}
			n = binary.BigEndian.Uint64(wire)
			wire = wire[8:]
		}
		var key [4]byte
		if masked {
			if len(wire) < 4 {
				return nil, errors.New("truncated mask")
			}
			copy(key[:], wire)
			wire = wire[4:]
		}
		if uint64(len(wire)) < n {
			return nil, errors.New("truncated payload")
		}
		p := append([]byte(nil), wire[:n]...)
		wire = wire[n:]
		for i := range p {
			p[i] ^= key[i&3]
		}
		f := k5c15n2Frame{op: op, fin: b0&0x80 != 0, payload: p}
		if op >= 8 && (!f.fin || n > 125) {
			return nil, errors.New("bad control frame")
		}
		fs = append(fs, f)
	}
	return fs, nil
}

// k5c15n2Check verifies the stated property on a frame list: fragments are
// sequenced correctly, control frames only sit between frames, nothing follows
// a close frame and the complete data messages equal want (in order).
func k5c15n2Check(fs []k5c15n2Frame, want [][]byte) (closeSeen bool, err error) {
	var cur []byte
	open := false
	var got [][]byte
	for i, f := range fs {
		if closeSeen {
			return true, fmt.Errorf("frame %d after close frame", i)
		}
		switch {
		case f.op == 8:
			closeSeen = true
		case f.op >= 9:
			if !bytes.HasPrefix(f.payload, []byte("ctl-")) && len(f.payload) != 0 {
				return closeSeen, fmt.Errorf("control payload damaged: %q", f.payload)
			}
		case f.op == 0:
			if !open {
				return closeSeen, fmt.Errorf("frame %d: continuation without start", i)
			}
			cur = append(cur, f.payload...)
		default:
			if open {
				return closeSeen, fmt.Errorf("frame %d: new message inside a message", i)
			}
			open = true
			cur = append([]byte{}, f.payload...)
		}
		if f.op < 8 && f.fin {
			got = append(got, cur)
			open = false
		}
	}
	if open && !closeSeen && !k5c15n2AllowCut {
		return closeSeen, errors.New("unterminated message without close")
	}
	if len(got) != len(want) {
		return closeSeen, fmt.Errorf("delivered %d messages, want %d", len(got), len(want))
	}
	for i := range got {
		if !bytes.Equal(got[i], want[i]) {
			return closeSeen, fmt.Errorf("message %d damaged", i)
		}
	}
	return closeSeen, nil
}

// k5c15n2Run runs one data writer, k control senders and a closer.
func k5c15n2Run(t *testing.T, isServer bool, bufSize int, seed int64, useWriter bool) (*k5c15n2Conn, *Conn) {
	rng := rand.New(rand.NewSource(seed))
	nc := &k5c15n2Conn{}
	c := newConn(nc, isServer, 1024, bufSize)
	nmsg := 30
	msgs := make([][]byte, nmsg)
	for i := range msgs {
		n := rng.Intn(6 * (bufSize + 10))
		if rng.Intn(4) == 0 {
			n = rng.Intn(8)
		}
		msgs[i] = make([]byte, n)
		rng.Read(msgs[i])
	}
	closeAfter := rng.Intn(nmsg + 5)
	progress := make(chan int, nmsg+1)
	var wg sync.WaitGroup
	var okMsgs [][]byte
	var sawErr error
	wg.Add(1)
	go func() { // the single data writer
		defer wg.Done()
		defer close(progress)
		for i, m := range msgs {
			var err error
			if useWriter {
				w, e := c.NextWriter(BinaryMessage)
				err = e
				for off := 0; err == nil && off < len(m); {
					end := off + 1 + (i*37+off)%(3*bufSize+1)
					if end > len(m) {
						end = len(m)
					}
					_, err = w.Write(m[off:end])
					off = end
				}
				if err == nil {
					err = w.Close()
				}
			} else {
				err = c.WriteMessage(BinaryMessage, m)
			}
			if err != nil {
				if sawErr == nil {
					sawErr = err
				}
				if err != ErrCloseSent {
					t.Errorf("data write %d: unexpected error %v", i, err)
				}
			} else {
				if sawErr != nil {
					t.Errorf("data write %d succeeded after error %v", i, sawErr)
				}
				okMsgs = append(okMsgs, m)
			}
			progress <- i
		}
	}()
	for k := 0; k < 3; k++ {
		wg.Add(1)
		go func(k int) { // control senders
			defer wg.Done()
			closed := false
			for j := 0; j < 40; j++ {
				typ := PingMessage
				if j%2 == 1 {
					typ = PongMessage
				}
				err := c.WriteControl(typ, []byte(fmt.Sprintf("ctl-%d-%d", k, j)), time.Now().Add(10*time.Second))
				if err != nil && err != ErrCloseSent {
					t.Errorf("control %d/%d: unexpected error %v", k, j, err)
				}
				if err == nil && closed {
					t.Errorf("control %d/%d succeeded after close-sent", k, j)
				}
				if err == ErrCloseSent {
					closed = true
				}
				runtime.Gosched()
			}
		}(k)
	}
	wg.Add(1)
	go func() { // the closer
		defer wg.Done()
		for i := range progress {
			if i == closeAfter {
				break
			}
		}
		if err := c.WriteControl(CloseMessage, FormatCloseMessage(CloseNormalClosure, "bye"), time.Now().Add(10*time.Second)); err != nil {
			t.Errorf("close: %v", err)
		}
		for range progress {
		}
	}()
	wg.Wait()

	wire := nc.snapshot()
	fs, err := k5c15n2Parse(wire, !isServer)
	if err != nil {
		t.Fatalf("server=%v buf=%d seed=%d: wire is not a sequence of whole frames: %v", isServer, bufSize, seed, err)
	}
	closeSeen, err := k5c15n2Check(fs, okMsgs)
	if err != nil {
		t.Fatalf("server=%v buf=%d seed=%d: %v", isServer, bufSize, seed, err)
	}
	if !closeSeen {
		t.Fatalf("close frame missing")
	}
	// After the close frame: every write fails with ErrCloseSent, wire untouched.
	if err := c.WriteMessage(TextMessage, []byte("late")); err != ErrCloseSent {
		t.Errorf("late WriteMessage: %v", err)
	}
	if _, err := c.NextWriter(BinaryMessage); err != ErrCloseSent {
		t.Errorf("late NextWriter: %v", err)
	}
	for _, typ := range []int{PingMessage, PongMessage, CloseMessage} {
		if err := c.WriteControl(typ, nil, time.Now().Add(time.Second)); err != ErrCloseSent {
			t.Errorf("late WriteControl(%d): %v", typ, err)
		}
	}
	if !bytes.Equal(wire, nc.snapshot()) {
		t.Errorf("bytes reached the wire after the close frame")
	}
	return nc, c
}

// k5c15n2AllowCut: a message may stay unterminated when the connection (not a
// close frame) ended the stream.
var k5c15n2AllowCut bool

func TestKeep5C15N2(t *testing.T) {
	// Property scenario without Close(): unchanged.
	for _, isServer := range []bool{true, false} {
		for _, bufSize := range []int{16, 1024} {
			for seed := int64(1); seed <= 4; seed++ {
				k5c15n2Run(t, isServer, bufSize, seed, seed%2 == 0)
			}
		}
	}

	k5c15n2AllowCut = true
	// Close() racing with the data writer, the control senders and a Close frame.
	for seed := int64(1); seed <= 40; seed++ {
		rng := rand.New(rand.NewSource(seed))
		isServer := seed%2 == 0
		nc := &k5c15n2Conn{}
		c := newConn(nc, isServer, 1024, 64)
		var wg sync.WaitGroup
		var okMsgs [][]byte
		msgs := make([][]byte, 20)
		for i := range msgs {
			msgs[i] = make([]byte, rng.Intn(400))
			rng.Read(msgs[i])
		}
		closeFrameAt, closeConnAt := rng.Intn(25), rng.Intn(25)
		step := make(chan int, 64)
		wg.Add(1)
		go func() {
			defer wg.Done()
			defer close(step)
			failed := false
			for i, m := range msgs {
				err := c.WriteMessage(BinaryMessage, m)
				switch {
				case err == nil && failed:
					t.Errorf("seed %d: write %d succeeded after a failure", seed, i)
				case err == nil:
					okMsgs = append(okMsgs, m)
				case err == ErrCloseSent || errors.Is(err, net.ErrClosed) || err.Error() == "k5c15n2: transport closed":
					failed = true
				default:
					t.Errorf("seed %d: write %d: %v", seed, i, err)
				}
				step <- i
			}
		}()
		var closeFrameErr error
		closeFrameDone := make(chan struct{})
		wg.Add(1)
		go func() {
			defer wg.Done()
			defer close(closeFrameDone)
			for i := range step {
				if i == closeFrameAt {
					break
				}
			}
			closeFrameErr = c.WriteControl(CloseMessage, nil, time.Now().Add(5*time.Second))
			for range step {
			}
		}()
		for k := 0; k < 3; k++ {
			wg.Add(1)
			go func(k int) {
				defer wg.Done()
				for j := 0; j < 30; j++ {
					if j == closeConnAt {
						c.Close()
					}
					c.WriteControl(PingMessage, []byte(fmt.Sprintf("ctl-%d-%d", k, j)), time.Now().Add(5*time.Second))
					runtime.Gosched()
				}
			}(k)
		}
		wg.Wait()
		c.Close()
		wire := nc.snapshot()
		fs, err := k5c15n2Parse(wire, !isServer)
		if err != nil {
			t.Fatalf("seed %d: %v", seed, err)
		}
		closeSeen, err := k5c15n2Check(fs, okMsgs)
		if err != nil {
			t.Fatalf("seed %d: %v", seed, err)
		}
		if closeSeen != (closeFrameErr == nil) {
			t.Fatalf("seed %d: close frame on wire=%v but WriteControl returned %v", seed, closeSeen, closeFrameErr)
		}
		if closeSeen {
			// close-sent wins over Close(), also after the connection was closed.
			if err := c.WriteMessage(TextMessage, []byte("x")); err != ErrCloseSent {
				t.Errorf("seed %d: late WriteMessage: %v", seed, err)
			}
			if err := c.WriteControl(PingMessage, nil, time.Now().Add(time.Second)); err != ErrCloseSent {
				t.Errorf("seed %d: late ping: %v", seed, err)
			}
		} else if err := c.WriteMessage(TextMessage, []byte("x")); !errors.Is(err, net.ErrClosed) && (err == nil || err.Error() != "k5c15n2: transport closed") {
			t.Errorf("seed %d: write after Close(): %v", seed, err)
		}
		if !bytes.Equal(wire, nc.snapshot()) {
			t.Errorf("seed %d: bytes reached the wire after close", seed)
		}
		// Changed behaviour outside the statement: the transport is closed once.
		if nc.closes != 1 {
			t.Errorf("seed %d: transport Close called %d times", seed, nc.closes)
		}
		if err := c.Close(); err != nil {
			t.Errorf("seed %d: repeated Close: %v", seed, err)
		}
	}
}
