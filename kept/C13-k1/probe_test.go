package websocket

import (
	"bytes"
	"encoding/binary"
	"io"
	"io/ioutil"
	"net"
	"testing"
	"time"
)

type keep5C13n1Conn struct {
	r io.Reader
	w io.Writer
}

func (c keep5C13n1Conn) Read(p []byte) (int, error)         { return c.r.Read(p) }
func (c keep5C13n1Conn) Write(p []byte) (int, error)        { return c.w.Write(p) }
func (c keep5C13n1Conn) Close() error                       { return nil }
func (c keep5C13n1Conn) LocalAddr() net.Addr                { return nil }
func (c keep5C13n1Conn) RemoteAddr() net.Addr               { return nil }
func (c keep5C13n1Conn) SetDeadline(t time.Time) error      { return nil }
func (c keep5C13n1Conn) SetReadDeadline(t time.Time) error  { return nil }
func (c keep5C13n1Conn) SetWriteDeadline(t time.Time) error { return nil }

// keep5C13n1Frames parses unmasked server frames and returns payload lengths per frame.
func keep5C13n1Frames(t *testing.T, b []byte) (lens []int, fins []bool, ops []byte) {
	for len(b) > 0 {
		if len(b) < 2 {
			t.Fatalf("short header")
		}
		if b[1]&0x80 != 0 {
			t.Fatalf("server frame is masked")
		}
		n := int(b[1] & 0x7f)
		h := 2
		switch n {
		case 126:
			n = int(binary.BigEndian.Uint16(b[2:]))
			h = 4
			if n < 126 {
				t.Fatalf("non minimal length")
			}
		case 127:
			n = int(binary.BigEndian.Uint64(b[2:]))
			h = 10
			if n < 65536 {
				t.Fatalf("non minimal length")
			}
		}
		lens = append(lens, n)
		fins = append(fins, b[0]&0x80 != 0)
		ops = append(ops, b[0]&0x0f)
		b = b[h+n:]
	}
	return
}

func TestKeep5C13N1(t *testing.T) {
	const bufSize = 64
	sizes := []int{0, 1, 63, 64, 65, 125, 126, 128, 129, 1000, 65535, 65536, 70000}
	for _, n := range sizes {
		data := make([]byte, n)
		for i := range data {
			data[i] = byte(i * 7)
		}
		for mode := 0; mode < 3; mode++ {
			var wire bytes.Buffer
			wc := newConn(keep5C13n1Conn{w: &wire}, true, bufSize, bufSize)
			var err error
			switch mode {
			case 0:
				err = wc.WriteMessage(BinaryMessage, data)
			case 1:
				var w io.WriteCloser
				w, err = wc.NextWriter(BinaryMessage)
				if err == nil {
					_, err = w.Write(data)
				}
				if err == nil {
					err = w.Close()
				}
			case 2:
				var pm *PreparedMessage
				pm, err = NewPreparedMessage(BinaryMessage, data)
				if err == nil {
					err = wc.WritePreparedMessage(pm)
				}
			}
			if err != nil {
				t.Fatalf("n=%d mode=%d: %v", n, mode, err)
			}
			lens, fins, ops := keep5C13n1Frames(t, wire.Bytes())
			for i := range lens {
				if (ops[i] == 0) != (i > 0) || fins[i] != (i == len(lens)-1) {
					t.Fatalf("n=%d mode=%d: bad sequencing %v %v %v", n, mode, lens, fins, ops)
				}
				if mode < 2 && lens[i] > bufSize {
					t.Fatalf("n=%d mode=%d: frame %d has %d bytes > buffer", n, mode, i, lens[i])
				}
			}
			rc := newConn(keep5C13n1Conn{r: &wire}, false, 128, 128)
			mt, got, err := rc.ReadMessage()
			if err != nil || mt != BinaryMessage || !bytes.Equal(got, data) {
				t.Fatalf("n=%d mode=%d: mt=%d err=%v equal=%v", n, mode, mt, err, bytes.Equal(got, data))
			}
		}
	}
	// Prepared message keeps a snapshot of data.
	d := []byte("hello prepared")
	pm, _ := NewPreparedMessage(TextMessage, d)
	copy(d, "XXXXXXXXXXXXXX")
	var wire bytes.Buffer
	wc := newConn(keep5C13n1Conn{w: &wire}, false, 0, 0)
	if err := wc.WritePreparedMessage(pm); err != nil {
		t.Fatal(err)
	}
	rc := newConn(keep5C13n1Conn{r: &wire}, true, 0, 0)
	_, r, err := rc.NextReader()
	if err != nil {
		t.Fatal(err)
	}
	got, _ := ioutil.ReadAll(r)
	if string(got) != "hello prepared" {
		t.Fatalf("got %q", got)
	}
}
