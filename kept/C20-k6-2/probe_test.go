package kxps

// Probe for keep6 C20 change 2. Belongs to package directory kxps/ (internal test).

import (
	"math"
	"math/rand"
	"runtime"
	"sync/atomic"
	"testing"
	"time"
)

type keep6C20N2Src struct{ n uint64 }

func (s *keep6C20N2Src) TotalBytes() uint64 { return s.n }

func keep6C20N2Refused(f func() float64) (refused bool) {
	defer func() {
		if r := recover(); r != nil {
			refused = true
		}
	}()
	f()
	return
}

func TestKeep6C20N2(t *testing.T) {
	// Reading before the meter is started is refused, also for a closed never-started meter.
	src := &keep6C20N2Src{}
	k := NewKbps(nil, src)
	for _, f := range []func() float64{k.Kbps10s, k.Kbps30s, k.Kbps300s, k.Average} {
		if !keep6C20N2Refused(f) {
			t.Fatal("read before start not refused")
		}
	}
	// Windows against a small reference model, random histories.
	rnd := rand.New(rand.NewSource(20))
	for iter := 0; iter < 300; iter++ {
		src := &keep6C20N2Src{}
		kb := NewKbps(nil, src).(*kbps)
		kb.imp.started = true
		now := time.Unix(1000, 0)
		type win struct {
			d     time.Duration
			last  time.Time
			count uint64
			rate  float64
		}
		ws := []*win{{d: 10 * time.Second}, {d: 30 * time.Second}, {d: 300 * time.Second}}
		inited := false
		for step := 0; step < 60; step++ {
			now = now.Add(time.Duration(rnd.Intn(40000)) * time.Millisecond)
			switch rnd.Intn(6) {
			case 0: // stall
			case 1:
				src.n = uint64(rnd.Intn(1000)) // reset
			default:
				src.n += uint64(rnd.Intn(1 << 20))
			}
			if err := kb.imp.doSample(now); err != nil {
				t.Fatal(err)
			}
			if src.n != 0 {
				if !inited {
					inited = true
					for _, w := range ws {
						w.last, w.count = now, src.n
					}
				} else {
					for _, w := range ws {
						if w.last.Add(w.d).After(now) {
							break
						}
						diff := int64(src.n - w.count)
						w.last, w.count, w.rate = now, src.n, 0
						if diff > 0 {
							w.rate = float64(diff) / w.d.Seconds()
						}
					}
				}
			}
			got := []float64{kb.Kbps10s(), kb.Kbps30s(), kb.Kbps300s()}
			for i, w := range ws {
				want := w.rate * 8 / 1000
				if math.IsNaN(got[i]) || math.IsInf(got[i], 0) || got[i] < 0 || math.Abs(got[i]-want) > 1e-9*(1+want) {
					t.Fatalf("window %v: got %v want %v", w.d, got[i], want)
				}
			}
		}
	}

	// Average over the time since the first non-zero observation.
	s2 := &keep6C20N2Src{}
	k2 := NewKbps(nil, s2).(*kbps)
	k2.imp.started = true
	if v := k2.imp.sampleAverage(time.Unix(5, 0)); v != 0 {
		t.Fatal(v)
	}
	s2.n = 1000
	k2.imp.sampleAverage(time.Unix(10, 0))
	s2.n = 6000
	if v := k2.imp.sampleAverage(time.Unix(20, 0)); v != 500 {
		t.Fatal(v)
	}
	s2.n = 10
	if v := k2.imp.sampleAverage(time.Unix(30, 0)); v != 0 {
		t.Fatal(v)
	}

	// Changed behaviour outside the statement: the first sample is taken inside Start(),
	// all meters share one sampler goroutine, which polls the source every second.
	base := runtime.NumGoroutine()
	var ms []Kbps
	var ss []*keep6C20N2Cnt
	for i := 0; i < 5; i++ {
		s := &keep6C20N2Cnt{n: 7}
		m := NewKbps(nil, s)
		if err := m.Start(); err != nil {
			t.Fatal(err)
		}
		if c := atomic.LoadInt32(&s.calls); c != 1 {
			t.Fatalf("source polled %v times inside Start, want 1", c)
		}
		ms, ss = append(ms, m), append(ss, s)
	}
	if n := runtime.NumGoroutine(); n != base+1 {
		t.Fatalf("goroutines %v want %v", n, base+1)
	}
	time.Sleep(2500 * time.Millisecond)
	for _, s := range ss {
		if c := atomic.LoadInt32(&s.calls); c < 2 {
			t.Fatalf("source polled %v times after 2.5s, want >=2", c)
		}
	}
	for _, m := range ms {
		if m.Kbps10s() != 0 || m.Kbps30s() != 0 || m.Kbps300s() != 0 {
			t.Fatal("no window can be complete yet")
		}
		m.Close()
		if !keep6C20N2Refused(m.Kbps10s) {
			t.Fatal("closed meter should still refuse, as before")
		}
	}
	time.Sleep(2500 * time.Millisecond)
	if n := runtime.NumGoroutine(); n != base {
		t.Fatalf("goroutines after close %v want %v", n, base)
	}
}

type keep6C20N2Cnt struct {
	n     uint64
	calls int32
}

func (s *keep6C20N2Cnt) TotalBytes() uint64 {
	atomic.AddInt32(&s.calls, 1)
	return s.n
}
