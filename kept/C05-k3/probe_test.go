package amf0

import (
	"bytes"
	"math"
	"testing"
)

// Belongs to package directory amf0/ (change 3).
func TestKeep5C05N3(t *testing.T) {
	sa := NewStrictArray()
	sa.Set("0", NewNumber(math.Inf(-1)))
	sa.Set("1", NewObject())
	ea := NewEcmaArray()
	ea.Set("b", NewUndefined())
	ea.Set("", NewString("empty key"))
	ea.Set("a", sa)
	root := NewObject()
	root.Set("zz", ea)
	root.Set("n", NewNumber(math.Float64frombits(0xfff0000000000001)))
	root.Set("f", NewBoolean(false))

	b, err := root.MarshalBinary()
	if err != nil || len(b) != root.Size() {
		t.Fatalf("err %v size %v len %v", err, root.Size(), len(b))
	}
	a, err := Discovery(b)
	if err != nil {
		t.Fatal(err)
	}
	if err = a.UnmarshalBinary(append(append([]byte{}, b...), 0, 0, 9)); err != nil {
		t.Fatal(err)
	}
	if a.Size() != len(b) {
		t.Fatalf("size %v != consumed %v", a.Size(), len(b))
	}
	if b2, err := a.MarshalBinary(); err != nil || !bytes.Equal(b, b2) {
		t.Fatalf("re-marshal differs %v", err)
	}
	d := a.(*Object)
	if string(d.properties[0].key) != "zz" || string(d.properties[1].key) != "n" || string(d.properties[2].key) != "f" {
		t.Fatalf("root key order lost")
	}
	dea := d.Get("zz").(*EcmaArray)
	if string(dea.properties[0].key) != "b" || string(dea.properties[1].key) != "" || string(dea.properties[2].key) != "a" {
		t.Fatalf("ecma key order lost")
	}
	if n := d.Get("n").(*Number); math.Float64bits(float64(*n)) != 0xfff0000000000001 {
		t.Fatalf("NaN payload lost")
	}

	// Grammar cases: repeated keys, empty keys, trailing bytes: Size() == consumed.
	raws := []struct {
		b []byte
		n int
	}{
		{[]byte{3, 0, 1, 'k', 5, 0, 1, 'k', 6, 0, 0, 5, 0, 0, 9, 7, 7}, 15},
		{[]byte{8, 0, 0, 0, 7, 0, 0, 1, 2, 0, 0, 9, 9}, 12},
		{[]byte{10, 0, 0, 0, 2, 0, 0, 5, 0, 1, 'x', 10, 0, 0, 0, 0, 3}, 16},
		{[]byte{10, 0, 0, 0, 0, 1}, 5},
		{[]byte{3, 0, 0, 9}, 4},
	}
	for _, r := range raws {
		for pass := 0; pass < 2; pass++ {
			v, err := Discovery(r.b)
			if err != nil {
				t.Fatal(err)
			}
			if pass == 1 {
				// Outside behaviour: a used value is replaced, not appended to.
				if err = v.UnmarshalBinary(r.b); err != nil {
					t.Fatal(err)
				}
			}
			if err = v.UnmarshalBinary(r.b); err != nil {
				t.Fatalf("%v: %v", r.b, err)
			}
			if v.Size() != r.n {
				t.Fatalf("%v: size %v != consumed %v", r.b, v.Size(), r.n)
			}
		}
	}

	// Outside behaviour: for duplicated names of decoded objects, the last wins.
	o := NewObject()
	if err = o.UnmarshalBinary(raws[0].b); err != nil {
		t.Fatal(err)
	}
	if o.Get("k").amf0Marker() != markerUndefined {
		t.Fatalf("last should win")
	}
}
