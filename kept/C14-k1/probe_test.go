package websocket

import (
	"bytes"
	"io"
	"net"
	"testing"
	"time"
)

type k5c14n1Conn struct {
	r io.Reader
	w bytes.Buffer
}

func (c *k5c14n1Conn) Read(p []byte) (int, error)         { return c.r.Read(p) }
func (c *k5c14n1Conn) Write(p []byte) (int, error)        { return c.w.Write(p) }
func (c *k5c14n1Conn) Close() error                       { return nil }
func (c *k5c14n1Conn) LocalAddr() net.Addr                { return nil }
func (c *k5c14n1Conn) RemoteAddr() net.Addr               { return nil }
func (c *k5c14n1Conn) SetDeadline(t time.Time) error      { return nil }
func (c *k5c14n1Conn) SetReadDeadline(t time.Time) error  { return nil }
func (c *k5c14n1Conn) SetWriteDeadline(t time.Time) error { return nil }

// closeCode returns the status of the first frame written, if it is a Close.
func k5c14n1CloseCode(b []byte, masked bool) int {
	if len(b) < 2 || b[0] != 0x88 {
		return -1
	}
	off := 2
	n := int(b[1] & 0x7f)
	if masked {
		key := b[2:6]
		off = 6
		p := append([]byte(nil), b[off:off+n]...)
		for i := range p {
			p[i] ^= key[i%4]
		}
		if n < 2 {
			return -1
		}
		return int(p[0])<<8 | int(p[1])
	}
	if n < 2 {
		return -1
	}
	return int(b[off])<<8 | int(b[off+1])
}

func TestKeep5C14N1(t *testing.T) {
	// Server role: an unmasked frame is a violation -> 1002, permanent.
	cases := [][]byte{
		{0x81, 0x01, 'x'},                      // short form
		{0x81, 126, 0, 1, 'x'},                 // 16-bit form
		{0x81, 127},                            // cut inside the 64-bit length (new: 1002 already)
		{0x81, 127, 0x80, 0, 0, 0, 0, 0, 0, 0}, // top bit set + wrong mask
		{0x89, 0x7e, 0, 200},                   // ping, too long, wrong mask
	}
	for i, in := range cases {
		fc := &k5c14n1Conn{r: bytes.NewReader(in)}
		c := newConn(fc, true, 0, 0)
		_, _, err := c.ReadMessage()
		if err == nil {
			t.Fatalf("case %d: expected error", i)
		}
		if code := k5c14n1CloseCode(fc.w.Bytes(), false); code != CloseProtocolError {
			t.Fatalf("case %d: close code %d", i, code)
		}
		_, _, err2 := c.ReadMessage()
		if err2 == nil {
			t.Fatalf("case %d: error not permanent", i)
		}
	}

	// Client role: a masked frame is a violation.
	fc := &k5c14n1Conn{r: bytes.NewReader([]byte{0x81, 0x81, 1, 2, 3, 4, 'x'})}
	c := newConn(fc, false, 0, 0)
	if _, _, err := c.ReadMessage(); err == nil {
		t.Fatal("client: expected error")
	}
	if code := k5c14n1CloseCode(fc.w.Bytes(), true); code != CloseProtocolError {
		t.Fatalf("client: close code %d", code)
	}

	// Client role, valid stream: top-bit length is rejected with 1002.
	fc = &k5c14n1Conn{r: bytes.NewReader([]byte{0x82, 127, 0x80, 0, 0, 0, 0, 0, 0, 0})}
	c = newConn(fc, false, 0, 0)
	if _, _, err := c.ReadMessage(); err == nil {
		t.Fatal("expected error")
	}
	if code := k5c14n1CloseCode(fc.w.Bytes(), true); code != CloseProtocolError {
		t.Fatalf("close code %d", code)
	}

	// Skipping an unread message: messages after it are still delivered, and a
	// cut inside the skipped frame is an error.
	stream := []byte{0x82, 5, 1, 2, 3, 4, 5, 0x81, 2, 'o', 'k'}
	fc = &k5c14n1Conn{r: bytes.NewReader(stream)}
	c = newConn(fc, false, 0, 0)
	if _, _, err := c.NextReader(); err != nil {
		t.Fatal(err)
	}
	mt, p, err := c.ReadMessage()
	if err != nil || mt != TextMessage || string(p) != "ok" {
		t.Fatalf("got %v %q %v", mt, p, err)
	}
	fc = &k5c14n1Conn{r: bytes.NewReader(stream[:4])}
	c = newConn(fc, false, 0, 0)
	if _, _, err := c.NextReader(); err != nil {
		t.Fatal(err)
	}
	if _, _, err := c.NextReader(); err == nil {
		t.Fatal("cut inside skipped frame must be an error")
	}
}
