package http

import (
	"errors"
	"fmt"
	"net/http"
	"net/http/httptest"
	"testing"
)

type keep5C19N2StatusError struct {
	status int
}

func (v keep5C19N2StatusError) Error() string { return fmt.Sprintf("status error %v \"quoted\"", v.status) }
func (v keep5C19N2StatusError) Status() int   { return v.status }

type keep5C19N2AppError int

func (v keep5C19N2AppError) Error() string { return "app error" }
func (v keep5C19N2AppError) Code() int     { return int(v) }

// Belongs to package directory http/ of go-oryx-lib.
func TestKeep5C19N2(t *testing.T) {
	mux := http.NewServeMux()
	mux.Handle("/ok", Data(nil, map[string]interface{}{"k": []interface{}{nil, "v\"\n"}}))
	mux.Handle("/okcb", Data(nil, nil))
	mux.Handle("/plain", Error(nil, errors.New("plain \"error\"\n")))
	mux.Handle("/s404", Error(nil, keep5C19N2StatusError{404}))
	mux.Handle("/s200", Error(nil, keep5C19N2StatusError{200}))
	mux.Handle("/s503", Error(nil, keep5C19N2StatusError{503}))
	mux.Handle("/sys", Error(nil, SystemError(-3)))
	mux.Handle("/cplx", CplxError(nil, SystemError(9), "msg"))
	mux.Handle("/app", Error(nil, keep5C19N2AppError(-100)))
	mux.Handle("/bad", Data(nil, make(chan int)))
	s := httptest.NewServer(mux)
	defer s.Close()

	status := func(path string) (int, string) {
		resp, err := http.Get(s.URL + path)
		if err != nil {
			t.Fatal(err)
		}
		defer resp.Body.Close()
		if resp.Header.Get("Server") != Server {
			t.Fatalf("%v no server header", path)
		}
		return resp.StatusCode, resp.Header.Get("Content-Type")
	}

	if code, _, err := ApiRequest(s.URL + "/ok"); code != 0 || err != nil {
		t.Fatalf("ok code=%v err=%v", code, err)
	}
	if st, ct := status("/ok"); st != 200 || ct != HttpJson {
		t.Fatalf("ok %v %v", st, ct)
	}
	if st, ct := status("/okcb?callback=cb"); st != 200 || ct != HttpJavaScript {
		t.Fatalf("okcb %v %v", st, ct)
	}

	// Plain errors: the HTTP status, default 500; the client always reports an error.
	for path, want := range map[string]int{"/plain": 500, "/s404": 404, "/s200": 200, "/s503": 503, "/bad": 500} {
		if st, _ := status(path); st != want {
			t.Fatalf("%v status %v want %v", path, st, want)
		}
		if _, _, err := ApiRequest(s.URL + path); err == nil {
			t.Fatalf("%v should fail", path)
		}
		if _, _, err := ApiRequest(s.URL + path + "?callback=cb"); err == nil {
			t.Fatalf("%v with callback should fail", path)
		}
	}

	// Coded errors: the own code.
	for path, want := range map[string]int{"/sys": -3, "/cplx": 9, "/app": -100} {
		if code, _, err := ApiRequest(s.URL + path); code != want || err == nil {
			t.Fatalf("%v code=%v err=%v", path, code, err)
		}
	}

	// Outside behaviour: the plain error body is json now.
	w := httptest.NewRecorder()
	Error(nil, errors.New("oops")).ServeHTTP(w, httptest.NewRequest("GET", "/api", nil))
	if w.Code != 500 || w.Body.String() != `{"code":500,"data":"oops"}` || w.Header().Get("Content-Type") != HttpJson {
		t.Fatalf("unexpected %v %q %v", w.Code, w.Body.String(), w.Header())
	}
}
