package websocket

import (
	"bytes"
	"math/rand"
	"sync"
	"testing"
	"time"
)

// Belongs to directory websocket/ (package websocket, uses fakeNetConn of conn_test.go).
type keep6C07SafeBuf struct {
	mu sync.Mutex
	b  bytes.Buffer
}

func (v *keep6C07SafeBuf) Write(p []byte) (int, error) {
	v.mu.Lock()
	defer v.mu.Unlock()
	return v.b.Write(p)
}

func (v *keep6C07SafeBuf) Bytes() []byte {
	v.mu.Lock()
	defer v.mu.Unlock()
	return append([]byte(nil), v.b.Bytes()...)
}

func keep6C07Drain(t *testing.T, in []byte, isServer bool) *keep6C07SafeBuf {
	out := &keep6C07SafeBuf{}
	c := newConn(fakeNetConn{Reader: bytes.NewReader(in), Writer: out}, isServer, 1024, 1024)
	done := make(chan struct{})
	go func() {
		defer close(done)
		defer func() {
			if r := recover(); r != nil {
				t.Errorf("panic %v for %x", r, in)
			}
		}()
		for i := 0; i < 100000; i++ {
			if _, _, err := c.ReadMessage(); err != nil {
				return
			}
		}
		t.Errorf("no end for %x", in)
	}()
	select {
	case <-done:
	case <-time.After(10 * time.Second):
		t.Fatalf("stalled for %x", in)
	}
	return out
}

func TestKeep6C07N2(t *testing.T) {
	// A client-side reader gets unmasked frames: ping "hi", text "a", ping "", then EOF.
	in := []byte{0x89, 0x02, 'h', 'i', 0x81, 0x01, 'a', 0x89, 0x00}
	out := keep6C07Drain(t, in, false)
	// The pong(s) arrive eventually, at least the reply to the most recent ping.
	deadline := time.Now().Add(5 * time.Second)
	for len(out.Bytes()) == 0 && time.Now().Before(deadline) {
		time.Sleep(time.Millisecond)
	}
	if b := out.Bytes(); len(b) < 6 || b[0] != 0x8a {
		t.Fatalf("no pong, got %x", b)
	}

	// Many pings: one goroutine at most, read returns promptly.
	flood := bytes.Repeat([]byte{0x89, 0x00}, 32*1024)
	start := time.Now()
	keep6C07Drain(t, flood, false)
	if d := time.Since(start); d > 5*time.Second {
		t.Fatalf("slow %v", d)
	}

	// Random and mutated streams, both roles.
	rnd := rand.New(rand.NewSource(72))
	for i := 0; i < 3000; i++ {
		b := make([]byte, rnd.Intn(48))
		rnd.Read(b)
		if i%2 == 0 && len(b) > 2 {
			b[0] = 0x80 | byte(rnd.Intn(16)) // final frames with all opcodes
			b[1] = byte(rnd.Intn(256))
		}
		keep6C07Drain(t, b, i%3 == 0)
	}
	for i := 0; i < 500; i++ {
		m := append([]byte(nil), in...)
		m[rnd.Intn(len(m))] = byte(rnd.Intn(256))
		keep6C07Drain(t, m, false)
	}
}
