package kxps

import (
	"testing"
	"time"
)

type keep5C20N1Src struct{ n uint64 }

func (v *keep5C20N1Src) TotalBytes() uint64 { return v.n }
func (v *keep5C20N1Src) NbRequests() uint64 { return v.n }

func keep5C20N1Refused(f func()) (r interface{}) {
	defer func() { r = recover() }()
	f()
	return nil
}

func TestKeep5C20N1(t *testing.T) {
	s := &keep5C20N1Src{}
	kb := NewKbps(nil, s).(*kbps)
	kr := NewKrps(nil, s).(*krps)

	// Reading before Start is still refused (panic), for every getter.
	for i, f := range []func(){
		func() { kb.Kbps10s() }, func() { kb.Kbps30s() }, func() { kb.Kbps300s() }, func() { kb.Average() },
		func() { kr.Rps10s() }, func() { kr.Rps30s() }, func() { kr.Rps300s() }, func() { kr.Average() },
	} {
		r := keep5C20N1Refused(f)
		if r == nil {
			t.Fatalf("getter %v not refused before Start", i)
		}
		if _, ok := r.(error); !ok {
			t.Errorf("getter %v: refusal value is %T, want error (outside behaviour)", i, r)
		}
	}

	// Outside behaviour: Start twice and Start after Close now return errors.
	if err := kb.Start(); err != nil {
		t.Fatalf("first start failed %v", err)
	}
	if err := kb.Start(); err == nil {
		t.Errorf("second start should fail")
	}
	kr.Close()
	if err := kr.Start(); err == nil {
		t.Errorf("start after close should fail")
	}
	kb.Close()

	// The rates are unchanged: drive the sampler by hand.
	s2 := &keep5C20N1Src{}
	m := NewKbps(nil, s2).(*kbps)
	m.imp.started = true
	at := func(sec int64) time.Time { return time.Unix(1000+sec, 0) }
	s2.n = 1000
	m.imp.doSample(at(0))
	m.imp.sampleAverage(at(0))
	s2.n = 11000
	m.imp.doSample(at(10))
	if got, want := m.Kbps10s(), float64(10000)*1000/10000*8/1000; got != want {
		t.Errorf("10s=%v want %v", got, want)
	}
	s2.n = 500 // reset of the counter
	m.imp.doSample(at(30))
	if m.Kbps10s() != 0 || m.Kbps30s() != 0 {
		t.Errorf("backwards counter must yield 0, got %v %v", m.Kbps10s(), m.Kbps30s())
	}
	s2.n = 31000
	m.imp.doSample(at(60))
	if got, want := m.Kbps30s(), float64(30500)*1000/30000*8/1000; got != want {
		t.Errorf("30s=%v want %v", got, want)
	}
	if got, want := m.imp.sampleAverage(at(60))*8/1000, float64(30000)*1000/60000*8/1000; got != want {
		t.Errorf("avg=%v want %v", got, want)
	}
}
