package websocket

import (
	"bytes"
	"encoding/binary"
	"io"
	"net"
	"testing"
	"time"
)

type keep5C13n3Conn struct {
	r io.Reader
	w io.Writer
}

func (c keep5C13n3Conn) Read(p []byte) (int, error)         { return c.r.Read(p) }
func (c keep5C13n3Conn) Write(p []byte) (int, error)        { return c.w.Write(p) }
func (c keep5C13n3Conn) Close() error                       { return nil }
func (c keep5C13n3Conn) LocalAddr() net.Addr                { return nil }
func (c keep5C13n3Conn) RemoteAddr() net.Addr               { return nil }
func (c keep5C13n3Conn) SetDeadline(t time.Time) error      { return nil }
func (c keep5C13n3Conn) SetReadDeadline(t time.Time) error  { return nil }
func (c keep5C13n3Conn) SetWriteDeadline(t time.Time) error { return nil }

// keep5C13n3Parse checks client framing and returns the unmasked payload and the keys used.
func keep5C13n3Parse(t *testing.T, b []byte) (payload []byte, keys [][4]byte) {
	first := true
	for len(b) > 0 {
		if b[1]&0x80 == 0 {
			t.Fatalf("client frame not masked")
		}
		if first != (b[0]&0x0f != 0) {
			t.Fatalf("bad opcode sequencing")
		}
		if !first && b[0]&0x70 != 0 {
			t.Fatalf("rsv on continuation")
		}
		n, h := int(b[1]&0x7f), 2
		switch n {
		case 126:
			n, h = int(binary.BigEndian.Uint16(b[2:])), 4
		case 127:
			n, h = int(binary.BigEndian.Uint64(b[2:])), 10
		}
		var k [4]byte
		copy(k[:], b[h:])
		keys = append(keys, k)
		for i, x := range b[h+4 : h+4+n] {
			payload = append(payload, x^k[i&3])
		}
		fin := b[0]&0x80 != 0
		b = b[h+4+n:]
		if fin != (len(b) == 0) {
			t.Fatalf("bad FIN")
		}
		first = false
	}
	return
}

func TestKeep5C13N3(t *testing.T) {
	for _, compress := range []bool{false, true} {
		for _, n := range []int{0, 1, 125, 126, 4095, 4096, 4097, 8192, 65535, 65536, 70000} {
			data := make([]byte, n)
			for i := range data {
				data[i] = byte(i*31 + i/256)
			}
			pm, err := NewPreparedMessage(BinaryMessage, data)
			if err != nil {
				t.Fatal(err)
			}
			var wire bytes.Buffer
			wc := newConn(keep5C13n3Conn{w: &wire}, false, 100, 100)
			rc := newConn(keep5C13n3Conn{r: &wire}, true, 100, 100)
			if compress {
				wc.newCompressionWriter = compressNoContextTakeover
				rc.newDecompressionReader = decompressNoContextTakeover
			}
			var sends [][]byte
			var prevKeys [][4]byte
			for i := 0; i < 3; i++ {
				if err := wc.WritePreparedMessage(pm); err != nil {
					t.Fatal(err)
				}
				raw := append([]byte(nil), wire.Bytes()...)
				sends = append(sends, raw)
				pl, keys := keep5C13n3Parse(t, raw)
				if !compress && !bytes.Equal(pl, data) {
					t.Fatalf("n=%d send=%d: unmasked payload differs", n, i)
				}
				if i > 0 && keys[0] == prevKeys[0] {
					t.Errorf("n=%d send=%d: masking key reused %x", n, i, keys[0])
				}
				prevKeys = keys
				mt, got, err := rc.ReadMessage()
				if err != nil || mt != BinaryMessage || !bytes.Equal(got, data) {
					t.Fatalf("z=%v n=%d send=%d: mt=%d err=%v", compress, n, i, mt, err)
				}
			}
			if len(sends[0]) != len(sends[1]) || len(sends[1]) != len(sends[2]) {
				t.Fatalf("n=%d: frame layout changed between sends", n)
			}
		}
	}
	// Server connections still share the cached bytes unchanged.
	pm, _ := NewPreparedMessage(TextMessage, []byte("broadcast"))
	var w1, w2 bytes.Buffer
	newConn(keep5C13n3Conn{w: &w1}, true, 0, 0).WritePreparedMessage(pm)
	newConn(keep5C13n3Conn{w: &w2}, true, 0, 0).WritePreparedMessage(pm)
	if !bytes.Equal(w1.Bytes(), w2.Bytes()) || w1.String() != "\x81\x09broadcast" {
		t.Fatalf("server prepared frame changed: %x", w1.Bytes())
	}
}
