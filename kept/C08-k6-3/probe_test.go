package rtmp

import (
	"bytes"
	"errors"
	"io"
	"testing"

	oe "github.com/ossrs/go-oryx-lib/errors"
)

type keep6C08N3RW struct {
	r       io.Reader
	w       bytes.Buffer
	wcalls  int
	wfailAt int
	werr    error
}

func (v *keep6C08N3RW) Read(p []byte) (int, error) { return v.r.Read(p) }
func (v *keep6C08N3RW) Write(p []byte) (int, error) {
	if v.wcalls == v.wfailAt {
		return 0, v.werr
	}
	v.wcalls++
	return v.w.Write(p)
}

// Belongs to package directory rtmp/ (package rtmp).
func TestKeep6C08N3(t *testing.T) {
	payloads := [][]byte{{1, 2, 3}, nil, bytes.Repeat([]byte{5}, 300), {}, {9}}
	types := []MessageType{MessageTypeAudio, MessageTypeAudio, MessageTypeVideo, MessageTypeAMF0Data, MessageTypeVideo}

	wr := &keep6C08N3RW{r: &bytes.Buffer{}, wfailAt: -1}
	p := NewProtocol(wr)
	var ends []int
	for i := range payloads {
		m := NewStreamMessage(1)
		m.MessageType, m.Timestamp, m.Payload = types[i], uint64(i*20), payloads[i]
		if err := p.WriteMessage(m); err != nil {
			t.Fatal(err)
		}
		ends = append(ends, wr.w.Len())
	}
	all := wr.w.Bytes()
	if ends[1]-ends[0] != 12 {
		t.Fatalf("empty message is %v bytes on wire", ends[1]-ends[0])
	}

	for cut := 0; cut <= len(all); cut++ {
		complete := 0
		for _, e := range ends {
			if e <= cut {
				complete++
			}
		}
		rp := NewProtocol(&keep6C08N3RW{r: bytes.NewReader(all[:cut]), wfailAt: -1})
		n := 0
		for {
			m, err := rp.ReadMessage()
			if err != nil {
				if m != nil {
					t.Fatalf("message with error")
				}
				if c := oe.Cause(err); c != io.EOF && c != io.ErrUnexpectedEOF {
					t.Fatalf("cut=%v cause %v", cut, c)
				}
				break
			}
			if n >= len(payloads) || !bytes.Equal(m.Payload, payloads[n]) || m.MessageType != types[n] || m.Timestamp != uint64(n*20) {
				t.Fatalf("cut=%v message %v is %v", cut, n, m)
			}
			n++
		}
		if n != complete {
			t.Fatalf("cut=%v got %v messages, %v transferred", cut, n, complete)
		}
	}

	// Injected write error at every write call, for the empty message too.
	injected := errors.New("injected")
	for k := 0; k < len(payloads)+1; k++ {
		w := &keep6C08N3RW{r: &bytes.Buffer{}, wfailAt: k, werr: injected}
		wp := NewProtocol(w)
		var err error
		done := 0
		for i := range payloads {
			m := NewStreamMessage(1)
			m.MessageType, m.Payload = types[i], payloads[i]
			if err = wp.WriteMessage(m); err != nil {
				break
			}
			done++
		}
		if k < len(payloads) {
			if err == nil || oe.Cause(err) != injected || done != k {
				t.Fatalf("k=%v err=%v done=%v", k, err, done)
			}
		} else if err != nil {
			t.Fatalf("k=%v err=%v", k, err)
		}
	}
}
