package amf0

import (
	"bytes"
	"math/rand"
	"strings"
	"testing"
	"time"
)

func keep5C07Nested(depth int) []byte {
	var b bytes.Buffer
	b.WriteByte(3)
	for i := 1; i < depth; i++ {
		b.Write([]byte{0, 1, 'a', 3})
	}
	for i := 0; i < depth; i++ {
		b.Write([]byte{0, 0, 9})
	}
	return b.Bytes()
}

// Belongs to package directory amf0/.
func TestKeep5C07N3(t *testing.T) {
	rnd := rand.New(rand.NewSource(3))
	markers := []byte{0, 1, 2, 3, 5, 6, 7, 8, 9, 10, 11, 12, 0xff}
	for i := 0; i < 50000; i++ {
		b := make([]byte, rnd.Intn(48))
		rnd.Read(b)
		for j := range b {
			if rnd.Intn(3) > 0 {
				b[j] = markers[rnd.Intn(len(markers))]
			}
		}
		if a, err := Discovery(b); err == nil {
			if err = a.UnmarshalBinary(b); err == nil {
				if a.Size() > len(b) {
					t.Fatalf("size %v of %x", a.Size(), b)
				}
				if _, err = a.MarshalBinary(); err != nil {
					t.Fatal(err)
				}
			}
		}
	}
	for i := 0; i < 256; i++ {
		_ = marker(i).String()
	}

	// 64 levels are ok, 65 are refused, and the deepest 64KiB input returns quickly.
	o := NewObject()
	if err := o.UnmarshalBinary(keep5C07Nested(64)); err != nil {
		t.Fatal(err)
	}
	if b, _ := o.MarshalBinary(); !bytes.Equal(b, keep5C07Nested(64)) {
		t.Fatal("roundtrip")
	}
	if err := NewObject().UnmarshalBinary(keep5C07Nested(65)); err == nil || !strings.Contains(err.Error(), "nesting") {
		t.Fatal(err)
	}
	start := time.Now()
	big := keep5C07Nested(16000)[:65536]
	if err := NewObject().UnmarshalBinary(big); err == nil {
		t.Fatal("should fail")
	}
	if d := time.Since(start); d > time.Second {
		t.Fatal(d)
	}

	// Reference is reported as not supported, and decoding replaces the content.
	if _, err := Discovery([]byte{7, 0, 1}); err == nil || !strings.Contains(err.Error(), "not supported") {
		t.Fatal(err)
	}
	o = NewObject()
	o.Set("old", NewNumber(1))
	if err := o.UnmarshalBinary([]byte{3, 0, 1, 'n', 5, 0, 0, 9}); err != nil || o.Get("old") != nil || o.Size() != 8 {
		t.Fatal(err, o.Size())
	}
}
