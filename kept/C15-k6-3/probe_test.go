package websocket

import (
	"bytes"
	"encoding/binary"
	"fmt"
	"net"
	"sync"
	"testing"
	"time"
)

type k6c15n3Conn struct {
	mu  sync.Mutex
	buf bytes.Buffer
}

func (f *k6c15n3Conn) Write(p []byte) (int, error) {
	f.mu.Lock()
	defer f.mu.Unlock()
	time.Sleep(time.Microsecond)
	return f.buf.Write(p)
}
func (f *k6c15n3Conn) Read(p []byte) (int, error)         { select {} }
func (f *k6c15n3Conn) Close() error                       { return nil }
func (f *k6c15n3Conn) LocalAddr() net.Addr                { return nil }
func (f *k6c15n3Conn) RemoteAddr() net.Addr               { return nil }
func (f *k6c15n3Conn) SetDeadline(t time.Time) error      { return nil }
func (f *k6c15n3Conn) SetReadDeadline(t time.Time) error  { return nil }
func (f *k6c15n3Conn) SetWriteDeadline(t time.Time) error { return nil }

func TestKeep6C15N3(t *testing.T) {
	for round := 0; round < 40; round++ {
		fc := &k6c15n3Conn{}
		c := newConn(fc, true, 1024, 64)
		var msgs [][]byte
		for i := 0; i < 30; i++ {
			msgs = append(msgs, bytes.Repeat([]byte{byte('a' + i%26)}, (i*37+round)%400))
		}
		var wg sync.WaitGroup
		sent := 0
		wg.Add(1)
		go func() { // the single data writer
			defer wg.Done()
			for i, m := range msgs {
				var err error
				if i%2 == 0 {
					err = c.WriteMessage(BinaryMessage, m)
				} else {
					w, e := c.NextWriter(BinaryMessage)
					if e == nil {
						for off := 0; off < len(m) && e == nil; off += 50 {
							end := off + 50
							if end > len(m) {
								end = len(m)
							}
							_, e = w.Write(m[off:end])
						}
						if e == nil {
							e = w.Close()
						}
					}
					err = e
				}
				if err != nil {
					if err != ErrCloseSent {
						t.Errorf("data write error %v", err)
					}
					return
				}
				sent = i + 1
			}
		}()
		for k := 0; k < 3; k++ {
			wg.Add(1)
			go func(k int) {
				defer wg.Done()
				for i := 0; i < 20; i++ {
					typ := PingMessage
					if i%2 == 1 {
						typ = PongMessage
					}
					err := c.WriteControl(typ, []byte(fmt.Sprintf("p%d-%d", k, i)), time.Now().Add(10*time.Second))
					if err != nil && err != ErrCloseSent {
						t.Errorf("control write error %v", err)
					}
				}
			}(k)
		}
		wg.Add(1)
		go func() {
			defer wg.Done()
			time.Sleep(time.Duration(round) * 20 * time.Microsecond)
			if err := c.WriteControl(CloseMessage, FormatCloseMessage(CloseNormalClosure, "bye"), time.Time{}); err != nil {
				t.Errorf("close: %v", err)
			}
		}()
		wg.Wait()
		fc.mu.Lock()
		n0 := fc.buf.Len()
		fc.mu.Unlock()
		// every later write fails with ErrCloseSent and nothing reaches the wire
		if err := c.WriteMessage(TextMessage, []byte("late")); err != ErrCloseSent {
			t.Fatalf("late data write: %v", err)
		}
		if err := c.WriteControl(PingMessage, nil, time.Now().Add(time.Second)); err != ErrCloseSent {
			t.Fatalf("late ping: %v", err)
		}
		if _, err := c.NextWriter(BinaryMessage); err != ErrCloseSent {
			t.Fatalf("late NextWriter: %v", err)
		}
		if fc.buf.Len() != n0 {
			t.Fatalf("bytes after close")
		}
		// parse the wire
		b := fc.buf.Bytes()
		var cur []byte
		inMsg, nmsg, closed := false, 0, false
		for len(b) > 0 {
			if closed {
				t.Fatalf("frame after close")
			}
			if len(b) < 2 {
				t.Fatalf("short header")
			}
			fin, op, l := b[0]&0x80 != 0, int(b[0]&0xf), int(b[1]&0x7f)
			if b[0]&0x70 != 0 || b[1]&0x80 != 0 {
				t.Fatalf("bad bits")
			}
			b = b[2:]
			if l == 126 {
				l = int(binary.BigEndian.Uint16(b))
				b = b[2:]
			} else if l == 127 {
				l = int(binary.BigEndian.Uint64(b))
				b = b[8:]
			}
			if len(b) < l {
				t.Fatalf("truncated frame")
			}
			p := b[:l]
			b = b[l:]
			switch op {
			case 0, BinaryMessage:
				if (op == 0) != inMsg {
					t.Fatalf("bad continuation state")
				}
				cur = append(cur, p...)
				inMsg = !fin
				if fin {
					if nmsg >= len(msgs) || !bytes.Equal(cur, msgs[nmsg]) {
						t.Fatalf("message %d corrupted", nmsg)
					}
					nmsg++
					cur = nil
				}
			case PingMessage, PongMessage:
				if !fin || l > 125 || p[0] != 'p' {
					t.Fatalf("bad control")
				}
			case CloseMessage:
				closed = true
			default:
				t.Fatalf("opcode %d", op)
			}
		}
		if !closed || nmsg < sent {
			t.Fatalf("closed=%v nmsg=%d sent=%d", closed, nmsg, sent)
		}
		c.Close()
	}
}

type k6c15n3bConn struct {
	k6c15n3Conn
	closed bool
}

func (f *k6c15n3bConn) Write(p []byte) (int, error) {
	f.mu.Lock()
	defer f.mu.Unlock()
	if f.closed {
		return 0, fmt.Errorf("closed")
	}
	time.Sleep(time.Microsecond)
	return f.buf.Write(p)
}
func (f *k6c15n3bConn) Close() error {
	f.mu.Lock()
	f.closed = true
	f.mu.Unlock()
	return nil
}

// Conn.Close() racing with the data writer and pingers: the wire ends on a
// frame boundary, delivered messages are intact, later writes fail.
func TestKeep6C15N3b(t *testing.T) {
	for round := 0; round < 40; round++ {
		fc := &k6c15n3bConn{}
		c := newConn(fc, true, 1024, 64)
		var wg sync.WaitGroup
		wg.Add(3)
		go func() {
			defer wg.Done()
			for i := 0; i < 50; i++ {
				if err := c.WriteMessage(BinaryMessage, bytes.Repeat([]byte{byte(i)}, 10+i*9)); err != nil {
					return
				}
			}
		}()
		go func() {
			defer wg.Done()
			for i := 0; i < 50; i++ {
				if err := c.WriteControl(PingMessage, []byte("p"), time.Now().Add(time.Second)); err != nil {
					return
				}
			}
		}()
		go func() {
			defer wg.Done()
			time.Sleep(time.Duration(round) * 30 * time.Microsecond)
			c.Close()
		}()
		wg.Wait()
		n0 := fc.buf.Len()
		if err := c.WriteControl(CloseMessage, nil, time.Now().Add(time.Second)); err == nil {
			t.Fatalf("close frame after Close succeeded")
		}
		if err := c.WriteMessage(TextMessage, []byte("x")); err == nil {
			t.Fatalf("write after Close succeeded")
		}
		if fc.buf.Len() != n0 {
			t.Fatalf("bytes after Close")
		}
		b := fc.buf.Bytes()
		next := 0
		for len(b) > 0 {
			if len(b) < 2 {
				t.Fatalf("short header")
			}
			op, l := int(b[0]&0xf), int(b[1]&0x7f)
			b = b[2:]
			if l == 126 {
				if len(b) < 2 {
					t.Fatalf("short length")
				}
				l = int(binary.BigEndian.Uint16(b))
				b = b[2:]
			}
			if len(b) < l {
				t.Fatalf("truncated frame: need %d have %d", l, len(b))
			}
			if op == BinaryMessage {
				if !bytes.Equal(b[:l], bytes.Repeat([]byte{byte(next)}, 10+next*9)) {
					t.Fatalf("message %d corrupted", next)
				}
				next++
			} else if op != PingMessage {
				t.Fatalf("opcode %d", op)
			}
			b = b[l:]
		}
	}
}
