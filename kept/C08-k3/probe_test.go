package rtmp_test

import (
	"bytes"
	"errors"
	"io"
	"reflect"
	"strings"
	"testing"

	oe "github.com/ossrs/go-oryx-lib/errors"
	"github.com/ossrs/go-oryx-lib/rtmp"
)

var errKeep5C08N3 = errors.New("keep5 c08 n3 injected")

// Read from r, write to w; the write call number fail (from 0) fails, after accepting half of the bytes.
type keep5C08N3RW struct {
	r     io.Reader
	w     bytes.Buffer
	calls int
	fail  int
	hit   bool
	// For read: at most step bytes per call, the call number rfail (from 0) fails.
	step, rcalls, rfail int
	rhit                bool
}

func (v *keep5C08N3RW) Read(p []byte) (int, error) {
	if v.r == nil {
		return 0, io.EOF
	}
	if v.step > 0 {
		if v.rcalls == v.rfail {
			v.rhit = true
			return 0, errKeep5C08N3
		}
		v.rcalls++
		if len(p) > v.step {
			p = p[:v.step]
		}
	}
	return v.r.Read(p)
}

func (v *keep5C08N3RW) Write(p []byte) (int, error) {
	if v.hit || v.calls == v.fail {
		v.hit = true
		v.w.Write(p[:len(p)/2])
		return len(p) / 2, errKeep5C08N3
	}
	v.calls++
	return v.w.Write(p)
}

type keep5C08N3Msg struct {
	sid     int
	mt      rtmp.MessageType
	ts      uint64
	payload []byte
	// When set, send by WritePacket.
	pkt rtmp.Packet
}

func keep5C08N3Payload(n, seed int) []byte {
	b := make([]byte, n)
	for i := range b {
		b[i] = byte(i*31 + seed)
	}
	return b
}

func keep5C08N3Session() []keep5C08N3Msg {
	scs := rtmp.NewSetChunkSize()
	scs.ChunkSize = 200
	scs2 := rtmp.NewSetChunkSize()
	scs2.ChunkSize = 4096
	was := rtmp.NewWindowAcknowledgementSize()
	return []keep5C08N3Msg{
		{sid: 1, mt: rtmp.MessageTypeAudio, ts: 10, payload: keep5C08N3Payload(20, 1)},
		{sid: 1, mt: rtmp.MessageTypeAudio, ts: 30, payload: keep5C08N3Payload(20, 2)},  // type 2
		{sid: 1, mt: rtmp.MessageTypeVideo, ts: 30, payload: keep5C08N3Payload(300, 3)}, // type 1, 3 chunks
		{pkt: scs, mt: rtmp.MessageTypeSetChunkSize, payload: []byte{0, 0, 0, 200}},
		{sid: 1, mt: rtmp.MessageTypeVideo, ts: 29, payload: keep5C08N3Payload(300, 4)}, // backward: type 0
		{sid: 2, mt: rtmp.MessageTypeVideo, ts: 50, payload: keep5C08N3Payload(401, 5)}, // other stream: type 0
		{pkt: was, mt: rtmp.MessageTypeWindowAcknowledgementSize, payload: []byte{0, 0, 0, 0}},
		{sid: 2, mt: rtmp.MessageTypeVideo, ts: 0xfffffe, payload: keep5C08N3Payload(1, 6)},
		{sid: 2, mt: rtmp.MessageTypeAudio, ts: 0xffffff, payload: keep5C08N3Payload(450, 7)}, // extended
		{sid: 2, mt: rtmp.MessageTypeAudio, ts: 0x1000010, payload: keep5C08N3Payload(450, 8)},
		{pkt: scs2, mt: rtmp.MessageTypeSetChunkSize, payload: []byte{0, 0, 0x10, 0}},
		{sid: 2, mt: rtmp.MessageTypeAudio, ts: 5, payload: keep5C08N3Payload(5000, 9)},
		{sid: 2, mt: rtmp.MessageTypeAudio, ts: 5, payload: keep5C08N3Payload(5000, 10)},
		{sid: 2, mt: rtmp.MessageTypeAMF0Data, ts: 0xfffffe, payload: keep5C08N3Payload(7, 11)},
	}
}

func keep5C08N3Write(p *rtmp.Protocol, in keep5C08N3Msg) error {
	if in.pkt != nil {
		return p.WritePacket(in.pkt, in.sid)
	}
	m := rtmp.NewStreamMessage(in.sid)
	m.MessageType, m.Timestamp, m.Payload = in.mt, in.ts, in.payload
	return p.WriteMessage(m)
}

func TestKeep5C08N3(t *testing.T) {
	in := keep5C08N3Session()

	rw := &keep5C08N3RW{fail: -1}
	p := rtmp.NewProtocol(rw)
	var ends []int
	for i, msg := range in {
		if err := keep5C08N3Write(p, msg); err != nil {
			t.Fatalf("write %v: %v", i, err)
		}
		ends = append(ends, rw.w.Len())
	}
	full := append([]byte{}, rw.w.Bytes()...)
	writes := rw.calls
	t.Logf("session %v bytes, %v writes", len(full), writes)

	// Every cut offset: exactly the completely transferred messages, then EOF/ErrUnexpectedEOF.
	for cut := 0; cut <= len(full); cut++ {
		want := 0
		for _, e := range ends {
			if e <= cut {
				want++
			}
		}

		rp := rtmp.NewProtocol(&keep5C08N3RW{r: bytes.NewReader(full[:cut]), fail: -1})
		got := 0
		for {
			m, err := rp.ReadMessage()
			if err != nil {
				if m != nil {
					t.Fatalf("cut %v: message with error", cut)
				}
				c := oe.Cause(err)
				if c != io.EOF && c != io.ErrUnexpectedEOF {
					t.Fatalf("cut %v: cause %v", cut, c)
				}
				if !strings.HasSuffix(err.Error(), ": "+c.Error()) {
					t.Fatalf("cut %v: chain %q", cut, err.Error())
				}
				// The changed behaviour: EOF only at the boundary of message.
				if boundary := cut == 0 || want > 0 && ends[want-1] == cut; boundary != (c == io.EOF) {
					t.Fatalf("cut %v: boundary %v but %v", cut, boundary, c)
				}
				break
			}
			if got >= len(in) {
				t.Fatalf("cut %v: fabricated message", cut)
			}
			e := in[got]
			sid := reflect.ValueOf(m).Elem().FieldByName("streamID").Uint()
			if m.MessageType != e.mt || m.Timestamp != e.ts || !bytes.Equal(m.Payload, e.payload) || int(sid) != e.sid {
				t.Fatalf("cut %v: message %v differs: %v %v %v", cut, got, m.MessageType, m.Timestamp, len(m.Payload))
			}
			got++
		}
		if got != want {
			t.Fatalf("cut %v: got %v messages, want %v", cut, got, want)
		}
	}

	// An injected error at every read call, for some sizes of transport reads.
	for _, step := range []int{1, 3, 100, 5000, 1 << 20} {
		for k := 0; ; k++ {
			if step == 1 && k > 1500 {
				break
			}
			rw := &keep5C08N3RW{r: bytes.NewReader(full), fail: -1, step: step, rfail: k}
			rp := rtmp.NewProtocol(rw)
			got := 0
			var err error
			for {
				var m *rtmp.Message
				if m, err = rp.ReadMessage(); err != nil {
					break
				}
				e := in[got]
				if m.MessageType != e.mt || m.Timestamp != e.ts || !bytes.Equal(m.Payload, e.payload) {
					t.Fatalf("step %v k %v: message %v differs", step, k, got)
				}
				got++
			}
			if !rw.rhit {
				if got != len(in) || oe.Cause(err) != io.EOF {
					t.Fatalf("step %v k %v: %v messages, err %v", step, k, got, err)
				}
				break
			}
			if oe.Cause(err) != errKeep5C08N3 {
				t.Fatalf("step %v k %v: err %v", step, k, err)
			}
			// The bytes delivered before the failure.
			n := k * step
			want := 0
			for _, e := range ends {
				if e <= n {
					want++
				}
			}
			if got != want {
				t.Fatalf("step %v k %v: got %v messages, want %v", step, k, got, want)
			}
		}
	}
}
