package kxps

import (
	"testing"
	"time"
)

type keep5C20N2Src struct{ n uint64 }

func (v *keep5C20N2Src) TotalBytes() uint64 { return v.n }
func (v *keep5C20N2Src) NbRequests() uint64 { return v.n }

func keep5C20N2Refused(f func()) (r interface{}) {
	defer func() { r = recover() }()
	f()
	return nil
}

func TestKeep5C20N2(t *testing.T) {
	// Before Start: refused, also when the never started meter is closed.
	s0 := &keep5C20N2Src{n: 7}
	k0 := NewKrps(nil, s0)
	if keep5C20N2Refused(func() { k0.Rps10s() }) == nil || keep5C20N2Refused(func() { k0.Average() }) == nil {
		t.Fatalf("read before start not refused")
	}
	k0.Close()
	if keep5C20N2Refused(func() { k0.Rps300s() }) == nil {
		t.Fatalf("read of never started meter not refused")
	}

	// Rates by hand driven samples.
	s := &keep5C20N2Src{}
	m := NewKrps(nil, s).(*krps)
	m.imp.started = true
	at := func(sec int64) time.Time { return time.Unix(5000+sec, 0) }
	s.n = 100
	m.imp.doSample(at(0))
	m.imp.sampleAverage(at(0))
	s.n = 400
	m.imp.doSample(at(13))
	if got, want := m.Rps10s(), float64(300)*1000/10000; got != want {
		t.Errorf("10s=%v want %v", got, want)
	}
	s.n = 400 // stall
	m.imp.doSample(at(31))
	if m.Rps10s() != 0 {
		t.Errorf("stall must yield 0, got %v", m.Rps10s())
	}
	if got, want := m.Rps30s(), float64(300)*1000/30000; got != want {
		t.Errorf("30s=%v want %v", got, want)
	}
	s.n = 3400
	m.imp.doSample(at(400))
	if got, want := m.Rps300s(), float64(3300)*1000/300000; got != want {
		t.Errorf("300s=%v want %v", got, want)
	}
	if got, want := m.imp.sampleAverage(at(400)), float64(3300)*1000/400000; got != want {
		t.Errorf("avg=%v want %v", got, want)
	}

	// Outside behaviour: a started then closed meter keeps its last rates readable,
	// and the second Close reports an error.
	if err := m.Close(); err != nil {
		t.Fatalf("close failed %v", err)
	}
	if r := keep5C20N2Refused(func() {
		if got, want := m.Rps300s(), float64(3300)*1000/300000; got != want {
			t.Errorf("after close 300s=%v want %v", got, want)
		}
	}); r != nil {
		t.Errorf("read after close refused: %v", r)
	}
	if err := m.Close(); err == nil {
		t.Errorf("second close should fail")
	}

	// The timer goroutine terminates on Close without waiting for the 10s tick.
	s3 := &keep5C20N2Src{n: 1}
	k3 := NewKbps(nil, s3).(*kbps)
	k3.Start()
	time.Sleep(50 * time.Millisecond)
	k3.Close()
	select {
	case <-k3.imp.done:
	default:
		t.Errorf("done not closed")
	}
}
