package avc

import (
	"bytes"
	"testing"
)

func keep5C12N2Nalu(h byte, n int, seed byte) *NALU {
	v := NewNALU()
	v.NALRefIDC, v.NALUType = NALRefIDC(h>>5&3), NALUType(h&0x1f)
	if n > 1 {
		v.Data = make([]byte, n-1)
		for i := range v.Data {
			v.Data[i] = seed + byte(i*13)
		}
	}
	return v
}

// Independent ISO/IEC 14496-15 5.2.4.1 writer.
func keep5C12N2Ref(profile, compat, level, lsm1 byte, sps, pps []*NALU) []byte {
	b := []byte{1, profile, compat, level, 0xfc | lsm1, 0xe0 | byte(len(sps))}
	for _, s := range sps {
		n := 1 + len(s.Data)
		b = append(b, byte(n>>8), byte(n), byte(s.NALRefIDC)<<5|byte(s.NALUType))
		b = append(b, s.Data...)
	}
	b = append(b, byte(len(pps)))
	for _, s := range pps {
		n := 1 + len(s.Data)
		b = append(b, byte(n>>8), byte(n), byte(s.NALRefIDC)<<5|byte(s.NALUType))
		b = append(b, s.Data...)
	}
	return b
}

// Belongs to package directory avc/ (package avc).
func TestKeep5C12N2(t *testing.T) {
	sizes := []int{1, 255, 256, 65535, 2, 17}
	for _, nsps := range []int{0, 1, 31} {
		for _, npps := range []int{0, 1, 255} {
			for lsm1 := byte(0); lsm1 < 4; lsm1++ {
				var sps, pps []*NALU
				for i := 0; i < nsps; i++ {
					sps = append(sps, keep5C12N2Nalu(0x67, sizes[i%len(sizes)], byte(i)))
				}
				for i := 0; i < npps; i++ {
					pps = append(pps, keep5C12N2Nalu(byte(i), sizes[(i+1)%len(sizes)], byte(i)))
				}
				r := NewAVCDecoderConfigurationRecord()
				r.AVCProfileIndication, r.profileCompatibility, r.AVCLevelIndication = 244, 0xa5, 51
				r.LengthSizeMinusOne = lsm1
				r.SequenceParameterSetNALUnits, r.PictureParameterSetNALUnits = sps, pps
				b, err := r.MarshalBinary()
				if err != nil {
					t.Fatal(err)
				}
				want := keep5C12N2Ref(244, 0xa5, 51, lsm1, sps, pps)
				if !bytes.Equal(b, want) {
					t.Fatalf("record bytes differ nsps=%v npps=%v", nsps, npps)
				}
				r2 := NewAVCDecoderConfigurationRecord()
				if err := r2.UnmarshalBinary(want); err != nil {
					t.Fatal(err)
				}
				if r2.AVCProfileIndication != 244 || r2.profileCompatibility != 0xa5 || r2.AVCLevelIndication != 51 ||
					r2.LengthSizeMinusOne != lsm1 || len(r2.SequenceParameterSetNALUnits) != nsps || len(r2.PictureParameterSetNALUnits) != npps {
					t.Fatalf("record values")
				}
				for i, p := range r2.PictureParameterSetNALUnits {
					if *p.NALUHeader != *pps[i].NALUHeader || !bytes.Equal(p.Data, pps[i].Data) {
						t.Fatalf("pps %v", i)
					}
				}
				b2, err := r2.MarshalBinary()
				if err != nil || !bytes.Equal(b2, want) {
					t.Fatalf("remarshal %v", err)
				}
			}
		}
	}

	// Samples for each length size.
	for lsm1 := 0; lsm1 < 4; lsm1++ {
		s := NewAVCSample(uint8(lsm1))
		var want []byte
		for i, n := range sizes {
			if lsm1 == 0 && n > 255 {
				continue
			}
			nalu := keep5C12N2Nalu(byte(i*37), n, byte(i))
			s.NALUs = append(s.NALUs, nalu)
			for k := lsm1; k >= 0; k-- {
				want = append(want, byte(n>>uint(8*k)))
			}
			want = append(want, byte(nalu.NALRefIDC)<<5|byte(nalu.NALUType))
			want = append(want, nalu.Data...)
		}
		b, err := s.MarshalBinary()
		if err != nil || !bytes.Equal(b, want) {
			t.Fatalf("sample lsm1=%v %v", lsm1, err)
		}
		s2 := NewAVCSample(uint8(lsm1))
		if err := s2.UnmarshalBinary(b); err != nil || len(s2.NALUs) != len(s.NALUs) {
			t.Fatalf("sample unmarshal %v", err)
		}
		for i := range s.NALUs {
			if *s2.NALUs[i].NALUHeader != *s.NALUs[i].NALUHeader || !bytes.Equal(s2.NALUs[i].Data, s.NALUs[i].Data) {
				t.Fatalf("sample nalu %v", i)
			}
		}
		b2, err := s2.MarshalBinary()
		if err != nil || !bytes.Equal(b2, want) {
			t.Fatalf("sample remarshal")
		}
	}

	// Changed outside behaviour: out of domain values are rejected instead of being truncated.
	r := NewAVCDecoderConfigurationRecord()
	for i := 0; i < 32; i++ {
		r.SequenceParameterSetNALUnits = append(r.SequenceParameterSetNALUnits, keep5C12N2Nalu(0x67, 4, 0))
	}
	if _, err := r.MarshalBinary(); err == nil {
		t.Fatal("32 SPS should fail")
	}
	s := NewAVCSample(0)
	s.NALUs = []*NALU{keep5C12N2Nalu(0x65, 256, 0)}
	if _, err := s.MarshalBinary(); err == nil {
		t.Fatal("256 bytes NALU in 1 byte length should fail")
	}
	if b, err := (&AVCDecoderConfigurationRecord{}).MarshalBinary(); err != nil || b[0] != 1 {
		t.Fatal("zero value record should write version 1")
	}
}
