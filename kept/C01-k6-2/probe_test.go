package rtmp

// Probe for keep6 C01 change 2. Belongs to package directory rtmp/ (internal test, package rtmp).

import (
	"bytes"
	"io"
	"math/rand"
	"sync"
	"testing"
)

// One direction of an in-memory transport, which delivers at most seg bytes per Read.
type keep6C01N2Half struct {
	mu   sync.Mutex
	cond *sync.Cond
	buf  bytes.Buffer
	seg  int
	eof  bool
}

func newKeep6C01N2Half(seg int) *keep6C01N2Half {
	v := &keep6C01N2Half{seg: seg}
	v.cond = sync.NewCond(&v.mu)
	return v
}

func (v *keep6C01N2Half) Write(p []byte) (int, error) {
	v.mu.Lock()
	defer v.mu.Unlock()
	v.buf.Write(p)
	v.cond.Broadcast()
	return len(p), nil
}

func (v *keep6C01N2Half) Read(p []byte) (int, error) {
	v.mu.Lock()
	defer v.mu.Unlock()
	for v.buf.Len() == 0 {
		if v.eof {
			return 0, io.EOF
		}
		v.cond.Wait()
	}
	if len(p) > v.seg {
		p = p[:v.seg]
	}
	return v.buf.Read(p)
}

type keep6C01N2End struct {
	r *keep6C01N2Half
	w *keep6C01N2Half
}

func (v *keep6C01N2End) Read(p []byte) (int, error)  { return v.r.Read(p) }
func (v *keep6C01N2End) Write(p []byte) (int, error) { return v.w.Write(p) }

type keep6C01N2Msg struct {
	typ     MessageType
	sid     int
	ts      uint64
	payload []byte
	// When not zero, announce the chunk size by WritePacket instead of a message.
	chunkSize uint32
}

func keep6C01N2Run(t *testing.T, seg int, seq []keep6C01N2Msg) {
	a2b, b2a := newKeep6C01N2Half(seg), newKeep6C01N2Half(seg)
	a := &keep6C01N2End{r: b2a, w: a2b}
	b := &keep6C01N2End{r: a2b, w: b2a}

	// The simple handshake, the client is a and the server is b.
	var wg sync.WaitGroup
	wg.Add(1)
	go func() {
		defer wg.Done()
		hs := NewHandshake(rand.New(rand.NewSource(1)))
		if _, err := hs.ReadC0S0(b); err != nil {
			t.Errorf("server c0 %v", err)
		}
		c1, err := hs.ReadC1S1(b)
		if err != nil {
			t.Errorf("server c1 %v", err)
		}
		if err := hs.WriteC0S0(b); err != nil {
			t.Errorf("server s0 %v", err)
		}
		if err := hs.WriteC1S1(b); err != nil {
			t.Errorf("server s1 %v", err)
		}
		if err := hs.WriteC2S2(b, c1); err != nil {
			t.Errorf("server s2 %v", err)
		}
		if _, err := hs.ReadC2S2(b); err != nil {
			t.Errorf("server c2 %v", err)
		}
	}()
	hc := NewHandshake(rand.New(rand.NewSource(2)))
	if err := hc.WriteC0S0(a); err != nil {
		t.Fatal(err)
	}
	if err := hc.WriteC1S1(a); err != nil {
		t.Fatal(err)
	}
	if _, err := hc.ReadC0S0(a); err != nil {
		t.Fatal(err)
	}
	s1, err := hc.ReadC1S1(a)
	if err != nil {
		t.Fatal(err)
	}
	if _, err := hc.ReadC2S2(a); err != nil {
		t.Fatal(err)
	}
	if err := hc.WriteC2S2(a, s1); err != nil {
		t.Fatal(err)
	}
	wg.Wait()

	pa, pb := NewProtocol(a), NewProtocol(b)

	wg.Add(1)
	go func() {
		defer wg.Done()
		for i, e := range seq {
			if e.chunkSize != 0 {
				pkt := NewSetChunkSize()
				pkt.ChunkSize = e.chunkSize
				if err := pa.WritePacket(pkt, e.sid); err != nil {
					t.Errorf("#%v write packet %v", i, err)
				}
				continue
			}
			m := NewStreamMessage(e.sid)
			m.MessageType, m.Timestamp, m.Payload = e.typ, e.ts, e.payload
			if err := pa.WriteMessage(m); err != nil {
				t.Errorf("#%v write message %v", i, err)
			}
		}
	}()

	for i, e := range seq {
		m, err := pb.ReadMessage()
		if err != nil {
			t.Fatalf("#%v read %+v", i, err)
		}
		if e.chunkSize != 0 {
			p := make([]byte, 4)
			p[0], p[1], p[2], p[3] = byte(e.chunkSize>>24), byte(e.chunkSize>>16), byte(e.chunkSize>>8), byte(e.chunkSize)
			e.typ, e.ts, e.payload = MessageTypeSetChunkSize, 0, p
		}
		if m.MessageType != e.typ || int(m.streamID) != e.sid || m.Timestamp != e.ts || !bytes.Equal(m.Payload, e.payload) {
			t.Fatalf("#%v mismatch type=%v/%v sid=%v/%v ts=%v/%v len=%v/%v", i, m.MessageType, e.typ,
				m.streamID, e.sid, m.Timestamp, e.ts, len(m.Payload), len(e.payload))
		}
	}
	wg.Wait()
}

func keep6C01N2Seq(rd *rand.Rand, chunkSizes []uint32, big bool) (seq []keep6C01N2Msg) {
	tss := []uint64{0, 1, 0xfffffe, 0xffffff, 0x1000000, 0x7fffffff, 0x7ffffffe, 12345}
	types := []MessageType{MessageTypeAudio, MessageTypeVideo, MessageTypeAMF0Data, MessageTypeAMF0Command,
		MessageTypeAcknowledgement, MessageTypeAbort, MessageType(0x16), MessageType(0xff), MessageType(0)}
	cur := uint32(128)
	add := func(n int) {
		if n <= 0 || n > 0xffffff {
			return
		}
		p := make([]byte, n)
		rd.Read(p)
		seq = append(seq, keep6C01N2Msg{typ: types[rd.Intn(len(types))], sid: int(rd.Uint32() >> uint(rd.Intn(32))),
			ts: tss[rd.Intn(len(tss))], payload: p})
	}
	for _, cs := range append([]uint32{0}, chunkSizes...) {
		if cs != 0 {
			seq = append(seq, keep6C01N2Msg{chunkSize: cs, sid: rd.Intn(3)})
			cur = cs
		}
		for _, k := range []int{1, 2, 5} {
			if uint64(cur)*uint64(k) > 100000 {
				break
			}
			for d := -1; d <= 1; d++ {
				add(int(cur)*k + d)
			}
		}
		add(1)
		if big {
			add(65535)
			add(65536)
		}
		// Well-formed protocol control messages.
		seq = append(seq, keep6C01N2Msg{typ: MessageTypeUserControl, sid: 0, ts: tss[rd.Intn(len(tss))], payload: []byte{0, 3, 0, 0, 0, 1, 0, 0, 3, 0xe8}})
		seq = append(seq, keep6C01N2Msg{typ: MessageTypeWindowAcknowledgementSize, sid: 0, ts: 0, payload: []byte{0, 0x26, 0x25, 0xa0}})
		seq = append(seq, keep6C01N2Msg{typ: MessageTypeSetPeerBandwidth, sid: 0, ts: 7, payload: []byte{0, 0x26, 0x25, 0xa0, 2}})
	}
	return
}

func TestKeep6C01N2(t *testing.T) {
	rd := rand.New(rand.NewSource(601))
	// Down to 1 byte per transport read.
	keep6C01N2Run(t, 1, keep6C01N2Seq(rd, []uint32{1, 2, 127, 4096}, false))
	keep6C01N2Run(t, 7, keep6C01N2Seq(rd, []uint32{65536, 3, 0x7fffffff, 128}, true))
	keep6C01N2Run(t, 1<<20, keep6C01N2Seq(rd, []uint32{60000, 0x7fffffff, 1, 0xffffff}, true))

	// The largest message, with the largest chunk size and a small one.
	p := make([]byte, 0xffffff)
	rd.Read(p)
	keep6C01N2Run(t, 64<<10, []keep6C01N2Msg{
		{typ: MessageTypeVideo, sid: 1, ts: 0xffffff, payload: p},
		{chunkSize: 0x7fffffff},
		{typ: MessageTypeVideo, sid: 0x7fffffff, ts: 0x7fffffff, payload: p},
		{chunkSize: 4095},
		{typ: MessageTypeAudio, sid: 1, ts: 0, payload: p[1:]},
	})
}

// Outside the statement: the empty message and the 32bits timestamp are delivered now.
func TestKeep6C01N2Outside(t *testing.T) {
	p := []byte{1, 2, 3}
	keep6C01N2Run(t, 1, []keep6C01N2Msg{
		{typ: MessageTypeAudio, sid: 1, ts: 5, payload: p},
		{typ: MessageTypeAMF0Data, sid: 1, ts: 0xffffff, payload: []byte{}},
		{typ: MessageTypeVideo, sid: 1, ts: 6, payload: []byte{}},
		{typ: MessageTypeVideo, sid: 1, ts: 0xffffffff, payload: p},
		{typ: MessageTypeVideo, sid: 1, ts: 0x80000000, payload: p},
		{typ: MessageTypeAudio, sid: 1, ts: 7, payload: p},
	})
}
