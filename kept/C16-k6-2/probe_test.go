//go:build verif
// +build verif

package acme_test

import (
	"bytes"
	"crypto"
	"crypto/ecdsa"
	"crypto/elliptic"
	"crypto/rand"
	"crypto/rsa"
	"testing"

	"github.com/ossrs/go-oryx-lib/https/acme"
	"github.com/ossrs/go-oryx-lib/https/jose"
)

// Run with: go test -tags verif -run Keep6 ./https/acme/
func TestKeep6C16N2(t *testing.T) {
	rk, _ := rsa.GenerateKey(rand.Reader, 2048)
	k256, _ := ecdsa.GenerateKey(elliptic.P256(), rand.Reader)
	k384, _ := ecdsa.GenerateKey(elliptic.P384(), rand.Reader)
	k521, _ := ecdsa.GenerateKey(elliptic.P521(), rand.Reader)
	other, _ := ecdsa.GenerateKey(elliptic.P256(), rand.Reader)
	cases := []struct {
		priv crypto.PrivateKey
		pub  interface{}
		alg  string
	}{
		{rk, &rk.PublicKey, "RS256"},
		{k256, &k256.PublicKey, "ES256"},
		{k384, &k384.PublicKey, "ES384"},
		{k521, &k521.PublicKey, "ES512"}, // new: was an error before the change
	}
	for _, c := range cases {
		for _, n := range []int{0, 1, 100} {
			content := bytes.Repeat([]byte{0x33}, n)
			obj, err := acme.VerifSignContent(c.priv, []string{"n-old", "n-mid", "n-new"}, content)
			if err != nil {
				t.Fatal(c.alg, err)
			}
			compact, err := obj.CompactSerialize()
			if err != nil {
				t.Fatal(err)
			}
			for _, ser := range []string{compact, obj.FullSerialize()} {
				p, err := jose.ParseSigned(ser)
				if err != nil {
					t.Fatal(err)
				}
				out, err := p.Verify(c.pub)
				if err != nil || !bytes.Equal(out, content) {
					t.Fatal(c.alg, err)
				}
				if _, err := p.Verify(&other.PublicKey); err == nil {
					t.Fatal("wrong key verified")
				}
				h := p.Signatures[0].Header
				if h.Algorithm != c.alg {
					t.Fatal(h.Algorithm)
				}
				// new: the oldest nonce is spent first (was "n-new")
				if h.Nonce != "n-old" {
					t.Fatal(h.Nonce)
				}
				// the embedded key verifies the object, too
				if _, err := p.Verify(h.JsonWebKey); err != nil {
					t.Fatal(err)
				}
				p.Signatures[0].Signature[3] ^= 0x10
				if _, err := p.Verify(c.pub); err == nil {
					t.Fatal("tampered signature verified")
				}
			}
		}
	}
}
