package flv_test

import (
	"bytes"
	"strings"
	"testing"

	"github.com/ossrs/go-oryx-lib/flv"
)

// Belongs to the package directory flv/ (external test package flv_test).
func TestKeep5C10N2(t *testing.T) {
	ap, _ := flv.NewAudioPackager()
	vp, _ := flv.NewVideoPackager()
	raws := [][]byte{{}, {1}, {1, 2, 3, 4}, bytes.Repeat([]byte{0xab}, 300)}
	opusRates := []flv.AudioSamplingRate{8, 12, 16, 24, 48}

	for b0 := 0; b0 < 256; b0++ {
		for trait := 0; trait < 256; trait++ {
			for _, raw := range raws {
				f := &flv.AudioFrame{
					SoundFormat: flv.AudioCodec(b0 >> 4), SoundRate: flv.AudioSamplingRate(b0 >> 2 & 3),
					SoundSize: flv.AudioSampleBits(b0 >> 1 & 1), SoundType: flv.AudioChannels(b0 & 1),
					Raw: raw,
				}
				switch f.SoundFormat {
				case flv.AudioCodecAAC:
					f.Trait = flv.AudioFrameTrait(trait)
				case flv.AudioCodecOpus:
					f.Trait = flv.AudioFrameTrait(trait)
					f.SoundRate = 0
					if trait&4 != 0 {
						f.SoundRate = opusRates[(b0+trait)%len(opusRates)]
					}
					if trait&8 != 0 {
						f.AudioLevel = uint16(b0<<8 | trait)
					}
				default:
					if trait != 0 {
						continue
					}
					if len(raw) == 0 {
						continue // 1 byte tags are not accepted by Decode (unchanged).
					}
				}
				tag, err := ap.Encode(f)
				if err != nil {
					t.Fatalf("encode %+v: %v", f, err)
				}
				if flv.AudioCodec(tag[0]>>4) != f.SoundFormat {
					t.Fatalf("codec in first byte %x, frame %+v", tag[0], f)
				}
				g, err := ap.Decode(tag)
				if err != nil {
					t.Fatalf("decode %x: %v", tag, err)
				}
				if g.SoundFormat != f.SoundFormat || g.SoundRate != f.SoundRate || g.SoundSize != f.SoundSize ||
					g.SoundType != f.SoundType || g.Trait != f.Trait || g.AudioLevel != f.AudioLevel || !bytes.Equal(g.Raw, f.Raw) {
					t.Fatalf("audio round trip: %+v != %+v", g, f)
				}
				tag2, err := ap.Encode(g)
				if err != nil || !bytes.Equal(tag, tag2) {
					t.Fatalf("audio re-encode: %x != %x (%v)", tag2, tag, err)
				}
			}
		}
	}

	for b0 := 0; b0 < 256; b0++ {
		for trait := 0; trait < 256; trait++ {
			for i, raw := range raws {
				f := &flv.VideoFrame{FrameType: flv.VideoFrameType(b0 >> 4), CodecID: flv.VideoCodec(b0 & 15), Raw: raw}
				if f.CodecID == flv.VideoCodecAVC || f.CodecID == flv.VideoCodecHEVC {
					f.Trait = flv.VideoFrameTrait(trait)
					f.CTS = []int32{0, 1, 0x800000, 0xffffff}[i]
				} else if trait != 0 || len(raw) < 4 {
					continue // tags shorter than 5 bytes are not accepted by Decode (unchanged).
				}
				tag, err := vp.Encode(f)
				if err != nil {
					t.Fatalf("encode %+v: %v", f, err)
				}
				if flv.VideoFrameType(tag[0]>>4) != f.FrameType || flv.VideoCodec(tag[0]&15) != f.CodecID {
					t.Fatalf("first byte %x, frame %+v", tag[0], f)
				}
				g, err := vp.Decode(tag)
				if err != nil {
					t.Fatalf("decode %x: %v", tag, err)
				}
				if g.CodecID != f.CodecID || g.FrameType != f.FrameType || g.Trait != f.Trait || g.CTS != f.CTS || !bytes.Equal(g.Raw, f.Raw) {
					t.Fatalf("video round trip: %+v != %+v", g, f)
				}
				tag2, err := vp.Encode(g)
				if err != nil || !bytes.Equal(tag, tag2) {
					t.Fatalf("video re-encode: %x != %x (%v)", tag2, tag, err)
				}
			}
		}
	}

	for i, hz := range []int{5512, 11025, 22050, 44100} {
		if got := flv.AudioSamplingRate(i).ToHz(); got != hz {
			t.Fatalf("ToHz(%v)=%v", i, got)
		}
	}
	for code, hz := range map[flv.AudioSamplingRate]int{8: 8000, 12: 12000, 16: 16000, 24: 24000, 48: 48000} {
		if got := code.OpusToHz(); got != hz {
			t.Fatalf("OpusToHz(%v)=%v", code, got)
		}
	}
}

// The behaviour outside the statement that changed with change 2.
func TestKeep5C10N2Outside(t *testing.T) {
	ap, _ := flv.NewAudioPackager()
	vp, _ := flv.NewVideoPackager()

	if _, err := ap.Encode(nil); err == nil {
		t.Fatal("nil audio frame")
	}
	if _, err := vp.Encode(nil); err == nil {
		t.Fatal("nil video frame")
	}
	for _, f := range []*flv.AudioFrame{
		{SoundFormat: 16, Raw: []byte{1}}, {SoundFormat: flv.AudioCodecMP3, SoundSize: 2, Raw: []byte{1}},
		{SoundFormat: flv.AudioCodecMP3, SoundType: flv.AudioChannelsForbidden, Raw: []byte{1}},
	} {
		if _, err := ap.Encode(f); err == nil {
			t.Fatalf("accepted %+v", f)
		}
	}
	for _, f := range []*flv.VideoFrame{{FrameType: 16, CodecID: 7}, {FrameType: 1, CodecID: 23}} {
		if _, err := vp.Encode(f); err == nil {
			t.Fatalf("accepted %+v", f)
		}
	}
	for _, tag := range [][]byte{nil, {0xaf}, {0xd0, 0x04}, {0xd0, 0x08, 1}} {
		if _, err := ap.Decode(tag); err == nil || !strings.HasSuffix(err.Error(), ": Data not enough") {
			t.Fatalf("audio %x: %v", tag, err)
		}
	}
	if _, err := vp.Decode([]byte{0x17, 1, 0, 0}); err == nil || err.Error() != "video tag requires 5+ bytes, actual 4: Data not enough" {
		t.Fatalf("video: %v", err)
	}
}
