package avc_test

import (
	"bytes"
	"math/rand"
	"testing"
	"time"

	"github.com/ossrs/go-oryx-lib/aac"
	"github.com/ossrs/go-oryx-lib/avc"
	"github.com/ossrs/go-oryx-lib/flv"
)

// Belongs to directory avc/ (external test package avc_test).
func TestKeep6C07N1(t *testing.T) {
	decodeAll := func(b []byte) {
		defer func() {
			if r := recover(); r != nil {
				t.Fatalf("panic %v for %x", r, b)
			}
		}()
		avc.NewNALU().UnmarshalBinary(b)
		avc.NewAVCDecoderConfigurationRecord().UnmarshalBinary(b)
		for i := uint8(0); i < 4; i++ {
			avc.NewAVCSample(i).UnmarshalBinary(b)
		}
		ap, _ := flv.NewAudioPackager()
		ap.Decode(b)
		vp, _ := flv.NewVideoPackager()
		vp.Decode(b)
		adts, _ := aac.NewADTS()
		for p, n := b, 0; len(p) > 0 && n < len(b)+1; n++ {
			var err error
			if _, p, err = adts.Decode(p); err != nil {
				break
			}
		}
	}

	rnd := rand.New(rand.NewSource(7))
	seeds := [][]byte{
		nil, {0x67}, {0xff, 0xf1, 0x50, 0x80, 0x01, 0x1f, 0xfc, 0xaa},
		{0x01, 0x42, 0x00, 0x1e, 0xff, 0xe1, 0x00, 0x02, 0x67, 0x42, 0x01, 0x00, 0x02, 0x68, 0xce},
		{0x17, 0x01, 0x00, 0x00, 0x00, 0x00, 0x00, 0x00, 0x02, 0x65, 0x88},
		{0xaf, 0x01, 0x21, 0x10}, {0xdf, 0x0e, 0x08, 0x00, 0x10, 0x01},
	}
	for _, s := range seeds {
		decodeAll(s)
		for i := 0; i < 300; i++ {
			m := append([]byte(nil), s...)
			for k := rnd.Intn(4); k >= 0 && len(m) > 0; k-- {
				m[rnd.Intn(len(m))] = byte(rnd.Intn(256))
			}
			decodeAll(m[:rnd.Intn(len(m)+1)])
		}
	}
	for i := 0; i < 2000; i++ {
		b := make([]byte, rnd.Intn(64))
		rnd.Read(b)
		decodeAll(b)
	}

	// 64KiB inputs return promptly (one extra copy of the payload, linear).
	big := bytes.Repeat([]byte{0x00, 0x00, 0x01, 0x65}, 16*1024)
	start := time.Now()
	for i := 0; i < 50; i++ {
		decodeAll(big)
	}
	if d := time.Since(start); d > 5*time.Second {
		t.Fatalf("too slow %v", d)
	}

	// The results are valid and unchanged in value.
	in := []byte{0x65, 1, 2, 3}
	n := avc.NewNALU()
	if err := n.UnmarshalBinary(in); err != nil || n.NALUType != avc.NALUTypeIDR || !bytes.Equal(n.Data, []byte{1, 2, 3}) {
		t.Fatalf("nalu %v %v", n, err)
	}
	vp, _ := flv.NewVideoPackager()
	f, err := vp.Decode([]byte{0x17, 0x01, 0x00, 0x00, 0x2a, 9, 8})
	if err != nil || f.CTS != 42 || !bytes.Equal(f.Raw, []byte{9, 8}) {
		t.Fatalf("video %v %v", f, err)
	}
}
