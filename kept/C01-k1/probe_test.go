package rtmp

import (
	"bytes"
	"io"
	"math/rand"
	"testing"
)

// A transport which hands out at most n bytes per read.
type keep5C01N1Pipe struct {
	b bytes.Buffer
	n int
}

func (v *keep5C01N1Pipe) Write(p []byte) (int, error) { return v.b.Write(p) }
func (v *keep5C01N1Pipe) Read(p []byte) (int, error) {
	if len(p) > v.n {
		p = p[:v.n]
	}
	return v.b.Read(p)
}

func TestKeep5C01N1(t *testing.T) {
	rd := rand.New(rand.NewSource(1))
	for _, seg := range []int{1, 7, 1 << 20} {
		tr := &keep5C01N1Pipe{n: seg}
		w, r := NewProtocol(tr), NewProtocol(tr)

		// Simple handshake over the same transport.
		hs := NewHandshake(rd)
		if err := hs.WriteC0S0(tr); err != nil {
			t.Fatal(err)
		}
		if err := hs.WriteC1S1(tr); err != nil {
			t.Fatal(err)
		}
		if _, err := hs.ReadC0S0(tr); err != nil {
			t.Fatal(err)
		}
		c1, err := hs.ReadC1S1(tr)
		if err != nil {
			t.Fatal(err)
		}
		if err := hs.WriteC2S2(tr, c1); err != nil {
			t.Fatal(err)
		}
		if _, err := hs.ReadC2S2(tr); err != nil {
			t.Fatal(err)
		}

		type sent struct {
			typ      MessageType
			sid      uint32
			ts       uint64
			payload  []byte
			setChunk uint32
		}
		var msgs []sent
		tss := []uint64{0, 5, 5, 0xfffffe, 0xffffff, 0x1000000, 0x1000001, 3, 0x7fffffff, 0x7fffffff, 0, 0xfffffe, 0xffffff + 0xfffffe, 0xffffff + 0xfffffe + 0xffffff, 0x7ffffffe}
		chunk := 128
		lens := func() []int {
			return []int{1, chunk - 1, chunk, chunk + 1, 2*chunk - 1, 2 * chunk, 2*chunk + 1, 1, 1, 300, 300}
		}
		add := func(typ MessageType, sid uint32, ts uint64, n int) {
			p := make([]byte, n)
			rd.Read(p)
			msgs = append(msgs, sent{typ: typ, sid: sid, ts: ts, payload: p})
		}
		k := 0
		for round, cs := range []uint32{0, 1, 4096, 0x7fffffff, 3} {
			if cs != 0 {
				msgs = append(msgs, sent{setChunk: cs})
				chunk = int(cs)
				if chunk > 70000 {
					chunk = 70000
				}
			}
			for i, n := range lens() {
				if n <= 0 || (seg == 1 && n > 20000) {
					continue
				}
				k++
				sid := uint32(1)
				if i%5 == 4 {
					sid = uint32(rd.Uint32())
				}
				typ := []MessageType{8, 9, 9, 18, 20, 3, 6, 22}[(i+round)%8]
				add(typ, sid, tss[k%len(tss)], n)
			}
		}
		if seg != 1 {
			add(9, 1, 0x7ffffff0, 65535)
			add(9, 1, 0x7ffffff1, 65536)
			add(9, 1, 0x7ffffff1, 0xffffff)
			add(9, 1, 0x7ffffff1, 0xffffff)
		}

		for _, s := range msgs {
			if s.setChunk != 0 {
				pkt := NewSetChunkSize()
				pkt.ChunkSize = s.setChunk
				if err := w.WritePacket(pkt, 0); err != nil {
					t.Fatal(err)
				}
				continue
			}
			m := NewStreamMessage(int(s.sid))
			m.MessageType, m.Timestamp, m.Payload = s.typ, s.ts, s.payload
			if err := w.WriteMessage(m); err != nil {
				t.Fatal(err)
			}
		}
		for i, s := range msgs {
			m, err := r.ReadMessage()
			if err != nil {
				t.Fatalf("seg=%v #%v: %+v", seg, i, err)
			}
			if s.setChunk != 0 {
				if m.MessageType != MessageTypeSetChunkSize || m.streamID != 0 || m.Timestamp != 0 ||
					!bytes.Equal(m.Payload, []byte{byte(s.setChunk >> 24), byte(s.setChunk >> 16), byte(s.setChunk >> 8), byte(s.setChunk)}) {
					t.Fatalf("seg=%v #%v: bad set chunk size %v", seg, i, m)
				}
				continue
			}
			if m.MessageType != s.typ || m.streamID != s.sid || m.Timestamp != s.ts || !bytes.Equal(m.Payload, s.payload) {
				t.Fatalf("seg=%v #%v: got type=%v sid=%v ts=%v len=%v, want type=%v sid=%v ts=%v len=%v",
					seg, i, m.MessageType, m.streamID, m.Timestamp, len(m.Payload), s.typ, s.sid, s.ts, len(s.payload))
			}
		}
		if _, err := r.ReadMessage(); err == nil || tr.b.Len() != 0 {
			t.Fatalf("seg=%v: expect EOF, err=%v left=%v", seg, err, tr.b.Len())
		}
		_ = io.EOF
	}
}

// Shows the changed behaviour outside the statement: the second message uses a fmt=1, the third a fmt=2 header.
func TestKeep5C01N1Wire(t *testing.T) {
	b := &bytes.Buffer{}
	w := NewProtocol(b)
	for i, n := range []int{3, 2, 2} {
		m := NewStreamMessage(1)
		m.MessageType, m.Timestamp, m.Payload = MessageTypeVideo, uint64(0x1000000+i*40), make([]byte, n)
		if err := w.WriteMessage(m); err != nil {
			t.Fatal(err)
		}
	}
	want := []byte{
		0x05, 0xff, 0xff, 0xff, 0, 0, 3, 9, 1, 0, 0, 0, 1, 0, 0, 0, 0, 0, 0,
		0x45, 0, 0, 40, 0, 0, 2, 9, 0, 0,
		0x85, 0, 0, 40, 0, 0,
	}
	if !bytes.Equal(b.Bytes(), want) {
		t.Fatalf("wire %x", b.Bytes())
	}
}
