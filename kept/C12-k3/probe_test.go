package avc

import (
	"bytes"
	"testing"
)

func keep5C12N3Nalu(h byte, n int, seed byte) *NALU {
	v := NewNALU()
	v.NALRefIDC, v.NALUType = NALRefIDC(h>>5&3), NALUType(h&0x1f)
	if n > 1 {
		v.Data = make([]byte, n-1)
		for i := range v.Data {
			v.Data[i] = seed + byte(i*11)
		}
	}
	return v
}

func keep5C12N3Same(t *testing.T, a, b []*NALU) {
	if len(a) != len(b) {
		t.Fatalf("count %v != %v", len(a), len(b))
	}
	for i := range a {
		if *a[i].NALUHeader != *b[i].NALUHeader || !bytes.Equal(a[i].Data, b[i].Data) {
			t.Fatalf("nalu %v differs", i)
		}
	}
}

// Belongs to package directory avc/ (package avc).
func TestKeep5C12N3(t *testing.T) {
	sizes := []int{1, 255, 256, 65535, 3}
	for _, nsps := range []int{0, 1, 31} {
		for _, npps := range []int{0, 1, 255} {
			for lsm1 := byte(0); lsm1 < 4; lsm1++ {
				// Independent conformant writer.
				want := []byte{1, 100, 0x5a, 42, 0xfc | lsm1, 0xe0 | byte(nsps)}
				var sps, pps []*NALU
				for i := 0; i < nsps; i++ {
					p := keep5C12N3Nalu(0x67, sizes[i%len(sizes)], byte(i))
					sps = append(sps, p)
					want = append(want, byte(p.Size()>>8), byte(p.Size()), 0x67)
					want = append(want, p.Data...)
				}
				want = append(want, byte(npps))
				for i := 0; i < npps; i++ {
					p := keep5C12N3Nalu(byte(i)&0x7f, sizes[(i+2)%len(sizes)], byte(i))
					pps = append(pps, p)
					want = append(want, byte(p.Size()>>8), byte(p.Size()), byte(i)&0x7f)
					want = append(want, p.Data...)
				}

				r := NewAVCDecoderConfigurationRecord()
				if err := r.UnmarshalBinary(want); err != nil {
					t.Fatal(err)
				}
				if r.configurationVersion != 1 || r.AVCProfileIndication != 100 || r.profileCompatibility != 0x5a ||
					r.AVCLevelIndication != 42 || r.LengthSizeMinusOne != lsm1 {
					t.Fatalf("fields %+v", r)
				}
				keep5C12N3Same(t, r.SequenceParameterSetNALUnits, sps)
				keep5C12N3Same(t, r.PictureParameterSetNALUnits, pps)
				b, err := r.MarshalBinary()
				if err != nil || !bytes.Equal(b, want) {
					t.Fatalf("remarshal %v", err)
				}

				// value -> bytes -> value
				v := NewAVCDecoderConfigurationRecord()
				v.AVCProfileIndication, v.profileCompatibility, v.AVCLevelIndication, v.LengthSizeMinusOne = 100, 0x5a, 42, lsm1
				v.SequenceParameterSetNALUnits, v.PictureParameterSetNALUnits = sps, pps
				if b, err = v.MarshalBinary(); err != nil || !bytes.Equal(b, want) {
					t.Fatalf("marshal %v", err)
				}

				// Changed outside behaviour: a reused receiver is replaced, not appended to.
				if err := r.UnmarshalBinary(want); err != nil {
					t.Fatal(err)
				}
				keep5C12N3Same(t, r.SequenceParameterSetNALUnits, sps)
				keep5C12N3Same(t, r.PictureParameterSetNALUnits, pps)

				// Changed outside behaviour: a failed unmarshal leaves the receiver untouched.
				if len(want) > 7 {
					bad := append([]byte{1, 66, 0, 10, 0xfc}, want[5:len(want)-1]...)
					if err := r.UnmarshalBinary(bad); err == nil {
						t.Fatal("truncated should fail")
					}
					if r.AVCProfileIndication != 100 || r.AVCLevelIndication != 42 {
						t.Fatal("receiver modified by failed unmarshal")
					}
					keep5C12N3Same(t, r.SequenceParameterSetNALUnits, sps)
				}
			}
		}
	}

	for lsm1 := 0; lsm1 < 4; lsm1++ {
		var nalus []*NALU
		var want []byte
		for h := 0; h < 128; h++ {
			n := sizes[h%len(sizes)]
			if lsm1 == 0 && n > 255 {
				n = 255
			}
			p := keep5C12N3Nalu(byte(h), n, byte(h))
			nalus = append(nalus, p)
			for k := lsm1; k >= 0; k-- {
				want = append(want, byte(n>>uint(8*k)))
			}
			want = append(append(want, byte(h)), p.Data...)
		}
		s := NewAVCSample(uint8(lsm1))
		if err := s.UnmarshalBinary(want); err != nil {
			t.Fatal(err)
		}
		keep5C12N3Same(t, s.NALUs, nalus)
		b, err := s.MarshalBinary()
		if err != nil || !bytes.Equal(b, want) {
			t.Fatalf("sample remarshal %v", err)
		}
		s2 := NewAVCSample(uint8(lsm1))
		s2.NALUs = nalus
		if b, err = s2.MarshalBinary(); err != nil || !bytes.Equal(b, want) {
			t.Fatalf("sample marshal %v", err)
		}

		// Outside: reuse replaces; zero-length padding entries are skipped.
		padded := append(append([]byte{}, want...), make([]byte, lsm1+1)...)
		if err := s.UnmarshalBinary(padded); err != nil {
			t.Fatal(err)
		}
		keep5C12N3Same(t, s.NALUs, nalus)
	}
}
