package flv_test

import (
	"bytes"
	"errors"
	"io"
	"testing"

	"github.com/ossrs/go-oryx-lib/flv"
)

type keep5C08N1Tag struct {
	tt flv.TagType
	ts uint32
	b  []byte
}

var errKeep5C08N1 = errors.New("keep5 c08 n1 injected")

// A reader which fails at the k-th Read call, and gives at most step bytes per call.
type keep5C08N1Reader struct {
	r     io.Reader
	step  int
	calls int
	fail  int
	hit   bool
}

func (v *keep5C08N1Reader) Read(p []byte) (int, error) {
	if v.calls == v.fail {
		v.hit = true
		return 0, errKeep5C08N1
	}
	v.calls++
	if len(p) > v.step {
		p = p[:v.step]
	}
	return v.r.Read(p)
}

// A writer which accepts limit bytes then fails.
type keep5C08N1Writer struct {
	b     bytes.Buffer
	limit int
}

func (v *keep5C08N1Writer) Write(p []byte) (int, error) {
	if left := v.limit - v.b.Len(); len(p) > left {
		v.b.Write(p[:left])
		return left, errKeep5C08N1
	}
	return v.b.Write(p)
}

func keep5C08N1Tags() []keep5C08N1Tag {
	big := make([]byte, 70000)
	for i := range big {
		big[i] = byte(i * 7)
	}
	return []keep5C08N1Tag{
		{flv.TagTypeScriptData, 0, []byte{1, 2, 3}},
		{flv.TagTypeAudio, 0x01020304, []byte{}},
		{flv.TagTypeVideo, 40, big},
		{flv.TagTypeAudio, 41, bytes.Repeat([]byte{9}, 600)},
	}
}

// Demux all, return the tags completely read and the final error.
func keep5C08N1Demux(r io.Reader) (hdr bool, tags []keep5C08N1Tag, err error) {
	d, _ := flv.NewDemuxer(r)
	if _, _, _, err = d.ReadHeader(); err != nil {
		return
	}
	hdr = true
	for {
		var tt flv.TagType
		var size, ts uint32
		if tt, size, ts, err = d.ReadTagHeader(); err != nil {
			if tt != 0 || size != 0 || ts != 0 {
				panic("fabricated tag header")
			}
			return
		}
		var b []byte
		if b, err = d.ReadTag(size); err != nil {
			if b != nil {
				panic("incomplete tag returned")
			}
			return
		}
		tags = append(tags, keep5C08N1Tag{tt, ts, b})
	}
}

func TestKeep5C08N1(t *testing.T) {
	in := keep5C08N1Tags()

	var file bytes.Buffer
	m, _ := flv.NewMuxer(&file)
	if err := m.WriteHeader(true, true); err != nil {
		t.Fatal(err)
	}
	var ends []int
	for _, tag := range in {
		if err := m.WriteTag(tag.tt, tag.ts, tag.b); err != nil {
			t.Fatal(err)
		}
		ends = append(ends, file.Len())
	}
	full := file.Bytes()

	complete := func(n int) (c int) {
		for _, e := range ends {
			if e <= n {
				c++
			}
		}
		return
	}
	check := func(name string, n int, tags []keep5C08N1Tag) {
		if len(tags) != complete(n) {
			t.Fatalf("%v: %v tags, want %v", name, len(tags), complete(n))
		}
		for i, tag := range tags {
			if tag.tt != in[i].tt || tag.ts != in[i].ts || !bytes.Equal(tag.b, in[i].b) {
				t.Fatalf("%v: tag %v differs", name, i)
			}
		}
	}

	// Every cut offset (sparse inside the big tag to keep it fast).
	for cut := 0; cut <= len(full); cut++ {
		if cut > 2000 && cut < len(full)-2000 && cut%997 != 0 {
			continue
		}
		hdr, tags, err := keep5C08N1Demux(bytes.NewReader(full[:cut]))
		if err != io.EOF && err != io.ErrUnexpectedEOF {
			t.Fatalf("cut %v: err %v", cut, err)
		}
		if hdr != (cut >= 13) {
			t.Fatalf("cut %v: header %v", cut, hdr)
		}
		check("cut", cut, tags)
	}

	// An injected error at every read call.
	for _, step := range []int{1, 7, 1000, 1 << 20} {
		for k := 0; ; k++ {
			if step == 1 && k > 3000 {
				break
			}
			r := &keep5C08N1Reader{r: bytes.NewReader(full), step: step, fail: k}
			_, tags, err := keep5C08N1Demux(r)
			if !r.hit {
				// Never reached the failing call.
				if err != io.EOF {
					t.Fatalf("step %v k %v: err %v", step, k, err)
				}
				check("all", len(full), tags)
				break
			}
			if err != errKeep5C08N1 {
				t.Fatalf("step %v k %v: err %v", step, k, err)
			}
			if len(tags) > len(in) {
				t.Fatalf("too many tags")
			}
			n := 0
			if len(tags) > 0 {
				n = ends[len(tags)-1]
			}
			check("inject", n, tags)
		}
	}

	// The muxer over a transport which fails at every byte position (sparse in the big tag).
	for limit := 0; limit < len(full); limit++ {
		if limit > 2000 && limit < len(full)-2000 && limit%997 != 0 {
			continue
		}
		w := &keep5C08N1Writer{limit: limit}
		m, _ := flv.NewMuxer(w)
		err := m.WriteHeader(true, true)
		for i := 0; err == nil && i < len(in); i++ {
			err = m.WriteTag(in[i].tt, in[i].ts, in[i].b)
		}
		if err != errKeep5C08N1 {
			t.Fatalf("limit %v: err %v", limit, err)
		}
		if !bytes.Equal(w.b.Bytes(), full[:limit]) {
			t.Fatalf("limit %v: bytes differ", limit)
		}
	}
}
