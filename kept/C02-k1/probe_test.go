package rtmp

// Probe for change N=1 (package directory: rtmp/).
// A small conformant chunker (types 0/1/2/3, 1/2/3-byte basic headers, extended
// absolute timestamps, interleaving, Set Chunk Size) and a check that the reader
// returns exactly the chunked messages in completion order.

import (
	"bytes"
	"io"
	"math/rand"
	"testing"
	"testing/iotest"
)

type k5c02n1Msg struct {
	cid     uint32
	typ     byte
	sid     uint32
	ts      uint32
	payload []byte
}

type k5c02n1Cs struct {
	used            bool
	ts, delta, plen uint32
	typ             byte
	sid             uint32
	ext             bool
	extv            uint32
}

type k5c02n1Chunker struct {
	r    *rand.Rand
	out  bytes.Buffer
	size int
	cs   map[uint32]*k5c02n1Cs
}

func (c *k5c02n1Chunker) basic(fmtv byte, cid uint32) {
	form := 1
	if cid >= 64 {
		form = 2
		if cid >= 320 || c.r.Intn(2) == 0 {
			form = 3
		}
	}
	switch form {
	case 1:
		c.out.WriteByte(fmtv<<6 | byte(cid))
	case 2:
		c.out.Write([]byte{fmtv << 6, byte(cid - 64)})
	default:
		c.out.Write([]byte{fmtv<<6 | 1, byte((cid - 64) & 0xff), byte((cid - 64) >> 8)})
	}
}

func k5c02n1be24(v uint32) []byte { return []byte{byte(v >> 16), byte(v >> 8), byte(v)} }
func k5c02n1be32(v uint32) []byte {
	return []byte{byte(v >> 24), byte(v >> 16), byte(v >> 8), byte(v)}
}

// first writes the first chunk header of m and returns the chunk stream state.
func (c *k5c02n1Chunker) first(m *k5c02n1Msg) *k5c02n1Cs {
	s := c.cs[m.cid]
	if s == nil {
		s = &k5c02n1Cs{}
		c.cs[m.cid] = s
	}
	plen := uint32(len(m.payload))
	f := byte(0)
	if s.used && !s.ext && m.ts >= s.ts && m.ts-s.ts < 0xffffff && m.sid == s.sid {
		d := m.ts - s.ts
		switch {
		case d == s.delta && plen == s.plen && m.typ == s.typ && c.r.Intn(3) > 0:
			f = 3
		case plen == s.plen && m.typ == s.typ && c.r.Intn(3) > 0:
			f = 2
		case c.r.Intn(3) > 0:
			f = 1
		}
	}
	c.basic(f, m.cid)
	switch f {
	case 0:
		s.ext = m.ts >= 0xffffff
		if s.ext {
			c.out.Write(k5c02n1be24(0xffffff))
		} else {
			c.out.Write(k5c02n1be24(m.ts))
		}
		c.out.Write(k5c02n1be24(plen))
		c.out.WriteByte(m.typ)
		c.out.Write([]byte{byte(m.sid), byte(m.sid >> 8), byte(m.sid >> 16), byte(m.sid >> 24)})
		if s.ext {
			c.out.Write(k5c02n1be32(m.ts))
		}
		s.delta, s.extv = m.ts, m.ts
	case 1:
		s.delta = m.ts - s.ts
		c.out.Write(k5c02n1be24(s.delta))
		c.out.Write(k5c02n1be24(plen))
		c.out.WriteByte(m.typ)
	case 2:
		s.delta = m.ts - s.ts
		c.out.Write(k5c02n1be24(s.delta))
	}
	s.used, s.ts, s.plen, s.typ, s.sid = true, m.ts, plen, m.typ, m.sid
	return s
}

// chunk writes the messages, interleaving chunk streams; returns completion order.
func (c *k5c02n1Chunker) chunk(msgs []*k5c02n1Msg) (done []*k5c02n1Msg) {
	type prog struct {
		m   *k5c02n1Msg
		off int
		s   *k5c02n1Cs
	}
	active := map[uint32]*prog{}
	pending := msgs
	for len(pending) > 0 || len(active) > 0 {
		// Either start the next pending message (if its chunk stream is idle) or continue one.
		var p *prog
		if len(pending) > 0 && active[pending[0].cid] == nil && (len(active) == 0 || c.r.Intn(2) == 0) {
			m := pending[0]
			pending = pending[1:]
			p = &prog{m: m, s: c.first(m)}
			active[m.cid] = p
		} else {
			for _, q := range active {
				p = q
				break
			}
			c.basic(3, p.m.cid)
			if p.s.ext {
				c.out.Write(k5c02n1be32(p.s.extv))
			}
		}
		n := len(p.m.payload) - p.off
		if n > c.size {
			n = c.size
		}
		c.out.Write(p.m.payload[p.off : p.off+n])
		p.off += n
		if p.off == len(p.m.payload) {
			delete(active, p.m.cid)
			done = append(done, p.m)
			if p.m.typ == 1 {
				c.size = int(uint32(p.m.payload[0])<<24 | uint32(p.m.payload[1])<<16 | uint32(p.m.payload[2])<<8 | uint32(p.m.payload[3]))
			}
		}
	}
	return
}

func k5c02n1Trace(r *rand.Rand) (stream []byte, want []*k5c02n1Msg) {
	c := &k5c02n1Chunker{r: r, size: 128, cs: map[uint32]*k5c02n1Cs{}}
	cids := []uint32{2, 3, 63, 64, 200, 319, 320, 4000, 65599}
	last := map[uint32]uint32{}
	var msgs []*k5c02n1Msg
	for i, n := 0, 1+r.Intn(30); i < n; i++ {
		cid := cids[r.Intn(len(cids))]
		m := &k5c02n1Msg{cid: cid, typ: []byte{8, 9, 18, 20, 3}[r.Intn(5)], sid: uint32(r.Intn(3))}
		switch r.Intn(6) {
		case 0:
			m.ts = uint32(r.Intn(0x7fffffff)) // any 31-bit absolute time, maybe backwards
		case 1:
			m.ts = last[cid]
		default:
			m.ts = (last[cid] + uint32(r.Intn(5000))) & 0x7fffffff
		}
		last[cid] = m.ts
		m.payload = make([]byte, []int{0, 1, 5, 127, 128, 129, 300, 5000, 70000}[r.Intn(9)])
		r.Read(m.payload)
		if r.Intn(8) == 0 {
			m.typ, m.cid = 1, 2
			m.ts, last[2] = last[2], last[2]
			m.payload = k5c02n1be32([]uint32{1, 2, 127, 128, 4096, 65536, 0x7fffffff}[r.Intn(7)])
		}
		msgs = append(msgs, m)
	}
	want = c.chunk(msgs)
	return c.out.Bytes(), want
}

func k5c02n1Check(t *testing.T, seed int64, rd io.Reader, want []*k5c02n1Msg) {
	p := NewProtocol(struct {
		io.Reader
		io.Writer
	}{rd, io.Discard})
	for i, w := range want {
		m, err := p.ReadMessage()
		if err != nil {
			t.Fatalf("seed %v msg %v: %+v", seed, i, err)
		}
		if byte(m.MessageType) != w.typ || m.Timestamp != uint64(w.ts) || m.streamID != w.sid ||
			uint32(m.betterCid) != w.cid || !bytes.Equal(m.Payload, w.payload) {
			t.Fatalf("seed %v msg %v: got type=%v ts=%v sid=%v cid=%v len=%v, want type=%v ts=%v sid=%v cid=%v len=%v",
				seed, i, m.MessageType, m.Timestamp, m.streamID, m.betterCid, len(m.Payload), w.typ, w.ts, w.sid, w.cid, len(w.payload))
		}
	}
	if _, err := p.ReadMessage(); err == nil {
		t.Fatalf("seed %v: expected an error at end of stream", seed)
	}
}

func k5c02n1Rejected(t *testing.T, name string, stream []byte, okBefore int) {
	p := NewProtocol(struct {
		io.Reader
		io.Writer
	}{bytes.NewReader(stream), io.Discard})
	for i := 0; i < okBefore; i++ {
		if _, err := p.ReadMessage(); err != nil {
			t.Fatalf("%v: message %v: %+v", name, i, err)
		}
	}
	if m, err := p.ReadMessage(); err == nil {
		t.Fatalf("%v: accepted, got %v", name, m)
	}
}

func TestKeep5C02N1(t *testing.T) {
	for seed := int64(0); seed < 400; seed++ {
		stream, want := k5c02n1Trace(rand.New(rand.NewSource(seed)))
		k5c02n1Check(t, seed, bytes.NewReader(stream), want)
		if seed%20 == 0 {
			k5c02n1Check(t, seed, iotest.OneByteReader(bytes.NewReader(stream)), want)
			k5c02n1Check(t, seed, iotest.DataErrReader(bytes.NewReader(stream)), want)
		}
	}

	t0 := func(cid byte, plen byte) []byte { return []byte{cid, 0, 0, 10, 0, 0, plen, 8, 1, 0, 0, 0} }
	pay := bytes.Repeat([]byte{7}, 200)
	// type 0 inside an unfinished message.
	s := append(append(t0(5, 200), pay[:128]...), t0(5, 200)...)
	k5c02n1Rejected(t, "type0 mid message", append(s, pay...), 0)
	// message length changed mid-message (type 1 continuation with another length).
	s = append(append(t0(5, 200), pay[:128]...), 0x45, 0, 0, 0, 0, 0, 100, 8)
	k5c02n1Rejected(t, "length changed", append(s, pay...), 0)
	// fresh chunk streams that do not start with type 0.
	k5c02n1Rejected(t, "fresh fmt1 cid5", append([]byte{0x45, 0, 0, 0, 0, 0, 2, 8}, 1, 2), 0)
	k5c02n1Rejected(t, "fresh fmt2 cid2", []byte{0x82, 0, 0, 0, 1, 2}, 0)
	k5c02n1Rejected(t, "fresh fmt3 cid9", []byte{0xc9, 1, 2, 3}, 0)
	// the documented librtmp ping on a fresh chunk stream 2 is accepted.
	p := NewProtocol(struct {
		io.Reader
		io.Writer
	}{bytes.NewReader([]byte{0x42, 0, 0, 0, 0, 0, 6, 4, 0, 6, 0, 0, 0x0d, 0x0f}), io.Discard})
	if m, err := p.ReadMessage(); err != nil || m.MessageType != MessageTypeUserControl || len(m.Payload) != 6 {
		t.Fatalf("librtmp ping: %v %+v", m, err)
	}
}
