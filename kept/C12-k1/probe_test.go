package avc

import (
	"bytes"
	"testing"
)

// Belongs to package directory avc/ (package avc).
func TestKeep5C12N1(t *testing.T) {
	// All 128 canonical header bytes (forbidden bit clear) round trip, with payloads of boundary sizes.
	for _, n := range []int{1, 2, 255, 256, 65535} {
		for h := 0; h < 256; h++ {
			raw := make([]byte, n)
			raw[0] = byte(h)
			for i := 1; i < n; i++ {
				raw[i] = byte(i * 7)
			}
			keep := append([]byte(nil), raw...)

			nalu := NewNALU()
			if err := nalu.UnmarshalBinary(raw); err != nil {
				t.Fatalf("h=%v n=%v err %v", h, n, err)
			}
			if nalu.NALRefIDC != NALRefIDC((h>>5)&3) || nalu.NALUType != NALUType(h&0x1f) {
				t.Fatalf("h=%v header %v", h, nalu.NALUHeader)
			}
			if !bytes.Equal(nalu.Data, keep[1:]) {
				t.Fatalf("h=%v n=%v payload", h, n)
			}
			b, err := nalu.MarshalBinary()
			if err != nil {
				t.Fatal(err)
			}
			want := append([]byte(nil), keep...)
			want[0] &= 0x7f
			if !bytes.Equal(b, want) {
				t.Fatalf("h=%v n=%v remarshal", h, n)
			}

			// value -> bytes -> value
			n2 := NewNALU()
			if err := n2.UnmarshalBinary(b); err != nil {
				t.Fatal(err)
			}
			if *n2.NALUHeader != *nalu.NALUHeader || !bytes.Equal(n2.Data, nalu.Data) {
				t.Fatalf("h=%v n=%v value round trip", h, n)
			}

			// Changed outside behaviour: no aliasing of the input.
			if n > 1 {
				raw[1] ^= 0xff
				if !bytes.Equal(nalu.Data, keep[1:]) {
					t.Fatalf("payload aliases the input")
				}
			}
		}
	}

	// Record and sample built on top still round trip.
	r := NewAVCDecoderConfigurationRecord()
	r.AVCProfileIndication, r.AVCLevelIndication, r.LengthSizeMinusOne = 100, 31, 3
	sps := NewNALU()
	sps.NALRefIDC, sps.NALUType, sps.Data = 3, NALUTypeSPS, []byte{0x64, 0, 0x1f}
	pps := NewNALU()
	pps.NALRefIDC, pps.NALUType = 3, NALUTypePPS
	r.SequenceParameterSetNALUnits = []*NALU{sps}
	r.PictureParameterSetNALUnits = []*NALU{pps}
	b, err := r.MarshalBinary()
	if err != nil {
		t.Fatal(err)
	}
	want := []byte{1, 100, 0, 31, 0xff, 0xe1, 0, 4, 0x67, 0x64, 0, 0x1f, 1, 0, 1, 0x68}
	if !bytes.Equal(b, want) {
		t.Fatalf("record bytes %x", b)
	}
	r2 := NewAVCDecoderConfigurationRecord()
	if err := r2.UnmarshalBinary(b); err != nil {
		t.Fatal(err)
	}
	b2, _ := r2.MarshalBinary()
	if !bytes.Equal(b2, want) {
		t.Fatalf("record remarshal %x", b2)
	}

	// Zero value NALU is usable now.
	var z NALU
	if err := z.UnmarshalBinary([]byte{0x65, 1}); err != nil || z.NALUType != NALUTypeIDR {
		t.Fatalf("zero value: %v", err)
	}
	if s := NALUType(21).String(); s != "Reserved/21" {
		t.Fatalf("string %v", s)
	}
}
