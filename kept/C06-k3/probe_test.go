package amf0_test

import (
	"bytes"
	"testing"

	"github.com/ossrs/go-oryx-lib/amf0"
)

func TestKeep5C06N3(t *testing.T) {
	// FFmpeg style onMetaData ecma array, nested object, written by hand from the spec.
	num := func(f byte) []byte { return []byte{0, 0x40, f, 0, 0, 0, 0, 0, 0} }
	p := []byte{8, 0, 0, 0, 3}
	p = append(p, 0, 5, 'w', 'i', 'd', 't', 'h')
	p = append(p, num(0x94)...)
	p = append(p, 0, 4, 'i', 'n', 'f', 'o', 3, 0, 3, 'e', 'n', 'c', 2, 0, 4, 'L', 'a', 'v', 'f', 0, 2, 'o', 'k', 1, 1, 0, 0, 9)
	p = append(p, 0, 1, 'z', 5)
	p = append(p, 0, 0, 9)

	a, err := amf0.Discovery(p)
	if err != nil {
		t.Fatalf("discovery %+v", err)
	}
	if err = a.UnmarshalBinary(p); err != nil {
		t.Fatalf("unmarshal %+v", err)
	}
	e := a.(*amf0.EcmaArray)
	if n := e.Get("width").(*amf0.Number); *n != 1280 {
		t.Fatalf("width %v", *n)
	}
	info := e.Get("info").(*amf0.Object)
	if s := info.Get("enc").(*amf0.String); *s != "Lavf" {
		t.Fatalf("enc %v", *s)
	}
	if b := info.Get("ok").(*amf0.Boolean); !bool(*b) {
		t.Fatalf("ok %v", *b)
	}
	if e.Get("z") == nil || e.Size() != len(p) {
		t.Fatalf("z=%v size=%v/%v", e.Get("z"), e.Size(), len(p))
	}
	if b, err := e.MarshalBinary(); err != nil || !bytes.Equal(b, p) {
		t.Fatalf("re-marshal %v %v", b, err)
	}

	// Changed outside behaviour: decoding into a used object replaces its content.
	o := amf0.NewObject()
	o.Set("old", amf0.NewNumber(1))
	ob := []byte{3, 0, 1, 'n', 5, 0, 0, 9}
	if err = o.UnmarshalBinary(ob); err != nil {
		t.Fatalf("unmarshal %+v", err)
	}
	if o.Get("old") != nil || o.Get("n") == nil || o.Size() != len(ob) {
		t.Fatalf("not replaced: old=%v n=%v size=%v", o.Get("old"), o.Get("n"), o.Size())
	}
	// And a failed decode leaves the object as it was.
	if err = o.UnmarshalBinary([]byte{3, 0, 1, 'x', 5, 0, 1, 'y', 11, 0, 0, 9}); err == nil {
		t.Fatalf("should fail")
	}
	if o.Get("x") != nil || o.Get("n") == nil {
		t.Fatalf("changed by failed decode: x=%v n=%v", o.Get("x"), o.Get("n"))
	}
}
