package rtmp

import (
	"io"
	"net"
	"testing"
	"time"

	"github.com/ossrs/go-oryx-lib/amf0"
)

// A transport which returns from Write late, so the peer answers before the writer's call returned.
type keep6C04N2SlowWriter struct {
	io.ReadWriter
}

func (v *keep6C04N2SlowWriter) Write(p []byte) (n int, err error) {
	n, err = v.ReadWriter.Write(p)
	time.Sleep(200 * time.Microsecond)
	return
}

func TestKeep6C04N2(t *testing.T) {
	const n = 200
	cc, sc := net.Pipe()
	defer cc.Close()
	defer sc.Close()

	// The peer answers each request at once, with stream id = tid * 10.
	go func() {
		server := NewProtocol(sc)
		for {
			m, err := server.ReadMessage()
			if err != nil {
				return
			}
			pkt, err := server.DecodeMessage(m)
			if err != nil {
				return
			}
			switch pkt := pkt.(type) {
			case *ConnectAppPacket:
				res := NewConnectAppResPacket(pkt.TransactionID)
				if err = server.WritePacket(res, 0); err != nil {
					return
				}
			case *CallPacket:
				if pkt.CommandName != commandCreateStream {
					// Response for an untracked call, e.g. releaseStream.
					res := NewCallPacket()
					res.CommandName, res.TransactionID = commandResult, pkt.TransactionID
					res.CommandObject, res.Args = amf0.NewNull(), amf0.NewNull()
					if err = server.WritePacket(res, 0); err != nil {
						return
					}
					continue
				}
				res := NewCreateStreamResPacket(pkt.TransactionID)
				res.StreamID = pkt.TransactionID * 10
				if err = server.WritePacket(res, 0); err != nil {
					return
				}
			}
		}
	}()

	client := NewProtocol(&keep6C04N2SlowWriter{cc})

	werr := make(chan error, 1)
	go func() {
		if err := client.WritePacket(NewConnectAppPacket(), 0); err != nil {
			werr <- err
			return
		}
		for i := 0; i < n; i++ {
			call := NewCallPacket()
			call.CommandName, call.TransactionID = "releaseStream", amf0.Number(100000+i)
			call.CommandObject, call.Args = amf0.NewNull(), amf0.NewString("livestream")
			if err := client.WritePacket(call, 0); err != nil {
				werr <- err
				return
			}
			pkt := NewCreateStreamPacket()
			pkt.TransactionID = amf0.Number(2 + i)
			if err := client.WritePacket(pkt, 0); err != nil {
				werr <- err
				return
			}
		}
		werr <- nil
	}()

	var cres *ConnectAppResPacket
	if _, err := client.ExpectPacket(&cres); err != nil {
		t.Fatalf("connect res err %+v", err)
	}
	if cres.TransactionID != 1 {
		t.Fatalf("connect tid %v", cres.TransactionID)
	}

	seen := map[amf0.Number]bool{}
	for i := 0; i < n; i++ {
		m, err := client.ReadMessage()
		if err != nil {
			t.Fatalf("read call res %v err %+v", i, err)
		}
		if pkt, err := client.DecodeMessage(m); err != nil {
			t.Fatalf("decode call res %v err %+v", i, err)
		} else if call, ok := pkt.(*CallPacket); !ok || call.CommandName != commandResult || call.TransactionID != amf0.Number(100000+i) {
			t.Fatalf("call res %v decoded as %T %v", i, pkt, pkt)
		}

		if m, err = client.ReadMessage(); err != nil {
			t.Fatalf("read %v err %+v", i, err)
		}
		pkt, err := client.DecodeMessage(m)
		if err != nil {
			t.Fatalf("decode %v err %+v", i, err)
		}
		res, ok := pkt.(*CreateStreamResPacket)
		if !ok {
			t.Fatalf("response %v decoded as %T", i, pkt)
		}
		if res.TransactionID != amf0.Number(2+i) || res.StreamID != res.TransactionID*10 {
			t.Fatalf("response %v is tid=%v sid=%v", i, res.TransactionID, res.StreamID)
		}
		if seen[res.TransactionID] {
			t.Fatalf("tid %v matched twice", res.TransactionID)
		}
		seen[res.TransactionID] = true
	}
	if err := <-werr; err != nil {
		t.Fatalf("writer err %+v", err)
	}
	if len(seen) != n {
		t.Fatalf("lost responses, got %v", len(seen))
	}

	// A duplicated response is never matched to the consumed request again.
	dup := NewCreateStreamResPacket(2)
	dup.StreamID = 20
	m := NewMessage()
	m.MessageType = dup.Type()
	m.Payload, _ = dup.MarshalBinary()
	if pkt, err := client.DecodeMessage(m); err == nil {
		if _, ok := pkt.(*CreateStreamResPacket); ok {
			t.Fatalf("duplicated response matched twice")
		}
	}
}
