package rtmp_test

import (
	"bytes"
	"reflect"
	"testing"

	"github.com/ossrs/go-oryx-lib/amf0"
	"github.com/ossrs/go-oryx-lib/rtmp"
)

// Belongs to the rtmp/ package directory.
func TestKeep6C03N1(t *testing.T) {
	wire := &bytes.Buffer{}
	cli, srv := rtmp.NewProtocol(wire), rtmp.NewProtocol(wire)

	// Round trip of marshal/size/unmarshal.
	pub := rtmp.NewPublishPacket()
	pub.TransactionID = 7
	pub.StreamName = "livestream"
	b, err := pub.MarshalBinary()
	if err != nil || len(b) != pub.Size() {
		t.Fatalf("marshal %v %v %v", err, len(b), pub.Size())
	}
	pub2 := rtmp.NewPublishPacket()
	if err = pub2.UnmarshalBinary(b); err != nil || !reflect.DeepEqual(pub, pub2) {
		t.Fatalf("unmarshal %v %+v", err, pub2)
	}

	// Control and command traffic is skipped, the first packet of the type is returned.
	uc := rtmp.NewUserControl()
	uc.EventType, uc.EventData, uc.ExtraData = rtmp.EventTypeSetBufferLength, 1, 2
	was := rtmp.NewWindowAcknowledgementSize()
	was.AckSize = 0xfffffffe
	cs1 := rtmp.NewCreateStreamPacket()
	cs1.TransactionID = 3
	cs2 := rtmp.NewCreateStreamPacket()
	cs2.TransactionID = 4
	for _, p := range []rtmp.Packet{uc, was, pub, cs1, cs2} {
		if err = cli.WritePacket(p, 0); err != nil {
			t.Fatal(err)
		}
	}
	var got *rtmp.CallPacket // createStream arrives as a generic call
	if _, err = srv.ExpectPacket(&got); err != nil || got.TransactionID != 3 || got.CommandName != "createStream" {
		t.Fatalf("expect %v %+v", err, got)
	}

	// The response is matched with the request, exactly once.
	wire.Reset()
	res := rtmp.NewCreateStreamResPacket(3)
	res.StreamID = 9
	for i := 0; i < 2; i++ {
		if err = srv.WritePacket(res, 0); err != nil {
			t.Fatal(err)
		}
	}
	var gres *rtmp.CreateStreamResPacket
	if _, err = cli.ExpectPacket(&gres); err != nil || gres.StreamID != 9 || gres.TransactionID != 3 {
		t.Fatalf("expect res %v %+v", err, gres)
	}
	if _, err = cli.ExpectPacket(&gres); err == nil {
		t.Fatal("second response for the same tid must be an error")
	}

	// A response without request is still an error in a typed wait, never skipped.
	wire.Reset()
	cli2, srv2 := rtmp.NewProtocol(wire), rtmp.NewProtocol(wire)
	if err = srv2.WritePacket(rtmp.NewConnectAppResPacket(amf0.Number(1)), 0); err != nil {
		t.Fatal(err)
	}
	if err = srv2.WritePacket(uc, 0); err != nil {
		t.Fatal(err)
	}
	var guc *rtmp.UserControl
	if _, err = cli2.ExpectPacket(&guc); err == nil {
		t.Fatal("response without request must be an error")
	}

	// New: media messages before the packet are ignored.
	wire.Reset()
	cli3, srv3 := rtmp.NewProtocol(wire), rtmp.NewProtocol(wire)
	video := rtmp.NewStreamMessage(1)
	video.MessageType = rtmp.MessageTypeVideo
	video.Payload = []byte{0x17, 0x01, 0, 0, 0}
	if err = srv3.WriteMessage(video); err != nil {
		t.Fatal(err)
	}
	if err = srv3.WritePacket(uc, 0); err != nil {
		t.Fatal(err)
	}
	if _, err = cli3.ExpectPacket(&guc); err != nil || !reflect.DeepEqual(guc, uc) {
		t.Fatalf("expect uc %v %+v", err, guc)
	}
}
