package amf0

// Probe for keep6 C05 change 1 (UnmarshalBinary resets the receiver).
// Belongs to package directory amf0/ (internal test package "amf0").

import (
	"bytes"
	"math"
	"strings"
	"testing"
)

func k6c05n1Equal(a, b Amf0) bool {
	if a.amf0Marker() != b.amf0Marker() {
		return false
	}
	props := func(x Amf0) []*property {
		switch v := x.(type) {
		case *Object:
			return v.properties
		case *EcmaArray:
			return v.properties
		case *StrictArray:
			return v.properties
		}
		return nil
	}
	switch x := a.(type) {
	case *Number:
		return math.Float64bits(float64(*x)) == math.Float64bits(float64(*b.(*Number)))
	case *String:
		return *x == *b.(*String)
	case *Boolean:
		return *x == *b.(*Boolean)
	case *Object, *EcmaArray, *StrictArray:
		pa, pb := props(a), props(b)
		if len(pa) != len(pb) {
			return false
		}
		for i := range pa {
			if pa[i].key != pb[i].key || !k6c05n1Equal(pa[i].value, pb[i].value) {
				return false
			}
		}
	}
	return true
}

func k6c05n1Tree() Amf0 {
	inner := NewEcmaArray()
	inner.Set("z", NewNumber(math.Float64frombits(0x7ff8000000000123)))
	inner.Set("a", NewNumber(math.Copysign(0, -1)))
	inner.Set("", NewNumber(math.Inf(-1)))
	sa := NewStrictArray()
	sa.Set("0", NewNull()).Set("1", NewUndefined()).Set("2", NewBoolean(true))
	o := NewObject()
	o.Set("s", NewString(strings.Repeat("x", 65535)))
	o.Set("e", inner)
	o.Set("arr", sa)
	o.Set("empty", NewObject())
	o.Set("b", NewBoolean(false))
	return o
}

func TestKeep6C05N1(t *testing.T) {
	tree := k6c05n1Tree()
	b, err := tree.MarshalBinary()
	if err != nil || len(b) != tree.Size() {
		t.Fatalf("marshal err=%v len=%v size=%v", err, len(b), tree.Size())
	}
	back, err := Discovery(b)
	if err != nil {
		t.Fatal(err)
	}
	if err = back.UnmarshalBinary(b); err != nil {
		t.Fatal(err)
	}
	if !k6c05n1Equal(tree, back) || back.Size() != len(b) {
		t.Fatalf("tree differs or size %v != %v", back.Size(), len(b))
	}
	if b2, err := back.MarshalBinary(); err != nil || !bytes.Equal(b, b2) {
		t.Fatalf("re-marshal differs err=%v", err)
	}

	// Decodable byte strings: repeated keys, empty key, trailing bytes.
	wire := []byte{3,
		0, 1, 'k', 5,
		0, 1, 'k', 1, 7,
		0, 0, 2, 0, 1, 'v',
		0, 1, 'a', 10, 0, 0, 0, 1, 0, 1, 'i', 6,
		0, 0, 9,
		0xde, 0xad}
	consumed := len(wire) - 2
	for _, reuse := range []bool{false, true} {
		o := NewObject()
		if reuse {
			// new with this change: left-over properties do not leak into the result.
			o.Set("old", NewNumber(1)).Set("k", NewNull())
		}
		if err := o.UnmarshalBinary(wire); err != nil {
			t.Fatal(err)
		}
		if o.Size() != consumed {
			t.Fatalf("reuse=%v size %v != consumed %v", reuse, o.Size(), consumed)
		}
		if reuse && o.Get("old") != nil {
			t.Fatalf("old property survived")
		}
	}

	// Strict array decoded twice into the same value.
	saw := []byte{10, 0, 0, 0, 2, 0, 1, 'x', 5, 0, 1, 'y', 6, 0xff}
	sa := NewStrictArray()
	for i := 0; i < 2; i++ {
		if err := sa.UnmarshalBinary(saw); err != nil {
			t.Fatal(err)
		}
		if sa.Size() != len(saw)-1 {
			t.Fatalf("round %v size %v != %v", i, sa.Size(), len(saw)-1)
		}
	}
}
