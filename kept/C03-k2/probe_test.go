package rtmp

import (
	"bytes"
	"reflect"
	"strings"
	"testing"

	"github.com/ossrs/go-oryx-lib/amf0"
)

// Belongs to package directory rtmp/ (in-package test).
func TestKeep5C03N2(t *testing.T) {
	wire := &bytes.Buffer{}
	a, b := NewProtocol(wire), NewProtocol(wire)

	big := NewConnectAppPacket()
	big.CommandObject.Set("tcUrl", amf0.NewString(strings.Repeat("y", 70000)[:65535]))
	big.CommandObject.Set("arr", amf0.NewStrictArray())
	cs := NewCreateStreamPacket()
	cs.TransactionID = 1e9
	pub := NewPublishPacket()
	pub.StreamName = "livestream"
	scs := &SetChunkSize{ChunkSize: 60000}
	was := &WindowAcknowledgementSize{AckSize: 0xffffffff}
	spb := &SetPeerBandwidth{Bandwidth: 1, LimitType: LimitTypeSoft}
	uc1 := &UserControl{EventType: EventTypeFmsEvent0, EventData: 255}
	uc4 := &UserControl{EventType: 0xffff, EventData: -1}
	uc8 := &UserControl{EventType: EventTypeSetBufferLength, EventData: 7, ExtraData: 8}

	pkts := []Packet{big, was, spb, uc1, scs, big, cs, pub, NewCloseStreamPacket(), uc4, uc8}
	wants := []interface{}{big, was, spb, uc1, scs, big, &CallPacket{}, pub, &CallPacket{}, uc4, uc8}
	for i, p := range pkts {
		payload, err := p.MarshalBinary()
		if err != nil || len(payload) != p.Size() {
			t.Fatalf("#%v marshal err=%v", i, err)
		}
		if err = a.WritePacket(p, 1); err != nil {
			t.Fatalf("#%v write %+v", i, err)
		}
		m, err := b.ReadMessage()
		if err != nil || !bytes.Equal(m.Payload, payload) || m.MessageType != p.Type() {
			t.Fatalf("#%v read %+v", i, err)
		}
		pkt, err := b.DecodeMessage(m)
		if err != nil || reflect.TypeOf(pkt) != reflect.TypeOf(wants[i]) {
			t.Fatalf("#%v decode %T %+v", i, pkt, err)
		}
		if again, _ := pkt.MarshalBinary(); !bytes.Equal(again, payload) {
			t.Fatalf("#%v re-marshal differs", i)
		}
	}

	// Typed waits skip control and command traffic; responses match by tid exactly once.
	res := NewCreateStreamResPacket(1e9)
	res.StreamID = 3
	for _, p := range []Packet{uc4, NewCloseStreamPacket(), was, res, spb, res} {
		if err := b.WritePacket(p, 0); err != nil {
			t.Fatalf("write %+v", err)
		}
	}
	var got *CreateStreamResPacket
	if _, err := a.ExpectPacket(&got); err != nil || got.StreamID != 3 {
		t.Fatalf("expect res %+v", err)
	}
	if m, err := a.ExpectMessage(MessageTypeAMF0Command); err != nil {
		t.Fatalf("expect message %+v", err)
	} else if _, err = a.DecodeMessage(m); err == nil {
		t.Fatal("second response without request must be an error")
	}

	// Outside the statement: media messages no longer abort a typed packet wait.
	audio := NewStreamMessage(1)
	audio.MessageType, audio.Payload = MessageTypeAudio, []byte{0xaf, 1, 2}
	if err := b.WriteMessage(audio); err != nil {
		t.Fatalf("write audio %+v", err)
	}
	if err := b.WritePacket(uc8, 0); err != nil {
		t.Fatalf("write %+v", err)
	}
	var uc *UserControl
	if _, err := a.ExpectPacket(&uc); err != nil || *uc != *uc8 {
		t.Fatalf("expect user control after audio %+v", err)
	}

	// Outside the statement: a truncated user control message is delivered by ReadMessage,
	// and only fails when it is decoded.
	bad := NewStreamMessage(0)
	bad.MessageType, bad.Payload = MessageTypeUserControl, []byte{0, 3}
	if err := b.WriteMessage(bad); err != nil {
		t.Fatalf("write bad %+v", err)
	}
	if m, err := a.ReadMessage(); err != nil {
		t.Fatalf("read bad %+v", err)
	} else if _, err = a.DecodeMessage(m); err == nil {
		t.Fatal("bad user control must not decode")
	}
}
