package rtmp_test

// Probe for change 3 of C04. Belongs to package directory rtmp/ (external test package rtmp_test).
// Run with: go test -race -count=1 -vet=off -run TestKeep5C04N3 ./rtmp/

import (
	"bytes"
	"fmt"
	"math/rand"
	"reflect"
	"io"
	"net"
	"sync"
	"sync/atomic"
	"testing"
	"time"

	"github.com/ossrs/go-oryx-lib/amf0"
	"github.com/ossrs/go-oryx-lib/rtmp"
)

type keep5c04n3Conn struct {
	io.ReadWriter
	writes, wbytes, maxRead int64
}

func (v *keep5c04n3Conn) Write(p []byte) (int, error) {
	atomic.AddInt64(&v.writes, 1)
	atomic.AddInt64(&v.wbytes, int64(len(p)))
	return v.ReadWriter.Write(p)
}

func (v *keep5c04n3Conn) Read(p []byte) (int, error) {
	if n := int64(len(p)); n > atomic.LoadInt64(&v.maxRead) {
		atomic.StoreInt64(&v.maxRead, n)
	}
	return v.ReadWriter.Read(p)
}

func TestKeep5C04N3(t *testing.T) {
	const nn = 200
	cc, sc := net.Pipe()
	defer cc.Close()
	defer sc.Close()
	cc.SetDeadline(time.Now().Add(60 * time.Second))
	sc.SetDeadline(time.Now().Add(60 * time.Second))

	conn := &keep5c04n3Conn{ReadWriter: cc}
	client, server := rtmp.NewProtocol(conn), rtmp.NewProtocol(sc)

	errs := make(chan error, 8)
	var wg sync.WaitGroup

	// The peer: answers each request at once, that is while the client's writer may still be in WritePacket.
	wg.Add(1)
	go func() {
		defer wg.Done()
		for i := 0; i < nn; i++ {
			m, err := server.ReadMessage()
			if err != nil {
				errs <- fmt.Errorf("server read %v: %+v", i, err)
				return
			}
			pkt, err := server.DecodeMessage(m)
			if err != nil {
				errs <- fmt.Errorf("server decode %v: %+v", i, err)
				return
			}
			switch pkt := pkt.(type) {
			case *rtmp.ConnectAppPacket:
				err = server.WritePacket(rtmp.NewConnectAppResPacket(pkt.TransactionID), 0)
			case *rtmp.CallPacket:
				res := rtmp.NewCreateStreamResPacket(pkt.TransactionID)
				res.StreamID = pkt.TransactionID * 10
				err = server.WritePacket(res, 0)
			default:
				err = fmt.Errorf("unexpected request %T", pkt)
			}
			if err != nil {
				errs <- fmt.Errorf("server write %v: %+v", i, err)
				return
			}
		}
	}()

	// The writer: one connect with a long tcUrl (more than one chunk), then createStream with tid 2..nn.
	wg.Add(1)
	go func() {
		defer wg.Done()
		connect := rtmp.NewConnectAppPacket()
		connect.CommandObject.Set("tcUrl", amf0.NewString(fmt.Sprintf("rtmp://localhost/%0300d", 1)))
		if err := client.WritePacket(connect, 0); err != nil {
			errs <- fmt.Errorf("client connect: %+v", err)
			return
		}
		for tid := 2; tid <= nn; tid++ {
			cs := rtmp.NewCreateStreamPacket()
			cs.TransactionID = amf0.Number(tid)
			if err := client.WritePacket(cs, 0); err != nil {
				errs <- fmt.Errorf("client createStream %v: %+v", tid, err)
				return
			}
		}
	}()

	// The reader: every response is matched once and decoded as the response type of its request.
	wg.Add(1)
	go func() {
		defer wg.Done()
		seen := map[amf0.Number]bool{}
		for i := 0; i < nn; i++ {
			m, err := client.ReadMessage()
			if err != nil {
				errs <- fmt.Errorf("client read %v: %+v", i, err)
				return
			}
			pkt, err := client.DecodeMessage(m)
			if err != nil {
				errs <- fmt.Errorf("client decode %v: %+v", i, err)
				return
			}
			var tid amf0.Number
			switch pkt := pkt.(type) {
			case *rtmp.ConnectAppResPacket:
				if tid = pkt.TransactionID; tid != 1 {
					errs <- fmt.Errorf("connect res for tid=%v", tid)
				}
			case *rtmp.CreateStreamResPacket:
				if tid = pkt.TransactionID; tid < 2 || pkt.StreamID != tid*10 {
					errs <- fmt.Errorf("createStream res for tid=%v sid=%v", tid, pkt.StreamID)
				}
			default:
				errs <- fmt.Errorf("unexpected response %T", pkt)
			}
			if seen[tid] {
				errs <- fmt.Errorf("tid=%v matched twice", tid)
			}
			seen[tid] = true

			// The same response can not be matched again.
			if _, err = client.DecodeMessage(m); err == nil {
				errs <- fmt.Errorf("tid=%v matched again", tid)
			}
		}
		if len(seen) != nn {
			errs <- fmt.Errorf("matched %v of %v", len(seen), nn)
		}
	}()

	wg.Wait()
	close(errs)
	for err := range errs {
		t.Error(err)
	}
	t.Logf("client transport: %v writes, %v bytes, largest read buffer %v",
		atomic.LoadInt64(&conn.writes), atomic.LoadInt64(&conn.wbytes), atomic.LoadInt64(&conn.maxRead))
}

// Whatever header type the writer chooses, the reader decodes the same messages.
func TestKeep5C04N3Wire(t *testing.T) {
	rd := rand.New(rand.NewSource(3))
	for round := 0; round < 200; round++ {
		b := &bytes.Buffer{}
		w, r := rtmp.NewProtocol(b), rtmp.NewProtocol(b)

		var sent []*rtmp.Message
		var ts uint64
		for i := 0; i < 20; i++ {
			m := rtmp.NewStreamMessage(rd.Intn(2))
			switch rd.Intn(6) {
			case 0:
				ts = uint64(rd.Intn(0x1000000)) // maybe backward
			case 1:
				ts = 0xffffff - 3 + uint64(rd.Intn(6)) // around the extended timestamp
			case 2:
				ts = 0x1000000 + uint64(rd.Intn(0x1000000)) // extended
			default:
				ts += uint64(rd.Intn(40))
			}
			m.Timestamp = ts
			m.MessageType = []rtmp.MessageType{rtmp.MessageTypeAudio, rtmp.MessageTypeVideo, rtmp.MessageTypeAMF0Data}[rd.Intn(3)]
			m.Payload = make([]byte, []int{0, 1, 127, 128, 129, 300, 5000}[rd.Intn(7)])
			rd.Read(m.Payload)
			if err := w.WriteMessage(m); err != nil {
				t.Fatalf("write %+v", err)
			}
			if len(m.Payload) > 0 { // a message without payload is never sent
				sent = append(sent, m)
			}
		}

		for i, m := range sent {
			got, err := r.ReadMessage()
			if err != nil {
				t.Fatalf("round %v read %v: %+v", round, i, err)
			}
			sid := func(m *rtmp.Message) uint64 { return reflect.ValueOf(m).Elem().FieldByName("streamID").Uint() }
			if got.Timestamp != m.Timestamp || got.MessageType != m.MessageType || sid(got) != sid(m) || !bytes.Equal(got.Payload, m.Payload) {
				t.Fatalf("round %v message %v: got ts=%v type=%v sid=%v %vB, want ts=%v type=%v sid=%v %vB", round, i,
					got.Timestamp, got.MessageType, sid(got), len(got.Payload), m.Timestamp, m.MessageType, sid(m), len(m.Payload))
			}
		}
		if b.Len() != 0 {
			t.Fatalf("round %v: %v bytes left", round, b.Len())
		}
	}

	// The changed outside behaviour: the second request uses a type 1 header.
	b := &bytes.Buffer{}
	w := rtmp.NewProtocol(b)
	for i := 0; i < 2; i++ {
		if err := w.WritePacket(rtmp.NewCreateStreamPacket(), 0); err != nil {
			t.Fatalf("write %+v", err)
		}
	}
	if p := b.Bytes(); len(p) != 12+25+8+25 || p[0] != 0x03 || p[37] != 0x43 {
		t.Fatalf("unexpected wire %x", p)
	}
}
