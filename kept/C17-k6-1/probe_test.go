package json_test

import (
	"bytes"
	stdjson "encoding/json"
	"io"
	"math/rand"
	"reflect"
	"testing"

	oj "github.com/ossrs/go-oryx-lib/json"
)

type k6c17seg1 struct {
	b   []byte
	rnd *rand.Rand
}

func (v *k6c17seg1) Read(p []byte) (int, error) {
	if len(v.b) == 0 {
		return 0, io.EOF
	}
	n := 1 + v.rnd.Intn(7)
	if n > len(v.b) {
		n = len(v.b)
	}
	if n > len(p) {
		n = len(p)
	}
	copy(p, v.b[:n])
	v.b = v.b[n:]
	return n, nil
}

func k6c17str1(rnd *rand.Rand) string {
	alpha := []rune("\"\\/*'\n a/*//*/\t\r")
	n := rnd.Intn(8)
	r := make([]rune, n)
	for i := range r {
		r[i] = alpha[rnd.Intn(len(alpha))]
	}
	return string(r)
}

func k6c17val1(rnd *rand.Rand, depth int) interface{} {
	k := rnd.Intn(7)
	if depth <= 0 && k >= 5 {
		k = rnd.Intn(5)
	}
	switch k {
	case 0:
		return nil
	case 1:
		return rnd.Intn(2) == 0
	case 2:
		return float64(rnd.Intn(2000)-1000) / 8
	case 3, 4:
		return k6c17str1(rnd)
	case 5:
		a := []interface{}{}
		for i := rnd.Intn(4); i > 0; i-- {
			a = append(a, k6c17val1(rnd, depth-1))
		}
		return a
	default:
		m := map[string]interface{}{}
		for i := rnd.Intn(4); i > 0; i-- {
			m[k6c17str1(rnd)] = k6c17val1(rnd, depth-1)
		}
		return m
	}
}

func k6c17comment1(rnd *rand.Rand, last bool) string {
	body := []string{"", " it's \"x\" ", "\\", "'", "\"", "/ * /", " // ", "*", "\\\"", "don't \\"}[rnd.Intn(10)]
	switch rnd.Intn(4) {
	case 0:
		return " "
	case 1:
		return "/*" + body + "\n" + body + "*/"
	case 2:
		return "//" + body + "/*\n"
	default:
		return "//" + body + "\r\n"
	}
}

// decorate puts comments at every token boundary of the compact text.
func k6c17decorate1(rnd *rand.Rand, text []byte) []byte {
	var o bytes.Buffer
	put := func() {
		for i := rnd.Intn(3); i > 0; i-- {
			o.WriteString(k6c17comment1(rnd, false))
		}
	}
	put()
	for i := 0; i < len(text); {
		c := text[i]
		if c == '"' {
			j := i + 1
			for text[j] != '"' {
				if text[j] == '\\' {
					j++
				}
				j++
			}
			o.Write(text[i : j+1])
			i = j + 1
		} else if bytes.IndexByte([]byte("{}[],:"), c) >= 0 {
			o.WriteByte(c)
			i++
		} else {
			j := i
			for j < len(text) && bytes.IndexByte([]byte("{}[],:\""), text[j]) < 0 {
				j++
			}
			o.Write(text[i:j])
			i = j
		}
		put()
	}
	if rnd.Intn(2) == 0 {
		o.WriteString("// tail 'without\" newline")
	}
	return o.Bytes()
}

func TestKeep6C17N1(t *testing.T) {
	rnd := rand.New(rand.NewSource(17))
	for it := 0; it < 3000; it++ {
		val := k6c17val1(rnd, 3)
		text, err := stdjson.Marshal(val)
		if err != nil {
			t.Fatal(err)
		}
		var want interface{}
		if err := stdjson.NewDecoder(bytes.NewReader(text)).Decode(&want); err != nil {
			t.Fatal(err)
		}

		// no comments: byte for byte.
		got, err := io.ReadAll(oj.NewJsonPlusReader(&k6c17seg1{b: append([]byte{}, text...), rnd: rnd}))
		if err != nil || !bytes.Equal(got, text) {
			t.Fatalf("pass through: %q -> %q, %v", text, got, err)
		}

		dec := k6c17decorate1(rnd, text)
		var a, b interface{}
		if err := oj.Unmarshal(&k6c17seg1{b: append([]byte{}, dec...), rnd: rnd}, &a); err != nil {
			t.Fatalf("Unmarshal %q: %v", dec, err)
		}
		if err := stdjson.NewDecoder(oj.NewJsonPlusReader(bytes.NewReader(dec))).Decode(&b); err != nil {
			t.Fatalf("Decode %q: %v", dec, err)
		}
		if !reflect.DeepEqual(a, want) || !reflect.DeepEqual(b, want) {
			t.Fatalf("%q: got %#v / %#v want %#v", dec, a, b, want)
		}
	}
}

// Outside the stated domain (not JSON): shows the behaviour that differs from the unchanged tree.
func TestKeep6C17N1Outside(t *testing.T) {
	got, err := io.ReadAll(oj.NewJsonPlusReader(bytes.NewReader([]byte("it's"))))
	if err != nil || string(got) != "it's" {
		t.Fatalf("got %q, %v (the unchanged tree: \"\", comment not match)", got, err)
	}
	var v interface{}
	if err := oj.Unmarshal(bytes.NewReader([]byte("[1, 2] '")), &v); err != nil {
		t.Fatalf("err %v (the unchanged tree: comment not match)", err)
	}
	if err := oj.Unmarshal(bytes.NewReader([]byte("[1] /* open")), &v); err == nil {
		t.Fatal("an unclosed block comment is still an error")
	}
}
