package flv_test

import (
	"bytes"
	"io"
	"testing"
	"testing/iotest"

	"github.com/ossrs/go-oryx-lib/flv"
)

type keep5C09N3Tag struct {
	tt   flv.TagType
	ts   uint32
	body []byte
}

// Independent writer of the FLV v1 layout.
func keep5C09N3Ref(hasVideo, hasAudio bool, tags []keep5C09N3Tag) []byte {
	var flags byte
	if hasVideo {
		flags |= 1
	}
	if hasAudio {
		flags |= 4
	}
	b := []byte{'F', 'L', 'V', 1, flags, 0, 0, 0, 9, 0, 0, 0, 0}
	for _, t := range tags {
		n := len(t.body)
		b = append(b, byte(t.tt), byte(n>>16), byte(n>>8), byte(n),
			byte(t.ts>>16), byte(t.ts>>8), byte(t.ts), byte(t.ts>>24), 0, 0, 0)
		b = append(b, t.body...)
		p := n + 11
		b = append(b, byte(p>>24), byte(p>>16), byte(p>>8), byte(p))
	}
	return b
}

func TestKeep5C09N3(t *testing.T) {
	sizes := []int{0, 1, 255, 256, 65535, 65536, 65537, 1<<24 - 1}
	stamps := []uint32{0, 1<<24 - 1, 1 << 24, 1<<24 + 1, 1<<32 - 1, 0x12345678}
	var tags []keep5C09N3Tag
	for i, n := range sizes {
		body := make([]byte, n)
		for j := range body {
			body[j] = byte(j*7 + i)
		}
		tags = append(tags, keep5C09N3Tag{flv.TagType(i * 37), stamps[i%len(stamps)], body})
	}
	tags = append(tags, keep5C09N3Tag{flv.TagTypeVideo, 7, []byte{1, 2, 3}})

	for flags := 0; flags < 4; flags++ {
		hv, ha := flags&1 != 0, flags&2 != 0
		var w bytes.Buffer
		m, _ := flv.NewMuxer(&w)
		if err := m.WriteHeader(hv, ha); err != nil {
			t.Fatal(err)
		}
		for _, tg := range tags {
			if err := m.WriteTag(tg.tt, tg.ts, tg.body); err != nil {
				t.Fatal(err)
			}
		}
		if !bytes.Equal(w.Bytes(), keep5C09N3Ref(hv, ha, tags)) {
			t.Fatal("bytes differ from the FLV v1 layout")
		}
		readers := []io.Reader{bytes.NewReader(w.Bytes()), iotest.HalfReader(bytes.NewReader(w.Bytes())),
			iotest.DataErrReader(bytes.NewReader(w.Bytes()))}
		if flags == 0 {
			readers = append(readers, iotest.OneByteReader(bytes.NewReader(w.Bytes())))
		}
		for _, r := range readers {
			d, _ := flv.NewDemuxer(r)
			ver, gv, ga, err := d.ReadHeader()
			if err != nil || ver != 1 || gv != hv || ga != ha {
				t.Fatal("header", ver, gv, ga, err)
			}
			for i, tg := range tags {
				tt, sz, ts, err := d.ReadTagHeader()
				if err != nil || tt != tg.tt || int(sz) != len(tg.body) || ts != tg.ts {
					t.Fatal("tag header", i, tt, sz, ts, err)
				}
				body, err := d.ReadTag(sz)
				if err != nil || !bytes.Equal(body, tg.body) {
					t.Fatal("tag body", i, err)
				}
			}
		}
	}
}

// Outside the property: oversize body refused, extended header skipped, short data offset refused.
func TestKeep5C09N3Outside(t *testing.T) {
	var w bytes.Buffer
	m, _ := flv.NewMuxer(&w)
	if err := m.WriteTag(flv.TagTypeVideo, 0, make([]byte, 1<<24)); err == nil || w.Len() != 0 {
		t.Fatal("oversize tag must be refused without output", err, w.Len())
	}
	if _, err := flv.NewMuxer(nil); err == nil {
		t.Fatal("nil writer")
	}

	tags := []keep5C09N3Tag{{flv.TagTypeAudio, 5, []byte{1, 2, 3}}}
	file := keep5C09N3Ref(true, false, tags)
	ext := append([]byte{}, file[:9]...)
	ext[8] = 12
	ext = append(ext, 0xaa, 0xbb, 0xcc)
	ext = append(ext, file[9:]...)
	d, _ := flv.NewDemuxer(iotest.OneByteReader(bytes.NewReader(ext)))
	if _, _, _, err := d.ReadHeader(); err != nil {
		t.Fatal(err)
	}
	tt, sz, ts, err := d.ReadTagHeader()
	if err != nil || tt != flv.TagTypeAudio || sz != 3 || ts != 5 {
		t.Fatal(tt, sz, ts, err)
	}

	bad := append([]byte{}, file...)
	bad[8] = 8
	d, _ = flv.NewDemuxer(bytes.NewReader(bad))
	if _, _, _, err := d.ReadHeader(); err == nil {
		t.Fatal("data offset 8 accepted")
	}
	if s := flv.TagType(5).String(); s != "Reserved(5)" {
		t.Fatal(s)
	}
}
