package amf0_test

import (
	"encoding/binary"
	"fmt"
	"math"
	"testing"

	"github.com/ossrs/go-oryx-lib/amf0"
)

// k5c06n1Decode is a tiny AMF0 decoder written from the specification. The
// associative-count of an ECMA array is read and ignored (it is a hint), the
// array ends at the empty-name + object-end marker.
func k5c06n1Decode(p []byte) (interface{}, []byte, error) {
	if len(p) < 1 {
		return nil, nil, fmt.Errorf("empty")
	}
	switch p[0] {
	case 0:
		return math.Float64frombits(binary.BigEndian.Uint64(p[1:9])), p[9:], nil
	case 1:
		return p[1] != 0, p[2:], nil
	case 2:
		n := int(binary.BigEndian.Uint16(p[1:3]))
		return string(p[3 : 3+n]), p[3+n:], nil
	case 5:
		return nil, p[1:], nil
	case 3, 8:
		q := p[1:]
		if p[0] == 8 {
			q = p[5:]
		}
		kv := [][2]interface{}{}
		for {
			n := int(binary.BigEndian.Uint16(q[0:2]))
			k := string(q[2 : 2+n])
			q = q[2+n:]
			if n == 0 && q[0] == 9 {
				return kv, q[1:], nil
			}
			v, r, err := k5c06n1Decode(q)
			if err != nil {
				return nil, nil, err
			}
			kv, q = append(kv, [2]interface{}{k, v}), r
		}
	}
	return nil, nil, fmt.Errorf("marker %v", p[0])
}

func TestKeep5C06N1(t *testing.T) {
	// Library encoder -> independent decoder.
	inner := amf0.NewObject()
	inner.Set("codec", amf0.NewString("avc1"))
	arr := amf0.NewEcmaArray()
	arr.Set("duration", amf0.NewNumber(12.5)).Set("stereo", amf0.NewBoolean(true))
	arr.Set("video", inner)
	arr.Set("none", amf0.NewNull())

	b, err := arr.MarshalBinary()
	if err != nil {
		t.Fatalf("marshal %+v", err)
	}
	if len(b) != arr.Size() {
		t.Fatalf("size %v != %v", arr.Size(), len(b))
	}
	v, rest, err := k5c06n1Decode(b)
	if err != nil || len(rest) != 0 {
		t.Fatalf("decode err=%v rest=%v", err, rest)
	}
	want := "[[duration 12.5] [stereo true] [video [[codec avc1]]] [none <nil>]]"
	if got := fmt.Sprint(v); got != want {
		t.Fatalf("got %v want %v", got, want)
	}
	// Changed outside behaviour: the hint is now the real element count.
	if c := binary.BigEndian.Uint32(b[1:5]); c != 4 {
		t.Fatalf("count hint %v", c)
	}

	// Reference-style encodings with any hint -> library decoder.
	for _, hint := range []uint32{0, 1, 2, 7, 0xffffffff} {
		p := []byte{8, 0, 0, 0, 0}
		binary.BigEndian.PutUint32(p[1:], hint)
		p = append(p, 0, 1, 'a', 0, 0x40, 0x09, 0x21, 0xfb, 0x54, 0x44, 0x2d, 0x18)
		p = append(p, 0, 1, 'b', 2, 0, 2, 'h', 'i')
		p = append(p, 0, 0, 9)

		a, err := amf0.Discovery(p)
		if err != nil {
			t.Fatalf("discovery %+v", err)
		}
		if err = a.UnmarshalBinary(p); err != nil {
			t.Fatalf("hint=%v unmarshal %+v", hint, err)
		}
		e := a.(*amf0.EcmaArray)
		if n, ok := e.Get("a").(*amf0.Number); !ok || float64(*n) != math.Pi {
			t.Fatalf("hint=%v a=%v", hint, e.Get("a"))
		}
		if s, ok := e.Get("b").(*amf0.String); !ok || string(*s) != "hi" {
			t.Fatalf("hint=%v b=%v", hint, e.Get("b"))
		}
		if e.Size() != len(p) {
			t.Fatalf("hint=%v size %v != %v", hint, e.Size(), len(p))
		}
	}
}
