package amf0_test

import (
	"testing"

	"github.com/ossrs/go-oryx-lib/amf0"
	oe "github.com/ossrs/go-oryx-lib/errors"
)

func TestKeep5C06N2(t *testing.T) {
	supported := map[byte]bool{0: true, 1: true, 2: true, 3: true, 5: true, 6: true, 8: true, 9: true, 10: true}

	for i := 0; i < 256; i++ {
		m := byte(i)
		// A marker followed by plenty of bytes, so that only the marker decides.
		top := append([]byte{m}, make([]byte, 32)...)
		a, err := amf0.Discovery(top)
		if supported[m] {
			if err != nil || a == nil {
				t.Fatalf("marker %v should be supported, err %v", m, err)
			}
			continue
		}
		if err == nil || a != nil {
			t.Fatalf("marker %v should be an error, got %v", m, a)
		}
		me, ok := oe.Cause(err).(*amf0.MarkerError)
		if !ok || me.Marker != m || me.Defined != (m <= 17) {
			t.Fatalf("marker %v cause %#v", m, oe.Cause(err))
		}

		// Nested in object, ecma array: the whole decode fails, nothing is skipped.
		tail := append([]byte{0, 1, 'k', m}, make([]byte, 32)...)
		tail = append(tail, 0, 0, 9)
		o := amf0.NewObject()
		if err := o.UnmarshalBinary(append([]byte{3}, tail...)); err == nil {
			t.Fatalf("object with marker %v should fail", m)
		} else if _, ok := oe.Cause(err).(*amf0.MarkerError); !ok {
			t.Fatalf("object with marker %v cause %#v", m, oe.Cause(err))
		}
		e := amf0.NewEcmaArray()
		if err := e.UnmarshalBinary(append([]byte{8, 0, 0, 0, 1}, tail...)); err == nil {
			t.Fatalf("ecma array with marker %v should fail", m)
		}
	}

	if _, err := amf0.Discovery(nil); err == nil {
		t.Fatalf("empty should fail")
	}

	// Supported values still decode as before.
	p := []byte{3, 0, 1, 'n', 0, 0x3f, 0xf0, 0, 0, 0, 0, 0, 0, 0, 1, 's', 2, 0, 1, 'x', 0, 1, 'u', 6, 0, 0, 9}
	a, err := amf0.Discovery(p)
	if err != nil {
		t.Fatalf("discovery %+v", err)
	}
	if err = a.UnmarshalBinary(p); err != nil {
		t.Fatalf("unmarshal %+v", err)
	}
	o := a.(*amf0.Object)
	if n := o.Get("n").(*amf0.Number); *n != 1 {
		t.Fatalf("n=%v", *n)
	}
	if s := o.Get("s").(*amf0.String); *s != "x" {
		t.Fatalf("s=%v", *s)
	}
	if b, err := o.MarshalBinary(); err != nil || string(b) != string(p) {
		t.Fatalf("re-marshal %v %v", b, err)
	}
}
