package http

import (
	"encoding/json"
	"errors"
	"net/http"
	"net/http/httptest"
	"os"
	"strings"
	"testing"
)

type keep5C19N3AppError int

func (v keep5C19N3AppError) Error() string { return "app \"error\" 世界" }
func (v keep5C19N3AppError) Code() int     { return int(v) }

// Belongs to package directory http/ of go-oryx-lib.
func TestKeep5C19N3(t *testing.T) {
	codes := []int{1, -1, 100, -100, 2147483647, -2147483648, 404}
	mux := http.NewServeMux()
	mux.Handle("/ok", Data(nil, map[string]interface{}{"k": "v"}))
	mux.Handle("/plain", Error(nil, errors.New("plain")))
	s := httptest.NewServer(mux)
	defer s.Close()

	for _, code := range codes {
		for name, e := range map[string]error{
			"sys":  SystemError(code),
			"cplx": SystemComplexError{SystemError(code), "some \"message\"\n"},
			"app":  keep5C19N3AppError(code),
		} {
			for _, cb := range []string{"", "cb"} {
				target := "/api"
				if cb != "" {
					target += "?callback=" + cb
				}
				w := httptest.NewRecorder()
				Error(nil, e).ServeHTTP(w, httptest.NewRequest("GET", target, nil))
				body := w.Body.String()
				if cb != "" {
					if !strings.HasPrefix(body, "cb(") || !strings.HasSuffix(body, ")") {
						t.Fatalf("%v not wrapped %q", name, body)
					}
					body = body[3 : len(body)-1]
				}
				got, _, err := apiParse("url", []byte(body))
				if got != code || err == nil {
					t.Fatalf("%v %v: code=%v err=%v body=%q", name, code, got, err, body)
				}
				if w.Header().Get("Server") != Server {
					t.Fatalf("%v no server header", name)
				}
				// Outside behaviour: server pid and description in all error envelopes.
				obj := map[string]interface{}{}
				json.Unmarshal([]byte(body), &obj)
				if obj["server"] != float64(os.Getpid()) {
					t.Fatalf("%v no server pid: %q", name, body)
				}
				if _, ok := obj["data"].(string); !ok {
					t.Fatalf("%v no description: %q", name, body)
				}
			}
		}
	}

	if code, _, err := ApiRequest(s.URL + "/ok"); code != 0 || err != nil {
		t.Fatalf("ok code=%v err=%v", code, err)
	}
	if _, _, err := ApiRequest(s.URL + "/plain"); err == nil {
		t.Fatalf("plain should fail")
	}
	resp, err := http.Get(s.URL + "/plain")
	if err != nil {
		t.Fatal(err)
	}
	resp.Body.Close()
	if resp.StatusCode != 500 {
		t.Fatalf("plain status %v", resp.StatusCode)
	}
}
