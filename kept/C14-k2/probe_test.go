package websocket

import (
	"bytes"
	"io"
	"net"
	"testing"
	"time"
)

type k5c14n2Conn struct {
	r io.Reader
	w bytes.Buffer
}

func (c *k5c14n2Conn) Read(p []byte) (int, error)         { return c.r.Read(p) }
func (c *k5c14n2Conn) Write(p []byte) (int, error)        { return c.w.Write(p) }
func (c *k5c14n2Conn) Close() error                       { return nil }
func (c *k5c14n2Conn) LocalAddr() net.Addr                { return nil }
func (c *k5c14n2Conn) RemoteAddr() net.Addr               { return nil }
func (c *k5c14n2Conn) SetDeadline(t time.Time) error      { return nil }
func (c *k5c14n2Conn) SetReadDeadline(t time.Time) error  { return nil }
func (c *k5c14n2Conn) SetWriteDeadline(t time.Time) error { return nil }

// closeCode returns the status of the first frame written, if it is a Close.
func k5c14n2CloseCode(b []byte, masked bool) int {
	if len(b) < 2 || b[0] != 0x88 {
		return -1
	}
	off := 2
	n := int(b[1] & 0x7f)
	if masked {
		key := b[2:6]
		off = 6
		p := append([]byte(nil), b[off:off+n]...)
		for i := range p {
			p[i] ^= key[i%4]
		}
		if n < 2 {
			return -1
		}
		return int(p[0])<<8 | int(p[1])
	}
	if n < 2 {
		return -1
	}
	return int(b[off])<<8 | int(b[off+1])
}

func TestKeep5C14N2(t *testing.T) {
	type tc struct {
		server bool
		in     []byte
	}
	cases := []tc{
		{false, []byte{0xc1, 0x00}},                           // RSV1 without extension
		{false, []byte{0x83, 0x00}},                           // reserved opcode
		{false, []byte{0x09, 0x00}},                           // fragmented ping
		{false, []byte{0x89, 126, 0, 126}},                    // oversized ping
		{false, []byte{0x80, 0x00}},                           // orphan continuation
		{false, []byte{0x01, 0x00, 0x81, 0x00}},               // new data frame inside message
		{false, []byte{0x81, 0x81, 1, 2, 3, 4, 0}},            // masked frame to client
		{true, []byte{0x81, 0x00}},                            // unmasked frame to server
		{false, []byte{0x88, 0x02, 0x03, 0xed}},               // close code 1005
		{false, []byte{0x88, 0x03, 0x03, 0xe8, 0xff}},         // bad utf-8 reason
		{false, []byte{0x82, 127, 0xff, 0, 0, 0, 0, 0, 0, 0}}, // top bit length
	}
	for i, k := range cases {
		// a valid message first: it must be delivered before the failure
		var pre []byte
		if k.server {
			pre = []byte{0x82, 0x82, 0, 0, 0, 0, 7, 8}
		} else {
			pre = []byte{0x82, 0x02, 7, 8}
		}
		fc := &k5c14n2Conn{r: bytes.NewReader(append(pre, k.in...))}
		c := newConn(fc, k.server, 0, 0)
		mt, p, err := c.ReadMessage()
		if err != nil || mt != BinaryMessage || !bytes.Equal(p, []byte{7, 8}) {
			t.Fatalf("case %d: first message %v %v %v", i, mt, p, err)
		}
		var err1 error
		for err1 == nil {
			var r io.Reader
			_, r, err1 = c.NextReader()
			if err1 == nil {
				_, err1 = io.Copy(io.Discard, r)
			}
		}
		pe, ok := err1.(*ProtocolError)
		if !ok || pe.Reason == "" {
			t.Fatalf("case %d: error %T %v", i, err1, err1)
		}
		if code := k5c14n2CloseCode(fc.w.Bytes(), !k.server); code != CloseProtocolError {
			t.Fatalf("case %d: close code %d (% x)", i, code, fc.w.Bytes())
		}
		if _, _, err2 := c.NextReader(); err2 != err1 {
			t.Fatalf("case %d: not permanent: %v", i, err2)
		}
	}

	// read limit error is unchanged
	fc := &k5c14n2Conn{r: bytes.NewReader([]byte{0x01, 0x02, 'a', 'b', 0x80, 0x02, 'c', 'd'})}
	c := newConn(fc, false, 0, 0)
	c.SetReadLimit(3)
	if _, _, err := c.ReadMessage(); err != ErrReadLimit {
		t.Fatalf("limit: %v", err)
	}
}
