package flv

import (
	"bytes"
	"errors"
	"io"
	"testing"
)

type keep6C08N2Reader struct {
	r     io.Reader
	calls int
	failAt int
	err   error
}

func (v *keep6C08N2Reader) Read(p []byte) (int, error) {
	if v.calls == v.failAt {
		return 0, v.err
	}
	v.calls++
	if len(p) > 3 {
		p = p[:3]
	}
	return v.r.Read(p)
}

// Belongs to package directory flv/ (package flv).
func TestKeep6C08N2(t *testing.T) {
	tags := [][]byte{{1, 2, 3}, {}, bytes.Repeat([]byte{7}, 40), {9}}
	file := &bytes.Buffer{}
	m, _ := NewMuxer(file)
	if err := m.WriteHeader(true, true); err != nil {
		t.Fatal(err)
	}
	ends := []int{}
	for i, tag := range tags {
		if err := m.WriteTag(TagTypeVideo, uint32(i*10), tag); err != nil {
			t.Fatal(err)
		}
		ends = append(ends, file.Len())
	}
	all := file.Bytes()

	run := func(r io.Reader, want error, complete int) {
		d, _ := NewDemuxer(r)
		var got [][]byte
		var err error
		if _, _, _, err = d.ReadHeader(); err == nil {
			for {
				var size uint32
				if _, size, _, err = d.ReadTagHeader(); err != nil {
					break
				}
				var tag []byte
				if tag, err = d.ReadTag(size); err != nil {
					if tag != nil {
						t.Fatalf("incomplete tag returned with error")
					}
					break
				}
				if cap(tag) != len(tag) {
					t.Fatalf("cap %v != len %v", cap(tag), len(tag))
				}
				got = append(got, tag)
			}
		}
		if err == nil {
			t.Fatalf("no error")
		}
		if want != nil && err != want {
			t.Fatalf("err %v != %v", err, want)
		}
		if want == nil && err != io.EOF && err != io.ErrUnexpectedEOF {
			t.Fatalf("cut stream err %v", err)
		}
		if complete >= 0 && len(got) != complete {
			t.Fatalf("tags %v != %v", len(got), complete)
		}
		for i := range got {
			if !bytes.Equal(got[i], tags[i]) {
				t.Fatalf("tag %v is %v", i, got[i])
			}
		}
	}

	for cut := 0; cut <= len(all); cut++ {
		complete := 0
		for _, e := range ends {
			if e <= cut {
				complete++
			}
		}
		run(bytes.NewReader(all[:cut]), nil, complete)
	}

	injected := errors.New("injected")
	for k := 0; k < len(all)/3+3; k++ {
		run(&keep6C08N2Reader{r: bytes.NewReader(all), failAt: k, err: injected}, injected, -1)
	}
}
