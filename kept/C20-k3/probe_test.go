package kxps

import (
	"math"
	"testing"
	"time"
)

type keep5C20N3Src struct {
	n     uint64
	calls int
}

func (v *keep5C20N3Src) TotalBytes() uint64 { v.calls++; return v.n }

func keep5C20N3Refused(f func()) (r interface{}) {
	defer func() { r = recover() }()
	f()
	return nil
}

func TestKeep5C20N3(t *testing.T) {
	s := &keep5C20N3Src{}
	m := NewKbps(nil, s).(*kbps)
	if keep5C20N3Refused(func() { m.Kbps10s() }) == nil || keep5C20N3Refused(func() { m.Average() }) == nil {
		t.Fatalf("read before start not refused")
	}
	m.imp.started = true

	at := func(ms int64) time.Time { return time.Unix(7000, 0).Add(time.Duration(ms) * time.Millisecond) }
	type step struct {
		ms    int64
		count uint64
	}
	// irregular spacing, a stall, a reset, a multi-window gap.
	steps := []step{{0, 0}, {500, 800}, {10500, 20800}, {12000, 30000}, {25000, 30000}, {31000, 100}, {45000, 90100}, {700000, 1090100}}
	var first *step
	last := map[time.Duration]*step{}
	for i := range steps {
		st := &steps[i]
		s.n = st.count
		m.imp.doSample(at(st.ms))
		avg := m.imp.sampleAverage(at(st.ms)) * 8 / 1000

		if st.count != 0 && first == nil {
			first = st
			for _, w := range []time.Duration{10, 30, 300} {
				last[w] = st
			}
		} else if first != nil {
			// model of the cascade of windows.
			for _, w := range []time.Duration{10, 30, 300} {
				if st.ms-last[w].ms < int64(w)*1000 {
					break
				}
				want := 0.0
				if st.count > last[w].count {
					want = float64(st.count-last[w].count) * 1000 / float64(int64(w)*1000) * 8 / 1000
				}
				got := map[time.Duration]float64{10: m.Kbps10s(), 30: m.Kbps30s(), 300: m.Kbps300s()}[w]
				if got != want {
					t.Errorf("step %v window %vs: got %v want %v", i, int(w), got, want)
				}
				last[w] = st
			}
			wantAvg := 0.0
			if st.count > first.count && st.ms > first.ms {
				wantAvg = float64(st.count-first.count) * 1000 / float64(st.ms-first.ms) * 8 / 1000
			}
			if avg != wantAvg {
				t.Errorf("step %v avg: got %v want %v", i, avg, wantAvg)
			}
		}
		for _, r := range []float64{m.Kbps10s(), m.Kbps30s(), m.Kbps300s(), avg} {
			if r < 0 || math.IsNaN(r) || math.IsInf(r, 0) {
				t.Errorf("step %v: bad value %v", i, r)
			}
		}
	}

	// Outside behaviour: one read of the counter per evaluation of the average (was three).
	s.calls = 0
	m.imp.sampleAverage(at(800000))
	if s.calls != 1 {
		t.Errorf("average reads the counter %v times", s.calls)
	}

	// Outside behaviour: a meter without source reports zero instead of a nil dereference.
	z := NewKrps(nil, nil).(*krps)
	z.imp.started = true
	z.imp.doSample(at(0))
	if z.Average() != 0 || z.Rps10s() != 0 {
		t.Errorf("nil source should report 0")
	}
}
