package jose_test

import (
	"bytes"
	"crypto/ecdsa"
	"crypto/elliptic"
	"crypto/rand"
	"crypto/rsa"
	"strings"
	"testing"

	"github.com/ossrs/go-oryx-lib/https/jose"
)

func flipTestKeep6C16N3(s string) string {
	// flips the lowest bit of the first decoded byte of a base64url field
	const abc = "ABCDEFGHIJKLMNOPQRSTUVWXYZabcdefghijklmnopqrstuvwxyz0123456789-_"
	i := strings.IndexByte(abc, s[0])
	return string(abc[i^4]) + s[1:]
}

func TestKeep6C16N3(t *testing.T) {
	rk, _ := rsa.GenerateKey(rand.Reader, 2048)
	ek, _ := ecdsa.GenerateKey(elliptic.P256(), rand.Reader)
	e5, _ := ecdsa.GenerateKey(elliptic.P521(), rand.Reader)
	hk := bytes.Repeat([]byte{7}, 64)
	type sc struct {
		alg      jose.SignatureAlgorithm
		sk, vk   interface{}
		wrong    interface{}
	}
	rk2, _ := rsa.GenerateKey(rand.Reader, 2048)
	ek2, _ := ecdsa.GenerateKey(elliptic.P256(), rand.Reader)
	scs := []sc{
		{jose.HS256, hk, hk, bytes.Repeat([]byte{8}, 64)},
		{jose.HS512, hk, hk, bytes.Repeat([]byte{8}, 64)},
		{jose.RS256, rk, &rk.PublicKey, &rk2.PublicKey},
		{jose.PS384, rk, &rk.PublicKey, &rk2.PublicKey},
		{jose.ES256, ek, &ek.PublicKey, &ek2.PublicKey},
		{jose.ES512, e5, &e5.PublicKey, &ek2.PublicKey},
	}
	for _, c := range scs {
		for _, n := range []int{0, 1, 16, 33} {
			payload := bytes.Repeat([]byte{0xa5}, n)
			s, err := jose.NewSigner(c.alg, c.sk)
			if err != nil {
				t.Fatal(c.alg, err)
			}
			obj, err := s.Sign(payload)
			if err != nil {
				t.Fatal(c.alg, err)
			}
			compact, err := obj.CompactSerialize()
			if err != nil {
				t.Fatal(err)
			}
			for _, ser := range []string{compact, obj.FullSerialize()} {
				p, err := jose.ParseSigned(ser)
				if err != nil {
					t.Fatal(c.alg, n, err)
				}
				out, err := p.Verify(c.vk)
				if err != nil || !bytes.Equal(out, payload) {
					t.Fatal(c.alg, n, err, out)
				}
				if _, err := p.Verify(c.wrong); err == nil {
					t.Fatal("wrong key verified", c.alg)
				}
			}
			parts := strings.Split(compact, ".")
			for i := range parts {
				if parts[i] == "" {
					continue
				}
				q := append([]string{}, parts...)
				q[i] = flipTestKeep6C16N3(q[i])
				p, err := jose.ParseSigned(strings.Join(q, "."))
				if err == nil {
					_, err = p.Verify(c.vk)
				}
				if err == nil {
					t.Fatal("tampered part verified", c.alg, i)
				}
			}
		}
	}

	type ec struct {
		alg    jose.KeyAlgorithm
		ek, dk interface{}
		wrong  interface{}
	}
	k16, k32 := bytes.Repeat([]byte{1}, 16), bytes.Repeat([]byte{2}, 32)
	ecs := []ec{
		{jose.RSA1_5, &rk.PublicKey, rk, rk2},
		{jose.RSA_OAEP_256, &rk.PublicKey, rk, rk2},
		{jose.A128KW, k16, k16, bytes.Repeat([]byte{3}, 16)},
		{jose.A256GCMKW, k32, k32, bytes.Repeat([]byte{3}, 32)},
		{jose.ECDH_ES, &ek.PublicKey, ek, ek2},
		{jose.ECDH_ES_A192KW, &ek.PublicKey, ek, ek2},
	}
	for _, enc := range []jose.ContentEncryption{jose.A128GCM, jose.A256CBC_HS512} {
		dirKey := k16
		if enc == jose.A256CBC_HS512 {
			dirKey = bytes.Repeat([]byte{4}, 64)
		}
		wrongDir := append([]byte{}, dirKey...)
		wrongDir[0] ^= 1
		all := append(append([]ec{}, ecs...), ec{jose.DIRECT, dirKey, dirKey, wrongDir})
		for _, c := range all {
			for _, zip := range []jose.CompressionAlgorithm{jose.NONE, jose.DEFLATE} {
				for _, n := range []int{0, 15, 16, 17} {
					pt := bytes.Repeat([]byte{0x5a}, n)
					e, err := jose.NewEncrypter(c.alg, enc, c.ek)
					if err != nil {
						t.Fatal(c.alg, enc, err)
					}
					e.SetCompression(zip)
					obj, err := e.Encrypt(pt)
					if err != nil {
						t.Fatal(c.alg, enc, err)
					}
					compact, err := obj.CompactSerialize()
					if err != nil {
						t.Fatal(err)
					}
					aobj, err := e.EncryptWithAuthData(pt, []byte("aad!"))
					if err != nil {
						t.Fatal(err)
					}
					for k, ser := range []string{compact, obj.FullSerialize(), aobj.FullSerialize()} {
						p, err := jose.ParseEncrypted(ser)
						if err != nil {
							t.Fatal(err)
						}
						out, err := p.Decrypt(c.dk)
						if err != nil || !bytes.Equal(out, pt) {
							t.Fatal(c.alg, enc, zip, n, k, err, out)
						}
						if k == 2 && string(p.GetAuthData()) != "aad!" {
							t.Fatal("aad")
						}
						if _, err := p.Decrypt(c.wrong); err == nil {
							t.Fatal("wrong key decrypted", c.alg, enc)
						}
					}
					parts := strings.Split(compact, ".")
					for i := range parts {
						if parts[i] == "" {
							continue
						}
						q := append([]string{}, parts...)
						q[i] = flipTestKeep6C16N3(q[i])
						p, err := jose.ParseEncrypted(strings.Join(q, "."))
						if err == nil {
							_, err = p.Decrypt(c.dk)
						}
						if err == nil {
							t.Fatal("tampered part decrypted", c.alg, enc, i)
						}
					}
				}
			}
		}
	}
}

// Behaviour that changed (outside the property): unusable keys are refused when the
// signer/verifier/decrypter is built.
func TestKeep6C16N3UpFront(t *testing.T) {
	k256, _ := ecdsa.GenerateKey(elliptic.P256(), rand.Reader)
	k384, _ := ecdsa.GenerateKey(elliptic.P384(), rand.Reader)
	k521, _ := ecdsa.GenerateKey(elliptic.P521(), rand.Reader)
	keys := map[jose.SignatureAlgorithm]*ecdsa.PrivateKey{jose.ES256: k256, jose.ES384: k384, jose.ES512: k521}
	for alg := range keys {
		for kalg, k := range keys {
			s, err := jose.NewSigner(alg, k)
			if alg == kalg {
				if err != nil {
					t.Fatal(alg, err)
				}
				obj, err := s.Sign([]byte("x"))
				if err != nil {
					t.Fatal(err)
				}
				if _, err := obj.Verify(&k.PublicKey); err != nil {
					t.Fatal(err)
				}
				continue
			}
			// old: NewSigner succeeded and Sign failed; new: NewSigner fails
			if err == nil || s != nil {
				t.Fatal("mismatched curve accepted", alg, kalg)
			}
		}
	}
	// a multi-signer is no longer poisoned by a bad recipient
	ms := jose.NewMultiSigner()
	if err := ms.AddRecipient(jose.ES256, k384); err == nil {
		t.Fatal("expected error")
	}
	if err := ms.AddRecipient(jose.ES384, k384); err != nil {
		t.Fatal(err)
	}
	obj, err := ms.Sign([]byte("y"))
	if err != nil || len(obj.Signatures) != 1 {
		t.Fatal(err)
	}
	// nil keys: an error, not a panic
	obj, _ = ms.Sign([]byte("z"))
	if _, err := obj.Verify((*rsa.PublicKey)(nil)); err == nil {
		t.Fatal("nil key")
	}
	if _, err := obj.Verify((*ecdsa.PublicKey)(nil)); err == nil {
		t.Fatal("nil key")
	}
	if _, err := obj.Verify((*jose.JsonWebKey)(nil)); err == nil {
		t.Fatal("nil key")
	}
	e, _ := jose.NewEncrypter(jose.ECDH_ES, jose.A128GCM, &k256.PublicKey)
	jwe, _ := e.Encrypt([]byte("p"))
	for _, k := range []interface{}{(*rsa.PrivateKey)(nil), (*ecdsa.PrivateKey)(nil), (*jose.JsonWebKey)(nil), &ecdsa.PrivateKey{}, &rsa.PrivateKey{}} {
		if _, err := jwe.Decrypt(k); err == nil {
			t.Fatal("nil key decrypted")
		}
	}
	if out, err := jwe.Decrypt(k256); err != nil || string(out) != "p" {
		t.Fatal(err)
	}
	// keys that went through a JWK round trip are still accepted
	for _, k := range []interface{}{k256, k521} {
		raw, err := (&jose.JsonWebKey{Key: k}).MarshalJSON()
		if err != nil {
			t.Fatal(err)
		}
		var back jose.JsonWebKey
		if err := back.UnmarshalJSON(raw); err != nil {
			t.Fatal(err)
		}
		alg := jose.ES256
		if k == interface{}(k521) {
			alg = jose.ES512
		}
		s, err := jose.NewSigner(alg, &back)
		if err != nil {
			t.Fatal(err)
		}
		o, _ := s.Sign([]byte("q"))
		pub := jose.JsonWebKey{Key: &k.(*ecdsa.PrivateKey).PublicKey}
		if _, err := o.Verify(&pub); err != nil {
			t.Fatal(err)
		}
	}
}
