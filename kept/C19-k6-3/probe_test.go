package http_test

import (
	"encoding/json"
	"fmt"
	"io/ioutil"
	"math"
	"net/http"
	"net/http/httptest"
	"os"
	"reflect"
	"strings"
	"testing"

	oh "github.com/ossrs/go-oryx-lib/http"
)

type keep6C19N3AppErr struct{ code int }

func (v keep6C19N3AppErr) Code() int     { return v.code }
func (v keep6C19N3AppErr) Error() string { return fmt.Sprintf("app %d", v.code) }

type keep6C19N3StatusErr struct{ status int }

func (v keep6C19N3StatusErr) Status() int   { return v.status }
func (v keep6C19N3StatusErr) Error() string { return fmt.Sprintf("status %d", v.status) }

func TestKeep6C19N3(t *testing.T) {
	oh.Server = "Keep6Srv"
	var cur http.Handler
	srv := httptest.NewServer(http.HandlerFunc(func(w http.ResponseWriter, r *http.Request) {
		cur.ServeHTTP(w, r)
	}))
	defer srv.Close()

	get := func(q string) (int, http.Header, string) {
		resp, err := http.Get(srv.URL + "/api" + q)
		if err != nil {
			t.Fatal(err)
		}
		defer resp.Body.Close()
		b, _ := ioutil.ReadAll(resp.Body)
		return resp.StatusCode, resp.Header, string(b)
	}

	// Success envelopes.
	values := []interface{}{
		nil, "", "he said \"hi\"\n\t\x01 <b>&</b> é世界", 42.5, true,
		[]interface{}{1.0, "a", nil},
		map[string]interface{}{"a": map[string]interface{}{"b": []interface{}{}}, "q\"": "v"},
	}
	for _, v := range values {
		cur = oh.Data(nil, v)
		st, h, body := get("")
		if st != 200 || h.Get("Content-Type") != oh.HttpJson || h.Get("Server") != "Keep6Srv" {
			t.Fatalf("bad success response %v %v", st, h)
		}
		obj := map[string]interface{}{}
		if err := json.Unmarshal([]byte(body), &obj); err != nil {
			t.Fatalf("body %q err %v", body, err)
		}
		if obj["code"] != 0.0 || obj["server"] != float64(os.Getpid()) || !reflect.DeepEqual(obj["data"], v) {
			t.Fatalf("bad envelope %q for %#v", body, v)
		}
		if code, rb, err := oh.ApiRequest(srv.URL + "/api"); err != nil || code != 0 || string(rb) != body {
			t.Fatalf("client: code=%v err=%v", code, err)
		}

		st, h, cbody := get("?callback=my.cb_1")
		if st != 200 || h.Get("Content-Type") != oh.HttpJavaScript || h.Get("Server") != "Keep6Srv" {
			t.Fatalf("bad jsonp response %v %v", st, h)
		}
		if cbody != "my.cb_1("+body+")" {
			t.Fatalf("bad jsonp body %q vs %q", cbody, body)
		}
	}

	// Errors with their own code.
	for _, c := range []int{1, -1, 100, 404, -2147483648, 2147483647} {
		for i, e := range []error{
			oh.SystemError(c), oh.SystemComplexError{oh.SystemError(c), "de\"sc"}, keep6C19N3AppErr{c},
		} {
			cur = oh.Error(nil, e)
			if i == 1 {
				cur = oh.CplxError(nil, oh.SystemError(c), "de\"sc")
			}
			for _, q := range []string{"", "?callback=cb"} {
				_, h, body := get(q)
				if h.Get("Server") != "Keep6Srv" {
					t.Fatalf("no server header")
				}
				if q != "" {
					if !strings.HasPrefix(body, "cb(") || !strings.HasSuffix(body, ")") {
						t.Fatalf("bad jsonp %q", body)
					}
					body = body[3 : len(body)-1]
				}
				obj := map[string]interface{}{}
				if err := json.Unmarshal([]byte(body), &obj); err != nil || obj["code"] != float64(c) {
					t.Fatalf("error %v: body %q err %v", e, body, err)
				}
			}
			if code, _, err := oh.ApiRequest(srv.URL + "/api"); err == nil || code != c {
				t.Fatalf("client must fail with code %v, got code=%v err=%v", c, code, err)
			}
		}
	}

	// Plain errors with HTTP status, and values which can't be marshalled.
	plain := map[int]http.Handler{
		500: oh.Error(nil, fmt.Errorf("plain \"failure\"")),
		503: oh.Error(nil, keep6C19N3StatusErr{503}),
		404: oh.Error(nil, keep6C19N3StatusErr{404}),
	}
	for st, h := range plain {
		cur = h
		for _, q := range []string{"", "?callback=cb"} {
			if got, hdr, _ := get(q); got != st || hdr.Get("Server") != "Keep6Srv" {
				t.Fatalf("plain error status %v, want %v", got, st)
			}
		}
		if _, _, err := oh.ApiRequest(srv.URL + "/api"); err == nil {
			t.Fatalf("client must fail for status %v", st)
		}
	}
	for _, v := range []interface{}{make(chan int), math.NaN(), map[string]interface{}{"f": func() {}}} {
		cur = oh.Data(nil, v)
		if st, _, body := get(""); st < 400 {
			t.Fatalf("unmarshalable %T: status %v body %q", v, st, body)
		}
		if _, _, err := oh.ApiRequest(srv.URL + "/api"); err == nil {
			t.Fatalf("client must fail for %T", v)
		}
	}
}

// WriteVersion is still a success envelope, for well-formed and tag style versions.
func TestKeep6C19N3Version(t *testing.T) {
	for _, ver := range []string{"1.2.3-4", "v1.2.3-4", " V1.2.3 ", "", "x"} {
		ver := ver
		srv := httptest.NewServer(http.HandlerFunc(func(w http.ResponseWriter, r *http.Request) {
			oh.WriteVersion(w, r, ver)
		}))
		code, body, err := oh.ApiRequest(srv.URL)
		srv.Close()
		if err != nil || code != 0 {
			t.Fatalf("version %q code=%v err=%v", ver, code, err)
		}
		obj := struct {
			Code   int
			Server int
			Data   struct {
				Major, Minor, Revision, Extra int
				Version                       string
			}
		}{}
		if err := json.Unmarshal(body, &obj); err != nil || obj.Code != 0 || obj.Server != os.Getpid() || obj.Data.Version != ver {
			t.Fatalf("version %q body %s err %v", ver, body, err)
		}
		if ver == "1.2.3-4" && (obj.Data.Major != 1 || obj.Data.Minor != 2 || obj.Data.Revision != 3 || obj.Data.Extra != 4) {
			t.Fatalf("version %q body %s", ver, body)
		}
	}
}
