package websocket

import (
	"bytes"
	"encoding/binary"
	"io"
	"net"
	"testing"
	"time"
)

// k6c14n3Frame builds one raw frame. masked frames use a fixed key.
func k6c14n3Frame(b0 byte, masked bool, payload []byte) []byte {
	var f []byte
	f = append(f, b0)
	mb := byte(0)
	if masked {
		mb = 0x80
	}
	switch {
	case len(payload) < 126:
		f = append(f, mb|byte(len(payload)))
	case len(payload) < 65536:
		f = append(f, mb|126, byte(len(payload)>>8), byte(len(payload)))
	default:
		f = append(f, mb|127)
		var l [8]byte
		binary.BigEndian.PutUint64(l[:], uint64(len(payload)))
		f = append(f, l[:]...)
	}
	if masked {
		key := [4]byte{1, 2, 3, 4}
		f = append(f, key[:]...)
		p := append([]byte(nil), payload...)
		for i := range p {
			p[i] ^= key[i%4]
		}
		return append(f, p...)
	}
	return append(f, payload...)
}

// k6c14n3Run feeds in to a reader of the given role over a net.Pipe and
// returns delivered messages, the final error, and everything the reader
// wrote (unmasked frames parsed as (opcode,payload) pairs).
func k6c14n3Run(t *testing.T, isServer bool, limit int64, in []byte, cut bool) (msgs [][]byte, rerr error, out [][2][]byte) {
	if cut {
		// whole input available, then EOF; output collected in a buffer
		// (the peer stays able to receive, as with a half-closed TCP stream).
		fc := &k6c14n3Conn{r: bytes.NewReader(in)}
		c := newConn(fc, isServer, 0, 0)
		if limit > 0 {
			c.SetReadLimit(limit)
		}
		for {
			_, p, err := c.ReadMessage()
			if err != nil {
				if p != nil {
					t.Fatalf("data %q returned with error %v", p, err)
				}
				rerr = err
				break
			}
			msgs = append(msgs, p)
		}
		return msgs, rerr, k6c14n3Parse(fc.w.Bytes())
	}
	a, b := net.Pipe()
	c := newConn(a, isServer, 0, 0)
	if limit > 0 {
		c.SetReadLimit(limit)
	}
	outc := make(chan []byte, 1)
	go func() {
		var buf bytes.Buffer
		io.Copy(&buf, b)
		outc <- buf.Bytes()
	}()
	go func() {
		b.Write(in)
		if cut {
			b.Close()
		}
	}()
	for {
		_, p, err := c.ReadMessage()
		if err != nil {
			if p != nil {
				t.Fatalf("data %q returned with error %v", p, err)
			}
			rerr = err
			break
		}
		msgs = append(msgs, p)
	}
	// permanence
	for i := 0; i < 3; i++ {
		if _, _, err := c.ReadMessage(); err != rerr {
			t.Fatalf("error not permanent: %v then %v", rerr, err)
		}
	}
	a.Close()
	b.Close()
	var raw []byte
	select {
	case raw = <-outc:
	case <-time.After(5 * time.Second):
		t.Fatal("timeout collecting output")
	}
	return msgs, rerr, k6c14n3Parse(raw)
}

type k6c14n3Conn struct {
	r *bytes.Reader
	w bytes.Buffer
}

func (c *k6c14n3Conn) Read(p []byte) (int, error)         { return c.r.Read(p) }
func (c *k6c14n3Conn) Write(p []byte) (int, error)        { return c.w.Write(p) }
func (c *k6c14n3Conn) Close() error                       { return nil }
func (c *k6c14n3Conn) LocalAddr() net.Addr                { return nil }
func (c *k6c14n3Conn) RemoteAddr() net.Addr               { return nil }
func (c *k6c14n3Conn) SetDeadline(t time.Time) error      { return nil }
func (c *k6c14n3Conn) SetReadDeadline(t time.Time) error  { return nil }
func (c *k6c14n3Conn) SetWriteDeadline(t time.Time) error { return nil }

func k6c14n3Parse(raw []byte) (out [][2][]byte) {
	for len(raw) >= 2 {
		op := raw[0] & 0xf
		n := int(raw[1] & 0x7f)
		masked := raw[1]&0x80 != 0
		raw = raw[2:]
		var key []byte
		if masked {
			key, raw = raw[:4], raw[4:]
		}
		p := append([]byte(nil), raw[:n]...)
		raw = raw[n:]
		for i := range p {
			if masked {
				p[i] ^= key[i%4]
			}
		}
		out = append(out, [2][]byte{{op}, p})
	}
	return
}

func TestKeep6C14N3(t *testing.T) {
	for _, isServer := range []bool{true, false} {
		m := isServer // peer masks iff we are the server
		// ping, text "hello", fragmented binary, then RSV2 violation, then more data
		var in []byte
		in = append(in, k6c14n3Frame(0x89, m, []byte("pp"))...)
		in = append(in, k6c14n3Frame(0x81, m, []byte("hello"))...)
		in = append(in, k6c14n3Frame(0x02, m, []byte("ab"))...)
		in = append(in, k6c14n3Frame(0x80, m, []byte("cd"))...)
		in = append(in, k6c14n3Frame(0x81|0x20, m, []byte("x"))...)
		in = append(in, k6c14n3Frame(0x81, m, []byte("never"))...)
		msgs, err, out := k6c14n3Run(t, isServer, 0, in, false)
		if len(msgs) != 2 || string(msgs[0]) != "hello" || string(msgs[1]) != "abcd" {
			t.Fatalf("server=%v msgs=%q", isServer, msgs)
		}
		if err == nil || err == ErrReadLimit {
			t.Fatalf("err=%v", err)
		}
		if len(out) != 2 || out[0][0][0] != 10 || string(out[0][1]) != "pp" ||
			out[1][0][0] != 8 || binary.BigEndian.Uint16(out[1][1]) != 1002 {
			t.Fatalf("server=%v out=%v", isServer, out)
		}

		// wrong mask -> 1002
		_, err, out = k6c14n3Run(t, isServer, 0, k6c14n3Frame(0x81, !m, []byte("x")), false)
		if err == nil || len(out) != 1 || binary.BigEndian.Uint16(out[0][1]) != 1002 {
			t.Fatalf("wrong mask: %v %v", err, out)
		}

		// 2^63 length -> never a frame
		hdr := []byte{0x82, 127, 0x80, 0, 0, 0, 0, 0, 0, 0}
		if m {
			hdr[1] |= 0x80
		}
		msgs, err, out = k6c14n3Run(t, isServer, 0, hdr, false)
		if len(msgs) != 0 || err == nil || len(out) != 1 || binary.BigEndian.Uint16(out[0][1]) != 1002 {
			t.Fatalf("2^63: %v %v %v", msgs, err, out)
		}

		// read limit 4: "abcd" ok, "ab"+"cde" fragmented -> limit error, ping answered
		in = nil
		in = append(in, k6c14n3Frame(0x82, m, []byte("abcd"))...)
		in = append(in, k6c14n3Frame(0x02, m, []byte("ab"))...)
		in = append(in, k6c14n3Frame(0x89, m, []byte("q"))...)
		in = append(in, k6c14n3Frame(0x80, m, []byte("cde"))...)
		msgs, err, out = k6c14n3Run(t, isServer, 4, in, false)
		if len(msgs) != 1 || string(msgs[0]) != "abcd" || err != ErrReadLimit {
			t.Fatalf("limit: %q %v", msgs, err)
		}
		if len(out) < 1 || out[0][0][0] != 10 || string(out[0][1]) != "q" {
			t.Fatalf("limit out=%v", out)
		}

		// wrong-mask frame with a 64-bit length, stream cut inside the extended length:
		// an error either way, nothing delivered (with this change: already a 1002).
		bad := []byte{0x82, 127, 0, 0, 0}
		if !m {
			bad[1] |= 0x80
		}
		msgs, err, out = k6c14n3Run(t, isServer, 0, append(k6c14n3Frame(0x81, m, []byte("ok")), bad...), true)
		if len(msgs) != 1 || string(msgs[0]) != "ok" || err == nil {
			t.Fatalf("cut bad mask: %q %v", msgs, err)
		}
		if len(out) != 1 || binary.BigEndian.Uint16(out[0][1]) != 1002 {
			t.Fatalf("cut bad mask out=%v", out)
		}
		// wrong mask + 2^63 length: never a frame, 1002
		bad = []byte{0x82, 127, 0xff, 0, 0, 0, 0, 0, 0, 0, 9, 9, 9, 9}
		if !m {
			bad[1] |= 0x80
		}
		msgs, err, out = k6c14n3Run(t, isServer, 0, bad, false)
		if len(msgs) != 0 || err == nil || len(out) != 1 || binary.BigEndian.Uint16(out[0][1]) != 1002 {
			t.Fatalf("bad mask 2^63: %v %v %v", msgs, err, out)
		}

		// cut inside a fragmented message -> error, no short message
		in = nil
		in = append(in, k6c14n3Frame(0x01, m, []byte("ab"))...)
		full := k6c14n3Frame(0x80, m, []byte("cdef"))
		in = append(in, full[:len(full)-2]...)
		msgs, err, _ = k6c14n3Run(t, isServer, 0, in, true)
		if len(msgs) != 0 || err == nil {
			t.Fatalf("cut: %q %v", msgs, err)
		}
	}
}
