package rtmp

import (
	"bytes"
	"reflect"
	"strings"
	"testing"

	"github.com/ossrs/go-oryx-lib/amf0"
)

// Belongs to package directory rtmp/ (in-package test).
func TestKeep5C03N1(t *testing.T) {
	wire := &bytes.Buffer{}
	a, b := NewProtocol(wire), NewProtocol(wire)

	big := NewConnectAppPacket()
	big.CommandObject.Set("tcUrl", amf0.NewString(strings.Repeat("x", 9000)))
	big.Args = amf0.NewObject()
	big.Args.Set("k", amf0.NewNumber(3))

	cs := NewCreateStreamPacket()
	cs.TransactionID = 7

	pub := NewPublishPacket()
	pub.TransactionID = 9
	pub.StreamName = "livestream"

	play := NewPlayPacket()
	play.StreamName = "s"

	call := NewCallPacket()
	call.CommandName = "onStatus"
	call.CommandObject = amf0.NewNull()
	call.Args = amf0.NewObject()

	scs := NewSetChunkSize()
	scs.ChunkSize = 4000
	was := NewWindowAcknowledgementSize()
	was.AckSize = 0xfffffffe
	spb := NewSetPeerBandwidth()
	spb.Bandwidth, spb.LimitType = 77, LimitTypeDynamic
	uc1 := &UserControl{EventType: EventTypeFmsEvent0, EventData: 200}
	uc4 := &UserControl{EventType: EventTypePingRequest, EventData: -5}
	uc8 := &UserControl{EventType: EventTypeSetBufferLength, EventData: 1, ExtraData: -1}

	type step struct {
		pkt  Packet
		sid  int
		want interface{}
	}
	steps := []step{
		{big, 0, &ConnectAppPacket{}}, {was, 0, was}, {was, 0, was}, {spb, 0, spb},
		{scs, 0, scs}, {big, 0, &ConnectAppPacket{}}, {cs, 0, &CallPacket{}}, {cs, 0, &CallPacket{}},
		{pub, 1, &PublishPacket{}}, {pub, 1, &PublishPacket{}}, {play, 1, &CallPacket{}},
		{call, 0, &CallPacket{}}, {NewCloseStreamPacket(), 1, &CallPacket{}},
		{uc1, 0, uc1}, {uc4, 0, uc4}, {uc4, 0, uc4}, {uc8, 0, uc8},
	}

	var formats []byte
	for i, s := range steps {
		payload, err := s.pkt.MarshalBinary()
		if err != nil || len(payload) != s.pkt.Size() {
			t.Fatalf("#%v marshal err=%v len=%v size=%v", i, err, len(payload), s.pkt.Size())
		}
		if err = a.WritePacket(s.pkt, s.sid); err != nil {
			t.Fatalf("#%v write %+v", i, err)
		}
		formats = append(formats, wire.Bytes()[0]>>6)

		m, err := b.ReadMessage()
		if err != nil {
			t.Fatalf("#%v read %+v", i, err)
		}
		if m.MessageType != s.pkt.Type() || !bytes.Equal(m.Payload, payload) {
			t.Fatalf("#%v message differs", i)
		}
		pkt, err := b.DecodeMessage(m)
		if err != nil {
			t.Fatalf("#%v decode %+v", i, err)
		}
		if reflect.TypeOf(pkt) != reflect.TypeOf(s.want) {
			t.Fatalf("#%v type %T want %T", i, pkt, s.want)
		}
		if again, err := pkt.MarshalBinary(); err != nil || !bytes.Equal(again, payload) {
			t.Fatalf("#%v re-marshal differs err=%v", i, err)
		}
		if wire.Len() != 0 {
			t.Fatalf("#%v %v bytes left", i, wire.Len())
		}
	}
	// Outside the statement: the first-chunk header types now vary.
	t.Logf("first chunk fmt of each message: %v", formats)
	if !bytes.Contains(formats, []byte{1}) || !bytes.Contains(formats, []byte{2}) {
		t.Fatalf("expect compressed headers, got %v", formats)
	}

	// Responses: b answers the requests a has sent (tid 1 connect, tid 7 createStream).
	res := NewCreateStreamResPacket(7)
	res.StreamID = 5
	cres := NewConnectAppResPacket(1)
	cres.Args = amf0.NewObject()
	for _, p := range []Packet{res, NewUserControl(), cres, res} {
		if err := b.WritePacket(p, 0); err != nil {
			t.Fatalf("write %+v", err)
		}
	}
	var got *CreateStreamResPacket
	if _, err := a.ExpectPacket(&got); err != nil || got.StreamID != 5 || got.TransactionID != 7 {
		t.Fatalf("expect create stream res %+v %v", err, got)
	}
	var cgot *ConnectAppResPacket
	if _, err := a.ExpectPacket(&cgot); err != nil || cgot.TransactionID != 1 || cgot.Args == nil {
		t.Fatalf("expect connect res %+v", err)
	}
	// The second response for tid 7 has no outstanding request any more.
	if m, err := a.ReadMessage(); err != nil {
		t.Fatalf("read %+v", err)
	} else if _, err = a.DecodeMessage(m); err == nil {
		t.Fatal("expect error for response without request")
	}
}
