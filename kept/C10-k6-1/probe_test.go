package flv_test

import (
	"bytes"
	"reflect"
	"testing"

	"github.com/ossrs/go-oryx-lib/flv"
)

func TestKeep6C10N1(t *testing.T) {
	ap, _ := flv.NewAudioPackager()
	vp, _ := flv.NewVideoPackager()
	raws := [][]byte{{}, {1}, {1, 2, 3, 4, 5, 6, 7}}
	for b0 := 0; b0 < 256; b0++ {
		for _, raw := range raws {
			// audio, frame -> tag -> frame
			f := &flv.AudioFrame{
				SoundFormat: flv.AudioCodec(b0 >> 4), SoundRate: flv.AudioSamplingRate(b0 >> 2 & 3),
				SoundSize: flv.AudioSampleBits(b0 >> 1 & 1), SoundType: flv.AudioChannels(b0 & 1), Raw: raw,
			}
			if f.SoundFormat == flv.AudioCodecAAC {
				f.Trait = flv.AudioFrameTraitRaw
			} else if f.SoundFormat == flv.AudioCodecOpus {
				f.Trait = flv.AudioFrameTraitOpusRaw | flv.AudioFrameTraitOpusSamplingRate | flv.AudioFrameTraitOpusAudioLevel
				f.SoundRate, f.AudioLevel = flv.AudioSamplingRateFB48kHz, 0xbeef
			}
			tag, err := ap.Encode(f)
			if err != nil {
				t.Fatal(err)
			}
			if len(tag) >= 2 {
				g, err := ap.Decode(tag)
				if err != nil {
					t.Fatal(err)
				}
				if len(raw) == 0 {
					g.Raw, f.Raw = nil, nil
				}
				if !reflect.DeepEqual(f, g) {
					t.Fatalf("audio %#x: %+v != %+v", b0, f, g)
				}
				if flv.AudioCodec(tag[0]>>4) != f.SoundFormat {
					t.Fatalf("codec in first byte")
				}
				g.Raw = raw
				if tag2, _ := ap.Encode(g); !bytes.Equal(tag, tag2) {
					t.Fatalf("audio reencode %x != %x", tag2, tag)
				}
			}

			// video
			v := &flv.VideoFrame{CodecID: flv.VideoCodec(b0 & 15), FrameType: flv.VideoFrameType(b0 >> 4), Raw: raw}
			if v.CodecID == flv.VideoCodecAVC || v.CodecID == flv.VideoCodecHEVC {
				v.Trait, v.CTS = flv.VideoFrameTraitNALU, 0xabcdef
			}
			vt, err := vp.Encode(v)
			if err != nil {
				t.Fatal(err)
			}
			if len(vt) >= 5 {
				w, err := vp.Decode(vt)
				if err != nil {
					t.Fatal(err)
				}
				if len(raw) == 0 {
					w.Raw, v.Raw = nil, nil
				}
				if !reflect.DeepEqual(v, w) {
					t.Fatalf("video %#x: %+v != %+v", b0, v, w)
				}
				if vt[0] != byte(b0) {
					t.Fatalf("first byte")
				}
				w.Raw = raw
				if vt2, _ := vp.Encode(w); !bytes.Equal(vt, vt2) {
					t.Fatalf("video reencode")
				}
			}
		}
	}
}
