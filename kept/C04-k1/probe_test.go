package rtmp_test

// Probe for change 1 of C04. Belongs to package directory rtmp/ (external test package rtmp_test).
// Run with: go test -race -count=1 -vet=off -run TestKeep5C04N1 ./rtmp/

import (
	"fmt"
	"io"
	"net"
	"sync"
	"sync/atomic"
	"testing"
	"time"

	"github.com/ossrs/go-oryx-lib/amf0"
	"github.com/ossrs/go-oryx-lib/rtmp"
)

type keep5c04n1Conn struct {
	io.ReadWriter
	writes, wbytes, maxRead int64
}

func (v *keep5c04n1Conn) Write(p []byte) (int, error) {
	atomic.AddInt64(&v.writes, 1)
	atomic.AddInt64(&v.wbytes, int64(len(p)))
	return v.ReadWriter.Write(p)
}

func (v *keep5c04n1Conn) Read(p []byte) (int, error) {
	if n := int64(len(p)); n > atomic.LoadInt64(&v.maxRead) {
		atomic.StoreInt64(&v.maxRead, n)
	}
	return v.ReadWriter.Read(p)
}

func TestKeep5C04N1(t *testing.T) {
	const nn = 200
	cc, sc := net.Pipe()
	defer cc.Close()
	defer sc.Close()
	cc.SetDeadline(time.Now().Add(60 * time.Second))
	sc.SetDeadline(time.Now().Add(60 * time.Second))

	conn := &keep5c04n1Conn{ReadWriter: cc}
	client, server := rtmp.NewProtocol(conn), rtmp.NewProtocol(sc)

	errs := make(chan error, 8)
	var wg sync.WaitGroup

	// The peer: answers each request at once, that is while the client's writer may still be in WritePacket.
	wg.Add(1)
	go func() {
		defer wg.Done()
		for i := 0; i < nn; i++ {
			m, err := server.ReadMessage()
			if err != nil {
				errs <- fmt.Errorf("server read %v: %+v", i, err)
				return
			}
			pkt, err := server.DecodeMessage(m)
			if err != nil {
				errs <- fmt.Errorf("server decode %v: %+v", i, err)
				return
			}
			switch pkt := pkt.(type) {
			case *rtmp.ConnectAppPacket:
				err = server.WritePacket(rtmp.NewConnectAppResPacket(pkt.TransactionID), 0)
			case *rtmp.CallPacket:
				res := rtmp.NewCreateStreamResPacket(pkt.TransactionID)
				res.StreamID = pkt.TransactionID * 10
				err = server.WritePacket(res, 0)
			default:
				err = fmt.Errorf("unexpected request %T", pkt)
			}
			if err != nil {
				errs <- fmt.Errorf("server write %v: %+v", i, err)
				return
			}
		}
	}()

	// The writer: one connect with a long tcUrl (more than one chunk), then createStream with tid 2..nn.
	wg.Add(1)
	go func() {
		defer wg.Done()
		connect := rtmp.NewConnectAppPacket()
		connect.CommandObject.Set("tcUrl", amf0.NewString(fmt.Sprintf("rtmp://localhost/%0300d", 1)))
		if err := client.WritePacket(connect, 0); err != nil {
			errs <- fmt.Errorf("client connect: %+v", err)
			return
		}
		for tid := 2; tid <= nn; tid++ {
			cs := rtmp.NewCreateStreamPacket()
			cs.TransactionID = amf0.Number(tid)
			if err := client.WritePacket(cs, 0); err != nil {
				errs <- fmt.Errorf("client createStream %v: %+v", tid, err)
				return
			}
		}
	}()

	// The reader: every response is matched once and decoded as the response type of its request.
	wg.Add(1)
	go func() {
		defer wg.Done()
		seen := map[amf0.Number]bool{}
		for i := 0; i < nn; i++ {
			m, err := client.ReadMessage()
			if err != nil {
				errs <- fmt.Errorf("client read %v: %+v", i, err)
				return
			}
			pkt, err := client.DecodeMessage(m)
			if err != nil {
				errs <- fmt.Errorf("client decode %v: %+v", i, err)
				return
			}
			var tid amf0.Number
			switch pkt := pkt.(type) {
			case *rtmp.ConnectAppResPacket:
				if tid = pkt.TransactionID; tid != 1 {
					errs <- fmt.Errorf("connect res for tid=%v", tid)
				}
			case *rtmp.CreateStreamResPacket:
				if tid = pkt.TransactionID; tid < 2 || pkt.StreamID != tid*10 {
					errs <- fmt.Errorf("createStream res for tid=%v sid=%v", tid, pkt.StreamID)
				}
			default:
				errs <- fmt.Errorf("unexpected response %T", pkt)
			}
			if seen[tid] {
				errs <- fmt.Errorf("tid=%v matched twice", tid)
			}
			seen[tid] = true

			// The same response can not be matched again.
			if _, err = client.DecodeMessage(m); err == nil {
				errs <- fmt.Errorf("tid=%v matched again", tid)
			}
		}
		if len(seen) != nn {
			errs <- fmt.Errorf("matched %v of %v", len(seen), nn)
		}
	}()

	wg.Wait()
	close(errs)
	for err := range errs {
		t.Error(err)
	}
	t.Logf("client transport: %v writes, %v bytes, largest read buffer %v",
		atomic.LoadInt64(&conn.writes), atomic.LoadInt64(&conn.wbytes), atomic.LoadInt64(&conn.maxRead))
}
