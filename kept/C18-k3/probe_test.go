package logger

import (
	"bytes"
	"context"
	"fmt"
	"os"
	"regexp"
	"strings"
	"sync"
	"testing"
)

type keep5C18N3Buf struct {
	mu sync.Mutex
	b  bytes.Buffer
}

func (v *keep5C18N3Buf) Write(p []byte) (int, error) {
	v.mu.Lock()
	defer v.mu.Unlock()
	return v.b.Write(p)
}

type keep5C18N3Conn int

func (v keep5C18N3Conn) Cid() int { return int(v) }

func TestKeep5C18N3(t *testing.T) {
	w := &keep5C18N3Buf{}
	Switch(w)
	pid := fmt.Sprint(os.Getpid())
	ts := `\d{4}/\d\d/\d\d \d\d:\d\d:\d\d\.\d{6} `

	// Sequential, exact lines: exactly the stated template, one space before the message.
	ctx := WithContext(context.Background())
	cid := fmt.Sprint(ctx.Value(cidKey).(int))
	T(nil, "hello", 1)
	W(keep5C18N3Conn(42), "hello", 2)
	E(ctx, "hello", 3)
	Tf(nil, "%v-%v", "a", "b")
	Wf(keep5C18N3Conn(42), "%[2]v-%[1]v", "a", "b") // explicit indexes refer to user args now.
	Ef(ctx, "100%% %v", "x")
	T(keep5C18N3Conn(42))
	want := []string{
		`\[trace\] ` + ts + `\[` + pid + `\] hello 1`,
		`\[warn\] ` + ts + `\[` + pid + `\]\[42\] hello 2`,
		`\[error\] ` + ts + `\[` + pid + `\]\[` + cid + `\] hello 3`,
		`\[trace\] ` + ts + `\[` + pid + `\] a-b`,
		`\[warn\] ` + ts + `\[` + pid + `\]\[42\] b-a`,
		`\[error\] ` + ts + `\[` + pid + `\]\[` + cid + `\] 100% x`,
		`\[trace\] ` + ts + `\[` + pid + `\]\[42\] `,
	}
	lines := strings.Split(strings.TrimSuffix(w.b.String(), "\n"), "\n")
	if len(lines) != len(want) {
		t.Fatalf("got %v lines: %q", len(lines), lines)
	}
	for i, l := range lines {
		if !regexp.MustCompile("^" + want[i] + "$").MatchString(l) {
			t.Errorf("line %v: %q does not match %v", i, l, want[i])
		}
	}

	// Concurrent: whole lines with the right cid.
	w.b.Reset()
	const G, N = 8, 50
	var wg sync.WaitGroup
	for g := 0; g < G; g++ {
		wg.Add(1)
		go func(g int) {
			defer wg.Done()
			ctx := WithContext(context.Background())
			cid := ctx.Value(cidKey).(int)
			for i := 0; i < N; i++ {
				T(ctx, fmt.Sprintf("cid=%v", cid))
				Wf(ctx, "cid=%v", cid)
				E(keep5C18N3Conn(9000+g), fmt.Sprintf("cid=%v", 9000+g))
				Tf(keep5C18N3Conn(9000+g), "cid=%v", 9000+g)
			}
		}(g)
	}
	wg.Wait()
	re := regexp.MustCompile(`^\[(trace|warn|error)\] ` + ts + `\[` + pid + `\]\[(\d+)\] cid=(\d+)$`)
	lines = strings.Split(strings.TrimSuffix(w.b.String(), "\n"), "\n")
	if len(lines) != G*N*4 {
		t.Fatalf("got %v lines", len(lines))
	}
	for _, l := range lines {
		if m := re.FindStringSubmatch(l); m == nil || m[2] != m[3] {
			t.Fatalf("bad line %q", l)
		}
	}
}
