package flv_test

import (
	"bytes"
	"testing"

	"github.com/ossrs/go-oryx-lib/flv"
)

// Belongs to the package directory flv/ (external test package flv_test).
func TestKeep5C10N3(t *testing.T) {
	ap, _ := flv.NewAudioPackager()
	vp, _ := flv.NewVideoPackager()
	raws := [][]byte{{}, {1}, {1, 2, 3, 4}, bytes.Repeat([]byte{0xab}, 300)}
	opusRates := []flv.AudioSamplingRate{8, 12, 16, 24, 48}

	for b0 := 0; b0 < 256; b0++ {
		for trait := 0; trait < 256; trait++ {
			for _, raw := range raws {
				f := &flv.AudioFrame{
					SoundFormat: flv.AudioCodec(b0 >> 4), SoundRate: flv.AudioSamplingRate(b0 >> 2 & 3),
					SoundSize: flv.AudioSampleBits(b0 >> 1 & 1), SoundType: flv.AudioChannels(b0 & 1),
					Raw: raw,
				}
				switch f.SoundFormat {
				case flv.AudioCodecAAC:
					f.Trait = flv.AudioFrameTrait(trait)
				case flv.AudioCodecOpus:
					f.Trait = flv.AudioFrameTrait(trait)
					f.SoundRate = 0
					if trait&4 != 0 {
						f.SoundRate = opusRates[(b0+trait)%len(opusRates)]
					}
					if trait&8 != 0 {
						f.AudioLevel = uint16(b0<<8 | trait)
					}
				default:
					if trait != 0 {
						continue
					}
					if len(raw) == 0 {
						continue // 1 byte tags are not accepted by Decode (unchanged).
					}
				}
				tag, err := ap.Encode(f)
				if err != nil {
					t.Fatalf("encode %+v: %v", f, err)
				}
				if flv.AudioCodec(tag[0]>>4) != f.SoundFormat {
					t.Fatalf("codec in first byte %x, frame %+v", tag[0], f)
				}
				g, err := ap.Decode(tag)
				if err != nil {
					t.Fatalf("decode %x: %v", tag, err)
				}
				if g.SoundFormat != f.SoundFormat || g.SoundRate != f.SoundRate || g.SoundSize != f.SoundSize ||
					g.SoundType != f.SoundType || g.Trait != f.Trait || g.AudioLevel != f.AudioLevel || !bytes.Equal(g.Raw, f.Raw) {
					t.Fatalf("audio round trip: %+v != %+v", g, f)
				}
				tag2, err := ap.Encode(g)
				if err != nil || !bytes.Equal(tag, tag2) {
					t.Fatalf("audio re-encode: %x != %x (%v)", tag2, tag, err)
				}
			}
		}
	}

	for b0 := 0; b0 < 256; b0++ {
		for trait := 0; trait < 256; trait++ {
			for i, raw := range raws {
				f := &flv.VideoFrame{FrameType: flv.VideoFrameType(b0 >> 4), CodecID: flv.VideoCodec(b0 & 15), Raw: raw}
				if f.CodecID == flv.VideoCodecAVC || f.CodecID == flv.VideoCodecHEVC {
					f.Trait = flv.VideoFrameTrait(trait)
					f.CTS = []int32{0, 1, 0x800000, 0xffffff}[i]
				} else if trait != 0 || len(raw) < 4 {
					continue // tags shorter than 5 bytes are not accepted by Decode (unchanged).
				}
				tag, err := vp.Encode(f)
				if err != nil {
					t.Fatalf("encode %+v: %v", f, err)
				}
				if flv.VideoFrameType(tag[0]>>4) != f.FrameType || flv.VideoCodec(tag[0]&15) != f.CodecID {
					t.Fatalf("first byte %x, frame %+v", tag[0], f)
				}
				g, err := vp.Decode(tag)
				if err != nil {
					t.Fatalf("decode %x: %v", tag, err)
				}
				if g.CodecID != f.CodecID || g.FrameType != f.FrameType || g.Trait != f.Trait || g.CTS != f.CTS || !bytes.Equal(g.Raw, f.Raw) {
					t.Fatalf("video round trip: %+v != %+v", g, f)
				}
				tag2, err := vp.Encode(g)
				if err != nil || !bytes.Equal(tag, tag2) {
					t.Fatalf("video re-encode: %x != %x (%v)", tag2, tag, err)
				}
			}
		}
	}

	for i, hz := range []int{5512, 11025, 22050, 44100} {
		if got := flv.AudioSamplingRate(i).ToHz(); got != hz {
			t.Fatalf("ToHz(%v)=%v", i, got)
		}
	}
	for code, hz := range map[flv.AudioSamplingRate]int{8: 8000, 12: 12000, 16: 16000, 24: 24000, 48: 48000} {
		if got := code.OpusToHz(); got != hz {
			t.Fatalf("OpusToHz(%v)=%v", code, got)
		}
	}
}

// The behaviour outside the statement that changed with change 3.
func TestKeep5C10N3Outside(t *testing.T) {
	ap, _ := flv.NewAudioPackager()

	// Not canonical: a Opus body with rate bits in the first byte, now ignored.
	f, err := ap.Decode([]byte{0xdc, 0x02, 1})
	if err != nil || f.SoundRate != 0 {
		t.Fatalf("rate %v err %v", f.SoundRate, err)
	}
	// Undefined for OpusToHz and ToHz stays 0, each keeps its own defined codes.
	for i := 0; i < 256; i++ {
		v := flv.AudioSamplingRate(i)
		if i <= 3 && v.OpusToHz() != 0 {
			t.Fatalf("OpusToHz(%v)=%v", i, v.OpusToHz())
		}
		if i > 3 && v.ToHz() != v.OpusToHz() {
			t.Fatalf("ToHz(%v)=%v", i, v.ToHz())
		}
	}
	if flv.AudioSamplingRate(48).ToHz() != 48000 || flv.AudioSamplingRate(7).ToHz() != 0 {
		t.Fatal("ToHz")
	}
	if s := flv.AudioFrameTrait(0x10).String(); s != "Forbidden" {
		t.Fatal(s)
	}
}
