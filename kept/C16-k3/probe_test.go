package jose

import (
	"bytes"
	"crypto/ecdsa"
	"crypto/elliptic"
	"crypto/rand"
	"crypto/rsa"
	"encoding/json"
	"fmt"
	"strings"
	"testing"
)

type keep5C16N3KeyPair struct {
	alg      KeyAlgorithm
	enc, dec interface{}
	wrong    interface{}
}

func keep5C16N3Keys(t *testing.T) []keep5C16N3KeyPair {
	rk, err := rsa.GenerateKey(rand.Reader, 2048)
	if err != nil {
		t.Fatal(err)
	}
	rk2, _ := rsa.GenerateKey(rand.Reader, 2048)
	ek, _ := ecdsa.GenerateKey(elliptic.P256(), rand.Reader)
	ek2, _ := ecdsa.GenerateKey(elliptic.P256(), rand.Reader)
	sym := func(n int, b byte) []byte { return bytes.Repeat([]byte{b}, n) }
	out := []keep5C16N3KeyPair{
		{RSA1_5, &rk.PublicKey, rk, rk2},
		{RSA_OAEP, &rk.PublicKey, rk, rk2},
		{RSA_OAEP_256, &rk.PublicKey, rk, rk2},
		{A128KW, sym(16, 1), sym(16, 1), sym(16, 2)},
		{A192KW, sym(24, 1), sym(24, 1), sym(24, 2)},
		{A256KW, sym(32, 1), sym(32, 1), sym(32, 2)},
		{A128GCMKW, sym(16, 1), sym(16, 1), sym(16, 2)},
		{A192GCMKW, sym(24, 1), sym(24, 1), sym(24, 2)},
		{A256GCMKW, sym(32, 1), sym(32, 1), sym(32, 2)},
		{ECDH_ES, &ek.PublicKey, ek, ek2},
		{ECDH_ES_A128KW, &ek.PublicKey, ek, ek2},
		{ECDH_ES_A192KW, &ek.PublicKey, ek, ek2},
		{ECDH_ES_A256KW, &ek.PublicKey, ek, ek2},
		{DIRECT, nil, nil, nil},
	}
	return out
}

func keep5C16N3Flip(b []byte, bit int) []byte {
	out := append([]byte{}, b...)
	out[bit/8] ^= 1 << uint(bit%8)
	return out
}

// TestKeep5C16N3JWE: every key management x content encryption x compression
// combination round-trips through both serializations and rejects tampering.
func TestKeep5C16N3JWE(t *testing.T) {
	encs := []ContentEncryption{A128GCM, A192GCM, A256GCM, A128CBC_HS256, A192CBC_HS384, A256CBC_HS512}
	payloads := [][]byte{{}, []byte("x"), bytes.Repeat([]byte("a"), 15), bytes.Repeat([]byte("ab"), 8),
		bytes.Repeat([]byte{0}, 4097), []byte("Lorem ipsum dolor sit amet, 0123456789")}
	for _, kp := range keep5C16N3Keys(t) {
		for _, enc := range encs {
			for _, zip := range []CompressionAlgorithm{NONE, DEFLATE} {
				ek, dk, wk := kp.enc, kp.dec, kp.wrong
				if kp.alg == DIRECT {
					n := getContentCipher(enc).keySize()
					ek, dk, wk = bytes.Repeat([]byte{7}, n), bytes.Repeat([]byte{7}, n), bytes.Repeat([]byte{8}, n)
				}
				for pi, pt := range payloads {
					name := fmt.Sprintf("%s/%s/%q/%d", kp.alg, enc, zip, pi)
					e, err := NewEncrypter(kp.alg, enc, ek)
					if err != nil {
						t.Fatalf("%s: %v", name, err)
					}
					e.SetCompression(zip)
					aad := []byte(nil)
					if pi%2 == 1 {
						aad = []byte("some aad")
					}
					obj, err := e.EncryptWithAuthData(pt, aad)
					if err != nil {
						t.Fatalf("%s: %v", name, err)
					}
					sers := []string{obj.FullSerialize()}
					if aad == nil {
						c, err := obj.CompactSerialize()
						if err != nil {
							t.Fatalf("%s: %v", name, err)
						}
						sers = append(sers, c)
					}
					for _, s := range sers {
						p, err := ParseEncrypted(s)
						if err != nil {
							t.Fatalf("%s: parse: %v\n%s", name, err, s)
						}
						got, err := p.Decrypt(dk)
						if err != nil || !bytes.Equal(got, pt) {
							t.Fatalf("%s: decrypt: %v (%d vs %d bytes)\n%s", name, err, len(got), len(pt), s)
						}
						if !bytes.Equal(p.GetAuthData(), aad) {
							t.Fatalf("%s: aad mismatch", name)
						}
						if _, err := p.Decrypt(wk); err == nil {
							t.Fatalf("%s: wrong key accepted", name)
						}
						// tamper every decoded field, a few bits each
						fields := map[string]*[]byte{"iv": &p.iv, "ct": &p.ciphertext, "tag": &p.tag, "ek": &p.recipients[0].encryptedKey}
						for fname, f := range fields {
							orig := *f
							for bit := 0; pi%3 == 0 && bit < len(orig)*8; bit += len(orig)/2 + 1 {
								*f = keep5C16N3Flip(orig, bit)
								if _, err := p.Decrypt(dk); err == nil {
									t.Fatalf("%s: tampered %s bit %d accepted", name, fname, bit)
								}
							}
							*f = orig
						}
						if _, err := p.Decrypt(dk); err != nil {
							t.Fatalf("%s: restore failed: %v", name, err)
						}
						// tamper the protected header
						prot := p.original.Protected.data
						for bit := 0; pi%3 == 0 && bit < len(prot)*8; bit += len(prot)/2 + 1 {
							p.original.Protected = newBuffer(keep5C16N3Flip(prot, bit))
							if _, err := p.Decrypt(dk); err == nil {
								t.Fatalf("%s: tampered protected bit %d accepted", name, bit)
							}
						}
					}
				}
			}
		}
	}
}

// TestKeep5C16N3JWS: every signature algorithm round-trips and rejects tampering.
func TestKeep5C16N3JWS(t *testing.T) {
	rk, _ := rsa.GenerateKey(rand.Reader, 2048)
	rk2, _ := rsa.GenerateKey(rand.Reader, 2048)
	type sk struct {
		alg            SignatureAlgorithm
		sign, ver, bad interface{}
	}
	var keys []sk
	for _, a := range []SignatureAlgorithm{HS256, HS384, HS512} {
		keys = append(keys, sk{a, []byte("0123456789abcdef0123456789abcdef"), []byte("0123456789abcdef0123456789abcdef"), []byte("0123456789abcdef0123456789abcdeg")})
	}
	for _, a := range []SignatureAlgorithm{RS256, RS384, RS512, PS256, PS384, PS512} {
		keys = append(keys, sk{a, rk, &rk.PublicKey, &rk2.PublicKey})
	}
	for a, c := range map[SignatureAlgorithm]elliptic.Curve{ES256: elliptic.P256(), ES384: elliptic.P384(), ES512: elliptic.P521()} {
		k, _ := ecdsa.GenerateKey(c, rand.Reader)
		k2, _ := ecdsa.GenerateKey(c, rand.Reader)
		keys = append(keys, sk{a, k, &k.PublicKey, &k2.PublicKey})
	}
	for _, k := range keys {
		for _, pt := range [][]byte{{}, []byte("x"), bytes.Repeat([]byte("p"), 64), []byte(`{"a":1}`)} {
			s, err := NewSigner(k.alg, k.sign)
			if err != nil {
				t.Fatal(err)
			}
			obj, err := s.Sign(pt)
			if err != nil {
				t.Fatal(err)
			}
			c, err := obj.CompactSerialize()
			if err != nil {
				t.Fatal(err)
			}
			for _, ser := range []string{c, obj.FullSerialize()} {
				p, err := ParseSigned(ser)
				if err != nil {
					t.Fatalf("%s: %v", k.alg, err)
				}
				got, err := p.Verify(k.ver)
				if err != nil || !bytes.Equal(got, pt) {
					t.Fatalf("%s: verify %v", k.alg, err)
				}
				if _, err := p.Verify(k.bad); err == nil {
					t.Fatalf("%s: wrong key accepted", k.alg)
				}
				sig := p.Signatures[0].Signature
				for bit := 0; bit < len(sig)*8; bit += len(sig)/2 + 1 {
					p.Signatures[0].Signature = keep5C16N3Flip(sig, bit)
					if _, err := p.Verify(k.ver); err == nil {
						t.Fatalf("%s: tampered signature bit %d accepted", k.alg, bit)
					}
				}
				p.Signatures[0].Signature = sig
				for bit := 0; bit < len(pt)*8; bit += 9 {
					p.payload = keep5C16N3Flip(pt, bit)
					if _, err := p.Verify(k.ver); err == nil {
						t.Fatalf("%s: tampered payload bit %d accepted", k.alg, bit)
					}
				}
				p.payload = pt
				prot := p.Signatures[0].original.Protected.data
				for bit := 0; bit < len(prot)*8; bit += len(prot)/2 + 1 {
					p.Signatures[0].original.Protected = newBuffer(keep5C16N3Flip(prot, bit))
					if _, err := p.Verify(k.ver); err == nil {
						t.Fatalf("%s: tampered protected bit %d accepted", k.alg, bit)
					}
				}
			}
		}
	}
}

// TestKeep5C16N3JWK: keys (incl. leading-zero EC coordinates) round-trip.
func TestKeep5C16N3JWK(t *testing.T) {
	for _, c := range []elliptic.Curve{elliptic.P256(), elliptic.P384(), elliptic.P521()} {
		seenX, seenD := false, false
		for i := 0; i < 3000 && !(seenX && seenD); i++ {
			k, _ := ecdsa.GenerateKey(c, rand.Reader)
			size := curveSize(c)
			lzX := len(k.X.Bytes()) < size || len(k.Y.Bytes()) < size
			lzD := len(k.D.Bytes()) < size
			if c == elliptic.P521() { // top byte holds a single bit, look for a zero second byte instead
				lzX = lzX || k.X.Bit(519) == 0
			}
			if !lzX && !lzD && i > 2 {
				continue
			}
			seenX, seenD = seenX || lzX, seenD || lzD
			for _, key := range []interface{}{k, &k.PublicKey} {
				data, err := json.Marshal(&JsonWebKey{Key: key, KeyID: "kid"})
				if err != nil {
					t.Fatal(err)
				}
				var back JsonWebKey
				if err := json.Unmarshal(data, &back); err != nil {
					t.Fatalf("%v: %s", err, data)
				}
				switch bk := back.Key.(type) {
				case *ecdsa.PrivateKey:
					if !bk.Equal(k) {
						t.Fatalf("private key differs: %s", data)
					}
				case *ecdsa.PublicKey:
					if !bk.Equal(&k.PublicKey) {
						t.Fatalf("public key differs: %s", data)
					}
				default:
					t.Fatalf("unexpected %T", bk)
				}
				if back.KeyID != "kid" || strings.Contains(string(data), "=") {
					t.Fatalf("bad jwk %s", data)
				}
			}
		}
	}
}

// TestKeep5C16N3Zip shows the changed outside behaviour (when "zip" is used and
// how large the ciphertext is) and that decryption still returns the payload.
func TestKeep5C16N3Zip(t *testing.T) {
	key := bytes.Repeat([]byte{3}, 16)
	random := make([]byte, 1000)
	rand.Read(random)
	cases := map[string][]byte{
		"empty":        {},
		"tiny":         []byte("x"),
		"random":       random,
		"compressible": bytes.Repeat([]byte(`{"name":"value","n":12345},`), 100),
	}
	for name, pt := range cases {
		e, _ := NewEncrypter(DIRECT, A128GCM, key)
		e.SetCompression(DEFLATE)
		obj, err := e.Encrypt(pt)
		if err != nil {
			t.Fatal(err)
		}
		t.Logf("%s: %d byte payload, zip=%q, %d byte ciphertext", name, len(pt), obj.protected.Zip, len(obj.ciphertext))
		c, _ := obj.CompactSerialize()
		for _, s := range []string{c, obj.FullSerialize()} {
			p, err := ParseEncrypted(s)
			if err != nil {
				t.Fatal(err)
			}
			got, err := p.Decrypt(key)
			if err != nil || !bytes.Equal(got, pt) {
				t.Fatalf("%s: %v", name, err)
			}
			if len(p.ciphertext) > 0 {
				p.ciphertext = keep5C16N3Flip(p.ciphertext, 0)
				if _, err := p.Decrypt(key); err == nil {
					t.Fatalf("%s: tampered ciphertext accepted", name)
				}
			}
		}
	}
}
