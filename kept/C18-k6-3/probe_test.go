package logger_test

import (
	"bytes"
	"context"
	"fmt"
	"os"
	"regexp"
	"strings"
	"sync"
	"testing"

	ol "github.com/ossrs/go-oryx-lib/logger"
)

type lockedBuf3 struct {
	mu sync.Mutex
	b  bytes.Buffer
}

func (v *lockedBuf3) Write(p []byte) (int, error) {
	v.mu.Lock()
	defer v.mu.Unlock()
	return v.b.Write(p)
}

type objCtx3 int

func (v objCtx3) Cid() int { return int(v) }

func TestKeep6C18N3(t *testing.T) {
	w := &lockedBuf3{}
	ol.Switch(w)
	defer ol.Switch(os.Stdout)

	const G, M = 16, 50
	var wg sync.WaitGroup
	var mu sync.Mutex
	expect := map[string]bool{} // "label|prefix|msg"
	for g := 0; g < G; g++ {
		wg.Add(1)
		go func(g int) {
			defer wg.Done()
			for i := 0; i < M; i++ {
				msg := fmt.Sprintf("m-%v-%v", g, i)
				// A fresh context, an alias of it, and a child of it: all log the same cid.
				ctx := ol.WithContext(context.Background())
				ol.T(ctx, msg+"-a")
				ol.Wf(ol.AliasContext(context.Background(), ctx), "%v", msg+"-b")
				child, cancel := context.WithCancel(ctx)
				ol.E(child, msg+"-c")
				cancel()
				ol.Tf(nil, "%v", msg+"-d")
				ol.Ef(objCtx3(g*1000+i), "%v", msg+"-e")
				mu.Lock()
				expect[msg] = true
				mu.Unlock()
			}
		}(g)
	}
	wg.Wait()

	pid := os.Getpid()
	re := regexp.MustCompile(`^\[(trace|warn|error)\] \d{4}/\d\d/\d\d \d\d:\d\d:\d\d\.\d{6} \[(\d+)\](?:\[(\d+)\])? +(m-(\d+)-(\d+))-([a-e])$`)
	lines := strings.Split(strings.TrimSuffix(w.b.String(), "\n"), "\n")
	if len(lines) != G*M*5 {
		t.Fatalf("lines %v != %v", len(lines), G*M*5)
	}
	cidOf := map[string]string{}  // msg => cid
	owner := map[string]string{} // cid => msg
	for _, l := range lines {
		m := re.FindStringSubmatch(l)
		if m == nil {
			t.Fatalf("broken line %q", l)
		}
		if m[2] != fmt.Sprint(pid) {
			t.Fatalf("pid in %q", l)
		}
		msg, cid := m[4], m[3]
		switch m[7] {
		case "a", "b", "c":
			if cid == "" {
				t.Fatalf("no cid in %q", l)
			}
			if o, ok := cidOf[msg]; ok && o != cid {
				t.Fatalf("alias/child cid differs %q vs %q for %v", o, cid, msg)
			}
			cidOf[msg] = cid
			if o, ok := owner[cid]; ok && o != msg {
				t.Fatalf("cid %v reused by %v and %v", cid, o, msg)
			}
			owner[cid] = msg
		case "d":
			if cid != "" {
				t.Fatalf("nil ctx has cid in %q", l)
			}
		case "e":
			var g, i int
			fmt.Sscanf(msg, "m-%d-%d", &g, &i)
			if cid != fmt.Sprint(g*1000+i) {
				t.Fatalf("object cid in %q", l)
			}
		}
	}
	if len(owner) != G*M {
		t.Fatalf("distinct cids %v != %v", len(owner), G*M)
	}
}

// Alias of a context which already carries the cid, deadline/cancel propagation through the cid context.
func TestKeep6C18N3Alias(t *testing.T) {
	w := &lockedBuf3{}
	ol.Switch(w)
	defer ol.Switch(os.Stdout)

	type k string
	base, cancel := context.WithCancel(context.WithValue(context.Background(), k("k"), "v"))
	src := ol.WithContext(base)
	child, cancel2 := context.WithCancel(src)
	defer cancel2()
	a1 := ol.AliasContext(child, src)                // parent already has the cid
	a2 := ol.AliasContext(context.Background(), src) // fresh parent
	a3 := ol.AliasContext(ol.WithContext(context.Background()), src) // parent has another cid
	for _, c := range []context.Context{src, child, a1, a2, a3} {
		ol.T(c, "x")
	}
	lines := strings.Split(strings.TrimSuffix(w.b.String(), "\n"), "\n")
	if len(lines) != 5 {
		t.Fatalf("lines %q", lines)
	}
	suffix := lines[0][strings.Index(lines[0], " ["):]
	for _, l := range lines {
		if !strings.HasSuffix(l, suffix) || !strings.HasSuffix(l, "] x") {
			t.Fatalf("line %q, expect suffix %q", l, suffix)
		}
	}
	if src.Value(k("k")) != "v" || child.Value(k("k")) != "v" {
		t.Fatal("value lost")
	}
	cancel()
	<-child.Done()
	if src.Err() == nil || child.Err() == nil {
		t.Fatal("cancel not propagated")
	}
}
