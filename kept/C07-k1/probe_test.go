package flv

import (
	"bytes"
	"io"
	"math/rand"
	"testing"
)

// Belongs to package directory flv/.
func TestKeep5C07N1(t *testing.T) {
	rnd := rand.New(rand.NewSource(7))
	ap, _ := NewAudioPackager()
	vp, _ := NewVideoPackager()
	for i := 0; i < 20000; i++ {
		b := make([]byte, rnd.Intn(64))
		rnd.Read(b)
		if i%3 == 0 && len(b) > 3 {
			copy(b, "FLV")
		}
		ap.Decode(b)
		vp.Decode(b)
		d, _ := NewDemuxer(bytes.NewReader(b))
		d.ReadHeader()
		for {
			_, sz, _, err := d.ReadTagHeader()
			if err != nil {
				break
			}
			if _, err = d.ReadTag(sz); err != nil {
				break
			}
		}
	}

	// Changed outside behaviour: short non-AVC/non-AAC tags decode now.
	if f, err := vp.Decode([]byte{0x22, 0x01}); err != nil || len(f.Raw) != 1 {
		t.Fatalf("h263 tag: %v %v", f, err)
	}
	if _, err := vp.Decode([]byte{0x17, 0x01}); err == nil {
		t.Fatal("short avc tag must fail")
	}
	if f, err := ap.Decode([]byte{0x2f}); err != nil || len(f.Raw) != 0 {
		t.Fatalf("mp3 tag: %v %v", f, err)
	}
	if _, err := ap.Decode([]byte{0xaf}); err == nil {
		t.Fatal("short aac tag must fail")
	}

	// The last tag without the previous tag size, and a truncated tag.
	d, _ := NewDemuxer(bytes.NewReader([]byte{9, 0, 0, 2, 0, 0, 0, 0, 0, 0, 0, 0x22, 0x01}))
	_, sz, _, err := d.ReadTagHeader()
	if err != nil || sz != 2 {
		t.Fatal(sz, err)
	}
	if tag, err := d.ReadTag(sz); err != nil || len(tag) != 2 {
		t.Fatal(tag, err)
	}
	d, _ = NewDemuxer(bytes.NewReader([]byte{9, 0, 0, 2, 0, 0, 0, 0, 0, 0, 0, 0x22}))
	d.ReadTagHeader()
	if _, err := d.ReadTag(2); err != io.ErrUnexpectedEOF {
		t.Fatal(err)
	}
	if _, err := d.ReadTag(0xffffffff); err != io.EOF {
		t.Fatal(err)
	}
}
