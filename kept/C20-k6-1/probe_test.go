package kxps

// Probe for keep6 C20 change 1. Belongs to package directory kxps/ (internal test).

import (
	"math"
	"math/rand"
	"runtime"
	"testing"
	"time"
)

type keep6C20N1Src struct{ n uint64 }

func (s *keep6C20N1Src) TotalBytes() uint64 { return s.n }

func keep6C20N1Refused(f func() float64) (refused bool) {
	defer func() {
		if r := recover(); r != nil {
			refused = true
		}
	}()
	f()
	return
}

func TestKeep6C20N1(t *testing.T) {
	// Reading before the meter is started is refused, also for a closed never-started meter.
	src := &keep6C20N1Src{}
	k := NewKbps(nil, src)
	for _, f := range []func() float64{k.Kbps10s, k.Kbps30s, k.Kbps300s, k.Average} {
		if !keep6C20N1Refused(f) {
			t.Fatal("read before start not refused")
		}
	}
	k.Close()
	if err := k.Start(); err == nil {
		t.Fatal("start of closed meter should fail")
	}
	if !keep6C20N1Refused(k.Kbps10s) {
		t.Fatal("read of never started meter not refused")
	}

	// Windows against a small reference model, random histories.
	rnd := rand.New(rand.NewSource(20))
	for iter := 0; iter < 300; iter++ {
		src := &keep6C20N1Src{}
		kb := NewKbps(nil, src).(*kbps)
		kb.imp.started = true
		now := time.Unix(1000, 0)
		type win struct {
			d     time.Duration
			last  time.Time
			count uint64
			rate  float64
		}
		ws := []*win{{d: 10 * time.Second}, {d: 30 * time.Second}, {d: 300 * time.Second}}
		inited := false
		for step := 0; step < 60; step++ {
			now = now.Add(time.Duration(rnd.Intn(40000)) * time.Millisecond)
			switch rnd.Intn(6) {
			case 0: // stall
			case 1:
				src.n = uint64(rnd.Intn(1000)) // reset
			default:
				src.n += uint64(rnd.Intn(1 << 20))
			}
			if err := kb.imp.doSample(now); err != nil {
				t.Fatal(err)
			}
			if src.n != 0 {
				if !inited {
					inited = true
					for _, w := range ws {
						w.last, w.count = now, src.n
					}
				} else {
					for _, w := range ws {
						if w.last.Add(w.d).After(now) {
							break
						}
						diff := int64(src.n - w.count)
						w.last, w.count, w.rate = now, src.n, 0
						if diff > 0 {
							w.rate = float64(diff) / w.d.Seconds()
						}
					}
				}
			}
			got := []float64{kb.Kbps10s(), kb.Kbps30s(), kb.Kbps300s()}
			for i, w := range ws {
				want := w.rate * 8 / 1000
				if math.IsNaN(got[i]) || math.IsInf(got[i], 0) || got[i] < 0 || math.Abs(got[i]-want) > 1e-9*(1+want) {
					t.Fatalf("window %v: got %v want %v", w.d, got[i], want)
				}
			}
		}
	}

	// Average over the time since the first non-zero observation.
	s2 := &keep6C20N1Src{}
	k2 := NewKbps(nil, s2).(*kbps)
	k2.imp.started = true
	if v := k2.imp.sampleAverage(time.Unix(5, 0)); v != 0 {
		t.Fatal(v)
	}
	s2.n = 1000
	k2.imp.sampleAverage(time.Unix(10, 0))
	s2.n = 6000
	if v := k2.imp.sampleAverage(time.Unix(20, 0)); v != 500 {
		t.Fatal(v)
	}
	s2.n = 10
	if v := k2.imp.sampleAverage(time.Unix(30, 0)); v != 0 {
		t.Fatal(v)
	}

	// Changed behaviour outside the statement: a started meter stays readable after Close,
	// Start is idempotent and the sampler goroutine quits at once on Close.
	s3 := &keep6C20N1Src{n: 7}
	k3 := NewKbps(nil, s3)
	base := runtime.NumGoroutine()
	if err := k3.Start(); err != nil {
		t.Fatal(err)
	}
	if err := k3.Start(); err != nil {
		t.Fatal(err)
	}
	time.Sleep(50 * time.Millisecond)
	if n := runtime.NumGoroutine(); n != base+1 {
		t.Fatalf("goroutines %v want %v", n, base+1)
	}
	k3.Close()
	k3.Close()
	time.Sleep(50 * time.Millisecond)
	if n := runtime.NumGoroutine(); n != base {
		t.Fatalf("goroutines after close %v want %v", n, base)
	}
	if keep6C20N1Refused(k3.Kbps10s) || k3.Kbps10s() != 0 {
		t.Fatal("started+closed meter should stay readable")
	}
}
