package websocket

import (
	"bytes"
	"io"
	"net"
	"testing"
	"time"
)

type keep5C13n2Conn struct {
	r io.Reader
	w io.Writer
}

func (c keep5C13n2Conn) Read(p []byte) (int, error)         { return c.r.Read(p) }
func (c keep5C13n2Conn) Write(p []byte) (int, error)        { return c.w.Write(p) }
func (c keep5C13n2Conn) Close() error                       { return nil }
func (c keep5C13n2Conn) LocalAddr() net.Addr                { return nil }
func (c keep5C13n2Conn) RemoteAddr() net.Addr               { return nil }
func (c keep5C13n2Conn) SetDeadline(t time.Time) error      { return nil }
func (c keep5C13n2Conn) SetReadDeadline(t time.Time) error  { return nil }
func (c keep5C13n2Conn) SetWriteDeadline(t time.Time) error { return nil }

func TestKeep5C13N2(t *testing.T) {
	sizes := []int{0, 1, 125, 126, 255, 256, 257, 4096, 65536, 70000}
	for _, isServer := range []bool{true, false} {
		for _, level := range []int{-2, 0, 1, 9} {
			var wire bytes.Buffer
			wc := newConn(keep5C13n2Conn{w: &wire}, isServer, 512, 512)
			rc := newConn(keep5C13n2Conn{r: &wire}, !isServer, 512, 512)
			wc.newCompressionWriter = compressNoContextTakeover
			rc.newDecompressionReader = decompressNoContextTakeover
			if err := wc.SetCompressionLevel(level); err != nil {
				t.Fatal(err)
			}
			for _, n := range sizes {
				data := bytes.Repeat([]byte("abcdefg "), n/8+1)[:n]
				for mode := 0; mode < 3; mode++ {
					mt := TextMessage + (n+mode)%2
					start := wire.Len()
					if start != 0 {
						t.Fatalf("wire not drained")
					}
					var err error
					switch mode {
					case 0:
						err = wc.WriteMessage(mt, data)
					case 1:
						var w io.WriteCloser
						if w, err = wc.NextWriter(mt); err == nil {
							if _, err = w.Write(data); err == nil {
								err = w.Close()
							}
						}
					case 2:
						var pm *PreparedMessage
						if pm, err = NewPreparedMessage(mt, data); err == nil {
							err = wc.WritePreparedMessage(pm)
						}
					}
					if err != nil {
						t.Fatalf("write n=%d mode=%d: %v", n, mode, err)
					}
					rsv1 := wire.Bytes()[0]&0x40 != 0
					wantRsv1 := mode == 1 || n >= 256
					if rsv1 != wantRsv1 {
						t.Fatalf("server=%v n=%d mode=%d: rsv1=%v want %v", isServer, n, mode, rsv1, wantRsv1)
					}
					gotType, got, err := rc.ReadMessage()
					if err != nil || gotType != mt || !bytes.Equal(got, data) {
						t.Fatalf("server=%v level=%d n=%d mode=%d: type=%d err=%v equal=%v", isServer, level, n, mode, gotType, err, bytes.Equal(got, data))
					}
				}
			}
		}
	}
}
