package kxps

// Probe for keep6 C20 change 3. Belongs to package directory kxps/ (internal test).

import (
	"math"
	"math/rand"
	"testing"
	"time"
)

type keep6C20N3Src struct{ n uint64 }

func (s *keep6C20N3Src) TotalBytes() uint64 { return s.n }

func keep6C20N3Refused(f func() float64) (refused bool) {
	defer func() {
		if r := recover(); r != nil {
			refused = true
		}
	}()
	f()
	return
}

func TestKeep6C20N3(t *testing.T) {
	// Reading before the meter is started is refused, also for a closed never-started meter.
	src := &keep6C20N3Src{}
	k := NewKbps(nil, src)
	for _, f := range []func() float64{k.Kbps10s, k.Kbps30s, k.Kbps300s, k.Average} {
		if !keep6C20N3Refused(f) {
			t.Fatal("read before start not refused")
		}
	}
	// Windows against a small reference model, random histories.
	rnd := rand.New(rand.NewSource(20))
	for iter := 0; iter < 300; iter++ {
		src := &keep6C20N3Src{}
		kb := NewKbps(nil, src).(*kbps)
		kb.imp.started = true
		now := time.Unix(1000, 0)
		type win struct {
			d     time.Duration
			last  time.Time
			count uint64
			rate  float64
		}
		ws := []*win{{d: 10 * time.Second}, {d: 30 * time.Second}, {d: 300 * time.Second}}
		inited := false
		for step := 0; step < 60; step++ {
			now = now.Add(time.Duration(rnd.Intn(40000)) * time.Millisecond)
			switch rnd.Intn(6) {
			case 0: // stall
			case 1:
				src.n = uint64(rnd.Intn(1000)) // reset
			default:
				src.n += uint64(rnd.Intn(1 << 20))
			}
			if err := kb.imp.doSample(now); err != nil {
				t.Fatal(err)
			}
			if src.n != 0 {
				if !inited {
					inited = true
					for _, w := range ws {
						w.last, w.count = now, src.n
					}
				} else {
					for _, w := range ws {
						if w.last.Add(w.d).After(now) {
							break
						}
						diff := int64(src.n - w.count)
						w.last, w.count, w.rate = now, src.n, 0
						if diff > 0 {
							w.rate = float64(diff) / w.d.Seconds()
						}
					}
				}
			}
			got := []float64{kb.Kbps10s(), kb.Kbps30s(), kb.Kbps300s()}
			for i, w := range ws {
				want := w.rate * 8 / 1000
				if math.IsNaN(got[i]) || math.IsInf(got[i], 0) || got[i] < 0 || math.Abs(got[i]-want) > 1e-9*(1+want) {
					t.Fatalf("window %v: got %v want %v", w.d, got[i], want)
				}
			}
		}
	}

	// Average over the time since the first non-zero observation.
	s2 := &keep6C20N3Src{}
	k2 := NewKbps(nil, s2).(*kbps)
	k2.imp.started = true
	if v := k2.imp.sampleAverage(time.Unix(5, 0)); v != 0 {
		t.Fatal(v)
	}
	s2.n = 1000
	k2.imp.sampleAverage(time.Unix(10, 0))
	s2.n = 6000
	if v := k2.imp.sampleAverage(time.Unix(20, 0)); v != 500 {
		t.Fatal(v)
	}
	s2.n = 10
	if v := k2.imp.sampleAverage(time.Unix(30, 0)); v != 0 {
		t.Fatal(v)
	}

	// Changed behaviour outside the statement: one read of the source per Average evaluation,
	// so a counter that moves between two reads inside one evaluation is seen consistently.
	live := &keep6C20N3Live{n: 1000, step: 1000}
	k4 := NewKbps(nil, live).(*kbps)
	k4.imp.started = true
	if v := k4.imp.sampleAverage(time.Unix(100, 0)); v != 0 || live.calls != 1 {
		t.Fatalf("first average %v, source read %v times (want 1)", v, live.calls)
	}
	if k4.imp.average != 1000 {
		t.Fatalf("baseline %v, want the value seen by the zero check (1000)", k4.imp.average)
	}
	live.calls = 0
	if v := k4.imp.sampleAverage(time.Unix(110, 0)); v != 100 || live.calls != 1 {
		t.Fatalf("second average %v (want 100), source read %v times (want 1)", v, live.calls)
	}

	// The getters and Average() are serialized with the sampler, and still work while sampling goes on.
	s5 := &keep6C20N3Src{n: 5}
	k5 := NewKbps(nil, s5)
	if err := k5.Start(); err != nil {
		t.Fatal(err)
	}
	done := make(chan bool)
	go func() {
		for i := 0; i < 1000; i++ {
			k5.(*kbps).imp.sample()
		}
		done <- true
	}()
	for i := 0; i < 1000; i++ {
		if k5.Kbps10s() != 0 || k5.Kbps30s() != 0 || k5.Kbps300s() != 0 || k5.Average() != 0 {
			t.Fatal("constant counter must report 0")
		}
	}
	<-done
	k5.Close()
	if !keep6C20N3Refused(k5.Kbps10s) {
		t.Fatal("closed meter should still refuse, as before")
	}
}

// A live counter: grows by step at every read.
type keep6C20N3Live struct {
	n, step uint64
	calls   int
}

func (s *keep6C20N3Live) TotalBytes() uint64 {
	s.calls++
	v := s.n
	s.n += s.step
	return v
}
