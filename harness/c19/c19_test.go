// C19: HTTP API responses are a well-formed envelope that the client half reads back;
// success and failure are never confused.
package c19

import (
	"bytes"
	"encoding/json"
	"errors"
	"fmt"
	"math"
	"net/http"
	"net/http/httptest"
	"net/url"
	"os"
	"reflect"
	"strings"
	"sync"
	"testing"

	oh "github.com/ossrs/go-oryx-lib/http"
	"github.com/ossrs/go-oryx-lib/logger"
	"pgregory.net/rapid"
	"verif/harness/internal/ev"
)

const prop = "C19"

type nopCloser struct{}

func (nopCloser) Write(p []byte) (int, error) { return len(p), nil }
func (nopCloser) Close() error                { return nil }

var (
	srv   *httptest.Server
	curMu sync.Mutex
	curH  http.Handler
)

func TestMain(m *testing.M) {
	logger.Switch(nopCloser{}) // the handlers log every error; keep the run quiet
	srv = httptest.NewServer(http.HandlerFunc(func(w http.ResponseWriter, r *http.Request) {
		curMu.Lock()
		h := curH
		curMu.Unlock()
		h.ServeHTTP(w, r)
	}))
	defer srv.Close()
	ev.Main(m)
}

// Val is a replayable description of a Go value handed to the success handler.
type Val struct {
	K    string   `json:"k"` // nil bool int float str bigstr (I = length) list map struct nan inf chan func
	B    bool     `json:"b,omitempty"`
	I    int64    `json:"i,omitempty"`
	F    float64  `json:"f,omitempty"`
	S    ev.Hex   `json:"s,omitempty"`
	Elem []Val    `json:"elem,omitempty"`
	Keys []string `json:"keys,omitempty"`
}

type tagged struct {
	Name  string      `json:"name"`
	Count int         `json:"count,omitempty"`
	Inner interface{} `json:"inner"`
	skip  int
	Dash  string `json:"-"`
}

func (v Val) build() interface{} {
	switch v.K {
	case "nil":
		return nil
	case "bool":
		return v.B
	case "int":
		return v.I
	case "float":
		return v.F
	case "str":
		return string(v.S)
	case "bigstr":
		return strings.Repeat("0123456789abcdef", int(v.I)/16+1)[:v.I]
	case "list":
		l := make([]interface{}, 0, len(v.Elem))
		for _, e := range v.Elem {
			l = append(l, e.build())
		}
		return l
	case "map":
		m := map[string]interface{}{}
		for i, e := range v.Elem {
			m[v.Keys[i]] = e.build()
		}
		return m
	case "struct":
		t := tagged{Name: string(v.S), Count: int(v.I), skip: 3, Dash: "hidden"}
		if len(v.Elem) > 0 {
			t.Inner = v.Elem[0].build()
		}
		return t
	case "nan":
		return math.NaN()
	case "inf":
		return []interface{}{1, math.Inf(1)}
	case "chan":
		return map[string]interface{}{"c": make(chan int)}
	case "func":
		return func() {}
	}
	panic("kind " + v.K)
}

func (v Val) marshalable() bool {
	switch v.K {
	case "nan", "inf", "chan", "func":
		return false
	}
	for _, e := range v.Elem {
		if !e.marshalable() {
			return false
		}
	}
	return true
}

// Err describes the error handed to the error handler.
type Err struct {
	Kind   string `json:"kind"` // system complex app plain status app+status
	Code   int64  `json:"code,omitempty"`
	Msg    string `json:"msg,omitempty"`
	Status int    `json:"status,omitempty"`
	// Cause: the error wraps (Go 1.13 Unwrap) another error of this description; only errors that carry a code or a status of their own wrap one
	Cause *Err `json:"cause,omitempty"`
}

type appErr struct {
	code  int
	msg   string
	cause error
}

func (a *appErr) Code() int     { return a.code }
func (a *appErr) Error() string { return a.msg }
func (a *appErr) Unwrap() error { return a.cause }

type statusErr struct {
	status int
	msg    string
	cause  error
}

func (s *statusErr) Unwrap() error { return s.cause }

func (s *statusErr) Status() int   { return s.status }
func (s *statusErr) Error() string { return s.msg }

// appStatusErr is an application error (it has a code of its own) that also names an HTTP status.
type appStatusErr struct {
	appErr
	status int
}

func (a *appStatusErr) Status() int { return a.status }

func (e Err) cause() error {
	if e.Cause == nil {
		return nil
	}
	return e.Cause.build()
}

func (e Err) build() error {
	switch e.Kind {
	case "system":
		return oh.SystemError(e.Code)
	case "complex":
		return oh.SystemComplexError{Code: oh.SystemError(e.Code), Message: e.Msg}
	case "app":
		return &appErr{int(e.Code), e.Msg, e.cause()}
	case "status":
		return &statusErr{e.Status, e.Msg, e.cause()}
	case "app+status":
		return &appStatusErr{appErr{int(e.Code), e.Msg, e.cause()}, e.Status}
	}
	return errors.New(e.Msg)
}

type Case struct {
	Success  bool   `json:"success"`
	Val      *Val   `json:"val,omitempty"`
	Err      *Err   `json:"err,omitempty"`
	Callback string `json:"callback,omitempty"`
	Server   string `json:"server"`
	// Direct: answer through the direct-write wrappers (WriteData / Success / WriteError / WriteCplxError) instead of the handler constructors
	Direct bool `json:"direct,omitempty"`
	// Form: the request is a POST whose application/x-www-form-urlencoded body is Form (the callback is a QUERY parameter: a body field of that name is not one)
	Form string `json:"form,omitempty"`
}

func decodeNum(b []byte) (interface{}, error) {
	d := json.NewDecoder(bytes.NewReader(b))
	d.UseNumber()
	var v interface{}
	if err := d.Decode(&v); err != nil {
		return nil, err
	}
	if d.More() {
		return nil, fmt.Errorf("trailing data")
	}
	return v, nil
}

func runCase(c Case) error {
	old := oh.Server
	oh.Server = c.Server
	defer func() { oh.Server = old }()
	var h http.Handler
	switch {
	case c.Success && c.Direct:
		h = http.HandlerFunc(func(w http.ResponseWriter, r *http.Request) {
			if v := c.Val.build(); v == nil {
				oh.Success(nil, w, r)
			} else {
				oh.WriteData(nil, w, r, v)
			}
		})
	case c.Success:
		h = oh.Data(nil, c.Val.build())
	case c.Direct:
		h = http.HandlerFunc(func(w http.ResponseWriter, r *http.Request) {
			if c.Err.Kind == "complex" {
				oh.WriteCplxError(nil, w, r, oh.SystemError(c.Err.Code), c.Err.Msg)
			} else {
				oh.WriteError(nil, w, r, c.Err.build())
			}
		})
	default:
		h = oh.Error(nil, c.Err.build())
	}
	target := "/api/v1/x"
	if c.Callback != "" {
		target += "?callback=" + url.QueryEscape(c.Callback)
	}
	rr := httptest.NewRecorder()
	req := httptest.NewRequest("GET", target, nil)
	if c.Form != "" {
		req = httptest.NewRequest("POST", target, strings.NewReader(c.Form))
		req.Header.Set("Content-Type", "application/x-www-form-urlencoded")
	}
	h.ServeHTTP(rr, req)
	body := rr.Body.Bytes()
	if got := rr.Header().Get("Server"); got != c.Server {
		return fmt.Errorf("Server header %q, configured %q", got, c.Server)
	}
	pid := os.Getpid()

	// what the client half makes of it (no callback: the client speaks plain JSON)
	curMu.Lock()
	curH = h
	curMu.Unlock()
	code, cbody, cerr := oh.ApiRequest(srv.URL + "/api/v1/x")

	jsonEnvelope := func(b []byte) (map[string]interface{}, error) {
		v, err := decodeNum(b)
		if err != nil {
			return nil, err
		}
		m, ok := v.(map[string]interface{})
		if !ok {
			return nil, fmt.Errorf("not an object")
		}
		return m, nil
	}
	unwrap := func() ([]byte, error) {
		if c.Callback == "" {
			if ct := rr.Header().Get("Content-Type"); ct != "application/json" {
				return nil, fmt.Errorf("Content-Type %q, want application/json", ct)
			}
			return body, nil
		}
		if ct := rr.Header().Get("Content-Type"); ct != "application/javascript" {
			return nil, fmt.Errorf("Content-Type %q with a callback, want application/javascript", ct)
		}
		pre, suf := c.Callback+"(", ")"
		if !bytes.HasPrefix(body, []byte(pre)) || !bytes.HasSuffix(body, []byte(suf)) {
			return nil, fmt.Errorf("body %q is not %s(json)", clip(body), c.Callback)
		}
		return body[len(pre) : len(body)-len(suf)], nil
	}

	switch {
	case c.Success && c.Val.marshalable():
		if rr.Code != 200 {
			return fmt.Errorf("success handler answered status %d", rr.Code)
		}
		js, err := unwrap()
		if err != nil {
			return err
		}
		m, err := jsonEnvelope(js)
		if err != nil {
			return fmt.Errorf("body %q is not a JSON object: %v", clip(js), err)
		}
		if len(m) != 3 || fmt.Sprint(m["code"]) != "0" || fmt.Sprint(m["server"]) != fmt.Sprint(pid) {
			return fmt.Errorf("envelope %q is not {code:0, server:%d, data:...}", clip(js), pid)
		}
		wb, err := json.Marshal(c.Val.build())
		if err != nil {
			return fmt.Errorf("harness: value not marshalable: %v", err)
		}
		want, _ := decodeNum(wb)
		if !reflect.DeepEqual(m["data"], want) {
			return fmt.Errorf("envelope data %v differs from the value %s", m["data"], clip(wb))
		}
		if cerr != nil || code != 0 {
			return fmt.Errorf("client reports code %d, error %v for a success response %q", code, cerr, clip(cbody))
		}
		plain := httptest.NewRecorder()
		h.ServeHTTP(plain, httptest.NewRequest("GET", "/api/v1/x", nil))
		if !bytes.Equal(cbody, plain.Body.Bytes()) {
			return fmt.Errorf("client body %q differs from the handler body %q", clip(cbody), clip(plain.Body.Bytes()))
		}
	case c.Success:
		// a value that cannot be marshalled yields an error response, not a truncated body
		if rr.Code == 200 {
			m, err := jsonEnvelope(body)
			if err != nil || fmt.Sprint(m["code"]) == "0" {
				return fmt.Errorf("unmarshalable value answered with status 200 and body %q", clip(body))
			}
		}
		if cerr == nil {
			return fmt.Errorf("client reports success (code %d) for the response to an unmarshalable value: status %d body %q", code, rr.Code, clip(body))
		}
	default:
		e := c.Err
		switch e.Kind {
		case "system", "complex", "app", "app+status":
			if rr.Code != 200 {
				return fmt.Errorf("%s error answered status %d, want 200 with the code in the body", e.Kind, rr.Code)
			}
			js, err := unwrap()
			if err != nil {
				return err
			}
			m, err := jsonEnvelope(js)
			if err != nil {
				return fmt.Errorf("body %q is not a JSON object: %v", clip(js), err)
			}
			if fmt.Sprint(m["code"]) != fmt.Sprint(e.Code) {
				return fmt.Errorf("body %q carries code %v, the error's code is %d", clip(js), m["code"], e.Code)
			}
			if e.Kind != "system" {
				if s, _ := m["data"].(string); s != strings.ToValidUTF8(e.Msg, "�") {
					return fmt.Errorf("body %q carries message %q, want %q", clip(js), s, e.Msg)
				}
			}
		default:
			want := 500
			if e.Kind == "status" {
				want = e.Status
			}
			if rr.Code != want {
				return fmt.Errorf("plain error answered status %d, want %d", rr.Code, want)
			}
			// (the statement fixes the status of a plain error, not its body)
		}
		if cerr == nil {
			return fmt.Errorf("client reports success (code %d, nil error) for an error response: status %d body %q", code, rr.Code, clip(body))
		}
		if (e.Kind == "system" || e.Kind == "complex" || e.Kind == "app" || e.Kind == "app+status") && e.Code > -(1<<53) && e.Code < 1<<53 && int64(code) != e.Code {
			return fmt.Errorf("client reports code %d, the error's code is %d", code, e.Code)
		}
	}
	return nil
}

func clip(b []byte) string {
	if len(b) > 200 {
		return string(b[:200]) + "..."
	}
	return string(b)
}

// ---------------------------------------------------------------- generator

var strPieces = []string{`\u0026`, `\u003c`, `\u003e`, `\u2028`, `\n`, `"`, `\`, "\n", "\x00", "\x1f", "é", "日本", "\xff", "\xc3", "<", "&", "a", " ", "{", "}", `{"code":0}`, " "}

func genStr(t *rapid.T) []byte {
	n := rapid.IntRange(0, 6).Draw(t, "sn")
	var b []byte
	for i := 0; i < n; i++ {
		b = append(b, rapid.SampledFrom(strPieces).Draw(t, "sp")...)
	}
	return b
}

func genVal(t *rapid.T, depth int, allowBad bool) Val {
	k := rapid.IntRange(0, 11).Draw(t, "vk")
	if depth >= 4 && k >= 7 {
		k -= 7
	}
	switch k {
	case 0:
		return Val{K: "nil"}
	case 1:
		return Val{K: "bool", B: rapid.Bool().Draw(t, "b")}
	case 2:
		return Val{K: "int", I: rapid.SampledFrom([]int64{0, 1, -1, 1 << 31, -(1 << 31), 1 << 53, math.MaxInt64, math.MinInt64, 42}).Draw(t, "i")}
	case 3:
		return Val{K: "float", F: rapid.SampledFrom([]float64{0, 0.5, -1.25, 1e300, 5e-324, 1e21, 123456.789}).Draw(t, "f")}
	case 4, 5, 6:
		return Val{K: "str", S: genStr(t)}
	case 7, 8:
		v := Val{K: "list"}
		for i, n := 0, rapid.IntRange(0, 4).Draw(t, "ln"); i < n; i++ {
			v.Elem = append(v.Elem, genVal(t, depth+1, allowBad))
		}
		return v
	case 9:
		v := Val{K: "map"}
		for i, n := 0, rapid.IntRange(0, 4).Draw(t, "mn"); i < n; i++ {
			v.Keys = append(v.Keys, strings.ToValidUTF8(string(genStr(t)), "?")+fmt.Sprint(i))
			v.Elem = append(v.Elem, genVal(t, depth+1, allowBad))
		}
		return v
	case 10:
		return Val{K: "struct", S: genStr(t), I: int64(rapid.IntRange(0, 3).Draw(t, "cnt")), Elem: []Val{genVal(t, depth+1, allowBad)}}
	default:
		if allowBad {
			return Val{K: rapid.SampledFrom([]string{"nan", "inf", "chan", "func"}).Draw(t, "bad")}
		}
		return Val{K: "nil"}
	}
}

var codes = []int64{1, -1, 2, 100, 1 << 31, -(1 << 31), 1<<31 - 1, 1 << 53, -(1 << 53), 1<<53 + 1, math.MaxInt64, math.MinInt64}

func genErr(t *rapid.T) Err {
	e := Err{Kind: rapid.SampledFrom([]string{"system", "complex", "app", "plain", "plain", "status", "status", "app+status"}).Draw(t, "ek")}
	if rapid.Bool().Draw(t, "codek") {
		e.Code = rapid.SampledFrom(codes).Draw(t, "code")
	} else {
		for e.Code == 0 {
			e.Code = rapid.Int64().Draw(t, "codeu")
		}
	}
	switch rapid.IntRange(0, 3).Draw(t, "msgk") {
	case 0:
		// error texts that are themselves JSON (an envelope claiming success, an envelope with another code)
		e.Msg = rapid.SampledFrom([]string{`{"code":0,"data":"fine"}`, `{"code":0}`, `{"code":0,"server":1,"data":null}`, `{"code":7}`, `[]`, `"x"`, `{"code":"0"}`}).Draw(t, "jsonmsg")
	default:
		e.Msg = strings.ToValidUTF8(string(genStr(t)), "?") + "e"
	}
	if e.Kind == "status" || e.Kind == "app+status" {
		// every class an error may name; 1xx/2xx are not error statuses
		e.Status = rapid.SampledFrom([]int{300, 301, 302, 304, 305, 399, 400, 401, 403, 404, 409, 499, 500, 502, 503, 599}).Draw(t, "status")
	}
	return e
}

var rec = ev.New(prop, "handlers-and-client",
	"rapid-generated cases: success handler with JSON value trees (nil, bools, boundary ints/floats, strings with quotes/control/non-ASCII/invalid UTF-8, nested lists/maps, a tagged struct) or unmarshalable values (NaN, Inf, chan, func); "+
		"error handlers with SystemError, SystemComplexError, an AppError implementation, plain errors with/without Status(), codes in {+-1, +-2^31, +-2^53, MinInt64, MaxInt64, uniform != 0}, error texts that are themselves JSON envelopes; "+
		"errors with a code or status of their own that wrap (Unwrap) an error of another kind - the answer follows the error itself, not its cause; with/without ?callback=, GET or POST with a form body that has (or has not) a field named callback; handlers run against a ResponseRecorder and on a loopback server queried by ApiRequest; oracle as in DESIGN.md C19; non-trivial = nested value, error case, callback or unmarshalable value").
	Require("success", "error", "callback", "unmarshalable", "json-error-text", "plain-error", "wraps-another-error", "post-with-callback-field")

func TestHandlersAndClient(t *testing.T) {
	ev.Rapid(t, "handlers-and-client", 3000, 1200000, func(t *rapid.T) {
		c := Case{Success: rapid.Bool().Draw(t, "success"), Server: rapid.SampledFrom([]string{"Oryx", "srs/3", "", "X Y"}).Draw(t, "server"), Direct: rapid.IntRange(0, 2).Draw(t, "direct") == 0}
		if rapid.IntRange(0, 2).Draw(t, "cb") == 0 {
			c.Callback = rapid.SampledFrom([]string{"cb", "jQuery123_456", "a.b.c", "cb%d", "f%s"}).Draw(t, "cbname")
		}
		if rapid.IntRange(0, 5).Draw(t, "post") == 0 {
			c.Form = rapid.SampledFrom([]string{"name=x", "name=x&callback=other", "callback=&name=x", "callback=body_cb", "callback=cb"}).Draw(t, "form")
		}
		cl := []string{}
		nt := c.Callback != ""
		if strings.Contains(c.Form, "callback") {
			cl, nt = append(cl, "post-with-callback-field"), true
		}
		if c.Callback != "" {
			cl = append(cl, "callback")
		}
		if c.Success {
			v := genVal(t, 0, rapid.IntRange(0, 4).Draw(t, "bad") == 0)
			c.Val = &v
			cl = append(cl, "success")
			if !v.marshalable() {
				cl = append(cl, "unmarshalable")
				nt = true
			}
			if len(v.Elem) > 0 {
				nt = true
			}
		} else {
			e := genErr(t)
			if e.Kind != "system" && e.Kind != "complex" && e.Kind != "plain" && rapid.IntRange(0, 3).Draw(t, "wraps") == 0 {
				in := genErr(t)
				e.Cause = &in
				cl = append(cl, "wraps-another-error")
			}
			c.Err = &e
			cl = append(cl, "error")
			nt = true
			if strings.HasPrefix(e.Msg, "{") || strings.HasPrefix(e.Msg, "[") || strings.HasPrefix(e.Msg, `"`) {
				cl = append(cl, "json-error-text")
			}
			if e.Kind == "plain" || e.Kind == "status" {
				cl = append(cl, "plain-error")
			}
		}
		err := ev.Try(func() error { return runCase(c) })
		rec.Case(nt, ev.Hash(c), cl, func() any { return c })
		if err != nil {
			p := ev.Fail(prop, "handlers-and-client", c, err)
			t.Fatalf("%v (replay %s)", err, p)
		}
	})
}

// TestLargeValues: success values whose envelope is far larger than any buffer on the way.
func TestLargeValues(t *testing.T) {
	rec := ev.New(prop, "large-values", "success handler + client with one string of {2^16, 2^20, 4*2^20-64, 4*2^20, 5*2^20+1; thorough: 32*2^20} bytes, alone and inside a map, with and without callback; oracle as in handlers-and-client; all non-trivial")
	rec.Exhaustive()
	sizes := []int64{1 << 16, 1 << 20, 4<<20 - 64, 4 << 20, 5<<20 + 1}
	if ev.Thorough() {
		sizes = append(sizes, 32<<20)
	}
	i := 0
	for _, n := range sizes {
		for _, wrap := range []bool{false, true} {
			for _, cb := range []string{"", "cb"} {
				i++
				if i%ev.Shards() != ev.Shard() {
					continue
				}
				v := Val{K: "bigstr", I: n}
				if wrap {
					v = Val{K: "map", Keys: []string{"a", "big"}, Elem: []Val{{K: "int", I: 7}, v}}
				}
				c := Case{Success: true, Val: &v, Callback: cb, Server: "Oryx"}
				err := ev.Try(func() error { return runCase(c) })
				rec.Case(true, ev.Hash(c), []string{"success"}, func() any { return c })
				if err != nil {
					p := ev.Fail(prop, "handlers-and-client", c, err)
					t.Fatalf("%v (replay %s)", err, p)
				}
			}
		}
	}
}

func replayers() map[string]ev.Replayer {
	return map[string]ev.Replayer{"handlers-and-client": func(raw json.RawMessage) error {
		var c Case
		if err := json.Unmarshal(raw, &c); err != nil {
			return err
		}
		return runCase(c)
	}}
}

func TestRegress(t *testing.T) { ev.Regress(t, prop, replayers()) }
func TestReplay(t *testing.T) {
	if os.Getenv("VERIF_REPLAY") == "" {
		t.Skip("no VERIF_REPLAY")
	}
	ev.Replay(t, prop, replayers())
}
