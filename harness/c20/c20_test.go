// C20: rate meters report the counter's growth over the last full window. The sampler is driven
// with an injected clock through the build-tag-guarded hook kxps/export_verif.go.
package c20

import (
	"encoding/json"
	"fmt"
	"math"
	"os"
	"testing"
	"time"

	"github.com/ossrs/go-oryx-lib/kxps"
	"pgregory.net/rapid"
	"verif/harness/internal/ev"
)

const prop = "C20"

func TestMain(m *testing.M) { ev.Main(m) }

type Obs struct {
	DtMs    int64  `json:"dt_ms"`              // time since the previous observation
	DtUs    int64  `json:"dt_us,omitempty"`    // ... plus this many microseconds (0..999): instants are not aligned to milliseconds
	Counter uint64 `json:"counter"`            // counter value at the sampling instant
	Avg     bool   `json:"avg,omitempty"`      // also read the average at this instant
	AvgOnly bool   `json:"avg_only,omitempty"` // read the average without a sampling step
}

type Case struct {
	Kbps bool  `json:"kbps"`
	Obs  []Obs `json:"obs"`
	// Origin of the injected clock: 0 = a date in 2023, 1 = the zero time.Time, 2 = the Unix epoch, 3 = year 2200
	Origin int `json:"origin,omitempty"`
}

type src struct{ v uint64 }

func (s *src) TotalBytes() uint64 { return s.v }
func (s *src) NbRequests() uint64 { return s.v }

// window model written from the property statement and the anchored cascade
type win struct {
	ms    int64
	init  bool
	last  int64 // time of the previous sample (ms)
	count uint64
	rate  float64
}

// times in microseconds
func (w *win) sample(now int64, c uint64) bool {
	if now-w.last < w.ms*1000 {
		return false
	}
	d := int64(c - w.count) // an increase >= 2^63 is indistinguishable from going backwards
	w.count, w.last = c, now
	if d <= 0 {
		w.rate = 0
	} else {
		w.rate = float64(d) * 1000 / float64(w.ms)
	}
	return true
}

type stats struct {
	samples10, samples30, samples300 int
	backwards, stall, avgReads       bool
}

func runCase(c Case) (st stats, err error) {
	s := &src{}
	var get [3]func() float64
	var avgAt func(time.Time) float64
	var sample func(time.Time) error
	scale := 1.0
	if c.Kbps {
		k, m := kxps.NewVerifKbps(s)
		get = [3]func() float64{k.Kbps10s, k.Kbps30s, k.Kbps300s}
		avgAt, sample = m.Average, m.Sample
		scale = 8.0 / 1000
		defer k.Close()
	} else {
		k, m := kxps.NewVerifKrps(s)
		get = [3]func() float64{k.Rps10s, k.Rps30s, k.Rps300s}
		avgAt, sample = m.Average, m.Sample
		defer k.Close()
	}
	t0 := []time.Time{time.Unix(1700000000, 0), {}, time.Unix(0, 0), time.Date(2200, 1, 1, 0, 0, 0, 0, time.UTC)}[c.Origin%4]
	now := int64(0)
	ws := [3]*win{{ms: 10000}, {ms: 30000}, {ms: 300000}}
	started := false
	var avgBase uint64
	var avgT0 int64
	avgInit := false
	var maxInc uint64 // largest positive increase between consecutive non-zero observations, per-window bound uses sums; keep global bound generous
	var prev uint64
	var total uint64
	var seen []uint64
	for i, o := range c.Obs {
		now += o.DtMs*1000 + o.DtUs
		s.v = o.Counter
		at := t0.Add(time.Duration(now) * time.Microsecond)
		if !o.AvgOnly {
			if e := sample(at); e != nil {
				return st, fmt.Errorf("obs %d: sampling step failed: %v", i, e)
			}
			// model
			if o.Counter != 0 {
				if !started {
					started = true
					for _, w := range ws {
						w.init, w.last, w.count = true, now, o.Counter
					}
				} else {
					if ws[0].sample(now, o.Counter) {
						st.samples10++
						if ws[1].sample(now, o.Counter) {
							st.samples30++
							if ws[2].sample(now, o.Counter) {
								st.samples300++
							}
						}
					}
				}
				for _, e := range seen {
					if d := int64(o.Counter - e); d > 0 && uint64(d) > total {
						total = uint64(d) // largest positive increase between any two observations so far
					}
				}
				seen = append(seen, o.Counter)
				if prev != 0 {
					if d := int64(o.Counter - prev); d > 0 {
						if uint64(d) > maxInc {
							maxInc = uint64(d)
						}
					} else if d < 0 {
						st.backwards = true
					} else {
						st.stall = true
					}
				}
				prev = o.Counter
			}
			for wi, w := range ws {
				got := get[wi]()
				want := w.rate * scale
				if math.IsNaN(got) || math.IsInf(got, 0) || got < 0 {
					return st, fmt.Errorf("obs %d: %d s rate is %v (must be finite and non-negative)", i, w.ms/1000, got)
				}
				if !close(got, want) {
					return st, fmt.Errorf("obs %d (t=%d us, counter=%d): %d s rate is %v, the counter grew by %v per second of the window since its previous sample (expected %v)", i, now, o.Counter, w.ms/1000, got, w.rate, want)
				}
				// independent bound: no window can report more than the largest increase between two observations
				if bound := float64(total) * 1000 / float64(w.ms) * scale; got > bound*(1+1e-9)+1e-9 {
					return st, fmt.Errorf("obs %d: %d s rate %v exceeds what the largest increase between any two observations (%d) allows (%v)", i, w.ms/1000, got, total, bound)
				}
			}
		}
		if o.Avg || o.AvgOnly {
			st.avgReads = true
			got := avgAt(at) * scale
			want := 0.0
			elapsedUs := int64(0)
			if o.Counter != 0 {
				if !avgInit {
					avgInit, avgBase, avgT0 = true, o.Counter, now
				} else if d := int64(o.Counter - avgBase); d > 0 && now-avgT0 > 0 {
					want = float64(d) * 1e6 / float64(now-avgT0) * scale
					elapsedUs = now - avgT0
				}
			}
			if math.IsNaN(got) || math.IsInf(got, 0) || got < 0 {
				return st, fmt.Errorf("obs %d: average is %v (must be finite and non-negative)", i, got)
			}
			// the statement does not fix the clock resolution: the elapsed time may be taken in whole milliseconds
			// (what this library does), which moves the quotient by at most one millisecond's worth; below one
			// millisecond any finite non-negative value goes
			if elapsedUs > 0 && elapsedUs%1000 != 0 {
				if ms := elapsedUs / 1000; ms == 0 {
					want = got
				} else if hi := want * float64(elapsedUs) / float64(ms*1000); got >= want*(1-1e-9) && got <= hi*(1+1e-9) {
					want = got
				}
			}
			if !close(got, want) {
				return st, fmt.Errorf("obs %d (t=%d us, counter=%d): average is %v, want %v (increase since the first non-zero observation at t=%d us over the elapsed time)", i, now, o.Counter, got, want, avgT0)
			}
		}
	}
	return st, nil
}

func close(a, b float64) bool {
	if a == b {
		return true
	}
	return math.Abs(a-b) <= 1e-9*math.Max(math.Abs(a), math.Abs(b))
}

var dts = []int64{0, 1, 9999, 10000, 10001, 29000, 30000, 31000, 299000, 300000, 301000, 3000000}

// gaps of days to a year (a server that is read rarely): 2^31-1 ms, 2^31 ms, 25, 50, 60 and 365 days
var longDts = []int64{1<<31 - 1, 1 << 31, 25 * 86400000, 50 * 86400000, 1<<32 + 7, 60 * 86400000, 365 * 86400000}

var rec = ev.New(prop, "histories",
	"rapid-generated histories (<=60 observations) for the bitrate and the request-rate meter: spacing in {0,1ms,9.999s,10s,10.001s,29s,30s,31s,299s,300s,301s,3000s,uniform, now and then 24.8 days .. 1 year}, counter steps {0,+1,+10^6,+2^63,-1,reset to small,"+
		"wrap past 2^64, to exactly 0}, the average read at drawn instants; oracle: window model from the statement (rate = signed increase since the window's previous sample / window length, cascade 10s->30s->300s, zero = no observation) "+
		"plus model-independent invariants (finite, >=0, bounded by total growth); tolerance 1e-9 relative; non-trivial = the 30 s window sampled at least once or a backwards/stalled counter").
	Require("w30", "w300", "backwards", "stall", "avg", "kbps", "krps")

func genCase(t *rapid.T) Case {
	c := Case{Kbps: rapid.Bool().Draw(t, "kbps"), Origin: rapid.IntRange(0, 3).Draw(t, "origin")}
	n := rapid.IntRange(1, 60).Draw(t, "n")
	counter := rapid.SampledFrom([]uint64{0, 1, 1000, 1 << 40, 1<<64 - 5}).Draw(t, "c0")
	for i := 0; i < n; i++ {
		var o Obs
		if k := rapid.IntRange(0, 19).Draw(t, "dtk"); k == 19 {
			o.DtMs = rapid.SampledFrom(longDts).Draw(t, "dtlong")
		} else if k < 5 {
			o.DtMs = rapid.Int64Range(0, 400000).Draw(t, "dtu")
		} else {
			o.DtMs = rapid.SampledFrom(dts).Draw(t, "dt")
		}
		if rapid.IntRange(0, 2).Draw(t, "subms") == 0 {
			o.DtUs = rapid.SampledFrom([]int64{1, 100, 200, 500, 900, 999}).Draw(t, "dtus")
		}
		switch rapid.IntRange(0, 11).Draw(t, "step") {
		case 0:
		case 1, 2, 3:
			counter++
		case 4, 5, 6:
			counter += uint64(rapid.IntRange(1, 2000000).Draw(t, "inc"))
		case 7:
			if rapid.Bool().Draw(t, "big") {
				counter += uint64(rapid.SampledFrom([]uint64{1 << 32, 1<<32 + 5, 1 << 40, 1 << 52, 1<<62 + 3}).Draw(t, "bigstep"))
			} else {
				counter += 1 << 63
			}
		case 8:
			counter--
		case 9:
			counter = uint64(rapid.IntRange(1, 50).Draw(t, "reset"))
		case 10:
			counter += 1<<64 - 1 - counter + uint64(rapid.IntRange(1, 1000).Draw(t, "wrap")) // past 2^64
		default:
			counter = 0
		}
		o.Counter = counter
		switch rapid.IntRange(0, 5).Draw(t, "avgk") {
		case 0:
			o.Avg = true
		case 1:
			o.AvgOnly = true
		}
		c.Obs = append(c.Obs, o)
	}
	return c
}

func TestHistories(t *testing.T) {
	ev.Rapid(t, "histories", 8000, 12000000, func(t *rapid.T) {
		c := genCase(t)
		var st stats
		err := ev.Try(func() error {
			var e error
			st, e = runCase(c)
			return e
		})
		var cl []string
		if st.samples30 > 0 {
			cl = append(cl, "w30")
		}
		if st.samples300 > 0 {
			cl = append(cl, "w300")
		}
		if st.backwards {
			cl = append(cl, "backwards")
		}
		if st.stall {
			cl = append(cl, "stall")
		}
		nt := len(cl) > 0
		if st.avgReads {
			cl = append(cl, "avg")
		}
		if c.Kbps {
			cl = append(cl, "kbps")
		} else {
			cl = append(cl, "krps")
		}
		rec.Case(nt, ev.Hash(c), cl, func() any { return c })
		if err != nil {
			p := ev.Fail(prop, "histories", c, err)
			t.Fatalf("%v (replay %s)", err, p)
		}
	})
}

// TestRefusedBeforeStart: the public API refuses rate reads before Start.
func TestRefusedBeforeStart(t *testing.T) {
	recR := ev.New(prop, "refused-before-start", "public API, both meters x 4 getters x {before Start, between Start and Close, after Close, after Close without Start}: a read of a meter that was never started is refused (panics), a read in between returns a finite non-negative value, a read after Close is refused or returns such a value; all non-trivial")
	recR.Exhaustive()
	for _, kb := range []bool{true, false} {
		for g := 0; g < 4; g++ {
			for _, phase := range []string{"before", "running", "closed", "closed-unstarted"} {
				c := rc{kb, g, phase}
				err := runRefuse(c)
				recR.Case(true, ev.Hash(c), nil, func() any { return c })
				if err != nil {
					p := ev.Fail(prop, "refused-before-start", c, err)
					t.Fatalf("%v (replay %s)", err, p)
				}
			}
		}
	}
}

type rc struct {
	Kbps  bool   `json:"kbps"`
	Get   int    `json:"get"`
	Phase string `json:"phase"`
}

func runRefuse(c rc) error {
	kb, g, phase := c.Kbps, c.Get, c.Phase
	{
		{
			{
				return func() error {
					s := &src{v: 5}
					var getters []func() float64
					var start func() error
					var cl func() error
					if kb {
						k := kxps.NewKbps(nil, s)
						getters, start, cl = []func() float64{k.Kbps10s, k.Kbps30s, k.Kbps300s, k.Average}, k.Start, k.Close
					} else {
						k := kxps.NewKrps(nil, s)
						getters, start, cl = []func() float64{k.Rps10s, k.Rps30s, k.Rps300s, k.Average}, k.Start, k.Close
					}
					defer cl()
					if phase == "closed-unstarted" {
						cl() // a meter that was never started stays un-started when it is closed
					} else if phase != "before" {
						if e := start(); e != nil {
							return fmt.Errorf("Start: %v", e)
						}
					}
					if phase == "closed" {
						cl()
					}
					var v float64
					pe := ev.Try(func() error { v = getters[g](); return nil })
					if phase == "running" {
						if pe != nil {
							return fmt.Errorf("getter %d between Start and Close: %v", g, pe)
						}
						if math.IsNaN(v) || math.IsInf(v, 0) || v < 0 {
							return fmt.Errorf("getter %d returned %v", g, v)
						}
						return nil
					}
					if phase == "closed" {
						// the statement speaks of reads BEFORE the meter is started; after Close a refusal (this library)
						// or the last rates are both fine, as long as what comes back is finite and non-negative
						if pe == nil && (math.IsNaN(v) || math.IsInf(v, 0) || v < 0) {
							return fmt.Errorf("getter %d returned %v after Close", g, v)
						}
						return nil
					}
					if pe == nil {
						return fmt.Errorf("getter %d returned %v %s; reading a rate of a meter that is not started must be refused", g, v, map[string]string{"before": "before Start", "closed-unstarted": "after a Close without any Start"}[phase])
					}
					return nil
				}()
			}
		}
	}
}

func replayers() map[string]ev.Replayer {
	return map[string]ev.Replayer{"histories": func(raw json.RawMessage) error {
		var c Case
		if err := json.Unmarshal(raw, &c); err != nil {
			return err
		}
		_, e := runCase(c)
		return e
	}, "refused-before-start": func(raw json.RawMessage) error {
		var c rc
		if err := json.Unmarshal(raw, &c); err != nil {
			return err
		}
		return runRefuse(c)
	}}
}

func TestRegress(t *testing.T) { ev.Regress(t, prop, replayers()) }
func TestReplay(t *testing.T) {
	if os.Getenv("VERIF_REPLAY") == "" {
		t.Skip("no VERIF_REPLAY")
	}
	ev.Replay(t, prop, replayers())
}
