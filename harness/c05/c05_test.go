// C05: AMF0 value trees round-trip bit-exactly with Size() == encoded length, and for every
// decodable byte string Size() afterwards equals the bytes consumed.
package c05

import (
	"bytes"
	"encoding/json"
	"fmt"
	"os"
	"testing"
	"time"

	"github.com/ossrs/go-oryx-lib/amf0"
	"pgregory.net/rapid"
	"verif/harness/internal/amf0x"
	"verif/harness/internal/ev"
	"verif/harness/internal/ref/amf0ref"
)

const prop = "C05"

func TestMain(m *testing.M) { ev.Main(m) }

// ---------------------------------------------------------------- (a) trees

func checkTree(v amf0ref.Val) error {
	a := amf0x.Build(v)
	b, err := a.MarshalBinary()
	if err != nil {
		return fmt.Errorf("marshal: %v", err)
	}
	if len(b) != a.Size() {
		return fmt.Errorf("marshalled %d bytes, Size() = %d", len(b), a.Size())
	}
	d, err := amf0.Discovery(b)
	if err != nil {
		return fmt.Errorf("Discovery of own encoding: %v", err)
	}
	if err := d.UnmarshalBinary(b); err != nil {
		return fmt.Errorf("unmarshal of own encoding: %v", err)
	}
	if err := amf0x.Same(d, v); err != nil {
		return fmt.Errorf("decoded tree differs: %v", err)
	}
	if d.Size() != len(b) {
		return fmt.Errorf("Size() after unmarshal = %d, encoding has %d bytes", d.Size(), len(b))
	}
	b2, err := d.MarshalBinary()
	if err != nil {
		return fmt.Errorf("re-marshal: %v", err)
	}
	if !bytes.Equal(b, b2) {
		return fmt.Errorf("re-marshalled bytes differ: %d vs %d bytes (first difference at %d)", len(b), len(b2), firstDiff(b, b2))
	}
	// key order: the reference decoder (library layout) must see the keys in the model's order
	rv, n, err := amf0ref.Decode(b, amf0ref.Lib)
	if err != nil || n != len(b) {
		return fmt.Errorf("library bytes not parseable in the library's own layout: n=%d err=%v", n, err)
	}
	if err := amf0ref.Equal(rv, v, true); err != nil {
		return fmt.Errorf("wire content differs from the tree built: %v", err)
	}
	// the marshalled bytes belong to the application: overwriting them (and the spare capacity behind them) changes nothing for the library
	keep := append([]byte(nil), b...)
	ev.Trash(b)
	ev.Trash(b2)
	b3, err := a.MarshalBinary()
	if err != nil || !bytes.Equal(b3, keep) {
		return fmt.Errorf("after the application overwrote the bytes of earlier results the tree marshals differently: %d vs %d bytes (first difference at %d), err %v", len(b3), len(keep), firstDiff(b3, keep), err)
	}
	b4, err := d.MarshalBinary()
	if err != nil || !bytes.Equal(b4, keep) {
		return fmt.Errorf("after the application overwrote the bytes of earlier results the decoded tree marshals differently: %d vs %d bytes (first difference at %d), err %v", len(b4), len(keep), firstDiff(b4, keep), err)
	}
	return nil
}

func firstDiff(a, b []byte) int {
	for i := 0; i < len(a) && i < len(b); i++ {
		if a[i] != b[i] {
			return i
		}
	}
	return min(len(a), len(b))
}

var recTree = ev.New(prop, "tree",
	"rapid-generated value trees (depth<=8, <=40 nodes; numbers from raw bit patterns incl. NaN payloads/Inf/-0/denormals, strings 0..65535 bytes of arbitrary bytes, "+
		"objects/ECMA/strict arrays with distinct keys incl. the empty key) built through NewX/Set; non-trivial = nesting>=2 or non-finite number or >=65534-byte string or non-empty strict array").
	Require("nested", "non-finite", "big-string", "strict-nonempty")

func treeClasses(s amf0ref.Stats) []string {
	var cl []string
	if s.Depth >= 3 {
		cl = append(cl, "nested")
	}
	if s.NonFinite {
		cl = append(cl, "non-finite")
	}
	if s.BigString {
		cl = append(cl, "big-string")
	}
	if s.StrictNonEmpty {
		cl = append(cl, "strict-nonempty")
	}
	if s.EmptyKey {
		cl = append(cl, "empty-key")
	}
	return cl
}

func TestTree(t *testing.T) {
	ev.Rapid(t, "tree", 8000, 4000000, func(t *rapid.T) {
		v := amf0x.Gen(t, amf0x.Opts{MaxDepth: 8, MaxNodes: 40, DistinctKeys: true, BigStrings: true})
		err := ev.Try(func() error { return checkTree(v) })
		cl := treeClasses(amf0ref.Measure(v))
		recTree.Case(len(cl) > 0, ev.Hash(v), cl, func() any { return sampleOf(v) })
		if err != nil {
			p := ev.Fail(prop, "tree", v, err)
			t.Fatalf("%v (replay %s)", err, p)
		}
	})
}

// TestSideBySide: independent value trees marshalled and decoded on several goroutines at once.
func TestSideBySide(t *testing.T) {
	ev.Parallel(t, prop, "side-by-side", 6, 400, 120, func(t *rapid.T) amf0ref.Val {
		return amf0x.Gen(t, amf0x.Opts{MaxDepth: 6, MaxNodes: 30, DistinctKeys: true})
	}, checkTree)
}

// deepChain builds containers nested depth deep (kinds rotating), a number at the bottom.
func deepChain(depth int, kinds []amf0ref.Kind) amf0ref.Val {
	v := amf0ref.Val{K: amf0ref.Number, Num: 0x4045000000000000}
	for i := depth; i > 0; i-- {
		k := kinds[i%len(kinds)]
		c := amf0ref.Val{K: k, Props: []amf0ref.Prop{{Key: []byte("n"), Val: v}}}
		if k == amf0ref.Ecma {
			c.Count = 1
		}
		v = c
	}
	return v
}

// TestDeepNesting: chains of containers far deeper than the random trees.
func TestDeepNesting(t *testing.T) {
	rec := ev.New(prop, "deep-nesting", "deterministic: chains of objects / ECMA arrays / strict arrays nested 64, 127, 128, 129, 130, 255, 256, 257, 1000 deep through checkTree (round trip, Size, re-marshal, wire order); all non-trivial")
	rec.Exhaustive()
	for _, depth := range []int{64, 127, 128, 129, 130, 255, 256, 257, 1000} {
		for _, kinds := range [][]amf0ref.Kind{{amf0ref.Object}, {amf0ref.Ecma}, {amf0ref.Strict}, {amf0ref.Object, amf0ref.Ecma, amf0ref.Strict}} {
			v := deepChain(depth, kinds)
			for i := range []int{0} {
				_ = i
			}
			zero(&v)
			err := ev.Try(func() error { return checkTree(v) })
			rec.Case(true, ev.Hash(depth, kinds), nil, func() any { return map[string]any{"depth": depth, "kinds": kinds} })
			if err != nil {
				err = fmt.Errorf("depth %d: %v", depth, err)
				p := ev.Fail(prop, "tree", v, err)
				t.Fatalf("%v (replay %s)", err, p)
			}
		}
	}
}

// zero clears the ECMA counts (what Set-built arrays carry in this library).
func zero(v *amf0ref.Val) {
	v.Count = 0
	for i := range v.Props {
		zero(&v.Props[i].Val)
	}
}

func sampleOf(v amf0ref.Val) any {
	b := amf0ref.Encode(v, amf0ref.Lib)
	if len(b) > 96 {
		return map[string]any{"lib_layout_bytes": len(b), "head": fmt.Sprintf("%x", b[:96]), "nodes": amf0ref.Measure(v).Nodes}
	}
	return map[string]any{"lib_layout": fmt.Sprintf("%x", b)}
}

// ---------------------------------------------------------------- (b) container state machine

type Op struct {
	Op   string        `json:"op"` // set | get | roundtrip | size | nested
	Key  amf0ref.Bytes `json:"key,omitempty"`
	Val  *amf0ref.Val  `json:"val,omitempty"`
	Key2 amf0ref.Bytes `json:"key2,omitempty"` // nested: key set inside the container stored under Key
}

type MCase struct {
	Kind amf0ref.Kind `json:"kind"`
	Ops  []Op         `json:"ops"`
}

type container interface {
	amf0.Amf0
	Get(string) amf0.Amf0
}

func newContainer(k amf0ref.Kind) (container, func(string, amf0.Amf0)) {
	switch k {
	case amf0ref.Ecma:
		c := amf0.NewEcmaArray()
		return c, func(k string, v amf0.Amf0) { c.Set(k, v) }
	case amf0ref.Strict:
		c := amf0.NewStrictArray()
		return c, func(k string, v amf0.Amf0) { c.Set(k, v) }
	}
	c := amf0.NewObject()
	return c, func(k string, v amf0.Amf0) { c.Set(k, v) }
}

var nested bool // set by runMachine when a nested mutation happened (class measurement only)

func runMachine(c MCase) (replaced, reopened bool, err error) {
	nested = false
	model := amf0ref.Val{K: c.Kind}
	cont, set := newContainer(c.Kind)
	for i, op := range c.Ops {
		switch op.Op {
		case "set":
			set(string(op.Key), amf0x.Build(*op.Val))
			found := false
			for j := range model.Props {
				if string(model.Props[j].Key) == string(op.Key) {
					model.Props[j].Val = *op.Val // replace keeps the position
					found = true
					replaced = true
				}
			}
			if !found {
				model.Props = append(model.Props, amf0ref.Prop{Key: op.Key, Val: *op.Val})
			}
		case "get":
			got := cont.Get(string(op.Key))
			var want *amf0ref.Val
			for j := range model.Props {
				if string(model.Props[j].Key) == string(op.Key) {
					want = &model.Props[j].Val
					break
				}
			}
			if want == nil {
				if got != nil {
					return replaced, reopened, fmt.Errorf("op %d: Get(%q) returned a value, model has none", i, op.Key)
				}
			} else if e := amf0x.Same(got, *want); e != nil {
				return replaced, reopened, fmt.Errorf("op %d: Get(%q): %v", i, op.Key, e)
			}
		case "size":
			// Size() may be asked at any time (and may be cached by an implementation): it must always
			// be the length of what MarshalBinary produces now
			sz := cont.Size()
			b, e := cont.MarshalBinary()
			if e != nil || len(b) != sz {
				return replaced, reopened, fmt.Errorf("op %d: Size() = %d, MarshalBinary gives %d bytes (err %v)", i, sz, len(b), e)
			}
		case "nested":
			// mutate a container that is stored inside this one (Get returns the live value)
			for j := range model.Props {
				if string(model.Props[j].Key) != string(op.Key) {
					continue
				}
				mv := &model.Props[j].Val
				if mv.K != amf0ref.Object && mv.K != amf0ref.Ecma && mv.K != amf0ref.Strict {
					break
				}
				nv := amf0x.Build(*op.Val)
				switch inner := cont.Get(string(op.Key)).(type) {
				case *amf0.Object:
					inner.Set(string(op.Key2), nv)
				case *amf0.EcmaArray:
					inner.Set(string(op.Key2), nv)
				case *amf0.StrictArray:
					inner.Set(string(op.Key2), nv)
				default:
					return replaced, reopened, fmt.Errorf("op %d: Get(%q) returned %T for a stored container", i, op.Key, inner)
				}
				found := false
				for k := range mv.Props {
					if string(mv.Props[k].Key) == string(op.Key2) {
						mv.Props[k].Val = *op.Val
						found = true
					}
				}
				if !found {
					mv.Props = append(mv.Props, amf0ref.Prop{Key: op.Key2, Val: *op.Val})
				}
				nested = true
				break
			}
		case "roundtrip":
			b, e := cont.MarshalBinary()
			if e != nil {
				return replaced, reopened, fmt.Errorf("op %d: marshal: %v", i, e)
			}
			if len(b) != cont.Size() {
				return replaced, reopened, fmt.Errorf("op %d: marshalled %d bytes, Size() = %d", i, len(b), cont.Size())
			}
			rv, n, e := amf0ref.Decode(b, amf0ref.Lib)
			if e != nil || n != len(b) {
				return replaced, reopened, fmt.Errorf("op %d: wire not parseable: n=%d err=%v", i, n, e)
			}
			if e := amf0ref.Equal(rv, model, true); e != nil {
				return replaced, reopened, fmt.Errorf("op %d: wire differs from the ordered-map model: %v", i, e)
			}
			nc, nset := newContainer(c.Kind)
			if e := nc.UnmarshalBinary(b); e != nil {
				return replaced, reopened, fmt.Errorf("op %d: unmarshal: %v", i, e)
			}
			if nc.Size() != len(b) {
				return replaced, reopened, fmt.Errorf("op %d: Size() after unmarshal = %d, want %d", i, nc.Size(), len(b))
			}
			if e := amf0x.Same(nc, model); e != nil {
				return replaced, reopened, fmt.Errorf("op %d: after unmarshal: %v", i, e)
			}
			cont, set = nc, nset
			reopened = true
		}
	}
	return replaced, reopened, nil
}

var recMachine = ev.New(prop, "container-machine",
	"operation sequences (<=30 ops) on one Object/EcmaArray/StrictArray: Set(k,v) with keys from a 6-key pool (so replacement happens), Get(k), Size() at any time, Set on a container stored inside (through Get), marshal+unmarshal into a fresh container that then continues; "+
		"model = ordered key/value list where replacing keeps the position; non-trivial = a replacement and a marshal/unmarshal both occur").
	Require("replace+reopen", "nested-mutation")

func TestContainerMachine(t *testing.T) {
	ev.Rapid(t, "container-machine", 4000, 2000000, func(t *rapid.T) {
		c := MCase{Kind: rapid.SampledFrom([]amf0ref.Kind{amf0ref.Object, amf0ref.Ecma, amf0ref.Strict}).Draw(t, "kind")}
		pool := [][]byte{[]byte(""), []byte("a"), []byte("b"), []byte("app"), amf0x.GenKey(t), amf0x.GenKey(t)}
		n := rapid.IntRange(1, 30).Draw(t, "nops")
		for i := 0; i < n; i++ {
			key := rapid.SampledFrom(pool).Draw(t, "key")
			switch rapid.IntRange(0, 8).Draw(t, "op") {
			case 0, 1, 2:
				v := amf0x.Gen(t, amf0x.Opts{MaxDepth: 3, MaxNodes: 6, DistinctKeys: true})
				if rapid.IntRange(0, 2).Draw(t, "cont") == 0 {
					v = amf0ref.Val{K: rapid.SampledFrom([]amf0ref.Kind{amf0ref.Object, amf0ref.Ecma, amf0ref.Strict}).Draw(t, "ck")}
				}
				c.Ops = append(c.Ops, Op{Op: "set", Key: key, Val: &v})
			case 3:
				c.Ops = append(c.Ops, Op{Op: "get", Key: key})
			case 4, 5:
				c.Ops = append(c.Ops, Op{Op: "size"})
			case 6, 7:
				v := amf0x.Gen(t, amf0x.Opts{MaxDepth: 2, MaxNodes: 4, DistinctKeys: true})
				c.Ops = append(c.Ops, Op{Op: "nested", Key: key, Key2: rapid.SampledFrom(pool).Draw(t, "key2"), Val: &v})
			default:
				c.Ops = append(c.Ops, Op{Op: "roundtrip"})
			}
		}
		var rep, reo bool
		err := ev.Try(func() error {
			var e error
			rep, reo, e = runMachine(c)
			return e
		})
		var cl []string
		if rep && reo {
			cl = append(cl, "replace+reopen")
		}
		if nested {
			cl = append(cl, "nested-mutation")
		}
		recMachine.Case(rep && reo, ev.Hash(c), cl, func() any { return c })
		if err != nil {
			p := ev.Fail(prop, "container-machine", c, err)
			t.Fatalf("%v (replay %s)", err, p)
		}
	})
}

// ---------------------------------------------------------------- (c) decodable byte strings

type GCase struct {
	Val   amf0ref.Val   `json:"val"`
	Trail amf0ref.Bytes `json:"trail,omitempty"`
}

func checkGrammar(c GCase) error {
	enc := amf0ref.Encode(c.Val, amf0ref.Lib)
	b := append(append([]byte(nil), enc...), c.Trail...)
	a, err := amf0.Discovery(b)
	if err != nil {
		return fmt.Errorf("Discovery rejects a grammar-valid encoding: %v", err)
	}
	if err := a.UnmarshalBinary(b); err != nil {
		return fmt.Errorf("decoder rejects a grammar-valid encoding (%d bytes + %d trailing): %v", len(enc), len(c.Trail), err)
	}
	if a.Size() != len(enc) {
		return fmt.Errorf("Size() after decoding = %d, the value occupies %d bytes", a.Size(), len(enc))
	}
	// the same through the concrete type, as the RTMP packet parsers do
	var a2 amf0.Amf0
	switch c.Val.K {
	case amf0ref.Object:
		a2 = amf0.NewObject()
	case amf0ref.Ecma:
		a2 = amf0.NewEcmaArray()
	case amf0ref.Strict:
		a2 = amf0.NewStrictArray()
	case amf0ref.String:
		a2 = amf0.NewString("x")
	case amf0ref.Number:
		a2 = amf0.NewNumber(1)
	}
	if a2 != nil {
		if err := a2.UnmarshalBinary(b); err != nil {
			return fmt.Errorf("typed decoder rejects a grammar-valid encoding: %v", err)
		}
		if a2.Size() != len(enc) {
			return fmt.Errorf("typed decode: Size() = %d, the value occupies %d bytes", a2.Size(), len(enc))
		}
	}
	return nil
}

var recGrammar = ev.New(prop, "grammar-bytes",
	"byte strings generated from the wire grammar in the library's layout (repeated keys, empty keys, non-canonical boolean bytes, ECMA counts that disagree with the entries, depth<=6) "+
		"followed by 0..16 arbitrary trailing bytes; oracle: decoding succeeds and Size() == grammar-known length; non-trivial = repeated key or trailing bytes or odd boolean or count mismatch").
	Require("repeated-key", "trailing", "count-mismatch", "odd-bool")

func TestGrammarBytes(t *testing.T) {
	ev.Rapid(t, "grammar-bytes", 8000, 4000000, func(t *rapid.T) {
		c := GCase{Val: amf0x.Gen(t, amf0x.Opts{MaxDepth: 6, MaxNodes: 30, WireFreedom: true})}
		if rapid.Bool().Draw(t, "trailk") {
			c.Trail = rapid.SliceOfN(rapid.Byte(), 1, 16).Draw(t, "trail")
		}
		err := ev.Try(func() error { return checkGrammar(c) })
		s := amf0ref.Measure(c.Val)
		var cl []string
		if s.RepeatedKey {
			cl = append(cl, "repeated-key")
		}
		if len(c.Trail) > 0 {
			cl = append(cl, "trailing")
		}
		if s.Count {
			cl = append(cl, "count-mismatch")
		}
		if s.OddBool {
			cl = append(cl, "odd-bool")
		}
		recGrammar.Case(len(cl) > 0, ev.Hash(c), cl, func() any { return sampleOf(c.Val) })
		if err != nil {
			p := ev.Fail(prop, "grammar-bytes", c, err)
			t.Fatalf("%v (replay %s)", err, p)
		}
	})
}

// ---------------------------------------------------------------- (d) byte strings next to the grammar

// NCase: a grammar-valid encoding damaged by a few byte edits. Most results are rejected by
// the decoder (not judged here); the ones it accepts must still satisfy "Size() == bytes consumed".
type NCase struct {
	Val   amf0ref.Val   `json:"val"`
	Edits []NEdit       `json:"edits"`
	Trail amf0ref.Bytes `json:"trail,omitempty"`
}

type NEdit struct {
	Op  string        `json:"op"`  // set | insert | delete | truncate | named-end
	At  int           `json:"at"`  // position (mod length); for named-end: which 00 00 09 terminator
	Arg amf0ref.Bytes `json:"arg"` // bytes written / inserted / the key put before the terminator
	N   int           `json:"n"`   // delete length
}

func (c NCase) bytes() []byte {
	b := append([]byte(nil), amf0ref.Encode(c.Val, amf0ref.Lib)...)
	for _, e := range c.Edits {
		if len(b) == 0 {
			break
		}
		at := e.At % len(b)
		switch e.Op {
		case "set":
			for i, x := range e.Arg {
				if at+i < len(b) {
					b[at+i] = x
				}
			}
		case "insert":
			b = append(b[:at:at], append(append([]byte(nil), e.Arg...), b[at:]...)...)
		case "delete":
			n := min(e.N, len(b)-at)
			b = append(b[:at:at], b[at+n:]...)
		case "truncate":
			b = b[:at]
		case "named-end":
			// an object-end marker that follows a non-empty name instead of the empty one
			var ends []int
			for i := 0; i+3 <= len(b); i++ {
				if b[i] == 0 && b[i+1] == 0 && b[i+2] == 9 {
					ends = append(ends, i)
				}
			}
			if len(ends) == 0 || len(e.Arg) == 0 || len(e.Arg) > 255 {
				continue
			}
			i := ends[e.At%len(ends)]
			repl := append([]byte{0, byte(len(e.Arg))}, e.Arg...)
			repl = append(repl, 9)
			b = append(b[:i:i], append(repl, b[i+3:]...)...)
		}
	}
	return append(b, c.Trail...)
}

func decodeAny(b []byte) (amf0.Amf0, error) {
	a, err := amf0.Discovery(b)
	if err != nil {
		return nil, err
	}
	if err := a.UnmarshalBinary(b); err != nil {
		return nil, err
	}
	return a, nil
}

// checkNear returns whether the library accepted the string.
func checkNear(c NCase) (accepted, strict bool, err error) {
	b := c.bytes()
	var a amf0.Amf0
	var derr error
	if e := ev.WithTimeout(20*time.Second, func() error { a, derr = decodeAny(b); return nil }); e != nil {
		return false, false, nil // slowness is C07's subject
	}
	if derr != nil {
		return false, false, nil
	}
	s := a.Size()
	if _, n, e := amf0ref.Decode(b, amf0ref.Lib); e == nil {
		// the strict reference parser accepts it too: it knows how long the value is
		strict = true
		if s != n {
			return true, true, fmt.Errorf("%x: Size() after decoding = %d, the value occupies %d bytes", clip(b), s, n)
		}
	}
	// the bytes consumed are exactly the first Size() bytes: they alone must decode to the same value
	if s < 1 || s > len(b) {
		return true, strict, fmt.Errorf("%x: decoded from %d bytes, Size() = %d", clip(b), len(b), s)
	}
	a2, e := decodeAny(b[:s])
	if e != nil {
		return true, strict, fmt.Errorf("%x: decodes successfully with Size() = %d, but its first %d bytes alone do not decode (%v): the decoder consumed more than Size()", clip(b), s, s, e)
	}
	if a2.Size() != s {
		return true, strict, fmt.Errorf("%x: Size() = %d, decoding just those bytes gives Size() = %d", clip(b), s, a2.Size())
	}
	m1, e1 := a.MarshalBinary()
	m2, e2 := a2.MarshalBinary()
	if e1 != nil || e2 != nil || !bytes.Equal(m1, m2) {
		return true, strict, fmt.Errorf("%x: the first Size() = %d bytes decode to a different value than the whole input (a caller advancing by Size() is misaligned)", clip(b), s)
	}
	return true, strict, nil
}

func clip(b []byte) []byte {
	if len(b) > 48 {
		return b[:48]
	}
	return b
}

var recNear = ev.New(prop, "near-grammar-bytes",
	"grammar-valid encodings damaged by 1-3 byte edits (overwrite with arbitrary/marker bytes, insert, delete, truncate, object-end marker moved behind a non-empty name) plus optional trailing bytes; "+
		"strings the decoder rejects are not judged; for every accepted one Size() must equal the length the strict reference parser finds (when it accepts too) and the first Size() bytes alone must decode to the same value; "+
		"non-trivial = accepted by the library after at least one edit").
	Require("accepted")

func genNear(t *rapid.T) NCase {
	c := NCase{Val: amf0x.Gen(t, amf0x.Opts{MaxDepth: 5, MaxNodes: 16, WireFreedom: true})}
	n := rapid.IntRange(1, 3).Draw(t, "nedits")
	for i := 0; i < n; i++ {
		e := NEdit{Op: rapid.SampledFrom([]string{"set", "set", "insert", "delete", "truncate", "named-end", "named-end"}).Draw(t, "op"), At: rapid.IntRange(0, 400).Draw(t, "at")}
		switch e.Op {
		case "set", "insert":
			if rapid.Bool().Draw(t, "marker") {
				e.Arg = []byte{byte(rapid.IntRange(0, 0x12).Draw(t, "m"))}
			} else {
				e.Arg = rapid.SliceOfN(rapid.Byte(), 1, 4).Draw(t, "arg")
			}
		case "delete":
			e.N = rapid.IntRange(1, 4).Draw(t, "n")
		case "named-end":
			e.Arg = rapid.SliceOfN(rapid.Byte(), 1, 3).Draw(t, "key")
		}
		c.Edits = append(c.Edits, e)
	}
	if rapid.IntRange(0, 2).Draw(t, "trailk") == 0 {
		c.Trail = rapid.SliceOfN(rapid.Byte(), 1, 8).Draw(t, "trail")
	}
	return c
}

func TestNearGrammarBytes(t *testing.T) {
	ev.Rapid(t, "near-grammar-bytes", 20000, 6000000, func(t *rapid.T) {
		c := genNear(t)
		var acc, strict bool
		err := ev.Try(func() error {
			var e error
			acc, strict, e = checkNear(c)
			return e
		})
		var cl []string
		if acc {
			cl = append(cl, "accepted")
			if !strict {
				cl = append(cl, "accepted-not-by-reference")
			}
		} else {
			cl = append(cl, "rejected")
		}
		recNear.Case(acc, ev.Hash(c), cl, func() any { return fmt.Sprintf("%x", clip(c.bytes())) })
		if err != nil {
			p := ev.Fail(prop, "near-grammar-bytes", c, err)
			t.Fatalf("%v (replay %s)", err, p)
		}
	})
}

func replayers() map[string]ev.Replayer {
	return map[string]ev.Replayer{
		"side-by-side": func(raw json.RawMessage) error {
			var v amf0ref.Val
			if err := json.Unmarshal(raw, &v); err != nil {
				return err
			}
			return checkTree(v)
		},
		"tree": func(raw json.RawMessage) error {
			var v amf0ref.Val
			if err := json.Unmarshal(raw, &v); err != nil {
				return err
			}
			return checkTree(v)
		},
		"container-machine": func(raw json.RawMessage) error {
			var c MCase
			if err := json.Unmarshal(raw, &c); err != nil {
				return err
			}
			_, _, e := runMachine(c)
			return e
		},
		"near-grammar-bytes": func(raw json.RawMessage) error {
			var c NCase
			if err := json.Unmarshal(raw, &c); err != nil {
				return err
			}
			_, _, e := checkNear(c)
			return e
		},
		"grammar-bytes": func(raw json.RawMessage) error {
			var c GCase
			if err := json.Unmarshal(raw, &c); err != nil {
				return err
			}
			return checkGrammar(c)
		},
	}
}

func TestRegress(t *testing.T) { ev.Regress(t, prop, replayers()) }
func TestReplay(t *testing.T) {
	if os.Getenv("VERIF_REPLAY") == "" {
		t.Skip("no VERIF_REPLAY")
	}
	ev.Replay(t, prop, replayers())
}
