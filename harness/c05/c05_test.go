// C05: AMF0 value trees round-trip bit-exactly with Size() == encoded length, and for every
// decodable byte string Size() afterwards equals the bytes consumed.
package c05

import (
	"bytes"
	"encoding/json"
	"fmt"
	"os"
	"testing"

	"github.com/ossrs/go-oryx-lib/amf0"
	"pgregory.net/rapid"
	"verif/harness/internal/amf0x"
	"verif/harness/internal/ev"
	"verif/harness/internal/ref/amf0ref"
)

const prop = "C05"

func TestMain(m *testing.M) { ev.Main(m) }

// ---------------------------------------------------------------- (a) trees

func checkTree(v amf0ref.Val) error {
	a := amf0x.Build(v)
	b, err := a.MarshalBinary()
	if err != nil {
		return fmt.Errorf("marshal: %v", err)
	}
	if len(b) != a.Size() {
		return fmt.Errorf("marshalled %d bytes, Size() = %d", len(b), a.Size())
	}
	d, err := amf0.Discovery(b)
	if err != nil {
		return fmt.Errorf("Discovery of own encoding: %v", err)
	}
	if err := d.UnmarshalBinary(b); err != nil {
		return fmt.Errorf("unmarshal of own encoding: %v", err)
	}
	if err := amf0x.Same(d, v); err != nil {
		return fmt.Errorf("decoded tree differs: %v", err)
	}
	if d.Size() != len(b) {
		return fmt.Errorf("Size() after unmarshal = %d, encoding has %d bytes", d.Size(), len(b))
	}
	b2, err := d.MarshalBinary()
	if err != nil {
		return fmt.Errorf("re-marshal: %v", err)
	}
	if !bytes.Equal(b, b2) {
		return fmt.Errorf("re-marshalled bytes differ: %d vs %d bytes (first difference at %d)", len(b), len(b2), firstDiff(b, b2))
	}
	// key order: the reference decoder (library layout) must see the keys in the model's order
	rv, n, err := amf0ref.Decode(b, amf0ref.Lib)
	if err != nil || n != len(b) {
		return fmt.Errorf("library bytes not parseable in the library's own layout: n=%d err=%v", n, err)
	}
	if err := amf0ref.Equal(rv, v, true); err != nil {
		return fmt.Errorf("wire content differs from the tree built: %v", err)
	}
	return nil
}

func firstDiff(a, b []byte) int {
	for i := 0; i < len(a) && i < len(b); i++ {
		if a[i] != b[i] {
			return i
		}
	}
	return min(len(a), len(b))
}

var recTree = ev.New(prop, "tree",
	"rapid-generated value trees (depth<=8, <=40 nodes; numbers from raw bit patterns incl. NaN payloads/Inf/-0/denormals, strings 0..65535 bytes of arbitrary bytes, "+
		"objects/ECMA/strict arrays with distinct keys incl. the empty key) built through NewX/Set; non-trivial = nesting>=2 or non-finite number or >=65534-byte string or non-empty strict array").
	Require("nested", "non-finite", "big-string", "strict-nonempty")

func treeClasses(s amf0ref.Stats) []string {
	var cl []string
	if s.Depth >= 3 {
		cl = append(cl, "nested")
	}
	if s.NonFinite {
		cl = append(cl, "non-finite")
	}
	if s.BigString {
		cl = append(cl, "big-string")
	}
	if s.StrictNonEmpty {
		cl = append(cl, "strict-nonempty")
	}
	if s.EmptyKey {
		cl = append(cl, "empty-key")
	}
	return cl
}

func TestTree(t *testing.T) {
	ev.Rapid(t, "tree", 8000, 4000000, func(t *rapid.T) {
		v := amf0x.Gen(t, amf0x.Opts{MaxDepth: 8, MaxNodes: 40, DistinctKeys: true, BigStrings: true})
		err := ev.Try(func() error { return checkTree(v) })
		cl := treeClasses(amf0ref.Measure(v))
		recTree.Case(len(cl) > 0, ev.Hash(v), cl, func() any { return sampleOf(v) })
		if err != nil {
			p := ev.Fail(prop, "tree", v, err)
			t.Fatalf("%v (replay %s)", err, p)
		}
	})
}

func sampleOf(v amf0ref.Val) any {
	b := amf0ref.Encode(v, amf0ref.Lib)
	if len(b) > 96 {
		return map[string]any{"lib_layout_bytes": len(b), "head": fmt.Sprintf("%x", b[:96]), "nodes": amf0ref.Measure(v).Nodes}
	}
	return map[string]any{"lib_layout": fmt.Sprintf("%x", b)}
}

// ---------------------------------------------------------------- (b) container state machine

type Op struct {
	Op   string        `json:"op"` // set | get | roundtrip | size | nested
	Key  amf0ref.Bytes `json:"key,omitempty"`
	Val  *amf0ref.Val  `json:"val,omitempty"`
	Key2 amf0ref.Bytes `json:"key2,omitempty"` // nested: key set inside the container stored under Key
}

type MCase struct {
	Kind amf0ref.Kind `json:"kind"`
	Ops  []Op         `json:"ops"`
}

type container interface {
	amf0.Amf0
	Get(string) amf0.Amf0
}

func newContainer(k amf0ref.Kind) (container, func(string, amf0.Amf0)) {
	switch k {
	case amf0ref.Ecma:
		c := amf0.NewEcmaArray()
		return c, func(k string, v amf0.Amf0) { c.Set(k, v) }
	case amf0ref.Strict:
		c := amf0.NewStrictArray()
		return c, func(k string, v amf0.Amf0) { c.Set(k, v) }
	}
	c := amf0.NewObject()
	return c, func(k string, v amf0.Amf0) { c.Set(k, v) }
}

var nested bool // set by runMachine when a nested mutation happened (class measurement only)

func runMachine(c MCase) (replaced, reopened bool, err error) {
	nested = false
	model := amf0ref.Val{K: c.Kind}
	cont, set := newContainer(c.Kind)
	for i, op := range c.Ops {
		switch op.Op {
		case "set":
			set(string(op.Key), amf0x.Build(*op.Val))
			found := false
			for j := range model.Props {
				if string(model.Props[j].Key) == string(op.Key) {
					model.Props[j].Val = *op.Val // replace keeps the position
					found = true
					replaced = true
				}
			}
			if !found {
				model.Props = append(model.Props, amf0ref.Prop{Key: op.Key, Val: *op.Val})
			}
		case "get":
			got := cont.Get(string(op.Key))
			var want *amf0ref.Val
			for j := range model.Props {
				if string(model.Props[j].Key) == string(op.Key) {
					want = &model.Props[j].Val
					break
				}
			}
			if want == nil {
				if got != nil {
					return replaced, reopened, fmt.Errorf("op %d: Get(%q) returned a value, model has none", i, op.Key)
				}
			} else if e := amf0x.Same(got, *want); e != nil {
				return replaced, reopened, fmt.Errorf("op %d: Get(%q): %v", i, op.Key, e)
			}
		case "size":
			// Size() may be asked at any time (and may be cached by an implementation): it must always
			// be the length of what MarshalBinary produces now
			sz := cont.Size()
			b, e := cont.MarshalBinary()
			if e != nil || len(b) != sz {
				return replaced, reopened, fmt.Errorf("op %d: Size() = %d, MarshalBinary gives %d bytes (err %v)", i, sz, len(b), e)
			}
		case "nested":
			// mutate a container that is stored inside this one (Get returns the live value)
			for j := range model.Props {
				if string(model.Props[j].Key) != string(op.Key) {
					continue
				}
				mv := &model.Props[j].Val
				if mv.K != amf0ref.Object && mv.K != amf0ref.Ecma && mv.K != amf0ref.Strict {
					break
				}
				nv := amf0x.Build(*op.Val)
				switch inner := cont.Get(string(op.Key)).(type) {
				case *amf0.Object:
					inner.Set(string(op.Key2), nv)
				case *amf0.EcmaArray:
					inner.Set(string(op.Key2), nv)
				case *amf0.StrictArray:
					inner.Set(string(op.Key2), nv)
				default:
					return replaced, reopened, fmt.Errorf("op %d: Get(%q) returned %T for a stored container", i, op.Key, inner)
				}
				found := false
				for k := range mv.Props {
					if string(mv.Props[k].Key) == string(op.Key2) {
						mv.Props[k].Val = *op.Val
						found = true
					}
				}
				if !found {
					mv.Props = append(mv.Props, amf0ref.Prop{Key: op.Key2, Val: *op.Val})
				}
				nested = true
				break
			}
		case "roundtrip":
			b, e := cont.MarshalBinary()
			if e != nil {
				return replaced, reopened, fmt.Errorf("op %d: marshal: %v", i, e)
			}
			if len(b) != cont.Size() {
				return replaced, reopened, fmt.Errorf("op %d: marshalled %d bytes, Size() = %d", i, len(b), cont.Size())
			}
			rv, n, e := amf0ref.Decode(b, amf0ref.Lib)
			if e != nil || n != len(b) {
				return replaced, reopened, fmt.Errorf("op %d: wire not parseable: n=%d err=%v", i, n, e)
			}
			if e := amf0ref.Equal(rv, model, true); e != nil {
				return replaced, reopened, fmt.Errorf("op %d: wire differs from the ordered-map model: %v", i, e)
			}
			nc, nset := newContainer(c.Kind)
			if e := nc.UnmarshalBinary(b); e != nil {
				return replaced, reopened, fmt.Errorf("op %d: unmarshal: %v", i, e)
			}
			if nc.Size() != len(b) {
				return replaced, reopened, fmt.Errorf("op %d: Size() after unmarshal = %d, want %d", i, nc.Size(), len(b))
			}
			if e := amf0x.Same(nc, model); e != nil {
				return replaced, reopened, fmt.Errorf("op %d: after unmarshal: %v", i, e)
			}
			cont, set = nc, nset
			reopened = true
		}
	}
	return replaced, reopened, nil
}

var recMachine = ev.New(prop, "container-machine",
	"operation sequences (<=30 ops) on one Object/EcmaArray/StrictArray: Set(k,v) with keys from a 6-key pool (so replacement happens), Get(k), Size() at any time, Set on a container stored inside (through Get), marshal+unmarshal into a fresh container that then continues; "+
		"model = ordered key/value list where replacing keeps the position; non-trivial = a replacement and a marshal/unmarshal both occur").
	Require("replace+reopen", "nested-mutation")

func TestContainerMachine(t *testing.T) {
	ev.Rapid(t, "container-machine", 4000, 2000000, func(t *rapid.T) {
		c := MCase{Kind: rapid.SampledFrom([]amf0ref.Kind{amf0ref.Object, amf0ref.Ecma, amf0ref.Strict}).Draw(t, "kind")}
		pool := [][]byte{[]byte(""), []byte("a"), []byte("b"), []byte("app"), amf0x.GenKey(t), amf0x.GenKey(t)}
		n := rapid.IntRange(1, 30).Draw(t, "nops")
		for i := 0; i < n; i++ {
			key := rapid.SampledFrom(pool).Draw(t, "key")
			switch rapid.IntRange(0, 8).Draw(t, "op") {
			case 0, 1, 2:
				v := amf0x.Gen(t, amf0x.Opts{MaxDepth: 3, MaxNodes: 6, DistinctKeys: true})
				if rapid.IntRange(0, 2).Draw(t, "cont") == 0 {
					v = amf0ref.Val{K: rapid.SampledFrom([]amf0ref.Kind{amf0ref.Object, amf0ref.Ecma, amf0ref.Strict}).Draw(t, "ck")}
				}
				c.Ops = append(c.Ops, Op{Op: "set", Key: key, Val: &v})
			case 3:
				c.Ops = append(c.Ops, Op{Op: "get", Key: key})
			case 4, 5:
				c.Ops = append(c.Ops, Op{Op: "size"})
			case 6, 7:
				v := amf0x.Gen(t, amf0x.Opts{MaxDepth: 2, MaxNodes: 4, DistinctKeys: true})
				c.Ops = append(c.Ops, Op{Op: "nested", Key: key, Key2: rapid.SampledFrom(pool).Draw(t, "key2"), Val: &v})
			default:
				c.Ops = append(c.Ops, Op{Op: "roundtrip"})
			}
		}
		var rep, reo bool
		err := ev.Try(func() error {
			var e error
			rep, reo, e = runMachine(c)
			return e
		})
		var cl []string
		if rep && reo {
			cl = append(cl, "replace+reopen")
		}
		if nested {
			cl = append(cl, "nested-mutation")
		}
		recMachine.Case(rep && reo, ev.Hash(c), cl, func() any { return c })
		if err != nil {
			p := ev.Fail(prop, "container-machine", c, err)
			t.Fatalf("%v (replay %s)", err, p)
		}
	})
}

// ---------------------------------------------------------------- (c) decodable byte strings

type GCase struct {
	Val   amf0ref.Val   `json:"val"`
	Trail amf0ref.Bytes `json:"trail,omitempty"`
}

func checkGrammar(c GCase) error {
	enc := amf0ref.Encode(c.Val, amf0ref.Lib)
	b := append(append([]byte(nil), enc...), c.Trail...)
	a, err := amf0.Discovery(b)
	if err != nil {
		return fmt.Errorf("Discovery rejects a grammar-valid encoding: %v", err)
	}
	if err := a.UnmarshalBinary(b); err != nil {
		return fmt.Errorf("decoder rejects a grammar-valid encoding (%d bytes + %d trailing): %v", len(enc), len(c.Trail), err)
	}
	if a.Size() != len(enc) {
		return fmt.Errorf("Size() after decoding = %d, the value occupies %d bytes", a.Size(), len(enc))
	}
	// the same through the concrete type, as the RTMP packet parsers do
	var a2 amf0.Amf0
	switch c.Val.K {
	case amf0ref.Object:
		a2 = amf0.NewObject()
	case amf0ref.Ecma:
		a2 = amf0.NewEcmaArray()
	case amf0ref.Strict:
		a2 = amf0.NewStrictArray()
	case amf0ref.String:
		a2 = amf0.NewString("x")
	case amf0ref.Number:
		a2 = amf0.NewNumber(1)
	}
	if a2 != nil {
		if err := a2.UnmarshalBinary(b); err != nil {
			return fmt.Errorf("typed decoder rejects a grammar-valid encoding: %v", err)
		}
		if a2.Size() != len(enc) {
			return fmt.Errorf("typed decode: Size() = %d, the value occupies %d bytes", a2.Size(), len(enc))
		}
	}
	return nil
}

var recGrammar = ev.New(prop, "grammar-bytes",
	"byte strings generated from the wire grammar in the library's layout (repeated keys, empty keys, non-canonical boolean bytes, ECMA counts that disagree with the entries, depth<=6) "+
		"followed by 0..16 arbitrary trailing bytes; oracle: decoding succeeds and Size() == grammar-known length; non-trivial = repeated key or trailing bytes or odd boolean or count mismatch").
	Require("repeated-key", "trailing", "count-mismatch", "odd-bool")

func TestGrammarBytes(t *testing.T) {
	ev.Rapid(t, "grammar-bytes", 8000, 4000000, func(t *rapid.T) {
		c := GCase{Val: amf0x.Gen(t, amf0x.Opts{MaxDepth: 6, MaxNodes: 30, WireFreedom: true})}
		if rapid.Bool().Draw(t, "trailk") {
			c.Trail = rapid.SliceOfN(rapid.Byte(), 1, 16).Draw(t, "trail")
		}
		err := ev.Try(func() error { return checkGrammar(c) })
		s := amf0ref.Measure(c.Val)
		var cl []string
		if s.RepeatedKey {
			cl = append(cl, "repeated-key")
		}
		if len(c.Trail) > 0 {
			cl = append(cl, "trailing")
		}
		if s.Count {
			cl = append(cl, "count-mismatch")
		}
		if s.OddBool {
			cl = append(cl, "odd-bool")
		}
		recGrammar.Case(len(cl) > 0, ev.Hash(c), cl, func() any { return sampleOf(c.Val) })
		if err != nil {
			p := ev.Fail(prop, "grammar-bytes", c, err)
			t.Fatalf("%v (replay %s)", err, p)
		}
	})
}

func replayers() map[string]ev.Replayer {
	return map[string]ev.Replayer{
		"tree": func(raw json.RawMessage) error {
			var v amf0ref.Val
			if err := json.Unmarshal(raw, &v); err != nil {
				return err
			}
			return checkTree(v)
		},
		"container-machine": func(raw json.RawMessage) error {
			var c MCase
			if err := json.Unmarshal(raw, &c); err != nil {
				return err
			}
			_, _, e := runMachine(c)
			return e
		},
		"grammar-bytes": func(raw json.RawMessage) error {
			var c GCase
			if err := json.Unmarshal(raw, &c); err != nil {
				return err
			}
			return checkGrammar(c)
		},
	}
}

func TestRegress(t *testing.T) { ev.Regress(t, prop, replayers()) }
func TestReplay(t *testing.T) {
	if os.Getenv("VERIF_REPLAY") == "" {
		t.Skip("no VERIF_REPLAY")
	}
	ev.Replay(t, prop, replayers())
}
