// C18: connection ids are unique and log lines whole under concurrency (race build).
package c18

import (
	"context"
	"encoding/json"
	"fmt"
	"os"
	"regexp"
	"strconv"
	"strings"
	"sync"
	"testing"
	"time"

	"github.com/ossrs/go-oryx-lib/logger"
	"pgregory.net/rapid"
	"verif/harness/internal/ev"
)

const prop = "C18"

func TestMain(m *testing.M) { ev.Main(m) }

type Op struct {
	Op    string `json:"op"`              // with | alias | log
	Dead  bool   `json:"dead,omitempty"`  // with/alias: the context is derived with WithCancel and cancelled at once (it still carries its id)
	Src   int    `json:"src,omitempty"`   // alias: index of an earlier context of this goroutine, -1 = nil source, -2 = plain context without id
	Level string `json:"level,omitempty"` // T Tf W Wf E Ef I If TP (Trace.Println) WP EP TPf (Trace.Printf)
	Ctx   int    `json:"ctx,omitempty"`   // log: -1 nil, -2 plain context.Context, -3 object with Cid(), >=0 index of an earlier context of this goroutine
	Cid   int    `json:"cid,omitempty"`   // for the object
	Msg   string `json:"msg,omitempty"`
	// alias: the parent the alias is derived from: 0 = context.Background(), k>0 = this goroutine's earlier context k-1 (which carries an id of its own)
	Parent int  `json:"parent,omitempty"`
	NL     bool `json:"nl,omitempty"`    // log, Printf-style functions: the format ends with a newline of its own
	Spare  int  `json:"spare,omitempty"` // log: the arguments are passed as a slice (args...) with that much spare capacity
}

type Case struct {
	G [][]Op `json:"g"` // per goroutine
	// Reopen: before the goroutines start the logger is closed and switched to the SAME writer again
	// (Switch(w), Close(), Switch(w)): w is the current writer from then on
	Reopen bool `json:"reopen,omitempty"`
	// Plain: the writer installed is a bare io.Writer (no Close method) after the logger was closed - the
	// configuration in which the library colours warnings and errors on the console; the lines still go to the writer
	Plain bool `json:"plain,omitempty"`
}

// plainWriter hides the Close method of the recording writer.
type plainWriter struct{ w *recWriter }

func (p plainWriter) Write(b []byte) (int, error) { return p.w.Write(b) }

type recWriter struct {
	mu     sync.Mutex
	writes []string
}

func (w *recWriter) Write(p []byte) (int, error) {
	w.mu.Lock()
	w.writes = append(w.writes, string(p))
	w.mu.Unlock()
	return len(p), nil
}
func (w *recWriter) Close() error { return nil }

type cidObj struct{ id int }

func (c *cidObj) Cid() int { return c.id }

var allIDs = struct {
	sync.Mutex
	m map[int]string
}{m: map[int]string{}}

// '<level label><timestamp> rest': the timestamp is whatever date/time fields the logger prints
// (digits and / : . separated by spaces), not a fixed format
var lineRe = regexp.MustCompile(`^\[(trace|warn|error)\] ((?:[0-9][0-9/:.]* )+)(.*)\n$`)
var prefRe = regexp.MustCompile(`^\[(\d+)\](?:\[(-?\d+)\])? *(.*)$`)

type expect struct {
	tok   string
	level string // trace warn error
	kind  string // nil obj lib plain
	cid   int    // obj: expected cid
	ctxID string // lib: goroutine-local context name whose id must be consistent
	msg   string
}

// logWith makes the call; spare > 0 passes the arguments as an application slice with spare
// capacity and reports an error if the call wrote into it.
func logWith(level string, ctx logger.Context, tok, msg string, nl bool, spare int) error {
	format := "%s %s"
	if nl {
		format += "\n"
	}
	a := make([]interface{}, 2, 2+spare)
	a[0], a[1] = tok, msg
	switch level {
	case "T":
		logger.T(ctx, a...)
	case "Tf":
		logger.Tf(ctx, format, a...)
	case "W":
		logger.W(ctx, a...)
	case "Wf":
		logger.Wf(ctx, format, a...)
	case "E":
		logger.E(ctx, a...)
	case "Ef":
		logger.Ef(ctx, format, a...)
	case "I":
		logger.I(ctx, a...)
	case "If":
		logger.If(ctx, format, a...)
	case "TP":
		logger.Trace.Println(ctx, a...)
	case "WP":
		logger.Warn.Println(ctx, a...)
	case "EP":
		logger.Error.Println(ctx, a...)
	case "TPf":
		logger.Trace.Printf(ctx, format, a...)
	}
	full := a[:cap(a)]
	if full[0] != interface{}(tok) || full[1] != interface{}(msg) {
		return fmt.Errorf("logging call %s changed the argument slice it was given: %v", tok, full)
	}
	for _, x := range full[2:] {
		if x != nil {
			return fmt.Errorf("logging call %s wrote into the spare capacity of the argument slice it was given: %v", tok, full)
		}
	}
	return nil
}

func levelLabel(level string) string {
	switch level[0] {
	case 'T':
		return "trace"
	case 'W':
		return "warn"
	case 'E':
		return "error"
	}
	return ""
}

type stats struct {
	goroutines, creates, logs int
}

func runCase(c Case) (st stats, err error) {
	w := &recWriter{}
	logger.Switch(w)
	if c.Reopen {
		logger.Close()
		logger.Switch(w)
	}
	if c.Plain {
		logger.Close()
		logger.Switch(plainWriter{w})
	}
	defer logger.Switch(&recWriter{})
	pid := os.Getpid()

	var mu sync.Mutex
	var expects []expect
	var argErr error
	aliasOf := map[string]string{} // ctx name -> source ctx name (must carry the same id)
	fresh := []string{}            // ctx names that must carry ids distinct from everything else
	start := make(chan struct{})
	var wg sync.WaitGroup
	for gi, ops := range c.G {
		wg.Add(1)
		go func(gi int, ops []Op) {
			defer wg.Done()
			<-start
			var ctxs []context.Context
			var names []string
			for oi, op := range ops {
				tok := fmt.Sprintf("tok-g%d-o%d-", gi, oi)
				switch op.Op {
				case "with", "alias":
					var ctx context.Context
					name := fmt.Sprintf("g%d-c%d", gi, len(ctxs))
					if op.Op == "with" {
						ctx = logger.WithContext(context.Background())
						mu.Lock()
						fresh = append(fresh, name)
						mu.Unlock()
					} else {
						switch {
						case op.Src >= 0 && op.Src < len(ctxs):
							parent := context.Background()
							if op.Parent > 0 && op.Parent <= len(ctxs) {
								parent = ctxs[op.Parent-1]
							}
							ctx = logger.AliasContext(parent, ctxs[op.Src])
							mu.Lock()
							aliasOf[name] = names[op.Src]
							mu.Unlock()
						case op.Src == -2:
							ctx = logger.AliasContext(context.Background(), context.WithValue(context.Background(), "k", 1))
							mu.Lock()
							fresh = append(fresh, name)
							mu.Unlock()
						default:
							ctx = logger.AliasContext(context.Background(), nil)
							mu.Lock()
							fresh = append(fresh, name)
							mu.Unlock()
						}
					}
					if op.Dead {
						// a cancelled (or timed-out) context still carries its connection id
						cctx, cancel := context.WithCancel(ctx)
						cancel()
						ctx = cctx
					}
					ctxs = append(ctxs, ctx)
					names = append(names, name)
					// probe line: the only way to observe the id from outside the package
					logger.Tf(ctx, "%s %s", tok, "id-probe")
					mu.Lock()
					expects = append(expects, expect{tok: tok, level: "trace", kind: "lib", ctxID: name, msg: "id-probe"})
					mu.Unlock()
				case "log":
					var ctx logger.Context
					e := expect{tok: tok, level: levelLabel(op.Level), msg: op.Msg}
					switch {
					case op.Ctx >= 0 && op.Ctx < len(ctxs):
						ctx = ctxs[op.Ctx]
						e.kind, e.ctxID = "lib", names[op.Ctx]
					case op.Ctx == -3:
						ctx = &cidObj{op.Cid}
						e.kind, e.cid = "obj", op.Cid
					case op.Ctx == -2:
						ctx = context.WithValue(context.Background(), "other", 7)
						e.kind = "plain"
					default:
						ctx = nil
						e.kind = "nil"
					}
					if err := logWith(op.Level, ctx, tok, op.Msg, op.NL, op.Spare); err != nil {
						mu.Lock()
						if argErr == nil {
							argErr = err
						}
						mu.Unlock()
					}
					if e.level != "" {
						mu.Lock()
						expects = append(expects, e)
						mu.Unlock()
					}
				}
			}
		}(gi, ops)
	}
	close(start)
	done := make(chan struct{})
	go func() { wg.Wait(); close(done) }()
	select {
	case <-done:
	case <-time.After(2 * time.Minute):
		return st, fmt.Errorf("stall: after 2 minutes some goroutine is still inside a context-creating or logging call (%d goroutines, a few dozen calls each)", len(c.G))
	}
	if argErr != nil {
		return st, argErr
	}

	st.goroutines = len(c.G)
	w.mu.Lock()
	lines := append([]string(nil), w.writes...)
	w.mu.Unlock()
	if len(lines) != len(expects) {
		return st, fmt.Errorf("%d write calls reached the writer, %d logging calls should each emit exactly one line", len(lines), len(expects))
	}
	byTok := map[string]string{}
	for _, l := range lines {
		i := strings.Index(l, "tok-g")
		if i < 0 {
			return st, fmt.Errorf("a write call carries no complete message: %q", l)
		}
		j := i
		for j < len(l) && l[j] != ' ' && l[j] != '\n' {
			j++
		}
		tok := l[i:j]
		if _, dup := byTok[tok]; dup {
			return st, fmt.Errorf("message %q was written twice", tok)
		}
		byTok[tok] = l
	}
	ids := map[string]int{}
	for _, e := range expects {
		l, ok := byTok[e.tok]
		if !ok {
			return st, fmt.Errorf("no line for logging call %s (lost or torn)", e.tok)
		}
		m := lineRe.FindStringSubmatch(l)
		if m == nil {
			return st, fmt.Errorf("write call is not one complete line '<label><timestamp> ...\\n': %q", l)
		}
		if m[1] != e.level {
			return st, fmt.Errorf("line %q has label %s, the call was %s", l, m[1], e.level)
		}
		rest := m[3]
		wantMsg := e.tok + " " + e.msg
		if e.kind == "plain" {
			// a context without an id: only the wholeness of the line is required
			if !strings.HasSuffix(rest, wantMsg) {
				return st, fmt.Errorf("line %q does not end with the message %q", l, wantMsg)
			}
			continue
		}
		pm := prefRe.FindStringSubmatch(rest)
		if pm == nil {
			return st, fmt.Errorf("line %q lacks the [pid] prefix", l)
		}
		if pm[1] != strconv.Itoa(pid) {
			return st, fmt.Errorf("line %q carries pid %s, the process is %d", l, pm[1], pid)
		}
		if pm[3] != wantMsg {
			return st, fmt.Errorf("line %q: message %q, want %q", l, pm[3], wantMsg)
		}
		switch e.kind {
		case "nil":
			if pm[2] != "" {
				return st, fmt.Errorf("line %q for a nil context carries a connection id", l)
			}
		case "obj":
			if pm[2] != strconv.Itoa(e.cid) {
				return st, fmt.Errorf("line %q logged with an object whose Cid() is %d carries cid %q", l, e.cid, pm[2])
			}
		case "lib":
			if pm[2] == "" {
				return st, fmt.Errorf("line %q logged with a library context carries no connection id", l)
			}
			id, _ := strconv.Atoi(pm[2])
			if prev, ok := ids[e.ctxID]; ok && prev != id {
				return st, fmt.Errorf("context %s logged as id %d and as id %d", e.ctxID, prev, id)
			}
			ids[e.ctxID] = id
		}
	}
	// aliases carry their source's id; fresh contexts are unique in the whole process
	for name, src := range aliasOf {
		if ids[name] != ids[src] {
			return st, fmt.Errorf("aliased context %s carries id %d, its source %s carries %d", name, ids[name], src, ids[src])
		}
	}
	allIDs.Lock()
	defer allIDs.Unlock()
	for _, name := range fresh {
		id, ok := ids[name]
		if !ok {
			return st, fmt.Errorf("harness: no id observed for %s", name)
		}
		if other, dup := allIDs.m[id]; dup {
			return st, fmt.Errorf("connection id %d was handed out twice (%s and %s)", id, other, name)
		}
		allIDs.m[id] = name
	}
	st.creates, st.logs = len(fresh), len(expects)
	return st, nil
}

var levels = []string{"T", "Tf", "W", "Wf", "E", "Ef", "I", "If", "TP", "WP", "EP", "TPf"}

func genCase(t *rapid.T) Case {
	var c Case
	ng := rapid.SampledFrom([]int{1, 2, 4, 8, 16, 32}).Draw(t, "ng")
	maxOps := rapid.SampledFrom([]int{5, 20, 60}).Draw(t, "maxops")
	for g := 0; g < ng; g++ {
		var ops []Op
		n := rapid.IntRange(1, maxOps).Draw(t, "nops")
		nctx := 0
		for i := 0; i < n; i++ {
			switch k := rapid.IntRange(0, 9).Draw(t, "opk"); {
			case k <= 3:
				ops = append(ops, Op{Op: "with", Dead: rapid.IntRange(0, 3).Draw(t, "dead") == 0})
				nctx++
			case k == 4:
				src := rapid.IntRange(-2, nctx-1).Draw(t, "src")
				ops = append(ops, Op{Op: "alias", Src: src, Dead: rapid.IntRange(0, 5).Draw(t, "adead") == 0, Parent: rapid.IntRange(0, nctx).Draw(t, "parent")})
				nctx++
			default:
				o := Op{Op: "log", Level: rapid.SampledFrom(levels).Draw(t, "level"), Msg: rapid.StringMatching(`[ -$&-~]{0,24}`).Draw(t, "msg")}
				o.Msg = strings.TrimSpace(o.Msg)
				o.Ctx = rapid.IntRange(-3, nctx-1).Draw(t, "ctx")
				if o.Ctx == -3 {
					o.Cid = rapid.SampledFrom([]int{0, 7, 1000, -1, 1 << 40}).Draw(t, "cid")
				}
				if strings.HasSuffix(o.Level, "f") {
					o.NL = rapid.IntRange(0, 3).Draw(t, "nl") == 0
				}
				o.Spare = rapid.SampledFrom([]int{0, 0, 1, 2, 3, 8}).Draw(t, "spare")
				ops = append(ops, o)
			}
		}
		c.G = append(c.G, ops)
	}
	c.Reopen = rapid.IntRange(0, 3).Draw(t, "reopen") == 0
	c.Plain = rapid.IntRange(0, 3).Draw(t, "plain") == 0
	return c
}

var rec = ev.New(prop, "concurrent-logging",
	"rapid-generated histories: N in {1,2,4,8,16,32} goroutines released together, each running up to 60 ops: WithContext, AliasContext (source: own earlier context / nil / context without id; parent: background or an earlier context with an id of its own), logging through "+
		"T,Tf,W,Wf,E,Ef,I,If and the Logger interface with printable messages (Printf-style formats optionally ending in a newline; arguments optionally passed as a slice with spare capacity, which must come back untouched) and context kinds {nil, object with Cid(), library context, plain context.Context}; a recording io.WriteCloser installed with Switch keeps each Write call; "+
		"oracle: ids pairwise distinct in the whole process, alias id == source id, one Write call per non-Info call = exactly one complete line with the label, pid, cid of the context passed and the intact message, "+
		"race detector silent; non-trivial = >=2 goroutines that create contexts").
	Require("parallel", "obj-ctx", "alias", "alias-onto-identified-parent", "format-ends-with-newline", "args-with-spare-capacity", "closed-and-switched-to-the-same-writer", "writer-without-close")

func TestConcurrentLogging(t *testing.T) {
	ev.Rapid(t, "concurrent-logging", 600, 80000, func(t *rapid.T) {
		c := genCase(t)
		ev.Current(prop, "concurrent-logging", c)
		var st stats
		err := ev.Try(func() error {
			var e error
			st, e = runCase(c)
			return e
		})
		var cl []string
		if st.goroutines >= 2 {
			cl = append(cl, "parallel")
		}
		if c.Reopen {
			cl = append(cl, "closed-and-switched-to-the-same-writer")
		}
		if c.Plain {
			cl = append(cl, "writer-without-close")
		}
		for _, g := range c.G {
			for _, o := range g {
				if o.Op == "log" && o.Ctx == -3 {
					cl = append(cl, "obj-ctx")
				}
				if o.Op == "alias" && o.Src >= 0 {
					cl = append(cl, "alias")
					if o.Parent > 0 && o.Parent-1 != o.Src {
						cl = append(cl, "alias-onto-identified-parent")
					}
				}
				if o.Op == "log" && o.NL {
					cl = append(cl, "format-ends-with-newline")
				}
				if o.Op == "log" && o.Spare > 0 {
					cl = append(cl, "args-with-spare-capacity")
				}
			}
		}
		rec.Case(st.goroutines >= 2 && st.creates >= 2, ev.Hash(c), uniq(cl), func() any { return brief(c) })
		if err != nil {
			p := ev.Fail(prop, "concurrent-logging", c, err)
			t.Fatalf("%v (replay %s)", err, p)
		}
	})
}

func uniq(a []string) []string {
	m := map[string]bool{}
	var out []string
	for _, x := range a {
		if !m[x] {
			m[x] = true
			out = append(out, x)
		}
	}
	return out
}

func brief(c Case) any {
	n := 0
	for _, g := range c.G {
		n += len(g)
	}
	var first []Op
	if len(c.G) > 0 {
		first = c.G[0]
		if len(first) > 6 {
			first = first[:6]
		}
	}
	return map[string]any{"goroutines": len(c.G), "ops": n, "first_goroutine_head": first}
}

// TestStress: many goroutines only creating contexts - the race on the id counter is easiest to hit here.
func TestStress(t *testing.T) {
	recS := ev.New(prop, "id-stress", "32 goroutines x 300 WithContext each, released together, repeated; ids observed through one probe line each; non-trivial = every run")
	rounds := ev.N(3, 120)
	for r := 0; r < rounds; r++ {
		var c Case
		for g := 0; g < 32; g++ {
			var ops []Op
			for i := 0; i < 300; i++ {
				ops = append(ops, Op{Op: "with"})
			}
			c.G = append(c.G, ops)
		}
		ev.Current(prop, "id-stress", map[string]int{"goroutines": 32, "with_each": 300})
		_, err := runCase(c)
		recS.Case(true, ev.Hash(r, ev.Seed()), nil, func() any { return map[string]int{"goroutines": 32, "with_each": 300, "round": r} })
		if err != nil {
			p := ev.Fail(prop, "id-stress", map[string]int{"goroutines": 32, "with_each": 300}, err)
			t.Fatalf("%v (replay %s)", err, p)
		}
	}
}

func replayers() map[string]ev.Replayer {
	f := func(raw json.RawMessage) error {
		var c Case
		if err := json.Unmarshal(raw, &c); err != nil {
			return err
		}
		_, e := runCase(c)
		return e
	}
	stress := func(raw json.RawMessage) error {
		var c Case
		for g := 0; g < 32; g++ {
			var ops []Op
			for i := 0; i < 300; i++ {
				ops = append(ops, Op{Op: "with"})
			}
			c.G = append(c.G, ops)
		}
		_, e := runCase(c)
		return e
	}
	return map[string]ev.Replayer{"concurrent-logging": f, "id-stress": stress, "process": func(raw json.RawMessage) error {
		var c Case
		if json.Unmarshal(raw, &c) == nil && len(c.G) > 0 {
			_, e := runCase(c)
			return e
		}
		return stress(raw)
	}}
}

func TestRegress(t *testing.T) { ev.Regress(t, prop, replayers()) }
func TestReplay(t *testing.T) {
	if os.Getenv("VERIF_REPLAY") == "" {
		t.Skip("no VERIF_REPLAY")
	}
	ev.Replay(t, prop, replayers())
}
