// C16: JOSE objects verify/decrypt only if untampered, for every algorithm; JWKs round-trip
// and have the RFC 7638 thumbprint.
package c16

import (
	"bytes"
	"crypto"
	"crypto/ecdsa"
	"crypto/elliptic"
	"crypto/rsa"
	"crypto/sha256"
	"crypto/x509"
	"encoding/base64"
	"encoding/hex"
	"encoding/json"
	"encoding/pem"
	"fmt"
	"math/big"
	"os"
	"path/filepath"
	"strings"
	"testing"
	"time"

	"github.com/ossrs/go-oryx-lib/https/acme"
	"github.com/ossrs/go-oryx-lib/https/jose"
	"pgregory.net/rapid"
	"verif/harness/internal/ev"
	"verif/harness/internal/rtmpx"
)

const prop = "C16"

func TestMain(m *testing.M) { loadKeys(); ev.Main(m) }

type fataler interface{ Fatalf(string, ...any) }

func fail(t fataler, check string, c any, err error) {
	p := ev.Fail(prop, check, c, err)
	t.Fatalf("%v (replay %s)", err, p)
}

// ---------------------------------------------------------------- fixture keys

type ecFix struct {
	Curve string `json:"curve"`
	D     string `json:"d"`
	Note  string `json:"note"`
}

var (
	rsaKeys []*rsa.PrivateKey
	ecKeys  []*ecdsa.PrivateKey
	ecNotes []string
)

func loadKeys() {
	b, err := os.ReadFile(filepath.Join(ev.Root(), "fixtures", "keys.json"))
	if err != nil {
		panic(err)
	}
	var k struct {
		RSA []string `json:"rsa"`
		EC  []ecFix  `json:"ec"`
	}
	if err := json.Unmarshal(b, &k); err != nil {
		panic(err)
	}
	for _, p := range k.RSA {
		blk, _ := pem.Decode([]byte(p))
		key, err := x509.ParsePKCS1PrivateKey(blk.Bytes)
		if err != nil {
			panic(err)
		}
		rsaKeys = append(rsaKeys, key)
	}
	for _, e := range k.EC {
		c := map[string]elliptic.Curve{"P-256": elliptic.P256(), "P-384": elliptic.P384(), "P-521": elliptic.P521()}[e.Curve]
		d, _ := hex.DecodeString(e.D)
		priv := &ecdsa.PrivateKey{D: new(big.Int).SetBytes(d)}
		priv.Curve = c
		priv.X, priv.Y = c.ScalarBaseMult(d)
		ecKeys = append(ecKeys, priv)
		ecNotes = append(ecNotes, e.Curve+"/"+e.Note)
	}
}

// otherKeys: keys of the same kind as k that are not k: one EC key on each other curve, the symmetric key shortened / extended by a byte.
func otherKeys(k interface{}) (out []interface{}) {
	other := func(c elliptic.Curve) (ks []*ecdsa.PrivateKey) {
		seen := map[elliptic.Curve]bool{c: true}
		for _, e := range ecKeys {
			if !seen[e.Curve] {
				seen[e.Curve] = true
				ks = append(ks, e)
			}
		}
		return
	}
	switch v := k.(type) {
	case *ecdsa.PrivateKey:
		for _, e := range other(v.Curve) {
			out = append(out, e)
		}
	case *ecdsa.PublicKey:
		for _, e := range other(v.Curve) {
			out = append(out, &e.PublicKey)
		}
	case []byte:
		// (HMAC pads a short key with zero bytes: dropping a zero byte or appending one gives an equivalent key, not a different one)
		if len(v) > 1 && v[len(v)-1] != 0 {
			out = append(out, append([]byte(nil), v[:len(v)-1]...))
		}
		out = append(out, append(append([]byte(nil), v...), 1))
	}
	return
}

func keyName(k interface{}) string {
	switch v := k.(type) {
	case *ecdsa.PrivateKey:
		return "EC private key on " + v.Curve.Params().Name
	case *ecdsa.PublicKey:
		return "EC public key on " + v.Curve.Params().Name
	case []byte:
		return fmt.Sprintf("%d-byte symmetric key", len(v))
	}
	return fmt.Sprintf("%T", k)
}

func ecKeysFor(curve elliptic.Curve) (out []int) {
	for i, k := range ecKeys {
		if k.Curve == curve {
			out = append(out, i)
		}
	}
	return
}

// ---------------------------------------------------------------- serialisation surgery (independent of the library)

func b64d(s string) ([]byte, error) {
	return base64.RawURLEncoding.DecodeString(strings.TrimRight(s, "="))
}
func b64e(b []byte) string { return base64.RawURLEncoding.EncodeToString(b) }

var compactJWS = []string{"protected", "payload", "signature"}
var compactJWE = []string{"protected", "encrypted_key", "iv", "ciphertext", "tag"}

// fields returns the base64url fields of a serialisation by name.
func fields(ser string, jwe bool) (map[string]string, error) {
	out := map[string]string{}
	if !strings.HasPrefix(ser, "{") {
		names := compactJWS
		if jwe {
			names = compactJWE
		}
		parts := strings.Split(ser, ".")
		if len(parts) != len(names) {
			return nil, fmt.Errorf("compact serialisation has %d parts", len(parts))
		}
		for i, n := range names {
			out[n] = parts[i]
		}
		return out, nil
	}
	var m map[string]interface{}
	if err := json.Unmarshal([]byte(ser), &m); err != nil {
		return nil, err
	}
	for k, v := range m {
		if s, ok := v.(string); ok {
			out[k] = s
		}
	}
	return out, nil
}

// withField returns the serialisation with one field replaced.
func withField(ser string, jwe bool, name, val string) (string, error) {
	if !strings.HasPrefix(ser, "{") {
		names := compactJWS
		if jwe {
			names = compactJWE
		}
		parts := strings.Split(ser, ".")
		for i, n := range names {
			if n == name {
				parts[i] = val
			}
		}
		return strings.Join(parts, "."), nil
	}
	var m map[string]interface{}
	if err := json.Unmarshal([]byte(ser), &m); err != nil {
		return "", err
	}
	m[name] = val
	b, err := json.Marshal(m)
	return string(b), err
}

// flip returns field with bit `bit` (counted over the decoded bytes) inverted.
func flip(field string, bit int) (string, error) {
	b, err := b64d(field)
	if err != nil {
		return "", err
	}
	if len(b) == 0 {
		return "", fmt.Errorf("empty field")
	}
	bit %= len(b) * 8
	b[bit/8] ^= 1 << uint(7-bit%8)
	return b64e(b), nil
}

// ---------------------------------------------------------------- JWS

type SCase struct {
	Alg     string `json:"alg"`
	Key     int    `json:"key"`  // index into the fixture pool of the key kind; HMAC: key length
	HKey    uint64 `json:"hkey"` // HMAC key fill
	Size    int    `json:"size"` // payload bytes
	Fill    uint64 `json:"fill"`
	JSON    bool   `json:"json"`     // full JSON serialisation instead of compact
	Flips   []int  `json:"flips"`    // bit positions to flip in every field (empty = first and last bit)
	AllBits bool   `json:"all_bits"` // flip every bit of every field
}

func sigKeys(c SCase) (sign interface{}, verify interface{}, wrong interface{}, err error) {
	switch c.Alg[:2] {
	case "HS":
		n := c.Key
		if n < 1 {
			n = 1
		}
		k := rtmpx.Fill(n, c.HKey|1)
		w := append([]byte(nil), k...)
		w[len(w)-1] ^= 1
		return k, k, w, nil
	case "RS", "PS":
		k := rsaKeys[c.Key%len(rsaKeys)]
		return k, &k.PublicKey, &rsaKeys[(c.Key+1)%len(rsaKeys)].PublicKey, nil
	case "ES":
		curve := map[string]elliptic.Curve{"ES256": elliptic.P256(), "ES384": elliptic.P384(), "ES512": elliptic.P521()}[c.Alg]
		idx := ecKeysFor(curve)
		k := ecKeys[idx[c.Key%len(idx)]]
		w := ecKeys[idx[(c.Key+1)%len(idx)]]
		return k, &k.PublicKey, &w.PublicKey, nil
	}
	return nil, nil, nil, fmt.Errorf("alg %q", c.Alg)
}

type cnt struct {
	evals, tampers                               int
	blockEdge, sigLeadZero, keyLeadZero, lastBit bool
}

type fixedNonce string

func (f fixedNonce) Nonce() (string, error) { return string(f), nil }

func runSign0(c SCase) (n cnt, err error) {
	sk, vk, wk, err := sigKeys(c)
	if err != nil {
		return n, err
	}
	payload := rtmpx.Fill(c.Size, c.Fill)
	if c.Fill%5 == 0 {
		sk = &jose.JsonWebKey{Key: sk, KeyID: "kid-1"} // the key handed over as a JSON Web Key
	}
	signer, err := jose.NewSigner(jose.SignatureAlgorithm(c.Alg), sk)
	if err != nil {
		return n, fmt.Errorf("NewSigner(%s): %v", c.Alg, err)
	}
	if c.Fill%3 == 0 {
		// one Signer signs several payloads
		if first, e2 := signer.Sign(rtmpx.Fill(c.Size+5, c.Fill+13)); e2 != nil {
			return n, fmt.Errorf("first Sign of a reused signer: %v", e2)
		} else if out, e3 := first.Verify(vk); e3 != nil || len(out) != c.Size+5 {
			return n, fmt.Errorf("first object of a reused signer: %d bytes, err %v", len(out), e3)
		}
		n.evals++
		// ... and may be reconfigured between two signatures
		if c.Fill%2 == 0 {
			signer.SetEmbedJwk(false)
		}
		if c.Fill%4 < 2 {
			signer.SetNonceSource(fixedNonce("nonce-for-the-second-object"))
		}
	}
	obj, err := signer.Sign(payload)
	if err != nil {
		return n, fmt.Errorf("Sign: %v", err)
	}
	if c.Fill%2 == 1 {
		if got, err := obj.Verify(vk); err != nil || !bytes.Equal(got, payload) {
			return n, fmt.Errorf("%s: Verify of the object just created: %d bytes, err %v", c.Alg, len(got), err)
		}
		n.evals++
	}
	var ser string
	if c.JSON {
		ser = obj.FullSerialize()
	} else if ser, err = obj.CompactSerialize(); err != nil {
		return n, fmt.Errorf("CompactSerialize: %v", err)
	}
	parsed, err := jose.ParseSigned(ser)
	if err != nil {
		return n, fmt.Errorf("ParseSigned of own serialisation: %v", err)
	}
	got, err := parsed.Verify(vk)
	n.evals++
	if err != nil {
		return n, fmt.Errorf("%s: Verify with the right key: %v", c.Alg, err)
	}
	if !bytes.Equal(got, payload) {
		return n, fmt.Errorf("%s: verified payload has %d bytes, signed %d", c.Alg, len(got), len(payload))
	}
	if _, err := parsed.Verify(wk); err == nil {
		return n, fmt.Errorf("%s: Verify succeeds with a different key", c.Alg)
	}
	n.evals++
	if got, err := parsed.Verify(&jose.JsonWebKey{Key: vk}); err != nil || !bytes.Equal(got, payload) {
		return n, fmt.Errorf("%s: Verify with the right key handed over as a JSON Web Key: %d bytes, err %v", c.Alg, len(got), err)
	}
	if got, err := parsed.Verify("not a key"); err == nil {
		return n, fmt.Errorf("%s: Verify with a value that is no key at all returns %d bytes and no error", c.Alg, len(got))
	}
	n.evals += 2
	for i, k := range otherKeys(vk) {
		perr := ev.Try(func() error { _, err = parsed.Verify(k); return nil })
		if perr != nil {
			return n, fmt.Errorf("%s: Verify with a different key of the same kind (%s) does not fail with an error: %v", c.Alg, keyName(k), perr)
		}
		if err == nil {
			return n, fmt.Errorf("%s: Verify succeeds with a different key of the same kind (#%d %s)", c.Alg, i, keyName(k))
		}
		n.evals++
	}
	err = nil
	fs, err := fields(ser, false)
	if err != nil {
		return n, err
	}
	if c.Alg[:2] == "ES" {
		sig, _ := b64d(fs["signature"])
		if len(sig) > 0 && (sig[0] == 0 || sig[len(sig)/2] == 0) {
			n.sigLeadZero = true
		}
	}
	for _, name := range compactJWS {
		f := fs[name]
		raw, _ := b64d(f)
		if len(raw) == 0 {
			continue // an empty payload has no bit to change
		}
		bits := bitsFor(c.Flips, c.AllBits, len(raw)*8)
		if name == "protected" {
			bits = protectedBits(raw, c.Flips, c.AllBits, c.Size < 60000)
			if c.Size >= 60000 {
				bits = bitsFor(c.Flips, false, len(raw)*8)
			}
		}
		for _, bit := range bits {
			tf, err := flip(f, bit)
			if err != nil {
				return n, err
			}
			ts, err := withField(ser, false, name, tf)
			if err != nil {
				return n, err
			}
			n.evals++
			n.tampers++
			if bit == len(raw)*8-1 {
				n.lastBit = true
			}
			p, perr := jose.ParseSigned(ts)
			if perr != nil {
				continue // a parse error counts as rejection
			}
			if out, verr := p.Verify(vk); verr == nil {
				return n, fmt.Errorf("%s (%s serialisation): bit %d of the %s flipped, Verify still succeeds and returns %d bytes", c.Alg, serName(c.JSON), bit, name, len(out))
			}
		}
	}
	return n, nil
}

func serName(j bool) string {
	if j {
		return "JSON"
	}
	return "compact"
}

// protectedBits: every bit of a short protected header; for a long one (embedded JWK) the drawn
// positions plus the case-toggling bit of every ASCII letter (member names are where a header
// that is re-serialised instead of kept verbatim goes wrong).
func protectedBits(raw []byte, flips []int, all bool, cheap bool) []int {
	if all || (cheap && len(raw) <= 64) {
		return bitsFor(nil, true, len(raw)*8)
	}
	out := bitsFor(flips, false, len(raw)*8)
	for i, b := range raw {
		if (b >= 'a' && b <= 'z') || (b >= 'A' && b <= 'Z') {
			out = append(out, i*8+2)
		}
	}
	return out
}

func bitsFor(flips []int, all bool, nbits int) []int {
	if all {
		out := make([]int, nbits)
		for i := range out {
			out[i] = i
		}
		return out
	}
	out := []int{0, nbits - 1}
	for _, f := range flips {
		if f < 0 {
			f = -f
		}
		out = append(out, f%nbits)
	}
	return out
}

// ---------------------------------------------------------------- JWE

type ECase struct {
	Alg     string `json:"alg"`
	Enc     string `json:"enc"`
	Zip     bool   `json:"zip"`
	Key     int    `json:"key"`
	KFill   uint64 `json:"kfill"`
	Size    int    `json:"size"`
	Fill    uint64 `json:"fill"`
	JSON    bool   `json:"json"`
	AAD     int    `json:"aad"` // -1 absent, else length (JSON serialisation only)
	Flips   []int  `json:"flips"`
	AllBits bool   `json:"all_bits"`
	Text    bool   `json:"text,omitempty"` // payload is repetitive text (compresses well) instead of pseudo-random bytes
}

func (c ECase) payload() []byte {
	if !c.Text {
		return rtmpx.Fill(c.Size, c.Fill)
	}
	line := []byte(fmt.Sprintf("%d: the quick brown fox jumps over the lazy dog; ", c.Fill%97))
	b := make([]byte, 0, c.Size+len(line))
	for len(b) < c.Size {
		b = append(b, line...)
	}
	return b[:c.Size]
}

var encKeySize = map[string]int{"A128GCM": 16, "A192GCM": 24, "A256GCM": 32, "A128CBC-HS256": 32, "A192CBC-HS384": 48, "A256CBC-HS512": 64}

func encKeys(c ECase) (enc interface{}, dec interface{}, wrong interface{}, err error) {
	sym := func(n int) (interface{}, interface{}, interface{}, error) {
		k := rtmpx.Fill(n, c.KFill|1)
		w := append([]byte(nil), k...)
		w[0] ^= 0x80
		return k, k, w, nil
	}
	switch {
	case strings.HasPrefix(c.Alg, "RSA"):
		k := rsaKeys[c.Key%len(rsaKeys)]
		return &k.PublicKey, k, rsaKeys[(c.Key+1)%len(rsaKeys)], nil
	case c.Alg == "dir":
		return sym(encKeySize[c.Enc])
	case strings.HasPrefix(c.Alg, "ECDH-ES"):
		k := ecKeys[c.Key%len(ecKeys)]
		idx := ecKeysFor(k.Curve)
		var w *ecdsa.PrivateKey
		for _, i := range idx {
			if ecKeys[i] != k {
				w = ecKeys[i]
			}
		}
		return &k.PublicKey, k, w, nil
	case strings.HasPrefix(c.Alg, "A128"):
		return sym(16)
	case strings.HasPrefix(c.Alg, "A192"):
		return sym(24)
	case strings.HasPrefix(c.Alg, "A256"):
		return sym(32)
	}
	return nil, nil, nil, fmt.Errorf("alg %q", c.Alg)
}

// runEncrypt / runSign run one case under a generous deadline: an operation that does not come back does not
// "decrypt to the original payload" either (a case takes milliseconds; minutes mean it hangs).
func runEncrypt(c ECase) (n cnt, err error) {
	if e := ev.WithTimeout(5*time.Minute, func() error { n, err = runEncrypt0(c); return nil }); e != nil {
		return n, fmt.Errorf("%s/%s zip=%v, %d-byte payload: %v", c.Alg, c.Enc, c.Zip, c.Size, e)
	}
	return n, err
}

func runSign(c SCase) (n cnt, err error) {
	if e := ev.WithTimeout(5*time.Minute, func() error { n, err = runSign0(c); return nil }); e != nil {
		return n, fmt.Errorf("%s, %d-byte payload: %v", c.Alg, c.Size, e)
	}
	return n, err
}

func runEncrypt0(c ECase) (n cnt, err error) {
	ek, dk, wk, err := encKeys(c)
	if err != nil {
		return n, err
	}
	payload := c.payload()
	if c.Fill%5 == 0 {
		ek = &jose.JsonWebKey{Key: ek, KeyID: "kid-1"} // the key handed over as a JSON Web Key
	}
	e, err := jose.NewEncrypter(jose.KeyAlgorithm(c.Alg), jose.ContentEncryption(c.Enc), ek)
	if err != nil {
		return n, fmt.Errorf("NewEncrypter(%s,%s): %v", c.Alg, c.Enc, err)
	}
	if c.Zip {
		e.SetCompression(jose.DEFLATE)
	}
	if c.Fill%3 == 0 {
		// one Encrypter encrypts several payloads: nothing of an earlier call may leak into the next
		if first, e2 := e.EncryptWithAuthData(rtmpx.Fill(c.Size+3, c.Fill+11), []byte("earlier aad")); e2 != nil {
			return n, fmt.Errorf("first Encrypt of a reused encrypter: %v", e2)
		} else if out, e3 := first.Decrypt(dk); e3 != nil || len(out) != c.Size+3 {
			return n, fmt.Errorf("first object of a reused encrypter: %d bytes, err %v", len(out), e3)
		}
		n.evals++
	}
	var aad []byte
	var obj *jose.JsonWebEncryption
	if c.JSON && c.AAD >= 0 {
		aad = rtmpx.Fill(c.AAD, c.Fill+7)
		if aad == nil {
			aad = []byte{}
		}
		obj, err = e.EncryptWithAuthData(payload, aad)
	} else {
		obj, err = e.Encrypt(payload)
	}
	if err != nil {
		return n, fmt.Errorf("Encrypt: %v", err)
	}
	what := fmt.Sprintf("%s/%s zip=%v %s, %d-byte payload", c.Alg, c.Enc, c.Zip, serName(c.JSON), c.Size)
	serialize := func(o *jose.JsonWebEncryption) (string, error) {
		if c.JSON {
			return o.FullSerialize(), nil
		}
		return o.CompactSerialize()
	}
	var ser string
	if c.Fill%2 == 1 {
		// the sender checks its own object before sending it: decrypting must not change the object
		before, e := serialize(obj)
		if e != nil {
			return n, fmt.Errorf("CompactSerialize: %v", e)
		}
		got, e := obj.Decrypt(dk)
		n.evals++
		if e != nil || !bytes.Equal(got, payload) {
			return n, fmt.Errorf("%s: Decrypt of the object just created: %d bytes, err %v", what, len(got), e)
		}
		after, _ := serialize(obj)
		if before != after {
			return n, fmt.Errorf("%s: Decrypt changed the object: serialisation differs before/after decrypting it", what)
		}
	}
	if ser, err = serialize(obj); err != nil {
		return n, fmt.Errorf("CompactSerialize: %v", err)
	}
	parsed, err := jose.ParseEncrypted(ser)
	if err != nil {
		return n, fmt.Errorf("%s: ParseEncrypted of own serialisation: %v", what, err)
	}
	got, err := parsed.Decrypt(dk)
	n.evals++
	if err != nil {
		return n, fmt.Errorf("%s: Decrypt with the right key: %v", what, err)
	}
	if !bytes.Equal(got, payload) {
		return n, fmt.Errorf("%s: decrypted %d bytes, encrypted %d", what, len(got), len(payload))
	}
	// decrypting is repeatable and leaves the parsed object intact
	if again, err := parsed.Decrypt(dk); err != nil || !bytes.Equal(again, payload) {
		return n, fmt.Errorf("%s: second Decrypt of the same parsed object: %d bytes, err %v", what, len(again), err)
	}
	if reser, err := serialize(parsed); err == nil {
		if p2, err := jose.ParseEncrypted(reser); err != nil {
			return n, fmt.Errorf("%s: re-serialised object does not parse: %v", what, err)
		} else if out, err := p2.Decrypt(dk); err != nil || !bytes.Equal(out, payload) {
			return n, fmt.Errorf("%s: object re-serialised after a Decrypt no longer decrypts: %d bytes, err %v", what, len(out), err)
		}
	}
	n.evals += 2
	if c.JSON && c.AAD >= 0 && !bytes.Equal(parsed.GetAuthData(), aad) {
		return n, fmt.Errorf("%s: GetAuthData returns %d bytes, want the %d-byte AAD", what, len(parsed.GetAuthData()), len(aad))
	}
	if out, err := parsed.Decrypt(wk); err == nil {
		return n, fmt.Errorf("%s: Decrypt succeeds with a different key (%d bytes)", what, len(out))
	}
	n.evals++
	// other keys of the same kind: EC keys on the other curves, symmetric keys one byte shorter / longer
	if got, err := parsed.Decrypt(&jose.JsonWebKey{Key: dk}); err != nil || !bytes.Equal(got, payload) {
		return n, fmt.Errorf("%s: Decrypt with the right key handed over as a JSON Web Key: %d bytes, err %v", what, len(got), err)
	}
	if got, err := parsed.Decrypt("not a key"); err == nil {
		return n, fmt.Errorf("%s: Decrypt with a value that is no key at all returns %d bytes and no error", what, len(got))
	}
	n.evals += 2
	for i, k := range otherKeys(dk) {
		var out []byte
		perr := ev.Try(func() error { out, err = parsed.Decrypt(k); return nil })
		if perr != nil {
			return n, fmt.Errorf("%s: Decrypt with a different key of the same kind (%s) does not fail with an error: %v", what, keyName(k), perr)
		}
		if err == nil {
			return n, fmt.Errorf("%s: Decrypt succeeds with a different key of the same kind (#%d %s, %d bytes)", what, i, keyName(k), len(out))
		}
		n.evals++
	}
	err = nil
	bs := 16
	if c.Size%bs == 0 || c.Size%bs == 1 || c.Size%bs == bs-1 {
		n.blockEdge = true
	}
	fs, err := fields(ser, true)
	if err != nil {
		return n, err
	}
	names := append([]string(nil), compactJWE...)
	if c.JSON && c.AAD > 0 {
		names = append(names, "aad")
	}
	for _, name := range names {
		f, ok := fs[name]
		if !ok {
			continue
		}
		raw, _ := b64d(f)
		if len(raw) == 0 {
			continue // dir / ECDH-ES have no encrypted key; an empty payload under GCM has no ciphertext
		}
		bits := bitsFor(c.Flips, c.AllBits, len(raw)*8)
		if name == "protected" {
			// public-key unwrapping costs milliseconds per attempt: every bit only for the symmetric key algorithms
			bits = protectedBits(raw, c.Flips, c.AllBits, c.Size < 60000 && !strings.HasPrefix(c.Alg, "RSA") && !strings.HasPrefix(c.Alg, "ECDH"))
			if c.Size >= 60000 {
				bits = bitsFor(c.Flips, false, len(raw)*8) // large payloads: each attempt costs milliseconds
			}
		}
		for _, bit := range bits {
			tf, err := flip(f, bit)
			if err != nil {
				return n, err
			}
			ts, err := withField(ser, true, name, tf)
			if err != nil {
				return n, err
			}
			n.evals++
			n.tampers++
			if bit == len(raw)*8-1 {
				n.lastBit = true
			}
			p, perr := jose.ParseEncrypted(ts)
			if perr != nil {
				continue
			}
			if out, derr := p.Decrypt(dk); derr == nil {
				return n, fmt.Errorf("%s: bit %d of the %s flipped, Decrypt still succeeds and returns %d bytes", what, bit, name, len(out))
			}
		}
	}
	return n, nil
}

// ---------------------------------------------------------------- matrices

var sigAlgs = []string{"HS256", "HS384", "HS512", "RS256", "RS384", "RS512", "PS256", "PS384", "PS512", "ES256", "ES384", "ES512"}
var keyAlgs = []string{"RSA1_5", "RSA-OAEP", "RSA-OAEP-256", "A128KW", "A192KW", "A256KW", "dir", "ECDH-ES", "ECDH-ES+A128KW", "ECDH-ES+A192KW", "ECDH-ES+A256KW", "A128GCMKW", "A192GCMKW", "A256GCMKW"}
var encAlgs = []string{"A128CBC-HS256", "A192CBC-HS384", "A256CBC-HS512", "A128GCM", "A192GCM", "A256GCM"}
var sizes = []int{0, 1, 15, 16, 17, 31, 32, 33, 255, 4096}

func record(rec *ev.Recorder, c any, n cnt, cl []string) {
	h := ev.Hash(c)
	for i := 0; i < n.evals; i++ {
		var k []string
		if i == 0 {
			k = cl
		}
		rec.Case(true, h+uint64(i)*0x9e3779b97f4a7c15, k, func() any { return c })
	}
}

func TestSignMatrix(t *testing.T) {
	rec := ev.New(prop, "jws-matrix", "full matrix: 12 signature algorithms x every fixture key of the kind (HMAC key lengths {1,32,64,100}; 2 RSA-2048; 4 EC keys per curve incl. leading-zero X/Y) x payload sizes "+
		"{0,1,15,16,17,31,32,33,255,4096} (rotating) x {compact, JSON}; per object: verify == payload, wrong key fails, first and last bit of every field flipped (every bit for payloads <= 64 B in the thorough tier) must fail; "+
		"evaluations = verifications attempted; all non-trivial")
	rec.Exhaustive()
	i := 0
	for _, alg := range sigAlgs {
		nk := 4
		if alg[:2] == "RS" || alg[:2] == "PS" {
			nk = 2
		}
		for k := 0; k < nk; k++ {
			for _, js := range []bool{false, true} {
				for si := 0; si < 3; si++ {
					i++
					if i%ev.Shards() != ev.Shard() {
						continue
					}
					c := SCase{Alg: alg, Key: k, HKey: uint64(i), Size: sizes[(i+si*3)%len(sizes)], Fill: uint64(i), JSON: js}
					if alg[:2] == "HS" {
						c.Key = []int{1, 32, 64, 100}[k]
					}
					c.AllBits = ev.Thorough() && c.Size <= 64 && alg[:2] != "RS" && alg[:2] != "PS"
					var n cnt
					err := ev.Try(func() error {
						var e error
						n, e = runSign(c)
						return e
					})
					var cl []string
					if n.sigLeadZero {
						cl = append(cl, "sig-leading-zero")
					}
					record(rec, c, n, cl)
					if err != nil {
						fail(t, "jws", c, err)
					}
				}
			}
		}
	}
}

func TestEncryptMatrix(t *testing.T) {
	rec := ev.New(prop, "jwe-matrix", "full matrix: 14 key-management algorithms x 6 content encryptions x {no compression, DEF} x {compact, JSON without AAD, JSON with empty AAD, JSON with AAD; quick tier: compact and JSON with AAD only for RSA/ECDH} x payload sizes "+
		"{0,1,15,16,17,31,32,33,255,4096} (two per combination, rotating; size 0 for every combination without compression); per object: decrypt == payload, GetAuthData == AAD, wrong key fails, first and last bit of "+
		"protected/encrypted_key/iv/ciphertext/tag/aad flipped must fail; evaluations = decryptions attempted; all non-trivial")
	rec.Exhaustive()
	i := 0
	for _, alg := range keyAlgs {
		for _, enc := range encAlgs {
			for _, zip := range []bool{false, true} {
				for mode := 0; mode < 4; mode++ {
					if (mode == 1 || mode == 2) && !ev.Thorough() && (strings.HasPrefix(alg, "RSA") || strings.HasPrefix(alg, "ECDH")) {
						continue // quick tier: public-key algorithms in compact and JSON+AAD form only (each attempt costs milliseconds)
					}
					szs := []int{sizes[i%len(sizes)], sizes[(i+5)%len(sizes)]}
					if !zip {
						szs = append(szs, 0)
					}
					for _, sz := range szs {
						i++
						if i%ev.Shards() != ev.Shard() {
							continue
						}
						c := ECase{Alg: alg, Enc: enc, Zip: zip, Key: i, KFill: uint64(i), Size: sz, Fill: uint64(i), JSON: mode > 0, AAD: []int{-1, -1, 0, 20}[mode]}
						var n cnt
						err := ev.Try(func() error {
							var e error
							n, e = runEncrypt(c)
							return e
						})
						var cl []string
						if sz == 0 {
							cl = append(cl, "empty-payload")
						}
						record(rec, c, n, cl)
						if err != nil {
							fail(t, "jwe", c, err)
						}
					}
				}
			}
		}
	}
}

// TestLargePayloads: payloads far beyond the sizes of the matrices (an object may carry a
// certificate chain or a document), compressible and not.
func TestLargePayloads(t *testing.T) {
	rec := ev.New(prop, "large-payloads", "JWE {dir, A128KW, A256GCMKW, RSA-OAEP} x 6 content encryptions x {no compression, DEF} x {repetitive text, pseudo-random bytes} and JWS {HS256, RS256, ES384} x payload sizes "+
		"{70000, 300000, 2^20+1; thorough: also 5*2^20}; per object: round trip == payload, wrong key fails, first/last bit of each field flipped fails; all non-trivial")
	rec.Exhaustive()
	big := []int{70000, 300000, 1<<20 + 1}
	if ev.Thorough() {
		big = append(big, 5<<20)
	}
	i := 0
	for _, alg := range []string{"dir", "A128KW", "A256GCMKW", "RSA-OAEP"} {
		for _, enc := range encAlgs {
			for _, zip := range []bool{false, true} {
				for _, text := range []bool{true, false} {
					i++
					if i%ev.Shards() != ev.Shard() {
						continue
					}
					if !ev.Thorough() && alg != "dir" && !(zip && text) {
						continue // quick tier: every combination with direct keys, the compressed-text case with the others
					}
					c := ECase{Alg: alg, Enc: enc, Zip: zip, Text: text, Key: i, KFill: uint64(i), Size: big[i%len(big)], Fill: uint64(2*i + 1), JSON: i%2 == 0, AAD: -1}
					var n cnt
					err := ev.Try(func() error {
						var e error
						n, e = runEncrypt(c)
						return e
					})
					cl := []string{"jwe"}
					if zip && text {
						cl = append(cl, "compressed-text")
					}
					record(rec, c, n, cl)
					if err != nil {
						fail(t, "jwe", c, err)
					}
				}
			}
		}
	}
	for j, alg := range []string{"HS256", "RS256", "ES384"} {
		for k, sz := range big {
			i++
			if i%ev.Shards() != ev.Shard() {
				continue
			}
			c := SCase{Alg: alg, Key: 32 + j, HKey: 7, Size: sz, Fill: uint64(6*k + 1), JSON: k%2 == 1}
			var n cnt
			err := ev.Try(func() error {
				var e error
				n, e = runSign(c)
				return e
			})
			record(rec, c, n, []string{"jws"})
			if err != nil {
				fail(t, "jws", c, err)
			}
		}
	}
}

// TestSideBySide: independent encrypters/signers and objects on several goroutines at once
// (compressed payloads large enough that an encryption takes a while).
func TestSideBySide(t *testing.T) {
	ev.Parallel(t, prop, "side-by-side", 2, 40, 8, func(t *rapid.T) ECase {
		return ECase{Alg: rapid.SampledFrom([]string{"dir", "A128KW", "A256GCMKW"}).Draw(t, "kalg"), Enc: rapid.SampledFrom(encAlgs).Draw(t, "enc"), Zip: rapid.IntRange(0, 3).Draw(t, "zip") > 0,
			Text: rapid.IntRange(0, 3).Draw(t, "text") == 0, Key: rapid.IntRange(0, 100).Draw(t, "key"), KFill: rapid.Uint64().Draw(t, "kfill"),
			Size: rapid.SampledFrom([]int{200000, 1 << 20}).Draw(t, "size"), Fill: rapid.Uint64().Draw(t, "fill"), JSON: rapid.Bool().Draw(t, "json"), AAD: -1}
	}, func(c ECase) error { _, e := runEncrypt(c); return e })
}

// TestMultiSets: drawn ordered sets of 2-4 recipients / signers over all algorithms.
func TestMultiSets(t *testing.T) {
	rec := ev.New(prop, "multi-sets", "rapid-generated ordered sets of 2-4 recipients over the 13 key-management algorithms usable with several recipients (RSA recipients hold different keys of one size) "+
		"and of 2-4 signers over the 12 signature algorithms, 6 content encryptions, payload sizes 0..600: full JSON serialisation parsed back, every recipient decrypts / every signer's key verifies, a stranger fails; "+
		"non-trivial = two RSA recipients or two signers of one family")
	multiKeyAlgs := []string{"RSA1_5", "RSA-OAEP", "RSA-OAEP-256", "A128KW", "A192KW", "A256KW", "ECDH-ES+A128KW", "ECDH-ES+A192KW", "ECDH-ES+A256KW", "A128GCMKW", "A192GCMKW", "A256GCMKW", "RSA1_5"}
	ev.Rapid(t, "multi-sets", 120, 20000, func(t *rapid.T) {
		c := MCase{Size: rapid.IntRange(0, 600).Draw(t, "size"), Fill: rapid.Uint64().Draw(t, "fill"), Enc: rapid.SampledFrom(encAlgs).Draw(t, "enc")}
		if rapid.Bool().Draw(t, "jwe") {
			c.Recips = rapid.SliceOfN(rapid.SampledFrom(multiKeyAlgs), 2, 4).Draw(t, "recips")
		} else {
			c.Sigs = rapid.SliceOfN(rapid.SampledFrom(sigAlgs), 2, 4).Draw(t, "sigs")
		}
		err := ev.Try(func() error { return runMulti(c) })
		nrsa := 0
		for _, a := range c.Recips {
			if strings.HasPrefix(a, "RSA") {
				nrsa++
			}
		}
		fam := map[string]int{}
		for _, a := range c.Sigs {
			fam[a[:2]]++
		}
		nt := nrsa >= 2
		for _, n := range fam {
			nt = nt || n >= 2
		}
		var cl []string
		if nrsa >= 2 {
			cl = append(cl, "two-rsa-recipients")
		}
		rec.Case(nt, ev.Hash(c), cl, func() any { return c })
		if err != nil {
			fail(t, "multi", c, err)
		}
	})
}

var recRandom = ev.New(prop, "random-objects",
	"rapid-generated JWS/JWE cases over the same matrices with uniform payload sizes 0..600, drawn keys, serialisations, AAD lengths and 4 drawn bit positions per field; non-trivial = payload on a block boundary, "+
		"or an EC key/signature with a leading zero byte, or a flip of the last bit of a field").Require("jws", "jwe", "block-edge", "last-bit", "sig-leading-zero")

func TestRandomObjects(t *testing.T) {
	ev.Rapid(t, "random-objects", 300, 80000, func(t *rapid.T) {
		flips := rapid.SliceOfN(rapid.IntRange(0, 1<<20), 4, 4).Draw(t, "flips")
		size := rapid.IntRange(0, 600).Draw(t, "size")
		if rapid.Bool().Draw(t, "sizek") {
			size = rapid.SampledFrom(sizes).Draw(t, "sizec")
		}
		if rapid.Bool().Draw(t, "jws") {
			c := SCase{Alg: rapid.SampledFrom(sigAlgs).Draw(t, "alg"), Key: rapid.IntRange(0, 100).Draw(t, "key"), HKey: rapid.Uint64().Draw(t, "hkey"), Size: size, Fill: rapid.Uint64().Draw(t, "fill"),
				JSON: rapid.Bool().Draw(t, "json"), Flips: flips}
			var n cnt
			err := ev.Try(func() error {
				var e error
				n, e = runSign(c)
				return e
			})
			cl := []string{"jws"}
			if n.sigLeadZero {
				cl = append(cl, "sig-leading-zero")
			}
			if n.lastBit {
				cl = append(cl, "last-bit")
			}
			record(recRandom, c, n, cl)
			if err != nil {
				fail(t, "jws", c, err)
			}
			return
		}
		c := ECase{Alg: rapid.SampledFrom(keyAlgs).Draw(t, "kalg"), Enc: rapid.SampledFrom(encAlgs).Draw(t, "enc"), Zip: rapid.Bool().Draw(t, "zip"), Key: rapid.IntRange(0, 100).Draw(t, "key"),
			KFill: rapid.Uint64().Draw(t, "kfill"), Size: size, Fill: rapid.Uint64().Draw(t, "fill"), JSON: rapid.Bool().Draw(t, "json"), AAD: rapid.SampledFrom([]int{-1, 0, 1, 33}).Draw(t, "aad"), Flips: flips}
		var n cnt
		err := ev.Try(func() error {
			var e error
			n, e = runEncrypt(c)
			return e
		})
		cl := []string{"jwe"}
		if n.blockEdge {
			cl = append(cl, "block-edge")
		}
		if n.lastBit {
			cl = append(cl, "last-bit")
		}
		record(recRandom, c, n, cl)
		if err != nil {
			fail(t, "jwe", c, err)
		}
	})
}

// ---------------------------------------------------------------- multi-recipient / multi-signature

type MCase struct {
	Size int    `json:"size"`
	Fill uint64 `json:"fill"`
	Enc  string `json:"enc"`
	// Recips / Sigs: key-management / signature algorithms of the recipients / signers, in order (empty = the fixed trio)
	Recips []string `json:"recips,omitempty"`
	Sigs   []string `json:"sigs,omitempty"`
}

// runMultiSet: any ordered set of recipients (RSA recipients alternate between the two fixture keys, so two
// RSA recipients of one object hold different keys of the same size) and of signers; every one succeeds on the
// parsed object, a stranger does not.
func runMultiSet(c MCase) error {
	payload := rtmpx.Fill(c.Size, c.Fill)
	if len(c.Recips) > 0 {
		me, err := jose.NewMultiEncrypter(jose.ContentEncryption(c.Enc))
		if err != nil {
			return err
		}
		var dec []interface{}
		nrsa := 0
		for i, alg := range c.Recips {
			ec := ECase{Alg: alg, Enc: c.Enc, Key: i, KFill: c.Fill + uint64(i)*977}
			if strings.HasPrefix(alg, "RSA") {
				ec.Key = nrsa
				nrsa++
			}
			ek, dk, _, err := encKeys(ec)
			if err != nil {
				return err
			}
			if err := me.AddRecipient(jose.KeyAlgorithm(alg), ek); err != nil {
				return fmt.Errorf("AddRecipient(%s): %v", alg, err)
			}
			dec = append(dec, dk)
		}
		obj, err := me.Encrypt(payload)
		if err != nil {
			return fmt.Errorf("multi encrypt %v: %v", c.Recips, err)
		}
		parsed, err := jose.ParseEncrypted(obj.FullSerialize())
		if err != nil {
			return fmt.Errorf("parse multi-recipient object %v: %v", c.Recips, err)
		}
		for i, k := range dec {
			got, err := parsed.Decrypt(k)
			if err != nil || !bytes.Equal(got, payload) {
				return fmt.Errorf("recipients %v: recipient %d (%s) cannot decrypt the object with its own key: %v", c.Recips, i, c.Recips[i], err)
			}
		}
		if _, err := parsed.Decrypt(rtmpx.Fill(16, c.Fill+555555)); err == nil {
			return fmt.Errorf("recipients %v: a key that is not a recipient decrypts the object", c.Recips)
		}
	}
	if len(c.Sigs) > 0 {
		ms := jose.NewMultiSigner()
		var ver []interface{}
		for i, alg := range c.Sigs {
			sk, vk, _, err := sigKeys(SCase{Alg: alg, Key: 32 + i, HKey: c.Fill + uint64(i)*13})
			if err != nil {
				return err
			}
			if err := ms.AddRecipient(jose.SignatureAlgorithm(alg), sk); err != nil {
				return fmt.Errorf("AddRecipient(%s): %v", alg, err)
			}
			ver = append(ver, vk)
		}
		sobj, err := ms.Sign(payload)
		if err != nil {
			return fmt.Errorf("multi sign %v: %v", c.Sigs, err)
		}
		sp, err := jose.ParseSigned(sobj.FullSerialize())
		if err != nil {
			return fmt.Errorf("parse multi-signature object %v: %v", c.Sigs, err)
		}
		for i, k := range ver {
			got, err := sp.Verify(k)
			if err != nil || !bytes.Equal(got, payload) {
				return fmt.Errorf("signers %v: signature %d (%s) does not verify with its own key: %v", c.Sigs, i, c.Sigs[i], err)
			}
		}
		if _, err := sp.Verify(rtmpx.Fill(32, c.Fill+777777)); err == nil {
			return fmt.Errorf("signers %v: a key that signed nothing verifies the object", c.Sigs)
		}
	}
	return nil
}

func runMulti(c MCase) error {
	if len(c.Recips) > 0 || len(c.Sigs) > 0 {
		return runMultiSet(c)
	}
	payload := rtmpx.Fill(c.Size, c.Fill)
	// JWE: three recipients of three kinds; each one decrypts; a stranger does not
	me, err := jose.NewMultiEncrypter(jose.ContentEncryption(c.Enc))
	if err != nil {
		return err
	}
	sym := rtmpx.Fill(16, c.Fill|1)
	ec := ecKeys[int(c.Fill)%len(ecKeys)]
	if err := me.AddRecipient(jose.RSA_OAEP, &rsaKeys[0].PublicKey); err != nil {
		return err
	}
	if err := me.AddRecipient(jose.A128KW, sym); err != nil {
		return err
	}
	if err := me.AddRecipient(jose.ECDH_ES_A256KW, &ec.PublicKey); err != nil {
		return err
	}
	obj, err := me.EncryptWithAuthData(payload, []byte("aad"))
	if err != nil {
		return fmt.Errorf("multi encrypt: %v", err)
	}
	parsed, err := jose.ParseEncrypted(obj.FullSerialize())
	if err != nil {
		return fmt.Errorf("parse multi-recipient object: %v", err)
	}
	for i, k := range []interface{}{rsaKeys[0], sym, ec} {
		got, err := parsed.Decrypt(k)
		if err != nil || !bytes.Equal(got, payload) {
			return fmt.Errorf("recipient %d cannot decrypt the multi-recipient object: %v", i, err)
		}
	}
	if _, err := parsed.Decrypt(rsaKeys[1]); err == nil {
		return fmt.Errorf("a key that is not a recipient decrypts the multi-recipient object")
	}
	// JWS: three signatures; each key verifies; a stranger does not
	ms := jose.NewMultiSigner()
	hk := rtmpx.Fill(32, c.Fill|1)
	ek := ecKeys[ecKeysFor(elliptic.P384())[int(c.Fill)%4]]
	if err := ms.AddRecipient(jose.RS256, rsaKeys[0]); err != nil {
		return err
	}
	if err := ms.AddRecipient(jose.HS512, hk); err != nil {
		return err
	}
	if err := ms.AddRecipient(jose.ES384, ek); err != nil {
		return err
	}
	sobj, err := ms.Sign(payload)
	if err != nil {
		return fmt.Errorf("multi sign: %v", err)
	}
	sp, err := jose.ParseSigned(sobj.FullSerialize())
	if err != nil {
		return fmt.Errorf("parse multi-signature object: %v", err)
	}
	if len(sp.Signatures) != 3 {
		return fmt.Errorf("parsed %d signatures, want 3", len(sp.Signatures))
	}
	for i, k := range []interface{}{&rsaKeys[0].PublicKey, hk, &ek.PublicKey} {
		got, err := sp.Verify(k)
		if err != nil || !bytes.Equal(got, payload) {
			return fmt.Errorf("signature %d does not verify in the multi-signature object: %v", i, err)
		}
	}
	if _, err := sp.Verify(&rsaKeys[1].PublicKey); err == nil {
		return fmt.Errorf("a key that signed nothing verifies the multi-signature object")
	}
	return nil
}

func TestMulti(t *testing.T) {
	rec := ev.New(prop, "multi", "multi-recipient JWE (RSA-OAEP + A128KW + ECDH-ES+A256KW) and multi-signature JWS (RS256 + HS512 + ES384) for the 6 content encryptions x payload sizes; every recipient/signer succeeds, a stranger fails; all non-trivial")
	rec.Exhaustive()
	for i, enc := range encAlgs {
		for j, sz := range sizes {
			c := MCase{Size: sz, Fill: uint64(i*31 + j + 1), Enc: enc}
			err := ev.Try(func() error { return runMulti(c) })
			rec.Case(true, ev.Hash(c), nil, func() any { return c })
			if err != nil {
				fail(t, "multi", c, err)
			}
		}
	}
}

// ---------------------------------------------------------------- JWK

func refThumbprint(pub interface{}) ([]byte, error) {
	var s string
	switch k := pub.(type) {
	case *rsa.PublicKey:
		s = fmt.Sprintf(`{"e":"%s","kty":"RSA","n":"%s"}`, b64e(big.NewInt(int64(k.E)).Bytes()), b64e(k.N.Bytes()))
	case *ecdsa.PublicKey:
		size := (k.Curve.Params().BitSize + 7) / 8
		pad := func(b *big.Int) []byte {
			out := make([]byte, size)
			bb := b.Bytes()
			copy(out[size-len(bb):], bb)
			return out
		}
		s = fmt.Sprintf(`{"crv":"%s","kty":"EC","x":"%s","y":"%s"}`, k.Curve.Params().Name, b64e(pad(k.X)), b64e(pad(k.Y)))
	default:
		return nil, fmt.Errorf("no thumbprint for %T", pub)
	}
	h := sha256.Sum256([]byte(s))
	return h[:], nil
}

type JCase struct {
	Kind string `json:"kind"` // rsa-pub rsa-priv ec-pub ec-priv oct
	Key  int    `json:"key"`
	Len  int    `json:"len,omitempty"`
	Kid  string `json:"kid,omitempty"`
	Alg  string `json:"alg,omitempty"`
	Use  string `json:"use,omitempty"`
}

func runJWK(c JCase) (leadZero bool, err error) {
	var key interface{}
	var pub interface{}
	switch c.Kind {
	case "rsa-pub":
		key, pub = &rsaKeys[c.Key%2].PublicKey, &rsaKeys[c.Key%2].PublicKey
	case "rsa-priv":
		key, pub = rsaKeys[c.Key%2], &rsaKeys[c.Key%2].PublicKey
	case "ec-pub":
		k := ecKeys[c.Key%len(ecKeys)]
		key, pub = &k.PublicKey, &k.PublicKey
	case "ec-priv":
		k := ecKeys[c.Key%len(ecKeys)]
		key, pub = k, &k.PublicKey
	case "oct":
		key = rtmpx.Fill(c.Len, uint64(c.Key)+1)
		if c.Len == 0 {
			key = []byte{}
		}
	}
	jwk := jose.JsonWebKey{Key: key, KeyID: c.Kid, Algorithm: c.Alg, Use: c.Use}
	b, err := jwk.MarshalJSON()
	if err != nil {
		return false, fmt.Errorf("marshal %s: %v", c.Kind, err)
	}
	var back jose.JsonWebKey
	if err := back.UnmarshalJSON(b); err != nil {
		return false, fmt.Errorf("unmarshal of own JWK %s: %v", b, err)
	}
	if back.KeyID != c.Kid || back.Algorithm != c.Alg || back.Use != c.Use {
		return false, fmt.Errorf("kid/alg/use changed: %q %q %q", back.KeyID, back.Algorithm, back.Use)
	}
	if !sameKey(key, back.Key) {
		return false, fmt.Errorf("%s key differs after marshal/unmarshal: %s", c.Kind, b)
	}
	if c.Kind != "oct" && !back.Valid() {
		return false, fmt.Errorf("round-tripped %s key is reported invalid", c.Kind)
	}
	// wire shape of EC coordinates: fixed width (RFC 7518 6.2.1.2), also with leading zero bytes
	if ek, ok := pub.(*ecdsa.PublicKey); ok {
		var raw map[string]interface{}
		json.Unmarshal(b, &raw)
		size := (ek.Curve.Params().BitSize + 7) / 8
		for _, f := range []string{"x", "y"} {
			v, _ := b64d(fmt.Sprint(raw[f]))
			if len(v) != size {
				return false, fmt.Errorf("EC coordinate %s is serialised in %d bytes, the curve needs %d", f, len(v), size)
			}
			if v[0] == 0 {
				leadZero = true
			}
		}
		if raw["crv"] != ek.Curve.Params().Name {
			return false, fmt.Errorf("crv %v, want %s", raw["crv"], ek.Curve.Params().Name)
		}
	}
	if pub != nil {
		want, _ := refThumbprint(pub)
		for _, k := range []*jose.JsonWebKey{&jwk, &back} {
			got, err := k.Thumbprint(crypto.SHA256)
			if err != nil {
				return leadZero, fmt.Errorf("Thumbprint: %v", err)
			}
			if !bytes.Equal(got, want) {
				return leadZero, fmt.Errorf("thumbprint %x, RFC 7638 gives %x for %s", got, want, b)
			}
		}
	}
	return leadZero, nil
}

func sameKey(a, b interface{}) bool {
	switch x := a.(type) {
	case []byte:
		y, ok := b.([]byte)
		return ok && bytes.Equal(x, y)
	case *rsa.PublicKey:
		y, ok := b.(*rsa.PublicKey)
		return ok && x.N.Cmp(y.N) == 0 && x.E == y.E
	case *rsa.PrivateKey:
		y, ok := b.(*rsa.PrivateKey)
		if !ok || x.N.Cmp(y.N) != 0 || x.E != y.E || x.D.Cmp(y.D) != 0 || len(x.Primes) != len(y.Primes) {
			return false
		}
		for i := range x.Primes {
			if x.Primes[i].Cmp(y.Primes[i]) != 0 {
				return false
			}
		}
		return true
	case *ecdsa.PublicKey:
		y, ok := b.(*ecdsa.PublicKey)
		return ok && x.Curve == y.Curve && x.X.Cmp(y.X) == 0 && x.Y.Cmp(y.Y) == 0
	case *ecdsa.PrivateKey:
		y, ok := b.(*ecdsa.PrivateKey)
		return ok && x.Curve == y.Curve && x.X.Cmp(y.X) == 0 && x.Y.Cmp(y.Y) == 0 && x.D.Cmp(y.D) == 0
	}
	return false
}

func TestJWK(t *testing.T) {
	rec := ev.New(prop, "jwk", "every fixture key as public and private JWK (2 RSA, 12 EC incl. leading-zero X/Y on every curve) and oct keys of 0..64 bytes, with/without kid/alg/use: marshal->unmarshal equality, "+
		"fixed-width EC coordinates, thumbprint == RFC 7638 computed independently; non-trivial = EC key with a leading zero coordinate or a private key")
	rec.Exhaustive()
	var cases []JCase
	for k := 0; k < 2; k++ {
		cases = append(cases, JCase{Kind: "rsa-pub", Key: k}, JCase{Kind: "rsa-priv", Key: k, Kid: "k1", Alg: "RS256", Use: "sig"})
	}
	for k := range ecKeys {
		cases = append(cases, JCase{Kind: "ec-pub", Key: k, Kid: "é\"x"}, JCase{Kind: "ec-priv", Key: k, Use: "enc"})
	}
	for _, l := range []int{0, 1, 16, 31, 32, 64} {
		cases = append(cases, JCase{Kind: "oct", Key: l, Len: l, Alg: "A128KW"})
	}
	lz := 0
	for _, c := range cases {
		var z bool
		err := ev.Try(func() error {
			var e error
			z, e = runJWK(c)
			return e
		})
		if z {
			lz++
		}
		rec.Case(z || strings.HasSuffix(c.Kind, "priv"), ev.Hash(c), nil, func() any { return c })
		if err != nil {
			fail(t, "jwk", c, err)
		}
	}
	if lz < 6 {
		t.Fatalf("harness: only %d fixture keys with a leading-zero coordinate were exercised", lz)
	}
}

// ---------------------------------------------------------------- ACME hook

type ACase struct {
	Key   int    `json:"key"` // 0,1: RSA; 2..: EC P-256/P-384 fixtures
	Size  int    `json:"size"`
	Nonce string `json:"nonce"`
	Token string `json:"token"`
}

func runACME(c ACase) error {
	var priv crypto.PrivateKey
	var pub interface{}
	if c.Key < 2 {
		priv, pub = rsaKeys[c.Key], &rsaKeys[c.Key].PublicKey
	} else {
		var pool []*ecdsa.PrivateKey
		for _, k := range ecKeys {
			if k.Curve != elliptic.P521() {
				pool = append(pool, k)
			}
		}
		k := pool[(c.Key-2)%len(pool)]
		priv, pub = k, &k.PublicKey
	}
	content := rtmpx.Fill(c.Size, uint64(c.Key)+5)
	obj, err := acme.VerifSignContent(priv, []string{"unused-nonce", c.Nonce}, content)
	if err != nil {
		return fmt.Errorf("signContent: %v", err)
	}
	ser := obj.FullSerialize()
	parsed, err := jose.ParseSigned(ser)
	if err != nil {
		return fmt.Errorf("parse of the ACME JWS: %v", err)
	}
	got, err := parsed.Verify(pub)
	if err != nil || !bytes.Equal(got, content) {
		return fmt.Errorf("ACME JWS does not verify with the account key: %v", err)
	}
	// (which of the pooled nonces is spent first is the pool's business; it has to be one of them, and it has to be signed)
	if n := parsed.Signatures[0].Header.Nonce; n != c.Nonce && n != "unused-nonce" {
		return fmt.Errorf("ACME JWS carries nonce %q, the pool holds %q and %q", n, "unused-nonce", c.Nonce)
	}
	fs, _ := fields(ser, false)
	ph, _ := b64d(fs["protected"])
	if !bytes.Contains(ph, []byte(`"nonce"`)) {
		return fmt.Errorf("nonce is not in the protected header %s", ph)
	}
	if jwk := parsed.Signatures[0].Header.JsonWebKey; jwk == nil || !sameKey(pub, jwk.Key) {
		return fmt.Errorf("ACME JWS does not embed the account public key")
	}
	ka, err := acme.VerifKeyAuthorization(c.Token, priv)
	if err != nil {
		return fmt.Errorf("getKeyAuthorization: %v", err)
	}
	tp, _ := refThumbprint(pub)
	if want := c.Token + "." + b64e(tp); ka != want {
		return fmt.Errorf("key authorization %q, want token.base64url(RFC 7638 thumbprint) = %q", ka, want)
	}
	return nil
}

func TestACME(t *testing.T) {
	rec := ev.New(prop, "acme", "ACME helpers through the verif hook: RSA and P-256/P-384 fixture keys (incl. leading-zero coordinates) x content sizes {0,1,300} x nonces/tokens: the JWS verifies with the account key, carries the pool's nonce "+
		"in the protected header and the embedded JWK, key authorization == token.b64url(RFC 7638 thumbprint); all non-trivial")
	rec.Exhaustive()
	for k := 0; k < 10; k++ {
		for _, sz := range []int{0, 1, 300} {
			c := ACase{Key: k, Size: sz, Nonce: fmt.Sprintf("nonce-%d_%d", k, sz), Token: fmt.Sprintf("tok-%d", k*7+sz)}
			err := ev.Try(func() error { return runACME(c) })
			rec.Case(true, ev.Hash(c), nil, func() any { return c })
			if err != nil {
				fail(t, "acme", c, err)
			}
		}
	}
}

func replayers() map[string]ev.Replayer {
	return map[string]ev.Replayer{
		"jws": func(raw json.RawMessage) error {
			var c SCase
			if err := json.Unmarshal(raw, &c); err != nil {
				return err
			}
			_, e := runSign(c)
			return e
		},
		"side-by-side": func(raw json.RawMessage) error {
			var c ECase
			if err := json.Unmarshal(raw, &c); err != nil {
				return err
			}
			_, e := runEncrypt(c)
			return e
		},
		"jwe": func(raw json.RawMessage) error {
			var c ECase
			if err := json.Unmarshal(raw, &c); err != nil {
				return err
			}
			_, e := runEncrypt(c)
			return e
		},
		"multi": func(raw json.RawMessage) error {
			var c MCase
			if err := json.Unmarshal(raw, &c); err != nil {
				return err
			}
			return runMulti(c)
		},
		"jwk": func(raw json.RawMessage) error {
			var c JCase
			if err := json.Unmarshal(raw, &c); err != nil {
				return err
			}
			_, e := runJWK(c)
			return e
		},
		"acme": func(raw json.RawMessage) error {
			var c ACase
			if err := json.Unmarshal(raw, &c); err != nil {
				return err
			}
			return runACME(c)
		},
	}
}

func TestRegress(t *testing.T) { ev.Regress(t, prop, replayers()) }
func TestReplay(t *testing.T) {
	if os.Getenv("VERIF_REPLAY") == "" {
		t.Skip("no VERIF_REPLAY")
	}
	ev.Replay(t, prop, replayers())
}
