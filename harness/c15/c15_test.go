// C15: concurrent control frames never corrupt the WebSocket frame stream. The harness owns the
// transport: a generated script decides, per transport write call, how many control senders
// are released while the write is in progress, whether the call fails, and where Close goes.
// Built with -race.
package c15

import (
	"bytes"
	"encoding/json"
	"errors"
	"fmt"
	"io"
	"os"
	"runtime"
	"sync"
	"sync/atomic"
	"testing"
	"time"

	"github.com/ossrs/go-oryx-lib/websocket"
	"pgregory.net/rapid"
	"verif/harness/internal/ev"
	"verif/harness/internal/ref/wsref"
	"verif/harness/internal/rtmpx"
	"verif/harness/internal/wsx"
	"verif/harness/internal/xport"
)

const prop = "C15"

func TestMain(m *testing.M) { ev.Main(m) }

type fataler interface{ Fatalf(string, ...any) }

func fail(t fataler, check string, c any, err error) {
	p := ev.Fail(prop, check, c, err)
	t.Fatalf("%v (replay %s)", err, p)
}

// Act is what the transport does on one Write call.
type Act struct {
	Release int  `json:"release,omitempty"` // control frames released while this write is in progress
	Yield   int  `json:"yield,omitempty"`   // scheduler yields before the write completes
	Fail    bool `json:"fail,omitempty"`    // the transport fails this call
}

type DMsg struct {
	Type  int    `json:"type"` // 1 text, 2 binary; 9 / 10: the writer goroutine sends a ping / pong through the message API (Size <= 125)
	Size  int    `json:"size"`
	Fill  uint64 `json:"fill"`
	API   string `json:"api"` // WriteMessage | NextWriter
	Parts []int  `json:"parts,omitempty"`
	Wdl   int    `json:"wdl,omitempty"` // the data writer calls SetWriteDeadline before this message: 1 an hour ahead, 2 the zero time (no deadline)
}

type Sender struct {
	Frames []int `json:"frames"` // per control frame: 9 ping, 10 pong, 8 close
	Lens   []int `json:"lens"`   // payload lengths
	// Dl: per frame, the deadline given to WriteControl: 0 none, 1 already expired (the call gives up at once), 2 an hour ahead
	Dl []int `json:"dl,omitempty"`
}

type Case struct {
	Server   bool     `json:"server"`
	WriteBuf int      `json:"write_buf"`
	Msgs     []DMsg   `json:"msgs"`
	Senders  []Sender `json:"senders"`
	Script   []Act    `json:"script"`
	CloseAt  int      `json:"close_at"`           // >=0: Conn.Close() is called once the transport has seen that many writes
	PeerPing int      `json:"peer_ping"`          // pings the peer sends (answered by the reader goroutine)
	Compress bool     `json:"compress,omitempty"` // permessage-deflate negotiated: data messages travel compressed
}

var errInjected = errors.New("injected transport failure")

type gated struct {
	mu           sync.Mutex
	inside       int32
	concurrent   int32
	calls        int
	log          bytes.Buffer
	parts        []int // length of each accepted write call
	script       []Act
	gate         chan struct{}
	open         chan struct{} // closed at the end: senders no longer wait for tokens
	failed       bool
	closeAt      int
	closeFn      func()
	twoPartBarge bool
}

func (g *gated) Write(p []byte) (int, error) {
	if atomic.AddInt32(&g.inside, 1) != 1 {
		atomic.StoreInt32(&g.concurrent, 1)
	}
	defer atomic.AddInt32(&g.inside, -1)
	g.mu.Lock()
	idx := g.calls
	g.calls++
	failed := g.failed
	var act Act
	if len(g.script) > 0 {
		act = g.script[idx%len(g.script)]
	}
	doClose := g.closeAt >= 0 && g.calls == g.closeAt+1
	g.mu.Unlock()
	if failed {
		return 0, errInjected
	}
	for i := 0; i < act.Release; i++ {
		select {
		case g.gate <- struct{}{}:
		default:
		}
	}
	for i := 0; i < act.Yield; i++ {
		runtime.Gosched()
	}
	if act.Release > 0 {
		time.Sleep(30 * time.Microsecond) // keep the window open for a sender that could barge in
	}
	g.mu.Lock()
	defer g.mu.Unlock()
	if act.Fail {
		g.failed = true
		return 0, errInjected
	}
	g.log.Write(p)
	g.parts = append(g.parts, len(p))
	if doClose && g.closeFn != nil {
		go g.closeFn()
	}
	return len(p), nil
}

type stats struct {
	twoPart, released, closeFrame, closed, failed bool
	frames                                        int
}

func runCase(c Case) (st stats, err error) {
	g := &gated{script: c.Script, gate: make(chan struct{}, 1024), open: make(chan struct{}), closeAt: c.CloseAt}
	in := xport.NewBlockPipe()
	out := &wsx.Sink{}
	cfg := wsx.Config{ReadBuf: 256, WriteBuf: c.WriteBuf, Compression: c.Compress}
	var conn *websocket.Conn
	var nc *wsx.Conn
	if c.Server {
		conn, nc, _, err = wsx.NewServer(cfg, c.Compress, in, out)
	} else {
		conn, nc, _, err = wsx.NewClient(cfg, c.Compress, in, out)
	}
	if err != nil {
		return st, fmt.Errorf("handshake: %v", err)
	}
	nc.W = g.Write // from here on the gated transport receives every write call
	nc.OnClose = func() { in.Close() }
	g.closeFn = func() { conn.Close() }

	// the peer's input: pings (masked iff the endpoint is a server)
	for i := 0; i < c.PeerPing; i++ {
		in.Write(wsref.Frame{Fin: true, Op: 9, Masked: c.Server, Key: [4]byte{1, 2, 3, byte(i)}, Payload: []byte{byte(i), 0x55}}.Bytes())
	}

	var wg, rwg sync.WaitGroup
	var closeSent int32 // set once a WriteControl(Close) has returned nil
	// reader
	rwg.Add(1)
	go func() {
		defer rwg.Done()
		for {
			if _, _, e := conn.ReadMessage(); e != nil {
				return
			}
		}
	}()
	// control senders
	type ctlErr struct {
		sender, frame int
		err           error
		afterClose    bool
	}
	var ctlMu sync.Mutex
	var ctlErrs []ctlErr
	var sentCtl []string // payloads of the pings/pongs whose WriteControl returned nil
	expiredOK, nExpired := true, 0
	for si, s := range c.Senders {
		wg.Add(1)
		go func(si int, s Sender) {
			defer wg.Done()
			for fi, op := range s.Frames {
				select {
				case <-g.gate:
				case <-g.open:
				}
				n := 0
				if fi < len(s.Lens) {
					n = s.Lens[fi]
				}
				var payload []byte
				if op == websocket.CloseMessage {
					payload = websocket.FormatCloseMessage(1000, "")
				} else {
					payload = rtmpx.Fill(n, uint64(si*100+fi+1))
				}
				after := atomic.LoadInt32(&closeSent) == 1
				var dl time.Time
				expired := false
				if fi < len(s.Dl) {
					switch s.Dl[fi] {
					case 1:
						dl, expired = time.Now().Add(-time.Second), true
					case 2:
						dl = time.Now().Add(time.Hour)
					}
				}
				e := conn.WriteControl(op, payload, dl)
				if e == nil && op == websocket.CloseMessage {
					atomic.StoreInt32(&closeSent, 1)
				}
				ctlMu.Lock()
				if expired {
					// a control frame whose deadline has already passed: the call may give up at once (this library does)
					// or still send the frame - the statement fixes neither; what counts is that the wire stays whole
					if e == nil && op != websocket.CloseMessage {
						sentCtl = append(sentCtl, string(payload))
					}
					nExpired++
				} else {
					ctlErrs = append(ctlErrs, ctlErr{si, fi, e, after})
					if e == nil && op != websocket.CloseMessage {
						sentCtl = append(sentCtl, string(payload))
					}
				}
				ctlMu.Unlock()
			}
		}(si, s)
	}
	// data writer = this goroutine
	type wres struct {
		err        error
		afterClose bool
	}
	var wrs []wres
	for _, m := range c.Msgs {
		p := rtmpx.Fill(m.Size, m.Fill|1)
		after := atomic.LoadInt32(&closeSent) == 1
		var e error
		switch m.Wdl {
		case 1:
			conn.SetWriteDeadline(time.Now().Add(time.Hour))
		case 2:
			conn.SetWriteDeadline(time.Time{})
		}
		if m.Type >= 8 {
			// the writer goroutine sends a ping/pong itself, through the message API
			if m.API == "NextWriter" {
				var w io.WriteCloser
				if w, e = conn.NextWriter(m.Type); e == nil {
					if _, e = w.Write(p); e == nil {
						e = w.Close()
					}
				}
			} else {
				e = conn.WriteMessage(m.Type, p)
			}
			ctlMu.Lock()
			if e == nil {
				sentCtl = append(sentCtl, string(p))
			} else if !after && e != websocket.ErrCloseSent {
				ctlErrs = append(ctlErrs, ctlErr{-1, 0, e, after})
			}
			ctlMu.Unlock()
			continue
		}
		if m.API == "NextWriter" {
			var w interface {
				Write([]byte) (int, error)
				Close() error
			}
			w, e = conn.NextWriter(m.Type)
			if e == nil {
				rest := p
				for i := 0; len(rest) > 0 && e == nil; i++ {
					n := len(rest)
					if len(m.Parts) > 0 {
						if k := m.Parts[i%len(m.Parts)]; k >= 1 && k < n {
							n = k
						}
					}
					_, e = w.Write(rest[:n])
					rest = rest[n:]
				}
				if e == nil {
					e = w.Close()
				}
			}
		} else {
			e = conn.WriteMessage(m.Type, p)
		}
		wrs = append(wrs, wres{e, after})
	}
	// let every sender finish, then end the reader by closing its input
	close(g.open)
	if !waitTimeout(&wg, 20*time.Second) {
		return st, fmt.Errorf("stall: control senders did not finish within 20s")
	}
	in.Close()
	if !waitTimeout(&rwg, 20*time.Second) {
		return st, fmt.Errorf("stall: the reader goroutine did not finish within 20s")
	}

	// ---------------------------------------------------------------- oracle
	g.mu.Lock()
	wire := append([]byte(nil), g.log.Bytes()...)
	parts := append([]int(nil), g.parts...)
	failed := g.failed
	g.mu.Unlock()
	closed := nc.IsClosed()
	st.failed = failed
	st.closed = closed
	if atomic.LoadInt32(&g.concurrent) == 1 {
		return st, fmt.Errorf("two goroutines were inside the transport's Write at the same time")
	}
	// parse frame by frame; a trailing partial frame is only legal after a transport failure / Close()
	var frames []wsref.Frame
	compressedAt := map[int]bool{}
	off := 0
	var ends []int
	for off < len(wire) {
		f, n, minimal, e := wsref.ParseOne(wire[off:])
		if e != nil {
			if failed || closed {
				break // a trailing partial frame is what a failed / closed transport leaves behind
			}
			return st, fmt.Errorf("wire is not a sequence of whole frames: offset %d of %d: %v", off, len(wire), e)
		}
		if f.Masked == c.Server {
			return st, fmt.Errorf("frame at offset %d has masked=%v for a %s endpoint (a frame was split or corrupted)", off, f.Masked, role(c.Server))
		}
		if c.Compress && f.RSV == 4 && (f.Op == 1 || f.Op == 2) {
			f.RSV = 0 // first frame of a compressed message
			compressedAt[len(frames)] = true
		}
		if !minimal || f.RSV != 0 || (f.Op > 2 && f.Op < 8) || f.Op > 10 {
			return st, fmt.Errorf("malformed frame at offset %d (op %d rsv %d minimal %v): a frame was split or corrupted", off, f.Op, f.RSV, minimal)
		}
		if f.Op >= 8 && (!f.Fin || len(f.Payload) > 125) {
			return st, fmt.Errorf("malformed control frame at offset %d", off)
		}
		off += n
		frames = append(frames, f)
		ends = append(ends, off)
	}
	st.frames = len(frames)
	// two-part frames: a write call boundary strictly inside a frame
	pos := 0
	for _, l := range parts {
		pos += l
		inside := true
		for _, e := range ends {
			if e == pos {
				inside = false
			}
		}
		if inside && pos < off {
			st.twoPart = true
		}
	}
	// data messages in order, intact, prefix of what was written
	var dataMsgs [][]byte
	var types []int
	var cur []byte
	var wireCtl []string
	open, curComp := false, false
	closeSeen := -1
	finish := func(i int) error {
		if curComp {
			plain, e := wsref.Inflate(cur)
			if e != nil {
				return fmt.Errorf("the compressed message ending at frame %d does not inflate: %v", i, e)
			}
			cur = plain
		}
		dataMsgs = append(dataMsgs, cur)
		return nil
	}
	for i, f := range frames {
		if closeSeen >= 0 {
			return st, fmt.Errorf("frame %d (op %d) reached the wire after the Close frame", i, f.Op)
		}
		switch {
		case f.Op == 8:
			closeSeen = i
			st.closeFrame = true
		case f.Op == 1 || f.Op == 2:
			if open {
				return st, fmt.Errorf("frame %d starts a new message inside a fragmented one", i)
			}
			cur, open, curComp = append([]byte(nil), f.Payload...), !f.Fin, compressedAt[i]
			types = append(types, int(f.Op))
			if f.Fin {
				if e := finish(i); e != nil {
					return st, e
				}
			}
		case f.Op == 0:
			if !open {
				return st, fmt.Errorf("frame %d is a continuation without a started message", i)
			}
			cur = append(cur, f.Payload...)
			open = !f.Fin
			if f.Fin {
				if e := finish(i); e != nil {
					return st, e
				}
			}
		case f.Op == 9 || f.Op == 10:
			wireCtl = append(wireCtl, string(f.Payload))
		}
	}
	// every ping/pong on the wire carries a payload some sender gave (or answers a peer ping); none is garbled
	legit := map[string]int{}
	ctlMu.Lock()
	for _, p := range sentCtl {
		legit[p]++
	}
	ctlMu.Unlock()
	for i := 0; i < c.PeerPing; i++ {
		legit[string([]byte{byte(i), 0x55})]++
	}
	for _, p := range wireCtl {
		if legit[p] == 0 {
			// a call that failed (close sent, transport failure) may still have put its frame on the wire: accept what any sender tried
			if !anyTried(c, p) {
				return st, fmt.Errorf("a ping/pong on the wire carries %d bytes (%x..) that no sender gave", len(p), head([]byte(p)))
			}
			continue
		}
		legit[p]--
	}
	_, _ = expiredOK, nExpired
	if closeSeen >= 0 && off != ends[closeSeen] {
		return st, fmt.Errorf("%d bytes reached the wire after the Close frame", off-ends[closeSeen])
	}
	var dataOnly []DMsg
	for _, m := range c.Msgs {
		if m.Type < 8 {
			dataOnly = append(dataOnly, m)
		}
	}
	if len(dataMsgs) > len(dataOnly) {
		return st, fmt.Errorf("%d complete data messages on the wire, %d were written", len(dataMsgs), len(dataOnly))
	}
	for i, d := range dataMsgs {
		w := rtmpx.Fill(dataOnly[i].Size, dataOnly[i].Fill|1)
		if types[i] != dataOnly[i].Type || !bytes.Equal(d, w) {
			return st, fmt.Errorf("data message %d on the wire (%d bytes) differs from the message written (%d bytes)", i, len(d), len(w))
		}
	}
	// a message whose write returned nil must be complete on the wire
	okWrites := 0
	for i, r := range wrs {
		if r.err == nil {
			okWrites++
		}
		if r.afterClose && r.err != websocket.ErrCloseSent {
			return st, fmt.Errorf("data write %d started after the Close frame was sent returned %v, want ErrCloseSent", i, r.err)
		}
	}
	if okWrites > len(dataMsgs) {
		return st, fmt.Errorf("%d data writes returned nil, only %d complete messages are on the wire", okWrites, len(dataMsgs))
	}
	if !failed && !closed && closeSeen < 0 {
		for i, r := range wrs {
			if r.err != nil {
				return st, fmt.Errorf("data write %d failed (%v) without a close, Close() or transport failure", i, r.err)
			}
		}
	}
	for _, ce := range ctlErrs {
		if ce.afterClose && ce.err != websocket.ErrCloseSent {
			return st, fmt.Errorf("control frame %d/%d sent after the Close frame returned %v, want ErrCloseSent", ce.sender, ce.frame, ce.err)
		}
		if ce.err != nil && !failed && !closed && closeSeen < 0 {
			return st, fmt.Errorf("control frame %d/%d failed (%v) without a close, Close() or transport failure", ce.sender, ce.frame, ce.err)
		}
	}
	for _, a := range c.Script {
		if a.Release > 0 {
			st.released = true
		}
	}
	return st, nil
}

// anyTried: p is the payload some sender (or the writer itself) tried to send as a ping/pong.
func anyTried(c Case, p string) bool {
	for si, s := range c.Senders {
		for fi := range s.Frames {
			n := 0
			if fi < len(s.Lens) {
				n = s.Lens[fi]
			}
			if string(rtmpx.Fill(n, uint64(si*100+fi+1))) == p {
				return true
			}
		}
	}
	for _, m := range c.Msgs {
		if m.Type >= 8 && string(rtmpx.Fill(m.Size, m.Fill|1)) == p {
			return true
		}
	}
	return false
}

func head(b []byte) []byte {
	if len(b) > 12 {
		return b[:12]
	}
	return b
}

func waitTimeout(wg *sync.WaitGroup, d time.Duration) bool {
	ch := make(chan struct{})
	go func() { wg.Wait(); close(ch) }()
	select {
	case <-ch:
		return true
	case <-time.After(d):
		return false
	}
}

func role(server bool) string {
	if server {
		return "server"
	}
	return "client"
}

// ---------------------------------------------------------------- generator

func genCase(t *rapid.T) Case {
	c := Case{Server: rapid.IntRange(0, 3).Draw(t, "server") > 0, WriteBuf: rapid.SampledFrom([]int{16, 64, 256, 1024}).Draw(t, "wbuf"), CloseAt: -1}
	n := rapid.IntRange(1, 8).Draw(t, "nmsg")
	for i := 0; i < n; i++ {
		m := DMsg{Type: rapid.IntRange(1, 2).Draw(t, "type"), Fill: rapid.Uint64().Draw(t, "fill"), API: rapid.SampledFrom([]string{"WriteMessage", "WriteMessage", "NextWriter"}).Draw(t, "api")}
		wb := c.WriteBuf
		m.Size = rapid.SampledFrom([]int{0, 1, wb - 1, wb, wb + 1, 2 * wb, 2*wb + 30, 3*wb + 100, 5 * wb}).Draw(t, "size")
		if m.API == "NextWriter" {
			m.Parts = rapid.SliceOfN(rapid.SampledFrom([]int{1, wb / 2, wb, wb + 1, 2*wb + 29, 3*wb + 40}), 0, 3).Draw(t, "parts")
		}
		if rapid.IntRange(0, 7).Draw(t, "ctlmsg") == 0 {
			m.Type, m.Size, m.Parts = rapid.SampledFrom([]int{9, 10}).Draw(t, "ctltype"), rapid.SampledFrom([]int{0, 5, min(125, wb)}).Draw(t, "ctlsize"), nil // (a control frame sent through the message API has to fit the write buffer)
		}
		m.Wdl = rapid.SampledFrom([]int{0, 0, 1, 1, 2}).Draw(t, "wdl")
		c.Msgs = append(c.Msgs, m)
	}
	c.Compress = rapid.IntRange(0, 2).Draw(t, "compress") == 0
	k := rapid.IntRange(0, 4).Draw(t, "senders")
	closer := -1
	if k > 0 && rapid.IntRange(0, 2).Draw(t, "hasclose") == 0 {
		closer = rapid.IntRange(0, k-1).Draw(t, "closer")
	}
	for i := 0; i < k; i++ {
		var s Sender
		nf := rapid.IntRange(1, 5).Draw(t, "nframes")
		for j := 0; j < nf; j++ {
			s.Frames = append(s.Frames, rapid.SampledFrom([]int{9, 10}).Draw(t, "cop"))
			s.Lens = append(s.Lens, rapid.SampledFrom([]int{0, 1, 50, 125}).Draw(t, "clen"))
			s.Dl = append(s.Dl, rapid.SampledFrom([]int{0, 0, 0, 1, 2}).Draw(t, "cdl"))
		}
		if i == closer {
			s.Frames[rapid.IntRange(0, nf-1).Draw(t, "closepos")] = 8
		}
		c.Senders = append(c.Senders, s)
	}
	ns := rapid.IntRange(1, 12).Draw(t, "nscript")
	for i := 0; i < ns; i++ {
		a := Act{Release: rapid.SampledFrom([]int{0, 0, 1, 1, 2, 4}).Draw(t, "release"), Yield: rapid.IntRange(0, 6).Draw(t, "yield")}
		if rapid.IntRange(0, 120).Draw(t, "failk") == 0 {
			a.Fail = true
		}
		c.Script = append(c.Script, a)
	}
	if rapid.IntRange(0, 5).Draw(t, "closek") == 0 {
		c.CloseAt = rapid.IntRange(0, 12).Draw(t, "closeat")
	}
	c.PeerPing = rapid.IntRange(0, 3).Draw(t, "peerping")
	return c
}

var recHist = ev.New(prop, "histories",
	"rapid-generated histories: one data writer (1-8 messages, sizes around 0/buf/2buf/5buf through WriteMessage or NextWriter with drawn partitions, so server frames reach the transport in two write calls), "+
		"the writer sets or clears its write deadline before some messages (SetWriteDeadline is one of the writer's methods), a reader goroutine answering the peer's pings, 0-4 control senders (pings/pongs, optionally one Close at a drawn position), optional Conn.Close() after a drawn number of transport writes; the transport script "+
		"releases control senders and yields while a write call is in progress, or fails a call; oracle: transport never entered concurrently, bytes parse as whole well-formed frames, data messages intact and in order, "+
		"nothing after a Close frame, writes after close-sent return ErrCloseSent, race detector silent; non-trivial = senders released during a write of a history with two-part frames, or a Close frame/Close()/failure").
	Require("two-part+released", "close-frame", "conn-close", "transport-failure", "client", "server")

func TestHistories(t *testing.T) {
	ev.Rapid(t, "histories", 1200, 300000, func(t *rapid.T) {
		c := genCase(t)
		ev.Current(prop, "histories", c)
		var st stats
		err := ev.Try(func() error {
			var e error
			st, e = runCase(c)
			return e
		})
		var cl []string
		if st.twoPart && st.released && len(c.Senders) > 0 {
			cl = append(cl, "two-part+released")
		}
		if st.closeFrame {
			cl = append(cl, "close-frame")
		}
		if st.closed {
			cl = append(cl, "conn-close")
		}
		if st.failed {
			cl = append(cl, "transport-failure")
		}
		nt := len(cl) > 0
		cl = append(cl, role(c.Server))
		recHist.Case(nt, ev.Hash(c), cl, func() any { return c })
		if err != nil {
			fail(t, "histories", c, err)
		}
	})
}

// ---------------------------------------------------------------- sequential: operations after a sent Close

type SeqCase struct {
	Server   bool   `json:"server"`
	WriteBuf int    `json:"write_buf"`
	Open     int    `json:"open"`  // bytes written into an open message writer before the close (-1: no open writer)
	After    int    `json:"after"` // bytes written into it after the close
	Op       string `json:"op"`    // operation attempted after the close
	Size     int    `json:"size"`
	Via      string `json:"via,omitempty"` // how the Close frame is sent: "" = WriteControl, WriteMessage, Prepared, NextWriter
}

func runSeq(c SeqCase) error {
	out := &wsx.Sink{}
	in := bytes.NewReader(nil)
	cfg := wsx.Config{ReadBuf: 256, WriteBuf: c.WriteBuf}
	var conn *websocket.Conn
	var err error
	if c.Server {
		conn, _, _, err = wsx.NewServer(cfg, false, in, out)
	} else {
		conn, _, _, err = wsx.NewClient(cfg, false, in, out)
	}
	if err != nil {
		return err
	}
	skipHS := out.Len()
	var w interface {
		Write([]byte) (int, error)
		Close() error
	}
	if c.Open >= 0 {
		if w, err = conn.NextWriter(websocket.BinaryMessage); err != nil {
			return err
		}
		if _, err = w.Write(rtmpx.Fill(c.Open, 3)); err != nil {
			return fmt.Errorf("write before the close: %v", err)
		}
	}
	closeBody := websocket.FormatCloseMessage(1001, "bye")
	switch c.Via {
	case "WriteMessage":
		err = conn.WriteMessage(websocket.CloseMessage, closeBody)
	case "Prepared":
		var pm *websocket.PreparedMessage
		if pm, err = websocket.NewPreparedMessage(websocket.CloseMessage, closeBody); err == nil {
			err = conn.WritePreparedMessage(pm)
		}
	case "NextWriter":
		var cw io.WriteCloser
		if cw, err = conn.NextWriter(websocket.CloseMessage); err == nil {
			if _, err = cw.Write(closeBody); err == nil {
				err = cw.Close()
			}
		}
	default:
		err = conn.WriteControl(websocket.CloseMessage, closeBody, time.Time{})
	}
	if err != nil {
		return fmt.Errorf("sending the Close frame (%s): %v", c.Via, err)
	}
	if c.Open >= 0 {
		// an unfinished message precedes the Close: the stream is judged by the histories check
	} else if fr, perr := wsref.ParseStrict(out.Bytes(skipHS), wsref.StrictOpts{FromClient: !c.Server}); perr != nil || len(fr) == 0 || fr[len(fr)-1].Op != 8 {
		return fmt.Errorf("the Close sent through %q is not on the wire as a close frame (err %v)", c.Via, perr)
	}
	mark := out.Len()
	if w != nil {
		_, e1 := w.Write(rtmpx.Fill(c.After, 4))
		e2 := w.Close()
		if e1 != websocket.ErrCloseSent && e2 != websocket.ErrCloseSent {
			return fmt.Errorf("message writer opened before the close: Write returned %v, Close returned %v; want ErrCloseSent", e1, e2)
		}
	}
	p := rtmpx.Fill(c.Size, 5)
	var e error
	switch c.Op {
	case "WriteMessage":
		e = conn.WriteMessage(websocket.TextMessage, p)
	case "NextWriter":
		var nw interface {
			Write([]byte) (int, error)
			Close() error
		}
		nw, e = conn.NextWriter(websocket.BinaryMessage)
		if e == nil {
			if _, e = nw.Write(p); e == nil {
				e = nw.Close()
			}
		}
	case "WriteJSON":
		e = conn.WriteJSON(map[string]int{"a": c.Size})
	case "Prepared":
		pm, _ := websocket.NewPreparedMessage(websocket.BinaryMessage, p)
		e = conn.WritePreparedMessage(pm)
	case "Ping":
		e = conn.WriteControl(websocket.PingMessage, []byte("x"), time.Time{})
	case "Pong":
		e = conn.WriteControl(websocket.PongMessage, nil, time.Time{})
	case "Close":
		e = conn.WriteControl(websocket.CloseMessage, nil, time.Time{})
	case "WriteMessageClose":
		e = conn.WriteMessage(websocket.CloseMessage, websocket.FormatCloseMessage(1000, ""))
	}
	if e != websocket.ErrCloseSent {
		return fmt.Errorf("%s after a sent Close returned %v, want ErrCloseSent", c.Op, e)
	}
	if out.Len() != mark {
		return fmt.Errorf("%d bytes reached the wire after the Close frame (%s)", out.Len()-mark, c.Op)
	}
	return nil
}

func TestAfterClose(t *testing.T) {
	rec := ev.New(prop, "after-close", "deterministic: both roles x write buffer {16,256} x open message writer {none, 0, 5, buf+5 bytes buffered} x bytes written after the close {0,3,2buf} x "+
		"operation {WriteMessage, NextWriter, WriteJSON, Prepared, Ping, Pong, Close, WriteMessage(Close)} x size {0,1,3buf} x Close sent through {WriteControl, WriteMessage, prepared message, NextWriter}: every one returns ErrCloseSent and no byte follows the Close frame; all non-trivial")
	rec.Exhaustive()
	for _, server := range []bool{true, false} {
		for _, wb := range []int{16, 256} {
			for _, open := range []int{-1, 0, 5, wb + 5} {
				for _, after := range []int{0, 3, 2 * wb} {
					if open < 0 && after != 0 {
						continue
					}
					for _, op := range []string{"WriteMessage", "NextWriter", "WriteJSON", "Prepared", "Ping", "Pong", "Close", "WriteMessageClose"} {
						for _, size := range []int{0, 1, 3 * wb} {
							vias := []string{""}
							if open < 0 {
								vias = []string{"", "WriteMessage", "Prepared", "NextWriter"}
							}
							for _, via := range vias {
								c := SeqCase{server, wb, open, after, op, size, via}
								err := ev.Try(func() error { return runSeq(c) })
								rec.Case(true, ev.Hash(c), nil, func() any { return c })
								if err != nil {
									fail(t, "after-close", c, err)
								}
							}
						}
					}
				}
			}
		}
	}
}

// ---------------------------------------------------------------- a control sender gives up waiting for the writer

// LCase: the data writer is held inside a transport write (slow peer); Timeouts control frames
// with a short deadline give up waiting for it; then one more control frame (Op) is sent without
// a deadline and must wait for the data frame to be complete.
type LCase struct {
	Server   bool `json:"server"`
	WriteBuf int  `json:"write_buf"`
	Size     int  `json:"size"`
	Timeouts int  `json:"timeouts"`
	Op       int  `json:"op"` // 9 ping, 10 pong, 8 close
}

type holdWriter struct {
	mu      sync.Mutex
	calls   int
	holdAt  int
	entered chan struct{}
	resume  chan struct{}
	inside  int32
	overlap int32
	log     bytes.Buffer
}

func (h *holdWriter) Write(p []byte) (int, error) {
	if atomic.AddInt32(&h.inside, 1) != 1 {
		atomic.StoreInt32(&h.overlap, 1)
	}
	defer atomic.AddInt32(&h.inside, -1)
	h.mu.Lock()
	idx := h.calls
	h.calls++
	h.mu.Unlock()
	if idx == h.holdAt {
		close(h.entered)
		<-h.resume
	}
	h.mu.Lock()
	h.log.Write(p)
	h.mu.Unlock()
	return len(p), nil
}

func runLock(c LCase) error {
	h := &holdWriter{entered: make(chan struct{}), resume: make(chan struct{})}
	out := &wsx.Sink{}
	cfg := wsx.Config{ReadBuf: 256, WriteBuf: c.WriteBuf}
	var conn *websocket.Conn
	var nc *wsx.Conn
	var err error
	if c.Server {
		conn, nc, _, err = wsx.NewServer(cfg, false, bytes.NewReader(nil), out)
	} else {
		conn, nc, _, err = wsx.NewClient(cfg, false, bytes.NewReader(nil), out)
	}
	if err != nil {
		return fmt.Errorf("handshake: %v", err)
	}
	nc.W = h.Write
	payload := rtmpx.Fill(c.Size, 0x77)
	var wg sync.WaitGroup
	var dataErr, ctlErr error
	earlyOK := 0
	wg.Add(1)
	go func() {
		defer wg.Done()
		dataErr = conn.WriteMessage(websocket.BinaryMessage, payload)
	}()
	select {
	case <-h.entered:
	case <-time.After(20 * time.Second):
		return fmt.Errorf("harness: the data writer never reached the transport")
	}
	// the writer is inside the transport and holds the connection's write lock
	for i := 0; i < c.Timeouts; i++ {
		// (this library gives up with a timeout error; an implementation that queues the frame and returns nil is
		// not excluded by the statement - either way the wire must stay whole)
		if e := conn.WriteControl(websocket.PingMessage, []byte("gives up"), time.Now().Add(3*time.Millisecond)); e == nil {
			earlyOK++
		}
	}
	wg.Add(1)
	go func() {
		defer wg.Done()
		body := []byte("waits")
		if c.Op == websocket.CloseMessage {
			body = websocket.FormatCloseMessage(1000, "")
		}
		ctlErr = conn.WriteControl(c.Op, body, time.Time{})
	}()
	time.Sleep(15 * time.Millisecond) // room for a sender that does not wait (it has to, until the frame is complete)
	close(h.resume)
	if !waitTimeout(&wg, 20*time.Second) {
		return fmt.Errorf("stall: the data writer or the waiting control sender did not return within 20s after the transport write completed")
	}
	if ctlErr != nil || (dataErr != nil && !(c.Op == websocket.CloseMessage && dataErr == websocket.ErrCloseSent)) {
		return fmt.Errorf("data write returned %v, the waiting control frame %v", dataErr, ctlErr)
	}
	if atomic.LoadInt32(&h.overlap) == 1 {
		return fmt.Errorf("two goroutines were inside the transport's Write at the same time")
	}
	h.mu.Lock()
	wire := append([]byte(nil), h.log.Bytes()...)
	h.mu.Unlock()
	// whole frames only: the control frame may go between two frames of the message, never inside one
	var data []byte
	ctl, fin, closed := 0, false, false
	for off := 0; off < len(wire); {
		f, n, minimal, e := wsref.ParseOne(wire[off:])
		if e != nil || !minimal || f.RSV != 0 || f.Masked == c.Server {
			return fmt.Errorf("wire is not a sequence of whole frames at offset %d of %d (a control frame inside a data frame?): %v", off, len(wire), e)
		}
		if closed {
			return fmt.Errorf("a frame (op %d) follows the Close frame", f.Op)
		}
		switch {
		case f.Op == 2 && len(data) == 0 && !fin, f.Op == 0 && !fin:
			data = append(data, f.Payload...)
			fin = f.Fin
		case int(f.Op) == c.Op && f.Fin, f.Op == 9 && f.Fin && string(f.Payload) == "gives up":
			ctl++
			closed = f.Op == 8
		default:
			return fmt.Errorf("unexpected frame on the wire at offset %d: op %d fin %v with %d bytes", off, f.Op, f.Fin, len(f.Payload))
		}
		off += n
	}
	if ctl < 1 || ctl > 1+earlyOK {
		return fmt.Errorf("%d control frames on the wire, want the one that waited (and at most the %d whose call returned nil)", ctl, earlyOK)
	}
	if dataErr == nil && !(fin && bytes.Equal(data, payload)) {
		return fmt.Errorf("the data write returned nil, the wire holds %d of its %d bytes (complete: %v)", len(data), len(payload), fin)
	}
	if !bytes.HasPrefix(payload, data) {
		return fmt.Errorf("the data frames on the wire do not carry the message written")
	}
	return nil
}

func TestLockTimeout(t *testing.T) {
	rec := ev.New(prop, "lock-wait-timeout", "deterministic schedule owned by the harness: the data writer is held inside its first transport write; 1-3 control frames with a 3 ms deadline give up waiting; "+
		"one more control frame {ping, pong, close} without deadline must wait; both roles x write buffer {16, 256} x message size {buf/2, buf+1, 3buf}; oracle: no overlap in the transport, wire = whole frames holding the intact data message and that one control frame, "+
		"nobody hangs; all non-trivial")
	rec.Exhaustive()
	for _, server := range []bool{true, false} {
		for _, wb := range []int{16, 256} {
			for _, size := range []int{wb / 2, wb + 1, 3 * wb} {
				for timeouts := 1; timeouts <= 3; timeouts++ {
					for _, op := range []int{9, 10, 8} {
						c := LCase{server, wb, size, timeouts, op}
						ev.Current(prop, "lock-wait-timeout", c)
						err := ev.Try(func() error { return runLock(c) })
						rec.Case(true, ev.Hash(c), nil, func() any { return c })
						if err != nil {
							fail(t, "lock-wait-timeout", c, err)
						}
					}
				}
			}
		}
	}
}

func replayers() map[string]ev.Replayer {
	f := func(raw json.RawMessage) error {
		var c Case
		if err := json.Unmarshal(raw, &c); err != nil {
			return err
		}
		_, e := runCase(c)
		return e
	}
	return map[string]ev.Replayer{"histories": f, "process": f,
		"after-close": func(raw json.RawMessage) error {
			var c SeqCase
			if err := json.Unmarshal(raw, &c); err != nil {
				return err
			}
			return runSeq(c)
		},
		"lock-wait-timeout": func(raw json.RawMessage) error {
			var c LCase
			if err := json.Unmarshal(raw, &c); err != nil {
				return err
			}
			return runLock(c)
		}}
}

func TestRegress(t *testing.T) { ev.Regress(t, prop, replayers()) }
func TestReplay(t *testing.T) {
	if os.Getenv("VERIF_REPLAY") == "" {
		t.Skip("no VERIF_REPLAY")
	}
	ev.Replay(t, prop, replayers())
}
