// C13: WebSocket messages arrive intact, in order, on an RFC 6455-valid wire. Endpoints are a
// library client and a library server connected through the library's own opening handshake.
package c13

import (
	"bytes"
	"encoding/json"
	"fmt"
	"io"
	"os"
	"reflect"
	"testing"
	"time"

	"github.com/ossrs/go-oryx-lib/websocket"
	"pgregory.net/rapid"
	"verif/harness/internal/ev"
	"verif/harness/internal/ref/wsref"
	"verif/harness/internal/rtmpx"
	"verif/harness/internal/wsx"
	"verif/harness/internal/xport"
)

const prop = "C13"

func TestMain(m *testing.M) { ev.Main(m) }

type fataler interface{ Fatalf(string, ...any) }

func fail(t fataler, check string, c any, err error) {
	p := ev.Fail(prop, check, c, err)
	t.Fatalf("%v (replay %s)", err, p)
}

type Msg struct {
	From    int    `json:"from"` // 0: client -> server, 1: server -> client
	Type    int    `json:"type"` // 1 text, 2 binary
	Size    int    `json:"size"`
	Fill    uint64 `json:"fill"`
	Flat    bool   `json:"flat,omitempty"` // compressible content (repeating) instead of pseudo-random
	API     string `json:"api"`            // WriteMessage NextWriter WriteString ReadFrom Prepared JSON
	Parts   []int  `json:"parts,omitempty"`
	Read    string `json:"read"` // ReadMessage NextReader
	RdParts []int  `json:"rd_parts,omitempty"`
	Comp    int    `json:"comp,omitempty"`     // 0 leave, 1 EnableWriteCompression(true), 2 (false)
	Level   int    `json:"level,omitempty"`    // 100 = leave; else SetCompressionLevel(level)
	Ping    int    `json:"ping,omitempty"`     // >0: the sender first sends a ping of Ping-1 bytes
	Both    bool   `json:"both,omitempty"`     // Prepared: the same prepared message is also sent in the other direction
	DataEOF bool   `json:"data_eof,omitempty"` // ReadFrom: the source returns its last bytes together with io.EOF
	// Idle: before this message a long time passes on both connections (longer than any timeout in use):
	// a deadline left over from the handshake, a ping or an automatic pong would now have expired
	Idle bool `json:"idle,omitempty"`
	// PingDeadline: the ping is written with a write deadline (an hour ahead) instead of none
	PingDeadline bool `json:"ping_deadline,omitempty"`
}

type Case struct {
	Client wsx.Config `json:"client"`
	Server wsx.Config `json:"server"`
	Msgs   []Msg      `json:"msgs"`
	// First: sizes of the messages the server sends right after Upgrade, before the client has
	// read the handshake response (they share the transport read with the response)
	First []int `json:"first,omitempty"`
}

func (m Msg) payload() []byte {
	if m.API == "JSON" {
		b, _ := json.Marshal(m.jsonValue())
		return append(b, '\n')
	}
	if m.Flat {
		b := make([]byte, m.Size)
		for i := range b {
			b[i] = "websocket "[i%10]
		}
		return b
	}
	return rtmpx.Fill(m.Size, m.Fill|1)
}

func (m Msg) jsonValue() any {
	s := make([]byte, m.Size)
	for i := range s {
		s[i] = "abcdefghijklmnopqrstuvwxyz\"\\<é"[(int(m.Fill%7)+i)%30]
	}
	return map[string]any{"n": float64(m.Fill % 1000), "s": string(bytes.ToValidUTF8(s, []byte("?"))), "l": []any{true, nil}}
}

var zeroTime time.Time

type sent struct {
	typ     int
	payload []byte
}

type stats struct {
	multiFrame, len16, len64, compressed, partial, prepared, jsonAPI, readFrom, serverFirst, abandoned, partialRead bool
	idle                                                                                                            bool
}

func write(c *websocket.Conn, m Msg, p []byte, pm *websocket.PreparedMessage) error {
	switch m.API {
	case "WriteMessage":
		return c.WriteMessage(m.Type, p)
	case "Prepared":
		return c.WritePreparedMessage(pm)
	case "JSON":
		return c.WriteJSON(m.jsonValue())
	}
	w, err := c.NextWriter(m.Type)
	if err != nil {
		return fmt.Errorf("NextWriter: %v", err)
	}
	if m.API == "Abandon" {
		// documented: "NextWriter closes the previous writer if the application has not already done so"
		if _, err := w.Write(p); err != nil {
			return fmt.Errorf("Write: %v", err)
		}
		w2, err := c.NextWriter(websocket.BinaryMessage)
		if err != nil {
			return fmt.Errorf("second NextWriter: %v", err)
		}
		if _, err := w2.Write([]byte{0x7e}); err != nil {
			return err
		}
		return w2.Close()
	}
	switch m.API {
	case "NextWriter":
		rest := p
		if len(rest) == 0 {
			if _, err := w.Write(nil); err != nil {
				return err
			}
		}
		for i := 0; len(rest) > 0; i++ {
			n := len(rest)
			if len(m.Parts) > 0 {
				if k := m.Parts[i%len(m.Parts)]; k >= 1 && k < n {
					n = k
				}
			}
			k, err := w.Write(rest[:n])
			if err != nil || k != n {
				return fmt.Errorf("Write(%d bytes) = %d, %v", n, k, err)
			}
			rest = rest[n:]
		}
	case "WriteString":
		if _, err := io.WriteString(w, string(p)); err != nil {
			return fmt.Errorf("WriteString: %v", err)
		}
	case "ReadFrom":
		var r io.Reader = &xport.SegReader{R: bytes.NewReader(p), Sched: m.Parts}
		if m.DataEOF {
			r = &xport.DataEOFReader{B: append([]byte(nil), p...), Sched: m.Parts}
		}
		if n, err := io.Copy(w, r); err != nil || n != int64(len(p)) {
			return fmt.Errorf("io.Copy = %d, %v", n, err)
		}
	default:
		return fmt.Errorf("harness: api %q", m.API)
	}
	return w.Close()
}

func read(c *websocket.Conn, m Msg) (int, []byte, error) {
	if m.API == "JSON" && m.Read == "ReadJSON" {
		var v any
		if err := c.ReadJSON(&v); err != nil {
			return 0, nil, fmt.Errorf("ReadJSON: %v", err)
		}
		if !reflect.DeepEqual(v, m.jsonValue()) {
			return 0, nil, fmt.Errorf("ReadJSON value differs from the value written")
		}
		return websocket.TextMessage, m.payload(), nil
	}
	if m.Read == "Partial" {
		mt, r, err := c.NextReader()
		if err != nil {
			return 0, nil, fmt.Errorf("NextReader: %v", err)
		}
		k := 1
		if len(m.RdParts) > 0 {
			k = m.RdParts[0]
		}
		buf := make([]byte, k)
		n, err := io.ReadFull(r, buf)
		if err != nil && err != io.EOF && err != io.ErrUnexpectedEOF {
			return mt, buf[:n], fmt.Errorf("partial read: %v", err)
		}
		return mt, buf[:n], nil
	}
	if m.Read == "NextReader" {
		mt, r, err := c.NextReader()
		if err != nil {
			return 0, nil, fmt.Errorf("NextReader: %v", err)
		}
		var out []byte
		for i := 0; ; i++ {
			n := 512
			if len(m.RdParts) > 0 {
				n = m.RdParts[i%len(m.RdParts)]
				if n < 1 {
					n = 1
				}
			}
			buf := make([]byte, n)
			k, err := r.Read(buf)
			out = append(out, buf[:k]...)
			if err == io.EOF {
				return mt, out, nil
			}
			if err != nil {
				return mt, out, fmt.Errorf("message reader: %v after %d bytes", err, len(out))
			}
		}
	}
	return c.ReadMessage()
}

func runCase(c Case) (st stats, err error) {
	firstPayload := func(i int) []byte { return rtmpx.Fill(c.First[i], uint64(i)+0x51) }
	p, err := wsx.NewPairHook(c.Client, c.Server, func(server *websocket.Conn) error {
		for i := range c.First {
			if e := server.WriteMessage(websocket.BinaryMessage, firstPayload(i)); e != nil {
				return fmt.Errorf("server's first message %d: %v", i, e)
			}
		}
		return nil
	})
	if err != nil {
		return st, fmt.Errorf("handshake: %v", err)
	}
	negotiated := c.Client.Compression && c.Server.Compression
	if e := p.HS.Check(negotiated); e != nil {
		return st, e
	}
	conns := [2]*websocket.Conn{p.Client, p.Server}
	var log [2][]sent
	var pings [2][][]byte
	for i := range c.First {
		want := firstPayload(i)
		log[1] = append(log[1], sent{websocket.BinaryMessage, want})
		gt, gp, e := p.Client.ReadMessage()
		if e != nil || gt != websocket.BinaryMessage || !bytes.Equal(gp, want) {
			return st, fmt.Errorf("message %d sent by the server right after the handshake: client got type %d, %d bytes, err %v (want %d bytes)", i, gt, len(gp), e, len(want))
		}
		st.serverFirst = true
	}
	for i, m := range c.Msgs {
		s, r := conns[m.From], conns[1-m.From]
		switch m.Comp {
		case 1:
			s.EnableWriteCompression(true)
		case 2:
			s.EnableWriteCompression(false)
		}
		if m.Level != 100 {
			if e := s.SetCompressionLevel(m.Level); e != nil {
				return st, fmt.Errorf("msg %d: SetCompressionLevel(%d): %v", i, m.Level, e)
			}
		}
		if m.Idle {
			p.ClientNC.Elapse()
			p.ServerNC.Elapse()
			st.idle = true
		}
		if m.Ping > 0 {
			pp := rtmpx.Fill(m.Ping-1, uint64(i)+3)
			dl := zeroTime
			if m.PingDeadline {
				dl = time.Now().Add(time.Hour)
			}
			if e := s.WriteControl(websocket.PingMessage, pp, dl); e != nil {
				return st, fmt.Errorf("msg %d: WriteControl(ping): %v", i, e)
			}
			pings[m.From] = append(pings[m.From], pp)
		}
		payload := m.payload()
		typ := m.Type
		if m.API == "JSON" {
			typ = websocket.TextMessage
			st.jsonAPI = true
		}
		var pm *websocket.PreparedMessage
		if m.API == "Prepared" {
			st.prepared = true
			if pm, err = websocket.NewPreparedMessage(m.Type, payload); err != nil {
				return st, fmt.Errorf("msg %d: NewPreparedMessage: %v", i, err)
			}
		}
		if m.API == "ReadFrom" {
			st.readFrom = true
		}
		if (m.API == "NextWriter" || m.API == "ReadFrom") && len(m.Parts) > 0 {
			st.partial = true
		}
		if e := ev.Try(func() error { return write(s, m, payload, pm) }); e != nil {
			return st, fmt.Errorf("msg %d (%s, %d bytes, from %d): write: %v", i, m.API, len(payload), m.From, e)
		}
		log[m.From] = append(log[m.From], sent{typ, payload})
		gt, gp, e := read(r, m)
		if e != nil {
			return st, fmt.Errorf("msg %d (%s, %d bytes, from %d): read: %v", i, m.API, len(payload), m.From, e)
		}
		wantGot := payload
		if m.Read == "Partial" && len(gp) < len(payload) {
			wantGot = payload[:len(gp)] // the application stopped reading early; the rest is discarded by the next NextReader
			st.partialRead = true
		}
		if gt != typ || !bytes.Equal(gp, wantGot) {
			return st, fmt.Errorf("msg %d (%s, from %d): received type %d with %d bytes, sent type %d with %d bytes (first difference at %d)", i, m.API, m.From, gt, len(gp), typ, len(payload), firstDiff(gp, payload))
		}
		if m.API == "Abandon" {
			log[m.From] = append(log[m.From], sent{websocket.BinaryMessage, []byte{0x7e}})
			gt, gp, e := r.ReadMessage()
			if e != nil || gt != websocket.BinaryMessage || !bytes.Equal(gp, []byte{0x7e}) {
				return st, fmt.Errorf("msg %d: message after an abandoned writer: type %d, %d bytes, err %v", i, gt, len(gp), e)
			}
			st.abandoned = true
		}
		if m.API == "Prepared" && m.Both {
			if e := r.WritePreparedMessage(pm); e != nil {
				return st, fmt.Errorf("msg %d: WritePreparedMessage (other role): %v", i, e)
			}
			log[1-m.From] = append(log[1-m.From], sent{typ, payload})
			gt, gp, e := s.ReadMessage()
			if e != nil || gt != typ || !bytes.Equal(gp, payload) {
				return st, fmt.Errorf("msg %d: prepared message sent by the other role: type %d, %d bytes, err %v", i, gt, len(gp), e)
			}
		}
	}
	// the wire of each direction under the strict RFC parser
	wires := [2][]byte{p.ClientOut.Bytes(p.ClientSkip), p.ServerOut.Bytes(p.ServerSkip)}
	for d := 0; d < 2; d++ {
		msgs, perr := wsref.ParseStrict(wires[d], wsref.StrictOpts{FromClient: d == 0, Compression: negotiated})
		if perr != nil {
			return st, fmt.Errorf("wire of direction %d is not RFC 6455-valid: %v", d, perr)
		}
		var data []wsref.Message
		var gotPings [][]byte
		for _, m := range msgs {
			switch m.Op {
			case 1, 2:
				data = append(data, m)
			case 9:
				gotPings = append(gotPings, m.Payload)
			}
		}
		if len(data) != len(log[d]) {
			return st, fmt.Errorf("direction %d: %d data messages on the wire, %d were written", d, len(data), len(log[d]))
		}
		for i, m := range data {
			if int(m.Op) != log[d][i].typ || !bytes.Equal(m.Payload, log[d][i].payload) {
				return st, fmt.Errorf("direction %d message %d: wire carries type %d with %d bytes (compressed=%v), written type %d with %d bytes", d, i, m.Op, len(m.Payload), m.Compressed, log[d][i].typ, len(log[d][i].payload))
			}
			if m.Frames > 1 {
				st.multiFrame = true
			}
			if m.Compressed {
				st.compressed = true
			}
		}
		if len(gotPings) != len(pings[d]) {
			return st, fmt.Errorf("direction %d: %d pings on the wire, %d sent", d, len(gotPings), len(pings[d]))
		}
		// length forms seen
		off := 0
		for off < len(wires[d]) {
			f, n, _, e := wsref.ParseOne(wires[d][off:])
			if e != nil {
				break
			}
			off += n
			if f.LenForm == 16 {
				st.len16 = true
			}
			if f.LenForm == 64 {
				st.len64 = true
			}
		}
	}
	return st, nil
}

func firstDiff(a, b []byte) int {
	for i := 0; i < len(a) && i < len(b); i++ {
		if a[i] != b[i] {
			return i
		}
	}
	return min(len(a), len(b))
}

// ---------------------------------------------------------------- generator

var bufClasses = []int{0, 1, 16, 125, 126, 512, 4096, 65536}

func genConfig(t *rapid.T, comp bool) wsx.Config {
	return wsx.Config{ReadBuf: rapid.SampledFrom(bufClasses).Draw(t, "rbuf"), WriteBuf: rapid.SampledFrom(bufClasses).Draw(t, "wbuf"),
		BrwRead: rapid.SampledFrom([]int{64, 256, 4096}).Draw(t, "brwr"), BrwWrite: rapid.SampledFrom([]int{64, 270, 300, 4096}).Draw(t, "brww"), Compression: comp}
}

func effWriteBuf(c wsx.Config, server bool) int {
	if c.WriteBuf != 0 {
		return c.WriteBuf
	}
	if server && c.BrwWrite >= 270 {
		return c.BrwWrite - 14
	}
	return 4096
}

func genCase(t *rapid.T) Case {
	ck, sk := rapid.IntRange(0, 3).Draw(t, "ccomp") > 0, rapid.IntRange(0, 3).Draw(t, "scomp") > 0
	c := Case{Client: genConfig(t, ck), Server: genConfig(t, sk)}
	c.Client.HandshakeTimeout = rapid.SampledFrom([]time.Duration{0, 45 * time.Second, time.Hour}).Draw(t, "hstimeout")
	c.Server.HandshakeTimeout = rapid.SampledFrom([]time.Duration{0, 45 * time.Second, time.Hour}).Draw(t, "hstimeouts")
	if rapid.IntRange(0, 3).Draw(t, "first") == 0 {
		c.First = rapid.SliceOfN(rapid.SampledFrom([]int{0, 1, 125, 126, 300, 5000}), 1, 3).Draw(t, "firstsizes")
	}
	n := rapid.IntRange(1, 10).Draw(t, "nmsg")
	for i := 0; i < n; i++ {
		m := Msg{From: rapid.IntRange(0, 1).Draw(t, "from"), Type: rapid.IntRange(1, 2).Draw(t, "type"), Fill: rapid.Uint64().Draw(t, "fill"),
			Flat: rapid.Bool().Draw(t, "flat"), Level: 100}
		m.API = rapid.SampledFrom([]string{"WriteMessage", "WriteMessage", "NextWriter", "NextWriter", "WriteString", "ReadFrom", "Prepared", "JSON", "Abandon"}).Draw(t, "api")
		cfg := c.Client
		if m.From == 1 {
			cfg = c.Server
		}
		buf := effWriteBuf(cfg, m.From == 1)
		cands := []int{0, 1, 125, 126, 127, buf - 1, buf, buf + 1, 2 * buf, 2*buf + 1, 3*buf + 5, 65535, 65536, 65537}
		if ev.Thorough() && buf >= 512 && rapid.IntRange(0, 60).Draw(t, "huge") == 0 {
			cands = []int{1 << 20, 3<<20 + 7} // multi-MiB messages (with write buffers that keep the frame count sane)
		}
		if rapid.IntRange(0, 3).Draw(t, "sizek") == 0 {
			m.Size = rapid.IntRange(0, 2000).Draw(t, "sizeu")
		} else {
			m.Size = rapid.SampledFrom(cands).Draw(t, "sizec")
		}
		if m.Size < 0 {
			m.Size = 0
		}
		if max := buf * 400; m.Size > max && (m.Size < 1<<20 || buf < 512) {
			m.Size = max // keeps the number of frames of one message bounded for tiny buffers
		}
		if m.API == "JSON" && m.Size > 5000 {
			m.Size = 5000
		}
		switch m.API {
		case "NextWriter", "ReadFrom":
			if rapid.IntRange(0, 4).Draw(t, "hasparts") > 0 {
				m.Parts = rapid.SliceOfN(rapid.SampledFrom([]int{1, 2, 7, buf - 1, buf, buf + 1, 2*buf + 1, 100, 1000}), 1, 5).Draw(t, "parts")
				for j := range m.Parts {
					if m.Parts[j] < 1 {
						m.Parts[j] = 1
					}
					if m.Size/m.Parts[j] > 3000 {
						m.Parts[j] = m.Size/3000 + 1
					}
				}
			}
		case "Prepared":
			m.Both = rapid.Bool().Draw(t, "both")
		}
		if m.API == "ReadFrom" {
			m.DataEOF = rapid.Bool().Draw(t, "dataeof")
		}
		m.Read = rapid.SampledFrom([]string{"ReadMessage", "ReadMessage", "NextReader", "Partial"}).Draw(t, "read")
		if m.API == "JSON" && rapid.Bool().Draw(t, "rdjson") {
			m.Read = "ReadJSON"
		}
		if m.Read == "NextReader" || m.Read == "Partial" {
			m.RdParts = rapid.SliceOfN(rapid.SampledFrom([]int{1, 3, 64, 125, 126, 4096, 70000}), 1, 4).Draw(t, "rdparts")
			for j := range m.RdParts {
				if m.Size/m.RdParts[j] > 5000 {
					m.RdParts[j] = m.Size/5000 + 1
				}
			}
		}
		m.Comp = rapid.SampledFrom([]int{0, 0, 0, 1, 2}).Draw(t, "compk")
		if rapid.IntRange(0, 2).Draw(t, "levelk") == 0 {
			m.Level = rapid.IntRange(-2, 9).Draw(t, "level")
		}
		if rapid.IntRange(0, 4).Draw(t, "pingk") == 0 {
			m.Ping = 1 + rapid.SampledFrom([]int{0, 1, 124, 125}).Draw(t, "pinglen")
			m.PingDeadline = rapid.Bool().Draw(t, "pingdl")
		}
		m.Idle = rapid.IntRange(0, 3).Draw(t, "idle") == 0
		c.Msgs = append(c.Msgs, m)
	}
	return c
}

var recSession = ev.New(prop, "sessions",
	"rapid-generated sessions between a library client and a library server (handshake through Dial/Upgrade; compression offered/accepted independently; read/write buffer sizes {0,1,16,125,126,512,4096,65536} and "+
		"hijacked-buffer sizes drawn): <=10 text/binary messages in both directions, sizes around 0/125/126/65535/65536 and the write buffer size and its multiples (MiB sizes in the thorough tier), written through "+
		"WriteMessage / NextWriter+Write with a drawn partition / io.WriteString / io.Copy(ReadFrom) with drawn read sizes / WritePreparedMessage (also to both roles) / WriteJSON, compression toggled and levels -2..9 "+
		"set between messages, pings interleaved (with or without a write deadline), long idle periods on a harness-owned clock (a deadline left armed from the handshake timeout, a ping or an automatic pong then fails the next read/write), read through ReadMessage / NextReader with drawn read sizes / ReadJSON; oracle: peer receives the same (type,payload) sequence AND each direction's sniffed bytes "+
		"pass the strict RFC 6455/7692 parser and reassemble/inflate to what was written AND the handshake response carries the RFC accept key/extension parameters; "+
		"non-trivial = a multi-frame or compressed message, a 16/64-bit length, or partial writes").
	Require("multi-frame", "len16", "len64", "compressed", "partial-writes", "prepared", "json", "read-from", "negotiated", "not-negotiated", "server-speaks-first", "abandoned-writer", "partial-read", "idle-time-passes", "idle-after-handshake-timeout")

// TestSideBySide: independent connections (each case = one client/server pair) on several goroutines at once.
func TestSideBySide(t *testing.T) {
	ev.Parallel(t, prop, "side-by-side", 4, 200, 64, func(t *rapid.T) Case {
		c := genCase(t)
		for i := range c.Msgs {
			c.Msgs[i].Size = min(c.Msgs[i].Size, 200000) // dozens of connections are alive at once: keep each small
		}
		return c
	}, func(c Case) error { _, e := runCase(c); return e })
}

func TestSessions(t *testing.T) {
	ev.Rapid(t, "sessions", 5000, 100000, func(t *rapid.T) {
		c := genCase(t)
		var st stats
		err := ev.Try(func() error {
			var e error
			st, e = runCase(c)
			return e
		})
		var cl []string
		add := func(b bool, s string) {
			if b {
				cl = append(cl, s)
			}
		}
		add(st.multiFrame, "multi-frame")
		add(st.len16, "len16")
		add(st.len64, "len64")
		add(st.compressed, "compressed")
		add(st.partial, "partial-writes")
		nt := len(cl) > 0
		add(st.prepared, "prepared")
		add(st.jsonAPI, "json")
		add(st.readFrom, "read-from")
		add(st.serverFirst, "server-speaks-first")
		add(st.abandoned, "abandoned-writer")
		add(st.partialRead, "partial-read")
		add(st.idle, "idle-time-passes")
		add(st.idle && c.Client.HandshakeTimeout != 0, "idle-after-handshake-timeout")
		add(c.Client.Compression && c.Server.Compression, "negotiated")
		add(!(c.Client.Compression && c.Server.Compression), "not-negotiated")
		recSession.Case(nt, ev.Hash(c), cl, func() any { return brief(c) })
		if err != nil {
			fail(t, "sessions", c, err)
		}
	})
}

func brief(c Case) any {
	var ms []string
	for _, m := range c.Msgs {
		ms = append(ms, fmt.Sprintf("%d:%s/%d%s", m.From, m.API, m.Size, map[bool]string{true: "+parts", false: ""}[len(m.Parts) > 0]))
	}
	return map[string]any{"client": c.Client, "server": c.Server, "msgs": ms}
}

// TestSizeSweep: deterministic sweep of sizes around every length-form and buffer boundary, per API and role.
func TestSizeSweep(t *testing.T) {
	rec := ev.New(prop, "size-sweep", "deterministic sweep: write buffer {16,126,512} x compression {off,on} x direction x API {WriteMessage,NextWriter,ReadFrom,Prepared} x size in "+
		"{0,1,124..127,buf-1..buf+1,2buf-1..2buf+1,65534..65537}; same oracle as 'sessions'; all non-trivial")
	rec.Exhaustive()
	for _, wb := range []int{16, 126, 512} {
		for _, comp := range []bool{false, true} {
			for from := 0; from < 2; from++ {
				for _, api := range []string{"WriteMessage", "NextWriter", "ReadFrom", "Prepared"} {
					var sizes []int
					for _, s := range []int{0, 1, 124, 125, 126, 127, wb - 1, wb, wb + 1, 2*wb - 1, 2 * wb, 2*wb + 1, 65534, 65535, 65536, 65537} {
						if wb == 16 && s > 60000 {
							continue
						}
						sizes = append(sizes, s)
					}
					var c Case
					c.Client = wsx.Config{ReadBuf: 256, WriteBuf: wb, Compression: comp}
					c.Server = wsx.Config{ReadBuf: 256, WriteBuf: wb, Compression: comp}
					for i, s := range sizes {
						c.Msgs = append(c.Msgs, Msg{From: from, Type: 1 + i%2, Size: s, Fill: uint64(s + 1), Flat: i%3 == 0, API: api, Parts: []int{wb + 1, 3}, Read: "ReadMessage", Level: 100, DataEOF: i%2 == 1})
					}
					err := ev.Try(func() error { _, e := runCase(c); return e })
					rec.Case(true, ev.Hash(c), nil, func() any { return brief(c) })
					if err != nil {
						fail(t, "sessions", c, err)
					}
				}
			}
		}
	}
}

func replayers() map[string]ev.Replayer {
	f := func(raw json.RawMessage) error {
		var c Case
		if err := json.Unmarshal(raw, &c); err != nil {
			return err
		}
		_, e := runCase(c)
		return e
	}
	return map[string]ev.Replayer{"sessions": f, "side-by-side": f}
}

func TestRegress(t *testing.T) { ev.Regress(t, prop, replayers()) }
func TestReplay(t *testing.T) {
	if os.Getenv("VERIF_REPLAY") == "" {
		t.Skip("no VERIF_REPLAY")
	}
	ev.Replay(t, prop, replayers())
}
