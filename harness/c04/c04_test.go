// C04: request/response matching holds with a concurrent reader and writer. The harness owns the
// transport, so the order of transport events (request bytes handed over / response queued) is a
// generated schedule, including "the answer is processed before WritePacket has returned".
// Built with -race; a race report kills the process and the driver reports it.
package c04

import (
	"io"

	"encoding/json"
	"fmt"
	oe "github.com/ossrs/go-oryx-lib/errors"
	"math"
	"os"
	"sync"
	"testing"
	"time"

	"github.com/ossrs/go-oryx-lib/amf0"
	"github.com/ossrs/go-oryx-lib/rtmp"
	"pgregory.net/rapid"
	"verif/harness/internal/ev"
	"verif/harness/internal/ref/amf0ref"
	"verif/harness/internal/ref/rtmpref"
	"verif/harness/internal/xport"
)

const prop = "C04"

func TestMain(m *testing.M) { ev.Main(m) }

// Req is one request of the writer goroutine and where the peer's answer is placed.
type Req struct {
	Kind string  `json:"kind"` // connect | createStream
	Tid  float64 `json:"tid"`
	// Mode: inside = answer queued and decoded before the transport Write returns;
	// after = queued once WritePacket returned, writer waits for the decode;
	// free = a peer goroutine answers concurrently; defer = answered later (see Flush)
	Mode string `json:"mode"`
	Dup  bool   `json:"dup,omitempty"`  // the peer sends the answer twice
	Rej  bool   `json:"rej,omitempty"`  // the peer rejects the request: the answer is an _error response (a response all the same: matched once, never twice)
	AMF3 bool   `json:"amf3,omitempty"` // the peer answers with an AMF3 command message (type 17, leading 0 byte)
	Pad  int    `json:"pad,omitempty"`  // bytes of padding strings in the request's command object (a request larger than the writer's buffer reaches the transport in several Write calls)
}

type Case struct {
	Reqs []Req `json:"reqs"`
	// Flush[i]: after request i, inject that many deferred answers, picked by Pick (mod pending)
	Flush []int `json:"flush,omitempty"`
	Pick  []int `json:"pick,omitempty"`
	Other []int `json:"other,omitempty"` // request indices after which the peer also sends an unrelated onStatus call
	// ChunkSize != 0: the writer first announces and uses this outgoing chunk size
	ChunkSize uint32 `json:"chunk_size,omitempty"`
	// ErrLast: the transport takes every byte of the LAST request and still reports an error for that
	// write (n == len(p), err != nil): the request is with the peer, who answers it
	ErrLast bool `json:"err_last,omitempty"`
	// Typed: the reading goroutine waits for each response with ExpectPacket(&<its response type>) instead of ReadMessage+DecodeMessage
	Typed bool `json:"typed,omitempty"`
}

var errAfterFullWrite = fmt.Errorf("transport error reported after all bytes were taken")

type result struct {
	tid  float64
	typ  string // Go type of the decoded packet, or "error: ..."
	name string
}

type expect struct {
	tid  float64
	kind string // connectRes | createStreamRes | error | call
}

type harness struct {
	mu       sync.Mutex
	cond     *sync.Cond
	model    map[float64]string // requests whose bytes reached the transport, unanswered
	expected []expect
	results  []result
	rd       *xport.BlockPipe
	ch       *rtmpref.Chunker
	c        Case
	cur      int // index of the request being written
	peerCh   chan int
	inside   bool
	done     bool
	readErr  error
	dech     *rtmpref.Dechunker // independent view of what the writer has put on the wire
	tail     []byte
}

func responseBytes(ch *rtmpref.Chunker, kind string, tid float64, amf3 bool, rej ...bool) []byte {
	var vals []amf0ref.Val
	name := "_result"
	if len(rej) > 0 && rej[0] {
		name = "_error"
	}
	vals = append(vals, amf0ref.Val{K: amf0ref.String, Str: []byte(name)}, amf0ref.Val{K: amf0ref.Number, Num: math.Float64bits(tid)})
	if kind == "connect" {
		vals = append(vals, amf0ref.Val{K: amf0ref.Object, Props: []amf0ref.Prop{{Key: []byte("fmsVer"), Val: amf0ref.Val{K: amf0ref.String, Str: []byte("FMS/3,5,3,888")}}}},
			amf0ref.Val{K: amf0ref.Object, Props: []amf0ref.Prop{{Key: []byte("code"), Val: amf0ref.Val{K: amf0ref.String, Str: []byte("NetConnection.Connect.Success")}}}})
	} else {
		vals = append(vals, amf0ref.Val{K: amf0ref.Null}, amf0ref.Val{K: amf0ref.Number, Num: math.Float64bits(1)})
	}
	var p []byte
	for _, v := range vals {
		p = append(p, amf0ref.Encode(v, amf0ref.Lib)...)
	}
	if amf3 {
		return ch.Whole(rtmpref.Item{Cid: 3, Form: 1, Fmt: 0, Msg: rtmpref.Msg{Type: 17, Payload: append([]byte{0}, p...)}})
	}
	return ch.Whole(rtmpref.Item{Cid: 3, Form: 1, Fmt: 0, Msg: rtmpref.Msg{Type: 20, Payload: p}})
}

func otherBytes(ch *rtmpref.Chunker) []byte {
	var p []byte
	for _, v := range []amf0ref.Val{{K: amf0ref.String, Str: []byte("onStatus")}, {K: amf0ref.Number}, {K: amf0ref.Null}} {
		p = append(p, amf0ref.Encode(v, amf0ref.Lib)...)
	}
	return ch.Whole(rtmpref.Item{Cid: 5, Form: 1, Fmt: 0, Msg: rtmpref.Msg{Type: 20, StreamID: 1, Payload: p}})
}

// queue injects the answer for tid (shaped for kind) and records what the model expects.
// Caller holds h.mu.
func (h *harness) queueLocked(kind string, tid float64, amf3 ...bool) {
	if req, ok := h.model[tid]; ok {
		delete(h.model, tid)
		h.expected = append(h.expected, expect{tid, map[string]string{"connect": "connectRes", "createStream": "createStreamRes"}[req]})
	} else {
		h.expected = append(h.expected, expect{tid, "error"})
	}
	h.rd.Write(responseBytes(h.ch, kind, tid, len(amf3) > 0 && amf3[0], len(amf3) > 1 && amf3[1]))
	h.cond.Broadcast()
}

func (h *harness) waitDecodedLocked(n int) error {
	deadline := time.Now().Add(20 * time.Second)
	for len(h.results) < n && h.readErr == nil {
		if time.Now().After(deadline) {
			return fmt.Errorf("response %d was queued but not decoded within 20s (lost response)", n)
		}
		waitCond(h.cond, 50*time.Millisecond)
	}
	return nil
}

func isEOF(err error) bool {
	c := oe.Cause(err)
	return c == io.EOF || c == io.ErrUnexpectedEOF || c == io.ErrClosedPipe
}

func waitCond(c *sync.Cond, d time.Duration) {
	t := time.AfterFunc(d, c.Broadcast)
	c.Wait()
	t.Stop()
}

// Write is the transport of endpoint A's writer.
type wr struct {
	h   *harness
	err error
}

func (w *wr) Write(p []byte) (int, error) {
	h := w.h
	h.mu.Lock()
	defer h.mu.Unlock()
	// a peer can answer a request once all of its bytes are with the transport: follow the wire
	// with the reference de-chunker and act when this Write completes a command message
	h.tail = append(h.tail, p...)
	res, e := h.dech.Dechunk(h.tail)
	if e != nil && e != rtmpref.ErrShort {
		w.err = fmt.Errorf("the writer's bytes are not a valid chunk stream: %v", e)
		return len(p), nil
	}
	h.tail = append([]byte(nil), h.tail[res.Used:]...)
	complete := false
	for _, m := range res.Msgs {
		if m.Type == 20 {
			complete = true
		}
	}
	if !complete {
		return len(p), nil
	}
	r := h.c.Reqs[h.cur]
	h.model[r.Tid] = r.Kind
	switch r.Mode {
	case "inside":
		h.queueLocked(r.Kind, r.Tid, r.AMF3, r.Rej)
		if r.Dup {
			h.queueLocked(r.Kind, r.Tid, r.AMF3, r.Rej)
		}
		if e := h.waitDecodedLocked(len(h.expected)); e != nil {
			w.err = e
		}
	case "free":
		h.peerCh <- h.cur
	}
	if h.c.ErrLast && h.cur == len(h.c.Reqs)-1 {
		return len(p), errAfterFullWrite
	}
	return len(p), nil
}

func runCase(c Case) (stInside, stOutOfOrder bool, err error) {
	h := &harness{model: map[float64]string{}, rd: xport.NewBlockPipe(), ch: rtmpref.NewChunker(), c: c, peerCh: make(chan int, len(c.Reqs)+1), dech: rtmpref.NewDechunker()}
	h.cond = sync.NewCond(&h.mu)
	w := &wr{h: h}
	a := rtmp.NewProtocol(xport.RW{Reader: h.rd, Writer: w})

	var wg sync.WaitGroup
	// reader goroutine of endpoint A
	wg.Add(1)
	go func() {
		defer wg.Done()
		for {
			var pkt rtmp.Packet
			var e error
			if c.Typed {
				// wait until a response is due, then wait for a packet of its type
				h.mu.Lock()
				for len(h.expected) <= len(h.results) && !h.done {
					waitCond(h.cond, 50*time.Millisecond)
				}
				if len(h.expected) <= len(h.results) {
					h.mu.Unlock()
					return
				}
				kind := h.expected[len(h.results)].kind
				h.mu.Unlock()
				if kind == "error" {
					// a response nobody waits for (duplicate / unsolicited): there is no type to wait for - whether a typed wait stops at it
					// with an error or passes over it is not fixed by the statement - so it is read and decoded as a message
					m, re := a.ReadMessage()
					if re != nil {
						h.mu.Lock()
						h.readErr = re
						h.cond.Broadcast()
						h.mu.Unlock()
						return
					}
					pkt, e = a.DecodeMessage(m)
				} else if kind == "connectRes" {
					var p *rtmp.ConnectAppResPacket
					if _, e = a.ExpectPacket(&p); e == nil {
						pkt = p
					}
				} else {
					var p *rtmp.CreateStreamResPacket
					if _, e = a.ExpectPacket(&p); e == nil {
						pkt = p
					}
				}
				if e != nil && isEOF(e) {
					h.mu.Lock()
					h.readErr = e
					h.cond.Broadcast()
					h.mu.Unlock()
					return
				}
			} else {
				m, re := a.ReadMessage()
				if re != nil {
					h.mu.Lock()
					h.readErr = re
					h.cond.Broadcast()
					h.mu.Unlock()
					return
				}
				pkt, e = a.DecodeMessage(m)
			}
			res := result{}
			if e != nil {
				res.typ = "error: " + e.Error()
			} else {
				res.typ = fmt.Sprintf("%T", pkt)
				switch k := pkt.(type) {
				case *rtmp.ConnectAppResPacket:
					res.tid = float64(k.TransactionID)
				case *rtmp.CreateStreamResPacket:
					res.tid = float64(k.TransactionID)
				case *rtmp.CallPacket:
					res.name = string(k.CommandName)
				}
			}
			if res.name == "onStatus" {
				continue
			}
			h.mu.Lock()
			h.results = append(h.results, res)
			h.cond.Broadcast()
			h.mu.Unlock()
		}
	}()
	// free-running peer
	var peerWg sync.WaitGroup
	peerWg.Add(1)
	go func() {
		defer peerWg.Done()
		for i := range h.peerCh {
			h.mu.Lock()
			r := c.Reqs[i]
			h.queueLocked(r.Kind, r.Tid, r.AMF3, r.Rej)
			if r.Dup {
				h.queueLocked(r.Kind, r.Tid, r.AMF3, r.Rej)
			}
			h.mu.Unlock()
		}
	}()

	// writer goroutine = this one
	var pending []int
	pi := 0
	otherAt := map[int]bool{}
	for _, i := range c.Other {
		otherAt[i] = true
	}
	if c.ChunkSize != 0 {
		scs := rtmp.NewSetChunkSize()
		scs.ChunkSize = c.ChunkSize
		if e := a.WritePacket(scs, 0); e != nil {
			return false, false, fmt.Errorf("WritePacket(SetChunkSize %d): %v", c.ChunkSize, e)
		}
	}
	pad := func(o *amf0.Object, n int) {
		for i := 0; n > 0; i++ {
			k := min(n, 60000)
			o.Set(fmt.Sprintf("pad%d", i), amf0.NewString(string(make([]byte, k))))
			n -= k
		}
	}
	for i, r := range c.Reqs {
		h.mu.Lock()
		h.cur = i
		h.mu.Unlock()
		var pkt rtmp.Packet
		if r.Kind == "connect" {
			k := rtmp.NewConnectAppPacket()
			k.CommandObject.Set("app", amf0.NewString("live"))
			pad(k.CommandObject, r.Pad)
			pkt = k
		} else {
			k := rtmp.NewCreateStreamPacket()
			k.TransactionID = amf0.Number(r.Tid)
			if r.Pad > 0 {
				o := amf0.NewObject()
				pad(o, r.Pad)
				k.CommandObject = o
			}
			pkt = k
		}
		if e := a.WritePacket(pkt, 0); e != nil && !(c.ErrLast && i == len(c.Reqs)-1) {
			err = fmt.Errorf("request %d: WritePacket: %v", i, e)
			break
		}
		if w.err != nil {
			err = fmt.Errorf("request %d: %v", i, w.err)
			break
		}
		h.mu.Lock()
		switch r.Mode {
		case "inside":
			stInside = true
		case "after":
			h.queueLocked(r.Kind, r.Tid, r.AMF3, r.Rej)
			if r.Dup {
				h.queueLocked(r.Kind, r.Tid, r.AMF3, r.Rej)
			}
			err = h.waitDecodedLocked(len(h.expected))
		case "defer":
			pending = append(pending, i)
		}
		if otherAt[i] {
			h.rd.Write(otherBytes(h.ch))
		}
		nf := 0
		if i < len(c.Flush) {
			nf = c.Flush[i]
		}
		for ; nf > 0 && len(pending) > 0; nf-- {
			k := 0
			if len(c.Pick) > 0 {
				k = c.Pick[pi%len(c.Pick)] % len(pending)
				pi++
			}
			if k != 0 {
				stOutOfOrder = true
			}
			j := pending[k]
			pending = append(pending[:k], pending[k+1:]...)
			h.queueLocked(c.Reqs[j].Kind, c.Reqs[j].Tid, c.Reqs[j].AMF3, c.Reqs[j].Rej)
			if c.Reqs[j].Dup {
				h.queueLocked(c.Reqs[j].Kind, c.Reqs[j].Tid, c.Reqs[j].AMF3, c.Reqs[j].Rej)
			}
		}
		h.mu.Unlock()
		if err != nil {
			break
		}
	}
	close(h.peerCh)
	peerWg.Wait() // the free peer has queued all its answers
	h.mu.Lock()
	for len(pending) > 0 && err == nil {
		k := 0
		if len(c.Pick) > 0 {
			k = c.Pick[pi%len(c.Pick)] % len(pending)
			pi++
		}
		if k != 0 {
			stOutOfOrder = true
		}
		j := pending[k]
		pending = append(pending[:k], pending[k+1:]...)
		h.queueLocked(c.Reqs[j].Kind, c.Reqs[j].Tid, c.Reqs[j].AMF3, c.Reqs[j].Rej)
		if c.Reqs[j].Dup {
			h.queueLocked(c.Reqs[j].Kind, c.Reqs[j].Tid, c.Reqs[j].AMF3, c.Reqs[j].Rej)
		}
	}
	if err == nil {
		err = h.waitDecodedLocked(len(h.expected))
	}
	if err == nil && h.readErr != nil {
		err = fmt.Errorf("reader goroutine stopped: %v (%d of %d responses decoded)", h.readErr, len(h.results), len(h.expected))
	}
	h.done = true
	h.cond.Broadcast()
	h.mu.Unlock()
	h.rd.Close()
	wg.Wait()
	if err != nil {
		return
	}
	h.mu.Lock()
	defer h.mu.Unlock()
	if len(h.results) != len(h.expected) {
		return stInside, stOutOfOrder, fmt.Errorf("%d responses queued, %d decoded", len(h.expected), len(h.results))
	}
	for i, e := range h.expected {
		r := h.results[i]
		switch e.kind {
		case "error":
			// "no response is matched twice": a response whose request is not outstanding (any more) must not come out as a matched,
			// typed response. Whether it is an error (this library; C03 asks for that) or handed on unmatched is not C04's business.
			if r.typ == "*rtmp.ConnectAppResPacket" || r.typ == "*rtmp.CreateStreamResPacket" {
				return stInside, stOutOfOrder, fmt.Errorf("response %d (tid %v) had no outstanding request, yet it was matched and decoded as %s", i, e.tid, r.typ)
			}
		case "connectRes":
			if r.typ != "*rtmp.ConnectAppResPacket" || r.tid != e.tid {
				return stInside, stOutOfOrder, fmt.Errorf("response %d to connect (tid %v): got %s tid %v", i, e.tid, r.typ, r.tid)
			}
		case "createStreamRes":
			if r.typ != "*rtmp.CreateStreamResPacket" || r.tid != e.tid {
				return stInside, stOutOfOrder, fmt.Errorf("response %d to createStream (tid %v): got %s tid %v", i, e.tid, r.typ, r.tid)
			}
		}
	}
	return stInside, stOutOfOrder, nil
}

// normalize makes a drawn case respect the domain: connect has tid 1; a transaction id is reused
// only after its previous use was answered and decoded (modes inside/after).
func normalize(c *Case) {
	busy := map[float64]bool{}
	next := 100.0
	for i := range c.Reqs {
		r := &c.Reqs[i]
		if r.Kind == "connect" {
			r.Tid = 1
		}
		if r.Tid <= 0 || math.IsNaN(r.Tid) {
			r.Tid = 2
		}
		if busy[r.Tid] {
			if r.Kind == "connect" {
				r.Kind = "createStream"
			}
			for busy[next] {
				next++
			}
			r.Tid = next
			next++
		}
		if r.Mode == "free" || r.Mode == "defer" {
			busy[r.Tid] = true
		}
	}
}

var recSched = ev.New(prop, "schedules",
	"rapid-generated histories of 1-30 connect/createStream requests sent by a writer goroutine while a reader goroutine decodes; per request the harness transport places the peer's _result "+
		"inside the transport Write (and waits for its decode), after WritePacket returned, from a free-running peer goroutine, or deferred and flushed later in a drawn order; duplicates, _error answers (also duplicated) and unrelated commands mixed in; "+
		"model = requests whose bytes reached the transport; race detector on; non-trivial = an 'inside' step or deferred answers delivered out of order").
	Require("inside", "out-of-order")

func check(rec *ev.Recorder, c Case) error {
	normalize(&c)
	ev.Current(prop, "schedules", c)
	var in, ooo bool
	err := ev.Try(func() error {
		var e error
		in, ooo, e = runCase(c)
		return e
	})
	var cl []string
	if in {
		cl = append(cl, "inside")
	}
	if ooo {
		cl = append(cl, "out-of-order")
	}
	for _, r := range c.Reqs {
		if r.Rej && r.Dup {
			cl = append(cl, "rejected-then-duplicate")
			break
		}
	}
	rec.Case(len(cl) > 0, ev.Hash(c), cl, func() any { return c })
	return err
}

func TestSchedules(t *testing.T) {
	ev.Rapid(t, "schedules", 4000, 400000, func(t *rapid.T) {
		var c Case
		n := rapid.IntRange(1, 30).Draw(t, "n")
		for i := 0; i < n; i++ {
			r := Req{Kind: rapid.SampledFrom([]string{"connect", "createStream", "createStream"}).Draw(t, "kind"),
				Mode: rapid.SampledFrom([]string{"inside", "after", "free", "defer"}).Draw(t, "mode"),
				Dup:  rapid.IntRange(0, 5).Draw(t, "dup") == 0}
			r.Tid = rapid.SampledFrom([]float64{1, 2, 3, 4, 5, 0.5, 1e300, 4294967296, 1.5, 2.5, 2.25, 9.3e18, 1.8e19, 1e19}).Draw(t, "tid")
			r.AMF3 = rapid.IntRange(0, 4).Draw(t, "amf3") == 0
			r.Rej = rapid.IntRange(0, 3).Draw(t, "rej") == 0 && r.Kind == "createStream" // the connect response decoder accepts the name _result only: observed, not judged
			if rapid.IntRange(0, 5).Draw(t, "big") == 0 {
				r.Pad = rapid.SampledFrom([]int{100, 3900, 4096, 8100, 8200, 12000, 70000}).Draw(t, "pad")
			}
			c.Reqs = append(c.Reqs, r)
		}
		c.ErrLast = rapid.IntRange(0, 5).Draw(t, "errlast") == 0
		c.Typed = rapid.IntRange(0, 2).Draw(t, "typed") == 0
		if rapid.IntRange(0, 2).Draw(t, "scs") == 0 {
			c.ChunkSize = rapid.SampledFrom([]uint32{1, 127, 4096, 8000, 8300, 60000, 1 << 24}).Draw(t, "chunk")
		}
		c.Flush = rapid.SliceOfN(rapid.IntRange(0, 3), 0, n).Draw(t, "flush")
		c.Pick = rapid.SliceOfN(rapid.IntRange(0, 5), 0, 8).Draw(t, "pick")
		c.Other = rapid.SliceOfN(rapid.IntRange(0, n-1), 0, 3).Draw(t, "other")
		if err := check(recSched, c); err != nil {
			normalize(&c)
			p := ev.Fail(prop, "schedules", c, err)
			t.Fatalf("%v (replay %s)", err, p)
		}
	})
}

// TestEnumerate: all mode assignments x kinds for histories of <= 3 (quick) / 4 (thorough)
// requests, deferred answers flushed at the end in both orders.
func TestEnumerate(t *testing.T) {
	maxN := ev.N(4, 6)
	rec := ev.New(prop, "enumerate", fmt.Sprintf("every assignment of {inside, after, free, defer} x {connect, createStream} to histories of 1..%d requests, deferred answers flushed in order and reversed; "+
		"non-trivial = contains an inside step or a reversed flush", maxN))
	rec.Exhaustive()
	modes := []string{"inside", "after", "free", "defer"}
	kinds := []string{"connect", "createStream"}
	idx := 0
	for n := 1; n <= maxN; n++ {
		total := 1
		for i := 0; i < n; i++ {
			total *= len(modes) * len(kinds)
		}
		for code := 0; code < total; code++ {
			for rev := 0; rev < 2; rev++ {
				idx++
				if idx%ev.Shards() != ev.Shard() {
					continue
				}
				var c Case
				x := code
				nd := 0
				for i := 0; i < n; i++ {
					m := modes[x%len(modes)]
					x /= len(modes)
					k := kinds[x%len(kinds)]
					x /= len(kinds)
					if m == "defer" {
						nd++
					}
					c.Reqs = append(c.Reqs, Req{Kind: k, Mode: m, Tid: float64(i + 2)})
				}
				if rev == 1 {
					if nd < 2 {
						continue
					}
					c.Pick = []int{nd - 1, nd - 2, nd - 3, 0}
				}
				if err := check(rec, c); err != nil {
					normalize(&c)
					p := ev.Fail(prop, "enumerate", c, err)
					t.Fatalf("%v (replay %s)", err, p)
				}
			}
		}
	}
}

// TestPipelined: many requests outstanding at once (answered later, in order and reversed).
func TestPipelined(t *testing.T) {
	rec := ev.New(prop, "pipelined", "n in {1,8,63,64,65,200,1000} requests written back to back with every answer deferred, then answered in order / in reverse / with the first half free-running; all non-trivial")
	rec.Exhaustive()
	for _, n := range []int{1, 8, 63, 64, 65, 200, 1000} {
		for variant := 0; variant < 3; variant++ {
			var c Case
			for i := 0; i < n; i++ {
				mode := "defer"
				if variant == 2 && i < n/2 {
					mode = "free"
				}
				kind := "createStream"
				if i == 0 {
					kind = "connect"
				}
				c.Reqs = append(c.Reqs, Req{Kind: kind, Mode: mode, Tid: float64(i + 1)})
			}
			if variant == 1 {
				c.Pick = []int{n - 1, n - 2, 7, 0}
			}
			if err := check(rec, c); err != nil {
				normalize(&c)
				p := ev.Fail(prop, "pipelined", c, err)
				t.Fatalf("%v (replay %s)", err, p)
			}
		}
	}
}

func replayers() map[string]ev.Replayer {
	f := func(raw json.RawMessage) error {
		var c Case
		if err := json.Unmarshal(raw, &c); err != nil {
			return err
		}
		normalize(&c)
		_, _, e := runCase(c)
		return e
	}
	return map[string]ev.Replayer{"schedules": f, "enumerate": f, "process": f, "pipelined": f}
}

func TestRegress(t *testing.T) { ev.Regress(t, prop, replayers()) }
func TestReplay(t *testing.T) {
	if os.Getenv("VERIF_REPLAY") == "" {
		t.Skip("no VERIF_REPLAY")
	}
	ev.Replay(t, prop, replayers())
}
