// C06: the library's AMF0 bytes are what the AMF0 specification defines (independent decoder
// reads them back), specification-conformant encodings are decoded by the library, and
// unsupported markers are errors.
package c06

import (
	"encoding/json"
	"fmt"
	"os"
	"testing"

	"github.com/ossrs/go-oryx-lib/amf0"
	"pgregory.net/rapid"
	"verif/harness/internal/amf0x"
	"verif/harness/internal/ev"
	"verif/harness/internal/ref/amf0ref"
)

const prop = "C06"
const sigStrict = "amf0.strict-array.spec-layout.nonempty"

func TestMain(m *testing.M) { ev.Main(m) }

func strictOpen() bool { return ev.Open(prop, sigStrict) }

// ---------------------------------------------------------------- library -> reference decoder

// LCase: a value marshalled by the library; optionally another value is marshalled after it while
// the first result is still held, and the value is edited in place and marshalled again.
type LCase struct {
	Val   amf0ref.Val  `json:"val"`
	Other *amf0ref.Val `json:"other,omitempty"`
	Edit  uint64       `json:"edit,omitempty"`
}

func checkLibCase(c LCase) error {
	v := amf0x.Clone(c.Val)
	a := amf0x.Build(v)
	b, err := a.MarshalBinary()
	if err != nil {
		return fmt.Errorf("marshal: %v", err)
	}
	if c.Other != nil {
		// bytes handed out stay valid while the application marshals something else
		if _, err := amf0x.Build(*c.Other).MarshalBinary(); err != nil {
			return fmt.Errorf("marshal of the second value: %v", err)
		}
	}
	if err := specSees(b, v); err != nil {
		return err
	}
	// the bytes belong to the application: it may overwrite them, and the spare capacity behind them
	ev.Trash(b)
	if c.Edit == 0 {
		b, err = a.MarshalBinary()
		if err != nil {
			return fmt.Errorf("second marshal: %v", err)
		}
		if err := specSees(b, v); err != nil {
			return fmt.Errorf("second marshal, after the application overwrote the bytes of the first: %v", err)
		}
		return nil
	}
	what := amf0x.Mutate(a, &v, c.Edit, strictOpen())
	if what == "" {
		return nil
	}
	b, err = a.MarshalBinary()
	if err != nil {
		return fmt.Errorf("marshal after an in-place edit (%s): %v", what, err)
	}
	if err := specSees(b, v); err != nil {
		return fmt.Errorf("after an in-place edit (%s): %v", what, err)
	}
	return nil
}

func checkLibToRef(v amf0ref.Val) error { return checkLibCase(LCase{Val: v}) }

func specSees(b []byte, v amf0ref.Val) error {
	rv, n, err := amf0ref.Decode(b, amf0ref.Spec)
	if err != nil {
		return fmt.Errorf("specification decoder rejects the library's bytes %s: %v", hexHead(b), err)
	}
	if n != len(b) {
		return fmt.Errorf("specification decoder consumed %d of the %d bytes the library wrote (%s)", n, len(b), hexHead(b))
	}
	if err := amf0ref.Equal(rv, v, false); err != nil {
		return fmt.Errorf("specification decoder sees another value: %v", err)
	}
	return nil
}

func hexHead(b []byte) string {
	if len(b) > 40 {
		return fmt.Sprintf("%x..", b[:40])
	}
	return fmt.Sprintf("%x", b)
}

// ---------------------------------------------------------------- reference encoder -> library

// SCase is a sequence of values as they appear in an RTMP data/command message body.
type SCase struct {
	Vals []amf0ref.Val `json:"vals"`
}

func checkRefToLib(c SCase) error {
	var wire []byte
	var lens []int
	for _, v := range c.Vals {
		e := amf0ref.Encode(v, amf0ref.Spec)
		wire = append(wire, e...)
		lens = append(lens, len(e))
	}
	p := wire
	for i, v := range c.Vals {
		a, err := amf0.Discovery(p)
		if err != nil {
			return fmt.Errorf("value %d: Discovery rejects a specification-conformant encoding %s: %v", i, hexHead(p), err)
		}
		if err := a.UnmarshalBinary(p); err != nil {
			return fmt.Errorf("value %d (%v): library rejects a specification-conformant encoding %s: %v", i, v.K, hexHead(p), err)
		}
		if err := amf0x.Same(a, v); err != nil {
			return fmt.Errorf("value %d: library decodes another value: %v", i, err)
		}
		if a.Size() != lens[i] {
			return fmt.Errorf("value %d (%v): Size() = %d, the encoding has %d bytes", i, v.K, a.Size(), lens[i])
		}
		p = p[lens[i]:]
	}
	return nil
}

func classes(vs ...amf0ref.Val) (cl []string, excluded bool) {
	for _, v := range vs {
		s := amf0ref.Measure(v)
		if s.Depth >= 3 {
			cl = append(cl, "nested")
		}
		if s.NonFinite {
			cl = append(cl, "non-finite")
		}
		if s.StrictNonEmpty {
			cl = append(cl, "strict-nonempty")
		}
		if hasKind(v, amf0ref.Ecma) {
			cl = append(cl, "ecma")
		}
		if hasKind(v, amf0ref.Strict) {
			cl = append(cl, "strict")
		}
	}
	return
}

func hasKind(v amf0ref.Val, k amf0ref.Kind) bool {
	if v.K == k {
		return true
	}
	for _, p := range v.Props {
		if hasKind(p.Val, k) {
			return true
		}
	}
	return false
}

var recL2R = ev.New(prop, "lib-to-spec-decoder",
	"rapid-generated trees built through the public API, marshalled by the library and decoded by the independent specification decoder (reads ECMA arrays to the end marker, strict arrays as count+bare values); "+
		"non-trivial = nesting>=2, non-finite number, or an ECMA/strict array present").Require("nested", "ecma", "strict")

var recR2L = ev.New(prop, "spec-encoder-to-lib",
	"sequences of 1-3 rapid-generated values (Flash/FFmpeg-style: string + ECMA array metadata, nested arrays) encoded by the independent specification encoder and decoded by the library advancing by Size(); "+
		"non-trivial as above").Require("nested", "ecma", "strict")

func genOpts() amf0x.Opts {
	return amf0x.Opts{MaxDepth: 6, MaxNodes: 30, DistinctKeys: true, BigStrings: true, NoStrictElem: strictOpen()}
}

// deepChain builds containers nested depth deep (kinds rotating), a number at the bottom.
func deepChain(depth int, kinds []amf0ref.Kind) amf0ref.Val {
	v := amf0ref.Val{K: amf0ref.Number, Num: 0x4045000000000000}
	for i := depth; i > 0; i-- {
		k := kinds[i%len(kinds)]
		c := amf0ref.Val{K: k, Props: []amf0ref.Prop{{Key: []byte("n"), Val: v}}}
		if k == amf0ref.Ecma {
			c.Count = 1
		}
		v = c
	}
	return v
}

// TestDeepNesting: the format has no nesting limit; chains of containers far deeper than the random trees.
func TestDeepNesting(t *testing.T) {
	rec := ev.New(prop, "deep-nesting", "deterministic: chains of objects / ECMA arrays nested 64, 127, 128, 129, 130, 255, 256, 257, 1000 deep, library bytes to the specification decoder and specification bytes to the library; all non-trivial")
	rec.Exhaustive()
	for _, depth := range []int{64, 127, 128, 129, 130, 255, 256, 257, 1000} {
		for _, kinds := range [][]amf0ref.Kind{{amf0ref.Object}, {amf0ref.Ecma}, {amf0ref.Object, amf0ref.Ecma}} {
			v := deepChain(depth, kinds)
			err := ev.Try(func() error {
				if e := checkLibCase(LCase{Val: v}); e != nil {
					return fmt.Errorf("depth %d: %v", depth, e)
				}
				if e := checkRefToLib(SCase{Vals: []amf0ref.Val{v}}); e != nil {
					return fmt.Errorf("depth %d: %v", depth, e)
				}
				return nil
			})
			rec.Case(true, ev.Hash(depth, kinds), nil, func() any { return map[string]any{"depth": depth, "kinds": kinds} })
			if err != nil {
				p := ev.Fail(prop, "lib-to-spec-decoder", LCase{Val: v}, err)
				t.Fatalf("%v (replay %s)", err, p)
			}
		}
	}
}

func genLCase(t *rapid.T) LCase {
	c := LCase{Val: amf0x.Gen(t, genOpts())}
	if rapid.IntRange(0, 2).Draw(t, "second") == 0 {
		o := amf0x.Gen(t, genOpts())
		c.Other = &o
	}
	if rapid.IntRange(0, 2).Draw(t, "edit") == 0 {
		c.Edit = 1 + rapid.Uint64Range(0, 1<<20).Draw(t, "editsel")
	}
	return c
}

// TestSideBySide: independent values marshalled on several goroutines at once.
func TestSideBySide(t *testing.T) {
	ev.Parallel(t, prop, "side-by-side", 6, 400, 120, genLCase, checkLibCase)
}

func TestLibToSpecDecoder(t *testing.T) {
	ev.Rapid(t, "lib-to-spec-decoder", 8000, 4000000, func(t *rapid.T) {
		c := genLCase(t)
		v := c.Val
		err := ev.Try(func() error { return checkLibCase(c) })
		cl, _ := classes(v)
		if c.Other != nil {
			cl = append(cl, "held-across-another-marshal")
		}
		if c.Edit != 0 {
			cl = append(cl, "edited-in-place")
		}
		recL2R.Case(len(cl) > 0, ev.Hash(c), cl, func() any { return map[string]any{"spec_layout": hexHead(amf0ref.Encode(v, amf0ref.Spec))} })
		if err != nil {
			p := ev.Fail(prop, "lib-to-spec-decoder", c, err)
			t.Fatalf("%v (replay %s)", err, p)
		}
	})
	if strictOpen() {
		recL2R.Note("strict arrays are generated empty while finding %s is open", sigStrict)
	}
}

func TestSpecEncoderToLib(t *testing.T) {
	ev.Rapid(t, "spec-encoder-to-lib", 8000, 4000000, func(t *rapid.T) {
		var c SCase
		if rapid.IntRange(0, 3).Draw(t, "meta") == 0 {
			// onMetaData: command name string followed by an ECMA array of numbers/strings/booleans
			c.Vals = append(c.Vals, amf0ref.Val{K: amf0ref.String, Str: []byte("onMetaData")})
			m := amf0ref.Val{K: amf0ref.Ecma}
			keys := []string{"duration", "width", "height", "videodatarate", "framerate", "videocodecid", "audiodatarate", "audiosamplerate", "stereo", "encoder", "filesize"}
			n := rapid.IntRange(0, len(keys)).Draw(t, "nmeta")
			for i := 0; i < n; i++ {
				m.Props = append(m.Props, amf0ref.Prop{Key: []byte(keys[i]), Val: amf0x.Gen(t, amf0x.Opts{MaxDepth: 1, MaxNodes: 1})})
			}
			m.Count = uint32(len(m.Props))
			if rapid.Bool().Draw(t, "cnt0") {
				m.Count = uint32(rapid.SampledFrom([]int{0, 1, 13, 1 << 20}).Draw(t, "cnt"))
			}
			c.Vals = append(c.Vals, m)
		} else {
			n := rapid.IntRange(1, 3).Draw(t, "nvals")
			for i := 0; i < n; i++ {
				v := amf0x.Gen(t, genOpts())
				fixCounts(&v)
				c.Vals = append(c.Vals, v)
			}
		}
		err := ev.Try(func() error { return checkRefToLib(c) })
		cl, _ := classes(c.Vals...)
		recR2L.Case(len(cl) > 0, ev.Hash(c), cl, func() any {
			var w []byte
			for _, v := range c.Vals {
				w = append(w, amf0ref.Encode(v, amf0ref.Spec)...)
			}
			return map[string]any{"spec_layout": hexHead(w)}
		})
		if err != nil {
			p := ev.Fail(prop, "spec-encoder-to-lib", c, err)
			t.Fatalf("%v (replay %s)", err, p)
		}
	})
}

// fixCounts sets every ECMA count to the number of entries (what the specification says).
func fixCounts(v *amf0ref.Val) {
	if v.K == amf0ref.Ecma {
		v.Count = uint32(len(v.Props))
	}
	for i := range v.Props {
		fixCounts(&v.Props[i].Val)
	}
}

// ---------------------------------------------------------------- all 256 markers

type MCase struct {
	Marker int    `json:"marker"`
	Body   ev.Hex `json:"body"`
	Nested bool   `json:"nested"` // the value sits inside an object as property "k"
}

var bodies = [][]byte{
	nil,
	make([]byte, 16),
	{0, 3, 'a', 'b', 'c', 0, 0, 9, 0, 0, 9, 0, 0, 9},
	{0, 0, 0, 0, 0, 0, 9, 0, 0, 9},
	{0, 0, 0, 1, 0, 1, 'k', 5, 0, 0, 9},
	{1, 0, 0, 0, 0, 0, 0, 0, 0, 0, 0, 9},
	{0xff, 0xff, 0xff, 0xff, 0xff, 0xff, 0xff, 0xff, 0xff, 0xff, 0xff, 0xff},
	{0x40, 0x10, 0, 0, 0, 0, 0, 0, 0, 0, 0, 0, 0, 0, 0, 0, 0, 0}, // a Date body: 8-byte number + time zone
}

func decodeLib(b []byte) (amf0.Amf0, error) {
	a, err := amf0.Discovery(b)
	if err != nil {
		return nil, err
	}
	if err := a.UnmarshalBinary(b); err != nil {
		return nil, err
	}
	return a, nil
}

func checkMarker(c MCase) error {
	val := append([]byte{byte(c.Marker)}, c.Body...)
	b := val
	if c.Nested {
		b = append([]byte{3, 0, 1, 'k'}, val...)
		b = append(b, 0, 0, 9)
	}
	if !c.Nested {
		// whatever value object the library hands out for this marker: the bytes it marshals to belong to the application,
		// which may overwrite them (and their spare capacity) without changing what the library encodes afterwards
		ev.Try(func() error {
			if d, err := amf0.Discovery(val); err == nil {
				if mb, err := d.MarshalBinary(); err == nil {
					ev.Trash(mb)
				}
			}
			return nil
		})
		probe := amf0ref.Val{K: amf0ref.Object, Props: []amf0ref.Prop{
			{Key: []byte("a"), Val: amf0ref.Val{K: amf0ref.Null}},
			{Key: []byte("u"), Val: amf0ref.Val{K: amf0ref.Undefined}},
			{Key: []byte("e"), Val: amf0ref.Val{K: amf0ref.Ecma, Props: []amf0ref.Prop{{Key: []byte("t"), Val: amf0ref.Val{K: amf0ref.Boolean, Bool: 1}}}, Count: 1}}}}
		pb, err := amf0x.Build(probe).MarshalBinary()
		if err != nil {
			return fmt.Errorf("marshal of {a:null,u:undefined,e:[t:true]} after the bytes marshalled for the marker-%d value were overwritten: %v", c.Marker, err)
		}
		if err := specSees(pb, probe); err != nil {
			return fmt.Errorf("{a:null,u:undefined,e:[t:true]} marshalled after the bytes marshalled for the marker-%d value were overwritten: %v", c.Marker, err)
		}
	}
	rv, n, rerr := amf0ref.Decode(b, amf0ref.Lib)
	supported := map[int]bool{0: true, 1: true, 2: true, 3: true, 5: true, 6: true, 8: true, 10: true}
	a, err := decodeLib(b)
	if !supported[c.Marker] {
		if err == nil {
			return fmt.Errorf("marker %d is not supported, yet %x decodes to %T with Size() %d", c.Marker, b, a, a.Size())
		}
		return nil
	}
	if rerr != nil {
		if err == nil {
			return fmt.Errorf("%x is not a complete value (%v), yet the library decodes %T with Size() %d", b, rerr, a, a.Size())
		}
		return nil
	}
	if err != nil {
		return fmt.Errorf("%x is a valid value of %d bytes, library: %v", b, n, err)
	}
	if a.Size() != n {
		return fmt.Errorf("%x: Size() = %d, value occupies %d bytes", b, a.Size(), n)
	}
	if err := amf0x.Same(a, rv); err != nil {
		return fmt.Errorf("%x: %v", b, err)
	}
	return nil
}

func TestAllMarkers(t *testing.T) {
	rec := ev.New(prop, "all-markers", "all 256 marker bytes x 8 bodies (empty, zeros, nested-looking, 0xFF.., a Date body) x {top level, as a property inside an object}: "+
		"unsupported markers must give an error, supported ones must agree with the reference decoder (value, Size, or error); every case is non-trivial")
	rec.Exhaustive()
	for m := 0; m < 256; m++ {
		for _, body := range bodies {
			for _, nested := range []bool{false, true} {
				c := MCase{Marker: m, Body: body, Nested: nested}
				err := ev.Try(func() error { return checkMarker(c) })
				rec.Case(true, ev.Hash(c), nil, func() any { return c })
				if err != nil {
					p := ev.Fail(prop, "all-markers", c, err)
					t.Fatalf("%v (replay %s)", err, p)
				}
			}
		}
	}
}

// ---------------------------------------------------------------- known finding probe

func TestKnownStrictArray(t *testing.T) {
	// 0A 00000002 00<1.0> 05 : strict array [1.0, null] in the specification's layout
	c := SCase{Vals: []amf0ref.Val{{K: amf0ref.Strict, Props: []amf0ref.Prop{
		{Val: amf0ref.Val{K: amf0ref.Number, Num: 0x3ff0000000000000}}, {Val: amf0ref.Val{K: amf0ref.Null}}}}}}
	err1 := ev.Try(func() error { return checkRefToLib(c) })
	// and the other direction: NewStrictArray().Set("0", 1.0).Set("1", null)
	v := c.Vals[0]
	v.Props = []amf0ref.Prop{{Key: []byte("0"), Val: v.Props[0].Val}, {Key: []byte("1"), Val: v.Props[1].Val}}
	err2 := ev.Try(func() error { return checkLibToRef(v) })
	rec := ev.New(prop, "known-strict-array", "probe of the listed finding input, both directions")
	rec.Case(true, 1, nil, func() any { return c })
	rec.Case(true, 2, nil, func() any { return v })
	switch {
	case strictOpen() && (err1 != nil || err2 != nil):
		ev.Known(prop, sigStrict, fmt.Sprintf("%v / %v", err1, err2))
	case strictOpen():
		ev.Stale(prop, sigStrict)
	case err1 != nil:
		p := ev.Fail(prop, "spec-encoder-to-lib", c, err1)
		t.Fatalf("%v (replay %s)", err1, p)
	case err2 != nil:
		p := ev.Fail(prop, "lib-to-spec-decoder", v, err2)
		t.Fatalf("%v (replay %s)", err2, p)
	}
}

func replayers() map[string]ev.Replayer {
	return map[string]ev.Replayer{
		"side-by-side": func(raw json.RawMessage) error {
			var c LCase
			if err := json.Unmarshal(raw, &c); err != nil {
				return err
			}
			return checkLibCase(c)
		},
		"lib-to-spec-decoder": func(raw json.RawMessage) error {
			var probe map[string]json.RawMessage
			if err := json.Unmarshal(raw, &probe); err == nil && probe["val"] != nil {
				var c LCase
				if err := json.Unmarshal(raw, &c); err != nil {
					return err
				}
				return checkLibCase(c)
			}
			var v amf0ref.Val // older replay files hold the bare value
			if err := json.Unmarshal(raw, &v); err != nil {
				return err
			}
			return checkLibToRef(v)
		},
		"spec-encoder-to-lib": func(raw json.RawMessage) error {
			var c SCase
			if err := json.Unmarshal(raw, &c); err != nil {
				return err
			}
			return checkRefToLib(c)
		},
		"all-markers": func(raw json.RawMessage) error {
			var c MCase
			if err := json.Unmarshal(raw, &c); err != nil {
				return err
			}
			return checkMarker(c)
		},
	}
}

func TestRegress(t *testing.T) { ev.Regress(t, prop, replayers()) }
func TestReplay(t *testing.T) {
	if os.Getenv("VERIF_REPLAY") == "" {
		t.Skip("no VERIF_REPLAY")
	}
	ev.Replay(t, prop, replayers())
}
