// C14: the WebSocket reader enforces RFC 6455 framing rules and the read limit.
// Oracle: the receiver model of internal/ref/wsref, fed with the same frame sequence.
package c14

import (
	"bytes"
	"encoding/binary"
	"encoding/json"
	"fmt"
	"io"
	"os"
	"testing"
	"time"
	"unicode/utf8"

	"github.com/ossrs/go-oryx-lib/websocket"
	"pgregory.net/rapid"
	"verif/harness/internal/ev"
	"verif/harness/internal/ref/wsref"
	"verif/harness/internal/rtmpx"
	"verif/harness/internal/wsx"
	"verif/harness/internal/xport"
)

const prop = "C14"

func TestMain(m *testing.M) { ev.Main(m) }

type fataler interface{ Fatalf(string, ...any) }

func fail(t fataler, check string, c any, err error) {
	p := ev.Fail(prop, check, c, err)
	t.Fatalf("%v (replay %s)", err, p)
}

// F is a frame in replay form (payload as length+fill or explicit bytes).
type F struct {
	Fin      bool   `json:"fin"`
	RSV      byte   `json:"rsv,omitempty"`
	Op       byte   `json:"op"`
	Masked   bool   `json:"masked"`
	Key      uint32 `json:"key,omitempty"`
	LenForm  int    `json:"len_form,omitempty"`
	Declared uint64 `json:"declared,omitempty"`
	Len      int    `json:"len,omitempty"`
	Fill     uint64 `json:"fill,omitempty"`
	Body     ev.Hex `json:"body,omitempty"`
}

func (f F) frame() wsref.Frame {
	p := []byte(f.Body)
	if f.Body == nil {
		p = rtmpx.Fill(f.Len, f.Fill)
	}
	var k [4]byte
	binary.BigEndian.PutUint32(k[:], f.Key)
	return wsref.Frame{Fin: f.Fin, RSV: f.RSV, Op: f.Op, Masked: f.Masked, Key: k, LenForm: f.LenForm, Declared: f.Declared, Payload: p}
}

type Case struct {
	Server  bool  `json:"server"` // role of the endpoint under test
	Limit   int64 `json:"limit"`
	Frames  []F   `json:"frames"`
	Cut     int   `json:"cut"` // -1: none; else the byte stream is cut at this offset
	SegKind int   `json:"seg_kind"`
	Seg     []int `json:"seg,omitempty"`
	ReadBuf int   `json:"read_buf"`
	// LocalClose: the application has already sent its own Close frame and keeps reading until
	// the peer's Close arrives (RFC 6455 7.1.2: the peer's frames are still to be received)
	LocalClose bool `json:"local_close,omitempty"`
	// Compress: permessage-deflate is negotiated in the opening handshake (RSV1 legal on the first frame of a data message)
	Compress bool `json:"compress,omitempty"`
}

type stats struct {
	event      wsref.EventKind
	frames     int
	partial    bool
	delivered  int
	pongs      int
	fragmented bool
}

func runCase(c Case) (st stats, err error) {
	var frames []wsref.Frame
	var wire []byte
	var ends []int
	for _, f := range c.Frames {
		fr := f.frame()
		frames = append(frames, fr)
		wire = append(wire, fr.Bytes()...)
		ends = append(ends, len(wire))
	}
	cut := c.Cut >= 0 && c.Cut < len(wire)
	model := frames
	if cut {
		wire = wire[:c.Cut]
		n := 0
		for n < len(ends) && ends[n] <= c.Cut {
			n++
		}
		model = frames[:n]
		st.partial = n < len(frames) && (n == 0 && c.Cut > 0 || n > 0 && c.Cut > ends[n-1])
	}
	want := wsref.ReceiveExt(model, c.Server, c.Limit, c.Compress)
	if want.BadDeflate || want.InflatedOverLimit {
		return st, nil // outside the model / not fixed by the statement
	}
	st.event, st.frames = want.Event, len(model)
	st.delivered, st.pongs = len(want.Delivered), len(want.Pongs)
	for _, f := range model {
		if f.Op == 0 {
			st.fragmented = true
		}
	}

	var in io.Reader = bytes.NewReader(wire)
	in = xport.Segment(in, c.SegKind, c.Seg)
	out := &wsx.Sink{}
	cfg := wsx.Config{ReadBuf: c.ReadBuf, WriteBuf: 512, Compression: c.Compress}
	var conn *websocket.Conn
	var hs wsx.Handshake
	if c.Server {
		conn, _, hs, err = wsx.NewServer(cfg, c.Compress, in, out)
	} else {
		conn, _, hs, err = wsx.NewClient(cfg, c.Compress, in, out)
	}
	if err != nil {
		return st, fmt.Errorf("handshake: %v", err)
	}
	skip := out.Len()
	if c.Server {
		if e := hs.Check(c.Compress); e != nil {
			return st, e
		}
	}
	conn.SetReadLimit(c.Limit)
	if c.LocalClose {
		if e := conn.WriteControl(websocket.CloseMessage, websocket.FormatCloseMessage(1000, "bye"), time.Time{}); e != nil {
			return st, fmt.Errorf("sending the local Close: %v", e)
		}
		skip = out.Len()
	}

	var got []wsref.Delivered
	var rerr error
	for i := 0; i <= len(frames)+1; i++ {
		mt, p, e := conn.ReadMessage()
		if e != nil {
			rerr = e
			break
		}
		got = append(got, wsref.Delivered{Op: byte(mt), Payload: p})
	}
	if rerr == nil {
		return st, fmt.Errorf("reader returned %d messages and no error from %d frames", len(got), len(frames))
	}
	// delivered messages
	if len(got) != len(want.Delivered) {
		return st, fmt.Errorf("%d messages delivered, a conformant receiver delivers %d (then: %v %s); library error: %v", len(got), len(want.Delivered), want.Event, want.Why, rerr)
	}
	for i, g := range got {
		w := want.Delivered[i]
		if g.Op != w.Op || !bytes.Equal(g.Payload, w.Payload) {
			return st, fmt.Errorf("message %d: type %d with %d bytes, a conformant receiver delivers type %d with %d bytes", i, g.Op, len(g.Payload), w.Op, len(w.Payload))
		}
		if c.Limit > 0 && !c.Compress && int64(len(g.Payload)) > c.Limit { // (with compression the limit counts the bytes on the wire: the model above decides)
			return st, fmt.Errorf("message %d of %d bytes delivered with read limit %d", i, len(g.Payload), c.Limit)
		}
	}
	// reading fails permanently
	for i := 0; i < 2; i++ {
		if _, _, e := conn.ReadMessage(); e == nil {
			return st, fmt.Errorf("a read after the failure (%v) succeeded", rerr)
		}
	}
	// error kind
	uncertain := cut && want.Event == wsref.EvEOF // a partial frame may already show a violation / limit excess
	if !uncertain {
		switch want.Event {
		case wsref.EvLimit:
			if rerr != websocket.ErrReadLimit {
				return st, fmt.Errorf("frame %d exceeds the read limit %d: error %v, want ErrReadLimit", want.AtFrame, c.Limit, rerr)
			}
		case wsref.EvClose:
			ce, ok := rerr.(*websocket.CloseError)
			if !ok || ce.Code != want.CloseCode || ce.Text != want.CloseText {
				return st, fmt.Errorf("valid close (code %d) received: error %#v, want *CloseError with that code and text", want.CloseCode, rerr)
			}
		case wsref.EvViolation:
			if _, ok := rerr.(*websocket.CloseError); ok || rerr == websocket.ErrReadLimit {
				return st, fmt.Errorf("frame %d breaks a rule (%s): error %v, want a protocol error", want.AtFrame, want.Why, rerr)
			}
		}
	}
	// what the endpoint wrote: pongs in order, then the close frame the event calls for
	outMsgs, perr := wsref.ParseStrict(out.Bytes(skip), wsref.StrictOpts{FromClient: !c.Server})
	if perr != nil {
		return st, fmt.Errorf("endpoint output is not a valid frame stream: %v", perr)
	}
	if c.LocalClose {
		// nothing may follow the Close frame the application sent; the messages above are still delivered
		if len(outMsgs) != 0 {
			return st, fmt.Errorf("%d frames were written after the application's Close frame", len(outMsgs))
		}
		return st, nil
	}
	var pongs [][]byte
	var closes [][]byte
	for _, m := range outMsgs {
		switch m.Op {
		case 10:
			if len(closes) > 0 {
				return st, fmt.Errorf("a pong was written after the close frame")
			}
			pongs = append(pongs, m.Payload)
		case 8:
			closes = append(closes, m.Payload)
		default:
			return st, fmt.Errorf("endpoint wrote an unexpected frame with opcode %d", m.Op)
		}
	}
	if len(pongs) != len(want.Pongs) {
		return st, fmt.Errorf("%d pongs written, %d pings were received before the end", len(pongs), len(want.Pongs))
	}
	for i := range pongs {
		if !bytes.Equal(pongs[i], want.Pongs[i]) {
			return st, fmt.Errorf("pong %d carries %x, the ping carried %x", i, pongs[i], want.Pongs[i])
		}
	}
	if len(closes) > 1 {
		return st, fmt.Errorf("%d close frames written", len(closes))
	}
	code := func() int {
		if len(closes) == 0 {
			return -1
		}
		if len(closes[0]) < 2 {
			return 1005
		}
		return int(binary.BigEndian.Uint16(closes[0]))
	}()
	switch {
	case uncertain:
		if code != -1 && code != 1002 && code != 1009 {
			return st, fmt.Errorf("stream cut inside a frame: close frame with status %d written", code)
		}
	case want.Event == wsref.EvViolation:
		if code != 1002 {
			return st, fmt.Errorf("frame %d breaks a rule (%s): close status written %d (-1 = none), want 1002; library error: %v", want.AtFrame, want.Why, code, rerr)
		}
	case want.Event == wsref.EvLimit:
		if code != 1009 {
			return st, fmt.Errorf("read limit exceeded: close status written %d (-1 = none), want 1009", code)
		}
	case want.Event == wsref.EvClose:
		// RFC 6455 5.5.1: a Close frame MUST be sent in response; it typically echoes the status
		// code, but only the presence of the frame is required here
		if code == -1 {
			return st, fmt.Errorf("close %d received: no Close frame was written in response", want.CloseCode)
		}
	case want.Event == wsref.EvEOF:
		if code != -1 {
			return st, fmt.Errorf("stream ended without a rule violation, yet a close frame with status %d was written", code)
		}
	}
	return st, nil
}

// ---------------------------------------------------------------- generator

var validCodes = []int{1000, 1001, 1002, 1003, 1007, 1008, 1009, 1010, 1011, 3000, 4999}
var invalidCodes = []int{0, 999, 1004, 1005, 1006, 1015, 2999, 5000, 65535}

func closeBody(code int, reason []byte) []byte {
	return append([]byte{byte(code >> 8), byte(code)}, reason...)
}

func genCase(t *rapid.T) Case {
	c := Case{Server: rapid.Bool().Draw(t, "server"), Cut: -1, ReadBuf: rapid.SampledFrom([]int{0, 1, 14, 20, 64, 124, 125, 126, 300, 4096}).Draw(t, "rbuf")}
	c.Compress = rapid.IntRange(0, 2).Draw(t, "compress") == 0
	good := c.Server // right mask flag for the role
	key := func() uint32 { return rapid.Uint32().Draw(t, "key") }
	n := rapid.IntRange(1, 14).Draw(t, "nitems")
	var msgSizes []int
	add := func(f F) {
		f.Masked = good
		if f.Masked {
			f.Key = key()
		}
		c.Frames = append(c.Frames, f)
	}
	ctrl := func() {
		op := rapid.SampledFrom([]byte{9, 9, 10}).Draw(t, "cop")
		l := rapid.SampledFrom([]int{0, 1, 4, 124, 125}).Draw(t, "clen")
		add(F{Fin: true, Op: op, Len: l, Fill: rapid.Uint64().Draw(t, "cfill")})
	}
	for i := 0; i < n; i++ {
		switch k := rapid.IntRange(0, 11).Draw(t, "item"); {
		case k <= 5: // a data message, possibly fragmented, with control frames in between
			size := rapid.SampledFrom([]int{0, 1, 2, 10, 125, 126, 127, 300, 65535, 65536, 70000}).Draw(t, "msize")
			if rapid.Bool().Draw(t, "msizek") {
				size = rapid.IntRange(0, 400).Draw(t, "msizeu")
			}
			parts := rapid.IntRange(1, 4).Draw(t, "parts")
			op := byte(rapid.IntRange(1, 2).Draw(t, "mop"))
			if c.Compress && rapid.Bool().Draw(t, "deflated") {
				// a compressed message: RSV1 on its first frame, the DEFLATE stream cut into the fragments
				plain := rtmpx.Fill(min(size, 3000), rapid.Uint64().Draw(t, "dfill"))
				if rapid.Bool().Draw(t, "flat") {
					plain = bytes.Repeat([]byte("abcd"), len(plain)/4)
				}
				comp := wsref.Deflate(plain, rapid.IntRange(1, 9).Draw(t, "dlevel"))
				msgSizes = append(msgSizes, len(comp))
				for p := 0; p < parts; p++ {
					l := len(comp)
					if p < parts-1 {
						l = rapid.IntRange(0, len(comp)).Draw(t, "dplen")
					}
					f := F{Fin: p == parts-1, Op: op, Body: append(ev.Hex{}, comp[:l]...)}
					comp = comp[l:]
					if p == 0 {
						f.RSV = 4
					} else {
						f.Op = 0
					}
					add(f)
					if p < parts-1 && rapid.IntRange(0, 2).Draw(t, "dinter") == 0 {
						ctrl()
					}
				}
				continue
			}
			msgSizes = append(msgSizes, size)
			left := size
			for p := 0; p < parts; p++ {
				l := left
				if p < parts-1 {
					l = rapid.IntRange(0, left).Draw(t, "plen")
					if rapid.IntRange(0, 3).Draw(t, "zero") == 0 {
						l = 0
					}
				}
				left -= l
				f := F{Fin: p == parts-1, Op: op, Len: l, Fill: rapid.Uint64().Draw(t, "mfill")}
				if p > 0 {
					f.Op = 0
				}
				if rapid.IntRange(0, 5).Draw(t, "nonmin") == 0 {
					if l <= 125 {
						f.LenForm = rapid.SampledFrom([]int{16, 64}).Draw(t, "form1")
					} else if l <= 65535 {
						f.LenForm = 64
					}
				}
				add(f)
				if p < parts-1 && rapid.IntRange(0, 2).Draw(t, "inter") == 0 {
					ctrl()
				}
			}
		case k <= 7:
			ctrl()
		case k == 8: // close
			var body []byte
			switch rapid.IntRange(0, 4).Draw(t, "closek") {
			case 0:
			case 1:
				// an invalid status code, with a reason of any length behind it
				var r []byte
				if rapid.Bool().Draw(t, "badcodereason") {
					r = bytes.Repeat([]byte("why "), 31)[:rapid.SampledFrom([]int{1, 10, 90, 97, 98, 99, 110, 122, 123}).Draw(t, "bcrlen")]
				}
				body = closeBody(rapid.SampledFrom(invalidCodes).Draw(t, "badcode"), r)
			case 2:
				// a reason that is not UTF-8, of any length a close frame can carry (2+123 bytes)
				n := rapid.SampledFrom([]int{1, 2, 3, 20, 50, 82, 83, 86, 100, 122, 123}).Draw(t, "badlen")
				if rapid.Bool().Draw(t, "badlenu") {
					n = rapid.IntRange(1, 123).Draw(t, "badlenn")
				}
				bad := rapid.SampledFrom([][]byte{{0xff}, {0xc0, 0x80}, {0xed, 0xa0, 0x80}, {0xe2, 0x82}, {0x80}, {0xf8, 0x88, 0x80, 0x80, 0x80}}).Draw(t, "badseq")
				reason := bytes.Repeat([]byte("r"), n)
				if rapid.IntRange(0, 3).Draw(t, "allbad") == 0 {
					reason = bytes.Repeat([]byte{0xff}, n)
				}
				at := rapid.IntRange(0, n-1).Draw(t, "badat")
				if string(bad) == "\xe2\x82" || at+len(bad) > n {
					at = max(n-len(bad), 0) // a truncated sequence is invalid only at the very end
				}
				copy(reason[at:], bad)
				if utf8.Valid(reason) {
					reason[n-1] = 0xff
				}
				body = closeBody(rapid.SampledFrom(validCodes).Draw(t, "code"), reason)
			default:
				r := []byte(rapid.StringMatching(`[a-zé]{0,20}`).Draw(t, "reason"))
				if rapid.IntRange(0, 3).Draw(t, "longreason") == 0 {
					r = bytes.Repeat([]byte("é~"), 41)[:rapid.SampledFrom([]int{120, 123}).Draw(t, "lrn")] // 3-byte units: both cuts end on a character boundary
				}
				body = closeBody(rapid.SampledFrom(validCodes).Draw(t, "code"), r)
			}
			if body == nil {
				body = []byte{}
			}
			add(F{Fin: true, Op: 8, Body: body})
		default: // one rule violation
			switch rapid.IntRange(0, 8).Draw(t, "viol") {
			case 0:
				rsv := rapid.SampledFrom([]byte{1, 2, 4, 7, 3, 5, 6}).Draw(t, "rsv")
				if c.Compress && rsv == 4 {
					// with permessage-deflate RSV1 alone is legal on a first data frame; RSV1 on control and continuation
					// frames (RFC 7692 6.1 says fail; this library, like its upstream, lets it pass) is not part of the
					// statement, which speaks of RFC 6455: not generated, not judged
					rsv = rapid.SampledFrom([]byte{5, 6, 7, 1, 2, 3}).Draw(t, "rsvc")
				}
				vf := F{Fin: true, Op: byte(rapid.IntRange(1, 2).Draw(t, "vop")), RSV: rsv, Len: 3}
				if rapid.IntRange(0, 2).Draw(t, "rsvonctl") == 0 && rsv&3 != 0 {
					vf.Op = rapid.SampledFrom([]byte{9, 10}).Draw(t, "rsvctlop")
				}
				add(vf)
			case 1:
				add(F{Fin: true, Op: rapid.SampledFrom([]byte{3, 4, 5, 6, 7, 11, 12, 15}).Draw(t, "badop"), Len: 2})
			case 2:
				add(F{Fin: true, Op: rapid.SampledFrom([]byte{8, 9, 10}).Draw(t, "bigctl"), Len: rapid.SampledFrom([]int{126, 127, 200}).Draw(t, "bigctllen"), Body: nil})
			case 3:
				add(F{Fin: false, Op: rapid.SampledFrom([]byte{8, 9, 10}).Draw(t, "fragctl"), Len: 2})
			case 4:
				add(F{Fin: rapid.Bool().Draw(t, "cfin"), Op: 0, Len: 5})
			case 5:
				add(F{Fin: false, Op: 1, Len: 5})
				add(F{Fin: true, Op: byte(rapid.IntRange(1, 2).Draw(t, "vop2")), Len: 5})
			case 6:
				f := F{Fin: true, Op: byte(rapid.IntRange(1, 2).Draw(t, "vop3")), Len: 4}
				add(f)
				c.Frames[len(c.Frames)-1].Masked = !good
			case 7:
				top := F{Fin: rapid.Bool().Draw(t, "tfin"), Op: byte(rapid.IntRange(1, 2).Draw(t, "vop4")), LenForm: 64,
					Declared: rapid.SampledFrom([]uint64{1 << 63, 1<<63 + 1, 1<<64 - 1, 1<<63 + 100, 1<<64 - 5, 1<<64 - 6, 1<<64 - 256}).Draw(t, "topbit"), Len: rapid.SampledFrom([]int{0, 100}).Draw(t, "toplen")}
				if rapid.Bool().Draw(t, "topcont") {
					// the top-bit length arrives in a continuation frame, after some bytes of the message
					add(F{Fin: false, Op: top.Op, Len: rapid.SampledFrom([]int{0, 1, 5, 6, 255, 256, 300}).Draw(t, "toppre"), Fill: 77})
					top.Op = 0
				}
				add(top)
			default:
				add(F{Fin: true, Op: 9, Len: 3, LenForm: 16})
			}
		}
	}
	// read limit relative to the message sizes
	switch rapid.IntRange(0, 3).Draw(t, "limk") {
	case 0:
		c.Limit = 0
	case 1:
		c.Limit = int64(rapid.SampledFrom([]int{1, 10, 125, 126, 65536}).Draw(t, "limc"))
	default:
		if len(msgSizes) > 0 {
			s := rapid.SampledFrom(msgSizes).Draw(t, "lims")
			c.Limit = int64(s + rapid.IntRange(-1, 1).Draw(t, "limd"))
			if c.Limit < 1 {
				c.Limit = 1
			}
		}
	}
	c.SegKind = rapid.IntRange(0, xport.SegKinds-1).Draw(t, "segk")
	if c.SegKind == 2 || c.SegKind == 3 || c.SegKind == 5 {
		c.Seg = rapid.SliceOfN(rapid.IntRange(1, 30), 1, 6).Draw(t, "seg")
	}
	c.LocalClose = rapid.IntRange(0, 5).Draw(t, "localclose") == 0
	if rapid.IntRange(0, 3).Draw(t, "cutk") == 0 {
		total := 0
		for _, f := range c.Frames {
			total += len(f.frame().Bytes())
		}
		if total > 0 {
			c.Cut = rapid.IntRange(0, total-1).Draw(t, "cut")
		}
	}
	return c
}

var recSeq = ev.New(prop, "sequences",
	"rapid-generated frame sequences (<=14 items: data messages in 1-4 fragments incl. zero-length ones with pings/pongs in between, control frames, closes with valid/invalid codes and UTF-8/non-UTF-8 reasons, "+
		"one-rule violations incl. 64-bit lengths with the top bit set, non-minimal length forms) for both roles, read limits relative to the message sizes, optional cut offset, segmented reads, several read-buffer sizes, optionally after the application has sent its own Close (frames are still delivered, nothing more is written); "+
		"oracle = RFC 6455 receiver model (delivered messages, error kind, pongs, close status written); non-trivial = ends in a violation/limit/close or contains a fragmented message").
	Require("violation", "limit", "close", "eof", "fragmented", "cut", "pongs", "server", "client", "local-close-sent-first", "ping-after-local-close")

func classes(c Case, st stats) (bool, []string) {
	cl := []string{st.event.String()}
	if st.fragmented {
		cl = append(cl, "fragmented")
	}
	if c.Cut >= 0 {
		cl = append(cl, "cut")
	}
	if st.pongs > 0 {
		cl = append(cl, "pongs")
	}
	if c.Server {
		cl = append(cl, "server")
	} else {
		cl = append(cl, "client")
	}
	if c.LocalClose {
		cl = append(cl, "local-close-sent-first")
		if st.pongs > 0 {
			cl = append(cl, "ping-after-local-close")
		}
	}
	return st.event != wsref.EvEOF || st.fragmented, cl
}

// TestSideBySide: independent connections reading on several goroutines at once.
func TestSideBySide(t *testing.T) {
	ev.Parallel(t, prop, "side-by-side", 4, 200, 100, genCase, func(c Case) error { _, e := runCase(c); return e })
}

func TestSequences(t *testing.T) {
	ev.Rapid(t, "sequences", 6000, 400000, func(t *rapid.T) {
		c := genCase(t)
		var st stats
		err := ev.Try(func() error {
			var e error
			st, e = runCase(c)
			return e
		})
		nt, cl := classes(c, st)
		recSeq.Case(nt, ev.Hash(c), cl, func() any { return brief(c) })
		if err != nil {
			fail(t, "sequences", c, err)
		}
	})
}

func brief(c Case) any {
	var fs []string
	for _, f := range c.Frames {
		s := fmt.Sprintf("op%d", f.Op)
		if f.Fin {
			s += "F"
		}
		if f.RSV != 0 {
			s += fmt.Sprintf("r%d", f.RSV)
		}
		if f.Masked {
			s += "m"
		}
		n := f.Len
		if f.Body != nil {
			n = len(f.Body)
		}
		s += fmt.Sprintf("/%d", n)
		if f.Declared != 0 {
			s += fmt.Sprintf("(declared %d)", f.Declared)
		}
		fs = append(fs, s)
	}
	return map[string]any{"server": c.Server, "limit": c.Limit, "cut": c.Cut, "frames": fs}
}

// TestEveryCut: for hand-built representative sessions, every cut offset.
func TestEveryCut(t *testing.T) {
	rec := ev.New(prop, "every-cut", "3 representative sessions (fragmented messages with interleaved pings, 16/64-bit lengths, a final close) x both roles x every cut offset 0..len; non-trivial = cut strictly inside a frame")
	rec.Exhaustive()
	for _, server := range []bool{true, false} {
		sessions := [][]F{
			{{Fin: false, Op: 1, Len: 5, Fill: 1}, {Fin: true, Op: 9, Len: 4, Fill: 2}, {Fin: false, Op: 0, Len: 0}, {Fin: true, Op: 0, Len: 130, Fill: 3}, {Fin: true, Op: 2, Len: 3, Fill: 4}, {Fin: true, Op: 8, Body: closeBody(1000, []byte("bye"))}},
			{{Fin: true, Op: 2, Len: 126, Fill: 5}, {Fin: true, Op: 10, Len: 125, Fill: 6}, {Fin: true, Op: 2, Len: 300, Fill: 7, LenForm: 64}, {Fin: true, Op: 9, Len: 0}},
			{{Fin: false, Op: 2, Len: 1, Fill: 8}, {Fin: false, Op: 0, Len: 1, Fill: 9}, {Fin: true, Op: 0, Len: 1, Fill: 10}, {Fin: true, Op: 1, Len: 0}},
		}
		for _, s := range sessions {
			total := 0
			ends := map[int]bool{0: true}
			for i := range s {
				s[i].Masked = server
				s[i].Key = uint32(0x01020304 * (i + 1))
				total += len(s[i].frame().Bytes())
				ends[total] = true
			}
			for cut := 0; cut <= total; cut++ {
				for _, lim := range []int64{0, 131} {
					c := Case{Server: server, Frames: s, Cut: cut, Limit: lim, ReadBuf: 0}
					if cut == total {
						c.Cut = -1
					}
					err := ev.Try(func() error { _, e := runCase(c); return e })
					rec.Case(!ends[cut], ev.Hash(c), nil, func() any { return brief(c) })
					if err != nil {
						fail(t, "sequences", c, err)
					}
				}
			}
		}
	}
}

// ---------------------------------------------------------------- bounded-exhaustive odometer

type sym struct {
	op        byte
	fin       bool
	rsv       byte
	wrongMask bool
	lenk      int // 0:0 1:1(close: invalid code) 2:2(close: code 1000) 3:125 4:126 as 16-bit 5: 5 bytes in 16-bit form 6: declared 2^63 7: declared 2^63-1 8: 65536 in 64-bit form 9: declared 2^64-1
}

func (s sym) frame(server bool) F {
	f := F{Fin: s.fin, Op: s.op, RSV: s.rsv, Masked: server != s.wrongMask, Key: 0xa1b2c3d4}
	set := func(n int) {
		f.Len, f.Fill = n, uint64(n)+uint64(s.op)
		if s.op == 8 {
			switch {
			case n == 1:
				f.Body = closeBody(1005, nil)
			case n == 2:
				f.Body = closeBody(1000, nil)
			case n >= 2:
				f.Body = closeBody(1001, bytes.Repeat([]byte("a"), n-2))
			default:
				f.Body = []byte{}
			}
		}
	}
	switch s.lenk {
	case 0:
		set(0)
	case 1:
		set(1)
	case 2:
		set(2)
	case 3:
		set(125)
	case 4:
		set(126)
	case 5:
		set(5)
		f.LenForm = 16
	case 6:
		set(0)
		f.LenForm, f.Declared = 64, 1<<63
	case 7:
		set(3)
		f.LenForm, f.Declared = 64, 1<<63-1
	case 8:
		set(65536)
	case 9:
		set(2)
		f.LenForm, f.Declared = 64, 1<<64-1
	}
	return f
}

func TestOdometer(t *testing.T) {
	depth := ev.N(2, 3)
	lenks := []int{0, 1, 3, 4, 5, 6, 9}
	if ev.Thorough() {
		lenks = []int{0, 1, 2, 3, 4, 5, 6, 7, 8, 9}
	}
	rec := ev.New(prop, "odometer", fmt.Sprintf("depth-first enumeration to depth %d (pruned at the first terminal event) over opcode {0,1,2,8,9,10,3,11} x FIN x RSV {none,RSV1%s} x mask {right,wrong} x length class %v "+
		"x read limit {none,1,126} x both roles; all count as non-trivial", depth, map[bool]string{true: ",RSV2,RSV3", false: ""}[ev.Thorough()], lenks))
	rec.Exhaustive()
	ops := []byte{0, 1, 2, 8, 9, 10, 3, 11}
	rsvs := []byte{0, 4}
	if ev.Thorough() {
		rsvs = []byte{0, 4, 2, 1}
	}
	var alphabet []sym
	for _, op := range ops {
		for _, fin := range []bool{true, false} {
			for _, rsv := range rsvs {
				for _, wm := range []bool{false, true} {
					for _, lk := range lenks {
						alphabet = append(alphabet, sym{op, fin, rsv, wm, lk})
					}
				}
			}
		}
	}
	idx := 0
	for _, server := range []bool{true, false} {
		for _, lim := range []int64{0, 1, 126} {
			var dfs func(prefix []F, model []wsref.Frame)
			dfs = func(prefix []F, model []wsref.Frame) {
				for _, s := range alphabet {
					f := s.frame(server)
					fr := f.frame()
					seq := append(append([]F(nil), prefix...), f)
					m := append(append([]wsref.Frame(nil), model...), fr)
					o := wsref.Receive(m, server, lim)
					terminal := o.Event != wsref.EvEOF || o.AtFrame < len(m)
					if terminal || len(seq) == depth {
						idx++
						if idx%ev.Shards() == ev.Shard() {
							c := Case{Server: server, Limit: lim, Frames: seq, Cut: -1, ReadBuf: 0}
							err := ev.Try(func() error { _, e := runCase(c); return e })
							rec.Case(true, ev.Hash(c), []string{o.Event.String()}, func() any { return brief(c) })
							if err != nil {
								fail(t, "sequences", c, err)
							}
						}
						continue
					}
					dfs(seq, m)
				}
			}
			dfs(nil, nil)
		}
	}
}

func replayers() map[string]ev.Replayer {
	f := func(raw json.RawMessage) error {
		var c Case
		if err := json.Unmarshal(raw, &c); err != nil {
			return err
		}
		_, e := runCase(c)
		return e
	}
	return map[string]ev.Replayer{"sequences": f, "side-by-side": f}
}

func TestRegress(t *testing.T) { ev.Regress(t, prop, replayers()) }
func TestReplay(t *testing.T) {
	if os.Getenv("VERIF_REPLAY") == "" {
		t.Skip("no VERIF_REPLAY")
	}
	ev.Replay(t, prop, replayers())
}
