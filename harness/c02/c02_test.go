// C02: the RTMP reader decodes every chunk stream a specification-conformant sender can emit
// (reference chunker = internal/ref/rtmpref), and rejects streams that break the rules it relies on.
package c02

import (
	"bytes"
	"encoding/binary"
	"encoding/json"
	"fmt"
	"io"
	"os"
	"testing"

	oe "github.com/ossrs/go-oryx-lib/errors"
	"github.com/ossrs/go-oryx-lib/rtmp"
	"pgregory.net/rapid"
	"verif/harness/internal/ev"
	"verif/harness/internal/ref/rtmpref"
	"verif/harness/internal/rtmpx"
	"verif/harness/internal/xport"
)

const prop = "C02"
const sigExtDelta = "rtmp.ext-ts.delta"

func TestMain(m *testing.M) { ev.Main(m) }

// TMsg is one message of a trace with the sender's encoding decisions.
type TMsg struct {
	Cid  uint32 `json:"cid"`
	Form int    `json:"form"`
	Fmt  int    `json:"fmt"`
	Type uint8  `json:"type"`
	Sid  uint32 `json:"sid"`
	Ts   uint32 `json:"ts"`
	Len  int    `json:"len"`
	Fill uint64 `json:"fill,omitempty"`
	Body ev.Hex `json:"body,omitempty"`
}

func (m TMsg) msg() rtmpref.Msg {
	p := []byte(m.Body)
	if m.Body == nil {
		p = rtmpx.Fill(m.Len, m.Fill)
	}
	return rtmpref.Msg{Type: m.Type, StreamID: m.Sid, Timestamp: m.Ts, Payload: p}
}

// Break is the single rule violation appended to a conformant (sequential) trace.
type Break struct {
	Kind string `json:"kind"` // fmt0-inside | length-changed | fresh-fmt
	Cid  uint32 `json:"cid"`
	Form int    `json:"form"`
	Fmt  int    `json:"fmt,omitempty"`
}

type Case struct {
	Msgs     []TMsg  `json:"msgs"`
	Sched    []int   `json:"sched,omitempty"` // interleaving choices; empty = sequential
	SegKind  int     `json:"seg_kind"`
	Seg      []int   `json:"seg,omitempty"`
	Break    *Break  `json:"break,omitempty"`
	Local    []Local `json:"local,omitempty"`    // Set Chunk Size packets this endpoint sends itself while reading
	Redecode int     `json:"redecode,omitempty"` // > 0: after every Redecode-th message the application decodes one of the messages it received earlier once more
}

// Local: before reading message At, the reading endpoint writes a Set Chunk Size of its own.
type Local struct {
	At   int    `json:"at"`
	Size uint32 `json:"size"`
}

// ---------------------------------------------------------------- trace -> bytes

type built struct {
	wire       []byte
	want       []rtmpref.Msg // completion order
	interleave bool
	midScs     bool
	extDelta   bool
}

func build(c Case) (b built, err error) {
	ch := rtmpref.NewChunker()
	type fl struct {
		p   *rtmpref.Pending
		msg rtmpref.Msg
		cid uint32
	}
	var inflight []fl
	next := 0
	si := 0
	draw := func(n int) int {
		if len(c.Sched) == 0 {
			return 0
		}
		v := c.Sched[si%len(c.Sched)]
		si++
		if v < 0 {
			v = -v
		}
		return v % n
	}
	cidBusy := func(cid uint32) bool {
		for _, f := range inflight {
			if f.cid == cid {
				return true
			}
		}
		return false
	}
	for next < len(c.Msgs) || len(inflight) > 0 {
		canStart := next < len(c.Msgs) && len(inflight) < 4 && !cidBusy(c.Msgs[next].Cid)
		if len(c.Sched) == 0 {
			canStart = canStart && len(inflight) == 0
		}
		nopt := len(inflight)
		if canStart {
			nopt++
		}
		if nopt == 0 {
			return b, fmt.Errorf("trace builder stuck")
		}
		k := draw(nopt)
		var cur fl
		if canStart && k == nopt-1 {
			tm := c.Msgs[next]
			next++
			m := tm.msg()
			legal := ch.Legal(tm.Cid, m)
			ok := false
			for _, l := range legal {
				if l == tm.Fmt {
					ok = true
				}
			}
			if !ok {
				return b, fmt.Errorf("trace message %d: fmt %d is not legal here (legal %v)", next-1, tm.Fmt, legal)
			}
			p := ch.Begin(rtmpref.Item{Cid: tm.Cid, Form: tm.Form, Fmt: tm.Fmt, Msg: m})
			if p.ExtDelta {
				b.extDelta = true
			}
			cur = fl{p, m, tm.Cid}
			inflight = append(inflight, cur)
			if len(inflight) > 1 {
				b.interleave = true
			}
		} else {
			cur = inflight[k]
		}
		before := ch.ChunkSize
		b.wire = append(b.wire, ch.Next(cur.p)...)
		if cur.p.Done() {
			b.want = append(b.want, cur.msg)
			if ch.ChunkSize != before && len(inflight) > 1 {
				b.midScs = true
			}
			for i := range inflight {
				if inflight[i].p == cur.p {
					inflight = append(inflight[:i], inflight[i+1:]...)
					break
				}
			}
		}
	}
	return b, nil
}

func basicHeader(f int, cid uint32, form int) []byte {
	switch form {
	case 1:
		return []byte{byte(f<<6) | byte(cid)}
	case 2:
		return []byte{byte(f << 6), byte(cid - 64)}
	}
	v := cid - 64
	return []byte{byte(f<<6) | 1, byte(v), byte(v >> 8)}
}

// breakBytes renders the rule violation. Returns the bytes and how many whole messages of the
// violation's own setup complete before the offending chunk.
func breakBytes(br Break, chunkSize uint32) (wire []byte) {
	n := int(chunkSize) + 5 // a message of two chunks
	hdr0 := func(l int) []byte {
		return []byte{0, 0, 10, byte(l >> 16), byte(l >> 8), byte(l), 9, 1, 0, 0, 0}
	}
	switch br.Kind {
	case "fmt0-inside":
		wire = append(wire, basicHeader(0, br.Cid, br.Form)...)
		wire = append(wire, hdr0(n)...)
		wire = append(wire, make([]byte, chunkSize)...)
		// offending chunk: a type-0 header while the message is unfinished
		wire = append(wire, basicHeader(0, br.Cid, br.Form)...)
		wire = append(wire, hdr0(n)...)
		wire = append(wire, make([]byte, chunkSize)...)
		wire = append(wire, basicHeader(3, br.Cid, br.Form)...)
		wire = append(wire, make([]byte, 5)...)
	case "length-changed":
		wire = append(wire, basicHeader(0, br.Cid, br.Form)...)
		wire = append(wire, hdr0(n)...)
		wire = append(wire, make([]byte, chunkSize)...)
		// offending chunk: type-1 continuation announcing another length
		wire = append(wire, basicHeader(1, br.Cid, br.Form)...)
		l := n + 1
		wire = append(wire, 0, 0, 0, byte(l>>16), byte(l>>8), byte(l), 9)
		wire = append(wire, make([]byte, 6)...)
	case "fresh-fmt":
		// a chunk stream never seen before that starts with fmt 1/2/3
		wire = append(wire, basicHeader(br.Fmt, br.Cid, br.Form)...)
		switch br.Fmt {
		case 1:
			wire = append(wire, 0, 0, 0, 0, 0, 2, 9)
		case 2:
			wire = append(wire, 0, 0, 0)
		}
		wire = append(wire, 1, 2)
	}
	return wire
}

// ---------------------------------------------------------------- execution

type stats struct {
	classes []string
	nontriv bool
}

func runCase(c Case) (st stats, err error) {
	b, err := build(c)
	if err != nil {
		return st, fmt.Errorf("harness: %v", err)
	}
	wire := b.wire
	if c.Break != nil {
		// chunk size in force at the end of the conformant part
		d := rtmpref.NewDechunker()
		if _, e := d.Dechunk(wire); e != nil {
			return st, fmt.Errorf("harness: reference dechunker rejects the reference chunker: %v", e)
		}
		if d.ChunkSize > 1<<16 {
			// a two-chunk message does not fit the 24-bit length field: not a usable break setup
			// (the generator appends a small Set Chunk Size first; only hand-edited replays get here)
			return st, fmt.Errorf("harness: rule-break case with chunk size %d", d.ChunkSize)
		}
		wire = append(wire, breakBytes(*c.Break, d.ChunkSize)...)
	}
	for _, tm := range c.Msgs {
		if tm.Fmt != 0 {
			st.classes = append(st.classes, "fmt"+fmt.Sprint(tm.Fmt))
			st.nontriv = true
		}
		if tm.Form > 1 {
			st.classes = append(st.classes, fmt.Sprintf("form%d", tm.Form))
			st.nontriv = true
		}
		if tm.Ts >= 0xFFFFFF && tm.Fmt == 0 {
			st.classes = append(st.classes, "ext-abs")
		}
	}
	if b.interleave {
		st.classes = append(st.classes, "interleaved")
		st.nontriv = true
	}
	if b.midScs {
		st.classes = append(st.classes, "scs-mid-message")
		st.nontriv = true
	}
	if c.Break != nil {
		st.classes = append(st.classes, "break:"+c.Break.Kind)
		st.nontriv = true
	}
	if b.extDelta && ev.Open(prop, sigExtDelta) {
		return st, fmt.Errorf("harness: trace with an extended delta reached the main check while %s is open", sigExtDelta)
	}

	var r io.Reader = bytes.NewReader(wire)
	br := r.(*bytes.Reader)
	r = xport.Segment(r, c.SegKind, c.Seg)
	p := rtmp.NewProtocol(xport.RW{Reader: r, Writer: io.Discard})
	var kept []*rtmp.Message
	for i, w := range b.want {
		for _, l := range c.Local {
			if l.At == i {
				// this endpoint announces a chunk size of its own for what it sends: the peer's chunk size is unaffected
				scs := rtmp.NewSetChunkSize()
				scs.ChunkSize = l.Size
				if e := p.WritePacket(scs, 0); e != nil {
					return st, fmt.Errorf("before message %d: WritePacket(SetChunkSize %d): %v", i, l.Size, e)
				}
			}
		}
		m, e := p.ReadMessage()
		if e != nil {
			return st, fmt.Errorf("message %d of %d (type=%d sid=%d ts=%d len=%d): ReadMessage: %v", i, len(b.want), w.Type, w.StreamID, w.Timestamp, len(w.Payload), e)
		}
		if e := rtmpx.Same(m, w); e != nil {
			return st, fmt.Errorf("message %d of %d: %v", i, len(b.want), e)
		}
		kept = append(kept, m)
		// decoding a message received earlier (again) is a pure function of that message: it must not touch the reader's state
		if c.Redecode > 0 && i%c.Redecode == 0 {
			p.DecodeMessage(kept[(i*7)%len(kept)])
		}
	}
	for i, m := range kept {
		if e := rtmpx.Same(m, b.want[i]); e != nil {
			return st, fmt.Errorf("message %d of %d changed while later messages were read: %v", i, len(b.want), e)
		}
	}
	m, e := p.ReadMessage()
	if c.Break != nil {
		if e == nil {
			return st, fmt.Errorf("rule break %q on cid %d: ReadMessage returned a message (type=%d ts=%d len=%d) instead of an error", c.Break.Kind, c.Break.Cid, m.MessageType, m.Timestamp, len(m.Payload))
		}
		return st, nil
	}
	if e == nil {
		return st, fmt.Errorf("an extra message (type=%d ts=%d len=%d) was returned after the %d chunked ones", m.MessageType, m.Timestamp, len(m.Payload), len(b.want))
	}
	if oe.Cause(e) != io.EOF || br.Len() != 0 {
		return st, fmt.Errorf("after the last message: error %v (cause %v), %d bytes unread; want a clean EOF", e, oe.Cause(e), br.Len())
	}
	return st, nil
}

// ---------------------------------------------------------------- generator

var cidClasses = []uint32{2, 3, 4, 8, 62, 63, 64, 65, 318, 319, 320, 321, 65598, 65599}
var tsAbs = []uint32{0, 1, 1000, 0xFFFFFE, 0xFFFFFF, 0x1000000, 1<<31 - 1, 1 << 31, 1<<32 - 1}
var tsDelta = []uint32{0, 1, 33, 40, 1000, 0xFFFFFE, 0xFFFFFF, 0x1000000, 1<<31 - 1}

func genCase(t *rapid.T) Case {
	var c Case
	ch := rtmpref.NewChunker()
	type last struct {
		ts, delta, sid uint32
		typ            uint8
		ln             int
		ok             bool
	}
	lastOf := map[uint32]*last{}
	ncid := rapid.IntRange(1, 5).Draw(t, "ncid")
	cids := []uint32{}
	for len(cids) < ncid {
		var cid uint32
		switch k := rapid.IntRange(0, 5).Draw(t, "cidk"); {
		case k == 0:
			cid = uint32(rapid.IntRange(2, 65599).Draw(t, "cidu"))
		case k <= 2 && len(cids) > 0:
			// a relative of an id already in use: ids whose encodings share bytes (+-1, +-64, +-256, one bit apart)
			base := int(cids[rapid.IntRange(0, len(cids)-1).Draw(t, "cidbase")])
			rel := rapid.SampledFrom([]int{1, -1, 64, -64, 256, -256, 512, -512, 255, -255, 0x100 << 4, -(0x100 << 4)}).Draw(t, "cidrel")
			if rapid.IntRange(0, 3).Draw(t, "cidxor") == 0 {
				rel = (base ^ (1 << uint(rapid.IntRange(0, 15).Draw(t, "cidbit")))) - base
			}
			cid = uint32(min(max(base+rel, 2), 65599))
		default:
			cid = rapid.SampledFrom(cidClasses).Draw(t, "cid")
		}
		dup := false
		for _, x := range cids {
			dup = dup || x == cid
		}
		if !dup {
			cids = append(cids, cid)
		}
	}
	forms := map[uint32]int{}
	for _, cid := range cids {
		forms[cid] = rapid.SampledFrom(rtmpref.FormsFor(cid)).Draw(t, "form")
	}
	chunk := uint32(128)
	n := rapid.IntRange(1, 20).Draw(t, "nmsg")
	excluded := 0
	for i := 0; i < n; i++ {
		var tm TMsg
		// Set Chunk Size travels on chunk stream 2, message stream 0
		if rapid.IntRange(0, 7).Draw(t, "scs") == 0 {
			tm.Cid, tm.Form, tm.Type, tm.Sid = 2, 1, 1, 0
			switch rapid.IntRange(0, 2).Draw(t, "csk") {
			case 0:
				chunk = uint32(rapid.IntRange(1, 300).Draw(t, "css"))
			case 1:
				// incl. sizes above 2^24 whose low bytes are small (a size is 31 bits, not 24)
				chunk = rapid.SampledFrom([]uint32{1, 2, 127, 128, 129, 4096, 65536, 1<<31 - 1, 1 << 24, 1<<24 - 1, 1<<24 + 1, 1<<24 + 128, 1<<16 + 1, 1<<30 + 64, 0x7f000010}).Draw(t, "csc")
			default:
				chunk = uint32(rapid.Uint64Range(1, 1<<31-1).Draw(t, "csu"))
			}
			tm.Body = make([]byte, 4)
			binary.BigEndian.PutUint32(tm.Body, chunk)
			tm.Len = 4
		} else {
			tm.Cid = rapid.SampledFrom(cids).Draw(t, "mcid")
			tm.Form = forms[tm.Cid]
		}
		l := lastOf[tm.Cid]
		if l == nil {
			l = &last{}
			lastOf[tm.Cid] = l
		}
		keep := l.ok && l.typ != 1 && rapid.IntRange(0, 3).Draw(t, "keep") > 0 // bias towards compressible headers
		if tm.Type != 1 {
			if keep {
				tm.Sid, tm.Type, tm.Len = l.sid, l.typ, l.ln
				if rapid.IntRange(0, 2).Draw(t, "keeplen") == 0 {
					tm.Len = genLen(t, chunk)
				}
			} else {
				tm.Sid = rapid.SampledFrom([]uint32{0, 1, 2, 1<<32 - 1, 0x01020304}).Draw(t, "sid")
				tm.Type = rapid.SampledFrom([]uint8{8, 9, 18, 20, 3, 6, 22, 0, 255, 4, 5}).Draw(t, "type") // no Abort (type 2): statement
				tm.Len = genLen(t, chunk)
			}
			tm.Fill = rapid.Uint64().Draw(t, "fill")
			switch tm.Type {
			case 4:
				tm.Body = append([]byte{0, byte(rapid.SampledFrom([]int{0, 1, 2, 4, 6, 7}).Draw(t, "evt"))}, rtmpx.Fill(4, tm.Fill)...)
				tm.Len = 6
			case 5, 3:
				tm.Body = rtmpx.Fill(4, tm.Fill) // Window Acknowledgement Size / Acknowledgement
				tm.Len = 4
			case 6:
				tm.Body = append(rtmpx.Fill(4, tm.Fill), byte(tm.Fill%3)) // Set Peer Bandwidth
				tm.Len = 5
			}
		}
		if l.ok && rapid.IntRange(0, 4).Draw(t, "tsrel") > 0 {
			var d uint32
			switch rapid.IntRange(0, 3).Draw(t, "dk") {
			case 0:
				d = l.delta
			case 1:
				d = uint32(rapid.IntRange(0, 100).Draw(t, "ds"))
			default:
				d = rapid.SampledFrom(tsDelta).Draw(t, "d")
			}
			tm.Ts = l.ts + d
		} else if rapid.Bool().Draw(t, "tsk") {
			tm.Ts = rapid.SampledFrom(tsAbs).Draw(t, "tsa")
		} else {
			tm.Ts = rapid.Uint32().Draw(t, "tsu")
		}
		m := tm.msg()
		legal := ch.Legal(tm.Cid, m)
		// prefer the most compressed legal header 2 times out of 3
		if rapid.IntRange(0, 2).Draw(t, "fmtk") > 0 {
			tm.Fmt = legal[len(legal)-1]
		} else {
			tm.Fmt = rapid.SampledFrom(legal).Draw(t, "fmt")
		}
		if tm.Fmt != 0 && ev.Open(prop, sigExtDelta) {
			var d uint32
			if tm.Fmt == 3 {
				d = l.delta
			} else {
				d = tm.Ts - l.ts
			}
			if d >= 0xFFFFFF {
				tm.Fmt = 0 // excluded by construction while the finding is open
				excluded++
			}
		}
		p := ch.Begin(rtmpref.Item{Cid: tm.Cid, Form: tm.Form, Fmt: tm.Fmt, Msg: m})
		_ = p
		if tm.Fmt == 0 {
			l.delta = tm.Ts
		} else if tm.Fmt != 3 {
			l.delta = tm.Ts - l.ts
		}
		l.ts, l.sid, l.typ, l.ln, l.ok = tm.Ts, tm.Sid, tm.Type, len(m.Payload), true
		c.Msgs = append(c.Msgs, tm)
	}
	recTrace.Count("excluded:"+sigExtDelta, int64(excluded))
	switch rapid.IntRange(0, 3).Draw(t, "mode") {
	case 0: // sequential
	default:
		c.Sched = rapid.SliceOfN(rapid.IntRange(0, 11), 1, 24).Draw(t, "sched")
	}
	if rapid.IntRange(0, 2).Draw(t, "redecodek") == 0 {
		c.Redecode = rapid.IntRange(1, 3).Draw(t, "redecode")
	}
	for k := rapid.IntRange(0, 2).Draw(t, "nlocal"); k > 0 && rapid.Bool().Draw(t, "local"); k-- {
		c.Local = append(c.Local, Local{At: rapid.IntRange(0, len(c.Msgs)).Draw(t, "localat"), Size: rapid.SampledFrom([]uint32{1, 64, 127, 129, 4096, 65536, 1 << 24}).Draw(t, "localsize")})
	}
	c.SegKind = rapid.IntRange(0, xport.SegKinds-1).Draw(t, "segk")
	if c.SegKind == 2 || c.SegKind == 3 || c.SegKind == 5 {
		c.Seg = rapid.SliceOfN(rapid.IntRange(1, 20), 1, 8).Draw(t, "seg")
	}
	if rapid.IntRange(0, 4).Draw(t, "neg") == 0 {
		c.Sched = nil
		br := &Break{Kind: rapid.SampledFrom([]string{"fmt0-inside", "length-changed", "fresh-fmt"}).Draw(t, "bk")}
		if br.Kind == "fresh-fmt" {
			for {
				br.Cid = uint32(rapid.IntRange(2, 65599).Draw(t, "bcid"))
				if _, used := lastOf[br.Cid]; !used {
					break
				}
			}
			br.Fmt = rapid.IntRange(1, 3).Draw(t, "bfmt")
			if br.Cid == 2 && br.Fmt == 1 {
				br.Fmt = 2 // the librtmp form is legal for the library (checked separately)
			}
		} else {
			br.Cid = rapid.SampledFrom(cids).Draw(t, "bcid2")
		}
		br.Form = rapid.SampledFrom(rtmpref.FormsFor(br.Cid)).Draw(t, "bform")
		if f, ok := forms[br.Cid]; ok {
			br.Form = f
		}
		c.Break = br
		if chunk > 1<<16 {
			// the break setup needs a two-chunk message: bring the chunk size down first
			c.Msgs = append(c.Msgs, TMsg{Cid: 2, Form: 1, Fmt: 0, Type: 1, Ts: c.Msgs[len(c.Msgs)-1].Ts, Body: ev.Hex{0, 0, 0, 64}, Len: 4})
		}
	}
	return c
}

func genLen(t *rapid.T, c uint32) int {
	cc := int(c)
	if cc > 1<<16 {
		cc = 1 << 16
	}
	cands := []int{0, 1, cc - 1, cc, cc + 1, 2*cc - 1, 2 * cc, 2*cc + 1, 3*cc + 7}
	var n int
	if rapid.IntRange(0, 2).Draw(t, "lenk") == 0 {
		n = rapid.IntRange(0, 600).Draw(t, "lenu")
	} else {
		n = rapid.SampledFrom(cands).Draw(t, "len")
	}
	if n < 0 {
		n = 0
	}
	if n > 70000 {
		n = 70000
	}
	if c < 8 && n > 2000 {
		n = 2000
	}
	return n
}

// ---------------------------------------------------------------- checks

var recTrace = ev.New(prop, "trace",
	"rapid-generated traces for the reference chunker: <=20 messages over <=5 chunk streams (ids 2..65599, every basic-header form), header type drawn among those legal in the chunk stream's state "+
		"(biased to the most compressed), boundary timestamps/deltas, lengths relative to the chunk size incl. 0, up to 4 messages interleaved by a drawn schedule, Set Chunk Size in between, "+
		"1 in 5 traces ends in one rule break; non-trivial = a message starts with fmt!=0, or a multi-byte chunk stream id, or interleaving, or chunk size change mid-message, or a rule break").
	Require("fmt1", "fmt2", "fmt3", "form2", "form3", "interleaved", "scs-mid-message", "break:fmt0-inside", "break:length-changed", "break:fresh-fmt", "ext-abs")

func check(rec *ev.Recorder, c Case) error {
	var st stats
	err := ev.Try(func() error {
		var e error
		st, e = runCase(c)
		return e
	})
	rec.Case(st.nontriv, ev.Hash(c), st.classes, func() any { return c })
	return err
}

func TestTrace(t *testing.T) {
	ev.Rapid(t, "trace", 6000, 400000, func(t *rapid.T) {
		c := genCase(t)
		if err := check(recTrace, c); err != nil {
			p := ev.Fail(prop, "trace", c, err)
			t.Fatalf("%v (replay %s)", err, p)
		}
	})
}

// TestOdometer: bounded-exhaustive enumeration over the abstract alphabet
// {legal fmt} x {cid form} x {ts class} x {len class} x {chunk size}, depth 2 (quick) / 3 (thorough).
func TestOdometer(t *testing.T) {
	depth := ev.N(2, 3)
	rec := ev.New(prop, "odometer", fmt.Sprintf("odometer, depth %d: chunk size {1,2,128,4096} x chunk-stream pair (1-,2-,3-byte forms) x per message {chunk stream A|B} x {fmt 0..3 if legal} x "+
		"{ts/delta class 0,1000,0xFFFFFE,0xFFFFFF,2^31-1,2^32-1} x {len class 0,1,c-1,c,c+1,2c+1}; every legal combination is run; non-trivial = any fmt!=0 or multi-byte id", depth))
	rec.Exhaustive()
	type cf struct {
		cid  uint32
		form int
	}
	pairs := [][2]cf{{{3, 1}, {64, 2}}, {{64, 2}, {319, 3}}, {{64, 3}, {4, 1}}, {{320, 3}, {65599, 3}}, {{65599, 3}, {2, 1}}}
	tsc := []uint32{0, 1000, 0xFFFFFE, 0xFFFFFF, 1<<31 - 1, 1<<32 - 1}
	open := ev.Open(prop, sigExtDelta)
	idx := 0
	excluded := int64(0)
	for _, cs := range []uint32{1, 2, 128, 4096} {
		lens := []int{0, 1, int(cs) - 1, int(cs), int(cs) + 1, 2*int(cs) + 1}
		for _, pr := range pairs {
			var rec2 func(prefix []TMsg, ch *rtmpref.Chunker, d int)
			run := func(msgs []TMsg) {
				idx++
				if idx%ev.Shards() != ev.Shard() {
					return
				}
				c := Case{Msgs: msgs}
				if cs != 128 {
					b := make([]byte, 4)
					binary.BigEndian.PutUint32(b, cs)
					c.Msgs = append([]TMsg{{Cid: 2, Form: 1, Type: 1, Body: b, Len: 4}}, msgs...)
				}
				if err := check(rec, c); err != nil {
					p := ev.Fail(prop, "odometer", c, err)
					t.Fatalf("%v (replay %s)", err, p)
				}
			}
			rec2 = func(prefix []TMsg, ch *rtmpref.Chunker, d int) {
				if d == depth {
					run(prefix)
					return
				}
				for ci := 0; ci < 2; ci++ {
					if d == 0 && ci == 1 {
						continue // symmetry
					}
					var prev *TMsg
					for i := range prefix {
						if prefix[i].Cid == pr[ci].cid {
							prev = &prefix[i]
						}
					}
					for f := 0; f <= 3; f++ {
						if prev == nil && f != 0 {
							continue
						}
						for ti, tv := range tsc {
							if f == 3 && ti > 0 {
								continue
							}
							for li, lv := range lens {
								if f >= 2 && li > 0 {
									continue
								}
								if lv < 0 {
									continue
								}
								tm := TMsg{Cid: pr[ci].cid, Form: pr[ci].form, Fmt: f, Type: 9, Sid: 1, Len: lv, Fill: uint64(d + 1)}
								switch f {
								case 0:
									tm.Ts = tv
								case 1:
									tm.Ts = prev.Ts + tv
								case 2:
									tm.Ts = prev.Ts + tv
									tm.Len = prev.Len
								case 3:
									tm.Len = prev.Len
								}
								// clone chunker state by replaying the prefix
								ch2 := rtmpref.NewChunker()
								for _, pm := range prefix {
									ch2.Begin(rtmpref.Item{Cid: pm.Cid, Form: pm.Form, Fmt: pm.Fmt, Msg: rtmpref.Msg{Type: pm.Type, StreamID: pm.Sid, Timestamp: pm.Ts, Payload: make([]byte, pm.Len)}})
								}
								if f == 3 {
									// delta = previous delta on this chunk stream
									tm.Ts = prev.Ts + deltaOf(prefix, pr[ci].cid)
								}
								m := rtmpref.Msg{Type: tm.Type, StreamID: tm.Sid, Timestamp: tm.Ts, Payload: make([]byte, tm.Len)}
								legal := false
								for _, l := range ch2.Legal(tm.Cid, m) {
									legal = legal || l == f
								}
								if !legal {
									continue
								}
								if f != 0 && open {
									d := tm.Ts - prev.Ts
									if d >= 0xFFFFFF {
										excluded++
										continue
									}
								}
								rec2(append(append([]TMsg(nil), prefix...), tm), nil, d+1)
							}
						}
					}
				}
			}
			rec2(nil, nil, 0)
		}
	}
	rec.Count("excluded:"+sigExtDelta, excluded)
}

// deltaOf computes the delta in force on a chunk stream after a prefix (spec: the delta of the
// last fmt 1/2 header, or the timestamp of the last fmt 0 header).
func deltaOf(prefix []TMsg, cid uint32) uint32 {
	var ts, delta uint32
	for _, m := range prefix {
		if m.Cid != cid {
			continue
		}
		switch m.Fmt {
		case 0:
			delta = m.Ts
		case 1, 2:
			delta = m.Ts - ts
		}
		ts = m.Ts
	}
	return delta
}

// TestLibrtmpPing: the documented exception - a fresh chunk stream 2 starting with fmt 1
// (6-byte user control ping) must be accepted, also after traffic on other chunk streams.
func TestLibrtmpPing(t *testing.T) {
	rec := ev.New(prop, "librtmp-ping", "the documented librtmp form (fresh chunk stream 2, fmt 1, 6-byte ping) after 0..3 conformant messages on other chunk streams, with 4 delta values; all non-trivial")
	rec.Exhaustive()
	for pre := 0; pre <= 3; pre++ {
		for _, delta := range []uint32{0, 1, 0x0d0f, 0xFFFFFE} {
			for seg := 0; seg < 2; seg++ {
				ch := rtmpref.NewChunker()
				var wire []byte
				var want []rtmpref.Msg
				for i := 0; i < pre; i++ {
					m := rtmpref.Msg{Type: 9, StreamID: 1, Timestamp: uint32(i * 40), Payload: rtmpx.Fill(100+i*100, uint64(i+1))}
					wire = append(wire, ch.Whole(rtmpref.Item{Cid: uint32(3 + i), Form: 1, Fmt: 0, Msg: m})...)
					want = append(want, m)
				}
				ping := []byte{0x42, byte(delta >> 16), byte(delta >> 8), byte(delta), 0, 0, 6, 4, 0, 6, 0, 0, 0x0d, 0x0f}
				wire = append(wire, ping...)
				want = append(want, rtmpref.Msg{Type: 4, StreamID: 0, Timestamp: delta, Payload: ping[8:]})
				type pcase struct {
					Wire ev.Hex `json:"wire"`
					Seg  int    `json:"seg"`
				}
				pc := pcase{wire, seg}
				err := ev.Try(func() error { return readAll(wire, seg, want) })
				rec.Case(true, ev.Hash(pc), nil, func() any { return pc })
				if err != nil {
					p := ev.Fail(prop, "librtmp-ping", pc, err)
					t.Fatalf("%v (replay %s)", err, p)
				}
			}
		}
	}
}

func readAll(wire []byte, seg int, want []rtmpref.Msg) error {
	var r io.Reader = bytes.NewReader(wire)
	if seg != 0 {
		r = &xport.SegReader{R: r, Sched: []int{1}}
	}
	p := rtmp.NewProtocol(xport.RW{Reader: r, Writer: io.Discard})
	for i, w := range want {
		m, e := p.ReadMessage()
		if e != nil {
			return fmt.Errorf("message %d of %d (type=%d ts=%d len=%d): ReadMessage: %v", i, len(want), w.Type, w.Timestamp, len(w.Payload), e)
		}
		if e := rtmpx.Same(m, w); e != nil {
			return fmt.Errorf("message %d of %d: %v", i, len(want), e)
		}
	}
	return nil
}

// TestKnownExtDelta probes the open finding rtmp.ext-ts.delta with exactly the listed input.
func TestKnownExtDelta(t *testing.T) {
	ch := rtmpref.NewChunker()
	m1 := rtmpref.Msg{Type: 9, StreamID: 1, Timestamp: 1000, Payload: []byte{1, 2, 3}}
	m2 := rtmpref.Msg{Type: 9, StreamID: 1, Timestamp: 1000 + 0x01000000, Payload: []byte{4, 5, 6, 7}}
	wire := ch.Whole(rtmpref.Item{Cid: 5, Form: 1, Fmt: 0, Msg: m1})
	wire = append(wire, ch.Whole(rtmpref.Item{Cid: 5, Form: 1, Fmt: 1, Msg: m2})...)
	err := ev.Try(func() error { return readAll(wire, 0, []rtmpref.Msg{m1, m2}) })
	rec := ev.New(prop, "known-ext-delta", "probe of the listed finding input")
	rec.Case(true, ev.Hash(wire), nil, func() any { return ev.Hex(wire) })
	type pcase struct {
		Wire ev.Hex `json:"wire"`
	}
	switch {
	case ev.Open(prop, sigExtDelta) && err != nil:
		ev.Known(prop, sigExtDelta, err.Error())
	case ev.Open(prop, sigExtDelta) && err == nil:
		ev.Stale(prop, sigExtDelta)
	case err != nil:
		p := ev.Fail(prop, "known-ext-delta", pcase{wire}, err)
		t.Fatalf("%v (replay %s)", err, p)
	}
}

func replayers() map[string]ev.Replayer {
	f := func(raw json.RawMessage) error {
		var c Case
		if err := json.Unmarshal(raw, &c); err != nil {
			return err
		}
		_, e := runCase(c)
		return e
	}
	type wcase struct {
		Wire ev.Hex `json:"wire"`
		Seg  int    `json:"seg"`
	}
	// a saved wire: what a specification receiver reads from it is what the library has to read
	wire := func(raw json.RawMessage) error {
		var c wcase
		if err := json.Unmarshal(raw, &c); err != nil {
			return err
		}
		res, err := rtmpref.NewDechunker().Dechunk(c.Wire)
		if err != nil {
			return fmt.Errorf("harness: the saved wire is not a conformant chunk stream: %v", err)
		}
		return readAll(c.Wire, c.Seg, res.Msgs)
	}
	// conformant messages followed by the 14-byte librtmp ping (fmt 1 on a fresh chunk stream 2)
	ping := func(raw json.RawMessage) error {
		var c wcase
		if err := json.Unmarshal(raw, &c); err != nil || len(c.Wire) < 14 {
			return fmt.Errorf("harness: bad librtmp-ping replay case (%v)", err)
		}
		pre, pg := c.Wire[:len(c.Wire)-14], c.Wire[len(c.Wire)-14:]
		res, err := rtmpref.NewDechunker().Dechunk(pre)
		if err != nil {
			return fmt.Errorf("harness: the saved prefix is not a conformant chunk stream: %v", err)
		}
		want := append(res.Msgs, rtmpref.Msg{Type: 4, Timestamp: uint32(pg[1])<<16 | uint32(pg[2])<<8 | uint32(pg[3]), Payload: pg[8:]})
		return readAll(c.Wire, c.Seg, want)
	}
	return map[string]ev.Replayer{"trace": f, "odometer": f, "known-ext-delta": wire, "librtmp-ping": ping}
}

func TestRegress(t *testing.T) { ev.Regress(t, prop, replayers()) }
func TestReplay(t *testing.T) {
	if os.Getenv("VERIF_REPLAY") == "" {
		t.Skip("no VERIF_REPLAY")
	}
	ev.Replay(t, prop, replayers())
}
