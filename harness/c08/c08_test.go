// C08: I/O failures surface as errors that keep their root cause; items returned before the
// failure are exactly those completely transferred. Fault enumeration: every cut offset and
// every read/write call index (and byte count) of each generated session/file.
package c08

import (
	"bytes"
	"encoding/binary"
	"encoding/json"
	stderrors "errors"
	"fmt"
	"io"
	"math/rand"
	"os"
	"strings"
	"testing"
	"time"

	oe "github.com/ossrs/go-oryx-lib/errors"
	"github.com/ossrs/go-oryx-lib/flv"
	"github.com/ossrs/go-oryx-lib/rtmp"
	"pgregory.net/rapid"
	"verif/harness/internal/ev"
	"verif/harness/internal/ref/flvref"
	"verif/harness/internal/ref/rtmpref"
	"verif/harness/internal/rtmpx"
	"verif/harness/internal/xport"
)

const prop = "C08"

func TestMain(m *testing.M) { ev.Main(m) }

type fataler interface{ Fatalf(string, ...any) }

func fail(t fataler, check string, c any, err error) {
	p := ev.Fail(prop, check, c, err)
	t.Fatalf("%v (replay %s)", err, p)
}

// ---------------------------------------------------------------- sessions

type M struct {
	Scs  uint32 `json:"scs,omitempty"` // non-zero: a Set Chunk Size to this value instead of a message
	Type uint8  `json:"type,omitempty"`
	Sid  uint32 `json:"sid,omitempty"`
	Ts   uint32 `json:"ts,omitempty"`
	Len  int    `json:"len,omitempty"`
	Fill uint64 `json:"fill,omitempty"`
	Cid  uint32 `json:"cid,omitempty"` // reference-written only
	Fmt  int    `json:"fmt,omitempty"` // reference-written only: preferred header type (used if legal)
}

type Session struct {
	Ref  bool `json:"ref"` // bytes produced by the reference chunker instead of the library writer
	Msgs []M  `json:"msgs"`
}

func (m M) ref() rtmpref.Msg {
	if m.Scs != 0 {
		b := make([]byte, 4)
		binary.BigEndian.PutUint32(b, m.Scs)
		return rtmpref.Msg{Type: 1, Payload: b}
	}
	return rtmpref.Msg{Type: m.Type, StreamID: m.Sid, Timestamp: m.Ts, Payload: rtmpx.Fill(m.Len, m.Fill)}
}

func writeLib(p *rtmp.Protocol, m M) error {
	if m.Scs != 0 {
		k := rtmp.NewSetChunkSize()
		k.ChunkSize = m.Scs
		return p.WritePacket(k, 0)
	}
	x := rtmp.NewStreamMessage(int(m.Sid))
	x.MessageType = rtmp.MessageType(m.Type)
	x.Timestamp = uint64(m.Ts)
	x.Payload = rtmpx.Fill(m.Len, m.Fill)
	return p.WriteMessage(x)
}

// wire renders the session and returns bytes, the messages and the end offset of each.
func (s Session) wire() ([]byte, []rtmpref.Msg, []int, error) {
	var b []byte
	var msgs []rtmpref.Msg
	if s.Ref {
		ch := rtmpref.NewChunker()
		for _, m := range s.Msgs {
			rm := m.ref()
			cid, form := m.Cid, 1
			if m.Scs != 0 || cid < 2 {
				cid = 2
			}
			if fs := rtmpref.FormsFor(cid); len(fs) > 0 {
				form = fs[len(fs)-1]
			}
			f := 0
			for _, l := range ch.Legal(cid, rm) {
				if l == m.Fmt {
					f = l
				}
			}
			p := ch.Begin(rtmpref.Item{Cid: cid, Form: form, Fmt: f, Msg: rm})
			if p.ExtDelta {
				return nil, nil, nil, fmt.Errorf("harness: extended delta in a C08 session")
			}
			for {
				b = append(b, ch.Next(p)...)
				if p.Done() {
					break
				}
			}
			msgs = append(msgs, rm)
		}
	} else {
		var buf bytes.Buffer
		p := rtmp.NewProtocol(&buf)
		for i, m := range s.Msgs {
			if err := writeLib(p, m); err != nil {
				return nil, nil, nil, fmt.Errorf("writing message %d: %v", i, err)
			}
			msgs = append(msgs, m.ref())
		}
		b = buf.Bytes()
	}
	res, err := rtmpref.NewDechunker().Dechunk(b)
	if err != nil || len(res.Msgs) != len(msgs) || res.Used != len(b) {
		return nil, nil, nil, fmt.Errorf("harness: reference dechunker disagrees with the session bytes: %d/%d messages, used %d/%d, err %v", len(res.Msgs), len(msgs), res.Used, len(b), err)
	}
	return b, msgs, res.Ends, nil
}

type counts struct {
	faults, inside int
}

// readUntilError reads messages until the first error; returns the messages and the error.
func readUntilError(p *rtmp.Protocol, max int) ([]*rtmp.Message, error) {
	var out []*rtmp.Message
	for i := 0; i <= max; i++ {
		m, err := p.ReadMessage()
		if err != nil {
			return out, err
		}
		if m == nil {
			return out, fmt.Errorf("harness-visible: nil message with nil error")
		}
		out = append(out, m)
	}
	return out, nil
}

func checkPrefix(got []*rtmp.Message, msgs []rtmpref.Msg, ends []int, delivered int, what string) error {
	want := 0
	for want < len(ends) && ends[want] <= delivered {
		want++
	}
	if len(got) != want {
		return fmt.Errorf("%s: %d messages returned, %d were completely transferred (of %d)", what, len(got), want, len(msgs))
	}
	for i, g := range got {
		if err := rtmpx.Same(g, msgs[i]); err != nil {
			return fmt.Errorf("%s: message %d: %v", what, i, err)
		}
	}
	return nil
}

func isEOF(err error) bool {
	c := oe.Cause(err)
	return c == io.EOF || c == io.ErrUnexpectedEOF
}

// rtmpReadFaults enumerates every cut offset and every read-call index for the session.
func rtmpReadFaults(s Session, segs [][]int) (cnt counts, err error) {
	wire, msgs, ends, err := s.wire()
	if err != nil {
		return cnt, err
	}
	isEnd := map[int]bool{0: true}
	for _, e := range ends {
		isEnd[e] = true
	}
	for _, seg := range segs {
		// (1) cuts
		for k := 0; k <= len(wire); k++ {
			var r io.Reader = bytes.NewReader(wire[:k])
			if seg != nil {
				r = &xport.SegReader{R: r, Sched: seg}
			}
			p := rtmp.NewProtocol(xport.RW{Reader: r, Writer: io.Discard})
			got, e := readUntilError(p, len(msgs))
			cnt.faults++
			if !isEnd[k] {
				cnt.inside++
			}
			what := fmt.Sprintf("stream of %d bytes cut at %d (seg %v)", len(wire), k, seg)
			if e == nil {
				return cnt, fmt.Errorf("%s: no error after %d messages", what, len(got))
			}
			if !isEOF(e) {
				return cnt, fmt.Errorf("%s: error %q has root cause %v (%T), want io.EOF or io.ErrUnexpectedEOF", what, e, oe.Cause(e), oe.Cause(e))
			}
			if e := checkPrefix(got, msgs, ends, k, what); e != nil {
				return cnt, e
			}
			// nothing is returned after the failure
			for j := 0; j < 2; j++ {
				if m, e2 := p.ReadMessage(); e2 == nil {
					return cnt, fmt.Errorf("%s: a message (type %d, %d bytes) was returned after the failure", what, m.MessageType, len(m.Payload))
				}
			}
		}
		// (2) an injected error at every read call index
		for jj := 0; ; jj++ {
			// every read call index, with the error kinds in rotation and, separately, as a deadline error
			j, kind := jj/2, jj/2
			if jj%2 == 1 {
				kind = 5
				if j%6 == 5 {
					continue
				}
			}
			sent := xport.NewSentinel(kind, fmt.Sprintf("injected read fault %d", j))
			er := &xport.ErrReader{R: bytes.NewReader(wire), FailAt: j, AfterBytes: -1, Err: sent}
			var r io.Reader = er
			if seg != nil {
				r = &xport.SegReader{R: er, Sched: seg}
			}
			p := rtmp.NewProtocol(xport.RW{Reader: r, Writer: io.Discard})
			var got []*rtmp.Message
			var e error
			if te := ev.WithTimeout(30*time.Second, func() error { got, e = readUntilError(p, len(msgs)); return nil }); te != nil {
				return cnt, fmt.Errorf("stream of %d bytes, read call %d fails with %T (seg %v): the operation in progress does not return an error: %v", len(wire), j, sent, seg, te)
			}
			if !er.Failed {
				break // j is beyond the number of read calls of this session
			}
			cnt.faults++
			delivered := er.Delivered()
			if !isEnd[delivered] {
				cnt.inside++
			}
			what := fmt.Sprintf("stream of %d bytes, read call %d fails after %d bytes (seg %v)", len(wire), j, delivered, seg)
			if e == nil {
				return cnt, fmt.Errorf("%s: no error", what)
			}
			if oe.Cause(e) != sent {
				return cnt, fmt.Errorf("%s: error %q has root cause %v (%T), want the injected error", what, e, oe.Cause(e), oe.Cause(e))
			}
			if e := checkPrefix(got, msgs, ends, delivered, what); e != nil {
				return cnt, e
			}
		}
		// (3) a transient fault: one Read fails after k bytes, the transport delivers the rest afterwards
		// (a deadline that was extended, an interrupted call): the operation in progress still has to report it
		for k := 0; k < len(wire); k++ {
			if len(wire) > 3000 && k%7 != 0 && !isEnd[k] {
				continue
			}
			sent := xport.NewSentinel(k, fmt.Sprintf("transient read fault after %d bytes", k))
			er := &xport.ErrReader{R: bytes.NewReader(wire), FailAt: -1, AfterBytes: k, Err: sent, Once: true}
			var r io.Reader = er
			if seg != nil {
				r = &xport.SegReader{R: er, Sched: seg}
			}
			p := rtmp.NewProtocol(xport.RW{Reader: r, Writer: io.Discard})
			got, e := readUntilError(p, len(msgs))
			if !er.Failed {
				continue
			}
			cnt.faults++
			if !isEnd[k] {
				cnt.inside++
			}
			what := fmt.Sprintf("stream of %d bytes, one read fails after %d bytes and the transport recovers (seg %v)", len(wire), k, seg)
			if e == nil {
				return cnt, fmt.Errorf("%s: no read returned an error (%d messages returned)", what, len(got))
			}
			if oe.Cause(e) != sent {
				return cnt, fmt.Errorf("%s: error %q has root cause %v (%T), want the injected error", what, e, oe.Cause(e), oe.Cause(e))
			}
			if e := checkPrefix(got, msgs, ends, k, what); e != nil {
				return cnt, e
			}
		}
	}
	return cnt, nil
}

// rtmpWriteFaults fails the transport after every byte count and at every write call.
func rtmpWriteFaults(s Session) (cnt counts, err error) {
	if s.Ref {
		return cnt, nil
	}
	wire, msgs, ends, err := s.wire()
	if err != nil {
		return cnt, err
	}
	isEnd := map[int]bool{0: true}
	for _, e := range ends {
		isEnd[e] = true
	}
	run := func(ew *xport.ErrWriter, sent error, what string) error {
		p := rtmp.NewProtocol(xport.RW{Reader: bytes.NewReader(nil), Writer: ew})
		okCount := 0
		var werr error
		for i, m := range s.Msgs {
			if werr = writeLib(p, m); werr != nil {
				break
			}
			okCount = i + 1
		}
		if !ew.Failed {
			if werr != nil {
				return fmt.Errorf("%s: write failed (%v) although the transport did not", what, werr)
			}
			return errNotReached
		}
		cnt.faults++
		if !isEnd[ew.Buf.Len()] {
			cnt.inside++
		}
		if werr == nil {
			return fmt.Errorf("%s: all %d writes returned nil although the transport failed after %d of %d bytes", what, len(s.Msgs), ew.Buf.Len(), len(wire))
		}
		if oe.Cause(werr) != sent {
			return fmt.Errorf("%s: error %q has root cause %v (%T), want the injected error", what, werr, oe.Cause(werr), oe.Cause(werr))
		}
		// every write reported as successful must have reached the transport completely
		if okCount > 0 && ends[okCount-1] > ew.Buf.Len() {
			return fmt.Errorf("%s: %d writes returned nil but only %d bytes reached the transport (message %d ends at %d)", what, okCount, ew.Buf.Len(), okCount-1, ends[okCount-1])
		}
		// what reached the transport is a prefix of the session
		if !bytes.HasPrefix(wire, ew.Buf.Bytes()) {
			return fmt.Errorf("%s: the %d bytes that reached the transport are not a prefix of the fault-free stream", what, ew.Buf.Len())
		}
		res, derr := rtmpref.NewDechunker().Dechunk(ew.Buf.Bytes())
		if derr != nil && derr != rtmpref.ErrShort {
			return fmt.Errorf("%s: transport bytes do not dechunk: %v", what, derr)
		}
		for i, m := range res.Msgs {
			w := msgs[i]
			if m.Type != w.Type || m.Timestamp != w.Timestamp || !bytes.Equal(m.Payload, w.Payload) {
				return fmt.Errorf("%s: message %d on the transport differs from what was written", what, i)
			}
		}
		// later writes keep failing and never emit bytes out of order
		before := ew.Buf.Len()
		if e := writeLib(p, M{Type: 9, Len: 10, Fill: 1}); e == nil && ew.Buf.Len() != before {
			return fmt.Errorf("%s: a write after the failure put bytes on the failed transport", what)
		}
		return nil
	}
	near := func(n int) bool { // boundaries of messages and of the writer's 4096-byte buffer, +-2
		for _, e := range ends {
			if n >= e-2 && n <= e+2 {
				return true
			}
		}
		return n%4096 <= 2 || n%4096 >= 4094
	}
	stride := max(5, len(wire)/2000)
	for n := 0; n < len(wire); n++ {
		if len(wire) > 4096 && n%stride != 0 && !near(n) {
			continue // large sessions: every 5th (or 1/2000th) byte count plus all boundaries
		}
		sent := xport.NewSentinel(n, fmt.Sprintf("injected write fault after %d bytes", n))
		if e := run(&xport.ErrWriter{AfterBytes: n, FailAt: -1, Err: sent}, sent, fmt.Sprintf("transport accepts %d of %d bytes", n, len(wire))); e != nil && e != errNotReached {
			return cnt, e
		}
	}
	for j := 0; ; j++ {
		sent := xport.NewSentinel(j+1, fmt.Sprintf("injected write fault at call %d", j))
		e := run(&xport.ErrWriter{AfterBytes: -1, FailAt: j, Err: sent}, sent, fmt.Sprintf("transport fails write call %d", j))
		if e == errNotReached {
			break
		}
		if e != nil {
			return cnt, e
		}
	}
	return cnt, nil
}

var errNotReached = stderrors.New("fault not reached")

// ---------------------------------------------------------------- handshake

func handshakeFaults(seed int64) (cnt counts, err error) {
	h := rtmp.NewHandshake(rand.New(rand.NewSource(seed)))
	c1 := rtmpx.Fill(1536, uint64(seed)|1)
	type wop struct {
		name string
		n    int
		f    func(w io.Writer) error
	}
	wops := []wop{
		{"WriteC0S0", 1, func(w io.Writer) error { return h.WriteC0S0(w) }},
		{"WriteC1S1", 1536, func(w io.Writer) error { return h.WriteC1S1(w) }},
		{"WriteC2S2", 1536, func(w io.Writer) error { return h.WriteC2S2(w, c1) }},
	}
	for _, op := range wops {
		for _, n := range []int{0, 1, op.n / 2, op.n - 1} {
			if n >= op.n {
				continue
			}
			sent := xport.NewSentinel(n, "injected handshake write fault")
			ew := &xport.ErrWriter{AfterBytes: n, FailAt: -1, Err: sent}
			e := op.f(ew)
			cnt.faults++
			if n > 0 {
				cnt.inside++
			}
			if e == nil || oe.Cause(e) != sent {
				return cnt, fmt.Errorf("%s with a transport failing after %d bytes: error %v, root cause %v; want the injected error", op.name, n, e, oe.Cause(e))
			}
		}
		var ok bytes.Buffer
		if e := op.f(&ok); e != nil || ok.Len() != op.n {
			return cnt, fmt.Errorf("%s fault-free: %d bytes, err %v", op.name, ok.Len(), e)
		}
	}
	type rop struct {
		name string
		n    int
		f    func(r io.Reader) ([]byte, error)
	}
	rops := []rop{
		{"ReadC0S0", 1, h.ReadC0S0}, {"ReadC1S1", 1536, h.ReadC1S1}, {"ReadC2S2", 1536, h.ReadC2S2},
	}
	for _, op := range rops {
		data := rtmpx.Fill(op.n+10, 9)
		for k := 0; k < op.n; k++ {
			if op.n > 8 && k > 4 && k < op.n-4 && k%97 != 0 {
				continue
			}
			// cut
			b, e := op.f(&xport.SegReader{R: bytes.NewReader(data[:k]), Sched: []int{1, 7, 300}})
			cnt.faults++
			if k > 0 {
				cnt.inside++
			}
			if e == nil || !isEOF(e) {
				return cnt, fmt.Errorf("%s on a stream cut at %d: error %v, root cause %v; want EOF", op.name, k, e, oe.Cause(e))
			}
			if b != nil {
				return cnt, fmt.Errorf("%s on a stream cut at %d returned %d bytes with the error", op.name, k, len(b))
			}
			// injected
			sent := xport.NewSentinel(k, "injected handshake read fault")
			b, e = op.f(&xport.ErrReader{R: bytes.NewReader(data), AfterBytes: k, FailAt: -1, Err: sent})
			cnt.faults++
			if e == nil || oe.Cause(e) != sent {
				return cnt, fmt.Errorf("%s with a transport failing after %d bytes: error %v, root cause %v; want the injected error", op.name, k, e, oe.Cause(e))
			}
			if b != nil {
				return cnt, fmt.Errorf("%s with a failing transport returned %d bytes with the error", op.name, len(b))
			}
		}
		b, e := op.f(bytes.NewReader(data))
		if e != nil || !bytes.Equal(b, data[:op.n]) {
			return cnt, fmt.Errorf("%s fault-free: %d bytes, err %v", op.name, len(b), e)
		}
	}
	return cnt, nil
}

// ---------------------------------------------------------------- FLV

type FT struct {
	Type uint8  `json:"type"`
	Ts   uint32 `json:"ts"`
	Len  int    `json:"len"`
	Fill uint64 `json:"fill"`
}

type FFile struct {
	HasVideo bool `json:"hv"`
	HasAudio bool `json:"ha"`
	Tags     []FT `json:"tags"`
}

func (f FFile) tags() []flvref.Tag {
	var ts []flvref.Tag
	for _, t := range f.Tags {
		ts = append(ts, flvref.Tag{Type: t.Type, Timestamp: t.Ts, Body: rtmpx.Fill(t.Len, t.Fill)})
	}
	return ts
}

// demuxUntilError returns the tags read, whether the header was read, and the error.
func demuxUntilError(r io.Reader, max int) (tags []flvref.Tag, hdr bool, err error) {
	d, _ := flv.NewDemuxer(r)
	if _, _, _, err = d.ReadHeader(); err != nil {
		return nil, false, err
	}
	for i := 0; i <= max; i++ {
		tt, size, ts, e := d.ReadTagHeader()
		if e != nil {
			return tags, true, e
		}
		body, e := d.ReadTag(size)
		if e != nil {
			if body != nil {
				return tags, true, fmt.Errorf("ReadTag returned %d bytes together with error %v", len(body), e)
			}
			return tags, true, e
		}
		tags = append(tags, flvref.Tag{Type: uint8(tt), Timestamp: ts, Body: body})
	}
	return tags, true, nil
}

func flvFaults(f FFile, segs [][]int) (cnt counts, err error) {
	want := f.tags()
	file := flvref.Write(f.HasVideo, f.HasAudio, want)
	pf, err := flvref.Parse(file)
	if err != nil {
		return cnt, fmt.Errorf("harness: %v", err)
	}
	ends := pf.Ends
	isEnd := map[int]bool{0: true, 13: true}
	for _, e := range ends {
		isEnd[e] = true
	}
	check := func(got []flvref.Tag, delivered int, what string) error {
		// ReadTag reads the body and the 4-byte PreviousTagSize: a stream that ends inside either makes
		// the operation in progress (ReadTag) fail, so only tags whose trailer arrived are returned
		lo := 0
		for lo < len(ends) && ends[lo] <= delivered {
			lo++
		}
		if len(got) != lo {
			return fmt.Errorf("%s: %d tags returned with a nil error, %d were completely transferred (tag + PreviousTagSize)", what, len(got), lo)
		}
		for i, g := range got {
			if g.Type != want[i].Type || g.Timestamp != want[i].Timestamp || !bytes.Equal(g.Body, want[i].Body) {
				return fmt.Errorf("%s: tag %d differs from what was written", what, i)
			}
		}
		return nil
	}
	for _, seg := range segs {
		for k := 0; k <= len(file); k++ {
			var r io.Reader = bytes.NewReader(file[:k])
			if seg != nil {
				r = &xport.SegReader{R: r, Sched: seg}
			}
			got, _, e := demuxUntilError(r, len(want))
			cnt.faults++
			if !isEnd[k] {
				cnt.inside++
			}
			what := fmt.Sprintf("file of %d bytes cut at %d (seg %v)", len(file), k, seg)
			if e == nil || !isEOF(e) {
				return cnt, fmt.Errorf("%s: error %v with root cause %v, want io.EOF or io.ErrUnexpectedEOF", what, e, oe.Cause(e))
			}
			if e := check(got, k, what); e != nil {
				return cnt, e
			}
		}
		for k := 0; k < len(file); k++ {
			sent := xport.NewSentinel(k, fmt.Sprintf("injected flv read fault after %d bytes", k))
			var r io.Reader = &xport.ErrReader{R: bytes.NewReader(file), AfterBytes: k, FailAt: -1, Err: sent}
			if seg != nil {
				r = &xport.SegReader{R: r, Sched: seg}
			}
			got, _, e := demuxUntilError(r, len(want))
			cnt.faults++
			if !isEnd[k] {
				cnt.inside++
			}
			what := fmt.Sprintf("file of %d bytes, reader fails after %d (seg %v)", len(file), k, seg)
			if e == nil || oe.Cause(e) != sent {
				return cnt, fmt.Errorf("%s: error %v with root cause %v, want the injected error", what, e, oe.Cause(e))
			}
			if e := check(got, k, what); e != nil {
				return cnt, e
			}
		}
	}
	// muxer: transport fails after n bytes / at call j
	runMux := func(ew *xport.ErrWriter, sent error, what string) error {
		m, _ := flv.NewMuxer(ew)
		var werr error
		okTags := -1 // -1: header not written
		if werr = m.WriteHeader(f.HasVideo, f.HasAudio); werr == nil {
			okTags = 0
			for _, t := range want {
				if werr = m.WriteTag(flv.TagType(t.Type), t.Timestamp, t.Body); werr != nil {
					break
				}
				okTags++
			}
		}
		if !ew.Failed {
			if werr != nil {
				return fmt.Errorf("%s: muxer failed (%v) although the transport did not", what, werr)
			}
			return errNotReached
		}
		cnt.faults++
		if !isEnd[ew.Buf.Len()] {
			cnt.inside++
		}
		if werr == nil {
			return fmt.Errorf("%s: every muxer call returned nil although the transport failed", what)
		}
		if oe.Cause(werr) != sent {
			return fmt.Errorf("%s: error %v with root cause %v, want the injected error", what, werr, oe.Cause(werr))
		}
		if !bytes.HasPrefix(file, ew.Buf.Bytes()) {
			return fmt.Errorf("%s: the %d bytes on the transport are not a prefix of the fault-free file", what, ew.Buf.Len())
		}
		if okTags > 0 && ends[okTags-1] > ew.Buf.Len() {
			return fmt.Errorf("%s: %d WriteTag calls returned nil but tag %d is not completely on the transport", what, okTags, okTags-1)
		}
		return nil
	}
	for n := 0; n < len(file); n++ {
		sent := xport.NewSentinel(n, fmt.Sprintf("injected flv write fault after %d bytes", n))
		if e := runMux(&xport.ErrWriter{AfterBytes: n, FailAt: -1, Err: sent}, sent, fmt.Sprintf("transport accepts %d of %d bytes", n, len(file))); e != nil && e != errNotReached {
			return cnt, e
		}
	}
	for j := 0; ; j++ {
		sent := xport.NewSentinel(j+1, fmt.Sprintf("injected flv write fault at call %d", j))
		e := runMux(&xport.ErrWriter{AfterBytes: -1, FailAt: j, Err: sent}, sent, fmt.Sprintf("transport fails write call %d", j))
		if e == errNotReached {
			break
		}
		if e != nil {
			return cnt, e
		}
	}
	return cnt, nil
}

// ---------------------------------------------------------------- errors package

type EOp struct {
	Op  string `json:"op"` // wrap | wrapf | msg | stack
	Msg string `json:"msg"`
}

type ECase struct {
	Root string `json:"root"` // eof | unexpected | new | errorf | std | nil
	Text string `json:"text"`
	Ops  []EOp  `json:"ops"`
}

type plainErr struct{ s string }

func (p *plainErr) Error() string { return p.s }

func runErrors(c ECase) error {
	var root error
	switch c.Root {
	case "eof":
		root = io.EOF
	case "unexpected":
		root = io.ErrUnexpectedEOF
	case "new":
		root = oe.New(c.Text)
	case "errorf":
		root = oe.Errorf("%s", c.Text)
	case "std":
		root = &plainErr{c.Text}
	case "wrapper":
		root = xport.NewSentinel(1, c.Text)
	case "wrapper-nil":
		root = xport.NewSentinel(2, c.Text)
	case "operror":
		root = xport.NewSentinel(3, c.Text)
	case "nil":
		root = nil
	}
	cur := root
	var msgs []string
	for i, op := range c.Ops {
		switch op.Op {
		case "wrap":
			cur = oe.Wrap(cur, op.Msg)
			msgs = append([]string{op.Msg}, msgs...)
		case "wrapf":
			cur = oe.Wrapf(cur, "%s/%d", op.Msg, i)
			msgs = append([]string{fmt.Sprintf("%s/%d", op.Msg, i)}, msgs...)
		case "msg":
			cur = oe.WithMessage(cur, op.Msg)
			msgs = append([]string{op.Msg}, msgs...)
		case "stack":
			cur = oe.WithStack(cur)
		}
		if root == nil {
			if cur != nil {
				return fmt.Errorf("op %d (%s) on nil produced %v", i, op.Op, cur)
			}
			continue
		}
		if cur == nil {
			return fmt.Errorf("op %d (%s) produced nil from a non-nil error", i, op.Op)
		}
		if got := oe.Cause(cur); got != root {
			return fmt.Errorf("after op %d (%s): Cause() is %v (%T), want the root %v (%T)", i, op.Op, got, got, root, root)
		}
		want := strings.Join(append(append([]string(nil), msgs...), root.Error()), ": ")
		if cur.Error() != want {
			return fmt.Errorf("after op %d (%s): Error() = %q, want %q", i, op.Op, cur.Error(), want)
		}
		if s := fmt.Sprintf("%v", cur); s != want {
			return fmt.Errorf("after op %d: %%v prints %q, want %q", i, s, want)
		}
		if s := fmt.Sprintf("%s", cur); s != want {
			return fmt.Errorf("after op %d: %%s prints %q, want %q", i, s, want)
		}
	}
	if root == nil && oe.Cause(nil) != nil {
		return fmt.Errorf("Cause(nil) != nil")
	}
	return nil
}

// ---------------------------------------------------------------- checks

func genSession(t *rapid.T) Session {
	s := Session{Ref: rapid.Bool().Draw(t, "ref")}
	n := rapid.IntRange(1, 6).Draw(t, "nmsg")
	chunk := 128
	budget := 2600
	var lastTs uint32
	for i := 0; i < n; i++ {
		if rapid.IntRange(0, 5).Draw(t, "scs") == 0 {
			chunk = rapid.SampledFrom([]int{1, 2, 7, 64, 128, 129, 1000, 4096}).Draw(t, "chunk")
			s.Msgs = append(s.Msgs, M{Scs: uint32(chunk)})
			continue
		}
		m := M{Type: rapid.SampledFrom([]uint8{8, 9, 18, 20, 15, 22}).Draw(t, "type"), Sid: rapid.SampledFrom([]uint32{0, 1, 1<<32 - 1}).Draw(t, "sid"), Fill: rapid.Uint64().Draw(t, "fill")}
		switch rapid.IntRange(0, 3).Draw(t, "tsk") {
		case 0:
			m.Ts = rapid.SampledFrom([]uint32{0, 0xFFFFFE, 0xFFFFFF, 0x1000000, 1<<31 - 1}).Draw(t, "tsc")
		default:
			m.Ts = lastTs + uint32(rapid.IntRange(0, 50).Draw(t, "tsd"))
		}
		lastTs = m.Ts
		m.Len = rapid.SampledFrom([]int{1, 2, chunk - 1, chunk, chunk + 1, 2*chunk + 1, 300, 700}).Draw(t, "len")
		if m.Len < 1 {
			m.Len = 1
		}
		if chunk < 4 && m.Len > 120 {
			m.Len = 120
		}
		if m.Len > budget {
			m.Len = budget
		}
		if m.Len < 1 {
			break
		}
		budget -= m.Len
		if s.Ref {
			m.Cid = rapid.SampledFrom([]uint32{3, 4, 64, 320}).Draw(t, "cid")
			m.Fmt = rapid.IntRange(0, 3).Draw(t, "fmt")
		}
		s.Msgs = append(s.Msgs, m)
	}
	if len(s.Msgs) == 0 {
		s.Msgs = []M{{Type: 9, Sid: 1, Len: 10, Fill: 1}}
	}
	return s
}

func segsFrom(t *rapid.T) [][]int {
	segs := [][]int{nil}
	switch rapid.IntRange(0, 2).Draw(t, "segk") {
	case 1:
		segs = append(segs, []int{1})
	case 2:
		segs = append(segs, rapid.SliceOfN(rapid.IntRange(1, 30), 1, 6).Draw(t, "seg"))
	}
	return segs
}

type RCase struct {
	Session Session `json:"session"`
	Segs    [][]int `json:"segs"`
}

var recRtmpRead = ev.New(prop, "rtmp-read-faults",
	"per rapid-generated session (<=6 messages/Set Chunk Size, <=3 KiB, library-written or reference-chunker-written with legal header types and multi-byte chunk stream ids): "+
		"EVERY cut offset 0..len and EVERY failing read-call index, under whole and a drawn segmentation; evaluations = injected faults; non-trivial = fault strictly inside a message; distinct by (session, fault)").
	Require("session", "ref-written", "lib-written")

func sanitizeExt(s *Session) {
	// reference-written sessions must not contain extended deltas (open finding of C02): force fmt 0
	if !s.Ref {
		return
	}
	last := map[uint32]uint32{}
	seen := map[uint32]bool{}
	for i := range s.Msgs {
		m := &s.Msgs[i]
		cid := m.Cid
		if m.Scs != 0 || cid < 2 {
			cid = 2
		}
		if m.Fmt != 0 && seen[cid] && m.Ts-last[cid] >= 0xFFFFFF {
			m.Fmt = 0
		}
		if m.Fmt == 3 {
			m.Fmt = 2 // a type-3 start needs the same delta; type 2 is the closest always-safe choice when legal
		}
		seen[cid] = true
		last[cid] = m.Ts
	}
}

func TestRtmpReadFaults(t *testing.T) {
	ev.Rapid(t, "rtmp-read-faults", 200, 16000, func(t *rapid.T) {
		c := RCase{Session: genSession(t), Segs: segsFrom(t)}
		sanitizeExt(&c.Session)
		var cnt counts
		err := ev.Try(func() error {
			var e error
			cnt, e = rtmpReadFaults(c.Session, c.Segs)
			return e
		})
		cl := []string{"session"}
		if c.Session.Ref {
			cl = append(cl, "ref-written")
		} else {
			cl = append(cl, "lib-written")
		}
		recordFaults(recRtmpRead, c, cnt, cl)
		if err != nil {
			fail(t, "rtmp-read-faults", c, err)
		}
	})
}

// recordFaults books one evaluation per injected fault; distinct non-trivial = faults inside an item.
func recordFaults(rec *ev.Recorder, c any, cnt counts, cl []string) {
	h := ev.Hash(c)
	for i := 0; i < cnt.faults; i++ {
		var k []string
		if i == 0 {
			k = cl
		}
		rec.Case(i < cnt.inside, h+uint64(i)*0x9e3779b97f4a7c15, k, func() any { return c })
	}
}

var recRtmpWrite = ev.New(prop, "rtmp-write-faults",
	"per rapid-generated library-written session: the transport fails after EVERY byte count 0..len-1 (short write + error) and at EVERY write-call index; oracle: the failing WriteMessage/WritePacket returns the injected error as root cause, "+
		"calls that returned nil are completely on the transport, transport bytes are a prefix that dechunks to the written messages; non-trivial = fault strictly inside a message").Require("session")

func TestRtmpWriteFaults(t *testing.T) {
	ev.Rapid(t, "rtmp-write-faults", 150, 12000, func(t *rapid.T) {
		s := genSession(t)
		s.Ref = false
		if rapid.IntRange(0, 5).Draw(t, "bigmsg") == 0 {
			// one message larger than the writer's 4096-byte buffer: several transport writes per message
			if rapid.Bool().Draw(t, "bigchunk") {
				// ... in chunks larger than that buffer as well
				s.Msgs = append(s.Msgs, M{Scs: rapid.SampledFrom([]uint32{4097, 8192, 9000, 60000}).Draw(t, "bigscs")})
			}
			s.Msgs = append(s.Msgs, M{Type: 9, Sid: 1, Ts: 77, Len: rapid.SampledFrom([]int{4097, 5000, 9000, 8200, 20000}).Draw(t, "biglen"), Fill: 5})
			if rapid.Bool().Draw(t, "bigtail") {
				s.Msgs = append(s.Msgs, M{Type: 8, Sid: 1, Ts: 78, Len: 10, Fill: 6})
			}
		}
		if rapid.IntRange(0, 5).Draw(t, "tinybig") == 0 {
			// a long message in tiny chunks: continuation headers (1 byte, or 5 with an extended timestamp) land on
			// every position of the writer's buffer, also exactly where it has to be flushed
			s.Msgs = append(s.Msgs, M{Scs: uint32(rapid.IntRange(1, 9).Draw(t, "tinyscs"))})
			s.Msgs = append(s.Msgs, M{Type: 8, Sid: 1, Ts: rapid.SampledFrom([]uint32{5, 0xFFFFFF, 0x1000000, 1<<31 - 1}).Draw(t, "tinyts"), Len: rapid.IntRange(2500, 6000).Draw(t, "tinylen"), Fill: 9})
		}
		var cnt counts
		err := ev.Try(func() error {
			var e error
			cnt, e = rtmpWriteFaults(s)
			return e
		})
		recordFaults(recRtmpWrite, s, cnt, []string{"session"})
		if err != nil {
			fail(t, "rtmp-write-faults", s, err)
		}
	})
}

func TestHandshakeFaults(t *testing.T) {
	rec := ev.New(prop, "handshake-faults", "the six handshake functions with a transport failing after {0,1,n/2,n-1} bytes (writes) and cut / failing at byte offsets 0..4, every 97th, n-4..n-1 (reads); non-trivial = fault strictly inside the block")
	var cnt counts
	err := ev.Try(func() error {
		var e error
		cnt, e = handshakeFaults(int64(ev.Seed()))
		return e
	})
	recordFaults(rec, "handshake", cnt, nil)
	if err != nil {
		fail(t, "handshake-faults", map[string]any{"seed": ev.Seed()}, err)
	}
}

type FCase struct {
	File FFile   `json:"file"`
	Segs [][]int `json:"segs"`
}

var recFlv = ev.New(prop, "flv-faults",
	"per rapid-generated FLV file (<=6 tags, <=2 KiB): demuxer under EVERY cut offset and a reader failing after EVERY byte count (whole + drawn segmentation); muxer with a transport failing after EVERY byte count and at EVERY write call; "+
		"non-trivial = fault strictly inside the header or a tag").Require("file")

func TestFlvFaults(t *testing.T) {
	ev.Rapid(t, "flv-faults", 150, 12000, func(t *rapid.T) {
		c := FCase{File: FFile{HasVideo: rapid.Bool().Draw(t, "hv"), HasAudio: rapid.Bool().Draw(t, "ha")}, Segs: segsFrom(t)}
		n := rapid.IntRange(0, 6).Draw(t, "ntags")
		for i := 0; i < n; i++ {
			c.File.Tags = append(c.File.Tags, FT{Type: rapid.SampledFrom([]uint8{8, 9, 18, 0, 255}).Draw(t, "type"),
				Ts: rapid.SampledFrom([]uint32{0, 40, 1<<24 - 1, 1 << 24, 1<<32 - 1}).Draw(t, "ts"), Len: rapid.SampledFrom([]int{0, 1, 2, 10, 255, 256, 300}).Draw(t, "len"), Fill: rapid.Uint64().Draw(t, "fill")})
		}
		var cnt counts
		err := ev.Try(func() error {
			var e error
			cnt, e = flvFaults(c.File, c.Segs)
			return e
		})
		recordFaults(recFlv, c, cnt, []string{"file"})
		if err != nil {
			fail(t, "flv-faults", c, err)
		}
	})
}

var recErr = ev.New(prop, "errors-nesting",
	"rapid-generated nestings (depth<=12, occasionally 33..400) of Wrap, Wrapf, WithMessage, WithStack over a root in {io.EOF, io.ErrUnexpectedEOF, errors.New, errors.Errorf, a foreign error type, nil}; after every layer: Cause()==root (identity), "+
		"Error()/%v/%s == outer-to-inner messages joined by ': ' + root text, nil stays nil; non-trivial = depth>=2").Require("deep", "nil-root")

func TestErrorsNesting(t *testing.T) {
	ev.Rapid(t, "errors-nesting", 5000, 3000000, func(t *rapid.T) {
		c := ECase{Root: rapid.SampledFrom([]string{"eof", "unexpected", "new", "errorf", "std", "nil", "wrapper", "wrapper-nil", "operror"}).Draw(t, "root"), Text: rapid.StringMatching(`[ -~]{0,12}`).Draw(t, "text")}
		n := rapid.IntRange(1, 12).Draw(t, "depth")
		if rapid.IntRange(0, 40).Draw(t, "verydeep") == 0 {
			n = rapid.SampledFrom([]int{33, 64, 65, 127, 128, 129, 130, 257, 400}).Draw(t, "deepn")
		}
		for i := 0; i < n; i++ {
			c.Ops = append(c.Ops, EOp{Op: rapid.SampledFrom([]string{"wrap", "wrapf", "msg", "stack"}).Draw(t, "op"), Msg: rapid.StringMatching(`[ -~]{0,10}`).Draw(t, "msg")})
		}
		err := ev.Try(func() error { return runErrors(c) })
		var cl []string
		if n >= 2 {
			cl = append(cl, "deep")
		}
		if c.Root == "nil" {
			cl = append(cl, "nil-root")
		}
		recErr.Case(n >= 2, ev.Hash(c), cl, func() any { return c })
		if err != nil {
			fail(t, "errors-nesting", c, err)
		}
	})
}

func replayers() map[string]ev.Replayer {
	return map[string]ev.Replayer{
		"rtmp-read-faults": func(raw json.RawMessage) error {
			var c RCase
			if err := json.Unmarshal(raw, &c); err != nil {
				return err
			}
			_, e := rtmpReadFaults(c.Session, c.Segs)
			return e
		},
		"rtmp-write-faults": func(raw json.RawMessage) error {
			var s Session
			if err := json.Unmarshal(raw, &s); err != nil {
				return err
			}
			_, e := rtmpWriteFaults(s)
			return e
		},
		"handshake-faults": func(raw json.RawMessage) error {
			_, e := handshakeFaults(1)
			return e
		},
		"flv-faults": func(raw json.RawMessage) error {
			var c FCase
			if err := json.Unmarshal(raw, &c); err != nil {
				return err
			}
			_, e := flvFaults(c.File, c.Segs)
			return e
		},
		"errors-nesting": func(raw json.RawMessage) error {
			var c ECase
			if err := json.Unmarshal(raw, &c); err != nil {
				return err
			}
			return runErrors(c)
		},
	}
}

func TestRegress(t *testing.T) { ev.Regress(t, prop, replayers()) }
func TestReplay(t *testing.T) {
	if os.Getenv("VERIF_REPLAY") == "" {
		t.Skip("no VERIF_REPLAY")
	}
	ev.Replay(t, prop, replayers())
}
