// Package amf0x bridges the reference value model (amf0ref.Val) and the library's public API:
// building library values, comparing them, and rapid generators for value trees.
package amf0x

import (
	"bytes"
	"fmt"
	"math"

	"github.com/ossrs/go-oryx-lib/amf0"
	"pgregory.net/rapid"
	"verif/harness/internal/ref/amf0ref"
)

type setter interface {
	amf0.Amf0
	Get(key string) amf0.Amf0
}

// Build constructs the library value for v through the public API (NewX, Set).
func Build(v amf0ref.Val) amf0.Amf0 {
	switch v.K {
	case amf0ref.Number:
		return amf0.NewNumber(math.Float64frombits(v.Num))
	case amf0ref.Boolean:
		return amf0.NewBoolean(v.Bool != 0)
	case amf0ref.String:
		return amf0.NewString(string(v.Str))
	case amf0ref.Null:
		return amf0.NewNull()
	case amf0ref.Undefined:
		return amf0.NewUndefined()
	case amf0ref.Object:
		o := amf0.NewObject()
		for _, p := range v.Props {
			o.Set(string(p.Key), Build(p.Val))
		}
		return o
	case amf0ref.Ecma:
		o := amf0.NewEcmaArray()
		for _, p := range v.Props {
			o.Set(string(p.Key), Build(p.Val))
		}
		return o
	case amf0ref.Strict:
		o := amf0.NewStrictArray()
		for _, p := range v.Props {
			o.Set(string(p.Key), Build(p.Val))
		}
		return o
	}
	panic("bad kind")
}

// Same checks that the library value equals v: same type, numbers by bits, every key of a
// container present with an equal value. Key order is observed through re-marshalling (the
// containers do not expose iteration), so the caller compares bytes as well.
func Same(a amf0.Amf0, v amf0ref.Val) error {
	if a == nil {
		return fmt.Errorf("nil value, want %v", v.K)
	}
	switch x := a.(type) {
	case *amf0.Number:
		if v.K != amf0ref.Number {
			return fmt.Errorf("got Number, want %v", v.K)
		}
		if math.Float64bits(float64(*x)) != v.Num {
			return fmt.Errorf("number bits %016x, want %016x", math.Float64bits(float64(*x)), v.Num)
		}
	case *amf0.Boolean:
		if v.K != amf0ref.Boolean {
			return fmt.Errorf("got Boolean, want %v", v.K)
		}
		if bool(*x) != (v.Bool != 0) {
			return fmt.Errorf("boolean %v, want %v", *x, v.Bool != 0)
		}
	case *amf0.String:
		if v.K != amf0ref.String {
			return fmt.Errorf("got String, want %v", v.K)
		}
		if string(*x) != string(v.Str) {
			return fmt.Errorf("string of %d bytes, want %d bytes", len(*x), len(v.Str))
		}
	case *amf0.Object:
		if v.K != amf0ref.Object {
			return fmt.Errorf("got Object, want %v", v.K)
		}
		return sameProps(x, v)
	case *amf0.EcmaArray:
		if v.K != amf0ref.Ecma {
			return fmt.Errorf("got EcmaArray, want %v", v.K)
		}
		return sameProps(x, v)
	case *amf0.StrictArray:
		if v.K != amf0ref.Strict {
			return fmt.Errorf("got StrictArray, want %v", v.K)
		}
		return sameProps(x, v)
	default:
		// null and undefined are unexported types; their one-byte encoding identifies them
		b, err := a.MarshalBinary()
		if err != nil {
			return err
		}
		want := byte(5)
		if v.K == amf0ref.Undefined {
			want = 6
		} else if v.K != amf0ref.Null {
			return fmt.Errorf("got %T, want %v", a, v.K)
		}
		if !bytes.Equal(b, []byte{want}) {
			return fmt.Errorf("got %T marshalling to %x, want marker %d", a, b, want)
		}
	}
	return nil
}

func sameProps(c setter, v amf0ref.Val) error {
	// model of Get: first property with that key
	seen := map[string]bool{}
	for _, p := range v.Props {
		if seen[string(p.Key)] {
			continue
		}
		seen[string(p.Key)] = true
		got := c.Get(string(p.Key))
		if got == nil {
			return fmt.Errorf("%v: key %q missing", v.K, trunc(p.Key))
		}
		if err := Same(got, p.Val); err != nil {
			return fmt.Errorf("%v[%q]: %v", v.K, trunc(p.Key), err)
		}
	}
	return nil
}

func trunc(b []byte) string {
	if len(b) > 24 {
		return string(b[:24]) + "..."
	}
	return string(b)
}

// ---------------------------------------------------------------- generators

var numClasses = []uint64{
	0, 1 << 63, // +0, -0
	0x7ff0000000000000, 0xfff0000000000000, // +-Inf
	0x7ff8000000000000, 0x7ff8000000000001, 0xfff8000000000000, // quiet NaNs
	0x7ff0000000000001, 0x7ff4000000000000, 0xfff0000000000001, // signalling NaNs
	1, 0x000fffffffffffff, 0x0010000000000000, // denormals / smallest normal
	0x3ff0000000000000, 0x4000000000000000, 0xbff0000000000000, // 1, 2, -1
	0x7fefffffffffffff, 0x4340000000000000, // max, 2^53
}

var keyAlphabet = []string{"", "a", "b", "c", "app", "tcUrl", "0", "1", "duration", "\x00", "\xff\xfe", "key with space", "é"}

// Opts tunes the tree generator.
type Opts struct {
	MaxDepth     int
	MaxNodes     int
	DistinctKeys bool // what Set can build
	NoStrictElem bool // strict arrays stay empty (finding D7 open)
	WireFreedom  bool // non-canonical booleans, arbitrary ECMA counts (grammar-level byte strings)
	BigStrings   bool
}

type genState struct {
	t     *rapid.T
	o     Opts
	nodes int
}

func Gen(t *rapid.T, o Opts) amf0ref.Val {
	g := &genState{t: t, o: o}
	return g.val(1)
}

func GenKey(t *rapid.T) []byte {
	switch rapid.IntRange(0, 7).Draw(t, "keyk") {
	case 6:
		// long names: the 16-bit length has a non-zero high byte; first bytes that mean something elsewhere in the format
		n := rapid.SampledFrom([]int{255, 256, 257, 511, 512, 513, 768, 1024, 4096, 32767, 32768, 65533, 65534, 65535}).Draw(t, "keylen")
		b := bytes.Repeat([]byte{'k'}, n)
		b[0] = rapid.SampledFrom([]byte{0x09, 0x00, 'k', 0x03, 0x08}).Draw(t, "keyfirst")
		return b
	case 7:
		// names that differ from common ones only in case or in trailing zero bytes
		return []byte(rapid.SampledFrom([]string{"App", "APP", "tcurl", "TcUrl", "Duration", "a\x00", "a\x00\x00", "app\x00", "width", "Width"}).Draw(t, "keyrel"))
	case 0:
		return rapid.SliceOfN(rapid.Byte(), 0, 12).Draw(t, "keyb")
	case 1:
		return []byte(rapid.StringMatching(`[a-zA-Z0-9_]{1,10}`).Draw(t, "keys"))
	default:
		return []byte(rapid.SampledFrom(keyAlphabet).Draw(t, "key"))
	}
}

func GenString(t *rapid.T, big bool) []byte {
	k := rapid.IntRange(0, 9).Draw(t, "strk")
	switch {
	case k == 0:
		return nil
	case k == 1 && big:
		n := rapid.SampledFrom([]int{65535, 65534, 65535, 256, 255}).Draw(t, "strbig")
		b := make([]byte, n)
		f := rapid.Byte().Draw(t, "strfill")
		for i := range b {
			b[i] = f + byte(i)
		}
		return b
	case k <= 4:
		return rapid.SliceOfN(rapid.Byte(), 0, 20).Draw(t, "strb")
	default:
		return []byte(rapid.StringMatching(`[ -~]{0,16}`).Draw(t, "strs"))
	}
}

func (g *genState) val(depth int) amf0ref.Val {
	g.nodes++
	t := g.t
	leafOnly := depth >= g.o.MaxDepth || g.nodes >= g.o.MaxNodes
	k := rapid.IntRange(0, 9).Draw(t, "kind")
	if leafOnly && k >= 5 {
		k = k - 5
	} else if depth == 1 && k < 5 && rapid.IntRange(0, 3).Draw(t, "top") > 0 {
		k += 5 // most top-level values are containers
	}
	switch k {
	case 0:
		if rapid.Bool().Draw(t, "numk") {
			return amf0ref.Val{K: amf0ref.Number, Num: rapid.SampledFrom(numClasses).Draw(t, "numc")}
		}
		return amf0ref.Val{K: amf0ref.Number, Num: rapid.Uint64().Draw(t, "numu")}
	case 1:
		b := byte(rapid.IntRange(0, 1).Draw(t, "bool"))
		if g.o.WireFreedom && b == 1 && rapid.Bool().Draw(t, "oddbool") {
			b = rapid.SampledFrom([]byte{2, 0x7f, 0x80, 0xff}).Draw(t, "boolraw")
		}
		return amf0ref.Val{K: amf0ref.Boolean, Bool: b}
	case 2:
		return amf0ref.Val{K: amf0ref.String, Str: GenString(t, g.o.BigStrings)}
	case 3:
		return amf0ref.Val{K: amf0ref.Null}
	case 4:
		return amf0ref.Val{K: amf0ref.Undefined}
	}
	v := amf0ref.Val{}
	switch k {
	case 5, 6:
		v.K = amf0ref.Object
	case 7, 8:
		v.K = amf0ref.Ecma
	default:
		v.K = amf0ref.Strict
	}
	n := rapid.IntRange(0, 5).Draw(t, "nprops")
	if v.K == amf0ref.Strict && g.o.NoStrictElem {
		n = 0
	}
	seen := map[string]bool{}
	for i := 0; i < n && g.nodes < g.o.MaxNodes; i++ {
		key := GenKey(t)
		if !g.o.DistinctKeys && i > 0 && rapid.IntRange(0, 3).Draw(t, "repeat") == 0 {
			key = v.Props[rapid.IntRange(0, len(v.Props)-1).Draw(t, "repidx")].Key
		}
		if g.o.DistinctKeys && seen[string(key)] {
			continue
		}
		seen[string(key)] = true
		v.Props = append(v.Props, amf0ref.Prop{Key: key, Val: g.val(depth + 1)})
	}
	if v.K == amf0ref.Ecma {
		v.Count = uint32(len(v.Props))
		if g.o.WireFreedom && rapid.IntRange(0, 2).Draw(t, "cntk") == 0 {
			v.Count = rapid.SampledFrom([]uint32{0, 1, 2, 1000, 1<<31 - 1, 1 << 31, 1<<32 - 1}).Draw(t, "cnt")
		}
	}
	return v
}

// ---------------------------------------------------------------- in-place edits

// Clone deep-copies a model value.
func Clone(v amf0ref.Val) amf0ref.Val {
	c := v
	c.Str = append(amf0ref.Bytes(nil), v.Str...)
	c.Props = nil
	for _, p := range v.Props {
		c.Props = append(c.Props, amf0ref.Prop{Key: append(amf0ref.Bytes(nil), p.Key...), Val: Clone(p.Val)})
	}
	return c
}

type editNode struct {
	lib    amf0.Amf0
	m      *amf0ref.Val
	depth  int
	parent setter // the container lib was obtained from (nil at the root), under key
	key    string
}

func collect(a amf0.Amf0, m *amf0ref.Val, depth int, noStrict bool, out *[]editNode) {
	collectAt(a, m, depth, noStrict, out, nil, "")
}

func collectAt(a amf0.Amf0, m *amf0ref.Val, depth int, noStrict bool, out *[]editNode, parent setter, key string) {
	switch m.K {
	case amf0ref.Null, amf0ref.Undefined:
		return
	case amf0ref.Strict:
		if noStrict {
			return
		}
	}
	*out = append(*out, editNode{a, m, depth, parent, key})
	c, ok := a.(setter)
	if !ok {
		return
	}
	seen := map[string]bool{}
	for i := range m.Props {
		k := string(m.Props[i].Key)
		if seen[k] {
			continue // Get reaches the first property with a key only
		}
		seen[k] = true
		if child := c.Get(k); child != nil {
			collectAt(child, &m.Props[i].Val, depth+1, noStrict, out, c, k)
		}
	}
}

// Mutate edits one value of the library tree a in place - the way an application changes a
// value it has already built (and possibly already sized or marshalled) - and the model m
// alike: a new property set on a container, or a scalar overwritten through its pointer.
// Nested places are preferred over the root. It reports what it did ("" if nothing is editable).
func Mutate(a amf0.Amf0, m *amf0ref.Val, sel uint64, noStrict bool) string {
	var all []editNode
	collect(a, m, 0, noStrict, &all)
	nested := all[:0:0]
	for _, n := range all {
		if n.depth > 0 {
			nested = append(nested, n)
		}
	}
	if len(nested) > 0 {
		all = nested
	}
	if len(all) == 0 {
		return ""
	}
	n := all[sel%uint64(len(all))]
	sel /= uint64(len(all))
	// Whether the pointer Get hands out is a live view of the stored value or a copy is not promised: when the overwrite does
	// not show in the container, the edited value is stored with Set; and if the tree still does not show the edit
	// (a Get that copies whole subtrees), nothing is claimed to have been edited.
	backup := Clone(*m)
	settle := func(what string) string {
		if n.parent != nil {
			nb, e1 := n.lib.MarshalBinary()
			cur := n.parent.Get(n.key)
			var cb []byte
			var e2 error
			if cur != nil {
				cb, e2 = cur.MarshalBinary()
			}
			if cur == nil || e1 != nil || e2 != nil || !bytes.Equal(nb, cb) {
				setOn(n.parent, n.key, n.lib)
				what += " (stored with Set: the pointer from Get is not a view)"
			}
		}
		if Same(a, *m) != nil {
			*m = backup
			return ""
		}
		return what
	}
	switch x := n.lib.(type) {
	case *amf0.Number:
		n.m.Num = numClasses[sel%uint64(len(numClasses))] ^ 0x10
		*x = amf0.Number(math.Float64frombits(n.m.Num))
		return settle(fmt.Sprintf("number at depth %d overwritten", n.depth))
	case *amf0.Boolean:
		if n.m.Bool != 0 {
			n.m.Bool = 0
		} else {
			n.m.Bool = 1
		}
		*x = amf0.Boolean(n.m.Bool != 0)
		return settle(fmt.Sprintf("boolean at depth %d toggled", n.depth))
	case *amf0.String:
		s := append(append([]byte{}, n.m.Str...), "+edited"...)
		if len(s) > 65535 {
			s = s[:3]
		}
		n.m.Str = s
		*x = amf0.String(s)
		return settle(fmt.Sprintf("string at depth %d overwritten", n.depth))
	}
	key := fmt.Sprintf("edit%d", sel%7)
	for has(n.m, key) {
		key += "x"
	}
	val := amf0ref.Val{K: amf0ref.String, Str: []byte("new value")}
	if sel&8 != 0 {
		val = amf0ref.Val{K: amf0ref.Object, Props: []amf0ref.Prop{{Key: []byte("k"), Val: amf0ref.Val{K: amf0ref.Number, Num: 0x4045000000000000}}}}
	}
	switch x := n.lib.(type) {
	case *amf0.Object:
		x.Set(key, Build(val))
	case *amf0.EcmaArray:
		x.Set(key, Build(val))
	case *amf0.StrictArray:
		x.Set(key, Build(val))
	default:
		return ""
	}
	n.m.Props = append(n.m.Props, amf0ref.Prop{Key: []byte(key), Val: val})
	return fmt.Sprintf("property set on a %v at depth %d", n.m.K, n.depth)
}

func setOn(c amf0.Amf0, key string, v amf0.Amf0) {
	switch x := c.(type) {
	case *amf0.Object:
		x.Set(key, v)
	case *amf0.EcmaArray:
		x.Set(key, v)
	case *amf0.StrictArray:
		x.Set(key, v)
	}
}

func has(m *amf0ref.Val, key string) bool {
	for _, p := range m.Props {
		if string(p.Key) == key {
			return true
		}
	}
	return false
}
