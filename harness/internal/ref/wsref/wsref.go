// Package wsref is an independent RFC 6455 frame builder, strict frame parser, RFC 7692
// message inflater and receiver model. It never calls the library under test.
package wsref

import (
	"bytes"
	"compress/flate"
	"crypto/sha1"
	"encoding/base64"
	"encoding/binary"
	"fmt"
	"io"
	"unicode/utf8"
)

const GUID = "258EAFA5-E914-47DA-95CA-C5AB0DC85B11"

// AcceptKey is RFC 6455 section 4.2.2 step 5.4.
func AcceptKey(key string) string {
	h := sha1.Sum([]byte(key + GUID))
	return base64.StdEncoding.EncodeToString(h[:])
}

// Frame is one frame as it appears on the wire.
type Frame struct {
	Fin    bool    `json:"fin"`
	RSV    byte    `json:"rsv,omitempty"` // bit 2 = RSV1, bit 1 = RSV2, bit 0 = RSV3
	Op     byte    `json:"op"`
	Masked bool    `json:"masked"`
	Key    [4]byte `json:"key"`
	// LenForm: 0 = minimal, 7/16/64 = force that form (16 and 64 may be non-minimal)
	LenForm int `json:"len_form,omitempty"`
	// Declared != 0 overrides the length written in the header (the payload stays Payload)
	Declared uint64 `json:"declared,omitempty"`
	Payload  []byte `json:"payload"`
}

// Bytes renders the frame.
func (f Frame) Bytes() []byte {
	b0 := f.Op&0xf | f.RSV<<4
	if f.Fin {
		b0 |= 0x80
	}
	n := uint64(len(f.Payload))
	if f.Declared != 0 {
		n = f.Declared
	}
	form := f.LenForm
	if form == 0 {
		switch {
		case n <= 125:
			form = 7
		case n <= 65535:
			form = 16
		default:
			form = 64
		}
	}
	var b []byte
	mb := byte(0)
	if f.Masked {
		mb = 0x80
	}
	switch form {
	case 7:
		b = []byte{b0, mb | byte(n)&0x7f}
	case 16:
		b = []byte{b0, mb | 126, byte(n >> 8), byte(n)}
	default:
		b = []byte{b0, mb | 127}
		b = binary.BigEndian.AppendUint64(b, n)
	}
	if f.Masked {
		b = append(b, f.Key[:]...)
		p := make([]byte, len(f.Payload))
		for i, c := range f.Payload {
			p[i] = c ^ f.Key[i%4]
		}
		return append(b, p...)
	}
	return append(b, f.Payload...)
}

// ParseOne reads one frame (payload unmasked). minimal reports whether the length form was minimal.
func ParseOne(b []byte) (f Frame, n int, minimal bool, err error) {
	if len(b) < 2 {
		return f, 0, false, io.ErrUnexpectedEOF
	}
	f.Fin = b[0]&0x80 != 0
	f.RSV = b[0] >> 4 & 7
	f.Op = b[0] & 0xf
	f.Masked = b[1]&0x80 != 0
	l := uint64(b[1] & 0x7f)
	off := 2
	minimal = true
	switch l {
	case 126:
		if len(b) < 4 {
			return f, 0, false, io.ErrUnexpectedEOF
		}
		l = uint64(binary.BigEndian.Uint16(b[2:]))
		off = 4
		f.LenForm = 16
		minimal = l > 125
	case 127:
		if len(b) < 10 {
			return f, 0, false, io.ErrUnexpectedEOF
		}
		l = binary.BigEndian.Uint64(b[2:])
		off = 10
		f.LenForm = 64
		minimal = l > 65535
		if l>>63 != 0 {
			return f, 0, false, fmt.Errorf("wsref: 64-bit length with the most significant bit set")
		}
	default:
		f.LenForm = 7
	}
	if f.Masked {
		if len(b) < off+4 {
			return f, 0, false, io.ErrUnexpectedEOF
		}
		copy(f.Key[:], b[off:])
		off += 4
	}
	if uint64(len(b)-off) < l {
		return f, 0, false, io.ErrUnexpectedEOF
	}
	f.Payload = make([]byte, l)
	copy(f.Payload, b[off:off+int(l)])
	if f.Masked {
		for i := range f.Payload {
			f.Payload[i] ^= f.Key[i%4]
		}
	}
	return f, off + int(l), minimal, nil
}

// Message is a reassembled data message or a control frame.
type Message struct {
	Op         byte
	Payload    []byte // after RFC 7692 inflation if Compressed
	Compressed bool
	Frames     int
}

// StrictOpts configures the sender-side validity check.
type StrictOpts struct {
	FromClient  bool // frames must be masked iff true
	Compression bool // permessage-deflate negotiated
}

// ParseStrict checks a complete byte stream produced by a conformant sender: FIN/continuation
// sequencing, masking per role, minimal length form, control frames <= 125 bytes and
// unfragmented, RSV1 only on the first frame of a compressed data message, RSV2/3 zero.
// It returns data messages and control frames in wire order.
func ParseStrict(b []byte, o StrictOpts) ([]Message, error) {
	var out []Message
	var cur *Message
	var raw []byte
	off := 0
	for off < len(b) {
		f, n, minimal, err := ParseOne(b[off:])
		if err != nil {
			return out, fmt.Errorf("frame at offset %d: %v", off, err)
		}
		where := fmt.Sprintf("frame at offset %d (op %d, %d bytes)", off, f.Op, len(f.Payload))
		off += n
		if f.Masked != o.FromClient {
			return out, fmt.Errorf("%s: masked=%v, sender is client=%v", where, f.Masked, o.FromClient)
		}
		if !minimal {
			return out, fmt.Errorf("%s: length not in its minimal form (form %d)", where, f.LenForm)
		}
		if f.RSV&3 != 0 {
			return out, fmt.Errorf("%s: RSV2/RSV3 set", where)
		}
		switch {
		case f.Op >= 8:
			if f.Op > 10 {
				return out, fmt.Errorf("%s: reserved control opcode", where)
			}
			if !f.Fin {
				return out, fmt.Errorf("%s: fragmented control frame", where)
			}
			if len(f.Payload) > 125 {
				return out, fmt.Errorf("%s: control frame longer than 125 bytes", where)
			}
			if f.RSV != 0 {
				return out, fmt.Errorf("%s: RSV1 on a control frame", where)
			}
			out = append(out, Message{Op: f.Op, Payload: f.Payload, Frames: 1})
		case f.Op == 1 || f.Op == 2:
			if cur != nil {
				return out, fmt.Errorf("%s: new data frame inside a fragmented message", where)
			}
			cur = &Message{Op: f.Op, Compressed: f.RSV&4 != 0}
			if cur.Compressed && !o.Compression {
				return out, fmt.Errorf("%s: RSV1 without negotiated compression", where)
			}
			raw = append([]byte(nil), f.Payload...)
			cur.Frames = 1
		case f.Op == 0:
			if cur == nil {
				return out, fmt.Errorf("%s: continuation without a started message", where)
			}
			if f.RSV != 0 {
				return out, fmt.Errorf("%s: RSV1 on a continuation frame", where)
			}
			raw = append(raw, f.Payload...)
			cur.Frames++
		default:
			return out, fmt.Errorf("%s: reserved opcode", where)
		}
		if cur != nil && f.Op < 8 && f.Fin {
			if cur.Compressed {
				p, err := Inflate(raw)
				if err != nil {
					return out, fmt.Errorf("%s: message does not inflate: %v", where, err)
				}
				cur.Payload = p
			} else {
				cur.Payload = raw
			}
			out = append(out, *cur)
			cur, raw = nil, nil
		}
	}
	if cur != nil {
		return out, fmt.Errorf("stream ends inside a fragmented message")
	}
	return out, nil
}

// Inflate is RFC 7692 section 7.2.2: append 00 00 ff ff and inflate a raw DEFLATE stream.
func Inflate(b []byte) ([]byte, error) {
	r := flate.NewReader(io.MultiReader(bytes.NewReader(b), bytes.NewReader([]byte{0, 0, 0xff, 0xff, 1, 0, 0, 0xff, 0xff})))
	defer r.Close()
	return io.ReadAll(r)
}

// Deflate produces an RFC 7692 message payload (for building compressed input).
func Deflate(b []byte, level int) []byte {
	var buf bytes.Buffer
	w, _ := flate.NewWriter(&buf, level)
	w.Write(b)
	w.Flush()
	out := buf.Bytes()
	return out[:len(out)-4]
}

// ---------------------------------------------------------------- receiver model

type EventKind int

const (
	EvNone      EventKind = iota
	EvViolation           // protocol error: reading fails for good, Close 1002 is sent
	EvLimit               // read limit exceeded: Close 1009, ErrReadLimit
	EvClose               // valid Close received: CloseError{Code}, close echoed
	EvEOF                 // input ended
)

func (k EventKind) String() string {
	return []string{"none", "violation", "limit", "close", "eof"}[k]
}

type Delivered struct {
	Op      byte
	Payload []byte
}

// Outcome is what a conformant receiver does with a frame sequence.
type Outcome struct {
	Delivered []Delivered
	Pongs     [][]byte // payloads of the pongs owed, in order
	Event     EventKind
	Why       string
	CloseCode int    // EvClose: received code (1005 if none); EvViolation: 1002; EvLimit: 1009
	CloseText string // EvClose
	AtFrame   int    // index of the frame that produced the event
	// BadDeflate: a compressed message whose payload is not a DEFLATE stream was met; what a receiver makes of it is not modelled
	BadDeflate bool
	// InflatedOverLimit: a compressed message within the read limit on the wire inflates to more than the limit;
	// whether a receiver applies its limit to the inflated size as well is not fixed by the statement
	InflatedOverLimit bool
}

func validCloseCode(c int) bool {
	switch c {
	case 1000, 1001, 1002, 1003, 1007, 1008, 1009, 1010, 1011, 1012, 1013:
		return true
	}
	return c >= 3000 && c <= 4999
}

// Receive runs the model. server = the receiver is a server (frames must be masked).
// limit <= 0 means no read limit. rsv1OK = permessage-deflate negotiated (not modelled further).
func Receive(frames []Frame, server bool, limit int64) Outcome {
	return ReceiveExt(frames, server, limit, false)
}

// ReceiveExt is Receive with permessage-deflate (RFC 7692) negotiated or not: RSV1 is then legal on the
// first frame of a data message (and only there), whose reassembled payload is inflated before delivery;
// the read limit still counts the bytes on the wire.
func ReceiveExt(frames []Frame, server bool, limit int64, deflate bool) Outcome {
	var o Outcome
	comp := false
	open := false
	var typ byte
	var acc []byte
	var wire int64
	viol := func(i int, why string) Outcome {
		o.Event, o.Why, o.CloseCode, o.AtFrame = EvViolation, why, 1002, i
		return o
	}
	for i, f := range frames {
		n := uint64(len(f.Payload))
		if f.Declared != 0 {
			n = f.Declared
		}
		lenField := n
		switch f.LenForm {
		case 16:
			lenField = 126
		case 64:
			lenField = 127
		case 0:
			if n > 65535 {
				lenField = 127
			} else if n > 125 {
				lenField = 126
			}
		}
		if f.RSV != 0 && !(deflate && f.RSV == 4 && (f.Op == 1 || f.Op == 2)) {
			return viol(i, "reserved bits")
		}
		switch {
		case f.Op == 8 || f.Op == 9 || f.Op == 10:
			if lenField > 125 {
				return viol(i, "control frame longer than 125")
			}
			if !f.Fin {
				return viol(i, "fragmented control frame")
			}
		case f.Op == 1 || f.Op == 2:
			if open {
				return viol(i, "new data frame inside a fragmented message")
			}
		case f.Op == 0:
			if !open {
				return viol(i, "continuation without a started message")
			}
		default:
			return viol(i, "reserved opcode")
		}
		if n>>63 != 0 {
			return viol(i, "64-bit length with the top bit set")
		}
		if f.Masked != server {
			return viol(i, "wrong masking for the role")
		}
		if f.Op < 8 {
			if f.Op != 0 {
				typ, acc, wire = f.Op, nil, 0
				comp = f.RSV == 4
			}
			open = !f.Fin
			wire += int64(n)
			if limit > 0 && wire > limit {
				o.Event, o.Why, o.CloseCode, o.AtFrame = EvLimit, "read limit", 1009, i
				return o
			}
			if uint64(len(f.Payload)) < n {
				// declared more than present: the stream ends inside the frame
				o.Event, o.Why, o.AtFrame = EvEOF, "stream ends inside a frame", i
				return o
			}
			acc = append(acc, f.Payload...)
			if f.Fin {
				if comp {
					plain, err := Inflate(acc)
					if err != nil {
						o.BadDeflate = true
						o.Event, o.Why, o.AtFrame = EvViolation, "compressed message is not a DEFLATE stream", i
						return o
					}
					if limit > 0 && int64(len(plain)) > limit {
						o.InflatedOverLimit = true
					}
					acc = plain
				}
				o.Delivered = append(o.Delivered, Delivered{typ, acc})
				acc = nil
			}
			continue
		}
		switch f.Op {
		case 9:
			o.Pongs = append(o.Pongs, f.Payload)
		case 8:
			if len(f.Payload) >= 2 {
				code := int(binary.BigEndian.Uint16(f.Payload))
				if !validCloseCode(code) {
					return viol(i, "invalid close code")
				}
				if !utf8.Valid(f.Payload[2:]) {
					return viol(i, "close reason is not UTF-8")
				}
				o.Event, o.CloseCode, o.CloseText, o.AtFrame = EvClose, code, string(f.Payload[2:]), i
				return o
			}
			o.Event, o.CloseCode, o.AtFrame = EvClose, 1005, i
			return o
		}
	}
	o.Event, o.Why, o.AtFrame = EvEOF, "end of input", len(frames)
	return o
}
