// Package avccref is an independent writer/parser of the AVCDecoderConfigurationRecord
// (ISO/IEC 14496-15 section 5.2.4.1.1) and of length-prefixed AVC samples (5.3.4.2).
package avccref

import "fmt"

type Record struct {
	Profile, Compat, Level uint8
	LengthSizeMinusOne     uint8 // 0..3
	SPS, PPS               [][]byte
	// High-profile extension (present for profile_idc 100, 110, 122, 144)
	Ext          bool
	Chroma       uint8
	BitDepthLuma uint8
	BitDepthChr  uint8
	SPSExt       [][]byte
}

func Write(r Record) []byte {
	b := []byte{1, r.Profile, r.Compat, r.Level, 0xfc | r.LengthSizeMinusOne&3, 0xe0 | byte(len(r.SPS))&0x1f}
	for _, s := range r.SPS {
		b = append(b, byte(len(s)>>8), byte(len(s)))
		b = append(b, s...)
	}
	b = append(b, byte(len(r.PPS)))
	for _, s := range r.PPS {
		b = append(b, byte(len(s)>>8), byte(len(s)))
		b = append(b, s...)
	}
	if r.Ext {
		b = append(b, 0xfc|r.Chroma&3, 0xf8|r.BitDepthLuma&7, 0xf8|r.BitDepthChr&7, byte(len(r.SPSExt)))
		for _, s := range r.SPSExt {
			b = append(b, byte(len(s)>>8), byte(len(s)))
			b = append(b, s...)
		}
	}
	return b
}

// Parse is strict about the reserved bits ('111111' and '111').
func Parse(b []byte) (Record, error) {
	var r Record
	if len(b) < 7 {
		return r, fmt.Errorf("avccref: short record")
	}
	if b[0] != 1 {
		return r, fmt.Errorf("avccref: configurationVersion %d", b[0])
	}
	r.Profile, r.Compat, r.Level = b[1], b[2], b[3]
	if b[4]&0xfc != 0xfc {
		return r, fmt.Errorf("avccref: reserved bits before lengthSizeMinusOne are %06b, must be 111111 (byte %02x)", b[4]>>2, b[4])
	}
	r.LengthSizeMinusOne = b[4] & 3
	if b[5]&0xe0 != 0xe0 {
		return r, fmt.Errorf("avccref: reserved bits before numOfSequenceParameterSets are %03b, must be 111 (byte %02x)", b[5]>>5, b[5])
	}
	n := int(b[5] & 0x1f)
	p := b[6:]
	read := func() ([]byte, error) {
		if len(p) < 2 {
			return nil, fmt.Errorf("avccref: short length")
		}
		l := int(p[0])<<8 | int(p[1])
		if len(p) < 2+l {
			return nil, fmt.Errorf("avccref: short parameter set")
		}
		s := append([]byte(nil), p[2:2+l]...)
		p = p[2+l:]
		return s, nil
	}
	for i := 0; i < n; i++ {
		s, err := read()
		if err != nil {
			return r, err
		}
		r.SPS = append(r.SPS, s)
	}
	if len(p) < 1 {
		return r, fmt.Errorf("avccref: no PPS count")
	}
	n = int(p[0])
	p = p[1:]
	for i := 0; i < n; i++ {
		s, err := read()
		if err != nil {
			return r, err
		}
		r.PPS = append(r.PPS, s)
	}
	if len(p) != 0 {
		return r, fmt.Errorf("avccref: %d trailing bytes", len(p))
	}
	return r, nil
}

// Sample renders NAL units with a big-endian length prefix of size bytes.
func Sample(size int, nalus [][]byte) []byte {
	var b []byte
	for _, n := range nalus {
		for i := size - 1; i >= 0; i-- {
			b = append(b, byte(len(n)>>(8*uint(i))))
		}
		b = append(b, n...)
	}
	return b
}
