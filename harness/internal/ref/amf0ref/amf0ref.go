// Package amf0ref is an independent AMF0 value model, encoder and decoder written from the
// AMF0 specification (amf0-file-format-specification, sections 2.2-2.12). It never calls the
// library under test.
package amf0ref

import (
	"encoding/binary"
	"encoding/hex"
	"encoding/json"
	"fmt"
)

type Kind int

const (
	Number Kind = iota
	Boolean
	String
	Null
	Undefined
	Object
	Ecma
	Strict
)

func (k Kind) String() string {
	return []string{"number", "boolean", "string", "null", "undefined", "object", "ecma", "strict"}[k]
}

// Bytes marshals as hex in JSON.
type Bytes []byte

func (h Bytes) MarshalJSON() ([]byte, error) { return json.Marshal(hex.EncodeToString(h)) }
func (h *Bytes) UnmarshalJSON(b []byte) error {
	var s string
	if err := json.Unmarshal(b, &s); err != nil {
		return err
	}
	d, err := hex.DecodeString(s)
	*h = d
	return err
}

// Val is an AMF0 value. Wire-level details that a decoder may ignore are kept so that byte
// strings can be generated from the grammar: the raw boolean byte and the ECMA count.
type Val struct {
	K     Kind   `json:"k"`
	Num   uint64 `json:"num,omitempty"`   // IEEE-754 bits
	Bool  byte   `json:"bool,omitempty"`  // raw byte on the wire; 0 = false
	Str   Bytes  `json:"str,omitempty"`   // <= 65535 bytes
	Props []Prop `json:"props,omitempty"` // object / ecma / strict (keys ignored in spec layout)
	Count uint32 `json:"count,omitempty"` // ECMA associative count as written
}

type Prop struct {
	Key Bytes `json:"key"`
	Val Val   `json:"val"`
}

type Layout int

const (
	Spec Layout = iota // strict array: count, then bare values (AMF0 2.12)
	Lib                // strict array: count, then key/value pairs (what the library reads and writes)
)

func utf8(b []byte, s []byte) []byte {
	b = append(b, byte(len(s)>>8), byte(len(s)))
	return append(b, s...)
}

// Encode renders v. ECMA arrays carry v.Count; strict arrays carry len(Props).
func Encode(v Val, l Layout) []byte { return enc(nil, v, l) }

func enc(b []byte, v Val, l Layout) []byte {
	switch v.K {
	case Number:
		b = append(b, 0)
		return binary.BigEndian.AppendUint64(b, v.Num)
	case Boolean:
		return append(b, 1, v.Bool)
	case String:
		b = append(b, 2)
		return utf8(b, v.Str)
	case Null:
		return append(b, 5)
	case Undefined:
		return append(b, 6)
	case Object:
		b = append(b, 3)
		for _, p := range v.Props {
			b = utf8(b, p.Key)
			b = enc(b, p.Val, l)
		}
		return append(b, 0, 0, 9)
	case Ecma:
		b = append(b, 8)
		b = binary.BigEndian.AppendUint32(b, v.Count)
		for _, p := range v.Props {
			b = utf8(b, p.Key)
			b = enc(b, p.Val, l)
		}
		return append(b, 0, 0, 9)
	case Strict:
		b = append(b, 10)
		b = binary.BigEndian.AppendUint32(b, uint32(len(v.Props)))
		for _, p := range v.Props {
			if l == Lib {
				b = utf8(b, p.Key)
			}
			b = enc(b, p.Val, l)
		}
		return b
	}
	panic("amf0ref: bad kind")
}

// Decode reads one value and returns it with the number of bytes it occupies.
func Decode(b []byte, l Layout) (Val, int, error) {
	if len(b) < 1 {
		return Val{}, 0, fmt.Errorf("amf0ref: empty")
	}
	switch b[0] {
	case 0:
		if len(b) < 9 {
			return Val{}, 0, fmt.Errorf("amf0ref: short number")
		}
		return Val{K: Number, Num: binary.BigEndian.Uint64(b[1:])}, 9, nil
	case 1:
		if len(b) < 2 {
			return Val{}, 0, fmt.Errorf("amf0ref: short boolean")
		}
		return Val{K: Boolean, Bool: b[1]}, 2, nil
	case 2:
		s, n, err := readUTF8(b[1:])
		if err != nil {
			return Val{}, 0, err
		}
		return Val{K: String, Str: s}, 1 + n, nil
	case 5:
		return Val{K: Null}, 1, nil
	case 6:
		return Val{K: Undefined}, 1, nil
	case 3, 8:
		v := Val{K: Object}
		off := 1
		if b[0] == 8 {
			if len(b) < 5 {
				return Val{}, 0, fmt.Errorf("amf0ref: short ecma array")
			}
			v.K = Ecma
			v.Count = binary.BigEndian.Uint32(b[1:])
			off = 5
		}
		for {
			k, n, err := readUTF8(b[off:])
			if err != nil {
				return Val{}, 0, err
			}
			off += n
			if off >= len(b) {
				return Val{}, 0, fmt.Errorf("amf0ref: object not terminated")
			}
			if len(k) == 0 && b[off] == 9 {
				return v, off + 1, nil
			}
			pv, n, err := Decode(b[off:], l)
			if err != nil {
				return Val{}, 0, err
			}
			off += n
			v.Props = append(v.Props, Prop{Key: k, Val: pv})
		}
	case 10:
		if len(b) < 5 {
			return Val{}, 0, fmt.Errorf("amf0ref: short strict array")
		}
		cnt := binary.BigEndian.Uint32(b[1:])
		v := Val{K: Strict}
		off := 5
		for i := uint32(0); i < cnt; i++ {
			var k []byte
			if l == Lib {
				var n int
				var err error
				k, n, err = readUTF8(b[off:])
				if err != nil {
					return Val{}, 0, err
				}
				off += n
			}
			pv, n, err := Decode(b[off:], l)
			if err != nil {
				return Val{}, 0, err
			}
			off += n
			v.Props = append(v.Props, Prop{Key: k, Val: pv})
		}
		return v, off, nil
	}
	return Val{}, 0, fmt.Errorf("amf0ref: unsupported marker %d", b[0])
}

func readUTF8(b []byte) ([]byte, int, error) {
	if len(b) < 2 {
		return nil, 0, fmt.Errorf("amf0ref: short utf8 length")
	}
	n := int(b[0])<<8 | int(b[1])
	if len(b) < 2+n {
		return nil, 0, fmt.Errorf("amf0ref: short utf8 body")
	}
	return append([]byte(nil), b[2:2+n]...), 2 + n, nil
}

// Equal compares values as the specification sees them: boolean by truth value, ECMA count
// ignored (it is a hint), strict-array keys ignored unless keyed is set.
func Equal(a, b Val, keyed bool) error {
	if a.K != b.K {
		return fmt.Errorf("kind %v vs %v", a.K, b.K)
	}
	switch a.K {
	case Number:
		if a.Num != b.Num {
			return fmt.Errorf("number bits %016x vs %016x", a.Num, b.Num)
		}
	case Boolean:
		if (a.Bool != 0) != (b.Bool != 0) {
			return fmt.Errorf("boolean %v vs %v", a.Bool, b.Bool)
		}
	case String:
		if string(a.Str) != string(b.Str) {
			return fmt.Errorf("string %q vs %q", trunc(a.Str), trunc(b.Str))
		}
	case Object, Ecma, Strict:
		if len(a.Props) != len(b.Props) {
			return fmt.Errorf("%v with %d vs %d properties", a.K, len(a.Props), len(b.Props))
		}
		for i := range a.Props {
			if (a.K != Strict || keyed) && string(a.Props[i].Key) != string(b.Props[i].Key) {
				return fmt.Errorf("%v property %d key %q vs %q", a.K, i, trunc(a.Props[i].Key), trunc(b.Props[i].Key))
			}
			if err := Equal(a.Props[i].Val, b.Props[i].Val, keyed); err != nil {
				return fmt.Errorf("%v[%d %q]: %v", a.K, i, trunc(a.Props[i].Key), err)
			}
		}
	}
	return nil
}

func trunc(b []byte) string {
	if len(b) > 24 {
		return string(b[:24]) + "..."
	}
	return string(b)
}

// Stats of a tree, for non-triviality rules.
type Stats struct {
	Nodes, Depth                          int
	NonFinite, BigString, StrictNonEmpty  bool
	RepeatedKey, EmptyKey, OddBool, Count bool
}

func Measure(v Val) Stats {
	var s Stats
	measure(v, 1, &s)
	return s
}

func measure(v Val, d int, s *Stats) {
	s.Nodes++
	if d > s.Depth {
		s.Depth = d
	}
	switch v.K {
	case Number:
		if (v.Num>>52)&0x7ff == 0x7ff || v.Num == 1<<63 {
			s.NonFinite = true
		}
	case Boolean:
		if v.Bool > 1 {
			s.OddBool = true
		}
	case String:
		if len(v.Str) >= 65534 {
			s.BigString = true
		}
	case Object, Ecma, Strict:
		if v.K == Strict && len(v.Props) > 0 {
			s.StrictNonEmpty = true
		}
		if v.K == Ecma && int(v.Count) != len(v.Props) {
			s.Count = true
		}
		seen := map[string]bool{}
		for _, p := range v.Props {
			if seen[string(p.Key)] {
				s.RepeatedKey = true
			}
			seen[string(p.Key)] = true
			if len(p.Key) == 0 {
				s.EmptyKey = true
			}
			measure(p.Val, d+1, s)
		}
	}
}
