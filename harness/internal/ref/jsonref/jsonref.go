// Package jsonref renders JSON value trees to text token by token (so that whitespace and
// comments can be placed at token boundaries) independently of encoding/json's encoder.
package jsonref

import (
	"fmt"
	"strconv"
	"strings"
)

// V is a JSON value tree.
type V struct {
	K    string   `json:"k"` // null true false num str arr obj
	Num  float64  `json:"num,omitempty"`
	Raw  string   `json:"raw,omitempty"` // number literal as written
	Str  string   `json:"str,omitempty"`
	Elem []V      `json:"elem,omitempty"`
	Keys []string `json:"keys,omitempty"`
}

// EscapeMode selects how a string literal is written.
//
//	0: minimal escapes (quote, backslash, control characters), other characters raw
//	1: also / as \/ and non-ASCII as \uXXXX
func Quote(s string, mode int) string {
	var b strings.Builder
	b.WriteByte('"')
	for _, r := range s {
		switch {
		case r == '"':
			b.WriteString(`\"`)
		case r == '\\':
			b.WriteString(`\\`)
		case r == '\n':
			b.WriteString(`\n`)
		case r == '\t':
			b.WriteString(`\t`)
		case r == '\r':
			b.WriteString(`\r`)
		case r < 0x20:
			fmt.Fprintf(&b, `\u%04x`, r)
		case r == '/' && mode == 1:
			b.WriteString(`\/`)
		case r > 0x7e && r < 0x10000 && mode == 1:
			fmt.Fprintf(&b, `\u%04x`, r)
		default:
			b.WriteRune(r)
		}
	}
	b.WriteByte('"')
	return b.String()
}

// Tokens flattens a value into its JSON tokens.
func Tokens(v V, mode int) []string {
	switch v.K {
	case "null", "true", "false":
		return []string{v.K}
	case "num":
		if v.Raw != "" {
			return []string{v.Raw}
		}
		return []string{strconv.FormatFloat(v.Num, 'g', -1, 64)}
	case "str":
		return []string{Quote(v.Str, mode)}
	case "arr":
		t := []string{"["}
		for i, e := range v.Elem {
			if i > 0 {
				t = append(t, ",")
			}
			t = append(t, Tokens(e, mode)...)
		}
		return append(t, "]")
	case "obj":
		t := []string{"{"}
		for i, e := range v.Elem {
			if i > 0 {
				t = append(t, ",")
			}
			t = append(t, Quote(v.Keys[i], mode), ":")
			t = append(t, Tokens(e, mode)...)
		}
		return append(t, "}")
	}
	panic("jsonref: kind " + v.K)
}

// Join concatenates tokens with the given fillers: gaps[i] goes before token i, gaps[len] after the last.
func Join(tokens []string, gaps []string) string {
	var b strings.Builder
	for i, t := range tokens {
		if i < len(gaps) {
			b.WriteString(gaps[i])
		}
		b.WriteString(t)
	}
	if len(gaps) > len(tokens) {
		b.WriteString(gaps[len(tokens)])
	}
	return b.String()
}
