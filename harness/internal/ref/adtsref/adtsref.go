// Package adtsref is an independent ADTS (ISO/IEC 13818-7 section 6.2) frame writer/parser and
// AudioSpecificConfig (ISO/IEC 14496-3 section 1.6.2.1) bit packer.
package adtsref

import "fmt"

type Header struct {
	ID               uint8 // 1 = MPEG-2, 0 = MPEG-4
	ProtectionAbsent uint8 // 0 = a 16-bit CRC follows the header
	Profile          uint8 // 2 bits
	SFI              uint8 // 4 bits
	Channels         uint8 // 3 bits
	FrameLength      int   // 13 bits: header + CRC + payload
	CRC              uint16
	// Blocks is number_of_raw_data_blocks_in_frame (2 bits): 0 = the frame holds one raw data block
	Blocks uint8
}

// Write renders one ADTS frame with a single raw data block.
func Write(h Header, raw []byte) []byte {
	n := 7 + len(raw)
	if h.ProtectionAbsent == 0 {
		n += 2
	}
	b := make([]byte, 7, n)
	b[0] = 0xff
	b[1] = 0xf0 | h.ID<<3 | h.ProtectionAbsent&1 // layer = 00
	b[2] = h.Profile<<6 | h.SFI<<2 | (h.Channels>>2)&1
	b[3] = (h.Channels&3)<<6 | byte(n>>11)&3
	b[4] = byte(n >> 3)
	b[5] = byte(n&7)<<5 | 0x1f // adts_buffer_fullness = 0x7FF (VBR)
	b[6] = 0xfc                // number_of_raw_data_blocks_in_frame = 0
	if h.ProtectionAbsent == 0 {
		b = append(b, byte(h.CRC>>8), byte(h.CRC))
	}
	return append(b, raw...)
}

// Parse reads one frame from the start of b; returns the header, the raw data block and the rest.
func Parse(b []byte) (Header, []byte, []byte, error) {
	var h Header
	if len(b) < 7 {
		return h, nil, nil, fmt.Errorf("adtsref: %d bytes, need 7", len(b))
	}
	if b[0] != 0xff || b[1]&0xf0 != 0xf0 {
		return h, nil, nil, fmt.Errorf("adtsref: no syncword: %02x%02x", b[0], b[1])
	}
	if b[1]&6 != 0 {
		return h, nil, nil, fmt.Errorf("adtsref: layer %d", (b[1]>>1)&3)
	}
	h.ID = (b[1] >> 3) & 1
	h.ProtectionAbsent = b[1] & 1
	h.Profile = b[2] >> 6
	h.SFI = (b[2] >> 2) & 0xf
	h.Channels = (b[2]&1)<<2 | b[3]>>6
	h.FrameLength = int(b[3]&3)<<11 | int(b[4])<<3 | int(b[5]>>5)
	h.Blocks = b[6] & 3
	hl := 7
	if h.ProtectionAbsent == 0 {
		hl = 9
	}
	if h.FrameLength < hl || h.FrameLength > len(b) {
		return h, nil, nil, fmt.Errorf("adtsref: frame length %d, header %d, have %d", h.FrameLength, hl, len(b))
	}
	if hl == 9 {
		h.CRC = uint16(b[7])<<8 | uint16(b[8])
	}
	return h, b[hl:h.FrameLength], b[h.FrameLength:], nil
}

// ASC fields of the first two bytes: 5 bits object type, 4 bits frequency index, 4 bits channels.
func ASCFields(b0, b1 byte) (object, sfi, channels uint8) {
	return b0 >> 3, (b0&7)<<1 | b1>>7, (b1 >> 3) & 0xf
}

// Hz is ISO/IEC 13818-7 table 35 / 14496-3 table 1.16.
var Hz = []int{96000, 88200, 64000, 48000, 44100, 32000, 24000, 22050, 16000, 12000, 11025, 8000, 7350}
