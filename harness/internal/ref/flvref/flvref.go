// Package flvref is an independent FLV version 1 file writer and strict parser written from
// the Adobe FLV specification (video_file_format_spec_v10, Annex E).
package flvref

import (
	"encoding/binary"
	"fmt"
)

type Tag struct {
	Type      uint8
	Timestamp uint32
	Body      []byte
}

// Write renders an FLV file: header (data offset 9), PreviousTagSize0 = 0, then the tags.
func Write(hasVideo, hasAudio bool, tags []Tag) []byte {
	var flags byte
	if hasAudio {
		flags |= 4
	}
	if hasVideo {
		flags |= 1
	}
	b := []byte{'F', 'L', 'V', 1, flags, 0, 0, 0, 9, 0, 0, 0, 0}
	for _, t := range tags {
		b = append(b, TagBytes(t)...)
	}
	return b
}

// TagBytes renders one tag followed by its PreviousTagSize.
func TagBytes(t Tag) []byte {
	n := len(t.Body)
	b := []byte{t.Type, byte(n >> 16), byte(n >> 8), byte(n),
		byte(t.Timestamp >> 16), byte(t.Timestamp >> 8), byte(t.Timestamp), byte(t.Timestamp >> 24), 0, 0, 0}
	b = append(b, t.Body...)
	return binary.BigEndian.AppendUint32(b, uint32(11+n))
}

type File struct {
	HasVideo, HasAudio bool
	Tags               []Tag
	Ends               []int // offset just after tag i's PreviousTagSize
}

// Parse is strict: signature, version 1, reserved flag bits zero, data offset 9,
// PreviousTagSize0 = 0, stream id 0, PreviousTagSize = 11 + body size, no trailing bytes.
func Parse(b []byte) (File, error) {
	var f File
	if len(b) < 13 {
		return f, fmt.Errorf("flvref: file header truncated (%d bytes)", len(b))
	}
	if string(b[:3]) != "FLV" {
		return f, fmt.Errorf("flvref: signature %q", b[:3])
	}
	if b[3] != 1 {
		return f, fmt.Errorf("flvref: version %d", b[3])
	}
	if b[4]&^5 != 0 {
		return f, fmt.Errorf("flvref: reserved flag bits set: %02x", b[4])
	}
	f.HasAudio = b[4]&4 != 0
	f.HasVideo = b[4]&1 != 0
	if off := binary.BigEndian.Uint32(b[5:]); off != 9 {
		return f, fmt.Errorf("flvref: data offset %d", off)
	}
	if p := binary.BigEndian.Uint32(b[9:]); p != 0 {
		return f, fmt.Errorf("flvref: PreviousTagSize0 = %d", p)
	}
	off := 13
	for off < len(b) {
		if len(b)-off < 11 {
			return f, fmt.Errorf("flvref: tag header truncated at %d", off)
		}
		h := b[off:]
		n := int(h[1])<<16 | int(h[2])<<8 | int(h[3])
		ts := uint32(h[7])<<24 | uint32(h[4])<<16 | uint32(h[5])<<8 | uint32(h[6])
		if h[8] != 0 || h[9] != 0 || h[10] != 0 {
			return f, fmt.Errorf("flvref: stream id %x at %d", h[8:11], off)
		}
		if len(b)-off < 11+n+4 {
			return f, fmt.Errorf("flvref: tag body truncated at %d", off)
		}
		body := append([]byte(nil), h[11:11+n]...)
		if p := binary.BigEndian.Uint32(h[11+n:]); p != uint32(11+n) {
			return f, fmt.Errorf("flvref: PreviousTagSize %d after a tag of %d body bytes at %d", p, n, off)
		}
		off += 11 + n + 4
		f.Tags = append(f.Tags, Tag{Type: h[0], Timestamp: ts, Body: body})
		f.Ends = append(f.Ends, off)
	}
	return f, nil
}
