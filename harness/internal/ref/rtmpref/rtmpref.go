// Package rtmpref is an independent implementation of RTMP 1.0 chunking (spec section 5.3),
// written from the specification; it never calls the library under test.
package rtmpref

import (
	"encoding/binary"
	"errors"
	"fmt"
)

// Msg is one RTMP message. Timestamp is the specification's 32-bit value.
type Msg struct {
	Type      uint8
	StreamID  uint32
	Timestamp uint32
	Payload   []byte
}

const ExtTS = 0xFFFFFF

// ---------------------------------------------------------------- dechunker

type csState struct {
	started  bool
	ts       uint32
	delta    uint32
	length   uint32
	typ      uint8
	sid      uint32
	ext      bool // last header on this chunk stream carried an extended timestamp
	lastFmt0 bool
	buf      []byte
	inMsg    bool
}

// Dechunker is a specification receiver. ChunkSize follows Set Chunk Size messages (type 1).
type Dechunker struct {
	ChunkSize uint32
	cs        map[uint32]*csState
	// AbsoluteExtInFmt3: continuation chunks repeat the extended timestamp (what every
	// real implementation does and the library writes).
}

func NewDechunker() *Dechunker {
	return &Dechunker{ChunkSize: 128, cs: map[uint32]*csState{}}
}

var ErrShort = errors.New("rtmpref: incomplete chunk")

// Result of dechunking a byte string.
type Result struct {
	Msgs []Msg
	Cids []uint32
	Ends []int // Ends[i] = offset just after the last byte of message i
	Used int   // offset of the first byte not belonging to a complete chunk
}

// Dechunk consumes as many whole chunks as b holds. err is ErrShort when b ends inside a chunk
// (everything before is still returned) and another error for a malformed stream.
func (d *Dechunker) Dechunk(b []byte) (res Result, err error) {
	off := 0
	for off < len(b) {
		n, m, cid, e := d.chunk(b[off:])
		if e != nil {
			res.Used = off
			return res, e
		}
		off += n
		if m != nil {
			res.Msgs = append(res.Msgs, *m)
			res.Cids = append(res.Cids, cid)
			res.Ends = append(res.Ends, off)
			if m.Type == 1 && len(m.Payload) >= 4 {
				d.ChunkSize = binary.BigEndian.Uint32(m.Payload) & 0x7fffffff
				if d.ChunkSize == 0 {
					res.Used = off
					return res, fmt.Errorf("rtmpref: chunk size 0")
				}
			}
		}
	}
	res.Used = off
	return res, nil
}

func (d *Dechunker) chunk(b []byte) (n int, done *Msg, cid uint32, err error) {
	if len(b) < 1 {
		return 0, nil, 0, ErrShort
	}
	f := b[0] >> 6
	cid = uint32(b[0] & 0x3f)
	n = 1
	switch cid {
	case 0:
		if len(b) < 2 {
			return 0, nil, 0, ErrShort
		}
		cid = 64 + uint32(b[1])
		n = 2
	case 1:
		if len(b) < 3 {
			return 0, nil, 0, ErrShort
		}
		cid = 64 + uint32(b[1]) + 256*uint32(b[2])
		n = 3
	}
	cur := d.cs[cid]
	if cur == nil {
		cur = &csState{}
		d.cs[cid] = cur
	}
	// work on a copy and commit it only when the whole chunk is there, so that a short read can
	// be retried with more bytes (ErrShort leaves the state untouched)
	work := *cur
	st := &work
	defer func() {
		if err == nil {
			*cur = work
		}
	}()
	hs := []int{11, 7, 3, 0}[f]
	if len(b) < n+hs {
		return 0, nil, cid, ErrShort
	}
	h := b[n : n+hs]
	n += hs
	if !st.started && f != 0 {
		return 0, nil, cid, fmt.Errorf("rtmpref: chunk stream %d starts with fmt %d", cid, f)
	}
	if st.inMsg && f != 3 {
		return 0, nil, cid, fmt.Errorf("rtmpref: fmt %d inside a message on chunk stream %d", f, cid)
	}
	var field uint32
	if f <= 2 {
		field = uint32(h[0])<<16 | uint32(h[1])<<8 | uint32(h[2])
		st.ext = field == ExtTS
	}
	var ext uint32
	if st.ext {
		if len(b) < n+4 {
			return 0, nil, cid, ErrShort
		}
		ext = binary.BigEndian.Uint32(b[n:])
		n += 4
		if f <= 2 {
			field = ext
		}
	}
	if !st.inMsg {
		switch f {
		case 0:
			st.ts = field
			st.delta = field // spec 5.3.1.2.4: a type 3 after a type 0 uses the type 0 timestamp as delta
			st.length = uint32(h[3])<<16 | uint32(h[4])<<8 | uint32(h[5])
			st.typ = h[6]
			st.sid = binary.LittleEndian.Uint32(h[7:])
		case 1:
			st.delta = field
			st.ts += field
			st.length = uint32(h[3])<<16 | uint32(h[4])<<8 | uint32(h[5])
			st.typ = h[6]
		case 2:
			st.delta = field
			st.ts += field
		case 3:
			st.ts += st.delta
		}
		st.started = true
		st.inMsg = true
		st.buf = make([]byte, 0, st.length)
	}
	want := int(st.length) - len(st.buf)
	if want > int(d.ChunkSize) {
		want = int(d.ChunkSize)
	}
	if len(b) < n+want {
		return 0, nil, cid, ErrShort
	}
	st.buf = append(st.buf, b[n:n+want]...)
	n += want
	if len(st.buf) == int(st.length) {
		m := &Msg{Type: st.typ, StreamID: st.sid, Timestamp: st.ts, Payload: st.buf}
		st.buf = nil
		st.inMsg = false
		return n, m, cid, nil
	}
	return n, nil, cid, nil
}

// ---------------------------------------------------------------- chunker

// Item is one message of a trace together with the sender's encoding decisions.
type Item struct {
	Cid  uint32 // 2..65599
	Form int    // basic header bytes 1,2,3 (must be able to express Cid)
	Fmt  int    // header type of the first chunk; must be legal in the chunk stream's state
	Msg  Msg
}

type sendState struct {
	started bool
	ts      uint32
	delta   uint32
	length  uint32
	typ     uint8
	sid     uint32
}

// Chunker is a specification sender.
type Chunker struct {
	ChunkSize uint32
	cs        map[uint32]*sendState
}

func NewChunker() *Chunker { return &Chunker{ChunkSize: 128, cs: map[uint32]*sendState{}} }

// Legal returns the header types a conformant sender may use for m on cid now.
// fmt 1 needs the same message stream; fmt 2 also the same length and type; fmt 3 also the
// same delta. Timestamps must not go backwards for a delta encoding (mod 2^32 deltas >= 2^31
// are treated as backwards).
func (c *Chunker) Legal(cid uint32, m Msg) []int {
	st := c.cs[cid]
	if st == nil || !st.started {
		return []int{0}
	}
	out := []int{0}
	d := m.Timestamp - st.ts
	if m.StreamID != st.sid || d >= 1<<31 {
		return out
	}
	out = append(out, 1)
	if uint32(len(m.Payload)) != st.length || m.Type != st.typ {
		return out
	}
	out = append(out, 2)
	if d == st.delta {
		out = append(out, 3)
	}
	return out
}

// FormsFor lists the basic-header forms that can express cid.
func FormsFor(cid uint32) []int {
	switch {
	case cid >= 2 && cid <= 63:
		return []int{1}
	case cid >= 64 && cid <= 319:
		return []int{2, 3}
	case cid >= 320 && cid <= 65599:
		return []int{3}
	}
	return nil
}

func basic(f int, cid uint32, form int) []byte {
	switch form {
	case 1:
		return []byte{byte(f<<6) | byte(cid)}
	case 2:
		return []byte{byte(f << 6), byte(cid - 64)}
	default:
		v := cid - 64
		return []byte{byte(f<<6) | 1, byte(v), byte(v >> 8)}
	}
}

// Pending is a message being sent: call Next until Done.
type Pending struct {
	it     Item
	off    int
	first  bool
	extVal uint32
	ext    bool
	// ExtDelta is true when a non-type-0 header carries an extended timestamp (delta >= 0xFFFFFF).
	ExtDelta bool
}

// Begin registers the header decision for it and returns the in-flight message.
func (c *Chunker) Begin(it Item) *Pending {
	st := c.cs[it.Cid]
	if st == nil {
		st = &sendState{}
		c.cs[it.Cid] = st
	}
	p := &Pending{it: it, first: true}
	m := it.Msg
	switch it.Fmt {
	case 0:
		p.extVal = m.Timestamp
		st.delta = m.Timestamp
	case 1, 2:
		p.extVal = m.Timestamp - st.ts
		st.delta = p.extVal
	case 3:
		p.extVal = st.delta
	}
	p.ext = p.extVal >= ExtTS
	p.ExtDelta = p.ext && it.Fmt != 0
	st.started = true
	st.ts = m.Timestamp
	st.length = uint32(len(m.Payload))
	st.typ = m.Type
	st.sid = m.StreamID
	return p
}

func (p *Pending) Done() bool { return !p.first && p.off >= len(p.it.Msg.Payload) }

// Next emits the next chunk of the message under the chunk size in force.
func (c *Chunker) Next(p *Pending) []byte {
	m := p.it.Msg
	var out []byte
	f := 3
	if p.first {
		f = p.it.Fmt
	}
	out = append(out, basic(f, p.it.Cid, p.it.Form)...)
	if p.first {
		field := p.extVal
		if p.ext {
			field = ExtTS
		}
		l := uint32(len(m.Payload))
		switch f {
		case 0:
			out = append(out, byte(field>>16), byte(field>>8), byte(field), byte(l>>16), byte(l>>8), byte(l), m.Type,
				byte(m.StreamID), byte(m.StreamID>>8), byte(m.StreamID>>16), byte(m.StreamID>>24))
		case 1:
			out = append(out, byte(field>>16), byte(field>>8), byte(field), byte(l>>16), byte(l>>8), byte(l), m.Type)
		case 2:
			out = append(out, byte(field>>16), byte(field>>8), byte(field))
		}
	}
	if p.ext {
		out = append(out, byte(p.extVal>>24), byte(p.extVal>>16), byte(p.extVal>>8), byte(p.extVal))
	}
	p.first = false
	n := len(m.Payload) - p.off
	if n > int(c.ChunkSize) {
		n = int(c.ChunkSize)
	}
	out = append(out, m.Payload[p.off:p.off+n]...)
	p.off += n
	if p.Done() && m.Type == 1 && len(m.Payload) >= 4 {
		c.ChunkSize = binary.BigEndian.Uint32(m.Payload) & 0x7fffffff
	}
	return out
}

// Whole chunks one message completely.
func (c *Chunker) Whole(it Item) []byte {
	p := c.Begin(it)
	var out []byte
	for {
		out = append(out, c.Next(p)...)
		if p.Done() {
			return out
		}
	}
}
