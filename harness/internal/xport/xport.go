// Package xport holds the in-memory transports of the harness: segmenting, cutting and
// fault-injecting readers/writers. All behaviour is a pure function of the schedule given.
package xport

import (
	"bufio"
	"bytes"
	"errors"
	"io"
	"net"
	"os"
	"sync"
	"syscall"
)

// SegReader hands out at most Sched[i] bytes on the i-th Read (cycling), min 1.
type SegReader struct {
	R     io.Reader
	Sched []int
	i     int
	Calls int
}

func (s *SegReader) Read(p []byte) (int, error) {
	s.Calls++
	if len(p) == 0 {
		return 0, nil
	}
	n := len(p)
	if len(s.Sched) > 0 {
		k := s.Sched[s.i%len(s.Sched)]
		s.i++
		if k < 1 {
			k = 1
		}
		if k < n {
			n = k
		}
	}
	return s.R.Read(p[:n])
}

// DataEOFReader returns the last bytes of B together with io.EOF (as io.Reader permits and as
// testing/iotest.DataErrReader, HTTP bodies with a Content-Length, etc. do), handing out at
// most Sched[i] bytes per call.
type DataEOFReader struct {
	B     []byte
	Sched []int
	i     int
}

func (d *DataEOFReader) Read(p []byte) (int, error) {
	if len(d.B) == 0 {
		return 0, io.EOF
	}
	n := len(p)
	if len(d.Sched) > 0 {
		if k := d.Sched[d.i%len(d.Sched)]; k >= 1 && k < n {
			n = k
		}
		d.i++
	}
	if n > len(d.B) {
		n = len(d.B)
	}
	copy(p, d.B[:n])
	d.B = d.B[n:]
	if len(d.B) == 0 {
		return n, io.EOF
	}
	return n, nil
}

// EagerEOF turns any reader into one that reports io.EOF together with the last bytes it
// delivers (instead of on a separate, empty Read): both are valid io.Reader behaviour.
type EagerEOF struct {
	R    io.Reader
	peek []byte
	done bool
}

func (e *EagerEOF) Read(p []byte) (int, error) {
	if e.done {
		return 0, io.EOF
	}
	if len(p) == 0 {
		return 0, nil
	}
	n := 0
	if len(e.peek) > 0 {
		p[0] = e.peek[0]
		e.peek = nil
		n = 1
	}
	if n < len(p) {
		m, err := e.R.Read(p[n:])
		n += m
		if err != nil {
			e.done = err == io.EOF
			return n, err
		}
	}
	var b [1]byte
	for {
		k, err := e.R.Read(b[:])
		if k == 1 {
			e.peek = []byte{b[0]}
			return n, nil
		}
		if err != nil {
			e.done = err == io.EOF
			return n, err
		}
	}
}

// SegKinds is the number of segmentation kinds Segment understands.
const SegKinds = 6

// Segment wraps r in one of the transport segmentations: 0 none, 1 one byte per Read, 2 the
// drawn schedule, 3 the drawn schedule with io.EOF delivered together with the last bytes,
// 4 unsegmented with io.EOF delivered together with the last bytes, 5 a *bufio.Reader.
func Segment(r io.Reader, kind int, drawn []int) io.Reader {
	switch kind {
	case 0:
		return r
	case 1, 2:
		return &SegReader{R: r, Sched: Sched(kind, drawn)}
	case 3:
		return &EagerEOF{R: &SegReader{R: r, Sched: Sched(2, drawn)}}
	case 5:
		// a *bufio.Reader with a small buffer (what applications commonly hand to a decoder; it also
		// offers Peek/Discard/WriteTo, which a decoder may use as a fast path)
		size := 512
		if len(drawn) > 0 && drawn[0] > 1 {
			size = 16 * drawn[0]
		}
		return bufio.NewReaderSize(r, size)
	default:
		return &EagerEOF{R: r}
	}
}

// ErrSentinel is what fault-injecting transports return.
type Sentinel struct{ Msg string }

func (s *Sentinel) Error() string { return s.Msg }

// WrapSentinel is a transport error that is itself a wrapper (like *net.OpError or an error
// built with fmt.Errorf("%w")): it has an Unwrap method. The root cause the library must report
// is still this error, not what it wraps.
type WrapSentinel struct {
	Msg   string
	Inner error
}

func (w *WrapSentinel) Error() string { return w.Msg }
func (w *WrapSentinel) Unwrap() error { return w.Inner }

// TimeoutSentinel is a transport error of the deadline kind: it satisfies net.Error with
// Timeout() and Temporary() true (like os.ErrDeadlineExceeded or a read past SetReadDeadline).
type TimeoutSentinel struct{ Msg string }

func (t *TimeoutSentinel) Error() string   { return t.Msg }
func (t *TimeoutSentinel) Timeout() bool   { return true }
func (t *TimeoutSentinel) Temporary() bool { return true }

var _ net.Error = (*TimeoutSentinel)(nil)

// NewSentinel builds one of the transport error kinds: 0 plain, 1 wrapper around an errno-like
// error, 2 wrapper whose Unwrap returns nil, 3 *net.OpError, 4 *os.PathError, 5 a timeout (net.Error).
func NewSentinel(kind int, msg string) error {
	switch kind % 6 {
	case 5:
		return &TimeoutSentinel{Msg: msg}
	case 1:
		return &WrapSentinel{Msg: msg, Inner: errors.New("inner cause")}
	case 2:
		return &WrapSentinel{Msg: msg}
	case 3:
		return &net.OpError{Op: "read", Net: "tcp", Err: syscall.ECONNRESET}
	case 4:
		return &os.PathError{Op: "write", Path: "/dev/full", Err: syscall.ENOSPC}
	}
	return &Sentinel{Msg: msg}
}

// ErrReader fails the FailAt-th Read call (0-based) with Err, and every call after it.
// With AfterBytes >= 0 it instead fails once that many bytes were delivered.
type ErrReader struct {
	R          io.Reader
	FailAt     int
	AfterBytes int
	Err        error
	calls      int
	n          int
	Failed     bool
	// Once: the fault is transient - that one Read fails, later ones deliver the rest of the stream
	Once bool
}

func (e *ErrReader) Read(p []byte) (int, error) {
	if e.Failed && !e.Once {
		return 0, e.Err
	}
	if e.Failed {
		e.calls++
		n, err := e.R.Read(p)
		e.n += n
		return n, err
	}
	if e.AfterBytes >= 0 {
		left := e.AfterBytes - e.n
		if left <= 0 {
			e.Failed = true
			return 0, e.Err
		}
		if len(p) > left {
			p = p[:left]
		}
	} else if e.calls == e.FailAt {
		e.Failed = true
		return 0, e.Err
	}
	e.calls++
	n, err := e.R.Read(p)
	e.n += n
	return n, err
}

// Delivered is the number of bytes handed out before the fault.
func (e *ErrReader) Delivered() int { return e.n }

// ErrWriter accepts bytes into Buf until the fault: with AfterBytes >= 0 it accepts exactly that
// many bytes (a short write followed by Err), otherwise it fails the FailAt-th Write call.
type ErrWriter struct {
	Buf        bytes.Buffer
	FailAt     int
	AfterBytes int
	Err        error
	calls      int
	Failed     bool
}

func (e *ErrWriter) Write(p []byte) (int, error) {
	if e.Failed {
		return 0, e.Err
	}
	if e.AfterBytes >= 0 {
		left := e.AfterBytes - e.Buf.Len()
		if len(p) > left {
			e.Buf.Write(p[:left])
			e.Failed = true
			return left, e.Err
		}
	} else if e.calls == e.FailAt {
		e.Failed = true
		return 0, e.Err
	}
	e.calls++
	return e.Buf.Write(p)
}

// RW glues a reader and a writer into an io.ReadWriter.
type RW struct {
	io.Reader
	io.Writer
}

// Discard reader that is always at EOF.
var ErrClosed = errors.New("xport: closed")

// Sched turns drawn small ints into a segmentation schedule of the given flavour.
//
//	0: whole (no limit)   1: all 1-byte   2: the drawn sizes   3: 1-byte for the first 64 calls then whole
func Sched(kind int, drawn []int) []int {
	switch kind {
	case 0:
		return nil
	case 1:
		return []int{1}
	default:
		if len(drawn) == 0 {
			return []int{1, 2, 3, 5, 7, 11}
		}
		return drawn
	}
}

// BlockPipe is an unbounded in-memory byte pipe whose Read blocks until data arrives or the
// pipe is closed (then io.EOF). Safe for one reader and many writers.
type BlockPipe struct {
	mu     sync.Mutex
	cond   *sync.Cond
	buf    []byte
	closed bool
}

func NewBlockPipe() *BlockPipe {
	p := &BlockPipe{}
	p.cond = sync.NewCond(&p.mu)
	return p
}

func (p *BlockPipe) Write(b []byte) (int, error) {
	p.mu.Lock()
	defer p.mu.Unlock()
	if p.closed {
		return 0, ErrClosed
	}
	p.buf = append(p.buf, b...)
	p.cond.Broadcast()
	return len(b), nil
}

func (p *BlockPipe) Read(b []byte) (int, error) {
	p.mu.Lock()
	defer p.mu.Unlock()
	for len(p.buf) == 0 && !p.closed {
		p.cond.Wait()
	}
	if len(p.buf) == 0 {
		return 0, io.EOF
	}
	n := copy(b, p.buf)
	p.buf = p.buf[n:]
	return n, nil
}

func (p *BlockPipe) Close() error {
	p.mu.Lock()
	p.closed = true
	p.cond.Broadcast()
	p.mu.Unlock()
	return nil
}
