// Package ev is the evidence recorder, failure/replay writer and known-findings
// reader shared by all property packages of the harness.
//
// Everything a check learns is written as a JSON fragment into $VERIF_EV_DIR;
// bin/check merges the fragments of all processes of one run into
// /verif/evidence/<id>.json and turns recorded failures into VIOLATION lines.
package ev

import (
	"bufio"
	"encoding/hex"
	"encoding/json"
	"flag"
	"fmt"
	"hash/fnv"
	"os"
	"path/filepath"
	"runtime"
	"runtime/debug"
	"sort"
	"strconv"
	"strings"
	"sync"
	"testing"
	"time"

	"pgregory.net/rapid"
)

// Hex is a byte slice that marshals as a hex string (replay files stay readable).
type Hex []byte

func (h Hex) MarshalJSON() ([]byte, error) { return json.Marshal(hex.EncodeToString(h)) }
func (h *Hex) UnmarshalJSON(b []byte) error {
	var s string
	if err := json.Unmarshal(b, &s); err != nil {
		return err
	}
	d, err := hex.DecodeString(s)
	if err != nil {
		return err
	}
	*h = d
	return nil
}

// Root returns /verif (or $VERIF_ROOT).
func Root() string {
	if r := os.Getenv("VERIF_ROOT"); r != "" {
		return r
	}
	_, file, _, _ := runtime.Caller(0)
	return filepath.Clean(filepath.Join(filepath.Dir(file), "..", "..", ".."))
}

func Tier() string {
	if os.Getenv("VERIF_TIER") == "thorough" {
		return "thorough"
	}
	return "quick"
}

func Thorough() bool { return Tier() == "thorough" }

// N picks a size by tier.
func N(quick, thorough int) int {
	if Thorough() {
		return thorough
	}
	return quick
}

// Seed is VERIF_SEED (0 remapped to 1).
func Seed() uint64 {
	s, _ := strconv.ParseUint(os.Getenv("VERIF_SEED"), 10, 64)
	if s == 0 {
		s = 1
	}
	return s
}

func Shard() int {
	s, _ := strconv.Atoi(os.Getenv("VERIF_SHARD"))
	return s
}

func Shards() int {
	s, _ := strconv.Atoi(os.Getenv("VERIF_SHARDS"))
	if s <= 0 {
		s = 1
	}
	return s
}

func evDir() string {
	d := os.Getenv("VERIF_EV_DIR")
	if d == "" {
		d = filepath.Join(Root(), ".work", "adhoc")
	}
	os.MkdirAll(d, 0o755)
	return d
}

// ---------------------------------------------------------------- recorder

type Recorder struct {
	mu         sync.Mutex
	Property   string
	Check      string
	Rule       string
	evals      int64
	nontrivial int64
	classes    map[string]int64
	required   []string
	hashes     map[uint64]struct{}
	capped     bool
	first      []any
	small      []smp // samples with the smallest hashes (deterministic reservoir)
	exhaustive bool
	notes      []string
}

type smp struct {
	h uint64
	v any
}

const hashCap = 1 << 18

var (
	regMu     sync.Mutex
	recorders []*Recorder
)

// New registers a recorder for one check of one property. rule says how cases are
// generated and what makes one non-trivial.
func New(property, check, rule string) *Recorder {
	r := &Recorder{Property: property, Check: check, Rule: rule,
		classes: map[string]int64{}, hashes: map[uint64]struct{}{}}
	regMu.Lock()
	recorders = append(recorders, r)
	regMu.Unlock()
	return r
}

// Require names classes that must be non-empty at the end of the run (generator health).
func (r *Recorder) Require(classes ...string) *Recorder {
	r.required = append(r.required, classes...)
	return r
}

func (r *Recorder) Exhaustive() { r.mu.Lock(); r.exhaustive = true; r.mu.Unlock() }

func (r *Recorder) Note(format string, a ...any) {
	r.mu.Lock()
	r.notes = append(r.notes, fmt.Sprintf(format, a...))
	r.mu.Unlock()
}

// Case records one executed case. hash identifies the case (canonical encoding);
// sample is only called when the case is kept as a sample.
func (r *Recorder) Case(nontrivial bool, hash uint64, classes []string, sample func() any) {
	r.mu.Lock()
	defer r.mu.Unlock()
	r.evals++
	for _, c := range classes {
		r.classes[c]++
	}
	if !nontrivial {
		return
	}
	r.nontrivial++
	if _, ok := r.hashes[hash]; ok {
		return
	}
	if len(r.hashes) >= hashCap {
		r.capped = true
		return
	}
	r.hashes[hash] = struct{}{}
	if sample == nil {
		return
	}
	if len(r.first) < 2 {
		r.first = append(r.first, sample())
		return
	}
	// keep the 3 smallest mixed hashes
	mh := mix(hash)
	if len(r.small) < 3 {
		r.small = append(r.small, smp{mh, sample()})
		return
	}
	mi := 0
	for i := range r.small {
		if r.small[i].h > r.small[mi].h {
			mi = i
		}
	}
	if mh < r.small[mi].h {
		r.small[mi] = smp{mh, sample()}
	}
}

// Count bumps a class counter without recording a case.
func (r *Recorder) Count(class string, n int64) {
	r.mu.Lock()
	r.classes[class] += n
	r.mu.Unlock()
}

func mix(x uint64) uint64 {
	x ^= x >> 33
	x *= 0xff51afd7ed558ccd
	x ^= x >> 33
	x *= 0xc4ceb9fe1a85ec53
	x ^= x >> 33
	return x
}

// Hash hashes the JSON encoding of the parts (or raw bytes/strings directly).
func Hash(parts ...any) uint64 {
	h := fnv.New64a()
	for _, p := range parts {
		switch v := p.(type) {
		case []byte:
			h.Write(v)
		case Hex:
			h.Write(v)
		case string:
			h.Write([]byte(v))
		default:
			b, _ := json.Marshal(v)
			h.Write(b)
		}
		h.Write([]byte{0xff})
	}
	return h.Sum64()
}

type fragment struct {
	Property    string           `json:"property"`
	Check       string           `json:"check"`
	Rule        string           `json:"rule"`
	Evaluations int64            `json:"evaluations"`
	Nontrivial  int64            `json:"nontrivial"`
	Distinct    int              `json:"distinct_nontrivial"`
	Capped      bool             `json:"capped"`
	Classes     map[string]int64 `json:"classes"`
	Missing     []string         `json:"missing_required"`
	Samples     []any            `json:"samples"`
	Exhaustive  bool             `json:"exhaustive"`
	Notes       []string         `json:"notes,omitempty"`
	HashFile    string           `json:"hash_file"`
}

// Flush writes one fragment per recorder that ran.
func Flush() {
	regMu.Lock()
	defer regMu.Unlock()
	dir := evDir()
	for i, r := range recorders {
		r.mu.Lock()
		if r.evals == 0 {
			r.mu.Unlock()
			continue
		}
		f := fragment{Property: r.Property, Check: r.Check, Rule: r.Rule, Evaluations: r.evals,
			Nontrivial: r.nontrivial, Distinct: len(r.hashes), Capped: r.capped, Classes: r.classes,
			Exhaustive: r.exhaustive, Notes: r.notes}
		for _, c := range r.required {
			if r.classes[c] == 0 {
				f.Missing = append(f.Missing, c)
			}
		}
		f.Samples = append(f.Samples, r.first...)
		sort.Slice(r.small, func(a, b int) bool { return r.small[a].h < r.small[b].h })
		for _, s := range r.small {
			f.Samples = append(f.Samples, s.v)
		}
		base := fmt.Sprintf("frag-%s-%s-%d-%d", r.Property, sanitize(r.Check), os.Getpid(), i)
		f.HashFile = base + ".hashes"
		hs := make([]uint64, 0, len(r.hashes))
		for h := range r.hashes {
			hs = append(hs, h)
		}
		sort.Slice(hs, func(a, b int) bool { return hs[a] < hs[b] })
		hf, err := os.Create(filepath.Join(dir, f.HashFile))
		if err == nil {
			w := bufio.NewWriter(hf)
			for _, h := range hs {
				fmt.Fprintf(w, "%016x\n", h)
			}
			w.Flush()
			hf.Close()
		}
		b, _ := json.MarshalIndent(f, "", " ")
		os.WriteFile(filepath.Join(dir, base+".json"), b, 0o644)
		r.mu.Unlock()
	}
}

func sanitize(s string) string {
	var b strings.Builder
	for _, c := range s {
		if (c >= 'a' && c <= 'z') || (c >= 'A' && c <= 'Z') || (c >= '0' && c <= '9') || c == '-' || c == '_' {
			b.WriteRune(c)
		} else {
			b.WriteByte('_')
		}
	}
	return b.String()
}

// Main is the TestMain body of every property package.
func Main(m *testing.M) {
	flag.Parse()
	os.RemoveAll("testdata/rapid") // rapid replays those first
	code := m.Run()
	Flush()
	os.Exit(code)
}

// ---------------------------------------------------------------- failures

type failure struct {
	Property string `json:"property"`
	Check    string `json:"check"`
	Error    string `json:"error"`
	Replay   string `json:"replay"`
}

var (
	failMu   sync.Mutex
	failSeen = map[string]bool{}
)

type replayFile struct {
	Property string          `json:"property"`
	Check    string          `json:"check"`
	Error    string          `json:"error"`
	Seed     uint64          `json:"seed"`
	Case     json.RawMessage `json:"case"`
}

// Fail saves the failing case as a replay file and records the violation. The file
// for (check, shard) is overwritten on every call, so after rapid has shrunk the case the
// file holds the minimal one (rapid re-runs the minimal case last).
func Fail(property, check string, c any, err error) string {
	failMu.Lock()
	defer failMu.Unlock()
	dir := filepath.Join(Root(), "replays", property)
	if d := os.Getenv("VERIF_REPLAY_DIR"); d != "" {
		dir = d
	}
	os.MkdirAll(dir, 0o755)
	cb, merr := json.Marshal(c)
	if merr != nil {
		cb, _ = json.Marshal(fmt.Sprintf("%+v", c))
	}
	rf := replayFile{Property: property, Check: check, Error: err.Error(), Seed: Seed(), Case: cb}
	b, _ := json.MarshalIndent(rf, "", " ")
	path := filepath.Join(dir, fmt.Sprintf("%s-seed%d-shard%d.json", sanitize(check), Seed(), Shard()))
	os.WriteFile(path, b, 0o644)
	key := property + "/" + check
	if !failSeen[key] {
		failSeen[key] = true
	}
	// the violations file is rewritten as a whole: last error text per check wins
	fb, _ := json.Marshal(failure{Property: property, Check: check, Error: firstLine(err.Error()), Replay: path})
	os.WriteFile(filepath.Join(evDir(), fmt.Sprintf("violation-%s-%s-%d.json", property, sanitize(check), os.Getpid())), fb, 0o644)
	return path
}

func firstLine(s string) string {
	if i := strings.IndexByte(s, '\n'); i >= 0 {
		s = s[:i]
	}
	if len(s) > 400 {
		s = s[:400]
	}
	return s
}

// LoadReplay reads the case of a replay file into c; ok=false when VERIF_REPLAY is unset
// or the file is for another check.
func LoadReplay(check string, c any) (bool, error) {
	p := os.Getenv("VERIF_REPLAY")
	if p == "" {
		return false, nil
	}
	return LoadReplayFile(p, check, c)
}

func LoadReplayFile(path, check string, c any) (bool, error) {
	b, err := os.ReadFile(path)
	if err != nil {
		return false, err
	}
	var rf replayFile
	if err := json.Unmarshal(b, &rf); err != nil {
		return false, err
	}
	if rf.Check != check {
		return false, nil
	}
	return true, json.Unmarshal(rf.Case, c)
}

// RegressFiles lists committed regression replays for a property.
func RegressFiles(property string) []string {
	m, _ := filepath.Glob(filepath.Join(Root(), "regress", property, "*.json"))
	sort.Strings(m)
	return m
}

// Current writes the case about to run to a per-process file, so that a crash that kills
// the test binary (fatal error, race detector exit, panic in a library goroutine) still
// leaves a replay behind. Cheap enough for the concurrency properties only.
func Current(property, check string, c any) {
	cb, _ := json.Marshal(c)
	rf := replayFile{Property: property, Check: check, Error: "process died while running this case", Seed: Seed(), Case: cb}
	b, _ := json.Marshal(rf)
	os.WriteFile(filepath.Join(evDir(), fmt.Sprintf("current-%s-%d.json", property, os.Getpid())), b, 0o644)
}

// ---------------------------------------------------------------- panics / watchdog

type PanicError struct {
	Value any
	Frame string // first frame inside the library under test
	Stack string
}

func (p *PanicError) Error() string {
	return fmt.Sprintf("panic: %v [at %s]", p.Value, p.Frame)
}

// Try runs f and converts a panic into a *PanicError.
func Try(f func() error) (err error) {
	defer func() {
		if r := recover(); r != nil {
			st := string(debug.Stack())
			err = &PanicError{Value: r, Frame: libFrame(st), Stack: st}
		}
	}()
	return f()
}

func libFrame(stack string) string {
	lines := strings.Split(stack, "\n")
	for i, l := range lines {
		if strings.HasPrefix(l, "github.com/ossrs/go-oryx-lib/") {
			fn := l
			if j := strings.LastIndex(fn, "("); j > 0 {
				fn = fn[:j]
			}
			loc := ""
			if i+1 < len(lines) {
				loc = strings.TrimSpace(lines[i+1])
				if j := strings.Index(loc, " "); j > 0 {
					loc = loc[:j]
				}
				loc = filepath.Base(loc)
			}
			return strings.TrimPrefix(fn, "github.com/ossrs/go-oryx-lib/") + "@" + loc
		}
	}
	return "?"
}

// WithTimeout runs f in a goroutine; a stall beyond d is reported as an error (the goroutine
// is leaked; only used where the property says "always returns").
func WithTimeout(d time.Duration, f func() error) error {
	ch := make(chan error, 1)
	go func() { ch <- Try(f) }()
	select {
	case err := <-ch:
		return err
	case <-time.After(d):
		return fmt.Errorf("stall: call did not return within %v", d)
	}
}

// ---------------------------------------------------------------- rapid driver

// Rapid runs prop under rapid.Check with a per-check case count and a seed derived from
// VERIF_SEED, the check name and the shard number.
func Rapid(t *testing.T, check string, quick, thorough int, prop func(*rapid.T)) {
	t.Helper()
	n := N(quick, thorough)
	if s := Shards(); s > 1 {
		n = (n + s - 1) / s
	}
	if v := os.Getenv("VERIF_CHECKS"); v != "" {
		n, _ = strconv.Atoi(v)
	}
	seed := Hash(check, Seed(), Shard())
	if seed == 0 {
		seed = 1
	}
	flag.Set("rapid.checks", strconv.Itoa(n))
	flag.Set("rapid.seed", strconv.FormatUint(seed, 10))
	flag.Set("rapid.nofailfile", "true")
	flag.Set("rapid.shrinktime", "20s")
	rapid.Check(t, prop)
}

// ---------------------------------------------------------------- known findings

type Finding struct {
	Kind     string // finding | fixed
	Property string
	Sig      string
	Text     string
}

var (
	kfOnce sync.Once
	kfList []Finding
)

func Findings() []Finding {
	kfOnce.Do(func() {
		b, err := os.ReadFile(filepath.Join(Root(), "KNOWN_FINDINGS.txt"))
		if err != nil {
			return
		}
		for _, l := range strings.Split(string(b), "\n") {
			l = strings.TrimSpace(l)
			if l == "" || strings.HasPrefix(l, "#") {
				continue
			}
			var f Finding
			switch {
			case strings.HasPrefix(l, "finding:"):
				f.Kind = "finding"
				l = strings.TrimSpace(strings.TrimPrefix(l, "finding:"))
			case strings.HasPrefix(l, "fixed:"):
				f.Kind = "fixed"
				l = strings.TrimSpace(strings.TrimPrefix(l, "fixed:"))
			default:
				continue
			}
			fields := strings.Fields(l)
			rest := []string{}
			for _, fl := range fields {
				switch {
				case strings.HasPrefix(fl, "property=") && f.Property == "":
					f.Property = strings.TrimPrefix(fl, "property=")
				case strings.HasPrefix(fl, "sig=") && f.Sig == "":
					f.Sig = strings.TrimPrefix(fl, "sig=")
				default:
					rest = append(rest, fl)
				}
			}
			f.Text = strings.Join(rest, " ")
			kfList = append(kfList, f)
		}
	})
	return kfList
}

// Open reports whether an open (unfixed) known finding with that signature is listed for
// the property; generators then exclude matching inputs by construction.
func Open(property, sig string) bool {
	for _, f := range Findings() {
		if f.Kind == "finding" && f.Property == property && f.Sig == sig {
			return true
		}
	}
	return false
}

// Known records that the probe for an open finding still fails in the listed way;
// bin/check prints the KNOWN-FINDING line.
func Known(property, sig, observed string) {
	text := sig
	for _, f := range Findings() {
		if f.Kind == "finding" && f.Property == property && f.Sig == sig {
			text = "sig=" + sig + " " + f.Text
		}
	}
	b, _ := json.Marshal(map[string]string{"property": property, "sig": sig, "text": text, "observed": firstLine(observed)})
	os.WriteFile(filepath.Join(evDir(), fmt.Sprintf("known-%s-%s-%d.json", property, sanitize(sig), os.Getpid())), b, 0o644)
}

// Stale records that a listed open finding no longer reproduces (informational).
func Stale(property, sig string) {
	b, _ := json.Marshal(map[string]string{"property": property, "sig": sig})
	os.WriteFile(filepath.Join(evDir(), fmt.Sprintf("stale-%s-%s-%d.json", property, sanitize(sig), os.Getpid())), b, 0o644)
}

// ---------------------------------------------------------------- replay / regression

type Replayer = func(raw json.RawMessage) error

func readReplay(path string) (replayFile, error) {
	var rf replayFile
	b, err := os.ReadFile(path)
	if err != nil {
		return rf, err
	}
	err = json.Unmarshal(b, &rf)
	return rf, err
}

// Regress runs every committed regression replay of the property (cases of defects that were
// fixed, and hand-picked boundary cases); a failure is a violation.
func Regress(t *testing.T, property string, rs map[string]Replayer) {
	rec := New(property, "regress", "committed regression replays under /verif/regress/"+property+" (shrunk cases of repaired defects); all count as non-trivial")
	for _, p := range RegressFiles(property) {
		rf, err := readReplay(p)
		if err != nil {
			t.Fatalf("regress file %s: %v", p, err)
		}
		r := rs[rf.Check]
		if r == nil {
			t.Fatalf("regress file %s: no replayer for check %q", p, rf.Check)
		}
		e := Try(func() error { return r(rf.Case) })
		rec.Case(true, Hash(p), nil, func() any { return filepath.Base(p) })
		if e != nil {
			failMu.Lock()
			fb, _ := json.Marshal(failure{Property: property, Check: "regress:" + rf.Check, Error: firstLine(e.Error()), Replay: p})
			os.WriteFile(filepath.Join(evDir(), fmt.Sprintf("violation-%s-regress-%s-%d.json", property, sanitize(filepath.Base(p)), os.Getpid())), fb, 0o644)
			failMu.Unlock()
			t.Errorf("regression %s: %v", p, e)
		}
	}
}

// Replay runs the case in $VERIF_REPLAY.
func Replay(t *testing.T, property string, rs map[string]Replayer) {
	p := os.Getenv("VERIF_REPLAY")
	rf, err := readReplay(p)
	if err != nil {
		t.Fatalf("replay file %s: %v", p, err)
	}
	r := rs[rf.Check]
	if r == nil {
		t.Fatalf("replay file %s: no replayer for check %q", p, rf.Check)
	}
	e := Try(func() error { return r(rf.Case) })
	rec := New(property, "replay", "replay of one saved case")
	rec.Case(true, Hash(p), nil, nil)
	if e != nil {
		failMu.Lock()
		fb, _ := json.Marshal(failure{Property: property, Check: rf.Check, Error: firstLine(e.Error()), Replay: p})
		os.WriteFile(filepath.Join(evDir(), fmt.Sprintf("violation-%s-replay-%d.json", property, os.Getpid())), fb, 0o644)
		failMu.Unlock()
		t.Fatalf("replay %s: %v", p, e)
	}
	t.Logf("replay %s: passes", p)
}

// ---------------------------------------------------------------- independent cases side by side

// Parallel is a check of its own for code whose objects are meant to be independent of each
// other: it draws batches of cases with gen (inside rapid, so a run is a function of the seed),
// makes sure each passes alone, then runs the same cases on several goroutines at once. A case
// that passes alone and fails next to the others shows state shared between independent objects
// (a package-level buffer, pool or cache). The replay file holds that case (alone it passes: the
// failure needs company, which the error text says).
func Parallel[C any](t *testing.T, property, check string, quickBatches, thoroughBatches, batch int, gen func(*rapid.T) C, run func(C) error) {
	t.Helper()
	rec := New(property, check, fmt.Sprintf("batches of %d rapid-generated cases of this property's main check, each first run alone, then 24 runs of each spread over 3 x GOMAXPROCS goroutines at once (half of them with the crowd squeezed onto two processors, so that calls are preempted in mid-flight); "+
		"oracle: a case that passes alone passes next to the others; non-trivial = every case of a batch that ran concurrently", batch))
	Rapid(t, check, quickBatches, thoroughBatches, func(t *rapid.T) {
		cases := rapid.SliceOfN(rapid.Custom(gen), batch, batch).Draw(t, "cases")
		for _, c := range cases {
			if err := Try(func() error { return run(c) }); err != nil {
				t.Skip("a case fails alone: the main check's business")
			}
		}
		// Two phases. (1) All processors, 3 goroutines each: truly simultaneous calls (a shared template
		// slice, an unsynchronised table). (2) Two processors for the same crowd: every goroutine is
		// preempted in mid-call again and again and another continues on the same processor - that is
		// what it takes to meet a sync.Pool entry that was given back while still in use (the pool keeps
		// a private slot per processor).
		var mu sync.Mutex
		var firstErr error
		var firstCase C
		phase := func(workers, total int) {
			per := (total + workers - 1) / workers
			var wg sync.WaitGroup
			for w := 0; w < workers; w++ {
				wg.Add(1)
				go func(w int) {
					defer wg.Done()
					for i := 0; i < per; i++ {
						c := cases[(w*per+i)%len(cases)]
						if err := Try(func() error { return run(c) }); err != nil {
							mu.Lock()
							if firstErr == nil {
								firstErr, firstCase = err, c
							}
							mu.Unlock()
							return
						}
					}
				}(w)
			}
			wg.Wait()
		}
		procs := runtime.GOMAXPROCS(0)
		workers := 3 * procs
		if workers < 8 {
			workers = 8
		}
		phase(workers, 12*len(cases))
		if firstErr == nil && procs > 2 {
			runtime.GOMAXPROCS(2)
			phase(workers, 12*len(cases))
			runtime.GOMAXPROCS(procs)
		}
		for _, c := range cases {
			rec.Case(true, Hash(c), nil, func() any { return c })
		}
		if firstErr != nil {
			err := fmt.Errorf("passes alone, fails when independent cases run on other goroutines at the same time (shared state between independent objects): %v", firstErr)
			p := Fail(property, check, firstCase, err)
			t.Fatalf("%v (replay %s)", err, p)
		}
	})
}

// Trash overwrites a byte slice the library handed out - its whole capacity - once the check is
// done with it: the application owns what it was given and may reuse it; nothing the library
// returns later may depend on it.
func Trash(b []byte) {
	b = b[:cap(b)]
	for i := range b {
		b[i] = 0xA5 ^ byte(i)
	}
}
