// Package rtmpx has helpers shared by the RTMP property packages (C01-C04, C07, C08).
package rtmpx

import (
	"bytes"
	"fmt"

	"github.com/ossrs/go-oryx-lib/rtmp"
	"verif/harness/internal/ref/rtmpref"
)

// Fill produces a deterministic payload of n bytes from a drawn 64-bit value, so replay files
// carry (length, fill) instead of megabytes. fill==0 gives a counting pattern.
func Fill(n int, fill uint64) []byte {
	b := make([]byte, n)
	if fill == 0 {
		for i := range b {
			b[i] = byte(i)
		}
		return b
	}
	x := fill
	for i := 0; i < n; i++ {
		x ^= x << 13
		x ^= x >> 7
		x ^= x << 17
		b[i] = byte(x)
	}
	return b
}

// StreamIDOf recovers the (unexported) message stream id of a message the library returned, by
// re-serialising it through a scratch Protocol and parsing the type-0 header independently.
func StreamIDOf(m *rtmp.Message) (uint32, error) {
	var buf bytes.Buffer
	p := rtmp.NewProtocol(&buf)
	c := *m
	if len(c.Payload) == 0 {
		c.Payload = []byte{0}
	} else if len(c.Payload) > 1 {
		c.Payload = c.Payload[:1]
	}
	if err := p.WriteMessage(&c); err != nil {
		return 0, err
	}
	b := buf.Bytes()
	// the library writer always emits a 1-byte basic header (chunk stream id & 0x3f)
	off := 1
	if len(b) < off+11 {
		return 0, fmt.Errorf("short re-serialisation %x", b)
	}
	h := b[off:]
	return uint32(h[7]) | uint32(h[8])<<8 | uint32(h[9])<<16 | uint32(h[10])<<24, nil
}

// Same compares a library message with a reference message (timestamps reduced to 31 bits).
func Same(got *rtmp.Message, want rtmpref.Msg) error {
	if got == nil {
		return fmt.Errorf("nil message")
	}
	if uint8(got.MessageType) != want.Type {
		return fmt.Errorf("type %d, want %d", got.MessageType, want.Type)
	}
	if got.Timestamp != uint64(want.Timestamp&0x7fffffff) {
		return fmt.Errorf("timestamp %d, want %d", got.Timestamp, want.Timestamp&0x7fffffff)
	}
	if !bytes.Equal(got.Payload, want.Payload) {
		return fmt.Errorf("payload differs: got %d bytes %s, want %d bytes %s", len(got.Payload), head(got.Payload), len(want.Payload), head(want.Payload))
	}
	sid, err := StreamIDOf(got)
	if err != nil {
		return fmt.Errorf("stream id: %v", err)
	}
	if sid != want.StreamID {
		return fmt.Errorf("stream id %d, want %d", sid, want.StreamID)
	}
	return nil
}

func head(b []byte) string {
	if len(b) > 12 {
		return fmt.Sprintf("%x..", b[:12])
	}
	return fmt.Sprintf("%x", b)
}
