// Package wsx builds library WebSocket endpoints over in-memory transports through the
// library's own opening handshake (Dialer.Dial / Upgrader.Upgrade), from outside the package.
package wsx

import (
	"bufio"
	"bytes"
	"fmt"
	"io"
	"net"
	"net/http"
	"strings"
	"sync"
	"time"

	"github.com/ossrs/go-oryx-lib/websocket"
	"verif/harness/internal/ref/wsref"
)

type addr struct{}

func (addr) Network() string { return "mem" }
func (addr) String() string  { return "mem" }

// Conn is an in-memory net.Conn. Reads come from R; each Write call is handed to W (and logged).
//
// Deadlines are honoured on a virtual clock owned by the harness: Elapse lets "a long time" pass
// (longer than any timeout in use). A deadline that was armed before the last Elapse and neither
// cleared nor re-armed since has expired: the operation it covers fails with a timeout error, as
// on a real socket. Deadlines armed after the last Elapse never expire (no wall clock involved).
type Conn struct {
	R       io.Reader
	W       func(p []byte) (int, error)
	mu      sync.Mutex
	Closed  bool
	OnClose func()

	epoch          int
	rArmed, wArmed bool
	rEpoch, wEpoch int
}

type timeoutError struct{ op string }

func (t *timeoutError) Error() string {
	return t.op + " mem: i/o timeout (a deadline armed earlier was left on the connection)"
}
func (t *timeoutError) Timeout() bool   { return true }
func (t *timeoutError) Temporary() bool { return true }

// Elapse lets a long time pass on the connection's clock.
func (c *Conn) Elapse() {
	c.mu.Lock()
	c.epoch++
	c.mu.Unlock()
}

func (c *Conn) Read(p []byte) (int, error) {
	c.mu.Lock()
	cl := c.Closed
	expired := c.rArmed && c.rEpoch < c.epoch
	c.mu.Unlock()
	if cl {
		return 0, io.ErrClosedPipe
	}
	if expired {
		return 0, &timeoutError{"read"}
	}
	return c.R.Read(p)
}

func (c *Conn) Write(p []byte) (int, error) {
	c.mu.Lock()
	cl := c.Closed
	expired := c.wArmed && c.wEpoch < c.epoch
	c.mu.Unlock()
	if cl {
		return 0, io.ErrClosedPipe
	}
	if expired {
		return 0, &timeoutError{"write"}
	}
	return c.W(p)
}

func (c *Conn) Close() error {
	c.mu.Lock()
	was := c.Closed
	c.Closed = true
	c.mu.Unlock()
	if !was && c.OnClose != nil {
		c.OnClose()
	}
	return nil
}

// IsClosed reports whether Close was called.
func (c *Conn) IsClosed() bool {
	c.mu.Lock()
	defer c.mu.Unlock()
	return c.Closed
}

func (c *Conn) LocalAddr() net.Addr  { return addr{} }
func (c *Conn) RemoteAddr() net.Addr { return addr{} }
func (c *Conn) SetDeadline(t time.Time) error {
	c.SetReadDeadline(t)
	return c.SetWriteDeadline(t)
}
func (c *Conn) SetReadDeadline(t time.Time) error {
	c.mu.Lock()
	c.rArmed, c.rEpoch = !t.IsZero(), c.epoch
	if c.rArmed && !t.After(time.Now()) {
		c.rEpoch = c.epoch - 1 // a deadline that is not in the future has expired already, as on a real socket
	}
	c.mu.Unlock()
	return nil
}
func (c *Conn) SetWriteDeadline(t time.Time) error {
	c.mu.Lock()
	c.wArmed, c.wEpoch = !t.IsZero(), c.epoch
	if c.wArmed && !t.After(time.Now()) {
		c.wEpoch = c.epoch - 1
	}
	c.mu.Unlock()
	return nil
}

// Sink collects the bytes an endpoint writes, per Write call.
type Sink struct {
	mu    sync.Mutex
	All   bytes.Buffer
	Calls [][]byte
	Pipe  io.Writer // optional: also forwarded here (the peer's input)
}

func (s *Sink) Write(p []byte) (int, error) {
	s.mu.Lock()
	defer s.mu.Unlock()
	s.All.Write(p)
	s.Calls = append(s.Calls, append([]byte(nil), p...))
	if s.Pipe != nil {
		return s.Pipe.Write(p)
	}
	return len(p), nil
}

// Bytes returns everything written after the first skip bytes.
func (s *Sink) Bytes(skip int) []byte {
	s.mu.Lock()
	defer s.mu.Unlock()
	return append([]byte(nil), s.All.Bytes()[skip:]...)
}

func (s *Sink) Len() int {
	s.mu.Lock()
	defer s.mu.Unlock()
	return s.All.Len()
}

// Config of one endpoint.
type Config struct {
	ReadBuf, WriteBuf int  // 0 = reuse the hijacked bufio buffers (server) / library default (client)
	BrwRead, BrwWrite int  // sizes of the hijacked bufio.ReadWriter (server, when ReadBuf/WriteBuf are 0)
	Compression       bool // offer / accept permessage-deflate
	// HandshakeTimeout of the Dialer / the Upgrader; 0 = none
	HandshakeTimeout time.Duration `json:"handshake_timeout,omitempty"`
}

type hijackWriter struct {
	conn net.Conn
	brw  *bufio.ReadWriter
	hdr  http.Header
	code int
	body bytes.Buffer
}

func (h *hijackWriter) Header() http.Header         { return h.hdr }
func (h *hijackWriter) Write(p []byte) (int, error) { return h.body.Write(p) }
func (h *hijackWriter) WriteHeader(c int)           { h.code = c }
func (h *hijackWriter) Hijack() (net.Conn, *bufio.ReadWriter, error) {
	return h.conn, h.brw, nil
}

// RequestBytes is an opening handshake request written by the harness (independent of the client code).
func RequestBytes(key string, compression bool) []byte {
	s := "GET /chat HTTP/1.1\r\nHost: example.com\r\nUpgrade: websocket\r\nConnection: Upgrade\r\nSec-WebSocket-Key: " + key + "\r\nSec-WebSocket-Version: 13\r\n"
	if compression {
		s += "Sec-WebSocket-Extensions: permessage-deflate; server_no_context_takeover; client_no_context_takeover\r\n"
	}
	return []byte(s + "\r\n")
}

// Handshake facts observed while building an endpoint.
type Handshake struct {
	Request  []byte
	Response []byte
	Key      string
}

// Check verifies the response against RFC 6455: status 101, Upgrade/Connection, accept key
// computed independently, extension header iff compression was offered and enabled.
func (h Handshake) Check(compressionExpected bool) error {
	resp, err := http.ReadResponse(bufio.NewReader(bytes.NewReader(h.Response)), nil)
	if err != nil {
		return fmt.Errorf("handshake response unreadable: %v", err)
	}
	if resp.StatusCode != 101 {
		return fmt.Errorf("handshake status %d", resp.StatusCode)
	}
	if !strings.EqualFold(resp.Header.Get("Upgrade"), "websocket") || !strings.EqualFold(resp.Header.Get("Connection"), "upgrade") {
		return fmt.Errorf("handshake response lacks Upgrade/Connection: %v", resp.Header)
	}
	if got, want := resp.Header.Get("Sec-WebSocket-Accept"), wsref.AcceptKey(h.Key); got != want {
		return fmt.Errorf("Sec-WebSocket-Accept %q, want base64(SHA-1(key+GUID)) = %q", got, want)
	}
	ext := resp.Header.Get("Sec-WebSocket-Extensions")
	if compressionExpected != strings.Contains(ext, "permessage-deflate") {
		return fmt.Errorf("extension header %q, compression expected %v", ext, compressionExpected)
	}
	if compressionExpected && (!strings.Contains(ext, "server_no_context_takeover") || !strings.Contains(ext, "client_no_context_takeover")) {
		return fmt.Errorf("extension header %q lacks the no_context_takeover parameters", ext)
	}
	return nil
}

// NewServer upgrades a harness-written request. in = the bytes the peer will send after the
// handshake; out receives everything the endpoint writes (the 101 response first).
func NewServer(cfg Config, offerCompression bool, in io.Reader, out *Sink) (*websocket.Conn, *Conn, Handshake, error) {
	key := "dGhlIHNhbXBsZSBub25jZQ=="
	reqBytes := RequestBytes(key, offerCompression)
	return upgrade(cfg, reqBytes, key, in, out)
}

func upgrade(cfg Config, reqBytes []byte, key string, in io.Reader, out *Sink) (*websocket.Conn, *Conn, Handshake, error) {
	hs := Handshake{Request: reqBytes, Key: key}
	req, err := http.ReadRequest(bufio.NewReader(bytes.NewReader(reqBytes)))
	if err != nil {
		return nil, nil, hs, fmt.Errorf("harness: request unreadable: %v", err)
	}
	nc := &Conn{R: in, W: out.Write}
	br, bw := cfg.BrwRead, cfg.BrwWrite
	if br == 0 {
		br = 4096
	}
	if bw == 0 {
		bw = 4096
	}
	hw := &hijackWriter{conn: nc, hdr: http.Header{}, brw: bufio.NewReadWriter(bufio.NewReaderSize(nc, br), bufio.NewWriterSize(nc, bw))}
	up := websocket.Upgrader{ReadBufferSize: cfg.ReadBuf, WriteBufferSize: cfg.WriteBuf, EnableCompression: cfg.Compression, HandshakeTimeout: cfg.HandshakeTimeout,
		CheckOrigin: func(*http.Request) bool { return true }}
	before := out.Len()
	c, err := up.Upgrade(hw, req, nil)
	if err != nil {
		return nil, nil, hs, fmt.Errorf("Upgrade: %v", err)
	}
	hs.Response = out.Bytes(before)
	return c, nc, hs, nil
}

// NewClient dials against a scripted peer: the 101 response is computed by the harness from
// the request the library wrote (accept key per RFC 6455). in = what the peer sends afterwards.
func NewClient(cfg Config, acceptCompression bool, in io.Reader, out *Sink) (*websocket.Conn, *Conn, Handshake, error) {
	var hs Handshake
	lazy := &lazyReader{f: func() []byte {
		hs.Request = out.Bytes(0)
		req, err := http.ReadRequest(bufio.NewReader(bytes.NewReader(hs.Request)))
		if err != nil {
			return []byte("HTTP/1.1 400 Bad Request\r\n\r\n")
		}
		hs.Key = req.Header.Get("Sec-WebSocket-Key")
		s := "HTTP/1.1 101 Switching Protocols\r\nUpgrade: websocket\r\nConnection: Upgrade\r\nSec-WebSocket-Accept: " + wsref.AcceptKey(hs.Key) + "\r\n"
		if acceptCompression && strings.Contains(req.Header.Get("Sec-WebSocket-Extensions"), "permessage-deflate") {
			s += "Sec-WebSocket-Extensions: permessage-deflate; server_no_context_takeover; client_no_context_takeover\r\n"
		}
		hs.Response = []byte(s + "\r\n")
		return hs.Response
	}}
	nc := &Conn{R: &seqReader{first: lazy, rest: in}, W: out.Write}
	d := websocket.Dialer{NetDial: func(network, addr string) (net.Conn, error) { return nc, nil },
		ReadBufferSize: cfg.ReadBuf, WriteBufferSize: cfg.WriteBuf, EnableCompression: cfg.Compression, HandshakeTimeout: cfg.HandshakeTimeout}
	c, _, err := d.Dial("ws://example.com/chat", nil)
	if err != nil {
		return nil, nil, hs, fmt.Errorf("Dial: %v", err)
	}
	return c, nc, hs, nil
}

// seqReader reads first until it is exhausted, then rest (rest may report EOF and later have
// data again, unlike io.MultiReader which drops a reader at its first EOF).
type seqReader struct {
	first io.Reader
	rest  io.Reader
	done  bool
}

func (s *seqReader) Read(p []byte) (int, error) {
	if !s.done {
		n, err := s.first.Read(p)
		if err == io.EOF {
			s.done = true
			if n > 0 {
				return n, nil
			}
		} else {
			return n, err
		}
	}
	return s.rest.Read(p)
}

type lazyReader struct {
	f func() []byte
	r *bytes.Reader
}

func (l *lazyReader) Read(p []byte) (int, error) {
	if l.r == nil {
		l.r = bytes.NewReader(l.f())
	}
	return l.r.Read(p)
}

// Pair connects a library client to a library server through the library's handshake on both
// sides (single goroutine): the client's request is handed to Upgrade when the client first
// reads, and the server's real 101 response is what the client parses.
type Pair struct {
	Client, Server     *websocket.Conn
	C2S, S2C           *bytes.Buffer // unread bytes in each direction
	ClientOut          *Sink         // everything the client wrote (request first)
	ServerOut          *Sink         // everything the server wrote (response first)
	ClientSkip         int           // handshake bytes at the start of ClientOut
	ServerSkip         int
	HS                 Handshake
	ClientNC, ServerNC *Conn
}

func NewPair(ccfg, scfg Config) (*Pair, error) { return NewPairHook(ccfg, scfg, nil) }

// NewPairHook is NewPair with a hook that runs on the server endpoint right after Upgrade, before
// the client has read the 101 response: what the server writes there reaches the client in the
// same transport read as the response (a server that speaks first).
func NewPairHook(ccfg, scfg Config, afterUpgrade func(server *websocket.Conn) error) (*Pair, error) {
	p := &Pair{C2S: &bytes.Buffer{}, S2C: &bytes.Buffer{}}
	p.ClientOut = &Sink{Pipe: p.C2S}
	p.ServerOut = &Sink{Pipe: p.S2C}
	var upErr error
	lazy := &lazyReader{f: func() []byte {
		req := p.ClientOut.Bytes(0)
		p.ClientSkip = len(req)
		p.C2S.Reset() // the request is consumed by the HTTP layer, not by the websocket reader
		r, err := http.ReadRequest(bufio.NewReader(bytes.NewReader(req)))
		if err != nil {
			upErr = err
			return []byte("HTTP/1.1 400 Bad Request\r\n\r\n")
		}
		p.HS.Key = r.Header.Get("Sec-WebSocket-Key")
		p.Server, p.ServerNC, _, upErr = upgrade(scfg, req, p.HS.Key, p.C2S, p.ServerOut)
		p.HS.Request = req
		resp := p.ServerOut.Bytes(0)
		p.HS.Response = resp
		p.ServerSkip = len(resp)
		if afterUpgrade != nil && upErr == nil && p.Server != nil {
			if err := afterUpgrade(p.Server); err != nil {
				upErr = err
			}
			resp = p.ServerOut.Bytes(0) // response + the frames the server already sent
		}
		p.S2C.Reset()
		return resp
	}}
	p.ClientNC = &Conn{R: &seqReader{first: lazy, rest: p.S2C}, W: p.ClientOut.Write}
	d := websocket.Dialer{NetDial: func(network, addr string) (net.Conn, error) { return p.ClientNC, nil },
		ReadBufferSize: ccfg.ReadBuf, WriteBufferSize: ccfg.WriteBuf, EnableCompression: ccfg.Compression, HandshakeTimeout: ccfg.HandshakeTimeout}
	c, _, err := d.Dial("ws://example.com/chat", nil)
	if upErr != nil {
		return nil, fmt.Errorf("server side of the handshake: %v", upErr)
	}
	if err != nil {
		return nil, fmt.Errorf("Dial: %v", err)
	}
	p.Client = c
	return p, nil
}
