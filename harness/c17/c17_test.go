// C17: comment stripping never changes what a JSON document means.
package c17

import (
	"bufio"
	"bytes"
	stdjson "encoding/json"
	"fmt"
	"io"
	"os"
	"reflect"
	"strings"
	"testing"

	oj "github.com/ossrs/go-oryx-lib/json"
	"pgregory.net/rapid"
	"verif/harness/internal/ev"
	"verif/harness/internal/ref/jsonref"
	"verif/harness/internal/xport"
)

const prop = "C17"

func TestMain(m *testing.M) { ev.Main(m) }

type Case struct {
	Val     jsonref.V `json:"val"`
	Mode    int       `json:"mode"`
	Plain   []string  `json:"plain"` // whitespace gaps of the undecorated text
	Gaps    []string  `json:"gaps"`  // whitespace/comment gaps of the decorated text
	SegKind int       `json:"seg_kind"`
	Seg     []int     `json:"seg,omitempty"`
}

// Seg0 is the first drawn segment size (0 if none).
func (c Case) Seg0() int {
	if len(c.Seg) > 0 {
		return c.Seg[0]
	}
	return 0
}

type stats struct {
	comments, escQuote, markerInString, eofLine bool
}

func decode(r io.Reader) (any, error) {
	var v any
	err := stdjson.NewDecoder(r).Decode(&v)
	return v, err
}

func runCase(c Case) (st stats, err error) {
	toks := jsonref.Tokens(c.Val, c.Mode)
	plain := jsonref.Join(toks, c.Plain)
	decorated := jsonref.Join(toks, c.Gaps)
	for _, t := range toks {
		if len(t) > 1 && t[0] == '"' {
			if strings.Contains(t, `\"`) {
				st.escQuote = true
			}
			if strings.Contains(t, "//") || strings.Contains(t, "/*") || strings.Contains(t, "*/") || strings.Contains(t, "'") {
				st.markerInString = true
			}
		}
	}
	for _, g := range c.Gaps {
		if strings.Contains(g, "//") || strings.Contains(g, "/*") {
			st.comments = true
		}
	}
	if n := len(c.Gaps); n > 0 && strings.Contains(c.Gaps[n-1], "//") && !strings.HasSuffix(c.Gaps[n-1], "\n") {
		st.eofLine = true
	}
	want, werr := decode(strings.NewReader(plain))
	if werr != nil {
		return st, fmt.Errorf("harness: the undecorated text %q does not decode: %v", clip(plain), werr)
	}
	seg := func(s string) io.Reader {
		var r io.Reader = strings.NewReader(s)
		r = xport.Segment(r, c.SegKind, c.Seg)
		return r
	}
	// (1) decorated text through the library == undecorated text through the standard decoder
	var got any
	if e := oj.Unmarshal(seg(decorated), &got); e != nil {
		return st, fmt.Errorf("Unmarshal of the decorated text fails: %v\n  decorated: %q\n  plain:     %q", e, clip(decorated), clip(plain))
	}
	if !reflect.DeepEqual(got, want) {
		return st, fmt.Errorf("decorated text decodes to %v, the undecorated text to %v\n  decorated: %q\n  plain:     %q", clipv(got), clipv(want), clip(decorated), clip(plain))
	}
	// (2) what the comment reader emits for the decorated text still decodes to the same value
	out, e := io.ReadAll(oj.NewJsonPlusReader(seg(decorated)))
	if e != nil {
		return st, fmt.Errorf("reading the decorated text: %v", e)
	}
	if v2, e := decode(bytes.NewReader(out)); e != nil || !reflect.DeepEqual(v2, want) {
		return st, fmt.Errorf("stripped text %q decodes to %v (err %v), want %v", clip(string(out)), clipv(v2), e, clipv(want))
	}
	// (3) a document without comments passes through byte for byte
	pass, e := io.ReadAll(oj.NewJsonPlusReader(seg(plain)))
	if e != nil {
		return st, fmt.Errorf("reading the comment-free text %q: %v", clip(plain), e)
	}
	if string(pass) != plain {
		return st, fmt.Errorf("comment-free text is altered: %q became %q", clip(plain), clip(string(pass)))
	}
	// (4) several readers alive at once, read in small pieces, one of them read again after its end:
	// each document still comes out as when read alone
	r1 := oj.NewJsonPlusReader(seg(decorated))
	if o1, e := io.ReadAll(r1); e != nil || !bytes.Equal(o1, out) {
		return st, fmt.Errorf("a second reader over the same decorated text gives %q (err %v), the first gave %q", clip(string(o1)), e, clip(string(out)))
	}
	r2 := oj.NewJsonPlusReader(seg(decorated))
	var o2 []byte
	small := make([]byte, 3)
	n2, e2 := r2.Read(small)
	o2 = append(o2, small[:n2]...)
	if n, _ := r1.Read(make([]byte, 64)); n != 0 {
		return st, fmt.Errorf("a reader that had reported the end of its document returned %d more bytes", n)
	}
	r3 := oj.NewJsonPlusReader(seg(plain))
	if o3, e := io.ReadAll(r3); e != nil || string(o3) != plain {
		return st, fmt.Errorf("comment-free text read while another reader is half-way is altered: %q became %q (err %v)", clip(plain), clip(string(o3)), e)
	}
	if e2 == nil && len(decorated)%3 == 0 {
		// the rest is drained with io.Copy (which hands the reader over to a WriterTo, if it is one)
		var rest bytes.Buffer
		var src io.Reader = r2
		if len(decorated)%2 == 0 {
			src = bufio.NewReaderSize(r2, 16)
		}
		if _, e := io.Copy(&rest, src); e != nil {
			return st, fmt.Errorf("io.Copy of the rest of the decorated text after a first Read of %d bytes: %v", n2, e)
		}
		o2, e2 = append(o2, rest.Bytes()...), io.EOF
	}
	for i := 0; e2 == nil; i++ {
		n2, e2 = r2.Read(small[:1+i%3])
		o2 = append(o2, small[:n2]...)
		if i > 4*len(decorated)+64 {
			return st, fmt.Errorf("reader does not reach the end of a %d-byte document after %d reads", len(decorated), i)
		}
	}
	if e2 != io.EOF || !bytes.Equal(o2, out) {
		return st, fmt.Errorf("decorated text read in small pieces while other readers were used gives %q (err %v), read alone it gives %q", clip(string(o2)), e2, clip(string(out)))
	}
	return st, nil
}

func clip(s string) string {
	if len(s) > 300 {
		return s[:300] + "..."
	}
	return s
}

func clipv(v any) string { return clip(fmt.Sprintf("%#v", v)) }

// ---------------------------------------------------------------- generator

var strAlphabet = []string{`"`, `\`, `/`, `*`, `'`, "\n", "\t", " ", "a", "é", "//", "/*", "*/", `\"`, "x", "{", "}", ",", ":", " "}

func genStr(t *rapid.T) string {
	n := rapid.IntRange(0, 8).Draw(t, "strn")
	var b strings.Builder
	for i := 0; i < n; i++ {
		b.WriteString(rapid.SampledFrom(strAlphabet).Draw(t, "ch"))
	}
	return b.String()
}

func genVal(t *rapid.T, depth int) jsonref.V {
	k := rapid.IntRange(0, 9).Draw(t, "kind")
	if depth >= 5 && k >= 6 {
		k -= 6
	}
	switch k {
	case 0:
		return jsonref.V{K: "null"}
	case 1:
		return jsonref.V{K: rapid.SampledFrom([]string{"true", "false"}).Draw(t, "bool")}
	case 2:
		return jsonref.V{K: "num", Raw: rapid.SampledFrom([]string{"0", "-0", "1", "-1", "3.25", "1e3", "1E-2", "123456789", "0.5", "-12.75e+2"}).Draw(t, "num")}
	case 3, 4, 5:
		if rapid.IntRange(0, 300).Draw(t, "longstr") == 0 {
			return jsonref.V{K: "str", Str: strings.Repeat(rapid.SampledFrom([]string{"a", "ab/", `\"`, "*/ /*"}).Draw(t, "lsu"), rapid.SampledFrom([]int{1400, 1400, 22000}).Draw(t, "lsn"))}
		}
		return jsonref.V{K: "str", Str: genStr(t)}
	case 6, 7:
		v := jsonref.V{K: "arr"}
		n := rapid.IntRange(0, 4).Draw(t, "an")
		if depth == 0 && rapid.IntRange(0, 15).Draw(t, "longarr") == 0 {
			// a long run of tokens without quotes or comment markers
			for i, m := 0, rapid.SampledFrom([]int{700, 1400, 3000, 12000}).Draw(t, "lan"); i < m; i++ {
				v.Elem = append(v.Elem, jsonref.V{K: "num", Raw: fmt.Sprint(100000 + i)})
			}
		}
		for i := 0; i < n; i++ {
			v.Elem = append(v.Elem, genVal(t, depth+1))
		}
		return v
	default:
		v := jsonref.V{K: "obj"}
		n := rapid.IntRange(0, 4).Draw(t, "on")
		for i := 0; i < n; i++ {
			v.Keys = append(v.Keys, genStr(t)+fmt.Sprint(i)) // distinct keys
			v.Elem = append(v.Elem, genVal(t, depth+1))
		}
		return v
	}
}

// genLongWS: a long run without any marker (indentation, blank lines), longer than the reader's buffers.
func genLongWS(t *rapid.T) string {
	n := rapid.SampledFrom([]int{4090, 4094, 4095, 4096, 4097, 5000, 8191, 8192, 9000, 65535, 65536, 70000}).Draw(t, "wsn")
	return strings.Repeat(rapid.SampledFrom([]string{" ", "\n", "\t \n"}).Draw(t, "wsu"), n)[:n]
}

func genWS(t *rapid.T) string {
	return rapid.SampledFrom([]string{"", "", " ", "\n", "\t", "  ", "\r\n", " \n "}).Draw(t, "ws")
}

func genCommentBody(t *rapid.T, block bool) string {
	n := rapid.IntRange(0, 6).Draw(t, "cn")
	var b strings.Builder
	for i := 0; i < n; i++ {
		b.WriteString(rapid.SampledFrom([]string{`"`, `\`, `/`, `*`, `'`, " ", "a", "é", "//", "/*", "{", "\t", `\"`, "x", "\n"}).Draw(t, "cch"))
	}
	s := b.String()
	if block {
		for strings.Contains(s, "*/") {
			s = strings.ReplaceAll(s, "*/", "* /")
		}
		if strings.HasSuffix(s, "*") {
			s += " " // "**/" would still close correctly, but keep the closing marker unambiguous
		}
		return s
	}
	return strings.ReplaceAll(s, "\n", " ")
}

func genGap(t *rapid.T, last bool) string {
	var b strings.Builder
	b.WriteString(genWS(t))
	n := rapid.IntRange(0, 2).Draw(t, "ncomm")
	for i := 0; i < n; i++ {
		if rapid.Bool().Draw(t, "block") {
			b.WriteString("/*" + genCommentBody(t, true) + "*/")
		} else {
			b.WriteString("//" + genCommentBody(t, false))
			if !(last && i == n-1 && rapid.Bool().Draw(t, "noeol")) {
				b.WriteString("\n")
			} else {
				return b.String() // a final line comment without newline ends the input
			}
		}
		b.WriteString(genWS(t))
	}
	return b.String()
}

var rec = ev.New(prop, "decorated-documents",
	"rapid-generated JSON values (depth<=5; strings over an alphabet rich in quote, backslash, slash, star, apostrophe, newline, comment markers and escaped quotes; two escaping styles) rendered token by token with drawn "+
		"whitespace, then decorated at every token boundary with // and /* */ comments whose bodies are drawn from the same alphabet (final line comment optionally without newline), read whole / 1 byte at a time / in drawn segments; "+
		"oracle: library Unmarshal(decorated) == encoding/json(undecorated), stripped text decodes to the same value, comment-free text passes through byte for byte; "+
		"non-trivial = has comments, or a string with an escaped quote, or a comment marker/apostrophe inside a string").
	Require("comments", "escaped-quote", "marker-in-string", "eof-line-comment", "segmented")

func genCase(t *rapid.T) Case {
	{
		c := Case{Val: genVal(t, 0), Mode: rapid.IntRange(0, 1).Draw(t, "mode")}
		nt := len(jsonref.Tokens(c.Val, c.Mode))
		if nt <= 200 {
			for i := 0; i <= nt; i++ {
				c.Plain = append(c.Plain, genWS(t))
				if rapid.IntRange(0, 2).Draw(t, "deco") == 0 {
					c.Gaps = append(c.Gaps, genGap(t, i == nt))
				} else {
					c.Gaps = append(c.Gaps, genWS(t))
				}
			}
		} else {
			// a long document: bare, with a few decorated places
			c.Plain, c.Gaps = make([]string, nt+1), make([]string, nt+1)
			for k := rapid.IntRange(0, 5).Draw(t, "ndeco"); k > 0; k-- {
				i := rapid.IntRange(0, nt).Draw(t, "decoat")
				c.Plain[i], c.Gaps[i] = genWS(t), genGap(t, i == nt)
			}
		}
		if rapid.IntRange(0, 15).Draw(t, "longws") == 0 {
			i := rapid.IntRange(0, nt).Draw(t, "longwsat")
			c.Plain[i] = genLongWS(t) + c.Plain[i]
			c.Gaps[i] = genLongWS(t) + c.Gaps[i]
		}
		c.SegKind = rapid.IntRange(0, xport.SegKinds-1).Draw(t, "segk")
		if c.SegKind == 2 || c.SegKind == 3 || c.SegKind == 5 {
			c.Seg = rapid.SliceOfN(rapid.IntRange(1, 9), 1, 6).Draw(t, "seg")
		}
		if n := max(len(jsonref.Join(jsonref.Tokens(c.Val, c.Mode), c.Gaps)), len(jsonref.Join(jsonref.Tokens(c.Val, c.Mode), c.Plain))); n > 11000 && c.SegKind != 0 && c.SegKind != 4 {
			// the reader rescans its pending text on every read: long documents are read in
			// pieces of kilobytes, not bytes (cost, not correctness)
			c.Seg = []int{4096, 1000 + c.Seg0(), 8192, 4095}
			if c.SegKind == 1 {
				c.SegKind = 2
			}
		}
		return c
	}
}

// TestSideBySide: independent readers over different documents on several goroutines at once.
func TestSideBySide(t *testing.T) {
	ev.Parallel(t, prop, "side-by-side", 4, 300, 100, genCase, func(c Case) error { _, e := runCase(c); return e })
}

func TestDecorated(t *testing.T) {
	ev.Rapid(t, "decorated-documents", 4000, 800000, func(t *rapid.T) {
		c := genCase(t)
		var st stats
		err := ev.Try(func() error {
			var e error
			st, e = runCase(c)
			return e
		})
		var cl []string
		if st.comments {
			cl = append(cl, "comments")
		}
		if st.escQuote {
			cl = append(cl, "escaped-quote")
		}
		if st.markerInString {
			cl = append(cl, "marker-in-string")
		}
		ntv := len(cl) > 0
		if st.eofLine {
			cl = append(cl, "eof-line-comment")
		}
		if c.SegKind != 0 {
			cl = append(cl, "segmented")
		}
		rec.Case(ntv, ev.Hash(c), cl, func() any {
			return map[string]any{"decorated": clip(jsonref.Join(jsonref.Tokens(c.Val, c.Mode), c.Gaps))}
		})
		if err != nil {
			p := ev.Fail(prop, "decorated-documents", c, err)
			t.Fatalf("%v (replay %s)", err, p)
		}
	})
}

// TestLongStrings: string literals longer than any buffer of the reader (64 KiB and its doubles), made of escapes,
// starting at every alignment, so that whatever piece boundaries the reader uses fall on every position of an escape.
func TestLongStrings(t *testing.T) {
	rec := ev.New(prop, "long-strings", "deterministic: one string of 66-140 KB built from units {a, backslash-quote, two backslashes, backslash+two backslashes+quote, comment markers} at 4 alignments, "+
		"with and without comments around it, read whole and in 4 KiB / odd pieces; oracle as in decorated-documents; all non-trivial")
	rec.Exhaustive()
	units := []string{"a", "\\\"", "\\\\", "\\\\\\\"", "*/ // /*", "\\\\a"}
	i := 0
	for _, u := range units {
		for _, total := range []int{66000, 70001, 131071, 140000} {
			for align := 0; align < 4; align++ {
				for _, deco := range []bool{false, true} {
					i++
					if i%ev.Shards() != ev.Shard() {
						continue
					}
					str := strings.Repeat(u, total/len(u))
					c := Case{Val: jsonref.V{K: "arr", Elem: []jsonref.V{{K: "num", Raw: "1"}, {K: "str", Str: str}, {K: "str", Str: "tail\\"}}}, Mode: i % 2}
					nt := len(jsonref.Tokens(c.Val, c.Mode))
					c.Plain, c.Gaps = make([]string, nt+1), make([]string, nt+1)
					c.Plain[0], c.Gaps[0] = strings.Repeat(" ", align), strings.Repeat(" ", align)
					if deco {
						c.Gaps[1], c.Gaps[nt] = "/* c */", " // end"
					}
					c.SegKind, c.Seg = []int{0, 2, 4, 2}[align], []int{4096, 4095, 65536, 7}
					err := ev.Try(func() error { _, e := runCase(c); return e })
					rec.Case(true, ev.Hash(u, total, align, deco), nil, func() any {
						return map[string]any{"unit": u, "string_bytes": len(str), "align": align, "decorated": deco}
					})
					if err != nil {
						err = fmt.Errorf("string of %d x %q at alignment %d: %v", total/len(u), u, align, err)
						p := ev.Fail(prop, "decorated-documents", c, err)
						t.Fatalf("%v (replay %s)", clip(err.Error()), p)
					}
				}
			}
		}
	}
}

// TestLongComments: comments longer than any buffer of the reader, at the start, in the middle and at the very end of the input.
func TestLongComments(t *testing.T) {
	rec := ev.New(prop, "long-comments", "deterministic: one comment of {65530, 65536, 70000, 140001} bytes ({line comment with newline, line comment ending the input without newline, block comment} x body of {x, slash, star-space, quote}) "+
		"placed before the value, inside it, or after it, around a scalar / an array / an object, read whole, in 4 KiB pieces, with an early EOF, through a bufio.Reader; oracle as in decorated-documents; all non-trivial")
	rec.Exhaustive()
	vals := []jsonref.V{{K: "num", Raw: "123"}, {K: "arr", Elem: []jsonref.V{{K: "num", Raw: "1"}, {K: "str", Str: "a//b"}}}, {K: "obj", Keys: []string{"k"}, Elem: []jsonref.V{{K: "str", Str: "v"}}}}
	i := 0
	for vi, v := range vals {
		for _, n := range []int{65530, 65536, 70000, 140001} {
			for _, unit := range []string{"x", "/", "* ", "\""} {
				for kind := 0; kind < 3; kind++ {
					for pos := 0; pos < 3; pos++ {
						i++
						if i%ev.Shards() != ev.Shard() {
							continue
						}
						c := Case{Val: v, Mode: i % 2}
						nt := len(jsonref.Tokens(c.Val, c.Mode))
						c.Plain, c.Gaps = make([]string, nt+1), make([]string, nt+1)
						at := []int{0, nt / 2, nt}[pos]
						body := strings.Repeat(unit, n/len(unit))
						switch kind {
						case 0:
							c.Gaps[at] = " //" + body + "\n"
						case 1:
							at = nt // only the last gap can end the input
							c.Gaps[at] = " //" + body
						case 2:
							c.Gaps[at] = "/*" + body + " */"
						}
						c.SegKind, c.Seg = []int{0, 2, 4, 5}[i%4], []int{4096, 4095, 65536, 7}
						err := ev.Try(func() error { _, e := runCase(c); return e })
						info := map[string]any{"value": vi, "comment_bytes": len(body), "unit": unit, "comment": []string{"line", "line-at-eof", "block"}[kind], "gap": at, "seg_kind": c.SegKind}
						rec.Case(true, ev.Hash(vi, n, unit, kind, pos), nil, func() any { return info })
						if err != nil {
							err = fmt.Errorf("%v: %v", info, err)
							p := ev.Fail(prop, "decorated-documents", c, err)
							t.Fatalf("%v (replay %s)", clip(err.Error()), p)
						}
					}
				}
			}
		}
	}
}

func replayers() map[string]ev.Replayer {
	f := func(raw stdjson.RawMessage) error {
		var c Case
		if err := stdjson.Unmarshal(raw, &c); err != nil {
			return err
		}
		_, e := runCase(c)
		return e
	}
	return map[string]ev.Replayer{"decorated-documents": f, "side-by-side": f}
}

func TestRegress(t *testing.T) { ev.Regress(t, prop, replayers()) }
func TestReplay(t *testing.T) {
	if os.Getenv("VERIF_REPLAY") == "" {
		t.Skip("no VERIF_REPLAY")
	}
	ev.Replay(t, prop, replayers())
}
