// C01: whatever sequence of RTMP messages one endpoint writes, the peer reads back identically,
// after the simple handshake, for every chunk size announced by either side, under every read
// segmentation. Oracle: round trip + an independent dechunker on the sniffed wire bytes.
package c01

import (
	"bytes"
	"encoding/binary"
	"encoding/json"
	"fmt"
	"io"
	"math/rand"
	"os"
	"testing"

	"github.com/ossrs/go-oryx-lib/rtmp"
	"pgregory.net/rapid"
	"verif/harness/internal/ev"
	"verif/harness/internal/ref/rtmpref"
	"verif/harness/internal/rtmpx"
	"verif/harness/internal/xport"
)

const prop = "C01"

func TestMain(m *testing.M) { ev.Main(m) }

type Step struct {
	Dir       int    `json:"dir"`  // 0: A writes and B reads, 1: B writes and A reads
	Kind      string `json:"kind"` // msg | scs | pkt
	Type      uint8  `json:"type,omitempty"`
	Sid       uint32 `json:"sid,omitempty"`
	Ts        uint32 `json:"ts,omitempty"`
	Len       int    `json:"len,omitempty"`
	Fill      uint64 `json:"fill,omitempty"`
	Body      ev.Hex `json:"body,omitempty"` // explicit body (control types 4 and 5)
	ChunkSize uint32 `json:"chunk_size,omitempty"`
	Again     int    `json:"again,omitempty"` // msg only: 1 = the reader relays the message it received back to the writer; 2 = the writer sends the same Message object a second time; 3 = ... after changing its timestamp and type to Ts2/Type2
	Ts2       uint32 `json:"ts2,omitempty"`
	Type2     uint8  `json:"type2,omitempty"`
}

type Case struct {
	HsSeed  [2]int64 `json:"hs_seed"`
	SegKind [2]int   `json:"seg_kind"` // reader segmentation of endpoint A, B
	Seg     [2][]int `json:"seg"`
	Steps   []Step   `json:"steps"`
	// Early: the client (A) sends its first message right behind C2, before the server has read C2 (only if step 0 is a message of A)
	Early bool `json:"early,omitempty"`
	// FinEOF: the transport reports io.EOF together with the last bytes of the session (the peer closed right after its last message)
	FinEOF bool `json:"fin_eof,omitempty"`
}

// finReader reads a pipe; once *fin is set it reports io.EOF together with the last bytes.
type finReader struct {
	buf *bytes.Buffer
	fin *bool
}

func (f finReader) Read(p []byte) (int, error) {
	n, err := f.buf.Read(p)
	if *f.fin && f.buf.Len() == 0 {
		return n, io.EOF
	}
	return n, err
}

func (s Step) payload() []byte {
	if s.Body != nil {
		return s.Body
	}
	return rtmpx.Fill(s.Len, s.Fill)
}

// ---------------------------------------------------------------- generator

var tsClasses = []uint32{0, 1, 0xFFFFFE, 0xFFFFFF, 0x1000000, 0x1000001, 1<<31 - 1, 1<<31 - 2}
var sidClasses = []uint32{0, 1, 2, 1<<31 - 1, 1 << 31, 1<<32 - 1, 0x01020304}
var csClasses = []uint32{1, 2, 3, 127, 128, 129, 4096, 65535, 65536, 1 << 24, 1<<24 - 1, 1<<31 - 1}

func genTs(t *rapid.T) uint32 {
	if rapid.IntRange(0, 2).Draw(t, "tsk") > 0 {
		return rapid.SampledFrom(tsClasses).Draw(t, "ts")
	}
	return uint32(rapid.Uint64Range(0, 1<<31-1).Draw(t, "tsu"))
}

func genSid(t *rapid.T) uint32 {
	if rapid.Bool().Draw(t, "sidk") {
		return rapid.SampledFrom(sidClasses).Draw(t, "sid")
	}
	return rapid.Uint32().Draw(t, "sidu")
}

func genChunkSize(t *rapid.T) uint32 {
	switch rapid.IntRange(0, 3).Draw(t, "csk") {
	case 0:
		return uint32(rapid.Uint64Range(1, 1<<31-1).Draw(t, "csu"))
	case 1:
		return uint32(rapid.IntRange(1, 300).Draw(t, "css"))
	default:
		return rapid.SampledFrom(csClasses).Draw(t, "cs")
	}
}

// genLen draws a payload length relative to the writer's chunk size c, keeping the number of
// chunks of one message bounded (maxChunks) and the bytes bounded (maxBytes).
func genLen(t *rapid.T, c uint32, maxBytes int) int {
	const maxChunks = 1 << 12
	cc := int(c)
	cands := []int{1, 2, cc - 1, cc, cc + 1}
	for k := 2; k <= 5; k++ {
		cands = append(cands, k*cc-1, k*cc, k*cc+1)
	}
	cands = append(cands, 65535, 65536, 65537, 1<<24-1)
	var n int
	if rapid.IntRange(0, 3).Draw(t, "lenk") == 0 {
		n = rapid.IntRange(1, 3000).Draw(t, "lenu")
	} else {
		n = rapid.SampledFrom(cands).Draw(t, "len")
	}
	if n < 1 {
		n = 1
	}
	if n > 1<<24-1 {
		n = 1<<24 - 1
	}
	if n > maxBytes {
		n = maxBytes
	}
	if n/cc > maxChunks {
		n = cc*maxChunks - 1
	}
	return n
}

func genUserControlBody(t *rapid.T) []byte {
	evt := uint16(rapid.SampledFrom([]int{0, 1, 2, 3, 4, 6, 7, 0x1a, 0x1b, 31, 32, 1000, 65535}).Draw(t, "evt"))
	n := 4
	if evt == 3 {
		n = 8
	}
	if evt == 0x1a {
		n = 1
	}
	b := make([]byte, 2+n)
	binary.BigEndian.PutUint16(b, evt)
	copy(b[2:], rtmpx.Fill(n, rapid.Uint64().Draw(t, "ucfill")))
	return b
}

func genCase(t *rapid.T) Case {
	var c Case
	c.HsSeed = [2]int64{rapid.Int64().Draw(t, "hsA"), rapid.Int64().Draw(t, "hsB")}
	for i := 0; i < 2; i++ {
		c.SegKind[i] = rapid.IntRange(0, 2).Draw(t, "segk")
		if c.SegKind[i] == 2 {
			c.Seg[i] = rapid.SliceOfN(rapid.IntRange(1, 20), 1, 8).Draw(t, "seg")
		}
	}
	n := rapid.IntRange(1, 24).Draw(t, "nsteps")
	out := [2]uint32{128, 128}
	budget := ev.N(3<<20, 40<<20)
	for i := 0; i < n; i++ {
		var s Step
		s.Dir = rapid.IntRange(0, 1).Draw(t, "dir")
		switch k := rapid.IntRange(0, 9).Draw(t, "kind"); {
		case k <= 1:
			s.Kind = "scs"
			s.ChunkSize = genChunkSize(t)
			s.Sid = genSid(t)
			out[s.Dir] = s.ChunkSize
		case k == 2:
			s.Kind = "pkt" // typed control packets through WritePacket
			s.Type = rapid.SampledFrom([]uint8{4, 5, 6}).Draw(t, "ptype")
			s.Sid = genSid(t)
			s.Fill = rapid.Uint64().Draw(t, "pfill")
		default:
			s.Kind = "msg"
			s.Type = genType(t)
			s.Sid = genSid(t)
			s.Ts = genTs(t)
			switch s.Type {
			case 4:
				s.Body = genUserControlBody(t)
			case 5:
				s.Body = rtmpx.Fill(4, rapid.Uint64().Draw(t, "wfill"))
			case 2:
				// Abort: 4 bytes naming a chunk stream - one that carries no unfinished message (none does here)
				s.Body = []byte{0, 0, 0, byte(rapid.IntRange(2, 63).Draw(t, "abortcid"))}
			case 3:
				s.Body = rtmpx.Fill(4, rapid.Uint64().Draw(t, "ackfill")) // Acknowledgement: sequence number
			case 6:
				s.Body = append(rtmpx.Fill(4, rapid.Uint64().Draw(t, "spbfill")), byte(rapid.IntRange(0, 2).Draw(t, "spblimit"))) // Set Peer Bandwidth
			default:
				max := budget
				if max < 1 {
					max = 1
				}
				s.Len = genLen(t, out[s.Dir], max)
				s.Fill = rapid.Uint64().Draw(t, "fill")
				budget -= s.Len
				if rapid.IntRange(0, 4).Draw(t, "againk") == 0 {
					s.Again = rapid.IntRange(1, 3).Draw(t, "again")
					budget -= s.Len
					if s.Again == 3 {
						s.Ts2, s.Type2 = genTs(t), rapid.SampledFrom([]uint8{8, 9, 18, 20, 22}).Draw(t, "type2")
					}
				}
			}
		}
		c.Steps = append(c.Steps, s)
	}
	c.Early = rapid.IntRange(0, 2).Draw(t, "early") == 0
	c.FinEOF = rapid.IntRange(0, 2).Draw(t, "fineof") == 0
	if c.FinEOF && rapid.Bool().Draw(t, "bigfinal") {
		// the session ends with a message in large chunks, read by an unsegmented reader
		d := rapid.IntRange(0, 1).Draw(t, "findir")
		c.SegKind[1-d] = 0
		c.Steps = append(c.Steps, Step{Dir: d, Kind: "scs", ChunkSize: rapid.SampledFrom([]uint32{4097, 8192, 60000, 1 << 24}).Draw(t, "fincs")},
			Step{Dir: d, Kind: "msg", Type: 9, Sid: 1, Ts: genTs(t), Len: rapid.SampledFrom([]int{4096, 4200, 8300, 10000, 70000}).Draw(t, "finlen"), Fill: rapid.Uint64().Draw(t, "finfill")})
	}
	return c
}

func genType(t *rapid.T) uint8 {
	switch rapid.IntRange(0, 3).Draw(t, "typek") {
	case 0:
		for {
			v := rapid.Uint8().Draw(t, "typeu")
			if v != 1 { // a raw Set Chunk Size is outside the domain (announced through WritePacket only)
				return v
			}
		}
	case 1:
		return rapid.SampledFrom([]uint8{2, 3, 4, 5, 6, 7}).Draw(t, "typec")
	default:
		return rapid.SampledFrom([]uint8{8, 9, 15, 17, 18, 20, 22, 0, 255}).Draw(t, "typem")
	}
}

// ---------------------------------------------------------------- execution

type tee struct {
	pipe *bytes.Buffer
	log  *bytes.Buffer
}

func (w tee) Write(p []byte) (int, error) {
	w.log.Write(p)
	return w.pipe.Write(p)
}

type endpoint struct {
	rw io.ReadWriter
	p  *rtmp.Protocol
}

type stats struct {
	multiChunk, extTs, afterScs, splitHeader, relayed bool
	early, finEOF, reheadered                         bool
	msgs                                              int
}

func runCase(c Case) (st stats, err error) {
	var pipe [2]bytes.Buffer // pipe[0]: A->B, pipe[1]: B->A
	var log [2]bytes.Buffer
	var fin [2]bool
	mk := func(i int) io.ReadWriter {
		var r io.Reader = finReader{&pipe[1-i], &fin[1-i]}
		if c.SegKind[i] != 0 {
			r = &xport.SegReader{R: r, Sched: xport.Sched(c.SegKind[i], c.Seg[i])}
			st.splitHeader = true
		}
		return xport.RW{Reader: r, Writer: tee{&pipe[i], &log[i]}}
	}
	rws := [2]io.ReadWriter{mk(0), mk(1)}

	// simple handshake, A is the client
	var eps [2]*rtmp.Protocol
	var arenas [][2][]byte // application buffers the payloads were cut from, with their pristine copies
	newMsg := func(s Step) *rtmp.Message {
		m := rtmp.NewStreamMessage(int(s.Sid))
		m.MessageType = rtmp.MessageType(s.Type)
		m.Timestamp = uint64(s.Ts)
		// the payload is a window into a larger buffer of the application
		arena := append(s.payload(), "bytes behind the payload"...)
		arenas = append(arenas, [2][]byte{arena, append([]byte(nil), arena...)})
		m.Payload = arena[:len(arena)-len("bytes behind the payload")]
		return m
	}
	var early *rtmp.Message
	var earlyErr error
	wroteHs := 0
	if err = handshake(rws[0], rws[1], c.HsSeed, func() {
		wroteHs = log[0].Len()
		if c.Early && len(c.Steps) > 0 && c.Steps[0].Kind == "msg" && c.Steps[0].Dir == 0 {
			eps[0] = rtmp.NewProtocol(rws[0])
			early = newMsg(c.Steps[0])
			earlyErr = eps[0].WriteMessage(early)
		}
	}); err != nil {
		return st, fmt.Errorf("handshake: %v", err)
	}
	st.early = early != nil
	if earlyErr != nil {
		return st, fmt.Errorf("step 0: WriteMessage right behind C2: %v", earlyErr)
	}
	if early == nil && (pipe[0].Len() != 0 || pipe[1].Len() != 0) {
		return st, fmt.Errorf("handshake left %d/%d unread bytes", pipe[0].Len(), pipe[1].Len())
	}
	// the logs keep the chunk streams only
	rest := append([]byte(nil), log[0].Bytes()[wroteHs:]...)
	log[0].Reset()
	log[0].Write(rest)
	log[1].Reset()

	if eps[0] == nil {
		eps[0] = rtmp.NewProtocol(rws[0])
	}
	eps[1] = rtmp.NewProtocol(rws[1])
	// lastRead: the read after which nothing more is read in the session
	finalRead := func(i int, last bool, dir int) {
		if c.FinEOF && last && i == len(c.Steps)-1 {
			fin[dir] = true
			st.finEOF = true
		}
	}
	out := [2]uint32{128, 128}
	var sent [2][]rtmpref.Msg
	scsSeen := [2]bool{}
	type keptMsg struct {
		got  *rtmp.Message
		want rtmpref.Msg
		step int
	}
	var kept []keptMsg
	for i, s := range c.Steps {
		w, r := eps[s.Dir], eps[1-s.Dir]
		var want rtmpref.Msg
		var again *rtmp.Message
		switch s.Kind {
		case "scs":
			pkt := rtmp.NewSetChunkSize()
			pkt.ChunkSize = s.ChunkSize
			if e := w.WritePacket(pkt, int(s.Sid)); e != nil {
				return st, fmt.Errorf("step %d: WritePacket(SetChunkSize): %v", i, e)
			}
			b := make([]byte, 4)
			binary.BigEndian.PutUint32(b, s.ChunkSize)
			want = rtmpref.Msg{Type: 1, StreamID: s.Sid, Payload: b}
			out[s.Dir] = s.ChunkSize
			scsSeen[s.Dir] = true
		case "pkt":
			var pkt rtmp.Packet
			var body []byte
			switch s.Type {
			case 4:
				u := rtmp.NewUserControl()
				u.EventType = rtmp.EventType(6)
				u.EventData = int32(s.Fill)
				pkt = u
				body = []byte{0, 6, byte(s.Fill >> 24), byte(s.Fill >> 16), byte(s.Fill >> 8), byte(s.Fill)}
			case 5:
				u := rtmp.NewWindowAcknowledgementSize()
				u.AckSize = uint32(s.Fill)
				pkt = u
				body = []byte{byte(s.Fill >> 24), byte(s.Fill >> 16), byte(s.Fill >> 8), byte(s.Fill)}
			default:
				u := rtmp.NewSetPeerBandwidth()
				u.Bandwidth = uint32(s.Fill)
				u.LimitType = rtmp.LimitType(s.Fill >> 32)
				pkt = u
				body = []byte{byte(s.Fill >> 24), byte(s.Fill >> 16), byte(s.Fill >> 8), byte(s.Fill), byte(s.Fill >> 32)}
			}
			if e := w.WritePacket(pkt, int(s.Sid)); e != nil {
				return st, fmt.Errorf("step %d: WritePacket(type %d): %v", i, s.Type, e)
			}
			want = rtmpref.Msg{Type: s.Type, StreamID: s.Sid, Payload: body}
		default:
			var m *rtmp.Message
			if i == 0 && early != nil {
				m = early // already written, right behind C2
			} else {
				m = newMsg(s)
				if e := w.WriteMessage(m); e != nil {
					return st, fmt.Errorf("step %d: WriteMessage: %v", i, e)
				}
			}
			again = m
			want = rtmpref.Msg{Type: s.Type, StreamID: s.Sid, Timestamp: s.Ts, Payload: append([]byte(nil), m.Payload...)}
			if uint32(len(want.Payload)) > out[s.Dir] {
				st.multiChunk = true
			}
			if s.Ts >= 0xFFFFFF {
				st.extTs = true
			}
			if scsSeen[s.Dir] {
				st.afterScs = true
			}
		}
		sent[s.Dir] = append(sent[s.Dir], want)
		st.msgs++
		finalRead(i, !(s.Kind == "msg" && s.Again != 0), s.Dir)
		got, e := r.ReadMessage()
		if e != nil {
			return st, fmt.Errorf("step %d (%s len=%d ts=%d, writer chunk size %d): ReadMessage: %v", i, s.Kind, len(want.Payload), want.Timestamp, out[s.Dir], e)
		}
		if e := rtmpx.Same(got, want); e != nil {
			return st, fmt.Errorf("step %d (%s len=%d ts=%d, writer chunk size %d): %v", i, s.Kind, len(want.Payload), want.Timestamp, out[s.Dir], e)
		}
		if len(want.Payload) <= 1<<16 {
			kept = append(kept, keptMsg{got, want, i})
		}
		if pipe[s.Dir].Len() != 0 {
			return st, fmt.Errorf("step %d: %d bytes left unread after the message was returned", i, pipe[s.Dir].Len())
		}
		switch {
		case s.Kind == "msg" && s.Again == 1:
			// relay: the message just received is written back as it is
			if e := r.WriteMessage(got); e != nil {
				return st, fmt.Errorf("step %d: relaying the received message: %v", i, e)
			}
			sent[1-s.Dir] = append(sent[1-s.Dir], want)
			finalRead(i, true, 1-s.Dir)
			back, e := w.ReadMessage()
			if e != nil {
				return st, fmt.Errorf("step %d: reading the relayed message (len=%d ts=%d, relay's chunk size %d): %v", i, len(want.Payload), want.Timestamp, out[1-s.Dir], e)
			}
			if e := rtmpx.Same(back, want); e != nil {
				return st, fmt.Errorf("step %d: relayed message: %v", i, e)
			}
			st.relayed = true
		case s.Kind == "msg" && s.Again >= 2 && again != nil:
			// the application sends the same Message value once more, possibly with a new timestamp and type
			if s.Again == 3 {
				st.reheadered = true
				again.Timestamp, again.MessageType = uint64(s.Ts2), rtmp.MessageType(s.Type2)
				want.Timestamp, want.Type = s.Ts2, s.Type2
			}
			if e := w.WriteMessage(again); e != nil {
				return st, fmt.Errorf("step %d: second WriteMessage of the same Message: %v", i, e)
			}
			sent[s.Dir] = append(sent[s.Dir], want)
			finalRead(i, true, s.Dir)
			g2, e := r.ReadMessage()
			if e != nil {
				return st, fmt.Errorf("step %d: reading the message sent a second time: %v", i, e)
			}
			if e := rtmpx.Same(g2, want); e != nil {
				return st, fmt.Errorf("step %d: message sent a second time: %v", i, e)
			}
			st.relayed = true
		}
	}
	for _, a := range arenas {
		if !bytes.Equal(a[0], a[1]) {
			return st, fmt.Errorf("WriteMessage changed the application's buffer the payload was cut from")
		}
	}
	// a message handed to the application stays what it was while later messages are read
	for _, k := range kept {
		if e := rtmpx.Same(k.got, k.want); e != nil {
			return st, fmt.Errorf("message returned at step %d changed while later messages were read: %v", k.step, e)
		}
	}
	// independent view of the wire
	for d := 0; d < 2; d++ {
		res, e := rtmpref.NewDechunker().Dechunk(log[d].Bytes())
		if e != nil {
			return st, fmt.Errorf("wire %d: reference dechunker: %v after %d messages", d, e, len(res.Msgs))
		}
		if len(res.Msgs) != len(sent[d]) {
			return st, fmt.Errorf("wire %d: reference dechunker sees %d messages, %d were written", d, len(res.Msgs), len(sent[d]))
		}
		for i, m := range res.Msgs {
			w := sent[d][i]
			if m.Type != w.Type || m.StreamID != w.StreamID || m.Timestamp != w.Timestamp || !bytes.Equal(m.Payload, w.Payload) {
				return st, fmt.Errorf("wire %d message %d: on the wire type=%d sid=%d ts=%d len=%d, written type=%d sid=%d ts=%d len=%d",
					d, i, m.Type, m.StreamID, m.Timestamp, len(m.Payload), w.Type, w.StreamID, w.Timestamp, len(w.Payload))
			}
		}
	}
	return st, nil
}

func handshake(a, b io.ReadWriter, seeds [2]int64, afterC2 func()) error {
	ha := rtmp.NewHandshake(rand.New(rand.NewSource(seeds[0])))
	hb := rtmp.NewHandshake(rand.New(rand.NewSource(seeds[1])))
	if err := ha.WriteC0S0(a); err != nil {
		return err
	}
	if err := ha.WriteC1S1(a); err != nil {
		return err
	}
	c0, err := hb.ReadC0S0(b)
	if err != nil {
		return err
	}
	c1, err := hb.ReadC1S1(b)
	if err != nil {
		return err
	}
	if len(c0) != 1 || c0[0] != 3 {
		return fmt.Errorf("c0 = %x, want 03", c0)
	}
	if len(c1) != 1536 {
		return fmt.Errorf("c1 has %d bytes", len(c1))
	}
	if !bytes.Equal(c1[4:8], []byte{0, 0, 0, 0}) {
		return fmt.Errorf("c1 bytes 4..8 = %x, want zero", c1[4:8])
	}
	if err := hb.WriteC0S0(b); err != nil {
		return err
	}
	if err := hb.WriteC1S1(b); err != nil {
		return err
	}
	if err := hb.WriteC2S2(b, c1); err != nil {
		return err
	}
	s0, err := ha.ReadC0S0(a)
	if err != nil {
		return err
	}
	s1, err := ha.ReadC1S1(a)
	if err != nil {
		return err
	}
	s2, err := ha.ReadC2S2(a)
	if err != nil {
		return err
	}
	if len(s0) != 1 || s0[0] != 3 || len(s1) != 1536 {
		return fmt.Errorf("s0 = %x, s1 has %d bytes", s0, len(s1))
	}
	// RTMP 1.0 5.2.4: S2/C2 = the peer's time (4 bytes), time2 = when its packet was read (4 bytes, free), the echo of its random data
	if len(s2) != 1536 || !bytes.Equal(s2[:4], c1[:4]) || !bytes.Equal(s2[8:], c1[8:]) {
		return fmt.Errorf("s2 is not the echo of c1")
	}
	if err := ha.WriteC2S2(a, s1); err != nil {
		return err
	}
	afterC2()
	c2, err := hb.ReadC2S2(b)
	if err != nil {
		return err
	}
	if len(c2) != 1536 || !bytes.Equal(c2[:4], s1[:4]) || !bytes.Equal(c2[8:], s1[8:]) {
		return fmt.Errorf("c2 is not the echo of s1")
	}
	return nil
}

// ---------------------------------------------------------------- checks

var recSession = ev.New(prop, "session",
	"rapid-generated sessions (handshake, then <=24 steps of WriteMessage / WritePacket(SetChunkSize) / WritePacket(control) in both directions, "+
		"payload lengths relative to the writer's chunk size, boundary timestamps/stream ids/chunk sizes, reader segmentation whole/1-byte/drawn; messages relayed, re-sent as the same object (optionally with a new timestamp/type), "+
		"the client's first message optionally sent right behind C2, io.EOF optionally delivered with the last bytes of the session, payloads cut from larger application buffers); "+
		"non-trivial = a message spanning >=2 chunks, or ts>=0xFFFFFF, or a message after a Set Chunk Size, or a segmented reader; distinct by hash of the case").
	Require("multi-chunk", "ext-ts", "after-scs", "segmented", "relayed-or-resent", "first-message-behind-c2", "eof-with-last-bytes", "resent-with-new-header")

func check(c Case) error {
	var st stats
	err := ev.Try(func() error {
		var e error
		st, e = runCase(c)
		return e
	})
	var cl []string
	if st.multiChunk {
		cl = append(cl, "multi-chunk")
	}
	if st.extTs {
		cl = append(cl, "ext-ts")
	}
	if st.afterScs {
		cl = append(cl, "after-scs")
	}
	if st.splitHeader {
		cl = append(cl, "segmented")
	}
	if st.relayed {
		cl = append(cl, "relayed-or-resent")
	}
	if st.early {
		cl = append(cl, "first-message-behind-c2")
	}
	if st.finEOF {
		cl = append(cl, "eof-with-last-bytes")
	}
	if st.reheadered {
		cl = append(cl, "resent-with-new-header")
	}
	recSession.Case(len(cl) > 0, ev.Hash(c), cl, func() any { return c })
	return err
}

// TestSideBySide: independent sessions on several goroutines at once.
func TestSideBySide(t *testing.T) {
	ev.Parallel(t, prop, "side-by-side", 3, 100, 40, func(t *rapid.T) Case {
		c := genCase(t)
		for i := range c.Steps {
			c.Steps[i].Len = min(c.Steps[i].Len, 100000) // dozens of sessions are alive at once: keep each small
		}
		return c
	}, func(c Case) error { _, e := runCase(c); return e })
}

func TestSession(t *testing.T) {
	ev.Rapid(t, "session", 1500, 40000, func(t *rapid.T) {
		c := genCase(t)
		if err := check(c); err != nil {
			p := ev.Fail(prop, "session", c, err)
			t.Fatalf("%v (replay %s)", err, p)
		}
	})
}

// TestBoundaries enumerates (chunk size x length class x timestamp class) for a single message
// after an optional own Set Chunk Size: the deterministic part of the quantifier.
func TestBoundaries(t *testing.T) {
	rec := ev.New(prop, "boundaries", "odometer: chunk size {1,2,127,128,129,4096,65536} x announced-or-default x length {1,c-1,c,c+1,2c-1,2c,2c+1,5c+1} x ts {0,0xFFFFFE,0xFFFFFF,0x1000000,2^31-1} x segmentation {whole,1-byte}; non-trivial = all but single-chunk default-size cases")
	rec.Exhaustive()
	for _, cs := range []uint32{1, 2, 127, 128, 129, 4096, 65536} {
		for _, ln := range []int{1, int(cs) - 1, int(cs), int(cs) + 1, 2*int(cs) - 1, 2 * int(cs), 2*int(cs) + 1, 5*int(cs) + 1} {
			if ln < 1 {
				continue
			}
			for _, ts := range []uint32{0, 0xFFFFFE, 0xFFFFFF, 0x1000000, 1<<31 - 1} {
				for seg := 0; seg < 2; seg++ {
					for dir := 0; dir < 2; dir++ {
						c := Case{SegKind: [2]int{seg, seg}}
						if cs != 128 {
							c.Steps = append(c.Steps, Step{Dir: dir, Kind: "scs", ChunkSize: cs})
						}
						c.Steps = append(c.Steps, Step{Dir: dir, Kind: "msg", Type: 9, Sid: 1, Ts: ts, Len: ln, Fill: uint64(ln)*31 + uint64(ts)})
						c.Steps = append(c.Steps, Step{Dir: 1 - dir, Kind: "msg", Type: 8, Sid: 1, Ts: ts, Len: ln, Fill: 7})
						err := ev.Try(func() error { _, e := runCase(c); return e })
						rec.Case(true, ev.Hash(c), nil, func() any { return c })
						if err != nil {
							p := ev.Fail(prop, "boundaries", c, err)
							t.Fatalf("%v (replay %s)", err, p)
						}
					}
				}
			}
		}
	}
}

// TestLargestMessage: the largest payload a message header can announce (2^24-1 bytes), and its neighbour.
func TestLargestMessage(t *testing.T) {
	rec := ev.New(prop, "largest-message", "deterministic: one message of 2^24-2 and one of 2^24-1 payload bytes (the 24-bit length field's maximum), under the default chunk size and after Set Chunk Size 65536 / 2^24; every case is non-trivial")
	rec.Exhaustive()
	for _, ln := range []int{1<<24 - 2, 1<<24 - 1} {
		for _, cs := range []uint32{128, 65536, 1 << 24} {
			c := Case{}
			if cs != 128 {
				c.Steps = append(c.Steps, Step{Dir: 0, Kind: "scs", ChunkSize: cs})
			}
			c.Steps = append(c.Steps, Step{Dir: 0, Kind: "msg", Type: 9, Sid: 1, Ts: 7, Len: ln, Fill: uint64(ln)})
			err := ev.Try(func() error { _, e := runCase(c); return e })
			rec.Case(true, ev.Hash(c), nil, func() any { return c })
			if err != nil {
				p := ev.Fail(prop, "largest-message", c, err)
				t.Fatalf("%v (replay %s)", err, p)
			}
		}
	}
}

// ---------------------------------------------------------------- full duplex

// DCase: one endpoint reads the messages In while it writes the messages Out; the two directions of a session are
// independent byte streams, so what is read must not depend on when this endpoint writes, and the reverse.
type DCase struct {
	In  []Step `json:"in"`
	Out []DOut `json:"out"`
}

// DOut: the endpoint writes Step while its reader waits for byte K (0 = the basic header's first byte) of inbound message Msg.
type DOut struct {
	Step Step `json:"step"`
	Msg  int  `json:"msg"`
	K    int  `json:"k"`
}

type gated struct {
	want chan struct{}
	data chan byte
	out  bytes.Buffer
}

func (g *gated) Read(p []byte) (int, error) {
	if len(p) == 0 {
		return 0, nil
	}
	g.want <- struct{}{}
	b, ok := <-g.data
	if !ok {
		return 0, io.EOF
	}
	p[0] = b
	return 1, nil
}
func (g *gated) Write(p []byte) (int, error) { return g.out.Write(p) }

func genDCase(t *rapid.T) DCase {
	var c DCase
	step := func(label string) Step {
		return Step{Kind: "msg", Type: rapid.SampledFrom([]uint8{8, 9, 15, 17, 18, 20, 22}).Draw(t, label+"type"), Sid: genSid(t), Ts: genTs(t), Len: rapid.IntRange(1, 300).Draw(t, label+"len"), Fill: rapid.Uint64().Draw(t, label+"fill")}
	}
	for n := rapid.IntRange(1, 4).Draw(t, "nin"); len(c.In) < n; {
		c.In = append(c.In, step("in"))
	}
	for n := rapid.IntRange(1, 5).Draw(t, "nout"); len(c.Out) < n; {
		c.Out = append(c.Out, DOut{Step: step("out"), Msg: rapid.IntRange(0, len(c.In)-1).Draw(t, "at"), K: rapid.IntRange(0, 18).Draw(t, "k")})
	}
	return c
}

func plainMsg(s Step) *rtmp.Message {
	m := rtmp.NewStreamMessage(int(s.Sid))
	m.MessageType = rtmp.MessageType(s.Type)
	m.Timestamp = uint64(s.Ts)
	m.Payload = s.payload()
	return m
}

func sameMsg(m *rtmp.Message, s Step) error {
	return rtmpx.Same(m, rtmpref.Msg{Type: s.Type, StreamID: s.Sid, Timestamp: s.Ts, Payload: s.payload()})
}

func runDuplex(c DCase) (inHeader bool, err error) {
	// the inbound byte stream, written by a peer endpoint
	var wire bytes.Buffer
	peer := rtmp.NewProtocol(xport.RW{Reader: bytes.NewReader(nil), Writer: &wire})
	var starts []int
	for i, s := range c.In {
		starts = append(starts, wire.Len())
		if err := peer.WriteMessage(plainMsg(s)); err != nil {
			return false, fmt.Errorf("peer: WriteMessage %d: %v", i, err)
		}
	}
	in := wire.Bytes()
	at := map[int][]Step{}
	for _, o := range c.Out {
		pos := min(starts[o.Msg]+o.K, len(in)-1)
		at[pos] = append(at[pos], o.Step)
		if o.K >= 1 && o.K <= 11 && starts[o.Msg]+o.K < len(in) {
			inHeader = true
		}
	}

	g := &gated{want: make(chan struct{}), data: make(chan byte)}
	p := rtmp.NewProtocol(g)
	type res struct {
		i   int
		m   *rtmp.Message
		err error
	}
	done := make(chan res, len(c.In))
	go func() {
		for i := range c.In {
			m, err := p.ReadMessage()
			done <- res{i, m, err}
			if err != nil {
				return
			}
		}
	}()
	var order []Step
	got := 0
	collect := func(r res) error {
		if r.err != nil {
			return fmt.Errorf("ReadMessage %d: %v", r.i, r.err)
		}
		if err := sameMsg(r.m, c.In[r.i]); err != nil {
			return fmt.Errorf("inbound message %d (the endpoint wrote %d messages meanwhile): %v", r.i, len(order), err)
		}
		got++
		return nil
	}
	for i := 0; i < len(in); {
		select {
		case <-g.want:
			// the reader waits for byte i: this endpoint writes now
			for _, s := range at[i] {
				if err := p.WriteMessage(plainMsg(s)); err != nil {
					return inHeader, fmt.Errorf("WriteMessage while the reader waits for inbound byte %d: %v", i, err)
				}
				order = append(order, s)
			}
			g.data <- in[i]
			i++
		case r := <-done:
			if err := collect(r); err != nil {
				return inHeader, err
			}
		}
	}
	for got < len(c.In) {
		select {
		case r := <-done:
			if err := collect(r); err != nil {
				return inHeader, err
			}
		case <-g.want:
			return inHeader, fmt.Errorf("the reader asks for more than the %d bytes of the %d inbound messages (%d read)", len(in), len(c.In), got)
		}
	}
	// what this endpoint wrote, read by another endpoint
	back := rtmp.NewProtocol(xport.RW{Reader: bytes.NewReader(g.out.Bytes()), Writer: io.Discard})
	for i, s := range order {
		m, err := back.ReadMessage()
		if err != nil {
			return inHeader, fmt.Errorf("outbound message %d (written while reading): peer's ReadMessage: %v", i, err)
		}
		if err := sameMsg(m, s); err != nil {
			return inHeader, fmt.Errorf("outbound message %d (written while reading): %v", i, err)
		}
	}
	return inHeader, nil
}

// TestDuplex: an endpoint writes while its own reader is in the middle of an inbound chunk header.
func TestDuplex(t *testing.T) {
	rec := ev.New(prop, "duplex", "one endpoint reads 1..4 inbound messages delivered byte by byte and writes 1..5 messages at chosen moments in between (the harness owns the schedule: the write happens while the reader waits for a given byte); both directions are compared with what was written; non-trivial = a write falls inside an inbound chunk header").Require("write-inside-inbound-header")
	ev.Rapid(t, "duplex", 1500, 60000, func(t *rapid.T) {
		c := genDCase(t)
		var inHeader bool
		err := ev.WithTimeout(60e9, func() error {
			var e error
			inHeader, e = runDuplex(c)
			return e
		})
		var cl []string
		if inHeader {
			cl = append(cl, "write-inside-inbound-header")
		}
		rec.Case(inHeader, ev.Hash(c), cl, func() any { return c })
		if err != nil {
			p := ev.Fail(prop, "duplex", c, err)
			t.Fatalf("%v (replay %s)", err, p)
		}
	})
}

func replayers() map[string]func(json.RawMessage) error {
	f := func(raw json.RawMessage) error {
		var c Case
		if err := json.Unmarshal(raw, &c); err != nil {
			return err
		}
		return ev.Try(func() error { _, e := runCase(c); return e })
	}
	d := func(raw json.RawMessage) error {
		var c DCase
		if err := json.Unmarshal(raw, &c); err != nil {
			return err
		}
		return ev.WithTimeout(60e9, func() error { _, e := runDuplex(c); return e })
	}
	return map[string]func(json.RawMessage) error{"session": f, "boundaries": f, "side-by-side": f, "largest-message": f, "duplex": d}
}

func TestRegress(t *testing.T) { ev.Regress(t, prop, replayers()) }
func TestReplay(t *testing.T) {
	if os.Getenv("VERIF_REPLAY") == "" {
		t.Skip("no VERIF_REPLAY")
	}
	ev.Replay(t, prop, replayers())
}
