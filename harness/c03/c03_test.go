// C03: RTMP packets survive encode, wire and decode with the right type; _result is matched to
// the outstanding request exactly once; typed waits return the first packet of the type.
package c03

import (
	"bytes"
	"encoding/binary"
	"encoding/json"
	"fmt"
	"math"
	"os"
	"reflect"
	"testing"

	"github.com/ossrs/go-oryx-lib/amf0"
	"github.com/ossrs/go-oryx-lib/rtmp"
	"pgregory.net/rapid"
	"verif/harness/internal/amf0x"
	"verif/harness/internal/ev"
	"verif/harness/internal/ref/amf0ref"
	"verif/harness/internal/ref/rtmpref"
	"verif/harness/internal/rtmpx"
	"verif/harness/internal/xport"
)

const prop = "C03"

func TestMain(m *testing.M) { ev.Main(m) }

// P is the model of one packet (all kinds share the struct; unused fields stay zero).
type P struct {
	Kind       string        `json:"kind"`          // connect connectRes createStream createStreamRes publish play call closeStream scs wack spb uc
	Tid        uint64        `json:"tid,omitempty"` // float64 bits
	Name       amf0ref.Bytes `json:"name,omitempty"`
	Obj        *amf0ref.Val  `json:"obj,omitempty"`
	Args       *amf0ref.Val  `json:"args,omitempty"`
	StreamName amf0ref.Bytes `json:"stream_name,omitempty"`
	StreamType amf0ref.Bytes `json:"stream_type,omitempty"`
	StreamID   uint64        `json:"stream_id,omitempty"` // float64 bits
	U32        uint32        `json:"u32,omitempty"`
	Limit      uint8         `json:"limit,omitempty"`
	Evt        uint16        `json:"evt,omitempty"`
	Data       int32         `json:"data,omitempty"`
	Extra      int32         `json:"extra,omitempty"`
	Edit       uint64        `json:"edit,omitempty"` // != 0: the packet is sized and marshalled, then its object/arguments are edited in place (amf0x.Mutate) and it is marshalled again
}

func num(bits uint64) amf0ref.Val { return amf0ref.Val{K: amf0ref.Number, Num: bits} }
func str(b []byte) amf0ref.Val    { return amf0ref.Val{K: amf0ref.String, Str: b} }

var one = math.Float64bits(1)

// wire computes the payload the protocol defines for the packet, independently of the library
// (AMF0 through the reference encoder; ECMA counts of Set-built arrays are 0 in the library).
func (p P) wire() []byte {
	enc := func(vs ...amf0ref.Val) []byte {
		var b []byte
		for _, v := range vs {
			b = append(b, amf0ref.Encode(zeroCounts(v), amf0ref.Lib)...)
		}
		return b
	}
	opt := func(v *amf0ref.Val) []amf0ref.Val {
		if v == nil {
			return nil
		}
		return []amf0ref.Val{*v}
	}
	switch p.Kind {
	case "connect":
		return enc(append([]amf0ref.Val{str([]byte("connect")), num(one), *p.Obj}, opt(p.Args)...)...)
	case "connectRes":
		return enc(append([]amf0ref.Val{str([]byte("_result")), num(p.Tid), *p.Obj}, opt(p.Args)...)...)
	case "createStream":
		return enc(append([]amf0ref.Val{str([]byte("createStream")), num(p.Tid)}, opt(p.Obj)...)...)
	case "createStreamRes":
		return enc(str([]byte("_result")), num(p.Tid), *p.Obj, num(p.StreamID))
	case "publish":
		return enc(str([]byte("publish")), num(p.Tid), *p.Obj, str(p.StreamName), str(p.StreamType))
	case "play":
		return enc(str([]byte("play")), num(p.Tid), *p.Obj, str(p.StreamName))
	case "call":
		return enc(append(append([]amf0ref.Val{str(p.Name), num(p.Tid)}, opt(p.Obj)...), opt(p.Args)...)...)
	case "closeStream":
		return enc(append(append([]amf0ref.Val{str([]byte("closeStream")), num(p.Tid)}, opt(p.Obj)...), opt(p.Args)...)...)
	case "scs", "wack":
		b := make([]byte, 4)
		binary.BigEndian.PutUint32(b, p.U32)
		return b
	case "spb":
		b := make([]byte, 5)
		binary.BigEndian.PutUint32(b, p.U32)
		b[4] = p.Limit
		return b
	case "uc":
		b := []byte{byte(p.Evt >> 8), byte(p.Evt)}
		if p.Evt == 0x1a {
			b = append(b, byte(p.Data))
		} else {
			b = binary.BigEndian.AppendUint32(b, uint32(p.Data))
		}
		if p.Evt == 3 {
			b = binary.BigEndian.AppendUint32(b, uint32(p.Extra))
		}
		return b
	}
	panic("kind " + p.Kind)
}

// sameLayout checks a payload the library produced against the layout the protocol defines.
// Control packets byte for byte; command packets as the sequence of AMF0 values an independent
// decoder reads (the ECMA associative count is a hint and is not compared).
func (p P) sameLayout(b []byte) error {
	w := p.wire()
	if p.msgType() != 20 {
		if !bytes.Equal(b, w) {
			return fmt.Errorf("differs from the protocol layout %x (first difference at %d)", head(w), firstDiff(b, w))
		}
		return nil
	}
	gb, wb := b, w
	for i := 0; len(wb) > 0; i++ {
		wv, wn, err := amf0ref.Decode(wb, amf0ref.Lib)
		if err != nil {
			return fmt.Errorf("harness: reference payload undecodable: %v", err)
		}
		gv, gn, err := amf0ref.Decode(gb, amf0ref.Lib)
		if err != nil {
			return fmt.Errorf("value %d of the payload is not decodable (%v); the protocol puts a %v there", i, err, wv.K)
		}
		if err := amf0ref.Equal(gv, wv, true); err != nil {
			return fmt.Errorf("value %d of the payload differs from the protocol layout: %v", i, err)
		}
		gb, wb = gb[gn:], wb[wn:]
	}
	if len(gb) != 0 {
		return fmt.Errorf("%d bytes after the last value the protocol defines", len(gb))
	}
	return nil
}

func zeroCounts(v amf0ref.Val) amf0ref.Val {
	if v.K == amf0ref.Ecma {
		v.Count = 0
	}
	if len(v.Props) > 0 {
		ps := make([]amf0ref.Prop, len(v.Props))
		for i, p := range v.Props {
			ps[i] = amf0ref.Prop{Key: p.Key, Val: zeroCounts(p.Val)}
		}
		v.Props = ps
	}
	return v
}

func (p P) msgType() uint8 {
	switch p.Kind {
	case "scs":
		return 1
	case "wack":
		return 5
	case "spb":
		return 6
	case "uc":
		return 4
	}
	return 20
}

func opt(v *amf0ref.Val) amf0.Amf0 {
	if v == nil {
		return nil
	}
	return amf0x.Build(*v)
}

// build constructs the library packet through its constructor and exported fields.
func (p P) build() rtmp.Packet {
	tid := amf0.Number(math.Float64frombits(p.Tid))
	switch p.Kind {
	case "connect":
		k := rtmp.NewConnectAppPacket()
		k.CommandObject = amf0x.Build(*p.Obj).(*amf0.Object)
		if p.Args != nil {
			k.Args = amf0x.Build(*p.Args).(*amf0.Object)
		}
		return k
	case "connectRes":
		k := rtmp.NewConnectAppResPacket(tid)
		k.CommandObject = amf0x.Build(*p.Obj).(*amf0.Object)
		if p.Args != nil {
			k.Args = amf0x.Build(*p.Args).(*amf0.Object)
		}
		return k
	case "createStream":
		k := rtmp.NewCreateStreamPacket()
		k.TransactionID = tid
		k.CommandObject = opt(p.Obj)
		return k
	case "createStreamRes":
		k := rtmp.NewCreateStreamResPacket(tid)
		k.CommandObject = opt(p.Obj)
		k.StreamID = amf0.Number(math.Float64frombits(p.StreamID))
		return k
	case "publish":
		k := rtmp.NewPublishPacket()
		k.TransactionID = tid
		k.CommandObject = opt(p.Obj)
		k.StreamName = amf0.String(p.StreamName)
		k.StreamType = amf0.String(p.StreamType)
		return k
	case "play":
		k := rtmp.NewPlayPacket()
		k.TransactionID = tid
		k.CommandObject = opt(p.Obj)
		k.StreamName = amf0.String(p.StreamName)
		return k
	case "call":
		k := rtmp.NewCallPacket()
		k.CommandName = amf0.String(p.Name)
		k.TransactionID = tid
		k.CommandObject = opt(p.Obj)
		k.Args = opt(p.Args)
		return k
	case "closeStream":
		k := rtmp.NewCloseStreamPacket()
		k.TransactionID = tid
		k.CommandObject = opt(p.Obj)
		k.Args = opt(p.Args)
		return k
	case "scs":
		k := rtmp.NewSetChunkSize()
		k.ChunkSize = p.U32
		return k
	case "wack":
		k := rtmp.NewWindowAcknowledgementSize()
		k.AckSize = p.U32
		return k
	case "spb":
		k := rtmp.NewSetPeerBandwidth()
		k.Bandwidth = p.U32
		k.LimitType = rtmp.LimitType(p.Limit)
		return k
	case "uc":
		k := rtmp.NewUserControl()
		k.EventType = rtmp.EventType(p.Evt)
		k.EventData = p.Data
		k.ExtraData = p.Extra
		return k
	}
	panic("kind " + p.Kind)
}

// fresh returns an empty packet of the same Go type (what a decoder starts from).
func (p P) fresh() rtmp.Packet {
	switch p.Kind {
	case "connect":
		return rtmp.NewConnectAppPacket()
	case "connectRes":
		return rtmp.NewConnectAppResPacket(0)
	case "createStream":
		return rtmp.NewCreateStreamPacket()
	case "createStreamRes":
		return rtmp.NewCreateStreamResPacket(0)
	case "publish":
		return rtmp.NewPublishPacket()
	case "play":
		return rtmp.NewPlayPacket()
	case "call", "closeStream":
		return rtmp.NewCallPacket()
	case "scs":
		return rtmp.NewSetChunkSize()
	case "wack":
		return rtmp.NewWindowAcknowledgementSize()
	case "spb":
		return rtmp.NewSetPeerBandwidth()
	case "uc":
		return rtmp.NewUserControl()
	}
	panic("kind " + p.Kind)
}

func sameOpt(what string, got amf0.Amf0, want *amf0ref.Val) error {
	nilGot := got == nil || (reflect.ValueOf(got).Kind() == reflect.Ptr && reflect.ValueOf(got).IsNil())
	if want == nil {
		if !nilGot {
			return fmt.Errorf("%s: got %T, want absent", what, got)
		}
		return nil
	}
	if nilGot {
		return fmt.Errorf("%s: absent, want %v", what, want.K)
	}
	if err := amf0x.Same(got, *want); err != nil {
		return fmt.Errorf("%s: %v", what, err)
	}
	return nil
}

func sameNum(what string, got amf0.Number, bits uint64) error {
	if math.Float64bits(float64(got)) != bits {
		return fmt.Errorf("%s: number bits %016x, want %016x", what, math.Float64bits(float64(got)), bits)
	}
	return nil
}

func sameStr(what string, got amf0.String, want []byte) error {
	if string(got) != string(want) {
		return fmt.Errorf("%s: %q, want %q", what, string(got), string(want))
	}
	return nil
}

func first(errs ...error) error {
	for _, e := range errs {
		if e != nil {
			return e
		}
	}
	return nil
}

// same compares a decoded library packet field by field with the model.
func (p P) same(pkt rtmp.Packet) error {
	switch p.Kind {
	case "connect":
		k, ok := pkt.(*rtmp.ConnectAppPacket)
		if !ok {
			return fmt.Errorf("got %T, want *ConnectAppPacket", pkt)
		}
		var args amf0.Amf0
		if k.Args != nil {
			args = k.Args
		}
		return first(sameStr("name", k.CommandName, []byte("connect")), sameNum("tid", k.TransactionID, one), sameOpt("object", k.CommandObject, p.Obj), sameOpt("args", args, p.Args))
	case "connectRes":
		k, ok := pkt.(*rtmp.ConnectAppResPacket)
		if !ok {
			return fmt.Errorf("got %T, want *ConnectAppResPacket", pkt)
		}
		var args amf0.Amf0
		if k.Args != nil {
			args = k.Args
		}
		return first(sameStr("name", k.CommandName, []byte("_result")), sameNum("tid", k.TransactionID, p.Tid), sameOpt("object", k.CommandObject, p.Obj), sameOpt("args", args, p.Args))
	case "createStream":
		k, ok := pkt.(*rtmp.CreateStreamPacket)
		if !ok {
			return fmt.Errorf("got %T, want *CreateStreamPacket", pkt)
		}
		return first(sameStr("name", k.CommandName, []byte("createStream")), sameNum("tid", k.TransactionID, p.Tid), sameOpt("object", k.CommandObject, p.Obj))
	case "createStreamRes":
		k, ok := pkt.(*rtmp.CreateStreamResPacket)
		if !ok {
			return fmt.Errorf("got %T, want *CreateStreamResPacket", pkt)
		}
		return first(sameStr("name", k.CommandName, []byte("_result")), sameNum("tid", k.TransactionID, p.Tid), sameOpt("object", k.CommandObject, p.Obj), sameNum("stream id", k.StreamID, p.StreamID))
	case "publish":
		k, ok := pkt.(*rtmp.PublishPacket)
		if !ok {
			return fmt.Errorf("got %T, want *PublishPacket", pkt)
		}
		return first(sameStr("name", k.CommandName, []byte("publish")), sameNum("tid", k.TransactionID, p.Tid), sameOpt("object", k.CommandObject, p.Obj),
			sameStr("stream name", k.StreamName, p.StreamName), sameStr("stream type", k.StreamType, p.StreamType))
	case "play":
		k, ok := pkt.(*rtmp.PlayPacket)
		if !ok {
			return fmt.Errorf("got %T, want *PlayPacket", pkt)
		}
		return first(sameStr("name", k.CommandName, []byte("play")), sameNum("tid", k.TransactionID, p.Tid), sameOpt("object", k.CommandObject, p.Obj), sameStr("stream name", k.StreamName, p.StreamName))
	case "call", "closeStream":
		k, ok := pkt.(*rtmp.CallPacket)
		if !ok {
			return fmt.Errorf("got %T, want *CallPacket", pkt)
		}
		name := []byte(p.Name)
		if p.Kind == "closeStream" {
			name = []byte("closeStream")
		}
		return first(sameStr("name", k.CommandName, name), sameNum("tid", k.TransactionID, p.Tid), sameOpt("object", k.CommandObject, p.Obj), sameOpt("args", k.Args, p.Args))
	case "scs":
		k, ok := pkt.(*rtmp.SetChunkSize)
		if !ok || k.ChunkSize != p.U32 {
			return fmt.Errorf("got %T %+v, want SetChunkSize %d", pkt, pkt, p.U32)
		}
	case "wack":
		k, ok := pkt.(*rtmp.WindowAcknowledgementSize)
		if !ok || k.AckSize != p.U32 {
			return fmt.Errorf("got %T %+v, want WindowAcknowledgementSize %d", pkt, pkt, p.U32)
		}
	case "spb":
		k, ok := pkt.(*rtmp.SetPeerBandwidth)
		if !ok || k.Bandwidth != p.U32 || uint8(k.LimitType) != p.Limit {
			return fmt.Errorf("got %T %+v, want SetPeerBandwidth %d/%d", pkt, pkt, p.U32, p.Limit)
		}
	case "uc":
		k, ok := pkt.(*rtmp.UserControl)
		if !ok || uint16(k.EventType) != p.Evt || k.EventData != p.Data || k.ExtraData != p.Extra {
			return fmt.Errorf("got %T %+v, want UserControl evt=%d data=%d extra=%d", pkt, pkt, p.Evt, p.Data, p.Extra)
		}
	}
	return nil
}

// checkCodec: oracle (i) + (ii) + the protocol's byte layout.
func checkCodec(p P) error {
	pkt := p.build()
	b, err := pkt.MarshalBinary()
	if err != nil {
		return fmt.Errorf("marshal: %v", err)
	}
	if len(b) != pkt.Size() {
		return fmt.Errorf("%s marshals to %d bytes, Size() = %d", p.Kind, len(b), pkt.Size())
	}
	if e := p.sameLayout(b); e != nil {
		return fmt.Errorf("%s payload %x..: %v", p.Kind, head(b), e)
	}
	if uint8(pkt.Type()) != p.msgType() {
		return fmt.Errorf("%s has message type %d, want %d", p.Kind, pkt.Type(), p.msgType())
	}
	f := p.fresh()
	if err := f.UnmarshalBinary(b); err != nil {
		return fmt.Errorf("%s: unmarshal of own encoding: %v", p.Kind, err)
	}
	if err := p.same(f); err != nil {
		return fmt.Errorf("%s after unmarshal: %v", p.Kind, err)
	}
	if f.Size() != len(b) {
		return fmt.Errorf("%s: Size() after unmarshal %d, want %d", p.Kind, f.Size(), len(b))
	}
	b2, err := f.MarshalBinary()
	if err != nil || !bytes.Equal(b, b2) {
		return fmt.Errorf("%s: re-marshal differs (err %v)", p.Kind, err)
	}
	// the payload belongs to the application: once it has overwritten both results (spare capacity included) the packet marshals as before
	keep := append([]byte(nil), b...)
	ev.Trash(b2)
	ev.Trash(b)
	if again, err := pkt.MarshalBinary(); err != nil || !bytes.Equal(again, keep) {
		return fmt.Errorf("%s: after the application overwrote the payloads returned earlier the packet marshals to %x.. (err %v), before to %x..", p.Kind, head(again), err, head(keep))
	}
	if p.Edit != 0 {
		return checkEdited(p)
	}
	return nil
}

// checkEdited: a packet that was already sized and marshalled is still a packet the library can
// construct after the application edits its command object or arguments in place (a value set
// on a nested object, a number overwritten); Size() and the payload follow the edit.
func checkEdited(p P) error {
	q := p
	q.Edit = 0
	for _, f := range []**amf0ref.Val{&q.Obj, &q.Args} {
		if *f != nil {
			c := amf0x.Clone(**f)
			*f = &c
		}
	}
	for _, built := range []bool{true, false} {
		var pkt rtmp.Packet
		if built {
			pkt = q.build()
		} else {
			// the same edit on a packet that was decoded from the wire
			pkt = q.fresh()
			if err := pkt.UnmarshalBinary(q.wire()); err != nil {
				return nil // judged by the codec check
			}
		}
		pkt.Size()
		if _, err := pkt.MarshalBinary(); err != nil {
			return nil
		}
		field, model := "CommandObject", q.Obj
		if p.Edit&1 == 1 && q.Args != nil {
			field, model = "Args", q.Args
		}
		fv := reflect.ValueOf(pkt).Elem().FieldByName(field)
		if model == nil || !fv.IsValid() || fv.IsNil() {
			return nil
		}
		lib, ok := fv.Interface().(amf0.Amf0)
		if !ok {
			return nil
		}
		what := amf0x.Mutate(lib, model, p.Edit>>1, false)
		if what == "" {
			return nil
		}
		b, err := pkt.MarshalBinary()
		if err != nil {
			return fmt.Errorf("%s after an in-place edit (%s): marshal: %v", p.Kind, what, err)
		}
		if len(b) != pkt.Size() {
			return fmt.Errorf("%s after an in-place edit (%s): marshals to %d bytes, Size() = %d", p.Kind, what, len(b), pkt.Size())
		}
		if e := q.sameLayout(b); e != nil {
			return fmt.Errorf("%s after an in-place edit (%s): payload %x..: %v", p.Kind, what, head(b), e)
		}
	}
	return nil
}

func head(b []byte) []byte {
	if len(b) > 24 {
		return b[:24]
	}
	return b
}

func firstDiff(a, b []byte) int {
	for i := 0; i < len(a) && i < len(b); i++ {
		if a[i] != b[i] {
			return i
		}
	}
	return min(len(a), len(b))
}

// ---------------------------------------------------------------- generators

var tidClasses = []float64{1, 2, 3, 0.5, 1e-300, 5e-324, math.MaxFloat64, 1 << 53, 1<<53 + 2, 4294967295, 4294967296, 1.5, math.Inf(1)}

func genTid(t *rapid.T) uint64 {
	switch rapid.IntRange(0, 2).Draw(t, "tidk") {
	case 0:
		return math.Float64bits(float64(rapid.IntRange(1, 6).Draw(t, "tids")))
	case 1:
		return math.Float64bits(rapid.SampledFrom(tidClasses).Draw(t, "tidc"))
	}
	for {
		f := rapid.Float64Range(math.SmallestNonzeroFloat64, math.MaxFloat64).Draw(t, "tidu")
		if f > 0 {
			return math.Float64bits(f)
		}
	}
}

func genObj(t *rapid.T) *amf0ref.Val {
	v := amf0x.Gen(t, amf0x.Opts{MaxDepth: 4, MaxNodes: 14, DistinctKeys: true})
	if v.K != amf0ref.Object {
		v = amf0ref.Val{K: amf0ref.Object, Props: []amf0ref.Prop{{Key: []byte("app"), Val: v}}}
	}
	return &v
}

func genAny(t *rapid.T) *amf0ref.Val {
	if rapid.IntRange(0, 2).Draw(t, "nullk") == 0 {
		return &amf0ref.Val{K: amf0ref.Null}
	}
	v := amf0x.Gen(t, amf0x.Opts{MaxDepth: 4, MaxNodes: 14, DistinctKeys: true})
	return &v
}

var callNames = []string{"onStatus", "play", "createStream", "closeStream", "FCPublish", "releaseStream", "onBWDone", "pause", "|RtmpSampleAccess", "", "Connect", "publish2", "_Result", "getStreamLength", "Publish", "CONNECT", "_ERROR", "_error ", "connect\x00", "CreateStream", " connect", "_results"}

func genU32(t *rapid.T) uint32 {
	if rapid.Bool().Draw(t, "u32k") {
		return rapid.SampledFrom([]uint32{0, 1, 127, 128, 129, 4096, 65535, 65536, 2500000, 1<<31 - 1, 1 << 31, 1<<32 - 1}).Draw(t, "u32c")
	}
	return rapid.Uint32().Draw(t, "u32u")
}

func genUC(t *rapid.T) P {
	p := P{Kind: "uc"}
	switch rapid.IntRange(0, 2).Draw(t, "evtk") {
	case 0:
		p.Evt = uint16(rapid.SampledFrom([]int{0, 1, 2, 3, 4, 6, 7, 0x1a, 0x19, 0x1b, 31, 32, 0x0300, 0x1a00, 65535}).Draw(t, "evtc"))
	default:
		p.Evt = rapid.Uint16().Draw(t, "evtu")
	}
	p.Data = rapid.SampledFrom([]int32{0, 1, -1, 255, 256, math.MaxInt32, math.MinInt32, 0x0d0f}).Draw(t, "data")
	if rapid.Bool().Draw(t, "datak") {
		p.Data = rapid.Int32().Draw(t, "datau")
	}
	if p.Evt == 0x1a {
		p.Data &= 0xff
	}
	if p.Evt == 3 {
		p.Extra = rapid.Int32().Draw(t, "extra")
	}
	return p
}

// genPacket draws a packet of one of the kinds.
func genPacket(t *rapid.T, kinds []string) P {
	p := P{Kind: rapid.SampledFrom(kinds).Draw(t, "pkind")}
	switch p.Kind {
	case "connect":
		p.Tid = one
		p.Obj = genObj(t)
		if rapid.Bool().Draw(t, "hasargs") {
			p.Args = genObj(t)
		}
	case "connectRes":
		p.Tid = genTid(t)
		p.Obj = genObj(t)
		if rapid.Bool().Draw(t, "hasargs") {
			p.Args = genObj(t)
		}
	case "createStream":
		p.Tid = genTid(t)
		p.Obj = genAny(t) // the constructor presets null; an absent object is not constructible
	case "createStreamRes":
		p.Tid = genTid(t)
		p.Obj = genAny(t)
		p.StreamID = rapid.SampledFrom([]uint64{math.Float64bits(1), math.Float64bits(0), math.Float64bits(1e9), 0x7ff8000000000001, 1 << 63}).Draw(t, "sid")
	case "publish":
		p.Tid = genTid(t)
		p.Obj = genAny(t)
		p.StreamName = amf0x.GenString(t, true)
		p.StreamType = []byte(rapid.SampledFrom([]string{"live", "record", "append", ""}).Draw(t, "stype"))
	case "play":
		p.Tid = genTid(t)
		p.Obj = genAny(t)
		p.StreamName = amf0x.GenString(t, true)
	case "call", "closeStream":
		p.Tid = genTid(t)
		if rapid.IntRange(0, 3).Draw(t, "tid0") == 0 {
			p.Tid = 0 // calls that expect no response carry transaction id 0
		}
		if p.Kind == "call" {
			if rapid.Bool().Draw(t, "namek") {
				p.Name = []byte(rapid.SampledFrom(callNames).Draw(t, "name"))
			} else {
				p.Name = amf0x.GenString(t, false)
			}
			switch string(p.Name) {
			case "connect", "publish", "_result", "_error":
				p.Name = append(p.Name, '2')
			}
		}
		if p.Kind == "closeStream" || rapid.IntRange(0, 4).Draw(t, "hasobj") > 0 {
			p.Obj = genAny(t)
			if rapid.Bool().Draw(t, "hasargs") {
				p.Args = genAny(t)
			}
		}
	case "scs":
		p.U32 = genU32(t)
	case "wack":
		p.U32 = genU32(t)
	case "spb":
		p.U32 = genU32(t)
		p.Limit = rapid.SampledFrom([]uint8{0, 1, 2, 3, 255}).Draw(t, "limit")
	case "uc":
		return genUC(t)
	}
	if p.Obj != nil && rapid.IntRange(0, 3).Draw(t, "edit") == 0 {
		p.Edit = 1 + rapid.Uint64Range(0, 1<<20).Draw(t, "editsel")
	}
	return p
}

var allKinds = []string{"connect", "connectRes", "createStream", "createStreamRes", "publish", "play", "call", "closeStream", "scs", "wack", "spb", "uc"}

func (p P) nontrivial() (bool, []string) {
	var cl []string
	cl = append(cl, "kind:"+p.Kind)
	nt := false
	if p.Edit != 0 {
		cl = append(cl, "edited-in-place")
	}
	for _, v := range []*amf0ref.Val{p.Obj, p.Args} {
		if v != nil && amf0ref.Measure(*v).Depth >= 2 {
			nt = true
			cl = append(cl, "nested-amf0")
		}
	}
	if p.Args != nil || p.Kind == "createStreamRes" || p.Kind == "publish" || (p.Kind == "uc" && (p.Evt == 3 || p.Evt == 0x1a)) {
		nt = true
		cl = append(cl, "trailing-field")
	}
	return nt, cl
}

// ---------------------------------------------------------------- checks: codec

var recCodec = ev.New(prop, "codec",
	"rapid-generated packets of all 12 kinds (boundary transaction ids, arbitrary AMF0 trees as command object/arguments, optional trailing fields, all uint32 classes); oracle: len(Marshal)==Size(), "+
		"payload == protocol layout computed with the reference AMF0 encoder, unmarshal into a fresh packet gives equal fields, re-marshal identical; non-trivial = nested AMF0 tree or optional/trailing field present").
	Require("nested-amf0", "trailing-field", "kind:connect", "kind:connectRes", "kind:createStream", "kind:createStreamRes", "kind:publish", "kind:play", "kind:call", "kind:closeStream", "kind:scs", "kind:wack", "kind:spb", "kind:uc")

// TestSideBySide: independent packets and histories on several goroutines at once.
func TestSideBySide(t *testing.T) {
	ev.Parallel(t, prop, "side-by-side", 4, 200, 100, genHistory, func(c HCase) error { _, e := runHistory(c); return e })
}

func TestCodec(t *testing.T) {
	ev.Rapid(t, "codec", 10000, 600000, func(t *rapid.T) {
		p := genPacket(t, allKinds)
		err := ev.Try(func() error { return checkCodec(p) })
		nt, cl := p.nontrivial()
		recCodec.Case(nt, ev.Hash(p), cl, func() any { return p })
		if err != nil {
			f := ev.Fail(prop, "codec", p, err)
			t.Fatalf("%v (replay %s)", err, f)
		}
	})
}

// TestUserControlAllEvents enumerates all 65536 event types x 3 data values.
func TestUserControlAllEvents(t *testing.T) {
	rec := ev.New(prop, "user-control-all-events", "all 65536 user-control event types x event data {0x0d0f00ff, -1, 0x7f} (x extra data for SetBufferLength): codec oracle as in 'codec'; every case non-trivial")
	rec.Exhaustive()
	for e := 0; e < 65536; e++ {
		if e%ev.Shards() != ev.Shard() {
			continue
		}
		for _, d := range []int32{0x0d0f00ff, -1, 0x7f} {
			p := P{Kind: "uc", Evt: uint16(e), Data: d}
			if e == 0x1a {
				p.Data &= 0xff
			}
			if e == 3 {
				p.Extra = d ^ 0x55
			}
			err := ev.Try(func() error { return checkCodec(p) })
			rec.Case(true, ev.Hash(p), nil, func() any { return p })
			if err != nil {
				f := ev.Fail(prop, "codec", p, err)
				t.Fatalf("%v (replay %s)", err, f)
			}
		}
	}
}

// ---------------------------------------------------------------- checks: wire dispatch + history

type pipe struct {
	ab, ba bytes.Buffer
	a, b   *rtmp.Protocol
}

func newPipe() *pipe {
	p := &pipe{}
	p.a = rtmp.NewProtocol(xport.RW{Reader: &p.ba, Writer: &p.ab})
	p.b = rtmp.NewProtocol(xport.RW{Reader: &p.ab, Writer: &p.ba})
	return p
}

// HOp is one step of a request/response history between client A and server B.
type HOp struct {
	Op   string `json:"op"`   // request | response | other | raw
	From int    `json:"from"` // 0: A sends, 1: B sends
	Pkt  P      `json:"pkt"`
	Sid  uint32 `json:"sid,omitempty"`
	AMF3 bool   `json:"amf3,omitempty"` // command sent as an AMF3 command message (type 17, leading 0 byte)
}

type HCase struct {
	Ops []HOp `json:"ops"`
}

// dispatch is the table the protocol defines: what the receiver must decode a packet as.
func dispatchKind(p P) string {
	switch p.Kind {
	case "createStream", "play", "closeStream":
		return "call" // generic command: decoded as a call packet
	}
	return p.Kind
}

// asCall is the model of a command decoded generically: name, tid, object, one argument.
func asCall(p P) P {
	c := P{Kind: "call", Tid: p.Tid, Obj: p.Obj, Args: p.Args}
	switch p.Kind {
	case "createStream":
		c.Name = []byte("createStream")
	case "closeStream":
		c.Name = []byte("closeStream")
	case "play":
		c.Name = []byte("play")
		sn := str(p.StreamName)
		c.Args = &sn
	default:
		c.Name = p.Name
	}
	return c
}

type hstats struct {
	outstanding2, dupOrUnsolicited bool
	decoded                        int
}

func runHistory(c HCase) (st hstats, err error) {
	pp := newPipe()
	eps := [2]*rtmp.Protocol{pp.a, pp.b}
	// model: per endpoint, tid bits -> kind of the last unanswered request it sent
	model := [2]map[uint64]string{{}, {}}
	type keptMsg struct {
		i    int
		m    *rtmp.Message
		want rtmpref.Msg
		pkt  rtmp.Packet
	}
	var kept []keptMsg
	for i, op := range c.Ops {
		w, r := eps[op.From], eps[1-op.From]
		payload := op.Pkt.wire()
		if op.AMF3 {
			m := rtmp.NewStreamMessage(int(op.Sid))
			m.MessageType = rtmp.MessageTypeAMF3Command
			m.Payload = append([]byte{0}, payload...)
			if e := w.WriteMessage(m); e != nil {
				return st, fmt.Errorf("op %d: WriteMessage: %v", i, e)
			}
		} else {
			sp := op.Pkt.build()
			if mb, e := sp.MarshalBinary(); e == nil {
				payload = mb // the round trip is judged against what the sender marshalled; its layout is judged in 'codec'
			}
			if e := op.Pkt.sameLayout(payload); e != nil {
				return st, fmt.Errorf("op %d (%s): payload: %v", i, op.Pkt.Kind, e)
			}
			if e := w.WritePacket(sp, int(op.Sid)); e != nil {
				return st, fmt.Errorf("op %d: WritePacket(%s): %v", i, op.Pkt.Kind, e)
			}
			if op.Pkt.Kind == "connect" || op.Pkt.Kind == "createStream" {
				if math.Float64frombits(op.Pkt.Tid) > 0 {
					model[op.From][op.Pkt.Tid] = op.Pkt.Kind
					if len(model[op.From]) >= 2 {
						st.outstanding2 = true
					}
				}
			}
		}
		m, e := r.ReadMessage()
		if e != nil {
			return st, fmt.Errorf("op %d (%s): ReadMessage: %v", i, op.Pkt.Kind, e)
		}
		wantType := op.Pkt.msgType()
		wantPayload := payload
		if op.AMF3 {
			wantType = 17
			wantPayload = append([]byte{0}, payload...)
		}
		if e := rtmpx.Same(m, rtmpxMsg(wantType, op.Sid, wantPayload)); e != nil {
			return st, fmt.Errorf("op %d (%s): message differs: %v", i, op.Pkt.Kind, e)
		}
		kept = append(kept, keptMsg{i, m, rtmpxMsg(wantType, op.Sid, wantPayload), nil})
		pkt, e := r.DecodeMessage(m)
		want := op.Pkt
		switch op.Pkt.Kind {
		case "connectRes", "createStreamRes":
			// the receiver is the endpoint that may have the request outstanding
			req, ok := model[1-op.From][op.Pkt.Tid]
			if !ok {
				st.dupOrUnsolicited = true
				if e == nil {
					return st, fmt.Errorf("op %d: _result for transaction %v without an outstanding request decoded as %T instead of an error", i, math.Float64frombits(op.Pkt.Tid), pkt)
				}
				continue
			}
			delete(model[1-op.From], op.Pkt.Tid)
			wantKind := map[string]string{"connect": "connectRes", "createStream": "createStreamRes"}[req]
			if wantKind != op.Pkt.Kind {
				// generator keeps shapes matching; a hand-written replay may not
				if e == nil {
					if e2 := checkType(pkt, wantKind); e2 != nil {
						return st, fmt.Errorf("op %d: %v", i, e2)
					}
				}
				continue
			}
		default:
			if dispatchKind(op.Pkt) == "call" {
				want = asCall(op.Pkt)
			}
		}
		if e != nil {
			return st, fmt.Errorf("op %d (%s): DecodeMessage: %v", i, op.Pkt.Kind, e)
		}
		st.decoded++
		if e := want.same(pkt); e != nil {
			// a generic command may also be decoded as its specific packet type (play, createStream, closeStream)
			if e2 := op.Pkt.same(pkt); e2 != nil {
				return st, fmt.Errorf("op %d (%s sent): decoded packet: %v", i, op.Pkt.Kind, e)
			}
		}
		b2, e := pkt.MarshalBinary()
		if e != nil || !bytes.Equal(b2, payload) {
			return st, fmt.Errorf("op %d (%s): decoded %T re-marshals to %d bytes, received payload has %d (err %v)", i, op.Pkt.Kind, pkt, len(b2), len(payload), e)
		}
		kept[len(kept)-1].pkt = pkt
	}
	// what was received earlier is still what it was after the later traffic
	for _, k := range kept {
		if e := rtmpx.Same(k.m, k.want); e != nil {
			return st, fmt.Errorf("op %d: the message returned then changed while later messages were read: %v", k.i, e)
		}
		if k.pkt != nil {
			want := k.want.Payload
			if k.want.Type == 17 {
				want = want[1:]
			}
			if b, e := k.pkt.MarshalBinary(); e != nil || !bytes.Equal(b, want) {
				return st, fmt.Errorf("op %d: the %T decoded then changed while later messages were read", k.i, k.pkt)
			}
		}
	}
	return st, nil
}

func checkType(pkt rtmp.Packet, kind string) error {
	want := map[string]string{"connectRes": "*rtmp.ConnectAppResPacket", "createStreamRes": "*rtmp.CreateStreamResPacket"}[kind]
	if got := fmt.Sprintf("%T", pkt); got != want {
		return fmt.Errorf("response decoded as %s, the outstanding request calls for %s", got, want)
	}
	return nil
}

var recHistory = ev.New(prop, "history",
	"rapid-generated request/response histories (<=30 ops) between two endpoints: connect/createStream requests with arbitrary positive transaction ids (repeats included), matching responses, "+
		"duplicate and unsolicited responses, other commands and control packets in between, commands optionally as AMF3 command messages; model = map tid -> outstanding request kind; "+
		"oracle: dispatch table + re-marshal == received payload + consume-once; non-trivial = >=2 outstanding requests or a duplicate/unsolicited response").
	Require("two-outstanding", "dup-or-unsolicited")

func genHistory(t *rapid.T) HCase {
	var c HCase
	model := [2]map[uint64]string{{}, {}}
	n := rapid.IntRange(1, 30).Draw(t, "nops")
	for i := 0; i < n; i++ {
		from := rapid.IntRange(0, 1).Draw(t, "from")
		op := HOp{From: from, Sid: rapid.SampledFrom([]uint32{0, 1, 5, 1<<32 - 1}).Draw(t, "sid")}
		k := rapid.IntRange(0, 9).Draw(t, "hk")
		switch {
		case k <= 2: // request
			op.Op = "request"
			op.Pkt = genPacket(t, []string{"connect", "createStream", "createStream"})
			if op.Pkt.Kind == "createStream" && rapid.Bool().Draw(t, "smalltid") {
				op.Pkt.Tid = math.Float64bits(float64(rapid.IntRange(1, 4).Draw(t, "stid")))
			}
			model[from][op.Pkt.Tid] = op.Pkt.Kind
		case k <= 5: // response to something the peer has outstanding (if any)
			op.Op = "response"
			peer := model[1-from]
			if len(peer) > 0 && rapid.IntRange(0, 4).Draw(t, "solicited") > 0 {
				tids := make([]uint64, 0, len(peer))
				for tid := range peer {
					tids = append(tids, tid)
				}
				sortU64(tids)
				tid := rapid.SampledFrom(tids).Draw(t, "rtid")
				kind := map[string]string{"connect": "connectRes", "createStream": "createStreamRes"}[peer[tid]]
				op.Pkt = genPacket(t, []string{kind})
				op.Pkt.Tid = tid
				delete(peer, tid)
			} else {
				op.Pkt = genPacket(t, []string{"connectRes", "createStreamRes"})
				if _, ok := peer[op.Pkt.Tid]; ok {
					op.Pkt.Tid = math.Float64bits(math.Float64frombits(op.Pkt.Tid) + 1000)
					delete(peer, op.Pkt.Tid)
				}
			}
			op.AMF3 = rapid.IntRange(0, 3).Draw(t, "amf3r") == 0
		default:
			op.Op = "other"
			op.Pkt = genPacket(t, []string{"publish", "play", "call", "closeStream", "wack", "spb", "uc", "call"})
			if op.Pkt.msgType() == 20 && rapid.IntRange(0, 3).Draw(t, "amf3") == 0 {
				op.AMF3 = true
			}
		}
		c.Ops = append(c.Ops, op)
	}
	return c
}

func sortU64(s []uint64) {
	for i := 1; i < len(s); i++ {
		for j := i; j > 0 && s[j] < s[j-1]; j-- {
			s[j], s[j-1] = s[j-1], s[j]
		}
	}
}

func TestHistory(t *testing.T) {
	ev.Rapid(t, "history", 5000, 300000, func(t *rapid.T) {
		c := genHistory(t)
		var st hstats
		err := ev.WithTimeout(2*60e9, func() error { // (a history takes milliseconds; a reader waiting for bytes that never come is a lost message)
			var e error
			st, e = runHistory(c)
			return e
		})
		var cl []string
		if st.outstanding2 {
			cl = append(cl, "two-outstanding")
		}
		if st.dupOrUnsolicited {
			cl = append(cl, "dup-or-unsolicited")
		}
		recHistory.Case(len(cl) > 0, ev.Hash(c), cl, func() any { return summarize(c) })
		if err != nil {
			f := ev.Fail(prop, "history", c, err)
			t.Fatalf("%v (replay %s)", err, f)
		}
	})
}

// ---------------------------------------------------------------- check: many outstanding requests

// MCase: N requests outstanding at once (connect with tid 1, then createStream with tids
// Base+1..), answered in an order derived from Stride, then each answered once more.
type MCase struct {
	N      int    `json:"n"`
	Base   uint32 `json:"base"`
	Stride int    `json:"stride"` // responses in order (i*Stride) mod N; Stride coprime with N is a permutation, otherwise some requests stay unanswered
}

var recMany = ev.New(prop, "many-pending",
	"up to 20000 requests outstanding at once on one connection (connect + createStream with distinct transaction ids), answered in a strided permutation; "+
		"oracle: every response decodes as the response type of its request, exactly once (a second response to the same id is an error); non-trivial = more than 1000 outstanding")

func runMany(c MCase) error {
	pp := newPipe()
	kinds := make([]string, c.N)
	tids := make([]float64, c.N)
	for i := 0; i < c.N; i++ {
		kinds[i], tids[i] = "createStream", float64(c.Base)+float64(i)+2
		var pkt rtmp.Packet
		if i == 0 {
			kinds[i], tids[i] = "connect", 1
			pkt = rtmp.NewConnectAppPacket()
		} else {
			k := rtmp.NewCreateStreamPacket()
			k.TransactionID = amf0.Number(tids[i])
			pkt = k
		}
		if e := pp.a.WritePacket(pkt, 0); e != nil {
			return fmt.Errorf("request %d: WritePacket: %v", i, e)
		}
		if _, e := pp.b.ReadMessage(); e != nil {
			return fmt.Errorf("request %d: ReadMessage: %v", i, e)
		}
	}
	answered := make([]bool, c.N)
	respond := func(i int) (rtmp.Packet, error) {
		var pkt rtmp.Packet
		if kinds[i] == "connect" {
			pkt = rtmp.NewConnectAppResPacket(amf0.Number(tids[i]))
		} else {
			pkt = rtmp.NewCreateStreamResPacket(amf0.Number(tids[i]))
		}
		if e := pp.b.WritePacket(pkt, 0); e != nil {
			return nil, fmt.Errorf("WritePacket: %v", e)
		}
		m, e := pp.a.ReadMessage()
		if e != nil {
			return nil, fmt.Errorf("ReadMessage: %v", e)
		}
		return pp.a.DecodeMessage(m)
	}
	for j := 0; j < c.N; j++ {
		i := (j * c.Stride) % c.N
		pkt, e := respond(i)
		if answered[i] {
			if e == nil {
				return fmt.Errorf("second response to transaction %v (of %d requests) decoded as %T instead of an error", tids[i], c.N, pkt)
			}
			continue
		}
		answered[i] = true
		if e != nil {
			return fmt.Errorf("response %d of %d, to the outstanding %s with transaction id %v: %v", j, c.N, kinds[i], tids[i], e)
		}
		if e := checkType(pkt, kinds[i]+"Res"); e != nil {
			return fmt.Errorf("response to %s tid %v (of %d outstanding): %v", kinds[i], tids[i], c.N, e)
		}
	}
	return nil
}

func TestManyPending(t *testing.T) {
	ev.Rapid(t, "many-pending", 24, 400, func(t *rapid.T) {
		c := MCase{Base: rapid.SampledFrom([]uint32{0, 100, 1 << 24, 1<<32 - 30000}).Draw(t, "base")}
		c.N = rapid.SampledFrom([]int{2, 50, 1000, 1025, 3000, 4097, 5000, 8193, 20000}).Draw(t, "n")
		if rapid.Bool().Draw(t, "anyn") {
			c.N = rapid.IntRange(1, 20000).Draw(t, "nn")
		}
		c.Stride = rapid.SampledFrom([]int{1, c.N - 1, 7, 2, 4099, 3}).Draw(t, "stride")
		if c.Stride < 1 {
			c.Stride = 1
		}
		err := ev.WithTimeout(5*60e9, func() error { return runMany(c) })
		var cl []string
		if c.N > 4096 {
			cl = append(cl, "more-than-4096")
		}
		recMany.Case(c.N > 1000, ev.Hash(c), cl, func() any { return c })
		if err != nil {
			f := ev.Fail(prop, "many-pending", c, err)
			t.Fatalf("%v (replay %s)", err, f)
		}
	})
}

// ---------------------------------------------------------------- largest packets

// bigCall builds a call packet whose marshalled size is exactly target bytes (>= 40): "x", tid 9, null, an object of string properties.
func bigCall(target int) *rtmp.CallPacket {
	pkt := rtmp.NewCallPacket()
	pkt.CommandName = "x"
	pkt.TransactionID = 9
	pkt.CommandObject = amf0.NewNull()
	o := amf0.NewObject()
	rem := target - (4 + 9 + 1) - 4 // name, tid, null; object marker + end
	for i := 0; rem > 0; i++ {
		// property: 2+5 bytes of name, 3+L bytes of string
		l := min(65535, rem-10)
		if left := rem - 10 - l; left > 0 && left < 10 {
			l -= 10
		}
		b := make([]byte, l)
		for j := range b {
			b[j] = byte(i + j*7)
		}
		o.Set(fmt.Sprintf("k%04d", i), amf0.NewString(string(b)))
		rem -= 10 + l
	}
	pkt.Args = o
	return pkt
}

// TestLargestPackets: packets whose payload is as large as the 24-bit message length allows (and sizes around chunk and 64K boundaries) travel like any other.
func TestLargestPackets(t *testing.T) {
	rec := ev.New(prop, "largest-packets", "deterministic: call packets marshalling to exactly n bytes for n in {2^16-1, 2^16, 2^16+1, 2^20, 2^24-2, 2^24-1 (the largest a message header can announce)}, written by one endpoint and decoded by the peer; oracle: same type, re-marshals to the same payload; every case is non-trivial")
	rec.Exhaustive()
	sizes := []int{1<<16 - 1, 1 << 16, 1<<16 + 1, 1 << 20, 1<<24 - 2, 1<<24 - 1}
	for _, n := range sizes {
		err := runLargest(n)
		rec.Case(true, uint64(n), []string{fmt.Sprintf("size:%d", n)}, func() any { return map[string]int{"payload_bytes": n} })
		if err != nil {
			err = fmt.Errorf("call packet of %d payload bytes: %v", n, err)
			f := ev.Fail(prop, "largest-packets", map[string]int{"payload_bytes": n}, err)
			t.Fatalf("%v (replay %s)", err, f)
		}
	}
}

func runLargest(n int) error {
	{
		return ev.WithTimeout(5*60e9, func() error {
			pkt := bigCall(n)
			want, e := pkt.MarshalBinary()
			if e != nil || len(want) != n || pkt.Size() != n {
				return fmt.Errorf("building the packet: %d bytes, Size()=%d, err %v", len(want), pkt.Size(), e)
			}
			pp := newPipe()
			if e := pp.a.WritePacket(pkt, 1); e != nil {
				return fmt.Errorf("WritePacket: %v", e)
			}
			m, e := pp.b.ReadMessage()
			if e != nil {
				return fmt.Errorf("ReadMessage: %v", e)
			}
			got, e := pp.b.DecodeMessage(m)
			if e != nil {
				return fmt.Errorf("DecodeMessage: %v", e)
			}
			call, ok := got.(*rtmp.CallPacket)
			if !ok {
				return fmt.Errorf("decoded as %T, want *rtmp.CallPacket", got)
			}
			back, e := call.MarshalBinary()
			if e != nil || !bytes.Equal(back, want) {
				return fmt.Errorf("re-marshalled payload differs (%d bytes, err %v; first difference at %d)", len(back), e, firstDiff(back, want))
			}
			return nil
		})
	}
}

func summarize(c HCase) any {
	var s []string
	for _, op := range c.Ops {
		x := fmt.Sprintf("%d:%s", op.From, op.Pkt.Kind)
		if op.Pkt.msgType() == 20 {
			x += fmt.Sprintf("(tid=%v)", math.Float64frombits(op.Pkt.Tid))
		}
		if op.AMF3 {
			x += "/amf3"
		}
		s = append(s, x)
	}
	return s
}

// ---------------------------------------------------------------- checks: typed waits

type WCase struct {
	Seq   []P    `json:"seq"`            // what B sends, in order
	Raw   []int  `json:"raw"`            // for ExpectMessage: indices (into Seq order) before which an audio/video message is inserted
	Want  string `json:"want"`           // packet kind waited for (ExpectPacket) or "" for ExpectMessage
	Types []int  `json:"types"`          // message types for ExpectMessage
	Chunk uint32 `json:"chunk"`          // B announces this chunk size first when non-zero
	AMF3  []int  `json:"amf3,omitempty"` // indices of Seq whose command is sent as an AMF3 command message (type 17, leading 0 byte)
}

func rtmpxMsg(typ uint8, sid uint32, payload []byte) rtmpref.Msg {
	return rtmpref.Msg{Type: typ, StreamID: sid, Payload: payload}
}

func runWait(c WCase) (skipped int, nomatch bool, err error) {
	skipped, err = runWait2(c, &nomatch)
	return
}

func runWait2(c WCase, nomatch *bool) (skipped int, err error) {
	pp := newPipe()
	type sent struct {
		typ     uint8
		payload []byte
		kind    string
	}
	var all []sent
	if c.Chunk != 0 {
		k := rtmp.NewSetChunkSize()
		k.ChunkSize = c.Chunk
		if e := pp.b.WritePacket(k, 0); e != nil {
			return 0, e
		}
		all = append(all, sent{1, P{Kind: "scs", U32: c.Chunk}.wire(), "scs"})
	}
	rawAt := map[int]bool{}
	for _, i := range c.Raw {
		rawAt[i] = true
	}
	amf3At := map[int]bool{}
	for _, i := range c.AMF3 {
		amf3At[i] = true
	}
	for i, p := range c.Seq {
		if rawAt[i] && c.Want == "" {
			m := rtmp.NewStreamMessage(1)
			m.MessageType = rtmp.MessageType(8 + i%2)
			m.Payload = rtmpx.Fill(300+i, uint64(i+1))
			if e := pp.b.WriteMessage(m); e != nil {
				return 0, e
			}
			all = append(all, sent{uint8(m.MessageType), m.Payload, "av"})
		}
		bp := p.build()
		mb, _ := bp.MarshalBinary()
		if amf3At[i] && p.msgType() == 20 {
			m := rtmp.NewStreamMessage(1)
			m.MessageType = rtmp.MessageTypeAMF3Command
			m.Payload = append([]byte{0}, mb...)
			if e := pp.b.WriteMessage(m); e != nil {
				return 0, fmt.Errorf("WriteMessage(%s as AMF3 command): %v", p.Kind, e)
			}
			all = append(all, sent{17, m.Payload, dispatchKind(p)})
			continue
		}
		if e := pp.b.WritePacket(bp, 1); e != nil {
			return 0, fmt.Errorf("WritePacket(%s): %v", p.Kind, e)
		}
		all = append(all, sent{p.msgType(), mb, dispatchKind(p)})
	}
	// model: index of the first match
	match := -1
	for i, s := range all {
		if c.Want == "any" {
			match = i // a wait through the Packet interface: every packet is of that type
			break
		} else if c.Want != "" {
			if s.kind == c.Want {
				match = i
				break
			}
		} else {
			if len(c.Types) == 0 {
				match = i
				break
			}
			for _, ty := range c.Types {
				if int(s.typ) == ty {
					match = i
				}
			}
			if match >= 0 {
				break
			}
		}
	}
	var m *rtmp.Message
	var e error
	if c.Want != "" {
		switch c.Want {
		case "any":
			var p rtmp.Packet
			m, e = pp.a.ExpectPacket(&p)
			if e == nil && p == nil {
				return 0, fmt.Errorf("ExpectPacket(*Packet) returned without setting the packet")
			}
		case "publish":
			var p *rtmp.PublishPacket
			m, e = pp.a.ExpectPacket(&p)
			if e == nil && p == nil {
				return 0, fmt.Errorf("ExpectPacket returned without setting the packet")
			}
			if e == nil {
				if e2 := seqFind(c.Seq, "publish").same(p); e2 != nil {
					return 0, fmt.Errorf("ExpectPacket(*PublishPacket): %v", e2)
				}
			}
		case "call":
			var p *rtmp.CallPacket
			m, e = pp.a.ExpectPacket(&p)
			if e == nil {
				if e2 := asCall(seqFindCall(c.Seq)).same(p); e2 != nil {
					return 0, fmt.Errorf("ExpectPacket(*CallPacket): %v", e2)
				}
			}
		case "connect":
			var p *rtmp.ConnectAppPacket
			m, e = pp.a.ExpectPacket(&p)
			if e == nil {
				if e2 := seqFind(c.Seq, "connect").same(p); e2 != nil {
					return 0, fmt.Errorf("ExpectPacket(*ConnectAppPacket): %v", e2)
				}
			}
		case "uc":
			var p *rtmp.UserControl
			m, e = pp.a.ExpectPacket(&p)
			if e == nil {
				if e2 := seqFind(c.Seq, "uc").same(p); e2 != nil {
					return 0, fmt.Errorf("ExpectPacket(*UserControl): %v", e2)
				}
			}
		case "wack":
			var p *rtmp.WindowAcknowledgementSize
			m, e = pp.a.ExpectPacket(&p)
			if e == nil {
				if e2 := seqFind(c.Seq, "wack").same(p); e2 != nil {
					return 0, fmt.Errorf("ExpectPacket(*WindowAcknowledgementSize): %v", e2)
				}
			}
		case "spb":
			var p *rtmp.SetPeerBandwidth
			m, e = pp.a.ExpectPacket(&p)
			if e == nil {
				if e2 := seqFind(c.Seq, "spb").same(p); e2 != nil {
					return 0, fmt.Errorf("ExpectPacket(*SetPeerBandwidth): %v", e2)
				}
			}
		default:
			return 0, fmt.Errorf("harness: unknown wait kind %q", c.Want)
		}
	} else {
		var ts []rtmp.MessageType
		for _, ty := range c.Types {
			ts = append(ts, rtmp.MessageType(ty))
		}
		m, e = pp.a.ExpectMessage(ts...)
	}
	if match < 0 {
		if e == nil {
			return 0, fmt.Errorf("typed wait returned message type %d although nothing of the requested type was sent", m.MessageType)
		}
		*nomatch = true
		return len(all), nil
	}
	if e != nil {
		return 0, fmt.Errorf("typed wait failed although message %d of %d matches: %v", match, len(all), e)
	}
	if uint8(m.MessageType) != all[match].typ || !bytes.Equal(m.Payload, all[match].payload) {
		return 0, fmt.Errorf("typed wait returned type %d/%d bytes, the first match (index %d) is type %d/%d bytes", m.MessageType, len(m.Payload), match, all[match].typ, len(all[match].payload))
	}
	// the rest must still be unread, in order
	for i := match + 1; i < len(all); i++ {
		m, e := pp.a.ReadMessage()
		if e != nil {
			return 0, fmt.Errorf("after the wait: message %d of %d: %v", i, len(all), e)
		}
		if uint8(m.MessageType) != all[i].typ || !bytes.Equal(m.Payload, all[i].payload) {
			return 0, fmt.Errorf("after the wait: message %d differs (type %d, %d bytes; sent type %d, %d bytes)", i, m.MessageType, len(m.Payload), all[i].typ, len(all[i].payload))
		}
	}
	return match, nil
}

func seqFind(seq []P, kind string) P {
	for _, p := range seq {
		if p.Kind == kind {
			return p
		}
	}
	return P{}
}

func seqFindCall(seq []P) P {
	for _, p := range seq {
		if dispatchKind(p) == "call" {
			return p
		}
	}
	return P{}
}

var recWait = ev.New(prop, "typed-wait",
	"rapid-generated sequences (<=12) of decodable control/command packets sent by the peer (optionally after its own Set Chunk Size, audio/video interleaved for ExpectMessage), then ExpectPacket(&T) for "+
		"T in {Publish, Call, ConnectApp, UserControl, WindowAck, SetPeerBandwidth} or ExpectMessage(types...); model = first match, rest left unread in order; non-trivial = >=1 packet skipped before the match").
	Require("skipped", "expect-message", "expect-packet", "no-match")

func TestTypedWait(t *testing.T) {
	ev.Rapid(t, "typed-wait", 5000, 300000, func(t *rapid.T) {
		var c WCase
		n := rapid.IntRange(1, 12).Draw(t, "nseq")
		for i := 0; i < n; i++ {
			c.Seq = append(c.Seq, genPacket(t, []string{"publish", "call", "call", "wack", "spb", "uc", "connect"}))
		}
		if rapid.Bool().Draw(t, "chunk") {
			c.Chunk = rapid.SampledFrom([]uint32{1, 7, 128, 4096, 1 << 20}).Draw(t, "chunkv")
		}
		if rapid.Bool().Draw(t, "mode") {
			c.Want = rapid.SampledFrom([]string{"publish", "call", "connect", "uc", "wack", "spb", "any"}).Draw(t, "want")
		} else {
			c.Types = rapid.SliceOfN(rapid.SampledFrom([]int{1, 4, 5, 6, 8, 9, 20, 18}), 0, 3).Draw(t, "types")
			c.Raw = rapid.SliceOfN(rapid.IntRange(0, n-1), 0, 4).Draw(t, "raw")
		}
		c.AMF3 = rapid.SliceOfN(rapid.IntRange(0, n-1), 0, 3).Draw(t, "amf3")
		var skipped int
		var nomatch bool
		err := ev.Try(func() error {
			var e error
			skipped, nomatch, e = runWait(c)
			return e
		})
		var cl []string
		if skipped > 0 {
			cl = append(cl, "skipped")
		}
		if c.Want == "" {
			cl = append(cl, "expect-message")
		} else {
			cl = append(cl, "expect-packet")
		}
		if nomatch {
			cl = append(cl, "no-match")
		}
		recWait.Case(skipped > 0, ev.Hash(c), cl, func() any {
			var ks []string
			for _, p := range c.Seq {
				ks = append(ks, p.Kind)
			}
			return map[string]any{"seq": ks, "want": c.Want, "types": c.Types, "chunk": c.Chunk, "raw": c.Raw}
		})
		if err != nil {
			f := ev.Fail(prop, "typed-wait", c, err)
			t.Fatalf("%v (replay %s)", err, f)
		}
	})
}

func replayers() map[string]ev.Replayer {
	return map[string]ev.Replayer{
		"codec": func(raw json.RawMessage) error {
			var p P
			if err := json.Unmarshal(raw, &p); err != nil {
				return err
			}
			return checkCodec(p)
		},
		"side-by-side": func(raw json.RawMessage) error {
			var c HCase
			if err := json.Unmarshal(raw, &c); err != nil {
				return err
			}
			_, e := runHistory(c)
			return e
		},
		"history": func(raw json.RawMessage) error {
			var c HCase
			if err := json.Unmarshal(raw, &c); err != nil {
				return err
			}
			_, e := runHistory(c)
			return e
		},
		"largest-packets": func(raw json.RawMessage) error {
			var c map[string]int
			if err := json.Unmarshal(raw, &c); err != nil {
				return err
			}
			return runLargest(c["payload_bytes"])
		},
		"many-pending": func(raw json.RawMessage) error {
			var c MCase
			if err := json.Unmarshal(raw, &c); err != nil {
				return err
			}
			return runMany(c)
		},
		"typed-wait": func(raw json.RawMessage) error {
			var c WCase
			if err := json.Unmarshal(raw, &c); err != nil {
				return err
			}
			_, _, e := runWait(c)
			return e
		},
	}
}

func TestRegress(t *testing.T) { ev.Regress(t, prop, replayers()) }
func TestReplay(t *testing.T) {
	if os.Getenv("VERIF_REPLAY") == "" {
		t.Skip("no VERIF_REPLAY")
	}
	ev.Replay(t, prop, replayers())
}
