package c07

// Input generators: valid encodings built with the independent reference encoders (and, for
// JOSE, with fixture keys), then structure-aware mutation.

import (
	"crypto/aes"
	"crypto/cipher"
	"crypto/ecdsa"
	"crypto/elliptic"
	"crypto/hmac"
	"crypto/rsa"
	"crypto/sha256"
	"crypto/x509"
	"encoding/base64"
	"encoding/binary"
	"encoding/hex"
	"encoding/json"
	"encoding/pem"
	"fmt"
	"math"
	"math/big"
	"os"
	"path/filepath"
	"strings"

	"github.com/ossrs/go-oryx-lib/https/jose"
	"pgregory.net/rapid"
	"verif/harness/internal/amf0x"
	"verif/harness/internal/ev"
	"verif/harness/internal/ref/adtsref"
	"verif/harness/internal/ref/amf0ref"
	"verif/harness/internal/ref/avccref"
	"verif/harness/internal/ref/flvref"
	"verif/harness/internal/ref/rtmpref"
	"verif/harness/internal/ref/wsref"
	"verif/harness/internal/rtmpx"
)

var (
	rsaKeys  []*rsa.PrivateKey
	ecKeys   []*ecdsa.PrivateKey
	ocspVecs map[string][]byte
)

func loadFixtures() {
	b, err := os.ReadFile(filepath.Join(ev.Root(), "fixtures", "keys.json"))
	if err != nil {
		panic(err)
	}
	var k struct {
		RSA []string `json:"rsa"`
		EC  []struct{ Curve, D string }
	}
	json.Unmarshal(b, &k)
	for _, p := range k.RSA {
		blk, _ := pem.Decode([]byte(p))
		key, _ := x509.ParsePKCS1PrivateKey(blk.Bytes)
		rsaKeys = append(rsaKeys, key)
	}
	for _, e := range k.EC {
		c := map[string]elliptic.Curve{"P-256": elliptic.P256(), "P-384": elliptic.P384(), "P-521": elliptic.P521()}[e.Curve]
		d, _ := hex.DecodeString(e.D)
		priv := &ecdsa.PrivateKey{D: new(big.Int).SetBytes(d)}
		priv.Curve = c
		priv.X, priv.Y = c.ScalarBaseMult(d)
		ecKeys = append(ecKeys, priv)
	}
	ob, err := os.ReadFile(filepath.Join(ev.Root(), "fixtures", "ocsp.json"))
	if err != nil {
		panic(err)
	}
	var hx map[string]string
	json.Unmarshal(ob, &hx)
	ocspVecs = map[string][]byte{}
	for n, h := range hx {
		ocspVecs[n], _ = hex.DecodeString(h)
	}
	if c, err := x509.ParseCertificate(ocspVecs["startComHex"]); err == nil {
		ocspIssuer = c
	}
}

var symKeys = [][]byte{rtmpx.Fill(16, 1), rtmpx.Fill(24, 2), rtmpx.Fill(32, 3), rtmpx.Fill(48, 4), rtmpx.Fill(64, 5)}

func verifyKeys() []interface{} {
	ks := []interface{}{&rsaKeys[0].PublicKey, symKeys[2]}
	for _, i := range []int{0, 4, 8} {
		ks = append(ks, &ecKeys[i].PublicKey)
	}
	return ks
}

func decryptKeys() []interface{} {
	ks := []interface{}{rsaKeys[0]}
	for _, k := range symKeys {
		ks = append(ks, k)
	}
	for _, i := range []int{0, 4, 8} {
		ks = append(ks, ecKeys[i])
	}
	return ks
}

// ---------------------------------------------------------------- valid inputs per target

func amfCommand(t *rapid.T) []byte {
	name := rapid.SampledFrom([]string{"connect", "_result", "_error", "publish", "play", "createStream", "onStatus", "closeStream", ""}).Draw(t, "cmd")
	tid := rapid.SampledFrom([]float64{0, 1, 2, 3}).Draw(t, "tid")
	vals := []amf0ref.Val{{K: amf0ref.String, Str: []byte(name)}, {K: amf0ref.Number, Num: f64bits(tid)}}
	for i, n := 0, rapid.IntRange(0, 3).Draw(t, "nargs"); i < n; i++ {
		vals = append(vals, amf0x.Gen(t, amf0x.Opts{MaxDepth: 4, MaxNodes: 12, WireFreedom: true}))
	}
	var b []byte
	for _, v := range vals {
		b = append(b, amf0ref.Encode(v, amf0ref.Lib)...)
	}
	return b
}

func f64bits(f float64) uint64 { return math.Float64bits(f) }

func controlBody(t *rapid.T, typ uint8) []byte {
	switch typ {
	case 1, 5:
		return rtmpx.Fill(4, rapid.Uint64().Draw(t, "c4"))
	case 6:
		return rtmpx.Fill(5, rapid.Uint64().Draw(t, "c5"))
	case 4:
		evt := rapid.SampledFrom([]uint16{0, 3, 6, 7, 0x1a, 99}).Draw(t, "evt")
		return append([]byte{byte(evt >> 8), byte(evt)}, rtmpx.Fill(rapid.IntRange(0, 8).Draw(t, "ucl"), 7)...)
	}
	return nil
}

func validRtmpChunks(t *rapid.T) []byte {
	ch := rtmpref.NewChunker()
	var wire []byte
	n := rapid.IntRange(1, 6).Draw(t, "nmsg")
	for i := 0; i < n; i++ {
		typ := rapid.SampledFrom([]uint8{20, 20, 17, 18, 8, 9, 4, 5, 6, 1, 2, 3}).Draw(t, "mtype")
		var p []byte
		switch typ {
		case 20, 18:
			p = amfCommand(t)
		case 17:
			p = append([]byte{0}, amfCommand(t)...)
		case 1, 4, 5, 6:
			p = controlBody(t, typ)
			if typ == 1 && len(p) == 4 {
				p[0] &= 0x7f
				if rapid.Bool().Draw(t, "smallcs") {
					p = []byte{0, 0, byte(rapid.IntRange(0, 2).Draw(t, "csh")), byte(rapid.IntRange(0, 255).Draw(t, "csl"))}
				}
			}
		default:
			p = rtmpx.Fill(rapid.IntRange(0, 400).Draw(t, "plen"), uint64(i)+1)
		}
		cid := rapid.SampledFrom([]uint32{2, 3, 5, 64, 320, 65599}).Draw(t, "cid")
		m := rtmpref.Msg{Type: typ, StreamID: uint32(rapid.IntRange(0, 2).Draw(t, "sid")), Timestamp: rapid.SampledFrom([]uint32{0, 40, 0xFFFFFF, 1 << 31}).Draw(t, "ts"), Payload: p}
		forms := rtmpref.FormsFor(cid)
		legal := ch.Legal(cid, m)
		if ch.ChunkSize == 0 {
			ch.ChunkSize = 128
		}
		wire = append(wire, ch.Whole(rtmpref.Item{Cid: cid, Form: forms[len(forms)-1], Fmt: legal[rapid.IntRange(0, len(legal)-1).Draw(t, "fmt")], Msg: m})...)
		if len(wire) > 60000 {
			break
		}
	}
	return wire
}

func validFlvTagBody(t *rapid.T) []byte {
	b := []byte{rapid.Uint8().Draw(t, "b0"), rapid.Uint8().Draw(t, "b1")}
	if rapid.Bool().Draw(t, "special") {
		b[0] = rapid.SampledFrom([]byte{0xA0, 0xD0, 0x17, 0x1C, 0x27}).Draw(t, "sb0") | b[0]&0x0f&^0x0c
	}
	return append(b, rtmpx.Fill(rapid.IntRange(0, 40).Draw(t, "blen"), 3)...)
}

func validWsFrames(t *rapid.T, server bool) []byte {
	cfg := byte(rapid.IntRange(0, 15).Draw(t, "wscfg"))
	out := []byte{cfg}
	n := rapid.IntRange(1, 8).Draw(t, "nframes")
	open := false
	for i := 0; i < n; i++ {
		f := wsref.Frame{Fin: rapid.IntRange(0, 3).Draw(t, "fin") > 0, Masked: server, Key: [4]byte{1, 2, 3, byte(i)}}
		switch rapid.IntRange(0, 5).Draw(t, "fk") {
		case 0:
			f.Op, f.Fin = 9, true
			f.Payload = rtmpx.Fill(rapid.IntRange(0, 125).Draw(t, "pl"), 5)
		case 1:
			f.Op, f.Fin = 8, true
			f.Payload = append([]byte{3, byte(rapid.IntRange(0xe8, 0xf3).Draw(t, "code"))}, []byte("bye")...)
		default:
			f.Op = byte(rapid.IntRange(1, 2).Draw(t, "dop"))
			if open {
				f.Op = 0
			}
			open = !f.Fin
			f.Payload = rtmpx.Fill(rapid.SampledFrom([]int{0, 1, 125, 126, 300, 2000}).Draw(t, "dl"), uint64(i)+9)
			if cfg&1 != 0 && f.Op != 0 && rapid.Bool().Draw(t, "deflate") {
				f.RSV = 4
				f.Payload = wsref.Deflate(f.Payload, 1)
			}
		}
		out = append(out, f.Bytes()...)
	}
	return out
}

func b64(b []byte) string { return base64.RawURLEncoding.EncodeToString(b) }

// cbcHmacObject builds a compact "dir"/A128CBC-HS256 JWE with a VALID tag over arbitrary
// (possibly hostile) iv and ciphertext sizes: what a buggy but keyed sender could produce.
func cbcHmacObject(iv, ct []byte, extraHeader string) string {
	key := symKeys[2] // 32 bytes: MAC key || ENC key
	prot := b64([]byte(`{"alg":"dir","enc":"A128CBC-HS256"` + extraHeader + `}`))
	al := make([]byte, 8)
	binary.BigEndian.PutUint64(al, uint64(len(prot))*8)
	m := hmac.New(sha256.New, key[:16])
	m.Write([]byte(prot))
	m.Write(iv)
	m.Write(ct)
	m.Write(al)
	tag := m.Sum(nil)[:16]
	return strings.Join([]string{prot, "", b64(iv), b64(ct), b64(tag)}, ".")
}

func cbcEncrypt(pt, iv []byte, pad bool) []byte {
	blk, _ := aes.NewCipher(symKeys[2][16:])
	if pad {
		n := 16 - len(pt)%16
		for i := 0; i < n; i++ {
			pt = append(pt, byte(n))
		}
	}
	out := make([]byte, len(pt))
	cipher.NewCBCEncrypter(blk, iv).CryptBlocks(out, pt)
	return out
}

func validJwe(t *rapid.T) []byte {
	switch rapid.IntRange(0, 6).Draw(t, "jwek") {
	case 6: // JSON objects WITHOUT a protected header (alg/enc in "unprotected" or "header"), validly sealed by an independent AES-GCM
		key := symKeys[0]
		hdr := `{"alg":"dir","enc":"A128GCM"` + rapid.SampledFrom([]string{"", "", `,"zip":"DEF"`, `,"kid":"k"`}).Draw(t, "uhx") + `}`
		aadMember, aad := "", ""
		if rapid.Bool().Draw(t, "uaad") {
			a := b64(rtmpx.Fill(rapid.IntRange(0, 9).Draw(t, "uaadlen"), 9))
			aadMember, aad = `"aad":"`+a+`",`, "."+a
		}
		blk, _ := aes.NewCipher(key)
		gcm, _ := cipher.NewGCM(blk)
		iv := rtmpx.Fill(12, rapid.Uint64().Draw(t, "uiv"))
		sealed := gcm.Seal(nil, iv, rtmpx.Fill(rapid.IntRange(0, 40).Draw(t, "uptl"), 5), []byte(aad))
		ct, tag := sealed[:len(sealed)-16], sealed[len(sealed)-16:]
		where := rapid.SampledFrom([]string{"unprotected", "header"}).Draw(t, "uwhere")
		return []byte(fmt.Sprintf(`{"%s":%s,%s"iv":"%s","ciphertext":"%s","tag":"%s"}`, where, hdr, aadMember, b64(iv), b64(ct), b64(tag)))
	case 0: // validly authenticated objects over hostile sizes
		iv := rtmpx.Fill(rapid.SampledFrom([]int{16, 16, 16, 0, 1, 12, 15, 17, 32}).Draw(t, "ivlen"), 3)
		var ct []byte
		switch rapid.IntRange(0, 3).Draw(t, "ctk") {
		case 0:
			ct = nil
		case 1:
			ct = rtmpx.Fill(rapid.SampledFrom([]int{1, 15, 16, 17, 32}).Draw(t, "ctlen"), 4)
		default:
			if len(iv) == 16 {
				pt := rtmpx.Fill(rapid.IntRange(0, 40).Draw(t, "ptlen"), 5)
				if rapid.Bool().Draw(t, "badpad") {
					// block-aligned plaintext whose last byte is a hostile padding count
					pt = append(rtmpx.Fill(15+16*rapid.IntRange(0, 2).Draw(t, "blocks"), 6), rapid.SampledFrom([]byte{0, 17, 32, 255}).Draw(t, "padbyte"))
					ct = cbcEncrypt(pt, iv, false)
				} else {
					ct = cbcEncrypt(pt, iv, true)
				}
			}
		}
		extra := rapid.SampledFrom([]string{"", `,"zip":"DEF"`, `,"zip":"XX"`, `,"crit":["x"]`}).Draw(t, "extra")
		return []byte(cbcHmacObject(iv, ct, extra))
	case 1: // JSON objects with optional members present / absent / empty / wrong length
		mem := func(name string) string {
			switch rapid.IntRange(0, 4).Draw(t, "m_"+name) {
			case 0:
				return ""
			case 1:
				return fmt.Sprintf(`"%s":"",`, name)
			case 2:
				return fmt.Sprintf(`"%s":"%s",`, name, b64(rtmpx.Fill(rapid.SampledFrom([]int{1, 3, 8, 12, 16, 24, 40}).Draw(t, "l_"+name), 8)))
			case 3:
				return fmt.Sprintf(`"%s":"!!",`, name)
			default:
				return fmt.Sprintf(`"%s":null,`, name)
			}
		}
		alg := rapid.SampledFrom([]string{"dir", "A128KW", "A256KW", "A128GCMKW", "RSA1_5", "RSA-OAEP", "ECDH-ES", "ECDH-ES+A128KW", "none", ""}).Draw(t, "alg")
		enc := rapid.SampledFrom([]string{"A128GCM", "A256GCM", "A128CBC-HS256", "A256CBC-HS512", "x"}).Draw(t, "enc")
		hdr := fmt.Sprintf(`{"alg":"%s","enc":"%s"%s}`, alg, enc, rapid.SampledFrom([]string{"", `,"iv":"AAAA"`, `,"iv":"","tag":""`, `,"epk":{"kty":"EC","crv":"P-256","x":"AA","y":"AA"}`, `,"epk":null`, `,"zip":"DEF"`}).Draw(t, "hx"))
		var sb strings.Builder
		sb.WriteString("{")
		switch rapid.IntRange(0, 3).Draw(t, "protk") {
		case 0:
			sb.WriteString(`"protected":"` + b64([]byte(hdr)) + `",`)
		case 1:
			sb.WriteString(`"unprotected":` + hdr + `,`)
		case 2:
			sb.WriteString(`"header":` + hdr + `,`)
		}
		sb.WriteString(mem("encrypted_key") + mem("iv") + mem("ciphertext") + mem("tag") + mem("aad"))
		if rapid.Bool().Draw(t, "recips") {
			sb.WriteString(`"recipients":[{"header":` + hdr + `,"encrypted_key":"` + b64(rtmpx.Fill(rapid.SampledFrom([]int{0, 8, 24, 40}).Draw(t, "rk"), 1)) + `"}],`)
		}
		s := strings.TrimSuffix(sb.String(), ",") + "}"
		return []byte(s)
	default: // library-produced objects (valid), compact or JSON
		algs := []jose.KeyAlgorithm{jose.DIRECT, jose.A128KW, jose.A256GCMKW, jose.RSA_OAEP, jose.RSA1_5, jose.ECDH_ES, jose.ECDH_ES_A128KW}
		alg := rapid.SampledFrom(algs).Draw(t, "valg")
		enc := rapid.SampledFrom([]jose.ContentEncryption{jose.A128GCM, jose.A128CBC_HS256, jose.A256GCM}).Draw(t, "venc")
		var key interface{}
		switch alg {
		case jose.DIRECT:
			key = symKeys[map[jose.ContentEncryption]int{jose.A128GCM: 0, jose.A128CBC_HS256: 2, jose.A256GCM: 2}[enc]]
		case jose.A128KW:
			key = symKeys[0]
		case jose.A256GCMKW:
			key = symKeys[2]
		case jose.RSA_OAEP, jose.RSA1_5:
			key = &rsaKeys[0].PublicKey
		default:
			key = &ecKeys[0].PublicKey
		}
		e, err := jose.NewEncrypter(alg, enc, key)
		if err != nil {
			return []byte("{}")
		}
		if rapid.Bool().Draw(t, "zip") {
			e.SetCompression(jose.DEFLATE)
		}
		obj, err := e.Encrypt(rtmpx.Fill(rapid.IntRange(0, 60).Draw(t, "ptl"), 2))
		if err != nil {
			return []byte("{}")
		}
		if rapid.Bool().Draw(t, "full") {
			return []byte(obj.FullSerialize())
		}
		s, _ := obj.CompactSerialize()
		return []byte(s)
	}
}

func validJws(t *rapid.T) []byte {
	if rapid.IntRange(0, 3).Draw(t, "jwsk") == 0 {
		hdr := fmt.Sprintf(`{"alg":"%s"%s}`, rapid.SampledFrom([]string{"HS256", "RS256", "ES256", "ES512", "PS384", "none", ""}).Draw(t, "alg"),
			rapid.SampledFrom([]string{"", `,"jwk":{"kty":"EC","crv":"P-256","x":"AA","y":"AA"}`, `,"jwk":{"kty":"RSA","n":"AQAB","e":""}`, `,"jwk":null`, `,"nonce":"n"`, `,"crit":["a"]`, `,"kid":7`}).Draw(t, "hx"))
		sig := b64(rtmpx.Fill(rapid.SampledFrom([]int{0, 1, 32, 63, 64, 65, 132, 256}).Draw(t, "siglen"), 3))
		if rapid.Bool().Draw(t, "compact") {
			return []byte(b64([]byte(hdr)) + "." + b64([]byte("payload")) + "." + sig)
		}
		return []byte(fmt.Sprintf(`{"payload":"%s",%s"signatures":[{"protected":"%s","signature":"%s"},{"header":%s,"signature":"%s"}]}`, b64([]byte("p")),
			rapid.SampledFrom([]string{"", `"protected":"e30",`, `"signature":"AA",`}).Draw(t, "flat"), b64([]byte(hdr)), sig, hdr, sig))
	}
	type sk struct {
		alg jose.SignatureAlgorithm
		key interface{}
	}
	ks := []sk{{jose.HS256, symKeys[2]}, {jose.RS256, rsaKeys[0]}, {jose.PS256, rsaKeys[0]}, {jose.ES256, ecKeys[0]}, {jose.ES384, ecKeys[4]}, {jose.ES512, ecKeys[8]}}
	k := rapid.SampledFrom(ks).Draw(t, "sk")
	s, err := jose.NewSigner(k.alg, k.key)
	if err != nil {
		return []byte("{}")
	}
	obj, err := s.Sign(rtmpx.Fill(rapid.IntRange(0, 50).Draw(t, "pl"), 3))
	if err != nil {
		return []byte("{}")
	}
	if rapid.Bool().Draw(t, "full") {
		return []byte(obj.FullSerialize())
	}
	c, _ := obj.CompactSerialize()
	return []byte(c)
}

func validJwk(t *rapid.T) []byte {
	if rapid.Bool().Draw(t, "handmade") {
		f := func(name string) string {
			switch rapid.IntRange(0, 4).Draw(t, "f_"+name) {
			case 0:
				return ""
			case 1:
				return fmt.Sprintf(`,"%s":""`, name)
			case 2:
				return fmt.Sprintf(`,"%s":"%s"`, name, b64(rtmpx.Fill(rapid.SampledFrom([]int{1, 3, 31, 32, 33, 48, 66, 67, 256}).Draw(t, "l_"+name), 7)))
			case 3:
				return fmt.Sprintf(`,"%s":"AQAB"`, name)
			default:
				return fmt.Sprintf(`,"%s":7`, name)
			}
		}
		kty := rapid.SampledFrom([]string{"RSA", "EC", "oct", "OKP", ""}).Draw(t, "kty")
		crv := rapid.SampledFrom([]string{"P-256", "P-384", "P-521", "P-999", ""}).Draw(t, "crv")
		return []byte(fmt.Sprintf(`{"kty":"%s","crv":"%s"%s%s%s%s%s%s%s%s%s%s%s}`, kty, crv, f("n"), f("e"), f("d"), f("p"), f("q"), f("dp"), f("dq"), f("qi"), f("x"), f("y"), f("k")))
	}
	keys := []interface{}{&rsaKeys[0].PublicKey, rsaKeys[1], &ecKeys[2].PublicKey, ecKeys[6], ecKeys[10], symKeys[1]}
	k := jose.JsonWebKey{Key: rapid.SampledFrom(keys).Draw(t, "key"), KeyID: "kid"}
	b, _ := k.MarshalJSON()
	return b
}

func validFor(t *rapid.T, name string) []byte {
	switch name {
	case "rtmp-chunks":
		return validRtmpChunks(t)
	case "rtmp-message":
		typ := rapid.SampledFrom([]uint8{20, 17, 18, 15, 1, 4, 5, 6, 8, 0}).Draw(t, "mt")
		switch typ {
		case 20, 18:
			return append([]byte{typ}, amfCommand(t)...)
		case 17, 15:
			return append([]byte{typ, 0}, amfCommand(t)...)
		}
		return append([]byte{typ}, controlBody(t, typ)...)
	case "rtmp-packets":
		if rapid.Bool().Draw(t, "ctl") {
			return controlBody(t, rapid.SampledFrom([]uint8{1, 4, 5, 6}).Draw(t, "ct"))
		}
		return amfCommand(t)
	case "amf0":
		return amf0ref.Encode(amf0x.Gen(t, amf0x.Opts{MaxDepth: 6, MaxNodes: 30, WireFreedom: true}), amf0ref.Layout(rapid.IntRange(0, 1).Draw(t, "layout")))
	case "flv-demux":
		var tags []flvref.Tag
		for i, n := 0, rapid.IntRange(0, 5).Draw(t, "ntags"); i < n; i++ {
			tags = append(tags, flvref.Tag{Type: rapid.SampledFrom([]uint8{8, 9, 18, 0}).Draw(t, "tt"), Timestamp: rapid.Uint32().Draw(t, "ts"), Body: validFlvTagBody(t)})
		}
		return flvref.Write(rapid.Bool().Draw(t, "hv"), rapid.Bool().Draw(t, "ha"), tags)
	case "flv-tags":
		return validFlvTagBody(t)
	case "aac":
		if rapid.IntRange(0, 3).Draw(t, "asc") == 0 {
			return []byte{rapid.Uint8().Draw(t, "a0"), rapid.Uint8().Draw(t, "a1")}
		}
		var b []byte
		for i, n := 0, rapid.IntRange(1, 4).Draw(t, "nfr"); i < n; i++ {
			h := adtsref.Header{ID: uint8(rapid.IntRange(0, 1).Draw(t, "id")), ProtectionAbsent: uint8(rapid.IntRange(0, 1).Draw(t, "pa")), Profile: uint8(rapid.IntRange(0, 3).Draw(t, "pr")),
				SFI: uint8(rapid.IntRange(0, 15).Draw(t, "sfi")), Channels: uint8(rapid.IntRange(0, 7).Draw(t, "ch"))}
			b = append(b, adtsref.Write(h, rtmpx.Fill(rapid.IntRange(0, 60).Draw(t, "rl"), 3))...)
		}
		return b
	case "avc":
		switch rapid.IntRange(0, 2).Draw(t, "avck") {
		case 0:
			r := avccref.Record{Profile: 100, Level: 31, LengthSizeMinusOne: uint8(rapid.IntRange(0, 3).Draw(t, "lsm"))}
			for i, n := 0, rapid.IntRange(0, 3).Draw(t, "nsps"); i < n; i++ {
				r.SPS = append(r.SPS, rtmpx.Fill(rapid.IntRange(0, 20).Draw(t, "spsl"), 1))
			}
			for i, n := 0, rapid.IntRange(0, 3).Draw(t, "npps"); i < n; i++ {
				r.PPS = append(r.PPS, rtmpx.Fill(rapid.IntRange(0, 20).Draw(t, "ppsl"), 2))
			}
			return avccref.Write(r)
		case 1:
			var ns [][]byte
			for i, n := 0, rapid.IntRange(0, 4).Draw(t, "nn"); i < n; i++ {
				ns = append(ns, rtmpx.Fill(rapid.IntRange(0, 30).Draw(t, "nl"), 3))
			}
			return avccref.Sample(rapid.IntRange(1, 4).Draw(t, "ls"), ns)
		}
		return rtmpx.Fill(rapid.IntRange(0, 20).Draw(t, "nalu"), 9)
	case "ws-server":
		return validWsFrames(t, true)
	case "ws-client":
		return validWsFrames(t, false)
	case "jws":
		return validJws(t)
	case "jwe":
		return validJwe(t)
	case "jwk":
		return validJwk(t)
	case "ocsp":
		names := []string{"ocspResponseHex", "ocspResponseWithoutCertHex", "ocspResponseWithExtensionHex", "ocspMultiResponseHex", "ocspRequestHex"}
		return append([]byte(nil), ocspVecs[rapid.SampledFrom(names).Draw(t, "vec")]...)
	case "jsonplus":
		parts := []string{`{`, `"a"`, `:`, `"x\"y"`, `,`, `"b"`, `:`, `[1,2]`, `}`, `//c` + "\n", `/*c*/`, `'`, `"`, `\`, `/*`, `*/`, `//`, "\n", " "}
		var sb strings.Builder
		sb.WriteByte(byte(rapid.IntRange(0, 20).Draw(t, "seg")))
		for i, n := 0, rapid.IntRange(0, 30).Draw(t, "np"); i < n; i++ {
			sb.WriteString(rapid.SampledFrom(parts).Draw(t, "part"))
		}
		return []byte(sb.String())
	}
	return nil
}

// ---------------------------------------------------------------- mutation

var hostile = [][]byte{{0xff, 0xff, 0xff}, {0xff, 0xff, 0xff, 0xff}, {0x7f, 0xff, 0xff, 0xff}, {0x80, 0, 0, 0, 0, 0, 0, 0}, {0, 0, 0, 0}, {0, 0, 9}, {0xff, 0xf1}, {0, 0, 0, 1}, {0x7f}, {0xfe}}

func mutate(t *rapid.T, b []byte) []byte {
	b = append([]byte(nil), b...)
	n := rapid.IntRange(0, 4).Draw(t, "nmut")
	for i := 0; i < n; i++ {
		if len(b) == 0 {
			b = append(b, rapid.Byte().Draw(t, "seed"))
			continue
		}
		pos := rapid.IntRange(0, len(b)-1).Draw(t, "pos")
		switch rapid.IntRange(0, 6).Draw(t, "mk") {
		case 0: // truncate
			b = b[:pos]
		case 1: // flip a bit
			b[pos] ^= 1 << uint(rapid.IntRange(0, 7).Draw(t, "bit"))
		case 2: // overwrite with a hostile constant (lengths, markers)
			h := rapid.SampledFrom(hostile).Draw(t, "hostile")
			copy(b[pos:], h)
		case 3: // overwrite a byte
			b[pos] = rapid.SampledFrom([]byte{0, 1, 0x7f, 0x80, 0xff}).Draw(t, "bv")
		case 4: // duplicate a region
			end := pos + rapid.IntRange(1, 64).Draw(t, "dl")
			if end > len(b) {
				end = len(b)
			}
			b = append(b[:end], append(append([]byte(nil), b[pos:end]...), b[end:]...)...)
		case 5: // splice: drop a region
			end := pos + rapid.IntRange(1, 32).Draw(t, "sl")
			if end > len(b) {
				end = len(b)
			}
			b = append(b[:pos], b[end:]...)
		default: // insert random bytes
			ins := rapid.SliceOfN(rapid.Byte(), 1, 8).Draw(t, "ins")
			b = append(b[:pos], append(ins, b[pos:]...)...)
		}
		if len(b) > 65536 {
			b = b[:65536]
		}
	}
	return b
}
