// C07: untrusted bytes never crash or stall a decoder; enum helpers are total.
package c07

import (
	"encoding/json"
	"fmt"
	"os"
	"strconv"
	"strings"
	"testing"
	"time"

	"github.com/ossrs/go-oryx-lib/aac"
	"github.com/ossrs/go-oryx-lib/avc"
	"github.com/ossrs/go-oryx-lib/flv"
	"github.com/ossrs/go-oryx-lib/logger"
	"github.com/ossrs/go-oryx-lib/rtmp"
	"pgregory.net/rapid"
	"verif/harness/internal/ev"
	"verif/harness/internal/rtmpx"
)

const prop = "C07"

type nopCloser struct{}

func (nopCloser) Write(p []byte) (int, error) { return len(p), nil }
func (nopCloser) Close() error                { return nil }

func TestMain(m *testing.M) {
	loadFixtures()
	logger.Switch(nopCloser{})
	ev.Main(m)
}

type Case struct {
	Target string `json:"target"`
	Data   ev.Hex `json:"data"`
}

// guard runs one decoder entry function on one input: a panic or a stall is the violation.
func guard(name string, data []byte) (progress int, err error) {
	tg := targetByName(name)
	if tg == nil {
		return 0, fmt.Errorf("harness: unknown target %q", name)
	}
	err = ev.WithTimeout(60*time.Second, func() error {
		progress = tg.f(data)
		return nil
	})
	if err != nil {
		err = fmt.Errorf("%s: %v", describe(name, data), err)
	}
	return
}

var recMut = ev.New(prop, "mutated-valid",
	"per decoder target (15 entry functions: rtmp chunk reader, message decoder, packets, amf0, flv demuxer, flv tag decoders, aac, avc, websocket reader in both roles, jws, jwe, jwk, ocsp, json+): a valid encoding built by the "+
		"independent reference encoders / fixture keys (incl. validly authenticated JWE over hostile IV/ciphertext sizes, JSON JOSE objects with optional members absent/empty/wrong-length) followed by 0-4 structure-aware mutations "+
		"(truncate, bit flip, hostile length constant, byte overwrite, duplicate, splice, insert); oracle: the call returns (no panic, no stall > 60 s); non-trivial = at least one item was decoded before the end")

func TestMutatedValid(t *testing.T) {
	for _, tg := range targets {
		recMut.Require("target:" + tg.name)
	}
	ev.Rapid(t, "mutated-valid", 30000, 2000000, func(t *rapid.T) {
		name := rapid.SampledFrom(targets).Draw(t, "target").name
		data := mutate(t, validFor(t, name))
		progress, err := guard(name, data)
		c := Case{name, data}
		recMut.Case(progress > 0, ev.Hash(c), []string{"target:" + name}, func() any { return sample(c) })
		if err != nil {
			p := ev.Fail(prop, "decode", c, err)
			t.Fatalf("%v (replay %s)", err, p)
		}
	})
}

func sample(c Case) any {
	d := c.Data
	if len(d) > 64 {
		d = d[:64]
	}
	return map[string]any{"target": c.Target, "bytes": len(c.Data), "head": d}
}

var recRand = ev.New(prop, "random-bytes",
	"per decoder target: random byte strings, 0..64 KiB (a drawn explicit prefix of <=48 bytes followed by a deterministic fill of drawn length, lengths biased to 0..64 and to 16-64 KiB); "+
		"oracle as above; non-trivial = at least one item decoded")

func TestRandomBytes(t *testing.T) {
	ev.Rapid(t, "random-bytes", 15000, 1000000, func(t *rapid.T) {
		name := rapid.SampledFrom(targets).Draw(t, "target").name
		prefix := rapid.SliceOfN(rapid.Byte(), 0, 48).Draw(t, "prefix")
		var n int
		switch rapid.IntRange(0, 3).Draw(t, "lenk") {
		case 0:
			n = 0
		case 1:
			n = rapid.IntRange(0, 64).Draw(t, "lens")
		case 2:
			n = rapid.IntRange(0, 4096).Draw(t, "lenm")
		default:
			n = rapid.IntRange(16384, 65536-48).Draw(t, "lenl")
		}
		data := append(prefix, rtmpx.Fill(n, rapid.Uint64().Draw(t, "fill"))...)
		progress, err := guard(name, data)
		c := Case{name, data}
		recRand.Case(progress > 0, ev.Hash(c), []string{"target:" + name}, func() any { return sample(c) })
		if err != nil {
			p := ev.Fail(prop, "decode", c, err)
			t.Fatalf("%v (replay %s)", err, p)
		}
	})
}

// ---------------------------------------------------------------- enum helpers: total over the integer range

type ECase struct {
	Helper string `json:"helper"`
	Value  int    `json:"value"`
}

var enumHelpers = map[string]struct {
	max int
	f   func(v int)
}{
	"flv.TagType.String":             {255, func(v int) { _ = flv.TagType(v).String() }},
	"flv.AudioFrameTrait.String":     {255, func(v int) { _ = flv.AudioFrameTrait(v).String() }},
	"flv.AudioChannels.String":       {255, func(v int) { _ = flv.AudioChannels(v).String() }},
	"flv.AudioChannels.From":         {255, func(v int) { var c flv.AudioChannels; c.From(aac.Channels(v)); _ = c.String() }},
	"flv.AudioSampleBits.String":     {255, func(v int) { _ = flv.AudioSampleBits(v).String() }},
	"flv.AudioSamplingRate.String":   {255, func(v int) { _ = flv.AudioSamplingRate(v).String() }},
	"flv.AudioSamplingRate.ToHz":     {255, func(v int) { _ = flv.AudioSamplingRate(v).ToHz() }},
	"flv.AudioSamplingRate.OpusToHz": {255, func(v int) { _ = flv.AudioSamplingRate(v).OpusToHz() }},
	"flv.AudioSamplingRate.From": {255, func(v int) {
		var r flv.AudioSamplingRate
		r.From(aac.SampleRateIndex(v))
		_ = r.String()
		if r != flv.AudioSamplingRateForbidden {
			r.ToHz()
		}
	}},
	"flv.AudioSamplingRate.OpusFrom": {255, func(v int) {
		var r flv.AudioSamplingRate
		r.OpusFrom(aac.SampleRateIndex(v))
		_ = r.String()
		r.OpusToHz()
		r.ToHz()
	}},
	"flv.AudioCodec.String":      {255, func(v int) { _ = flv.AudioCodec(v).String() }},
	"flv.VideoFrameType.String":  {255, func(v int) { _ = flv.VideoFrameType(v).String() }},
	"flv.VideoCodec.String":      {255, func(v int) { _ = flv.VideoCodec(v).String() }},
	"flv.VideoFrameTrait.String": {255, func(v int) { _ = flv.VideoFrameTrait(v).String() }},
	"aac.ObjectType.String":      {255, func(v int) { _ = aac.ObjectType(v).String() }},
	"aac.ObjectType.ToProfile":   {255, func(v int) { _ = aac.ObjectType(v).ToProfile().String() }},
	"aac.Profile.String":         {255, func(v int) { _ = aac.Profile(v).String() }},
	"aac.Profile.ToObjectType":   {255, func(v int) { _ = aac.Profile(v).ToObjectType().String() }},
	"aac.SampleRateIndex.String": {255, func(v int) { _ = aac.SampleRateIndex(v).String() }},
	"aac.SampleRateIndex.ToHz":   {255, func(v int) { _ = aac.SampleRateIndex(v).ToHz() }},
	"aac.Channels.String":        {255, func(v int) { _ = aac.Channels(v).String() }},
	"avc.NALUType.String":        {255, func(v int) { _ = avc.NALUType(v).String() }},
	"avc.NALUHeader.String":      {255, func(v int) { h := avc.NewNALUHeader(); h.UnmarshalBinary([]byte{byte(v)}); _ = h.String() }},
	"avc.AVCLevel.String":        {255, func(v int) { _ = avc.AVCLevel(v).String() }},
	"avc.AVCProfile.String":      {65535, func(v int) { _ = avc.AVCProfile(v).String() }},
	"rtmp.UserControl.Size":      {65535, func(v int) { u := rtmp.NewUserControl(); u.EventType = rtmp.EventType(v); u.Size(); u.MarshalBinary() }},
}

func runEnum(c ECase) error {
	h, ok := enumHelpers[c.Helper]
	if !ok {
		return fmt.Errorf("harness: helper %q", c.Helper)
	}
	if err := ev.Try(func() error { h.f(c.Value); return nil }); err != nil {
		return fmt.Errorf("%s(%d): %v", c.Helper, c.Value, err)
	}
	return nil
}

func TestEnumHelpers(t *testing.T) {
	rec := ev.New(prop, "enum-helpers", fmt.Sprintf("%d enum helpers (String, ToHz, OpusToHz, From/OpusFrom, ToProfile, ToObjectType, ...) over all 256 values of their uint8 type (65536 for the uint16 types): "+
		"the call returns; all non-trivial", len(enumHelpers)))
	rec.Exhaustive()
	for name, h := range enumHelpers {
		for v := 0; v <= h.max; v++ {
			c := ECase{name, v}
			err := runEnum(c)
			rec.Case(true, ev.Hash(c), nil, func() any { return c })
			if err != nil {
				p := ev.Fail(prop, "enum", c, err)
				t.Fatalf("%v (replay %s)", err, p)
			}
		}
	}
}

// ---------------------------------------------------------------- replay

// corpusBytes decodes a Go fuzz corpus file holding one []byte argument.
func corpusBytes(s string) ([]byte, error) {
	for _, line := range strings.Split(s, "\n") {
		line = strings.TrimSpace(line)
		if strings.HasPrefix(line, "[]byte(") && strings.HasSuffix(line, ")") {
			q := line[len("[]byte(") : len(line)-1]
			u, err := strconv.Unquote(q)
			if err != nil {
				return nil, err
			}
			return []byte(u), nil
		}
	}
	return nil, fmt.Errorf("no []byte value in the corpus file")
}

func replayers() map[string]ev.Replayer {
	rs := map[string]ev.Replayer{
		"decode": func(raw json.RawMessage) error {
			var c Case
			if err := json.Unmarshal(raw, &c); err != nil {
				return err
			}
			_, e := guard(c.Target, c.Data)
			return e
		},
		"enum": func(raw json.RawMessage) error {
			var c ECase
			if err := json.Unmarshal(raw, &c); err != nil {
				return err
			}
			return runEnum(c)
		},
		"linear-time": func(raw json.RawMessage) error {
			var c TCase
			if err := json.Unmarshal(raw, &c); err != nil {
				return err
			}
			_, e := runTiming(c)
			return e
		},
	}
	for _, tg := range targets {
		name := tg.name
		rs["fuzz:"+fuzzName(name)] = func(raw json.RawMessage) error {
			var c struct {
				Corpus string `json:"corpus"`
			}
			if err := json.Unmarshal(raw, &c); err != nil {
				return err
			}
			b, err := corpusBytes(c.Corpus)
			if err != nil {
				return err
			}
			_, e := guard(name, b)
			return e
		}
	}
	return rs
}

func TestRegress(t *testing.T) { ev.Regress(t, prop, replayers()) }
func TestReplay(t *testing.T) {
	if os.Getenv("VERIF_REPLAY") == "" {
		t.Skip("no VERIF_REPLAY")
	}
	ev.Replay(t, prop, replayers())
}
