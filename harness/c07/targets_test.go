package c07

// Decoder entry functions: one per target, state reset per call (fresh objects each time).
// Each returns how many items were decoded before the end (the non-triviality measure).

import (
	"bytes"
	"crypto"
	"crypto/x509"
	"encoding/json"
	"fmt"
	"io"
	"strings"

	"github.com/ossrs/go-oryx-lib/aac"
	"github.com/ossrs/go-oryx-lib/amf0"
	"github.com/ossrs/go-oryx-lib/avc"
	"github.com/ossrs/go-oryx-lib/flv"
	"github.com/ossrs/go-oryx-lib/https/crypto/ocsp"
	"github.com/ossrs/go-oryx-lib/https/jose"
	oj "github.com/ossrs/go-oryx-lib/json"
	"github.com/ossrs/go-oryx-lib/rtmp"
	"github.com/ossrs/go-oryx-lib/websocket"
	"verif/harness/internal/wsx"
	"verif/harness/internal/xport"
)

type target struct {
	name string
	f    func(data []byte) (progress int)
}

var targets = []target{
	{"rtmp-chunks", tRtmpChunks},
	{"rtmp-message", tRtmpMessage},
	{"rtmp-packets", tRtmpPackets},
	{"amf0", tAmf0},
	{"flv-demux", tFlvDemux},
	{"flv-tags", tFlvTags},
	{"aac", tAac},
	{"avc", tAvc},
	{"ws-server", func(d []byte) int { return tWebsocket(d, true) }},
	{"ws-client", func(d []byte) int { return tWebsocket(d, false) }},
	{"jws", tJws},
	{"jwe", tJwe},
	{"jwk", tJwk},
	{"ocsp", tOcsp},
	{"jsonplus", tJsonPlus},
}

func targetByName(n string) *target {
	for i := range targets {
		if targets[i].name == n {
			return &targets[i]
		}
	}
	return nil
}

// rtmp chunk reader + message decoder on whatever messages come out
func tRtmpChunks(data []byte) (n int) {
	p := rtmp.NewProtocol(xport.RW{Reader: bytes.NewReader(data), Writer: io.Discard})
	if len(data)%2 == 0 {
		// the endpoint is a client with a connect and a createStream outstanding: responses in the stream can be matched
		p.WritePacket(rtmp.NewConnectAppPacket(), 0)
		p.WritePacket(rtmp.NewCreateStreamPacket(), 0)
	}
	for i := 0; i < 1<<16; i++ {
		m, err := p.ReadMessage()
		if err != nil {
			return
		}
		n++
		if pkt, err := p.DecodeMessage(m); err == nil && pkt != nil {
			pkt.Size()
			pkt.MarshalBinary()
		}
	}
	return
}

// message decoder on a drawn type + payload: data[0] = type, rest = payload
func tRtmpMessage(data []byte) (n int) {
	if len(data) < 1 {
		return
	}
	p := rtmp.NewProtocol(xport.RW{Reader: bytes.NewReader(nil), Writer: io.Discard})
	// a connect and a createStream are outstanding, so _result can be matched
	p.WritePacket(rtmp.NewConnectAppPacket(), 0)
	cs := rtmp.NewCreateStreamPacket()
	p.WritePacket(cs, 0)
	m := rtmp.NewStreamMessage(1)
	m.MessageType = rtmp.MessageType(data[0])
	m.Payload = data[1:]
	if pkt, err := p.DecodeMessage(m); err == nil && pkt != nil {
		n++
		pkt.Size()
		if b, err := pkt.MarshalBinary(); err == nil {
			n += len(b) / 64
		}
	}
	return
}

func tRtmpPackets(data []byte) (n int) {
	pkts := []rtmp.Packet{rtmp.NewConnectAppPacket(), rtmp.NewConnectAppResPacket(1), rtmp.NewCreateStreamPacket(), rtmp.NewCreateStreamResPacket(2),
		rtmp.NewPublishPacket(), rtmp.NewPlayPacket(), rtmp.NewCallPacket(), rtmp.NewCloseStreamPacket(), rtmp.NewSetChunkSize(),
		rtmp.NewWindowAcknowledgementSize(), rtmp.NewSetPeerBandwidth(), rtmp.NewUserControl()}
	for _, p := range pkts {
		if err := p.UnmarshalBinary(data); err == nil {
			n++
			p.Size()
			p.MarshalBinary()
		}
	}
	return
}

func tAmf0(data []byte) (n int) {
	if a, err := amf0.Discovery(data); err == nil {
		if err := a.UnmarshalBinary(data); err == nil {
			n++
			if s := a.Size(); s > 0 && s <= len(data) {
				n++
			}
			a.MarshalBinary()
		}
	}
	for _, a := range []amf0.Amf0{amf0.NewNumber(0), amf0.NewBoolean(false), amf0.NewString(""), amf0.NewNull(), amf0.NewUndefined(), amf0.NewObject(), amf0.NewEcmaArray(), amf0.NewStrictArray()} {
		if err := a.UnmarshalBinary(data); err == nil {
			a.Size()
			a.MarshalBinary()
		}
	}
	return
}

func tFlvDemux(data []byte) (n int) {
	d, _ := flv.NewDemuxer(bytes.NewReader(data))
	if _, _, _, err := d.ReadHeader(); err != nil {
		return
	}
	n++
	for i := 0; i < 1<<16; i++ {
		_, size, _, err := d.ReadTagHeader()
		if err != nil {
			return
		}
		if _, err := d.ReadTag(size); err != nil { // tag size always the one just read
			return
		}
		n++
	}
	return
}

func tFlvTags(data []byte) (n int) {
	ap, _ := flv.NewAudioPackager()
	if f, err := ap.Decode(data); err == nil {
		n++
		ap.Encode(f)
		_ = f.SoundFormat.String() + f.SoundRate.String() + f.SoundSize.String() + f.SoundType.String() + f.Trait.String()
		f.SoundRate.ToHz()
		f.SoundRate.OpusToHz()
	}
	vp, _ := flv.NewVideoPackager()
	if f, err := vp.Decode(data); err == nil {
		n++
		vp.Encode(f)
		_ = f.CodecID.String() + f.FrameType.String() + f.Trait.String()
	}
	return
}

func tAac(data []byte) (n int) {
	ad, _ := aac.NewADTS()
	left := data
	for i := 0; i < 1<<14 && len(left) > 0; i++ {
		raw, l, err := ad.Decode(left)
		if err != nil {
			break
		}
		n++
		if asc := ad.ASC(); asc != nil {
			asc.MarshalBinary()
			_ = asc.Object.String() + asc.SampleRate.String() + asc.Channels.String()
			asc.SampleRate.ToHz()
		}
		if len(l) >= len(left) {
			break // no progress: stop (a decoder that does not consume is a stall, measured elsewhere)
		}
		_ = raw
		left = l
	}
	ad2, _ := aac.NewADTS()
	if err := ad2.SetASC(data); err == nil {
		n++
		ad2.Encode(data)
	}
	var asc aac.AudioSpecificConfig
	if err := asc.UnmarshalBinary(data); err == nil {
		asc.MarshalBinary()
	}
	return
}

func tAvc(data []byte) (n int) {
	u := avc.NewNALU()
	if err := u.UnmarshalBinary(data); err == nil {
		n++
		_ = u.String()
		u.MarshalBinary()
	}
	r := avc.NewAVCDecoderConfigurationRecord()
	if err := r.UnmarshalBinary(data); err == nil {
		n++
		r.MarshalBinary()
		_ = r.AVCProfileIndication.String() + r.AVCLevelIndication.String()
	}
	for lsm := uint8(0); lsm < 4; lsm++ {
		s := avc.NewAVCSample(lsm)
		if err := s.UnmarshalBinary(data); err == nil {
			n++
			s.MarshalBinary()
		}
	}
	return
}

// websocket frame reader. data[0] selects the configuration: bit0 compression, bit1 read limit, bit2 small buffer, bit3 streaming reads (NextReader).
func tWebsocket(data []byte, server bool) (n int) {
	var cfgb byte
	if len(data) > 0 {
		cfgb, data = data[0], data[1:]
	}
	out := &wsx.Sink{}
	cfg := wsx.Config{ReadBuf: 4096, WriteBuf: 256, Compression: cfgb&1 != 0}
	if cfgb&4 != 0 {
		cfg.ReadBuf = 126
	}
	var c *websocket.Conn
	var err error
	if server {
		c, _, _, err = wsx.NewServer(cfg, cfgb&1 != 0, bytes.NewReader(data), out)
	} else {
		c, _, _, err = wsx.NewClient(cfg, cfgb&1 != 0, bytes.NewReader(data), out)
	}
	if err != nil {
		return
	}
	if cfgb&2 != 0 {
		c.SetReadLimit(1000)
	}
	if cfgb&8 != 0 {
		// the streaming API: read each message through NextReader in small pieces, read once more
		// after its end, and touch the previous message's reader after moving on (each is an error
		// or end of data for the application, never a crash)
		var prev io.Reader
		buf := make([]byte, 7)
		for i := 0; i < 1<<16; i++ {
			_, r, err := c.NextReader()
			if prev != nil {
				prev.Read(buf)
			}
			if err != nil {
				return
			}
			for {
				if _, e := r.Read(buf); e != nil {
					break
				}
			}
			r.Read(buf)
			prev = r
			n++
		}
		return
	}
	for i := 0; i < 1<<16; i++ {
		if _, _, err := c.ReadMessage(); err != nil {
			return // stop at the first error, as the documentation requires
		}
		n++
	}
	return
}

func tJws(data []byte) (n int) {
	obj, err := jose.ParseSigned(string(data))
	if err != nil {
		return
	}
	n++
	for _, k := range verifyKeys() {
		if _, err := obj.Verify(k); err == nil {
			n++
		}
	}
	for _, s := range obj.Signatures {
		if s.Header.JsonWebKey != nil {
			obj.Verify(s.Header.JsonWebKey)
			s.Header.JsonWebKey.Valid()
		}
	}
	obj.CompactSerialize()
	obj.FullSerialize()
	return
}

func tJwe(data []byte) (n int) {
	obj, err := jose.ParseEncrypted(string(data))
	if err != nil {
		return
	}
	n++
	for _, k := range decryptKeys() {
		if _, err := obj.Decrypt(k); err == nil {
			n++
		}
	}
	obj.GetAuthData()
	obj.CompactSerialize()
	obj.FullSerialize()
	return
}

func tJwk(data []byte) (n int) {
	var k jose.JsonWebKey
	if err := k.UnmarshalJSON(data); err != nil {
		return
	}
	n++
	k.Valid()
	k.Thumbprint(crypto.SHA256)
	k.Thumbprint(crypto.SHA1)
	k.MarshalJSON()
	var set jose.JsonWebKeySet
	if json.Unmarshal(data, &set) == nil {
		set.Key("a")
	}
	return
}

var ocspIssuer *x509.Certificate

func tOcsp(data []byte) (n int) {
	if r, err := ocsp.ParseResponse(data, nil); err == nil && r != nil {
		n++
	}
	if ocspIssuer != nil {
		ocsp.ParseResponse(data, ocspIssuer)
		if r, err := ocsp.ParseResponseForCert(data, ocspIssuer, nil); err == nil && r != nil {
			n++
		}
	}
	if r, err := ocsp.ParseRequest(data); err == nil && r != nil {
		n++
		r.Marshal()
	}
	return
}

func tJsonPlus(data []byte) (n int) {
	seg := 0
	if len(data) > 0 {
		seg, data = int(data[0]), data[1:]
	}
	var r io.Reader = bytes.NewReader(data)
	if seg&1 != 0 {
		r = &xport.SegReader{R: r, Sched: []int{1 + seg>>1}}
	}
	out, err := io.ReadAll(oj.NewJsonPlusReader(r))
	if err == nil {
		n++
		n += len(out) / 1024
	}
	var v interface{}
	if oj.Unmarshal(strings.NewReader(string(data)), &v) == nil {
		n++
	}
	return
}

func describe(name string, data []byte) string {
	h := data
	if len(h) > 48 {
		h = h[:48]
	}
	return fmt.Sprintf("%s: %d bytes %x..", name, len(data), h)
}
