package c07

// Native coverage-guided fuzz targets (thorough tier): one per decoder entry function. The
// semantic oracle (returns, does not panic, does not stall) is inside the target.

import (
	"strings"
	"testing"

	"pgregory.net/rapid"
)

func fuzzName(target string) string {
	parts := strings.Split(target, "-")
	for i, p := range parts {
		parts[i] = strings.ToUpper(p[:1]) + p[1:]
	}
	return "Fuzz" + strings.Join(parts, "")
}

func fuzzTarget(f *testing.F, name string) {
	// seed corpus: a few valid inputs from the generators (fixed draws) and hostile constants
	for seed := 0; seed < 6; seed++ {
		ex := rapid.Custom(func(t *rapid.T) []byte { return validFor(t, name) }).Example(seed)
		if len(ex) > 0 && len(ex) <= 65536 {
			f.Add(ex)
		}
	}
	for _, h := range hostile {
		f.Add(append([]byte{}, h...))
	}
	f.Add([]byte{})
	f.Fuzz(func(t *testing.T, data []byte) {
		if len(data) > 65536 {
			return
		}
		if _, err := guard(name, data); err != nil {
			t.Fatal(err)
		}
	})
}

func FuzzRtmpChunks(f *testing.F)  { fuzzTarget(f, "rtmp-chunks") }
func FuzzRtmpMessage(f *testing.F) { fuzzTarget(f, "rtmp-message") }
func FuzzRtmpPackets(f *testing.F) { fuzzTarget(f, "rtmp-packets") }
func FuzzAmf0(f *testing.F)        { fuzzTarget(f, "amf0") }
func FuzzFlvDemux(f *testing.F)    { fuzzTarget(f, "flv-demux") }
func FuzzFlvTags(f *testing.F)     { fuzzTarget(f, "flv-tags") }
func FuzzAac(f *testing.F)         { fuzzTarget(f, "aac") }
func FuzzAvc(f *testing.F)         { fuzzTarget(f, "avc") }
func FuzzWsServer(f *testing.F)    { fuzzTarget(f, "ws-server") }
func FuzzWsClient(f *testing.F)    { fuzzTarget(f, "ws-client") }
func FuzzJws(f *testing.F)         { fuzzTarget(f, "jws") }
func FuzzJwe(f *testing.F)         { fuzzTarget(f, "jwe") }
func FuzzJwk(f *testing.F)         { fuzzTarget(f, "jwk") }
func FuzzOcsp(f *testing.F)        { fuzzTarget(f, "ocsp") }
func FuzzJsonplus(f *testing.F)    { fuzzTarget(f, "jsonplus") }
