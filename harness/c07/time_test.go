package c07

// Linear-time claim: for adversarial input families per decoder the CPU time at 64 KiB must
// not be more than 10x the time at 16 KiB (linear = 4x, quadratic = 16x); below 50 ms nothing
// is concluded.

import (
	"bytes"
	"encoding/binary"
	"fmt"
	"runtime"
	"runtime/debug"
	"strings"
	"syscall"
	"testing"
	"time"

	"verif/harness/internal/ev"
	"verif/harness/internal/ref/adtsref"
	"verif/harness/internal/ref/amf0ref"
	"verif/harness/internal/ref/avccref"
	"verif/harness/internal/ref/flvref"
	"verif/harness/internal/ref/rtmpref"
	"verif/harness/internal/ref/wsref"
)

const sigNested = "amf0.decode.nested.superlinear"

type TCase struct {
	Family string `json:"family"`
}

type family struct {
	target string
	build  func(n int) []byte // an input of about n bytes
}

func repeatTo(n int, unit []byte) []byte {
	var b []byte
	for len(b)+len(unit) <= n {
		b = append(b, unit...)
	}
	return b
}

func nestedAmf0(n int, maxDepth int) []byte {
	// 03 0001 'a' 03 0001 'a' ... 05 000009 000009 ...: 7 bytes per level
	d := n / 7
	if maxDepth > 0 && d > maxDepth {
		d = maxDepth
	}
	var b []byte
	for i := 0; i < d; i++ {
		b = append(b, 3, 0, 1, 'a')
	}
	b = append(b, 5)
	for i := 0; i < d; i++ {
		b = append(b, 0, 0, 9)
	}
	return b
}

var families = map[string]family{
	"amf0-wide-object": {"amf0", func(n int) []byte {
		b := []byte{3}
		for i := 0; len(b) < n-8; i++ {
			b = append(b, 0, 3, byte('a'+i%26), byte('a'+i/26%26), byte('a'+i/676%26), 5)
		}
		return append(b, 0, 0, 9)
	}},
	"amf0-same-key-object": {"amf0", func(n int) []byte {
		return append(append([]byte{3}, repeatTo(n-8, []byte{0, 1, 'k', 5})...), 0, 0, 9)
	}},
	"amf0-strict-wide": {"amf0", func(n int) []byte {
		cnt := (n - 5) / 4
		b := []byte{10, byte(cnt >> 24), byte(cnt >> 16), byte(cnt >> 8), byte(cnt)}
		for i := 0; i < cnt; i++ {
			b = append(b, 0, 1, 'k', 6)
		}
		return b
	}},
	"amf0-nested-64": {"amf0", func(n int) []byte {
		// many siblings, each nested 64 deep (the depth bound while the nesting finding is open)
		unit := append([]byte{0, 1, 'k'}, nestedAmf0(7*64, 64)...)
		return append(append([]byte{3}, repeatTo(n-8, unit)...), 0, 0, 9)
	}},
	"amf0-nested": {"amf0", func(n int) []byte { return nestedAmf0(n, 0) }},
	"rtmp-chunksize-1": {"rtmp-chunks", func(n int) []byte {
		ch := rtmpref.NewChunker()
		b := ch.Whole(rtmpref.Item{Cid: 2, Form: 1, Msg: rtmpref.Msg{Type: 1, Payload: []byte{0, 0, 0, 1}}})
		return append(b, ch.Whole(rtmpref.Item{Cid: 3, Form: 1, Msg: rtmpref.Msg{Type: 9, StreamID: 1, Payload: make([]byte, (n-len(b)-12)/2)}})...)
	}},
	"rtmp-tiny-messages": {"rtmp-chunks", func(n int) []byte {
		ch := rtmpref.NewChunker()
		var b []byte
		for i := 0; len(b) < n-16; i++ {
			f := 0
			if i > 0 {
				f = 3
			}
			b = append(b, ch.Whole(rtmpref.Item{Cid: 4, Form: 1, Fmt: f, Msg: rtmpref.Msg{Type: 8, StreamID: 1, Timestamp: 0, Payload: []byte{1}}})...)
		}
		return b
	}},
	"rtmp-many-chunk-streams": {"rtmp-chunks", func(n int) []byte {
		ch := rtmpref.NewChunker()
		var b []byte
		for i := 0; len(b) < n-20; i++ {
			b = append(b, ch.Whole(rtmpref.Item{Cid: uint32(64 + i%65000), Form: 3, Msg: rtmpref.Msg{Type: 8, StreamID: 1, Payload: []byte{1}}})...)
		}
		return b
	}},
	"rtmp-command-wide-object": {"rtmp-message", func(n int) []byte {
		b := []byte{20}
		b = append(b, amf0ref.Encode(amf0ref.Val{K: amf0ref.String, Str: []byte("onStatus")}, amf0ref.Lib)...)
		b = append(b, amf0ref.Encode(amf0ref.Val{K: amf0ref.Number}, amf0ref.Lib)...)
		b = append(b, 3)
		for i := 0; len(b) < n-8; i++ {
			b = append(b, 0, 3, byte('a'+i%26), byte('a'+i/26%26), byte('a'+i/676%26), 5)
		}
		return append(b, 0, 0, 9)
	}},
	"flv-tiny-tags": {"flv-demux", func(n int) []byte {
		var tags []flvref.Tag
		for i := 0; i < (n-13)/16; i++ {
			tags = append(tags, flvref.Tag{Type: 8, Timestamp: uint32(i), Body: []byte{0xaf}})
		}
		return flvref.Write(true, true, tags)
	}},
	"aac-tiny-frames": {"aac", func(n int) []byte {
		return repeatTo(n, adtsref.Write(adtsref.Header{ProtectionAbsent: 1, Profile: 1, SFI: 4, Channels: 2}, []byte{1}))
	}},
	"avc-sample-tiny-nalus": {"avc", func(n int) []byte { return repeatTo(n, []byte{1, 0x65}) }},
	"avc-record-many-pps": {"avc", func(n int) []byte {
		r := avccref.Record{Profile: 66, Level: 30, LengthSizeMinusOne: 3, SPS: [][]byte{{0x67, 1}}}
		for i := 0; i < 255; i++ {
			r.PPS = append(r.PPS, make([]byte, (n-20)/255-2))
		}
		return avccref.Write(r)
	}},
	"ws-tiny-frames": {"ws-server", func(n int) []byte {
		return append([]byte{0}, repeatTo(n, wsref.Frame{Fin: true, Op: 2, Masked: true, Key: [4]byte{1, 2, 3, 4}, Payload: []byte{7}}.Bytes())...)
	}},
	"ws-empty-fragments": {"ws-server", func(n int) []byte {
		b := append([]byte{0}, wsref.Frame{Op: 1, Masked: true, Key: [4]byte{1, 2, 3, 4}}.Bytes()...)
		return append(b, repeatTo(n-len(b), wsref.Frame{Op: 0, Masked: true, Key: [4]byte{1, 2, 3, 4}}.Bytes())...)
	}},
	"ws-pings": {"ws-client", func(n int) []byte {
		return append([]byte{0}, repeatTo(n, wsref.Frame{Fin: true, Op: 9, Payload: []byte{1}}.Bytes())...)
	}},
	"ws-compressed-fragments": {"ws-server", func(n int) []byte {
		b := append([]byte{1}, wsref.Frame{Op: 2, RSV: 4, Masked: true, Key: [4]byte{9, 9, 9, 9}, Payload: wsref.Deflate(bytes.Repeat([]byte("ab"), 20), 1)}.Bytes()...)
		return append(b, repeatTo(n-len(b), wsref.Frame{Op: 0, Masked: true, Key: [4]byte{1, 2, 3, 4}}.Bytes())...)
	}},
	"jws-many-signatures": {"jws", func(n int) []byte {
		unit := `{"protected":"eyJhbGciOiJIUzI1NiJ9","signature":"AAAA"},`
		return []byte(`{"payload":"cA","signatures":[` + strings.TrimSuffix(strings.Repeat(unit, n/len(unit)), ",") + `]}`)
	}},
	"jws-long-payload": {"jws", func(n int) []byte {
		return []byte("eyJhbGciOiJIUzI1NiJ9." + strings.Repeat("QUFB", n/4) + ".AAAA")
	}},
	"jwe-many-recipients": {"jwe", func(n int) []byte {
		unit := `{"header":{"alg":"A128KW"},"encrypted_key":"AAAAAAAAAAAAAAAAAAAAAAAAAAAAAAAA"},`
		return []byte(`{"protected":"eyJlbmMiOiJBMTI4R0NNIn0","iv":"AAAAAAAAAAAAAAAA","ciphertext":"AA","tag":"AAAAAAAAAAAAAAAAAAAAAA","recipients":[` +
			strings.TrimSuffix(strings.Repeat(unit, n/len(unit)), ",") + `]}`)
	}},
	"jwk-long-modulus": {"jwk", func(n int) []byte {
		return []byte(`{"kty":"RSA","e":"AQAB","n":"` + strings.Repeat("_", n) + `"}`)
	}},
	"jsonplus-strings": {"jsonplus", func(n int) []byte {
		return []byte("\x00[" + strings.TrimSuffix(strings.Repeat(`"ab",`, n/5), ",") + "]")
	}},
	"jsonplus-comments": {"jsonplus", func(n int) []byte {
		return []byte("\x00[" + strings.Repeat("/*c*/1,//x\n", n/11) + "1]")
	}},
	"jsonplus-escapes": {"jsonplus", func(n int) []byte {
		return []byte("\x00[\"" + strings.Repeat(`\"`, n/2) + "\"]")
	}},
	"jsonplus-one-byte-reads": {"jsonplus", func(n int) []byte {
		return []byte("\x01[" + strings.TrimSuffix(strings.Repeat(`"ab",`, n/5), ",") + "]")
	}},
}

func cpuTime() time.Duration {
	var ru syscall.Rusage
	syscall.Getrusage(1 /* RUSAGE_THREAD */, &ru)
	return time.Duration(ru.Utime.Nano() + ru.Stime.Nano())
}

func measure(tg *target, data []byte) time.Duration {
	best := time.Duration(1<<62 - 1)
	for i := 0; i < 5; i++ {
		start := cpuTime()
		tg.f(data)
		if d := cpuTime() - start; d < best {
			best = d
		}
	}
	return best
}

type timing struct {
	T8, T16, T32, T64 time.Duration
	Ratio             float64
}

// runTiming measures a family up to four times and reports a violation only if every attempt
// shows super-linear growth: a neighbour process competing for cache and memory bandwidth inflates
// the larger sizes of one attempt, a super-linear algorithm inflates them in all.
func runTiming(c TCase) (tm timing, err error) {
	for attempt := 0; attempt < 4; attempt++ {
		if tm, err = runTimingOnce(c); err == nil || !strings.Contains(err.Error(), "grows faster than linearly") || tm.Ratio >= 14 {
			return tm, err // clean, another kind of failure, or clearly quadratic (x16 per x4): no second opinion needed
		}
	}
	return tm, err
}

func runTimingOnce(c TCase) (tm timing, err error) {
	fam, ok := families[c.Family]
	if !ok {
		return tm, fmt.Errorf("harness: family %q", c.Family)
	}
	tg := targetByName(fam.target)
	old := debug.SetGCPercent(-1)
	defer debug.SetGCPercent(old)
	var ts [4]time.Duration
	for i, n := range []int{8 << 10, 16 << 10, 32 << 10, 64 << 10} {
		data := fam.build(n)
		if len(data) > 65536+16 {
			data = data[:65536]
		}
		var d time.Duration
		e := ev.WithTimeout(120*time.Second, func() error {
			// thread CPU time: the measuring goroutine must stay on one OS thread
			runtime.LockOSThread()
			defer runtime.UnlockOSThread()
			d = measure(tg, data)
			return nil
		})
		if e != nil {
			return tm, fmt.Errorf("family %s at %d KiB: %v", c.Family, n>>10, e)
		}
		ts[i] = d
		runtime.GC()
	}
	tm = timing{ts[0], ts[1], ts[2], ts[3], 0}
	if ts[1] > 0 {
		tm.Ratio = float64(ts[3]) / float64(ts[1])
	}
	if ts[3] >= 50*time.Millisecond && tm.Ratio > 10 {
		return tm, fmt.Errorf("family %s: decoding time grows faster than linearly: 8K %v, 16K %v, 32K %v, 64K %v (64K/16K = %.1f; linear would be 4)", c.Family, ts[0], ts[1], ts[2], ts[3], tm.Ratio)
	}
	return tm, nil
}

func TestLinearTime(t *testing.T) {
	rec := ev.New(prop, "linear-time", fmt.Sprintf("%d adversarial input families (deep/wide containers, many tiny frames/tags/chunks/NAL units, many signatures/recipients, long strings, comment-dense and escape-dense JSON) at 8/16/32/64 KiB: "+
		"thread CPU time, GC off, min of 5; violation iff t(64K) >= 50 ms and t(64K)/t(16K) >= 14, or > 10 in each of 4 attempts; all non-trivial", len(families)))
	rec.Exhaustive()
	open := ev.Open(prop, sigNested)
	for name := range families {
		c := TCase{name}
		tm, err := runTiming(c)
		rec.Case(true, ev.Hash(c), nil, func() any {
			return map[string]any{"family": name, "t16k_us": tm.T16.Microseconds(), "t64k_us": tm.T64.Microseconds(), "ratio": fmt.Sprintf("%.1f", tm.Ratio)}
		})
		if name == "amf0-nested" && open {
			if err != nil {
				ev.Known(prop, sigNested, err.Error())
			} else {
				ev.Stale(prop, sigNested)
			}
			continue
		}
		if err != nil {
			p := ev.Fail(prop, "linear-time", c, err)
			t.Fatalf("%v (replay %s)", err, p)
		}
	}
}

var _ = binary.BigEndian
