// C12: AVC configuration records, samples and NAL units round-trip in ISO layout.
package c12

import (
	"bytes"
	"encoding/json"
	"fmt"
	"os"
	"testing"

	"github.com/ossrs/go-oryx-lib/avc"
	"pgregory.net/rapid"
	"verif/harness/internal/ev"
	"verif/harness/internal/ref/avccref"
	"verif/harness/internal/rtmpx"
)

const prop = "C12"

func TestMain(m *testing.M) { ev.Main(m) }

type fataler interface{ Fatalf(string, ...any) }

func fail(t fataler, check string, c any, err error) {
	p := ev.Fail(prop, check, c, err)
	t.Fatalf("%v (replay %s)", err, p)
}

// N describes one NAL unit: header byte + payload (length, fill).
type N struct {
	Hdr  uint8  `json:"hdr"`
	Len  int    `json:"len"` // payload bytes after the header
	Fill uint64 `json:"fill"`
}

func (n N) bytes() []byte { return append([]byte{n.Hdr}, rtmpx.Fill(n.Len, n.Fill)...) }

func (n N) nalu() *avc.NALU {
	u := avc.NewNALU()
	u.NALRefIDC = avc.NALRefIDC(n.Hdr >> 5 & 3)
	u.NALUType = avc.NALUType(n.Hdr & 0x1f)
	u.Data = rtmpx.Fill(n.Len, n.Fill)
	return u
}

func sameNALU(u *avc.NALU, n N) error {
	if u == nil || u.NALUHeader == nil {
		return fmt.Errorf("nil NAL unit")
	}
	if uint8(u.NALRefIDC) != n.Hdr>>5&3 || uint8(u.NALUType) != n.Hdr&0x1f {
		return fmt.Errorf("NAL header nri=%d type=%d, want nri=%d type=%d", u.NALRefIDC, u.NALUType, n.Hdr>>5&3, n.Hdr&0x1f)
	}
	if !bytes.Equal(u.Data, rtmpx.Fill(n.Len, n.Fill)) {
		return fmt.Errorf("NAL payload of %d bytes differs (got %d bytes)", n.Len, len(u.Data))
	}
	return nil
}

// ---------------------------------------------------------------- NAL units: all 256 header bytes

func checkNALU(n N) error {
	b := n.bytes()
	u := avc.NewNALU()
	if err := u.UnmarshalBinary(b); err != nil {
		return fmt.Errorf("unmarshal %x: %v", b[:1], err)
	}
	if err := sameNALU(u, n); err != nil {
		return err
	}
	if u.Size() != len(b) {
		return fmt.Errorf("Size() %d, want %d", u.Size(), len(b))
	}
	out, err := u.MarshalBinary()
	if err != nil {
		return err
	}
	want := append([]byte(nil), b...)
	want[0] &= 0x7f // forbidden_zero_bit is not part of the value
	if !bytes.Equal(out, want) {
		return fmt.Errorf("NAL %02x.. re-marshals to %02x.. (%d bytes, want %d)", b[0], out[0], len(out), len(want))
	}
	// the same object decodes another unit afterwards (a reader that reuses its NALU)
	r := avc.NewNALU()
	if err := r.UnmarshalBinary(append([]byte{0x65}, rtmpx.Fill(4+n.Len, 99)...)); err != nil {
		return err
	}
	if err := r.UnmarshalBinary(b); err != nil {
		return fmt.Errorf("second unmarshal into the same NALU: %v", err)
	}
	if err := sameNALU(r, n); err != nil {
		return fmt.Errorf("NALU object reused for a second unit: %v", err)
	}
	if rb, err := r.MarshalBinary(); err != nil || !bytes.Equal(rb, append([]byte{b[0] & 0x7f}, b[1:]...)) || r.Size() != len(b) {
		return fmt.Errorf("NALU object reused for a second unit marshals to %d bytes (Size %d), want %d", len(rb), r.Size(), len(b))
	}
	// value -> bytes -> value
	v := n.nalu()
	vb, err := v.MarshalBinary()
	if err != nil || !bytes.Equal(vb, want) {
		return fmt.Errorf("NAL value marshals to %x.., want %x.. (err %v)", vb[:1], want[:1], err)
	}
	// marshalled bytes belong to the application: it overwrites them (and their spare capacity), the values marshal as before
	hb, herr := v.NALUHeader.MarshalBinary()
	if herr != nil || len(hb) != 1 || hb[0] != want[0] {
		return fmt.Errorf("NAL header marshals to %x (err %v), want %02x", hb, herr, want[0])
	}
	ev.Trash(out)
	ev.Trash(vb)
	ev.Trash(hb)
	if again, err := v.MarshalBinary(); err != nil || !bytes.Equal(again, want) {
		return fmt.Errorf("after the application overwrote the bytes of earlier results the NAL value marshals to %x.. (%d bytes, err %v), want %x.. (%d bytes)", head(again), len(again), err, head(want), len(want))
	}
	if again, err := u.MarshalBinary(); err != nil || !bytes.Equal(again, want) {
		return fmt.Errorf("after the application overwrote the bytes of earlier results the decoded NAL unit marshals to %x.. (%d bytes, err %v), want %x.. (%d bytes)", head(again), len(again), err, head(want), len(want))
	}
	return nil
}

func TestNALUAll(t *testing.T) {
	rec := ev.New(prop, "nalu-all-headers", "all 256 NAL header bytes x payload lengths {0,1,255,256,65535}: unmarshal yields nal_ref_idc/nal_unit_type of the byte, marshal(unmarshal(b)) == b with forbidden_zero_bit cleared; every case non-trivial")
	rec.Exhaustive()
	for h := 0; h < 256; h++ {
		for _, l := range []int{0, 1, 255, 256, 65535} {
			n := N{Hdr: uint8(h), Len: l, Fill: uint64(h + 1)}
			err := ev.Try(func() error { return checkNALU(n) })
			rec.Case(true, ev.Hash(n), nil, func() any { return n })
			if err != nil {
				fail(t, "nalu", n, err)
			}
		}
	}
}

// ---------------------------------------------------------------- records

type RCase struct {
	Profile uint8 `json:"profile"`
	Compat  uint8 `json:"compat"`
	Level   uint8 `json:"level"`
	LSM     uint8 `json:"lsm"`
	SPS     []N   `json:"sps"`
	PPS     []N   `json:"pps"`
	Ext     bool  `json:"ext"` // reference writer appends the high-profile extension
}

func (c RCase) ref() avccref.Record {
	r := avccref.Record{Profile: c.Profile, Compat: c.Compat, Level: c.Level, LengthSizeMinusOne: c.LSM}
	for _, n := range c.SPS {
		r.SPS = append(r.SPS, n.bytes())
	}
	for _, n := range c.PPS {
		r.PPS = append(r.PPS, n.bytes())
	}
	return r
}

func sameRecord(v *avc.AVCDecoderConfigurationRecord, c RCase) error {
	if uint16(v.AVCProfileIndication) != uint16(c.Profile) || uint8(v.AVCLevelIndication) != c.Level || v.LengthSizeMinusOne != c.LSM {
		return fmt.Errorf("record profile %d level %d lengthSizeMinusOne %d, want %d %d %d", v.AVCProfileIndication, v.AVCLevelIndication, v.LengthSizeMinusOne, c.Profile, c.Level, c.LSM)
	}
	if len(v.SequenceParameterSetNALUnits) != len(c.SPS) || len(v.PictureParameterSetNALUnits) != len(c.PPS) {
		return fmt.Errorf("record has %d SPS and %d PPS, want %d and %d", len(v.SequenceParameterSetNALUnits), len(v.PictureParameterSetNALUnits), len(c.SPS), len(c.PPS))
	}
	for i, n := range c.SPS {
		if err := sameNALU(v.SequenceParameterSetNALUnits[i], n); err != nil {
			return fmt.Errorf("SPS %d: %v", i, err)
		}
	}
	for i, n := range c.PPS {
		if err := sameNALU(v.PictureParameterSetNALUnits[i], n); err != nil {
			return fmt.Errorf("PPS %d: %v", i, err)
		}
	}
	return nil
}

func checkRecord(c RCase) error {
	// NAL header bytes with the forbidden bit set are not canonical; clear it in the model
	for i := range c.SPS {
		c.SPS[i].Hdr &= 0x7f
	}
	for i := range c.PPS {
		c.PPS[i].Hdr &= 0x7f
	}
	refBytes := avccref.Write(c.ref())
	// (1) canonical bytes (independent writer, any compatibility byte) -> library -> same bytes
	v := avc.NewAVCDecoderConfigurationRecord()
	if c.Level%3 == 0 {
		v = &avc.AVCDecoderConfigurationRecord{} // a record declared by the application and filled by UnmarshalBinary
	}
	if err := v.UnmarshalBinary(refBytes); err != nil {
		return fmt.Errorf("library rejects the ISO writer's record %x..: %v", head(refBytes), err)
	}
	if err := sameRecord(v, c); err != nil {
		return fmt.Errorf("reading the ISO writer's record: %v", err)
	}
	out, err := v.MarshalBinary()
	if err != nil {
		return err
	}
	if !bytes.Equal(out, refBytes) {
		return fmt.Errorf("marshal(unmarshal(b)) differs from b at offset %d: got %x.. want %x..", firstDiff(out, refBytes), head(out), head(refBytes))
	}
	if _, err := avccref.Parse(out); err != nil {
		return fmt.Errorf("strict ISO parser rejects the library's record: %v", err)
	}
	// (2) value built through the API (compatibility is not settable: 0) -> bytes == ISO layout -> fresh value
	c0 := c
	c0.Compat = 0
	w := avc.NewAVCDecoderConfigurationRecord()
	w.AVCProfileIndication = avc.AVCProfile(c.Profile)
	w.AVCLevelIndication = avc.AVCLevel(c.Level)
	w.LengthSizeMinusOne = c.LSM
	for _, n := range c.SPS {
		w.SequenceParameterSetNALUnits = append(w.SequenceParameterSetNALUnits, n.nalu())
	}
	for _, n := range c.PPS {
		w.PictureParameterSetNALUnits = append(w.PictureParameterSetNALUnits, n.nalu())
	}
	wb, err := w.MarshalBinary()
	if err != nil {
		return err
	}
	if want := avccref.Write(c0.ref()); !bytes.Equal(wb, want) {
		return fmt.Errorf("record built through the API marshals to %x.., ISO/IEC 14496-15 5.2.4.1 gives %x.. (first difference at %d)", head(wb), head(want), firstDiff(wb, want))
	}
	f := avc.NewAVCDecoderConfigurationRecord()
	if err := f.UnmarshalBinary(wb); err != nil {
		return fmt.Errorf("unmarshal of own encoding: %v", err)
	}
	if err := sameRecord(f, c0); err != nil {
		return fmt.Errorf("unmarshal(marshal(v)): %v", err)
	}
	// (4) a second, different record of the same length arrives in the same read buffer
	buf := append([]byte(nil), refBytes...)
	first := avc.NewAVCDecoderConfigurationRecord()
	if err := first.UnmarshalBinary(buf); err != nil {
		return fmt.Errorf("unmarshal from a read buffer: %v", err)
	}
	c2 := c
	c2.Profile, c2.Level = c.Profile^0x01, c.Level^0x03
	c2.SPS, c2.PPS = append([]N(nil), c.SPS...), append([]N(nil), c.PPS...)
	for i := range c2.SPS {
		c2.SPS[i].Hdr, c2.SPS[i].Fill = c2.SPS[i].Hdr^0x20, c2.SPS[i].Fill+1
	}
	for i := range c2.PPS {
		c2.PPS[i].Hdr, c2.PPS[i].Fill = c2.PPS[i].Hdr^0x40, c2.PPS[i].Fill+7
	}
	if ref2 := avccref.Write(c2.ref()); len(ref2) == len(buf) {
		copy(buf, ref2)
		second := avc.NewAVCDecoderConfigurationRecord()
		if err := second.UnmarshalBinary(buf); err != nil {
			return fmt.Errorf("unmarshal of a second record received into the same buffer: %v", err)
		}
		if err := sameRecord(second, c2); err != nil {
			return fmt.Errorf("a second record of the same length received into the same buffer as the first: %v", err)
		}
	}
	// the first record's bytes were held while another record was marshalled
	if !bytes.Equal(out, refBytes) {
		return fmt.Errorf("the bytes MarshalBinary returned for one record changed when another record was marshalled (offset %d)", firstDiff(out, refBytes))
	}
	ev.Trash(out)
	ev.Trash(wb)
	if again, err := v.MarshalBinary(); err != nil || !bytes.Equal(again, refBytes) {
		return fmt.Errorf("after the application overwrote the bytes of earlier results the record marshals differently (offset %d, err %v)", firstDiff(again, refBytes), err)
	}
	// (3) with the high-profile extension appended (documented as ignored)
	if c.Ext {
		r := c.ref()
		r.Ext, r.Chroma, r.BitDepthLuma, r.BitDepthChr = true, 1, 0, 0
		r.SPSExt = nil
		for i := 0; i < int(c.Level)%4; i++ {
			r.SPSExt = append(r.SPSExt, [][]byte{{0x6d, 1, 2}, {0x6d, 0xff, 0xff}, {0x6d, 9, 0xff, 0xff, 0xff}}[i])
		}
		e := avc.NewAVCDecoderConfigurationRecord()
		if err := e.UnmarshalBinary(avccref.Write(r)); err != nil {
			return fmt.Errorf("record with the high-profile extension rejected: %v", err)
		}
		if err := sameRecord(e, c); err != nil {
			return fmt.Errorf("record with the high-profile extension: %v", err)
		}
	}
	return nil
}

func head(b []byte) []byte {
	if len(b) > 12 {
		return b[:12]
	}
	return b
}

func firstDiff(a, b []byte) int {
	for i := 0; i < len(a) && i < len(b); i++ {
		if a[i] != b[i] {
			return i
		}
	}
	return min(len(a), len(b))
}

func genN(t *rapid.T, small bool) N {
	n := N{Hdr: rapid.Uint8().Draw(t, "hdr"), Fill: rapid.Uint64().Draw(t, "nfill")}
	if small {
		n.Len = rapid.IntRange(0, 8).Draw(t, "nlens")
	} else if rapid.Bool().Draw(t, "nlenk") {
		n.Len = rapid.SampledFrom([]int{0, 1, 254, 255, 65534}).Draw(t, "nlenc") // total NAL sizes 1,2,255,256,65535
	} else {
		n.Len = rapid.IntRange(0, 300).Draw(t, "nlenu")
	}
	return n
}

var recRecord = ev.New(prop, "records",
	"rapid-generated records: profile/compatibility/level over uint8, length size 1..4, SPS count {0,1,2,31,uniform<=31}, PPS count {0,1,2,255,uniform}, NAL sizes {1,2,255,256,65535,uniform}; "+
		"oracles: ISO writer bytes -> library -> identical bytes; API-built record == ISO 14496-15 layout (reserved bits set) and unmarshals into a fresh value equal; high-profile extension ignored; "+
		"non-trivial = >=2 parameter sets or a NAL >=255 bytes or length size != 4").
	Require("many-sets", "big-nal", "lsm", "ext", "sps31", "pps255")

func genRCase(t *rapid.T) RCase {
	c := RCase{Profile: rapid.Uint8().Draw(t, "profile"), Compat: rapid.Uint8().Draw(t, "compat"), Level: rapid.Uint8().Draw(t, "level"), LSM: uint8(rapid.IntRange(0, 3).Draw(t, "lsm"))}
	if rapid.Bool().Draw(t, "profk") {
		// the values the standard defines (the three header bytes also mean something together:
		// e.g. level 11 with constraint_set3 is level 1b for the Baseline/Main/Extended profiles)
		c.Profile = rapid.SampledFrom([]uint8{66, 77, 88, 100, 110, 122, 144, 244, 44, 83, 86, 118, 128}).Draw(t, "profc")
		c.Level = rapid.SampledFrom([]uint8{9, 10, 11, 12, 13, 20, 21, 22, 30, 31, 32, 40, 41, 42, 50, 51, 52}).Draw(t, "levelc")
		c.Compat = rapid.SampledFrom([]uint8{0, 0x10, 0x1c, 0x40, 0x80, 0xc0, 0xe0, 0xf0, 0xff, 0x08}).Draw(t, "compatc")
	}
	ns := rapid.SampledFrom([]int{0, 1, 1, 2, 3, 31, -1}).Draw(t, "nsps")
	if ns < 0 {
		ns = rapid.IntRange(0, 31).Draw(t, "nspsu")
	}
	np := rapid.SampledFrom([]int{0, 1, 1, 2, 3, 255, -1, -2}).Draw(t, "npps")
	if np == -1 {
		np = rapid.IntRange(0, 255).Draw(t, "nppsu")
	}
	if np == -2 {
		// the two counters together fill a byte / the 5 bits exactly
		np = rapid.SampledFrom([]int{256 - ns, 255 - ns, 32 - ns, 224 - ns}).Draw(t, "nppsw")
		np = min(max(np, 0), 255)
	}
	small := ns+np > 8
	for i := 0; i < ns; i++ {
		c.SPS = append(c.SPS, genN(t, small))
	}
	for i := 0; i < np; i++ {
		c.PPS = append(c.PPS, genN(t, small))
	}
	c.Ext = rapid.IntRange(0, 3).Draw(t, "ext") == 0
	return c
}

// TestSideBySide: independent records on several goroutines at once.
func TestSideBySide(t *testing.T) {
	ev.Parallel(t, prop, "side-by-side", 4, 300, 80, genRCase, checkRecord)
}

func TestRecords(t *testing.T) {
	ev.Rapid(t, "records", 4000, 1500000, func(t *rapid.T) {
		c := genRCase(t)
		ns, np := len(c.SPS), len(c.PPS)
		err := ev.Try(func() error { return checkRecord(c) })
		var cl []string
		if ns+np >= 2 {
			cl = append(cl, "many-sets")
		}
		for _, n := range append(append([]N(nil), c.SPS...), c.PPS...) {
			if n.Len >= 254 {
				cl = append(cl, "big-nal")
				break
			}
		}
		if c.LSM != 3 {
			cl = append(cl, "lsm")
		}
		if c.Ext {
			cl = append(cl, "ext")
		}
		if ns == 31 {
			cl = append(cl, "sps31")
		}
		if np == 255 {
			cl = append(cl, "pps255")
		}
		recRecord.Case(len(cl) > 0, ev.Hash(c), cl, func() any { return summary(c) })
		if err != nil {
			fail(t, "records", c, err)
		}
	})
}

func summary(c RCase) any {
	return map[string]any{"profile": c.Profile, "compat": c.Compat, "level": c.Level, "lsm": c.LSM, "sps": len(c.SPS), "pps": len(c.PPS), "ext": c.Ext, "record_head": fmt.Sprintf("%x", head(avccref.Write(c.ref())))}
}

// ---------------------------------------------------------------- samples

type SCase struct {
	LSM   uint8 `json:"lsm"`
	NALUs []N   `json:"nalus"`
}

func checkSample(c SCase) error {
	for i := range c.NALUs {
		c.NALUs[i].Hdr &= 0x7f
	}
	var raw [][]byte
	for _, n := range c.NALUs {
		raw = append(raw, n.bytes())
	}
	ref := avccref.Sample(int(c.LSM)+1, raw)
	s := avc.NewAVCSample(c.LSM)
	for _, n := range c.NALUs {
		s.NALUs = append(s.NALUs, n.nalu())
	}
	b, err := s.MarshalBinary()
	if err != nil {
		return err
	}
	if !bytes.Equal(b, ref) {
		return fmt.Errorf("sample marshals to %d bytes %x.., ISO 14496-15 5.3.4.2 gives %d bytes %x.. (first difference at %d)", len(b), head(b), len(ref), head(ref), firstDiff(b, ref))
	}
	f := avc.NewAVCSample(c.LSM)
	if err := f.UnmarshalBinary(ref); err != nil {
		return fmt.Errorf("unmarshal of a canonical sample: %v", err)
	}
	if len(f.NALUs) != len(c.NALUs) {
		return fmt.Errorf("sample has %d NAL units, want %d", len(f.NALUs), len(c.NALUs))
	}
	for i, n := range c.NALUs {
		if err := sameNALU(f.NALUs[i], n); err != nil {
			return fmt.Errorf("NAL %d: %v", i, err)
		}
	}
	b2, err := f.MarshalBinary()
	if err != nil || !bytes.Equal(b2, ref) {
		return fmt.Errorf("marshal(unmarshal(b)) differs (err %v)", err)
	}
	// the first result is held while a different sample is marshalled
	o := avc.NewAVCSample(c.LSM)
	o.NALUs = append(o.NALUs, N{Hdr: 0x09, Len: 1, Fill: 0xf0}.nalu())
	for i := len(c.NALUs) - 1; i >= 0 && len(c.NALUs[i].bytes()) < 1<<16; i-- {
		o.NALUs = append(o.NALUs, c.NALUs[i].nalu())
	}
	if _, err := o.MarshalBinary(); err != nil {
		return fmt.Errorf("marshal of a second sample: %v", err)
	}
	if !bytes.Equal(b, ref) {
		return fmt.Errorf("the bytes MarshalBinary returned for one sample changed when another sample was marshalled (offset %d)", firstDiff(b, ref))
	}
	ev.Trash(b)
	ev.Trash(b2)
	if again, err := s.MarshalBinary(); err != nil || !bytes.Equal(again, ref) {
		return fmt.Errorf("after the application overwrote the bytes of earlier results the sample marshals differently (offset %d, err %v)", firstDiff(again, ref), err)
	}
	return nil
}

// TestSampleBoundaries: the sizes at which the 3- and 4-byte length prefixes run out or roll into
// the next byte, one NAL unit each (deterministic, both tiers).
func TestSampleBoundaries(t *testing.T) {
	rec := ev.New(prop, "sample-length-boundaries", "one NAL unit of total size 2^16-1, 2^16, 2^16+1 (3- and 4-byte prefixes), 2^24-1 (largest for 3 bytes; 4 bytes), 2^24, 2^24+1 and 2^25+3 (4 bytes), alone and after a small unit; "+
		"oracle as in 'samples'; every case non-trivial")
	rec.Exhaustive()
	type bc struct {
		lsm  uint8
		size int
	}
	var cases []bc
	for _, sz := range []int{1<<16 - 1, 1 << 16, 1<<16 + 1, 1<<24 - 1} {
		cases = append(cases, bc{2, sz}, bc{3, sz})
	}
	for _, sz := range []int{1 << 24, 1<<24 + 1, 1<<25 + 3} {
		cases = append(cases, bc{3, sz})
	}
	for i, k := range cases {
		if i%ev.Shards() != ev.Shard() {
			continue
		}
		for _, lead := range []bool{false, true} {
			c := SCase{LSM: k.lsm}
			if lead {
				c.NALUs = append(c.NALUs, N{Hdr: 0x67, Len: 3, Fill: 5})
			}
			c.NALUs = append(c.NALUs, N{Hdr: 0x65, Len: k.size - 1, Fill: uint64(i + 1)})
			err := ev.Try(func() error { return checkSample(c) })
			rec.Case(true, ev.Hash(c), []string{fmt.Sprintf("lsm%d", k.lsm)}, func() any { return c })
			if err != nil {
				fail(t, "samples", c, err)
			}
		}
	}
}

var recSample = ev.New(prop, "samples",
	"rapid-generated length-prefixed samples for each NAL length size 1..4: 0-8 NAL units with sizes at the limits the prefix can express (255 for 1 byte; 65535, 65536+ for larger; up to 2^24+1 in the thorough tier for 4 bytes); "+
		"oracle: marshal == ISO layout, unmarshal into a fresh value equal, re-marshal identical; non-trivial = >=2 NAL units or a NAL at a prefix boundary").
	Require("multi", "boundary", "lsm0", "lsm1", "lsm2", "lsm3")

func TestSamples(t *testing.T) {
	ev.Rapid(t, "samples", 5000, 1500000, func(t *rapid.T) {
		c := SCase{LSM: uint8(rapid.IntRange(0, 3).Draw(t, "lsm"))}
		n := rapid.IntRange(0, 8).Draw(t, "n")
		boundary := false
		budget := 1 << 20
		for i := 0; i < n; i++ {
			u := N{Hdr: rapid.Uint8().Draw(t, "hdr"), Fill: rapid.Uint64().Draw(t, "fill")}
			var cands []int
			switch c.LSM {
			case 0:
				cands = []int{0, 1, 253, 254}
			case 1:
				cands = []int{0, 254, 255, 65533, 65534}
			case 2:
				cands = []int{0, 254, 255, 65534, 65535, 65536}
			default:
				cands = []int{0, 254, 255, 65534, 65535, 65536}
			}
			if rapid.Bool().Draw(t, "lenk") {
				u.Len = rapid.SampledFrom(cands).Draw(t, "lenc")
				boundary = boundary || u.Len >= 253
			} else {
				u.Len = rapid.IntRange(0, 200).Draw(t, "lenu")
			}
			// rare (about 1 in 6000 units; decided by a hash of drawn values because rapid's integer
			// generators favour small values, which would make "== 0" a frequent event)
			if c.LSM >= 2 && ev.Thorough() && ev.Hash([]uint64{u.Fill, uint64(u.Hdr), uint64(i), uint64(n)})%6000 == 0 {
				u.Len = 1 << 24
				if c.LSM == 2 {
					u.Len = 1<<24 - 2
				}
			} else if u.Len > budget {
				u.Len = 10
			}
			budget -= u.Len
			c.NALUs = append(c.NALUs, u)
		}
		err := ev.Try(func() error { return checkSample(c) })
		cl := []string{fmt.Sprintf("lsm%d", c.LSM)}
		if n >= 2 {
			cl = append(cl, "multi")
		}
		if boundary {
			cl = append(cl, "boundary")
		}
		recSample.Case(n >= 2 || boundary, ev.Hash(c), cl, func() any { return c })
		if err != nil {
			fail(t, "samples", c, err)
		}
	})
}

func replayers() map[string]ev.Replayer {
	return map[string]ev.Replayer{
		"nalu": func(raw json.RawMessage) error {
			var n N
			if err := json.Unmarshal(raw, &n); err != nil {
				return err
			}
			return checkNALU(n)
		},
		"side-by-side": func(raw json.RawMessage) error {
			var c RCase
			if err := json.Unmarshal(raw, &c); err != nil {
				return err
			}
			return checkRecord(c)
		},
		"records": func(raw json.RawMessage) error {
			var c RCase
			if err := json.Unmarshal(raw, &c); err != nil {
				return err
			}
			return checkRecord(c)
		},
		"samples": func(raw json.RawMessage) error {
			var c SCase
			if err := json.Unmarshal(raw, &c); err != nil {
				return err
			}
			return checkSample(c)
		},
	}
}

func TestRegress(t *testing.T) { ev.Regress(t, prop, replayers()) }
func TestReplay(t *testing.T) {
	if os.Getenv("VERIF_REPLAY") == "" {
		t.Skip("no VERIF_REPLAY")
	}
	ev.Replay(t, prop, replayers())
}
