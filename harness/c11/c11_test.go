// C11: ADTS framing and AudioSpecificConfig round-trip and match the ISO layout.
package c11

import (
	"bytes"
	"encoding/json"
	"fmt"
	"os"
	"testing"

	"github.com/ossrs/go-oryx-lib/aac"
	"pgregory.net/rapid"
	"verif/harness/internal/ev"
	"verif/harness/internal/ref/adtsref"
	"verif/harness/internal/rtmpx"
)

const prop = "C11"

func TestMain(m *testing.M) { ev.Main(m) }

type fataler interface{ Fatalf(string, ...any) }

func fail(t fataler, check string, c any, err error) {
	p := ev.Fail(prop, check, c, err)
	t.Fatalf("%v (replay %s)", err, p)
}

func accepted(object, sfi, ch uint8) bool {
	okObj := object == 1 || object == 2 || object == 3 || object == 5 || object == 29
	return okObj && sfi >= 1 && sfi <= 12 && ch >= 1 && ch <= 7
}

func profileOf(object uint8) uint8 {
	switch object {
	case 1:
		return 0
	case 3:
		return 2
	}
	return 1 // LC, HE, HEv2
}

// ---------------------------------------------------------------- ASC: all 65536 configs

type ASCCase struct {
	B0 uint8 `json:"b0"`
	B1 uint8 `json:"b1"`
}

func checkASC(c ASCCase) error {
	obj, sfi, ch := adtsref.ASCFields(c.B0, c.B1)
	var a aac.AudioSpecificConfig
	err := a.UnmarshalBinary([]byte{c.B0, c.B1})
	if !accepted(obj, sfi, ch) {
		if err == nil {
			return fmt.Errorf("config %02x%02x (object %d, index %d, channels %d) must be rejected, got %+v", c.B0, c.B1, obj, sfi, ch, a)
		}
		return nil
	}
	if err != nil {
		return fmt.Errorf("config %02x%02x (object %d, index %d, channels %d) rejected: %v", c.B0, c.B1, obj, sfi, ch, err)
	}
	if uint8(a.Object) != obj || uint8(a.SampleRate) != sfi || uint8(a.Channels) != ch {
		return fmt.Errorf("config %02x%02x decodes to %+v, bits say object %d index %d channels %d", c.B0, c.B1, a, obj, sfi, ch)
	}
	b, err := a.MarshalBinary()
	if err != nil {
		return fmt.Errorf("marshal: %v", err)
	}
	if want := []byte{c.B0, c.B1 & 0xf8}; !bytes.Equal(b, want) {
		return fmt.Errorf("config %02x%02x re-marshals to %x, want %x", c.B0, c.B1, b, want)
	}
	if hz := a.SampleRate.ToHz(); hz != adtsref.Hz[sfi] {
		return fmt.Errorf("sampling index %d converts to %d Hz, ISO table: %d", sfi, hz, adtsref.Hz[sfi])
	}
	// the ADTS helper accepts the same set
	ad, _ := aac.NewADTS()
	if err := ad.SetASC([]byte{c.B0, c.B1}); err != nil {
		return fmt.Errorf("SetASC rejects an accepted config: %v", err)
	}
	return nil
}

func TestASCAll(t *testing.T) {
	rec := ev.New(prop, "asc-all", "all 65536 two-byte AudioSpecificConfigs: accepted iff object in {1,2,3,5,29}, index 1..12, channels 1..7 (independent bit extraction); "+
		"marshal(unmarshal(b)) == b&0xFFF8; ToHz == ISO table; non-trivial = accepted configs")
	rec.Exhaustive()
	for v := 0; v < 65536; v++ {
		c := ASCCase{uint8(v >> 8), uint8(v)}
		err := ev.Try(func() error { return checkASC(c) })
		obj, sfi, ch := adtsref.ASCFields(c.B0, c.B1)
		rec.Case(accepted(obj, sfi, ch), ev.Hash(c), nil, func() any { return c })
		if err != nil {
			fail(t, "asc", c, err)
		}
	}
	for i, hz := range adtsref.Hz {
		if got := aac.SampleRateIndex(i).ToHz(); got != hz {
			fail(t, "asc", ASCCase{uint8(i >> 1), uint8(i<<7) | 8}, fmt.Errorf("sampling index %d converts to %d Hz, ISO table: %d", i, got, hz))
		}
	}
}

// ---------------------------------------------------------------- ADTS

// FCase is a concatenation of frames: library-encoded (Lib) or written by the reference writer.
type Frame struct {
	Lib     bool   `json:"lib"`
	Object  uint8  `json:"object"` // for Lib frames: the ASC object type
	Profile uint8  `json:"profile"`
	SFI     uint8  `json:"sfi"`
	Ch      uint8  `json:"ch"`
	ID      uint8  `json:"id"`
	PA      uint8  `json:"pa"`
	CRC     uint16 `json:"crc,omitempty"`
	Len     int    `json:"len"`
	Fill    uint64 `json:"fill"`
	Sync    bool   `json:"sync,omitempty"`    // payload starts with bytes that look like a sync word
	Wrapped bool   `json:"wrapped,omitempty"` // the raw block is itself one complete, well-formed ADTS frame of exactly Len bytes (Len >= 8)
	Bad     uint8  `json:"bad,omitempty"`     // object machine, decode: the frame carries this invalid sampling index (13..15) / 16 = channel configuration 0, and must be rejected
}

type FCase struct {
	Frames []Frame `json:"frames"`
}

func (f Frame) raw() []byte {
	if f.Wrapped && f.Len >= 8 {
		return adtsref.Write(adtsref.Header{ID: uint8(f.Fill & 1), ProtectionAbsent: 1, Profile: uint8(f.Fill>>1) % 3, SFI: 1 + uint8(f.Fill>>3)%12, Channels: 1 + uint8(f.Fill>>8)%7}, rtmpx.Fill(f.Len-7, f.Fill))
	}
	b := rtmpx.Fill(f.Len, f.Fill)
	if f.Sync && len(b) >= 2 {
		b[0], b[1] = 0xff, 0xf1
		if len(b) >= 9 {
			b[len(b)-2], b[len(b)-1] = 0xff, 0xf9
		}
	}
	return b
}

func runFrames(c FCase) error {
	var wire []byte
	var raws [][]byte
	var offs []int
	for i, f := range c.Frames {
		raw := f.raw()
		var fb []byte
		if f.Lib {
			ad, _ := aac.NewADTS()
			asc := []byte{f.Object<<3 | f.SFI>>1, f.SFI<<7 | f.Ch<<3}
			if err := ad.SetASC(asc); err != nil {
				return fmt.Errorf("frame %d: SetASC(%x): %v", i, asc, err)
			}
			var err error
			if fb, err = ad.Encode(raw); err != nil {
				return fmt.Errorf("frame %d: Encode: %v", i, err)
			}
			h, p, rest, err := adtsref.Parse(fb)
			if err != nil {
				return fmt.Errorf("frame %d: ISO parser rejects the encoder output %x: %v", i, head(fb), err)
			}
			if h.Blocks != 0 {
				return fmt.Errorf("frame %d: the encoder's header announces %d raw data blocks in the frame, it holds one (number_of_raw_data_blocks_in_frame must be 0)", i, h.Blocks+1)
			}
			if h.Profile != profileOf(f.Object) || h.SFI != f.SFI || h.Channels != f.Ch || h.FrameLength != 7+len(raw) || h.ProtectionAbsent != 1 {
				return fmt.Errorf("frame %d: ISO parser reads profile %d index %d channels %d length %d protection_absent %d, want %d %d %d %d 1", i,
					h.Profile, h.SFI, h.Channels, h.FrameLength, h.ProtectionAbsent, profileOf(f.Object), f.SFI, f.Ch, 7+len(raw))
			}
			if !bytes.Equal(p, raw) || len(rest) != 0 {
				return fmt.Errorf("frame %d: ISO parser recovers %d payload bytes and %d trailing, want %d and 0", i, len(p), len(rest), len(raw))
			}
		} else {
			fb = adtsref.Write(adtsref.Header{ID: f.ID, ProtectionAbsent: f.PA, Profile: f.Profile, SFI: f.SFI, Channels: f.Ch, CRC: f.CRC}, raw)
		}
		offs = append(offs, len(wire))
		wire = append(wire, fb...)
		raws = append(raws, raw)
	}
	// decode one frame at a time
	ad, _ := aac.NewADTS()
	left := wire
	for i := range c.Frames {
		raw, l, err := ad.Decode(left)
		if err != nil {
			return fmt.Errorf("frame %d of %d (%+v): Decode: %v", i, len(c.Frames), c.Frames[i], err)
		}
		if !bytes.Equal(raw, raws[i]) {
			return fmt.Errorf("frame %d of %d (%+v): decoded %d raw bytes %x.., want %d bytes %x..", i, len(c.Frames), c.Frames[i], len(raw), head(raw), len(raws[i]), head(raws[i]))
		}
		wantLeft := wire[len(wire):]
		if i+1 < len(c.Frames) {
			wantLeft = wire[offs[i+1]:]
		}
		if len(l) != len(wantLeft) {
			return fmt.Errorf("frame %d of %d: %d bytes left, want %d", i, len(c.Frames), len(l), len(wantLeft))
		}
		if len(l) > 0 && (l[0] != 0xff || l[1]&0xf0 != 0xf0) {
			return fmt.Errorf("frame %d: remainder does not start with a sync word: %x", i, head(l))
		}
		f := c.Frames[i]
		asc := ad.ASC()
		wantProfile := f.Profile
		if f.Lib {
			wantProfile = profileOf(f.Object)
		}
		if uint8(asc.Object.ToProfile()) != wantProfile || uint8(asc.SampleRate) != f.SFI || uint8(asc.Channels) != f.Ch {
			return fmt.Errorf("frame %d: ASC after decode %+v, frame has profile %d index %d channels %d", i, *asc, wantProfile, f.SFI, f.Ch)
		}
		left = l
	}
	return nil
}

func head(b []byte) []byte {
	if len(b) > 12 {
		return b[:12]
	}
	return b
}

var lenClasses = []int{1, 2, 7, 8, 255, 256, 2047, 2048, 8182, 8183, 8184}

// TestHeaderFieldsExhaustive: profile x index x channels x id x protection, each at several lengths.
func TestHeaderFieldsExhaustive(t *testing.T) {
	rec := ev.New(prop, "adts-header-fields", "all accepted header combinations: profile{0,1,2} x index 1..12 x channels 1..7 x id{0,1} x protection_absent{0,1} x raw length {1,8,256,8184-2*crc}, written by the independent ISO writer, "+
		"each decoded alone and followed by a second frame; plus every accepted config x object type through the library encoder; every case non-trivial")
	rec.Exhaustive()
	for prof := uint8(0); prof < 3; prof++ {
		for sfi := uint8(1); sfi <= 12; sfi++ {
			for ch := uint8(1); ch <= 7; ch++ {
				for id := uint8(0); id < 2; id++ {
					for pa := uint8(0); pa < 2; pa++ {
						for _, n := range []int{1, 8, 256, 8184 - 2*int(1-pa)} {
							f := Frame{Profile: prof, SFI: sfi, Ch: ch, ID: id, PA: pa, CRC: 0xBEEF, Len: n, Fill: uint64(n) + uint64(sfi)}
							c := FCase{Frames: []Frame{f, {Profile: 1, SFI: 4, Ch: 2, ID: 0, PA: 1, Len: 5, Fill: 3}}}
							err := ev.Try(func() error { return runFrames(c) })
							rec.Case(true, ev.Hash(c), nil, func() any { return c })
							if err != nil {
								fail(t, "adts", c, err)
							}
						}
					}
				}
			}
		}
	}
	for _, obj := range []uint8{1, 2, 3, 5, 29} {
		for sfi := uint8(1); sfi <= 12; sfi++ {
			for ch := uint8(1); ch <= 7; ch++ {
				for _, n := range lenClasses {
					c := FCase{Frames: []Frame{{Lib: true, Object: obj, SFI: sfi, Ch: ch, Len: n, Fill: uint64(n)}}}
					err := ev.Try(func() error { return runFrames(c) })
					rec.Case(true, ev.Hash(c), nil, func() any { return c })
					if err != nil {
						fail(t, "adts", c, err)
					}
				}
			}
		}
	}
}

var recStream = ev.New(prop, "adts-streams",
	"rapid-generated concatenations of 1-6 frames, each either encoded by the library (object type, index, channels drawn from the accepted set) or written by the independent ISO 13818-7 writer "+
		"(MPEG-2/4 id, with/without CRC), raw lengths at {1,2,7,8,255,256,2047,2048,8183,8184} or uniform, payloads optionally containing 0xFFF sync patterns; decoded one frame at a time; "+
		"non-trivial = >=2 frames or a CRC frame or a boundary length").
	Require("multi", "crc", "lib", "ref", "sync-in-payload", "max-length", "payload-is-an-adts-frame")

func TestStreams(t *testing.T) {
	ev.Rapid(t, "adts-streams", 6000, 8000000, func(t *rapid.T) {
		var c FCase
		n := rapid.IntRange(1, 6).Draw(t, "n")
		var cl []string
		for i := 0; i < n; i++ {
			f := Frame{Lib: rapid.Bool().Draw(t, "lib"), SFI: uint8(rapid.IntRange(1, 12).Draw(t, "sfi")), Ch: uint8(rapid.IntRange(1, 7).Draw(t, "ch")),
				Fill: rapid.Uint64().Draw(t, "fill"), Sync: rapid.IntRange(0, 3).Draw(t, "sync") == 0}
			if f.Lib {
				f.Object = rapid.SampledFrom([]uint8{1, 2, 3, 5, 29}).Draw(t, "obj")
				f.PA = 1
				cl = append(cl, "lib")
			} else {
				f.Profile = uint8(rapid.IntRange(0, 2).Draw(t, "prof"))
				f.ID = uint8(rapid.IntRange(0, 1).Draw(t, "id"))
				f.PA = uint8(rapid.IntRange(0, 1).Draw(t, "pa"))
				f.CRC = rapid.Uint16().Draw(t, "crc")
				cl = append(cl, "ref")
				if f.PA == 0 {
					cl = append(cl, "crc")
				}
			}
			if rapid.Bool().Draw(t, "lenk") {
				f.Len = rapid.SampledFrom(lenClasses).Draw(t, "lenc")
			} else {
				f.Len = rapid.IntRange(1, 8184).Draw(t, "lenu")
			}
			if f.PA == 0 && f.Len > 8182 {
				f.Len = 8182
			}
			if f.Len >= 8182 {
				cl = append(cl, "max-length")
			}
			if f.Sync {
				cl = append(cl, "sync-in-payload")
			}
			if f.Len >= 8 && rapid.IntRange(0, 7).Draw(t, "wrapped") == 0 {
				f.Wrapped, f.Sync = true, false
				cl = append(cl, "payload-is-an-adts-frame")
			}
			c.Frames = append(c.Frames, f)
		}
		if n > 1 {
			cl = append(cl, "multi")
		}
		err := ev.Try(func() error { return runFrames(c) })
		recStream.Case(len(cl) > 1, ev.Hash(c), cl, func() any { return c })
		if err != nil {
			fail(t, "adts", c, err)
		}
	})
}

// ---------------------------------------------------------------- one ADTS object, many calls

// OCase: a sequence of calls on ONE ADTS object (as a transmuxer keeps it for a stream):
// set = SetASC with the frame's configuration, encode = Encode(raw), decode = Decode of a frame
// the independent writer produced for the frame's configuration, asc = read ASC().
type OStep struct {
	Op string `json:"op"`
	F  Frame  `json:"f"`
}

type OCase struct {
	Steps []OStep `json:"steps"`
}

func objOfProfile(p uint8) uint8 { return p + 1 } // ISO 14496-3: Main=1, LC=2, SSR=3

func runObject(c OCase) error {
	ad, _ := aac.NewADTS()
	type cfg struct{ object, sfi, ch uint8 }
	var cur *cfg
	type keptFrame struct {
		step int
		got  []byte
		snap []byte
		raw  []byte
	}
	var kept []keptFrame
	// raw blocks are windows into one buffer of the application
	var arena []byte
	for _, s := range c.Steps {
		if s.Op == "encode" {
			arena = append(arena, s.F.raw()...)
		}
	}
	arena = append(arena, "guard"...)
	pristine := append([]byte(nil), arena...)
	off := 0
	checkASC := func(i int, after string) error {
		asc := ad.ASC()
		if uint8(asc.Object) != cur.object || uint8(asc.SampleRate) != cur.sfi || uint8(asc.Channels) != cur.ch {
			return fmt.Errorf("step %d: ASC() after %s reports %+v, the object's configuration is object %d index %d channels %d", i, after, *asc, cur.object, cur.sfi, cur.ch)
		}
		return nil
	}
	for i, s := range c.Steps {
		f := s.F
		switch s.Op {
		case "set":
			asc := []byte{f.Object<<3 | f.SFI>>1, f.SFI<<7 | f.Ch<<3}
			if err := ad.SetASC(asc); err != nil {
				return fmt.Errorf("step %d: SetASC(%x): %v", i, asc, err)
			}
			cur = &cfg{f.Object, f.SFI, f.Ch}
			if err := checkASC(i, "SetASC"); err != nil {
				return err
			}
		case "set-ptr":
			// the application writes a configuration through the pointer ASC() hands out. Whether that pointer is a live view
			// of the object's configuration is not promised; what is: whatever ASC() reports afterwards is what Encode writes
			if s.F.Fill%2 == 0 {
				ad.ASC().UnmarshalBinary([]byte{f.Object<<3 | f.SFI>>1, f.SFI<<7 | f.Ch<<3})
			} else {
				*ad.ASC() = aac.AudioSpecificConfig{Object: aac.ObjectType(f.Object), SampleRate: aac.SampleRateIndex(f.SFI), Channels: aac.Channels(f.Ch)}
			}
			r := *ad.ASC()
			cur = nil
			if o := uint8(r.Object); (o == 1 || o == 2 || o == 3 || o == 5 || o == 29) && r.SampleRate <= 12 && r.Channels >= 1 && r.Channels <= 7 {
				cur = &cfg{o, uint8(r.SampleRate), uint8(r.Channels)}
			}
		case "encode":
			if cur == nil {
				continue
			}
			raw := arena[off : off+f.Len]
			off += f.Len
			fb, err := ad.Encode(raw)
			if err != nil {
				return fmt.Errorf("step %d: Encode: %v", i, err)
			}
			h, p, rest, err := adtsref.Parse(fb)
			if err != nil {
				return fmt.Errorf("step %d: ISO parser rejects the encoder output %x: %v", i, head(fb), err)
			}
			if h.Profile != profileOf(cur.object) || h.SFI != cur.sfi || h.Channels != cur.ch || h.FrameLength != 7+len(raw) || h.Blocks != 0 {
				return fmt.Errorf("step %d: Encode on an object configured with object %d index %d channels %d wrote profile %d index %d channels %d length %d (raw %d bytes)", i,
					cur.object, cur.sfi, cur.ch, h.Profile, h.SFI, h.Channels, h.FrameLength, len(raw))
			}
			if !bytes.Equal(p, raw) || len(rest) != 0 {
				return fmt.Errorf("step %d: ISO parser recovers %d payload bytes and %d trailing, want %d and 0", i, len(p), len(rest), len(raw))
			}
			kept = append(kept, keptFrame{i, fb, append([]byte(nil), fb...), append([]byte(nil), raw...)})
		case "decode-bad":
			// a frame the library does not accept (sampling index 13..15 or channel configuration 0): it is rejected,
			// and whatever the object holds afterwards, the NEXT accepted call decides its configuration
			h := adtsref.Header{ID: f.ID, ProtectionAbsent: f.PA, Profile: f.Profile, SFI: f.SFI, Channels: f.Ch, CRC: f.CRC}
			if f.Bad == 16 {
				h.Channels = 0
			} else {
				h.SFI = 13 + f.Bad%3
			}
			if _, _, err := ad.Decode(adtsref.Write(h, f.raw())); err == nil {
				return fmt.Errorf("step %d: Decode accepts a frame with sampling index %d channels %d", i, h.SFI, h.Channels)
			}
			cur = nil
		case "decode":
			fb := adtsref.Write(adtsref.Header{ID: f.ID, ProtectionAbsent: f.PA, Profile: f.Profile, SFI: f.SFI, Channels: f.Ch, CRC: f.CRC}, f.raw())
			raw, left, err := ad.Decode(fb)
			if err != nil {
				return fmt.Errorf("step %d: Decode: %v", i, err)
			}
			if !bytes.Equal(raw, f.raw()) || len(left) != 0 {
				return fmt.Errorf("step %d: decoded %d raw bytes and %d left, want %d and 0", i, len(raw), len(left), f.Len)
			}
			cur = &cfg{objOfProfile(f.Profile), f.SFI, f.Ch}
			if err := checkASC(i, "Decode"); err != nil {
				return err
			}
		case "asc":
			if cur == nil {
				continue
			}
			if err := checkASC(i, "earlier calls"); err != nil {
				return err
			}
		}
	}
	for _, k := range kept {
		if !bytes.Equal(k.got, k.snap) {
			return fmt.Errorf("the frame returned by Encode at step %d (%d raw bytes) changed during later calls: %x, was %x", k.step, len(k.raw), head(k.got), head(k.snap))
		}
	}
	if !bytes.Equal(arena, pristine) {
		return fmt.Errorf("Encode changed the application's buffer around the raw block it was given")
	}
	// the frames belong to the application: it overwrites them (spare capacity included); the object encodes as before
	for _, k := range kept {
		ev.Trash(k.got)
	}
	if cur != nil {
		raw := []byte{0x21, 0x10, 0x04}
		fb, err := ad.Encode(raw)
		if err != nil {
			return fmt.Errorf("Encode after the application overwrote the frames returned earlier: %v", err)
		}
		h, p, rest, err := adtsref.Parse(fb)
		if err != nil || h.Profile != profileOf(cur.object) || h.SFI != cur.sfi || h.Channels != cur.ch || h.FrameLength != 7+len(raw) || !bytes.Equal(p, raw) || len(rest) != 0 {
			return fmt.Errorf("after the application overwrote the frames returned earlier, Encode writes %x (ISO parser: %+v, err %v), the object is configured with object %d index %d channels %d", head(fb), h, err, cur.object, cur.sfi, cur.ch)
		}
	}
	return nil
}

var recObject = ev.New(prop, "adts-object-machine",
	"rapid-generated sequences of 2-12 calls on ONE ADTS object: SetASC (accepted configurations, repeats included), Encode (raw blocks cut from one application buffer; short blocks favoured), "+
		"Decode of frames by the independent ISO writer with other configurations, ASC(), a configuration written through the pointer ASC() returns (the model then follows what ASC() reports next); model = the configuration last set or decoded; oracle: every encoded header and every ASC() report follows the model, "+
		"frames returned earlier and the application buffer stay unchanged; non-trivial = a Decode between a SetASC and a later SetASC/Encode, or >=2 Encodes").
	Require("set-after-decode", "encode-after-decode", "two-encodes", "repeated-set", "encode-after-write-through-asc-pointer")

// TestSideBySide: independent ADTS objects used on several goroutines at once.
func TestSideBySide(t *testing.T) {
	ev.Parallel(t, prop, "side-by-side", 6, 400, 120, genOCase, runObject)
}

func genOCase(t *rapid.T) OCase {
	{
		var c OCase
		n := rapid.IntRange(2, 12).Draw(t, "n")
		cfgs := make([]Frame, rapid.IntRange(1, 3).Draw(t, "ncfg")) // few configurations, so repeats happen
		for i := range cfgs {
			cfgs[i] = Frame{Object: rapid.SampledFrom([]uint8{1, 2, 3, 5, 29}).Draw(t, "obj"), SFI: uint8(rapid.IntRange(1, 12).Draw(t, "sfi")), Ch: uint8(rapid.IntRange(1, 7).Draw(t, "ch"))}
			cfgs[i].Profile = profileOf(cfgs[i].Object)
		}
		for i := 0; i < n; i++ {
			op := rapid.SampledFrom([]string{"set", "encode", "encode", "decode", "decode", "asc", "decode-bad", "set-ptr"}).Draw(t, "op")
			if i == 0 {
				op = "set"
			}
			f := rapid.SampledFrom(cfgs).Draw(t, "cfg")
			f.Fill = rapid.Uint64().Draw(t, "fill")
			f.Len = rapid.SampledFrom([]int{1, 2, 1, 2, 3, 8, 300, 8184}).Draw(t, "len")
			if op == "encode" && rapid.IntRange(0, 5).Draw(t, "owrapped") == 0 {
				f.Len, f.Wrapped = rapid.SampledFrom([]int{8, 9, 40, 300}).Draw(t, "wlen"), true
			}
			if op == "decode-bad" {
				f.Bad = rapid.SampledFrom([]uint8{13, 14, 15, 16}).Draw(t, "bad")
			}
			if op == "decode" || op == "decode-bad" {
				f.ID = uint8(rapid.IntRange(0, 1).Draw(t, "id"))
				f.PA = uint8(rapid.IntRange(0, 1).Draw(t, "pa"))
				f.CRC = rapid.Uint16().Draw(t, "crc")
				if f.PA == 0 && f.Len > 8182 {
					f.Len = 8182
				}
			}
			c.Steps = append(c.Steps, OStep{op, f})
		}
		return c
	}
}

func TestObjectMachine(t *testing.T) {
	ev.Rapid(t, "adts-object-machine", 6000, 4000000, func(t *rapid.T) {
		c := genOCase(t)
		var cl []string
		seenDecode, encodes, seenPtr := false, 0, false
		var lastSet *Frame
		for i := range c.Steps {
			s := c.Steps[i]
			switch s.Op {
			case "set-ptr":
				seenPtr = true
			case "decode":
				seenDecode = true
			case "set":
				if seenDecode {
					cl = append(cl, "set-after-decode")
				}
				if lastSet != nil && lastSet.Object == s.F.Object && lastSet.SFI == s.F.SFI && lastSet.Ch == s.F.Ch {
					cl = append(cl, "repeated-set")
				}
				lastSet = &c.Steps[i].F
			case "encode":
				encodes++
				if seenPtr {
					cl = append(cl, "encode-after-write-through-asc-pointer")
				}
				if seenDecode {
					cl = append(cl, "encode-after-decode")
				}
			}
		}
		if encodes >= 2 {
			cl = append(cl, "two-encodes")
		}
		err := ev.Try(func() error { return runObject(c) })
		recObject.Case(len(cl) > 0, ev.Hash(c), cl, func() any { return c })
		if err != nil {
			fail(t, "adts-object-machine", c, err)
		}
	})
}

func replayers() map[string]ev.Replayer {
	return map[string]ev.Replayer{
		"asc": func(raw json.RawMessage) error {
			var c ASCCase
			if err := json.Unmarshal(raw, &c); err != nil {
				return err
			}
			return checkASC(c)
		},
		"side-by-side": func(raw json.RawMessage) error {
			var c OCase
			if err := json.Unmarshal(raw, &c); err != nil {
				return err
			}
			return runObject(c)
		},
		"adts-object-machine": func(raw json.RawMessage) error {
			var c OCase
			if err := json.Unmarshal(raw, &c); err != nil {
				return err
			}
			return runObject(c)
		},
		"adts": func(raw json.RawMessage) error {
			var c FCase
			if err := json.Unmarshal(raw, &c); err != nil {
				return err
			}
			return runFrames(c)
		},
	}
}

func TestRegress(t *testing.T) { ev.Regress(t, prop, replayers()) }
func TestReplay(t *testing.T) {
	if os.Getenv("VERIF_REPLAY") == "" {
		t.Skip("no VERIF_REPLAY")
	}
	ev.Replay(t, prop, replayers())
}
