// C10: FLV audio/video tag bodies round-trip through the packagers; the first byte carries the
// frame's codec id / frame type; canonical bodies re-encode to themselves; rate codes convert
// to the defined frequencies.
package c10

import (
	"bytes"
	"encoding/binary"
	"encoding/json"
	"fmt"
	"os"
	"testing"

	"github.com/ossrs/go-oryx-lib/flv"
	"pgregory.net/rapid"
	"verif/harness/internal/ev"
	"verif/harness/internal/ref/adtsref"
	"verif/harness/internal/rtmpx"
)

const prop = "C10"

func TestMain(m *testing.M) { ev.Main(m) }

type AF struct {
	Format uint8  `json:"format"`
	Rate   uint8  `json:"rate"`
	Size   uint8  `json:"size"`
	Type   uint8  `json:"type"`
	Trait  uint8  `json:"trait"`
	Level  uint16 `json:"level"`
	Raw    ev.Hex `json:"raw"`
}

func (a AF) frame() *flv.AudioFrame {
	return &flv.AudioFrame{SoundFormat: flv.AudioCodec(a.Format), SoundRate: flv.AudioSamplingRate(a.Rate), SoundSize: flv.AudioSampleBits(a.Size),
		SoundType: flv.AudioChannels(a.Type), Trait: flv.AudioFrameTrait(a.Trait), AudioLevel: a.Level, Raw: a.Raw}
}

// refAudioBody is the FLV E.4.2 layout (plus the library's documented Opus extension), written independently.
func refAudioBody(a AF) []byte {
	switch a.Format {
	case 10:
		b := []byte{a.Format<<4 | a.Rate<<2 | a.Size<<1 | a.Type, a.Trait}
		return append(b, a.Raw...)
	case 13:
		b := []byte{a.Format<<4 | a.Size<<1 | a.Type, a.Trait}
		if a.Trait&4 != 0 {
			b = append(b, a.Rate)
		}
		if a.Trait&8 != 0 {
			b = append(b, byte(a.Level>>8), byte(a.Level))
		}
		return append(b, a.Raw...)
	}
	return append([]byte{a.Format<<4 | a.Rate<<2 | a.Size<<1 | a.Type}, a.Raw...)
}

func checkAudio(a AF) error {
	p, _ := flv.NewAudioPackager()
	b, err := p.Encode(a.frame())
	if err != nil {
		return fmt.Errorf("encode: %v", err)
	}
	if len(b) < 1 || b[0]>>4 != a.Format {
		return fmt.Errorf("first byte %02x carries sound format %d, the frame's is %d", b[0], b[0]>>4, a.Format)
	}
	// the statement fixes the first byte; the rest of the body only has to carry the payload at its end
	// (the Opus trait/rate/level extension is the library's own and is judged by the round trip)
	if w := refAudioBody(a); b[0] != w[0] || !bytes.HasSuffix(b, a.Raw) {
		return fmt.Errorf("tag body %x: first byte must be %02x and the body must end with the %d payload bytes", head(b), w[0], len(a.Raw))
	}
	f, err := p.Decode(b)
	if err != nil {
		return fmt.Errorf("decode of own encoding %x: %v", head(b), err)
	}
	if uint8(f.SoundFormat) != a.Format || uint8(f.SoundRate) != a.Rate || uint8(f.SoundSize) != a.Size || uint8(f.SoundType) != a.Type ||
		uint8(f.Trait) != a.Trait || f.AudioLevel != a.Level || !bytes.Equal(f.Raw, a.Raw) {
		return fmt.Errorf("decoded frame {fmt %d rate %d size %d type %d trait %d level %d raw %d bytes} differs from the frame encoded %+v", f.SoundFormat, f.SoundRate, f.SoundSize, f.SoundType, f.Trait, f.AudioLevel, len(f.Raw), a)
	}
	// the tag body belongs to the application: once it has overwritten it (spare capacity included) the same frame encodes as before
	keep := append([]byte(nil), b...)
	ev.Trash(b)
	if again, err := p.Encode(a.frame()); err != nil || !bytes.Equal(again, keep) {
		return fmt.Errorf("after the application overwrote the first tag body the same frame encodes to %x (err %v), before to %x", head(again), err, head(keep))
	}
	return nil
}

func head(b []byte) []byte {
	if len(b) > 16 {
		return b[:16]
	}
	return b
}

func checkAudioCanonical(b []byte) error {
	p, _ := flv.NewAudioPackager()
	f, err := p.Decode(b)
	if err != nil {
		return fmt.Errorf("decoder rejects canonical body %x: %v", head(b), err)
	}
	if b[0]>>4 != uint8(f.SoundFormat) {
		return fmt.Errorf("decoded sound format %d, first byte says %d", f.SoundFormat, b[0]>>4)
	}
	b2, err := p.Encode(f)
	if err != nil {
		return err
	}
	if !bytes.Equal(b, b2) {
		return fmt.Errorf("canonical body %x re-encodes to %x", head(b), head(b2))
	}
	return nil
}

type VF struct {
	Codec uint8  `json:"codec"`
	FType uint8  `json:"ftype"`
	Trait uint8  `json:"trait"`
	CTS   int32  `json:"cts"`
	Raw   ev.Hex `json:"raw"`
}

func checkVideo(v VF) error {
	p, _ := flv.NewVideoPackager()
	fr := flv.NewVideoFrame()
	fr.CodecID, fr.FrameType, fr.Trait, fr.CTS, fr.Raw = flv.VideoCodec(v.Codec), flv.VideoFrameType(v.FType), flv.VideoFrameTrait(v.Trait), v.CTS, v.Raw
	b, err := p.Encode(fr)
	if err != nil {
		return fmt.Errorf("encode: %v", err)
	}
	if len(b) < 1 || b[0]>>4 != v.FType || b[0]&0xf != v.Codec {
		return fmt.Errorf("first byte %02x carries frame type %d codec %d, the frame has %d/%d", b[0], b[0]>>4, b[0]&0xf, v.FType, v.Codec)
	}
	w := []byte{v.FType<<4 | v.Codec}
	if v.Codec == 7 || v.Codec == 12 {
		w = append(w, v.Trait, byte(v.CTS>>16), byte(v.CTS>>8), byte(v.CTS))
	}
	w = append(w, v.Raw...)
	if b[0] != w[0] || !bytes.HasSuffix(b, v.Raw) {
		return fmt.Errorf("tag body %x: first byte must be %02x and the body must end with the %d payload bytes", head(b), w[0], len(v.Raw))
	}
	f, err := p.Decode(b)
	if err != nil {
		return fmt.Errorf("decode of own encoding: %v", err)
	}
	if uint8(f.CodecID) != v.Codec || uint8(f.FrameType) != v.FType || uint8(f.Trait) != v.Trait || f.CTS != v.CTS || !bytes.Equal(f.Raw, v.Raw) {
		return fmt.Errorf("decoded frame {codec %d type %d trait %d cts %d raw %d bytes} differs from %+v", f.CodecID, f.FrameType, f.Trait, f.CTS, len(f.Raw), v)
	}
	b2, err := p.Encode(f)
	if err != nil || !bytes.Equal(b, b2) {
		return fmt.Errorf("re-encode of the decoded frame differs (err %v)", err)
	}
	keep := append([]byte(nil), b...)
	ev.Trash(b)
	ev.Trash(b2)
	if again, err := p.Encode(fr); err != nil || !bytes.Equal(again, keep) {
		return fmt.Errorf("after the application overwrote the earlier tag bodies the same frame encodes to %x (err %v), before to %x", head(again), err, head(keep))
	}
	return nil
}

func checkVideoCanonical(b []byte) error {
	p, _ := flv.NewVideoPackager()
	f, err := p.Decode(b)
	if err != nil {
		return fmt.Errorf("decoder rejects canonical body %x: %v", head(b), err)
	}
	if b[0]>>4 != uint8(f.FrameType) || b[0]&0xf != uint8(f.CodecID) {
		return fmt.Errorf("decoded frame type/codec %d/%d, first byte %02x", f.FrameType, f.CodecID, b[0])
	}
	b2, err := p.Encode(f)
	if err != nil || !bytes.Equal(b, b2) {
		return fmt.Errorf("canonical body %x re-encodes to %x (err %v)", head(b), head(b2), err)
	}
	return nil
}

var opusRates = []uint8{8, 12, 16, 24, 48}

type fataler interface{ Fatalf(string, ...any) }

func fail(t fataler, check string, c any, err error) {
	p := ev.Fail(prop, check, c, err)
	t.Fatalf("%v (replay %s)", err, p)
}

// TestAudioExhaustive: first byte exhaustively x trait byte / Opus flag subsets / defined rates / level boundaries.
func TestAudioExhaustive(t *testing.T) {
	rec := ev.New(prop, "audio-exhaustive", "all 256 first bytes (16 formats x 4 rates x 2 sizes x 2 channels) x {AAC: all 256 trait bytes; Opus: all 256 trait bytes x 5 defined rates (when the rate flag is set) x "+
		"levels {0,1,255,256,0xFFFF} (when the level flag is set); others: payload lengths 1,2,300}; decode(encode(f))==f, first byte, byte layout; every case non-trivial")
	rec.Exhaustive()
	run := func(a AF) {
		err := ev.Try(func() error { return checkAudio(a) })
		rec.Case(true, ev.Hash(a), nil, func() any { return a })
		if err != nil {
			fail(t, "audio", a, err)
		}
	}
	for fb := 0; fb < 256; fb++ {
		a := AF{Format: uint8(fb >> 4), Rate: uint8(fb>>2) & 3, Size: uint8(fb>>1) & 1, Type: uint8(fb) & 1}
		switch a.Format {
		case 10:
			for tr := 0; tr < 256; tr++ {
				a.Trait = uint8(tr)
				a.Raw = rtmpx.Fill(tr%5, uint64(tr+1))
				run(a)
			}
		case 13:
			if a.Rate != 0 {
				continue // Opus frames without the rate flag carry rate 0 (documented)
			}
			for tr := 0; tr < 256; tr++ {
				a.Trait = uint8(tr)
				rates := []uint8{0}
				if tr&4 != 0 {
					rates = opusRates
				}
				levels := []uint16{0}
				if tr&8 != 0 {
					levels = []uint16{0, 1, 255, 256, 0xFFFF}
				}
				for _, r := range rates {
					for _, l := range levels {
						a.Rate, a.Level = r, l
						a.Raw = rtmpx.Fill(int(r)%4, uint64(tr+1))
						run(a)
					}
				}
			}
		default:
			for _, n := range []int{1, 2, 300} {
				a.Raw = rtmpx.Fill(n, uint64(fb+1))
				run(a)
			}
		}
	}
}

func TestVideoExhaustive(t *testing.T) {
	rec := ev.New(prop, "video-exhaustive", "all 256 first bytes (16 frame types x 16 codec ids) x {AVC/HEVC: trait {0,1,2,3,255} x CTS {0,1,0xFFFF,0x10000,2^24-1} x payload {0,1,300}; others: payload {4,5,300}}; every case non-trivial")
	rec.Exhaustive()
	for fb := 0; fb < 256; fb++ {
		v := VF{FType: uint8(fb >> 4), Codec: uint8(fb & 0xf)}
		var cases []VF
		if v.Codec == 7 || v.Codec == 12 {
			for _, tr := range []uint8{0, 1, 2, 3, 255} {
				for _, cts := range []int32{0, 1, 0xFFFF, 0x10000, 1<<24 - 1} {
					for _, n := range []int{0, 1, 300} {
						c := v
						c.Trait, c.CTS, c.Raw = tr, cts, rtmpx.Fill(n, uint64(fb+1))
						cases = append(cases, c)
					}
				}
			}
		} else {
			for _, n := range []int{4, 5, 300} {
				c := v
				c.Raw = rtmpx.Fill(n, uint64(fb+1))
				cases = append(cases, c)
			}
		}
		for _, c := range cases {
			err := ev.Try(func() error { return checkVideo(c) })
			rec.Case(true, ev.Hash(c), nil, func() any { return c })
			if err != nil {
				fail(t, "video", c, err)
			}
		}
	}
}

var recRandom = ev.New(prop, "random-frames-and-bodies",
	"rapid-generated audio/video frames over the full field ranges with arbitrary payloads (0..2000 bytes), and canonical tag bodies (random bytes shaped so that unused fields are zero: Opus rate bits clear, "+
		"minimum lengths respected); oracles as in the exhaustive checks plus encode(decode(b))==b; non-trivial = AAC/Opus/AVC/HEVC (trait bytes in play) or payload >255 bytes").
	Require("audio-frame", "video-frame", "audio-body", "video-body", "opus", "aac", "avc")

type RCase struct {
	Kind  string `json:"kind"` // audio-frame | video-frame | audio-body | video-body
	Audio *AF    `json:"audio,omitempty"`
	Video *VF    `json:"video,omitempty"`
	Body  ev.Hex `json:"body,omitempty"`
}

func runR(c RCase) error {
	switch c.Kind {
	case "audio-frame":
		return checkAudio(*c.Audio)
	case "video-frame":
		return checkVideo(*c.Video)
	case "audio-body":
		return checkAudioCanonical(c.Body)
	case "video-body":
		return checkVideoCanonical(c.Body)
	}
	return fmt.Errorf("harness: kind %q", c.Kind)
}

func TestRandom(t *testing.T) {
	ev.Rapid(t, "random-frames-and-bodies", 20000, 40000000, func(t *rapid.T) {
		c := RCase{Kind: rapid.SampledFrom([]string{"audio-frame", "video-frame", "audio-body", "video-body"}).Draw(t, "kind")}
		raw := genRaw(t)
		cl := []string{c.Kind}
		nt := len(raw) > 255
		switch c.Kind {
		case "audio-frame":
			a := AF{Format: uint8(rapid.IntRange(0, 15).Draw(t, "format")), Rate: uint8(rapid.IntRange(0, 3).Draw(t, "rate")), Size: uint8(rapid.IntRange(0, 1).Draw(t, "size")), Type: uint8(rapid.IntRange(0, 1).Draw(t, "type")), Raw: raw}
			if rapid.Bool().Draw(t, "special") {
				a.Format = rapid.SampledFrom([]uint8{10, 13}).Draw(t, "sformat")
			}
			switch a.Format {
			case 10:
				a.Trait = rapid.Uint8().Draw(t, "trait")
				cl, nt = append(cl, "aac"), true
			case 13:
				a.Trait = rapid.Uint8().Draw(t, "trait")
				a.Rate = 0
				if a.Trait&4 != 0 {
					a.Rate = rapid.SampledFrom(opusRates).Draw(t, "orate")
				}
				if a.Trait&8 != 0 {
					a.Level = rapid.Uint16().Draw(t, "level")
				}
				cl, nt = append(cl, "opus"), true
			default:
				if len(a.Raw) == 0 {
					a.Raw = []byte{0x55} // documented minimum: a 1-byte body is rejected by Decode
				}
			}
			c.Audio = &a
		case "video-frame":
			v := VF{Codec: uint8(rapid.IntRange(0, 15).Draw(t, "codec")), FType: uint8(rapid.IntRange(0, 15).Draw(t, "ftype")), Raw: raw}
			if rapid.Bool().Draw(t, "special") {
				v.Codec = rapid.SampledFrom([]uint8{7, 12}).Draw(t, "scodec")
			}
			if v.Codec == 7 || v.Codec == 12 {
				v.Trait, v.CTS = genTraitCTS(t)
				cl, nt = append(cl, "avc"), true
			} else if len(v.Raw) < 4 {
				v.Raw = append(v.Raw, 1, 2, 3, 4)
			}
			c.Video = &v
		case "audio-body":
			b := append([]byte{rapid.Uint8().Draw(t, "b0"), rapid.Uint8().Draw(t, "b1")}, raw...)
			if rapid.Bool().Draw(t, "special") {
				b[0] = rapid.SampledFrom([]uint8{0xA0, 0xD0}).Draw(t, "sfmt") | b[0]&0x0f
			}
			switch b[0] >> 4 {
			case 10:
				cl, nt = append(cl, "aac"), true
			case 13:
				b[0] &= 0xf3
				need := 0
				if b[1]&4 != 0 {
					need++
				}
				if b[1]&8 != 0 {
					need += 2
				}
				for len(b) < 2+need {
					b = append(b, 7)
				}
				cl, nt = append(cl, "opus"), true
			}
			c.Body = b
		case "video-body":
			b := append([]byte{rapid.Uint8().Draw(t, "b0"), 1, 2, 3, 4}, raw...)
			if rapid.Bool().Draw(t, "special") {
				b[0] = b[0]&0xf0 | rapid.SampledFrom([]uint8{7, 12}).Draw(t, "scodec")
			}
			if b[0]&0xf == 7 || b[0]&0xf == 12 {
				cl, nt = append(cl, "avc"), true
			}
			c.Body = b
		}
		err := ev.Try(func() error { return runR(c) })
		recRandom.Case(nt, ev.Hash(c), cl, func() any { return c })
		if err != nil {
			fail(t, "random-frames-and-bodies", c, err)
		}
	})
}

// TestPackagerReuse: one packager encodes several frames before any of the tags is decoded
// (a muxer that batches tags); every tag must still decode to its own frame.
type BCase struct {
	Audio []AF `json:"audio"`
	Video []VF `json:"video"`
}

func runBatch(c BCase) error {
	ap, _ := flv.NewAudioPackager()
	vp, _ := flv.NewVideoPackager()
	var atags, asnap, vtags, vsnap [][]byte
	for _, a := range c.Audio {
		b, err := ap.Encode(a.frame())
		if err != nil {
			return err
		}
		atags, asnap = append(atags, b), append(asnap, append([]byte(nil), b...))
	}
	for _, v := range c.Video {
		fr := flv.NewVideoFrame()
		fr.CodecID, fr.FrameType, fr.Trait, fr.CTS, fr.Raw = flv.VideoCodec(v.Codec), flv.VideoFrameType(v.FType), flv.VideoFrameTrait(v.Trait), v.CTS, v.Raw
		b, err := vp.Encode(fr)
		if err != nil {
			return err
		}
		vtags, vsnap = append(vtags, b), append(vsnap, append([]byte(nil), b...))
	}
	// a tag handed to the caller stays what it was, whatever is encoded afterwards (by any packager)
	other, _ := flv.NewAudioPackager()
	other.Encode(&flv.AudioFrame{SoundFormat: flv.AudioCodecOpus, Trait: 0x0e, SoundRate: 48, AudioLevel: 0x1234, Raw: []byte{9, 9, 9, 9, 9, 9, 9, 9}})
	for i := range atags {
		if !bytes.Equal(atags[i], asnap[i]) {
			return fmt.Errorf("audio tag %d of %d changed after later Encode calls: %x, was %x", i, len(atags), head(atags[i]), head(asnap[i]))
		}
	}
	for i := range vtags {
		if !bytes.Equal(vtags[i], vsnap[i]) {
			return fmt.Errorf("video tag %d of %d changed after later Encode calls: %x, was %x", i, len(vtags), head(vtags[i]), head(vsnap[i]))
		}
	}
	// decode every tag with the same packagers, keep the frames, compare afterwards: a frame handed
	// to the caller stays what it was, and carries nothing over from the tags decoded before it
	var afr []*flv.AudioFrame
	var vfr []*flv.VideoFrame
	for i := range atags {
		f, err := ap.Decode(atags[i])
		if err != nil {
			return fmt.Errorf("audio tag %d: decode: %v", i, err)
		}
		afr = append(afr, f)
	}
	for i := range vtags {
		f, err := vp.Decode(vtags[i])
		if err != nil {
			return fmt.Errorf("video tag %d: decode: %v", i, err)
		}
		vfr = append(vfr, f)
	}
	for i, a := range c.Audio {
		f := afr[i]
		if uint8(f.SoundFormat) != a.Format || uint8(f.SoundRate) != a.Rate || uint8(f.Trait) != a.Trait || f.AudioLevel != a.Level || !bytes.Equal(f.Raw, a.Raw) {
			return fmt.Errorf("audio tag %d of %d decoded on a reused packager: frame {fmt %d rate %d trait %d level %d raw %x} differs from the frame encoded %+v", i, len(atags), f.SoundFormat, f.SoundRate, f.Trait, f.AudioLevel, head(f.Raw), a)
		}
	}
	for i, v := range c.Video {
		f := vfr[i]
		if uint8(f.CodecID) != v.Codec || uint8(f.FrameType) != v.FType || uint8(f.Trait) != v.Trait || f.CTS != v.CTS || !bytes.Equal(f.Raw, v.Raw) {
			return fmt.Errorf("video tag %d of %d decoded on a reused packager: frame {codec %d type %d trait %d cts %d raw %x} differs from the frame encoded %+v", i, len(vtags), f.CodecID, f.FrameType, f.Trait, f.CTS, head(f.Raw), v)
		}
	}
	return nil
}

var recBatch = ev.New(prop, "packager-reuse", "rapid-generated batches: one audio and one video packager each encode 2-6 frames (AAC/Opus/other; AVC/HEVC/other) before any tag is decoded; every tag must keep its bytes and decode to its own frame; all non-trivial")

// genRaw draws a payload: arbitrary bytes, and bytes that look like something a media tool knows - a complete
// ADTS frame, Annex B start codes, an FLV signature, an AVCC length prefix - since payloads are opaque to the
// tag format; lengths also around the largest Opus frame (1275, RFC 6716) and the 8/16-bit boundaries.
func genRaw(t *rapid.T) []byte {
	switch rapid.IntRange(0, 11).Draw(t, "rawk") {
	case 0:
		return rtmpx.Fill(rapid.IntRange(256, 2000).Draw(t, "biglen"), rapid.Uint64().Draw(t, "bigfill"))
	case 1:
		return rtmpx.Fill(rapid.IntRange(1268, 1282).Draw(t, "opuslen"), rapid.Uint64().Draw(t, "opusfill"))
	case 2:
		// one complete, well-formed ADTS frame
		n := rapid.SampledFrom([]int{1, 4, 30, 300}).Draw(t, "adtslen")
		h := adtsref.Header{ID: uint8(rapid.IntRange(0, 1).Draw(t, "aid")), ProtectionAbsent: 1, Profile: uint8(rapid.IntRange(0, 2).Draw(t, "aprof")), SFI: uint8(rapid.IntRange(1, 12).Draw(t, "asfi")), Channels: uint8(rapid.IntRange(1, 7).Draw(t, "ach"))}
		return adtsref.Write(h, rtmpx.Fill(n, rapid.Uint64().Draw(t, "adtsfill")))
	case 3:
		pre := rapid.SampledFrom([][]byte{{0, 0, 0, 1}, {0, 0, 1}, {0, 0, 0, 1, 0x67}, {'F', 'L', 'V', 1, 5, 0, 0, 0, 9}, {0, 0, 0, 5}, {0xff, 0xf1}, {0x17, 0, 0, 0, 0}, {0xaf, 1}}).Draw(t, "magic")
		return append(append([]byte(nil), pre...), rapid.SliceOfN(rapid.Byte(), 0, 12).Draw(t, "magictail")...)
	case 4:
		// a codec's own stream header as the payload: an RFC 7845 Opus identification header (19 bytes), or its comment header
		if rapid.IntRange(0, 3).Draw(t, "opushdr") == 0 {
			return append([]byte("OpusTags"), rapid.SliceOfN(rapid.Byte(), 0, 20).Draw(t, "tagstail")...)
		}
		h := append([]byte("OpusHead"), 1, uint8(rapid.IntRange(1, 8).Draw(t, "ohch")), 0x38, 0x01)
		h = binary.LittleEndian.AppendUint32(h, rapid.SampledFrom([]uint32{48000, 44100, 24000, 16000, 12000, 8000, 999, 96000}).Draw(t, "ohrate"))
		return append(append(h, 0, 0, 0), rapid.SliceOfN(rapid.Byte(), 0, 4).Draw(t, "ohtail")...)
	case 5:
		// container four-character codes (enhanced RTMP, MP4 sample entries) in front of the payload
		return append([]byte(rapid.SampledFrom(fourCCs).Draw(t, "fourcc")), rapid.SliceOfN(rapid.Byte(), 0, 12).Draw(t, "fourcctail")...)
	}
	return rapid.SliceOfN(rapid.Byte(), 0, 40).Draw(t, "raw")
}

var fourCCs = []string{"hvc1", "hev1", "avc1", "av01", "vp09", "vp08", "mp4a", "Opus", "fLaC", "ac-3", "ec-3", ".mp3"}

// genTraitCTS: AVC/HEVC trait and composition time; now and then the four bytes behind the first one spell a four-character code.
func genTraitCTS(t *rapid.T) (uint8, int32) {
	if rapid.IntRange(0, 15).Draw(t, "ctsfourcc") == 0 {
		f := rapid.SampledFrom(fourCCs).Draw(t, "ctscc")
		return f[0], int32(f[1])<<16 | int32(f[2])<<8 | int32(f[3])
	}
	return rapid.Uint8().Draw(t, "trait"), int32(rapid.IntRange(0, 1<<24-1).Draw(t, "cts"))
}

func genAF(t *rapid.T) AF {
	a := AF{Format: rapid.SampledFrom([]uint8{10, 13, 13, 13, 2, 0}).Draw(t, "format"), Size: uint8(rapid.IntRange(0, 1).Draw(t, "size")), Type: uint8(rapid.IntRange(0, 1).Draw(t, "type")),
		Raw: rapid.SliceOfN(rapid.Byte(), 1, 30).Draw(t, "raw")}
	if rapid.IntRange(0, 2).Draw(t, "rawspecial") == 0 {
		if r := genRaw(t); len(r) > 0 {
			a.Raw = r
		}
	}
	switch a.Format {
	case 10:
		a.Rate = uint8(rapid.IntRange(0, 3).Draw(t, "rate"))
		a.Trait = rapid.Uint8().Draw(t, "trait")
	case 13:
		a.Trait = rapid.Uint8().Draw(t, "trait")
		if a.Trait&4 != 0 {
			a.Rate = rapid.SampledFrom(opusRates).Draw(t, "orate")
		}
		if a.Trait&8 != 0 {
			a.Level = rapid.Uint16().Draw(t, "level")
		}
	default:
		a.Rate = uint8(rapid.IntRange(0, 3).Draw(t, "rate"))
	}
	return a
}

func genBCase(t *rapid.T) BCase {
	var c BCase
	for i, n := 0, rapid.IntRange(2, 6).Draw(t, "na"); i < n; i++ {
		c.Audio = append(c.Audio, genAF(t))
	}
	for i, n := 0, rapid.IntRange(2, 6).Draw(t, "nv"); i < n; i++ {
		v := VF{Codec: rapid.SampledFrom([]uint8{7, 12, 2, 4}).Draw(t, "codec"), FType: uint8(rapid.IntRange(0, 15).Draw(t, "ftype")), Raw: rapid.SliceOfN(rapid.Byte(), 4, 30).Draw(t, "vraw")}
		if rapid.IntRange(0, 2).Draw(t, "vrawspecial") == 0 {
			if r := genRaw(t); len(r) >= 4 {
				v.Raw = r
			}
		}
		if v.Codec == 7 || v.Codec == 12 {
			v.Trait, v.CTS = genTraitCTS(t)
		}
		c.Video = append(c.Video, v)
	}
	return c
}

// TestSideBySide: independent packagers on several goroutines at once.
func TestSideBySide(t *testing.T) {
	ev.Parallel(t, prop, "side-by-side", 6, 400, 120, genBCase, runBatch)
}

func TestPackagerReuse(t *testing.T) {
	ev.Rapid(t, "packager-reuse", 3000, 6000000, func(t *rapid.T) {
		c := genBCase(t)
		err := ev.Try(func() error { return runBatch(c) })
		recBatch.Case(true, ev.Hash(c), nil, func() any { return c })
		if err != nil {
			fail(t, "packager-reuse", c, err)
		}
	})
}

// TestRates: every defined rate code converts to the frequency of its definition.
func TestRates(t *testing.T) {
	rec := ev.New(prop, "rate-codes", "the 4 FLV rate codes and the 5 defined Opus rate codes against the frequencies of the FLV / Opus definitions; every case non-trivial")
	rec.Exhaustive()
	type rc struct {
		Opus bool  `json:"opus"`
		Code uint8 `json:"code"`
		Hz   int   `json:"hz"`
	}
	cases := []rc{{false, 0, 5512}, {false, 1, 11025}, {false, 2, 22050}, {false, 3, 44100},
		{true, 8, 8000}, {true, 12, 12000}, {true, 16, 16000}, {true, 24, 24000}, {true, 48, 48000}}
	for _, c := range cases {
		err := ev.Try(func() error {
			var got int
			if c.Opus {
				got = flv.AudioSamplingRate(c.Code).OpusToHz()
			} else {
				got = flv.AudioSamplingRate(c.Code).ToHz()
			}
			if got != c.Hz {
				return fmt.Errorf("rate code %d (opus=%v) converts to %d Hz, definition: %d Hz", c.Code, c.Opus, got, c.Hz)
			}
			return nil
		})
		rec.Case(true, ev.Hash(c), nil, func() any { return c })
		if err != nil {
			fail(t, "rate-codes", c, err)
		}
	}
}

func replayers() map[string]ev.Replayer {
	return map[string]ev.Replayer{
		"audio": func(raw json.RawMessage) error {
			var a AF
			if err := json.Unmarshal(raw, &a); err != nil {
				return err
			}
			return checkAudio(a)
		},
		"video": func(raw json.RawMessage) error {
			var v VF
			if err := json.Unmarshal(raw, &v); err != nil {
				return err
			}
			return checkVideo(v)
		},
		"random-frames-and-bodies": func(raw json.RawMessage) error {
			var c RCase
			if err := json.Unmarshal(raw, &c); err != nil {
				return err
			}
			return runR(c)
		},
		"side-by-side": func(raw json.RawMessage) error {
			var c BCase
			if err := json.Unmarshal(raw, &c); err != nil {
				return err
			}
			return runBatch(c)
		},
		"packager-reuse": func(raw json.RawMessage) error {
			var c BCase
			if err := json.Unmarshal(raw, &c); err != nil {
				return err
			}
			return runBatch(c)
		},
		"rate-codes": func(raw json.RawMessage) error {
			var c struct {
				Opus bool
				Code uint8
				Hz   int
			}
			if err := json.Unmarshal(raw, &c); err != nil {
				return err
			}
			var got int
			if c.Opus {
				got = flv.AudioSamplingRate(c.Code).OpusToHz()
			} else {
				got = flv.AudioSamplingRate(c.Code).ToHz()
			}
			if got != c.Hz {
				return fmt.Errorf("rate code %d converts to %d Hz, want %d", c.Code, got, c.Hz)
			}
			return nil
		},
	}
}

func TestRegress(t *testing.T) { ev.Regress(t, prop, replayers()) }
func TestReplay(t *testing.T) {
	if os.Getenv("VERIF_REPLAY") == "" {
		t.Skip("no VERIF_REPLAY")
	}
	ev.Replay(t, prop, replayers())
}
