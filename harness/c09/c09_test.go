// C09: FLV files written by the muxer are read back identically by the demuxer, the bytes are
// exactly the FLV version 1 layout, and files of an independent writer are demuxed to the same tags.
package c09

import (
	"bytes"
	"encoding/json"
	"errors"
	"fmt"
	"io"
	"os"
	"testing"

	"github.com/ossrs/go-oryx-lib/flv"
	"pgregory.net/rapid"
	"verif/harness/internal/ev"
	"verif/harness/internal/ref/flvref"
	"verif/harness/internal/rtmpx"
	"verif/harness/internal/xport"
)

const prop = "C09"

func TestMain(m *testing.M) { ev.Main(m) }

type T struct {
	Type uint8  `json:"type"`
	Ts   uint32 `json:"ts"`
	Len  int    `json:"len"`
	Fill uint64 `json:"fill"`
}

type Case struct {
	HasVideo bool  `json:"has_video"`
	HasAudio bool  `json:"has_audio"`
	Tags     []T   `json:"tags"`
	SegKind  int   `json:"seg_kind"`
	Seg      []int `json:"seg,omitempty"`
	// Refuse: the transport refuses (0 bytes taken, error) the first write of these tags once; each such
	// WriteTag must fail, nothing of the tag may reach the file, and the tags written afterwards follow cleanly
	Refuse []int `json:"refuse,omitempty"`
}

var errRefused = errors.New("transport refuses this write")

// refusing is the muxer's transport: it refuses the next Write call once when armed.
type refusing struct {
	buf   bytes.Buffer
	armed bool
}

func (r *refusing) Write(p []byte) (int, error) {
	if r.armed {
		r.armed = false
		return 0, errRefused
	}
	return r.buf.Write(p)
}

func (c Case) tags() []flvref.Tag {
	var ts []flvref.Tag
	for _, t := range c.Tags {
		ts = append(ts, flvref.Tag{Type: t.Type, Timestamp: t.Ts, Body: rtmpx.Fill(t.Len, t.Fill)})
	}
	return ts
}

func demux(file []byte, c Case, want []flvref.Tag) error {
	var r io.Reader = bytes.NewReader(file)
	r = xport.Segment(r, c.SegKind, c.Seg)
	d, err := flv.NewDemuxer(r)
	if err != nil {
		return err
	}
	ver, hv, ha, err := d.ReadHeader()
	if err != nil {
		return fmt.Errorf("ReadHeader: %v", err)
	}
	if ver != 1 || hv != c.HasVideo || ha != c.HasAudio {
		return fmt.Errorf("header: version %d video %v audio %v, want 1 %v %v", ver, hv, ha, c.HasVideo, c.HasAudio)
	}
	type keptTag struct {
		i    int
		body []byte
	}
	var kept []keptTag
	for i, w := range want {
		tt, size, ts, err := d.ReadTagHeader()
		if err != nil {
			return fmt.Errorf("tag %d: ReadTagHeader: %v", i, err)
		}
		if uint8(tt) != w.Type || int(size) != len(w.Body) || ts != w.Timestamp {
			return fmt.Errorf("tag %d: header type=%d size=%d ts=%d, want type=%d size=%d ts=%d", i, tt, size, ts, w.Type, len(w.Body), w.Timestamp)
		}
		body, err := d.ReadTag(size)
		if err != nil {
			return fmt.Errorf("tag %d: ReadTag(%d): %v", i, size, err)
		}
		if !bytes.Equal(body, w.Body) {
			return fmt.Errorf("tag %d: body of %d bytes differs (got %d bytes)", i, len(w.Body), len(body))
		}
		if i%2 == 1 {
			ev.Trash(body) // the body belongs to the application: it overwrites it (spare capacity included) before it reads on
		} else if len(body) <= 1<<16 {
			kept = append(kept, keptTag{i, body})
		}
	}
	for _, k := range kept {
		if !bytes.Equal(k.body, want[k.i].Body) {
			return fmt.Errorf("tag %d: the body returned earlier changed while later tags were read", k.i)
		}
	}
	if _, _, _, err := d.ReadTagHeader(); err != io.EOF {
		return fmt.Errorf("after the last tag: ReadTagHeader error %v, want io.EOF", err)
	}
	return d.Close()
}

func runCase(c Case) error {
	all := c.tags()
	var want []flvref.Tag
	tr := &refusing{}
	buf := &tr.buf
	m, err := flv.NewMuxer(tr)
	if err != nil {
		return err
	}
	if err := m.WriteHeader(c.HasVideo, c.HasAudio); err != nil {
		return fmt.Errorf("WriteHeader: %v", err)
	}
	// the bodies handed to the muxer are windows into one buffer of the application (as when
	// frames are cut out of a received packet): each has spare capacity that belongs to the
	// application - the next body - and none of it may change
	refuse := map[int]bool{}
	for _, i := range c.Refuse {
		refuse[i] = true
	}
	var arena []byte
	for _, t := range all {
		arena = append(arena, t.Body...)
	}
	arena = append(arena, "guard bytes after the last body"...)
	pristine := append([]byte(nil), arena...)
	off := 0
	for i, t := range all {
		tr.armed = refuse[i]
		err := m.WriteTag(flv.TagType(t.Type), t.Timestamp, arena[off:off+len(t.Body)])
		off += len(t.Body)
		if refuse[i] {
			if err == nil {
				return fmt.Errorf("WriteTag %d: nil error although the transport refused its first write", i)
			}
			tr.armed = false
			continue // nothing of this tag was taken by the transport
		}
		if err != nil {
			return fmt.Errorf("WriteTag %d: %v", i, err)
		}
		want = append(want, t)
	}
	if err := m.Close(); err != nil {
		return err
	}
	if !bytes.Equal(arena, pristine) {
		i := 0
		for arena[i] == pristine[i] {
			i++
		}
		return fmt.Errorf("WriteTag changed the application's buffer around the body it was given (offset %d of the buffer the %d bodies were cut from)", i, len(want))
	}
	ref := flvref.Write(c.HasVideo, c.HasAudio, want)
	if !bytes.Equal(buf.Bytes(), ref) {
		i := 0
		for i < len(ref) && i < buf.Len() && ref[i] == buf.Bytes()[i] {
			i++
		}
		return fmt.Errorf("muxer output (%d bytes) differs from the FLV v1 layout (%d bytes) at offset %d", buf.Len(), len(ref), i)
	}
	f, err := flvref.Parse(buf.Bytes())
	if err != nil {
		return fmt.Errorf("strict parser rejects the muxer output: %v", err)
	}
	if len(f.Tags) != len(want) {
		return fmt.Errorf("strict parser sees %d tags, %d written", len(f.Tags), len(want))
	}
	if err := demux(buf.Bytes(), c, want); err != nil {
		return fmt.Errorf("demux of muxer output: %v", err)
	}
	if err := demux(ref, c, want); err != nil {
		return fmt.Errorf("demux of the independent writer's file: %v", err)
	}
	return nil
}

var tsClasses = []uint32{0, 1, 1<<24 - 1, 1 << 24, 1<<24 + 1, 1<<31 - 1, 1 << 31, 1<<32 - 1, 0x01020304}

var rec = ev.New(prop, "files",
	"rapid-generated FLV files: 4 flag combinations, <=30 tags with type byte in uint8, timestamps around 2^24/2^31/2^32-1, body sizes {0,1,255,256,65535,65536, rarely 2^24-1, uniform<=4KiB}, "+
		"demuxed through whole/1-byte/drawn read segmentation; oracle: muxer bytes == independent FLV v1 writer, strict parser accepts, demuxer returns the same tags from both files then EOF; "+
		"non-trivial = a timestamp >= 2^24 or a body >= 65536 or an empty body or a segmented reader").
	Require("ts-ext", "big-body", "empty-body", "segmented")

func TestFiles(t *testing.T) {
	ev.Rapid(t, "files", 2500, 120000, func(t *rapid.T) {
		c := Case{HasVideo: rapid.Bool().Draw(t, "hv"), HasAudio: rapid.Bool().Draw(t, "ha")}
		n := rapid.IntRange(0, 30).Draw(t, "n")
		budget := 1 << 21
		for i := 0; i < n; i++ {
			var tg T
			if rapid.Bool().Draw(t, "typek") {
				tg.Type = rapid.SampledFrom([]uint8{8, 9, 18}).Draw(t, "typec")
			} else {
				tg.Type = rapid.Uint8().Draw(t, "typeu")
			}
			if rapid.Bool().Draw(t, "tsk") {
				tg.Ts = rapid.SampledFrom(tsClasses).Draw(t, "tsc")
			} else {
				tg.Ts = rapid.Uint32().Draw(t, "tsu")
			}
			switch rapid.IntRange(0, 9).Draw(t, "lenk") {
			case 0, 1, 2, 3:
				tg.Len = rapid.IntRange(0, 4096).Draw(t, "lenu")
			case 4:
				if ev.Thorough() && rapid.IntRange(0, 40).Draw(t, "huge") == 0 {
					tg.Len = 1<<24 - 1
				} else {
					tg.Len = 65537
				}
			default:
				tg.Len = rapid.SampledFrom([]int{0, 1, 255, 256, 65535, 65536}).Draw(t, "lenc")
			}
			if tg.Len > budget && tg.Len != 1<<24-1 {
				tg.Len = budget
			}
			budget -= tg.Len
			if budget < 0 {
				budget = 0
			}
			tg.Fill = rapid.Uint64().Draw(t, "fill")
			c.Tags = append(c.Tags, tg)
		}
		c.SegKind = rapid.IntRange(0, xport.SegKinds-1).Draw(t, "segk")
		if c.SegKind == 2 || c.SegKind == 3 || c.SegKind == 5 {
			c.Seg = rapid.SliceOfN(rapid.IntRange(1, 40), 1, 8).Draw(t, "seg")
		}
		if n > 0 && rapid.IntRange(0, 4).Draw(t, "refusek") == 0 {
			c.Refuse = rapid.SliceOfNDistinct(rapid.IntRange(0, n-1), 1, 2, rapid.ID[int]).Draw(t, "refuse")
		}
		err := ev.Try(func() error { return runCase(c) })
		var cl []string
		for _, tg := range c.Tags {
			if tg.Ts >= 1<<24 {
				cl = append(cl, "ts-ext")
			}
			if tg.Len >= 65536 {
				cl = append(cl, "big-body")
			}
			if tg.Len == 0 {
				cl = append(cl, "empty-body")
			}
		}
		if c.SegKind != 0 {
			cl = append(cl, "segmented")
		}
		if len(c.Refuse) > 0 {
			cl = append(cl, "write-refused-once")
		}
		rec.Case(len(cl) > 0, ev.Hash(c), cl, func() any { return c })
		if err != nil {
			p := ev.Fail(prop, "files", c, err)
			t.Fatalf("%v (replay %s)", err, p)
		}
	})
}

// TestBigBodies: the 24-bit size limit and the 32-bit PreviousTagSize around 2^24.
func TestBigBodies(t *testing.T) {
	rec := ev.New(prop, "big-bodies", "deterministic: one tag of 2^24-12, 2^24-11, 2^24-2 and 2^24-1 body bytes (PreviousTagSize crosses 2^24), followed by a small tag, whole and segmented reads; all non-trivial")
	rec.Exhaustive()
	for i, n := range []int{1<<24 - 12, 1<<24 - 11, 1<<24 - 2, 1<<24 - 1} {
		c := Case{HasVideo: true, HasAudio: i%2 == 0, Tags: []T{{Type: 9, Ts: 1<<24 + uint32(i), Len: n, Fill: uint64(i + 1)}, {Type: 8, Ts: 5, Len: 3, Fill: 9}}, SegKind: i % xport.SegKinds, Seg: []int{65536, 7}}
		err := ev.Try(func() error { return runCase(c) })
		rec.Case(true, ev.Hash(c), nil, func() any { return c })
		if err != nil {
			p := ev.Fail(prop, "files", c, err)
			t.Fatalf("%v (replay %s)", err, p)
		}
	}
}

// TestSizeSweep: every body size from 2^k-20 to 2^k+4 for k = 8..16 (a buffer of a round size minus
// the 11-byte header and the 4-byte trailer ends somewhere in that window), followed by a small tag.
func TestSizeSweep(t *testing.T) {
	rec := ev.New(prop, "size-sweep", "deterministic: every body size 0..4200, and 2^k-20 .. 2^k+4 for k = 8..16, each followed by a small tag, read whole and in drawn pieces; plus tags whose 11-byte header spells the file signature "+
		"('F' 'L' 'V' ...: type 0x46, size 0x4C56xx); all non-trivial")
	rec.Exhaustive()
	i := 0
	run := func(c Case) {
		i++
		if i%ev.Shards() != ev.Shard() {
			return
		}
		err := ev.Try(func() error { return runCase(c) })
		rec.Case(true, ev.Hash(c), nil, func() any { return c })
		if err != nil {
			p := ev.Fail(prop, "files", c, err)
			t.Fatalf("%v (replay %s)", err, p)
		}
	}
	// every body size up to 4200 (any internal buffer of a "natural" size - an MTU, a page, a cache line multiple - ends in there)
	for n := 0; n <= 4200; n++ {
		run(Case{HasVideo: n%2 == 0, HasAudio: true, Tags: []T{{Type: 9, Ts: uint32(n), Len: n, Fill: uint64(n) + 1}, {Type: 8, Ts: 5, Len: 3, Fill: 9}}, SegKind: n % xport.SegKinds, Seg: []int{700, 7, 64}})
	}
	for k := 8; k <= 16; k++ {
		for d := -20; d <= 4; d++ {
			n := 1<<uint(k) + d
			run(Case{HasVideo: true, HasAudio: true, Tags: []T{{Type: 9, Ts: uint32(n), Len: n, Fill: uint64(n)}, {Type: 8, Ts: 5, Len: 3, Fill: 9}}, SegKind: (k + d + 40) % xport.SegKinds, Seg: []int{4096, 7, 1000}})
		}
	}
	for _, low := range []int{0x00, 0x01, 0xff} {
		run(Case{HasVideo: true, HasAudio: true, Tags: []T{{Type: 8, Ts: 1, Len: 2, Fill: 1}, {Type: 0x46, Ts: 0x01000009, Len: 0x4C5600 + low, Fill: 3}, {Type: 9, Ts: 7, Len: 5, Fill: 2}}, SegKind: low % xport.SegKinds, Seg: []int{65536, 11}})
	}
}

// TestSideBySide: independent muxers/demuxers on several goroutines at once.
func TestSideBySide(t *testing.T) {
	ev.Parallel(t, prop, "side-by-side", 3, 200, 60, func(t *rapid.T) Case {
		c := Case{HasVideo: rapid.Bool().Draw(t, "hv"), HasAudio: rapid.Bool().Draw(t, "ha"), SegKind: rapid.IntRange(0, xport.SegKinds-1).Draw(t, "segk"), Seg: []int{3, 500, 11}}
		for i, n := 0, rapid.IntRange(1, 8).Draw(t, "n"); i < n; i++ {
			c.Tags = append(c.Tags, T{Type: rapid.SampledFrom([]uint8{8, 9, 18}).Draw(t, "type"), Ts: rapid.Uint32().Draw(t, "ts"), Len: rapid.SampledFrom([]int{0, 1, 10, 255, 256, 4000, 40000}).Draw(t, "len"), Fill: rapid.Uint64().Draw(t, "fill")})
		}
		return c
	}, runCase)
}

func replayers() map[string]ev.Replayer {
	f := func(raw json.RawMessage) error {
		var c Case
		if err := json.Unmarshal(raw, &c); err != nil {
			return err
		}
		return runCase(c)
	}
	return map[string]ev.Replayer{"files": f, "side-by-side": f}
}

func TestRegress(t *testing.T) { ev.Regress(t, prop, replayers()) }
func TestReplay(t *testing.T) {
	if os.Getenv("VERIF_REPLAY") == "" {
		t.Skip("no VERIF_REPLAY")
	}
	ev.Replay(t, prop, replayers())
}
