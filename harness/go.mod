module verif/harness

go 1.23

require (
	github.com/ossrs/go-oryx-lib v0.0.0
	pgregory.net/rapid v1.3.0
)

replace github.com/ossrs/go-oryx-lib => /repo
