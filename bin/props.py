# Per-property configuration of bin/check. One Go test package per property.
PROPS = {
    "C01": dict(
        pkg="c01", level="exploration",
        rule="rapid-generated RTMP sessions between two library endpoints plus an odometer over chunk-size/length/timestamp boundaries; "
             "oracle = round trip and an independent RTMP 1.0 dechunker on the sniffed wire; per-check rules under coverage.checks",
        quick=dict(timeout=600), thorough=dict(shards=16, timeout=3000),
        technique="property-based testing (rapid): generated two-endpoint sessions, round-trip oracle + differential against an independent dechunker; boundary odometer",
        level_text="Random and boundary-biased exploration of sessions (both directions, Set Chunk Size anywhere, all read segmentation kinds) with shrinking; "
                   "no proof of absence - the space is infinite and the claim is a search with a measured class distribution.",
        level_note="Trusts the harness' reference dechunker (written from RTMP 1.0) and the in-memory transport; payloads are deterministic fills of drawn length; "
                   "sessions are bounded to 24 steps and a few MiB (quick) / 40 MiB (thorough).",
        assumptions=["reference dechunker internal/ref/rtmpref is a faithful reading of RTMP 1.0 section 5.3",
                     "stream id of a received message is observed by re-serialising it through the library writer"],
    ),
}

NOT_APPLICABLE = {}
HOOK_COMMITS = []
