# Per-property configuration of bin/check. One Go test package per property.
PROPS = {
    "C01": dict(
        pkg="c01", level="exploration",
        rule="rapid-generated RTMP sessions between two library endpoints plus an odometer over chunk-size/length/timestamp boundaries; "
             "oracle = round trip and an independent RTMP 1.0 dechunker on the sniffed wire; per-check rules under coverage.checks",
        quick=dict(timeout=600), thorough=dict(shards=16, timeout=3000),
        technique="property-based testing (rapid): generated two-endpoint sessions, round-trip oracle + differential against an independent dechunker; boundary odometer",
        level_text="Random and boundary-biased exploration of sessions (both directions, Set Chunk Size anywhere, all read segmentation kinds) with shrinking; "
                   "no proof of absence - the space is infinite and the claim is a search with a measured class distribution.",
        level_note="Trusts the harness' reference dechunker (written from RTMP 1.0) and the in-memory transport; payloads are deterministic fills of drawn length; "
                   "sessions are bounded to 24 steps and a few MiB (quick) / 40 MiB (thorough).",
        assumptions=["reference dechunker internal/ref/rtmpref is a faithful reading of RTMP 1.0 section 5.3",
                     "stream id of a received message is observed by re-serialising it through the library writer"],
    ),
}

PROPS["C02"] = dict(
    pkg="c02", level="exploration",
    rule="traces for an independent RTMP 1.0 reference chunker (legal header-type choice per chunk-stream state, 1/2/3-byte ids, interleaving, Set Chunk Size in between, "
         "single rule breaks) fed to the library reader; bounded-exhaustive odometer over the abstract alphabet for short traces; per-check rules under coverage.checks",
    quick=dict(timeout=600), thorough=dict(shards=16, timeout=3000),
    technique="property-based testing (rapid) + bounded-exhaustive odometer: differential against an independent reference chunker written from RTMP 1.0; negative traces with one rule break",
    level_text="Differential exploration: random long traces over many chunk streams plus a complete enumeration of an abstract alphabet for traces of depth 2 (quick) / 3 (thorough). "
               "The odometer is exhaustive over its stated alphabet only; everything else is sampled.",
    level_note="Trusts the reference chunker's reading of RTMP 1.0 sections 5.3.1.1-5.3.1.3 (continuation chunks are type 3 and repeat the extended timestamp). "
               "Traces matching the open known finding rtmp.ext-ts.delta are excluded by construction and counted.",
    assumptions=["reference chunker internal/ref/rtmpref follows RTMP 1.0 section 5.3", "no Abort messages (statement)",
                 "non-type-0 headers with an extended timestamp are excluded while finding rtmp.ext-ts.delta is open"],
)

PROPS["C05"] = dict(
    pkg="c05", level="exploration",
    rule="AMF0 value trees built through the public API (round trip, Size, re-marshal, wire order), an operation-sequence model of one container, and byte strings generated from the wire grammar "
         "with trailing bytes (Size() == bytes consumed); per-check rules under coverage.checks",
    quick=dict(timeout=600), thorough=dict(shards=16, timeout=3000),
    technique="property-based testing (rapid): round-trip + Size laws on generated trees, model-based operation sequences on a container, grammar-generated decodable byte strings with a known length",
    level_text="Random exploration with boundary-biased generators (raw float bit patterns, 65535-byte strings, empty/binary/repeated keys) and shrinking; the value space is unbounded, so no exhaustiveness is claimed.",
    level_note="Trusts the harness' AMF0 value model and its length computation (internal/ref/amf0ref, written from the AMF0 specification; strict arrays in the library's keyed layout here). Depth <= 8, <= 40 nodes per tree.",
    assumptions=["internal/ref/amf0ref computes the encoded length of a value correctly", "null/undefined are identified by their one-byte encoding (types are unexported)"],
)

PROPS["C06"] = dict(
    pkg="c06", level="exploration",
    rule="differential against an independent AMF0 codec written from the specification, in both directions (library bytes -> reference decoder; reference encoder -> library), "
         "plus all 256 marker bytes x 8 bodies x {top level, nested} enumerated; per-check rules under coverage.checks",
    quick=dict(timeout=600), thorough=dict(shards=16, timeout=3000),
    technique="property-based differential testing (rapid) against an independent specification codec; exhaustive enumeration of marker bytes",
    level_text="Random exploration of value trees in both directions with shrinking, and a complete enumeration of the marker byte (256 values) over a fixed set of bodies. "
               "Non-empty strict arrays are excluded from the random part while the known finding on their layout is open.",
    level_note="Trusts internal/ref/amf0ref as a faithful reading of the AMF0 specification (ECMA associative count is a hint: the decoder reads to the end marker, as FFmpeg/librtmp do).",
    assumptions=["internal/ref/amf0ref follows the AMF0 specification sections 2.2-2.12", "ECMA array count is advisory"],
)

PROPS["C03"] = dict(
    pkg="c03", level="exploration",
    rule="generated RTMP packets of all 12 constructible kinds (codec laws + protocol byte layout via the reference AMF0 encoder), all 65536 user-control event types enumerated, "
         "request/response histories between two endpoints against a transaction-map model, and typed waits against a first-match model; per-check rules under coverage.checks",
    quick=dict(timeout=600), thorough=dict(shards=16, timeout=3000),
    technique="property-based testing (rapid): codec round-trip/Size laws with an independent layout oracle, model-based request/response histories, first-match model for typed waits; exhaustive event-type enumeration",
    level_text="Random exploration with shrinking over packet fields, histories (<=30 ops) and wait prefixes (<=12 packets); the event-type dimension (65536 values) is enumerated completely.",
    level_note="Trusts the dispatch table written from the protocol (connect->ConnectApp, publish->Publish, _result->response type of the outstanding request, control types->their packets, other commands->Call) "
               "and the reference AMF0 encoder. Transaction ids are positive (library contract tid>0); _error responses and audio/video before ExpectPacket are outside the statement.",
    assumptions=["dispatch table in c03_test.go reflects RTMP 1.0 section 7 and the library's documented packet set", "transaction ids > 0 and not NaN"],
)

PROPS["C04"] = dict(
    pkg="c04", level="exploration", race=True,
    rule="request histories executed with a writer goroutine and a reader goroutine on one Protocol over a harness-owned transport whose schedule (answer inside the transport write / after return / "
         "free-running peer / deferred and reordered) is generated; all schedules enumerated for short histories; race detector on every execution; per-check rules under coverage.checks",
    quick=dict(timeout=900), thorough=dict(shards=8, timeout=3000),
    technique="property-based testing (rapid) over harness-owned transport schedules + exhaustive enumeration of schedules for short histories, model = transaction map at transport-event order; Go race detector",
    level_text="The order of transport events is owned and generated/enumerated by the harness (including the answer being decoded before WritePacket returns); interleavings of individual memory "
               "operations below that level are only covered by the race detector and repetition. Exploration, not enumeration of Go schedules.",
    level_note="Trusts the harness transport and its model (requests count as sent when their bytes reach the transport). Transaction ids are reused only after the earlier use was answered and decoded.",
    assumptions=["a data race report or a crash of the test process counts as a violation", "20 s without a queued response being decoded counts as a lost response"],
)

PROPS["C09"] = dict(
    pkg="c09", level="exploration",
    rule="generated FLV files (flags, tag type bytes, boundary timestamps and body sizes) muxed by the library and by an independent FLV v1 writer, compared byte for byte, checked by a strict parser, "
         "and demuxed by the library through segmented readers; per-check rules under coverage.checks",
    quick=dict(timeout=600), thorough=dict(shards=16, timeout=3000),
    technique="property-based testing (rapid): round trip + byte-exact differential against an independent FLV v1 writer/strict parser, segmented reads",
    level_text="Random exploration with boundary-biased sizes/timestamps and shrinking; the 2^24-1 body size is only drawn in the thorough tier.",
    level_note="Trusts internal/ref/flvref (FLV v1 writer and strict parser written from the Adobe specification).",
    assumptions=["internal/ref/flvref follows video_file_format_spec_v10 Annex E"],
)

PROPS["C10"] = dict(
    pkg="c10", level="exploration",
    rule="FLV audio/video frames enumerated over the first byte and trait bytes (Opus flag subsets, defined rates, level boundaries) plus rapid-generated frames and canonical tag bodies; "
         "oracles: decode(encode(f))==f, first-byte fields, byte layout written from FLV E.4.2/E.4.3, encode(decode(b))==b, rate-code table; per-check rules under coverage.checks",
    quick=dict(timeout=600), thorough=dict(shards=16, timeout=3000),
    technique="exhaustive enumeration of header/trait bytes + property-based testing (rapid) of frames and canonical bodies; round-trip and independent layout oracle",
    level_text="Header and trait bytes are enumerated completely (exhaustive checks listed in the evidence); payloads and canonical bodies are sampled.",
    level_note="Domain excludes what the packagers document as too short (1-byte audio bodies, non-AVC/HEVC video bodies under 5 bytes), Opus frames carrying a rate without the rate flag, and negative composition times.",
    assumptions=["FLV E.4.2/E.4.3 layout as coded in c10_test.go (refAudioBody / video layout)"],
)

PROPS["C11"] = dict(
    pkg="c11", level="exploration",
    rule="all 65536 AudioSpecificConfigs enumerated; all accepted ADTS header field combinations enumerated through an independent ISO 13818-7 writer/parser; rapid-generated multi-frame concatenations "
         "mixing library-encoded and reference-written frames (MPEG-2/4 id, CRC on/off, boundary lengths, sync patterns in payloads); per-check rules under coverage.checks",
    quick=dict(timeout=600), thorough=dict(shards=16, timeout=3000),
    technique="exhaustive enumeration (configs, header fields) + property-based testing (rapid) of frame concatenations; differential against an independent ISO 13818-7 ADTS writer/parser",
    level_text="The 2-byte config space and the ADTS header field space are enumerated completely; payloads, lengths and concatenations are sampled with boundary bias.",
    level_note="Trusts internal/ref/adtsref (ADTS bit layout and sampling-frequency table from ISO/IEC 13818-7 / 14496-3). One raw data block per frame.",
    assumptions=["internal/ref/adtsref follows ISO/IEC 13818-7 section 6.2", "number_of_raw_data_blocks_in_frame = 0"],
)

PROPS["C12"] = dict(
    pkg="c12", level="exploration",
    rule="all 256 NAL header bytes enumerated; rapid-generated AVC decoder configuration records and length-prefixed samples compared byte for byte with an independent ISO/IEC 14496-15 writer "
         "(reserved bits included) and round-tripped into fresh values; per-check rules under coverage.checks",
    quick=dict(timeout=600), thorough=dict(shards=16, timeout=3000),
    technique="exhaustive enumeration of NAL header bytes + property-based testing (rapid): round trip and byte-exact differential against an independent ISO/IEC 14496-15 writer/strict parser",
    level_text="The NAL header byte is enumerated completely; records and samples are sampled with boundary bias (31 SPS, 255 PPS, NAL sizes 1/255/256/65535, every length size).",
    level_note="Trusts internal/ref/avccref (record and sample layout from ISO/IEC 14496-15 5.2.4.1.1 / 5.3.4.2). Unmarshalling twice into the same value, >31 SPS and empty NAL units are outside the domain; "
               "the compatibility byte is not settable through the API, so arbitrary values of it are exercised through the bytes -> value -> bytes direction.",
    assumptions=["internal/ref/avccref follows ISO/IEC 14496-15 section 5.2.4.1.1 and 5.3.4.2"],
)

PROPS["C08"] = dict(
    pkg="c08", level="fault_enumeration",
    rule="for each generated RTMP session / FLV file every cut offset 0..len, every failing read call, every transport write byte count and write call is enumerated (evaluations = injected faults); "
         "plus generated nestings of the errors package constructors; a fault is non-trivial when it lands strictly inside an item; per-check rules under coverage.checks",
    quick=dict(timeout=900), thorough=dict(shards=16, timeout=3000),
    technique="fault injection enumerated over all cut offsets / call indices of rapid-generated sessions and files; oracle: errors.Cause identity + prefix-of-completely-transferred-items computed from the reference encoders' offsets",
    level_text="Per generated session or file the fault positions are enumerated completely (all byte offsets, all call indices); the sessions/files themselves are sampled (<= 3 KiB so that every offset is affordable).",
    level_note="Trusts the reference dechunker / FLV parser for item boundaries. A cut inside the 4-byte PreviousTagSize of an FLV tag may or may not return that tag (both accepted). Short writes without an error are not injected.",
    assumptions=["item boundaries come from internal/ref/rtmpref and internal/ref/flvref", "the transport reports a failure on the call that fails and on every later call"],
)

PROPS["C14"] = dict(
    pkg="c14", level="exploration",
    rule="frame sequences built by an independent RFC 6455 frame builder and fed to a library endpoint (both roles, created through the real handshake); oracle = receiver model written from RFC 6455 section 5 "
         "(delivered messages, error kind, pongs, close status); random long sequences, every cut offset of representative sessions, and a depth-first bounded-exhaustive odometer; per-check rules under coverage.checks",
    quick=dict(timeout=900), thorough=dict(shards=16, timeout=3000),
    technique="model-based property testing (rapid) against an RFC 6455 receiver model + bounded-exhaustive enumeration of frame alphabets + cut-offset enumeration",
    level_text="Random exploration of long frame sequences with shrinking, plus complete enumeration of an abstract frame alphabet to depth 2 (quick) / 3 (thorough) and of all cut offsets of three sessions.",
    level_note="Trusts the receiver model in internal/ref/wsref. Ambiguous inputs are not generated: 1-byte close payloads, close codes 1012-1014/1016-2999, UTF-8 validity of text payloads; non-minimal length "
               "encodings are accepted by the model. When the stream is cut inside a frame the model accepts either no close frame or 1002/1009.",
    assumptions=["receiver model follows RFC 6455 sections 5.2-5.5 and 7.4", "no extension negotiated in this check (RSV bits must be zero)"],
)

PROPS["C13"] = dict(
    pkg="c13", level="exploration",
    rule="sessions between a library client and a library server connected through the library's own handshake; messages written through every write API with generated partitions, buffer sizes, compression "
         "settings; oracle = round trip + independent strict RFC 6455/7692 parser on the sniffed wire of each direction + RFC accept key; plus a deterministic size sweep; per-check rules under coverage.checks",
    quick=dict(timeout=900), thorough=dict(shards=16, timeout=3000),
    technique="property-based testing (rapid): round trip plus differential validation of the sniffed wire with an independent RFC 6455/7692 frame parser/inflater; deterministic boundary sweep",
    level_text="Random exploration of sessions with shrinking and a deterministic sweep of sizes around every length-form and buffer boundary; multi-MiB messages only in the thorough tier.",
    level_note="Trusts internal/ref/wsref (strict frame parser, RFC 7692 inflate via compress/flate) and the in-memory transport; both endpoints are the library, the wire is judged by the independent parser.",
    assumptions=["internal/ref/wsref.ParseStrict encodes the sender-side rules of RFC 6455 section 5 and RFC 7692 section 7", "single goroutine: each message is read by the peer right after it was written"],
)

PROPS["C15"] = dict(
    pkg="c15", level="exploration", race=True,
    rule="histories with one data writer, a reader, up to four control-frame senders and an optional closer on one connection over a harness-owned transport whose script releases senders / yields / fails inside "
         "individual transport write calls; the sniffed wire is parsed by the independent frame parser; plus a deterministic enumeration of every write API after a sent Close; per-check rules under coverage.checks",
    quick=dict(timeout=900), thorough=dict(shards=8, timeout=3000),
    technique="schedule-assisted property-based testing (rapid): generated transport scripts create the barging opportunities, independent frame parser + message model as oracle, Go race detector; deterministic after-close enumeration",
    level_text="Exploration of transport-level schedules (which write call releases how many control senders, where Close lands, which call fails); a sender that could enter mid-frame will within the window if the "
               "write lock is broken. Go-scheduler interleavings below the transport level are covered by the race detector and repetition only.",
    level_note="Soundness does not depend on timing (correct code passes under every schedule); detection is schedule-assisted. Trusts internal/ref/wsref.ParseOne and the gated transport.",
    assumptions=["a data race report, a crash of the test process or two goroutines inside the transport Write count as violations", "20 s without progress counts as a stall"],
)

PROPS["C17"] = dict(
    pkg="c17", level="exploration",
    rule="generated JSON documents decorated with // and /* */ comments at token boundaries (strings rich in quotes, backslashes, comment markers), read through segmented readers; oracle: library decode of the "
         "decorated text == encoding/json decode of the undecorated text; comment-free text passes through byte for byte; per-check rules under coverage.checks",
    quick=dict(timeout=600), thorough=dict(shards=16, timeout=3000),
    technique="property-based metamorphic testing (rapid): decorate-with-comments must not change the decoded value (differential against encoding/json on the undecorated text)",
    level_text="Random exploration with shrinking over values, whitespace, comment placement/bodies and read segmentation.",
    level_note="Marker-free runs stay far below bufio.Scanner's 64 KiB token limit (beyond it the reader returns the explicit 'token too long' error; a stated bound, not a finding). Comments are placed only between tokens.",
    assumptions=["encoding/json on the undecorated text defines the meaning of the document"],
)

PROPS["C18"] = dict(
    pkg="c18", level="exploration", race=True,
    rule="generated histories of N goroutines creating/aliasing contexts and logging through every level/function with every context kind, against a writer that records each Write call; plus an id-counter stress; "
         "race detector on; per-check rules under coverage.checks",
    quick=dict(timeout=900), thorough=dict(shards=8, timeout=3000),
    technique="property-based testing (rapid) of concurrent histories with an invariant over the recorded write calls (uniqueness, one whole line per call, pid/cid/message), Go race detector, stress repetition",
    level_text="Goroutine interleavings are those the Go scheduler produces under 1..32 goroutines released together (exploration + race detector), not an enumeration of schedules.",
    level_note="Connection ids are observed through the logged [cid] field (the context key is unexported). Messages contain no newline; '%' only reaches the f-variants as an argument.",
    assumptions=["a data race report or a crash of the test process counts as a violation", "the writer installed with Switch is goroutine-safe (log.Logger serialises writes)"],
)

PROPS["C19"] = dict(
    pkg="c19", level="exploration",
    rule="generated values and errors handed to the success/error handlers, run against a ResponseRecorder and on a loopback server queried by the library's ApiRequest; oracle: status, headers, envelope shape, "
         "data JSON-equal to encoding/json of the value, JSONP wrapping, client reports an error for every error response and never for a success; per-check rules under coverage.checks",
    quick=dict(timeout=600), thorough=dict(shards=8, timeout=3000),
    technique="property-based testing (rapid): handler output checked against an envelope model and read back through the client half (round trip server -> client)",
    level_text="Random exploration with shrinking over value trees, error kinds/codes/texts (including error texts that are JSON envelopes) and the callback parameter.",
    level_note="Uses a loopback httptest server for the client half. Plain errors use HTTP statuses 400-599. Codes beyond 2^53 are only required to be reported as non-zero by the client.",
    assumptions=["loopback networking is available in the sandbox (the pinned suite uses it as well)"],
)

PROPS["C20"] = dict(
    pkg="c20", level="exploration",
    rule="generated (time, counter) observation histories for both meters driven through a build-tag-guarded hook with an injected clock; oracle: window model written from the statement (10 s / 30 s / 300 s cascade, "
         "signed increase / window length, average since the first non-zero observation) plus model-independent invariants; public-API check that reads before Start / after Close are refused",
    quick=dict(timeout=600), thorough=dict(shards=16, timeout=3000),
    technique="model-based property testing (rapid) over observation histories with an injected clock (hook kxps/export_verif.go), invariant checks at every step",
    level_text="Random exploration with shrinking over spacing (sub-window, exact-window, multi-window gaps) and counter behaviour (stall, jump, backwards, reset, wrap-around, 2^63 jumps).",
    level_note="Needs the verif hook (the public API samples on a 10 s wall-clock timer). An increase >= 2^63 between two samples is indistinguishable from a wrap and is modelled as backwards (rate 0); "
               "a counter value of 0 is 'no observation' (as the code treats it). Float comparison tolerance 1e-9 relative.",
    assumptions=["hook kxps/export_verif.go calls the same doSample/sampleAverage the timer goroutine and Average() call"],
)

PROPS["C16"] = dict(
    pkg="c16", level="exploration",
    rule="the full algorithm matrices (12 signature algorithms x fixture keys; 14 key-management x 6 content-encryption x 2 compression x serialisations x AAD) enumerated with rotating payload sizes; per object: "
         "round trip, wrong key must fail, single-bit flips of every serialised field must fail; rapid-generated objects with drawn sizes/positions; multi-recipient/-signature objects; JWK round trip and RFC 7638 "
         "thumbprint computed independently; ACME helpers through the verif hook; evaluations = verify/decrypt attempts; per-check rules under coverage.checks",
    quick=dict(timeout=1200), thorough=dict(shards=16, timeout=3000),
    technique="exhaustive enumeration of the algorithm matrix + property-based testing (rapid): round trip and tamper-must-fail metamorphic oracle on the serialised fields; independent RFC 7638 thumbprint",
    level_text="The algorithm/serialisation matrix is enumerated completely; payload sizes rotate over the boundary set; bit positions are first/last/drawn in the quick tier and every bit of small objects in the thorough tier.",
    level_note="Functional accept/reject behaviour only (no claim on cryptographic strength). Fixture keys in /verif/fixtures/keys.json include EC keys with leading-zero coordinates on every curve. "
               "AAD is only used with the JSON serialisation; oct keys have no thumbprint; flips are applied to decoded bytes (not to base64 text).",
    assumptions=["crypto/rand inside the library only affects ciphertext bits, not verdicts", "RFC 7638 canonical form as coded in refThumbprint"],
)

PROPS["C07"] = dict(
    pkg="c07", level="exploration",
    rule="15 decoder entry functions fed with (a) mutated valid encodings from the independent reference encoders / fixture keys, (b) random bytes up to 64 KiB, (c) native coverage-guided fuzzing in the thorough tier; "
         "oracle: the call returns (no panic, no stall); all enum helpers over their whole integer range; CPU-time growth of adversarial input families at 8-64 KiB; per-check rules under coverage.checks",
    quick=dict(timeout=1500), thorough=dict(shards=16, timeout=3000),
    fuzz=[dict(name="FuzzRtmpChunks", seconds=40), dict(name="FuzzRtmpMessage", seconds=40), dict(name="FuzzRtmpPackets", seconds=40), dict(name="FuzzAmf0", seconds=40), dict(name="FuzzFlvDemux", seconds=40), dict(name="FuzzFlvTags", seconds=40), dict(name="FuzzAac", seconds=40), dict(name="FuzzAvc", seconds=40), dict(name="FuzzWsServer", seconds=40), dict(name="FuzzWsClient", seconds=40), dict(name="FuzzJws", seconds=40), dict(name="FuzzJwe", seconds=40), dict(name="FuzzJwk", seconds=40), dict(name="FuzzOcsp", seconds=40), dict(name="FuzzJsonplus", seconds=40)],
    technique="fuzzing: grammar-based generation + structure-aware mutation (rapid), random bytes, native coverage-guided go test -fuzz per decoder; exhaustive enumeration of enum values; CPU-time ratio test for linearity",
    level_text="Search, not proof: mutated valid encodings and random bytes per decoder, coverage-guided fuzzing (thorough tier, 40 s x 15 targets x 16 workers), complete enumeration of enum values, and a fixed set of adversarial size families for the time bound.",
    level_note="A panic or a 60 s stall is the violation. Linear-time: violation iff t(64 KiB) >= 50 ms and t(64 KiB)/t(16 KiB) > 10 on thread CPU time (min of 5, GC off). Demuxer.ReadTag is only called with the size just read; "
               "websocket reads stop at the first error (documented). The AMF0 nesting family is an open known finding and is reported as KNOWN-FINDING.",
    assumptions=["inputs are bounded to 64 KiB", "the reference encoders only matter for reaching deep decoder states, not for the verdict"],
)

# additions of the third seeding wave (DESIGN.md 7.9), appended to the summary rule of each property
_WAVE3 = {
    "C01": "messages relayed / re-sent as the same object (also with a new timestamp and type), the client's first message sent right behind C2, io.EOF delivered with the last bytes of the session, "
           "payloads cut from larger application buffers (unchanged afterwards), messages kept uncopied across later reads",
    "C02": "the reading endpoint announces its own chunk size meanwhile; chunk-stream ids related by +-1/64/256/one bit; io.EOF delivered with the last bytes; messages kept uncopied across later reads",
    "C03": "packets edited in place after Size()/MarshalBinary (built and decoded), up to 20000 requests outstanding at once, _result as AMF3 command, received messages and decoded packets kept across later traffic",
    "C04": "the transport follows the wire with the reference de-chunker and acts when a request is complete (requests larger than the writer's buffer, announced chunk sizes up to 2^24), "
           "_result as AMF3 command, a transport that takes every byte of the last request and still reports an error",
    "C05": "near-grammar byte strings (valid encodings damaged by 1-3 edits): whatever the decoder accepts still satisfies Size() == bytes consumed",
    "C06": "encodings held uncopied while another value is marshalled; values edited in place and marshalled again",
    "C08": "deadline-kind transport errors (net.Error with Timeout()) at every read call, a read that does not return counts as a violation, chunks larger than the writer's buffer under write faults, nestings up to 400 layers",
    "C09": "tag bodies cut from one application buffer (unchanged afterwards), io.EOF delivered with the last bytes, tag bodies kept uncopied across later reads",
    "C10": "tags and frames kept uncopied across later Encode/Decode calls on the same and on other packagers",
    "C11": "a call-sequence model of ONE ADTS object (SetASC / Encode / Decode / ASC() in any order), frames kept uncopied, raw blocks cut from one application buffer",
    "C12": "results of MarshalBinary held while another value is marshalled; NAL sizes 2^16+-1, 2^24+-1, 2^25+3 enumerated in both tiers",
    "C13": "deadlines honoured on a harness-owned clock: idle periods after a handshake timeout, pings with deadlines and automatic pongs (a deadline left armed fails the next read/write)",
    "C14": "non-UTF-8 close reasons of every length 1..123, the application's own Close sent before reading, io.EOF delivered with the last bytes",
    "C15": "Close sent through every write API; a deterministic schedule where control senders give up waiting for the write lock while the data writer is held inside a transport write",
    "C16": "payloads of 70 KB - 1 MiB (5 MiB thorough), compressible and not; one Signer reconfigured (embedded JWK, nonce source) between signatures",
    "C17": "marker-free runs and strings longer than the reader's buffers (4 KiB - 70 KB), several readers alive at once, reads after the end of a document, io.EOF delivered with the last bytes",
    "C18": "Printf formats ending in a newline, argument slices with spare capacity (unchanged afterwards), aliases derived from a parent that carries an id of its own",
    "C19": "plain errors naming 3xx statuses, application errors that also name a status, success values of 64 KiB - 5 MiB (32 MiB thorough)",
    "C20": "clock origins incl. the zero time.Time and the Unix epoch",
}
for _k, _v in _WAVE3.items():
    PROPS[_k]["rule"] += "; third wave: " + _v

# additions of the fourth seeding wave (DESIGN.md 7.10)
_WAVE4 = {
    "C01": "independent sessions side by side on 3 x GOMAXPROCS goroutines",
    "C02": "announced chunk sizes above 2^24 with small low bytes",
    "C03": "waits through the Packet interface, commands as AMF3 command messages in typed waits, independent histories side by side; amf0 names of 255..4096 bytes and names differing in case / trailing NULs",
    "C04": "a typed reader goroutine (ExpectPacket with the response type), fractional and >= 2^63 transaction ids outstanding together",
    "C05": "container chains 64..1000 deep, long and related property names, independent trees side by side",
    "C06": "container chains 64..1000 deep in both directions, long and related property names, independent values side by side",
    "C07": "websocket streaming reads (NextReader, read after end, stale reader)",
    "C08": "transient read faults (one Read fails after k bytes, then the transport recovers) for every k; a long message in chunks of 1-9 bytes under write faults",
    "C09": "every body size 2^k-20..2^k+4 (k=8..16), tag headers that spell the file signature, a transport refusing the first write of a tag once, independent files side by side",
    "C10": "payloads that are ADTS frames / start with start codes or signatures, Opus payloads of 1268..1282 bytes, independent packagers side by side",
    "C11": "raw blocks that are themselves ADTS frames, rejected frames inside the object machine, independent ADTS objects side by side",
    "C12": "profile/level/constraint bytes from the standard's values, SPS+PPS counts summing to 256/255/32/224, a second record of equal length received into the same buffer, independent records side by side",
    "C13": "independent connections side by side (shared pools of the compression layer)",
    "C14": "permessage-deflate negotiated: compressed messages in fragments, every RSV combination with RSV2/RSV3; read buffers of 14..124 bytes; reasons behind invalid close codes; independent connections side by side",
    "C15": "permessage-deflate negotiated, pings/pongs sent by the writer goroutine through the message API, WriteControl deadlines already expired or far ahead, ping/pong payloads on the wire matched against the senders'",
    "C16": "drawn ordered sets of 2-4 recipients / signers over all algorithms (RSA recipients with different keys of one size), independent encrypters side by side with 200 KB - 1 MiB payloads",
    "C17": "string literals of 66-140 KB built from escape units at every alignment, independent readers side by side",
    "C18": "Switch(w), Close(), Switch(w) with the same writer",
    "C19": "strings holding a literal backslash followed by u0026/u003c/u003e",
    "C20": "instants not aligned to milliseconds",
}
for _k, _v in _WAVE4.items():
    PROPS[_k]["rule"] += "; fourth wave: " + _v

_WAVE6 = {
    "C01": "an endpoint writing while its own reader is inside an inbound chunk header (harness-owned schedule), messages of 2^24-2 and 2^24-1 payload bytes",
    "C02": "messages received earlier decoded again between reads, bufio.Reader transports",
    "C03": "call packets marshalling to exactly 2^16-1 .. 2^24-1 bytes, command names differing from the known ones in case / spaces / NULs",
    "C04": "responses nobody waits for read as plain messages by the typed reader",
    "C05": "results overwritten by the application (spare capacity included) before the same trees marshal again, property names of 32767..65535 bytes",
    "C06": "results overwritten by the application, also those of the value Discovery hands out for every marker byte",
    "C07": "chunk streams read by a client with requests outstanding (matched responses), JSON JWE without a protected header validly sealed by an independent AES-GCM",
    "C09": "every body size 0..4200, bufio.Reader transports",
    "C10": "payloads that are Opus identification/comment headers or start with container four-character codes; AVC trait + composition time spelling one",
    "C11": "a configuration written through the pointer ASC() returns (the model follows what ASC() reports next)",
    "C12": "records decoded into zero-value receivers, 0..3 SPS-extension NAL units, results overwritten by the application before the same values marshal again",
    "C14": "bufio.Reader transports",
    "C15": "the data writer sets / clears its write deadline before messages",
    "C16": "wrong keys of the same kind: EC keys on every other curve, symmetric keys one byte shorter / longer (an error, not a panic)",
    "C17": "comments of 65530..140001 bytes before / inside / after a value and at the end of input, the rest of a document drained with io.Copy after a first Read, bufio.Reader transports",
    "C19": "errors with a code or status of their own wrapping (Unwrap) an error of another kind, POST requests whose form body has a field named callback",
    "C20": "gaps of 2^31-1 ms .. 365 days between observations, a meter closed without ever having been started",
}
for _k, _v in _WAVE6.items():
    PROPS[_k]["rule"] += "; sixth round: " + _v

NOT_APPLICABLE = {}
HOOK_COMMITS = ["ba4d95f68dd5a0290f21f6bb6c969f905e9412da", "a27187fa8bc3d23076469a07766dcee96b1efc22"]
